package main

// C15 — stream "waiting for commands": when the cancel / deadline hits, the program is waiting in system(), in
// `cmd | getline`, in close() of a `print | cmd` pipe (or in the implicit close at the end of the run), for every kind of
// Config.Stdin a caller can pass and every way a context becomes done. Oracle per the property: once the context is done
// the call returns the context's error within a generous wall bound (the child is killed by exec.CommandContext, WaitDelay
// is 250 ms) and everything printed before the wait is in the output.
//
// Every run is made in a goroutine under a watchdog. When the watchdog fires the run is RELEASED (the writer of the
// io.Pipe / os.Pipe behind Config.Stdin is closed, the slow reader starts returning EOF) and awaited, so no goroutine is
// leaked and the harness never hangs. Every command carries a sleep duration that is unique to this harness process and
// case (`sleep 23.9<pid>9<case>`), so children that outlive their run are recognisable; they are killed at the end.
//
// Known finding G15-1 (class predicate c15IsG151): Config.Stdin is not an *os.File and its Read is blocked; a command
// started by system() / `cmd | getline` gets cmd.Stdin = p.stdin, os/exec copies it in a goroutine that exec.Cmd.Wait
// awaits even after WaitDelay expired and the child was killed. The call returns only when the reader yields.

import (
	"bufio"
	"bytes"
	"context"
	"errors"
	"fmt"
	"io"
	"os"
	"path/filepath"
	"runtime/pprof"
	"strconv"
	"strings"
	"sync"
	"sync/atomic"
	"syscall"
	"time"

	"github.com/benhoyt/goawk/interp"

	"verifharness/vh"
)

// ---- kinds of Config.Stdin --------------------------------------------------------------------------------------

type c15Stdin struct {
	Kind    string
	R       io.Reader
	IsFile  bool
	release func()      // make a blocked Read return (idempotent)
	cleanup func()      // close what was opened
	blocked func() bool // a Read call on R has been in progress for at least c15BlockedFor (non-file kinds)
}

// c15TrackReader knows whether a Read call is in progress and since when
type c15TrackReader struct {
	r     io.Reader
	mu    sync.Mutex
	in    int
	since time.Time // start of the oldest Read call in progress
}

func (t *c15TrackReader) Read(p []byte) (int, error) {
	t.mu.Lock()
	if t.in == 0 {
		t.since = time.Now()
	}
	t.in++
	t.mu.Unlock()
	defer func() {
		t.mu.Lock()
		t.in--
		t.mu.Unlock()
	}()
	return t.r.Read(p)
}

// c15BlockedFor = how long a Read call must have been in progress to count as "blocked in Read" (a reader that yields every
// 50 ms is inside Read nearly all the time, but never for long)
const c15BlockedFor = time.Second

func (t *c15TrackReader) blockedInRead() bool {
	t.mu.Lock()
	defer t.mu.Unlock()
	return t.in > 0 && time.Since(t.since) >= c15BlockedFor
}

// c15SlowReader yields one byte per period (at most limit bytes, then EOF); after release() it returns EOF at once
type c15SlowReader struct {
	period time.Duration
	limit  int
	n      int
	stop   chan struct{}
	once   sync.Once
}

func (s *c15SlowReader) Read(p []byte) (int, error) {
	if len(p) == 0 {
		return 0, nil
	}
	if s.limit >= 0 && s.n >= s.limit {
		return 0, io.EOF
	}
	t := time.NewTimer(s.period)
	defer t.Stop()
	select {
	case <-s.stop:
		return 0, io.EOF
	case <-t.C:
	}
	p[0] = "ab\ncd\n"[s.n%6]
	s.n++
	return 1, nil
}
func (s *c15SlowReader) release() { s.once.Do(func() { close(s.stop) }) }

type c15ErrReader struct{}

func (c15ErrReader) Read(p []byte) (int, error) { return 0, errors.New("c15: stdin read error") }

const c15StdinData = "d1 x\nd2 y\nd3 z\n"

// kinds used while a command is awaited and the context becomes done
var c15WaitStdinKinds = []string{"file:/dev/null", "file:os.Pipe-kept-open", "bytes.Reader:data", "strings.Reader:empty",
	"io.Pipe:never-written", "slow:50ms", "slow:4s", "error-reader"}

// kinds used for "never cancelled == Execute": every one of them reaches EOF (or an error) on its own
var c15EquivStdinKinds = []string{"file:/dev/null", "file:os.Pipe-data-then-closed", "bytes.Reader:data", "strings.Reader:empty",
	"io.Pipe:fed-then-closed", "slow:finite", "error-reader"}

func c15MakeStdin(kind string) *c15Stdin {
	st := &c15Stdin{Kind: kind, release: func() {}, cleanup: func() {}, blocked: func() bool { return false }}
	track := func(r io.Reader) {
		t := &c15TrackReader{r: r}
		st.R, st.blocked = t, t.blockedInRead
	}
	switch kind {
	case "file:/dev/null":
		f, err := os.Open("/dev/null")
		if err != nil {
			panic(err)
		}
		st.R, st.IsFile, st.cleanup = f, true, func() { f.Close() }
	case "file:os.Pipe-kept-open":
		r, w, err := os.Pipe()
		if err != nil {
			panic(err)
		}
		var once sync.Once
		st.R, st.IsFile = r, true
		st.release = func() { once.Do(func() { w.Close() }) }
		st.cleanup = func() { st.release(); r.Close() }
	case "file:os.Pipe-data-then-closed":
		r, w, err := os.Pipe()
		if err != nil {
			panic(err)
		}
		w.Write([]byte(c15StdinData))
		w.Close()
		st.R, st.IsFile, st.cleanup = r, true, func() { r.Close() }
	case "bytes.Reader:data":
		track(bytes.NewReader([]byte(c15StdinData)))
	case "strings.Reader:empty":
		track(strings.NewReader(""))
	case "io.Pipe:never-written":
		pr, pw := io.Pipe()
		track(pr)
		st.release = func() { pw.Close() }
		st.cleanup = func() { pw.Close(); pr.Close() }
	case "io.Pipe:fed-then-closed":
		pr, pw := io.Pipe()
		go func() {
			for _, l := range strings.SplitAfter(c15StdinData, "\n") {
				if l != "" {
					if _, err := pw.Write([]byte(l)); err != nil {
						return
					}
				}
			}
			pw.Close()
		}()
		track(pr)
		st.cleanup = func() { pr.Close() }
	case "slow:50ms", "slow:4s", "slow:finite":
		s := &c15SlowReader{period: 50 * time.Millisecond, limit: -1, stop: make(chan struct{})}
		if kind == "slow:4s" {
			s.period = 4 * time.Second
		}
		if kind == "slow:finite" {
			s.period, s.limit = 15*time.Millisecond, 6
		}
		track(s)
		st.release = s.release
		st.cleanup = s.release
	case "error-reader":
		track(c15ErrReader{})
	default:
		panic("unknown stdin kind " + kind)
	}
	return st
}

// ---- cases ---------------------------------------------------------------------------------------------------------

type c15WaitCase struct {
	Stream   string   `json:"stream"`
	Wait     string   `json:"waiting_in"`
	Place    string   `json:"place"`
	Stdin    string   `json:"config_stdin"`
	Ctx      string   `json:"ctx"` // timeout | cancel-timer | pre | deadline-past   (never-cancelled kinds: none | bg | todo | never | never-timeout)
	DelayMs  int      `json:"ctx_done_after_ms"`
	Prog     string   `json:"prog"`
	Args     []string `json:"args,omitempty"`
	FileData string   `json:"args_file_content,omitempty"`
	Buffered bool     `json:"buffered,omitempty"`
	MustErr  bool     `json:"must_err"`
	Inherits bool     `json:"command_inherits_stdin"`
	Prefix   string   `json:"prefix"`
	BoundS   float64  `json:"wall_bound_s"`
	Note     string   `json:"note,omitempty"`
}

type c15WaitRes struct {
	c15Res
	Late         float64 // seconds between the context becoming done and the return, when the call returned on its own
	Released     bool    // the watchdog fired: stdin was released
	StdinBlocked bool    // … and at that moment a Read on Config.Stdin had been in progress for a second or more
	AfterRelease float64 // seconds between the release and the return
	NeededKill   bool    // returned only after the leftover children were killed as well
	Hung         bool    // never returned
}

var c15Tag = fmt.Sprintf(".9%d9", os.Getpid())

func c15SleepToken(idx int) string { return fmt.Sprintf("%d%s%05d", 21+idx%7, c15Tag, idx) }

// the statement that waits; @S@ = unique sleep duration
var c15Waits = []struct {
	name     string
	stmt     string
	inherits bool
}{
	{"system(sleep)", `r = system("sleep @S@")`, true},
	{"system(cat)", `r = system("cat; exec sleep @S@")`, true},
	{"system(read;sleep)", `r = system("read x; exec sleep @S@")`, true},
	{"system(trap TERM;sleep)", `r = system("trap '' TERM; sleep @S@")`, true},
	{"getline-var", `"sleep @S@" | getline x`, true},
	{"getline-$0", `"sleep @S@; echo late" | getline`, true},
	{"getline-loop", `while (("i=0; while [ $i -lt 300 ]; do echo y; sleep 0.07; i=$((i+1)); done; : @S@" | getline line) > 0) nl++`, true},
	{"getline-cat", `"cat; exec sleep @S@" | getline x`, true},
	{"close(print|sleep)", `print "x" | "sleep @S@"; close("sleep @S@")`, false},
	{"close(print|cat;sleep)", `print "x" | "cat >/dev/null; exec sleep @S@"; close("cat >/dev/null; exec sleep @S@")`, false},
	{"write-blocked(print|sleep)", `big = sprintf("%300000s", "x"); print big | "sleep @S@"; close("sleep @S@")`, false},
	{"fflush(print|sleep);close", `print "x" | "sleep @S@"; fflush("sleep @S@"); r = close("sleep @S@")`, false},
}

// where the waiting statement W is; %s = W.  must: the program cannot end on its own
var c15WaitPlaces = []struct {
	name, tmpl string
	must, file bool
}{
	{"BEGIN", `BEGIN { print "pre"; %s; while (1) tick() }`, true, false},
	{"BEGIN-then-ends", `BEGIN { print "pre"; %s; print "after" }`, false, false},
	{"func-in-forin", `function w(  x, line, r, nl, big) { %s } BEGIN { a["k"]; print "pre"; for (k in a) w(); while (1) tick() }`, true, false},
	{"rule", `NR == 2 { print "pre"; %s; while (1) tick() }`, true, true},
	{"END", `END { print "pre"; %s; while (1) tick() }`, true, true},
	{"END-func-in-forin", `function w(  x, line, r, nl, big) { %s } END { a["k"]; print "pre"; for (k in a) w(); while (1) tick() }`, true, true},
}

var c15WaitCtxKinds = []string{"timeout", "cancel-timer", "timeout", "cancel-timer", "pre", "deadline-past"}

func c15BuildWait(idx, wi, pi int, stdin, ctxKind string, delay int, buffered bool, file string) c15WaitCase {
	w, p := c15Waits[wi], c15WaitPlaces[pi]
	stmt := strings.ReplaceAll(w.stmt, "@S@", c15SleepToken(idx))
	wc := c15WaitCase{Stream: "wait-for-command", Wait: w.name, Place: p.name, Stdin: stdin, Ctx: ctxKind, DelayMs: delay,
		Prog: fmt.Sprintf(p.tmpl, stmt), Buffered: buffered, MustErr: p.must, Inherits: w.inherits, Prefix: "pre\n"}
	if p.file {
		wc.Args, wc.FileData = []string{file}, "r1\nr2\nr3\n"
	}
	if ctxKind == "pre" || ctxKind == "deadline-past" {
		wc.DelayMs = 0
	}
	return wc
}

// ---- one run ----------------------------------------------------------------------------------------------------------

func c15RunWait(wc c15WaitCase, bound time.Duration) (res c15WaitRes) {
	if atomic.LoadInt32(&c15Hung) != 0 {
		res.Skipped = true
		return
	}
	s := c15NewSession(wc.Prog)
	st := c15MakeStdin(wc.Stdin)
	defer st.cleanup()
	var raw, errOut c15LockedBuf
	cfg := &interp.Config{Stdin: st.R, Output: &raw, Error: &errOut, Args: wc.Args, Funcs: s.funcs, Environ: []string{}}
	if wc.Buffered {
		cfg.Output = bufio.NewWriterSize(&raw, 1<<16)
	}
	mark := func() {
		s.mu.Lock()
		s.cancelled = true
		s.mu.Unlock()
	}
	delay := time.Duration(wc.DelayMs) * time.Millisecond
	ctx, cancel := context.Background(), context.CancelFunc(func() {})
	cancellable := true
	switch wc.Ctx {
	case "timeout":
		ctx, cancel = context.WithTimeout(context.Background(), delay)
		go func(c context.Context) { <-c.Done(); mark() }(ctx)
	case "cancel-timer":
		ctx, cancel = context.WithCancel(context.Background())
		fn := cancel
		t := time.AfterFunc(delay, func() { mark(); fn() })
		defer t.Stop()
	case "pre":
		ctx, cancel = context.WithCancel(context.Background())
		cancel()
		mark()
	case "deadline-past":
		ctx, cancel = context.WithDeadline(context.Background(), time.Now().Add(-time.Second))
		mark()
	case "never":
		ctx, cancel = context.WithCancel(context.Background())
		cancellable = false
	case "never-timeout":
		ctx, cancel = context.WithTimeout(context.Background(), time.Hour)
		cancellable = false
	case "todo":
		ctx, cancellable = context.TODO(), false
	case "bg", "none":
		cancellable = false
	default:
		panic("unknown ctx kind " + wc.Ctx)
	}
	defer cancel()

	type ret struct {
		status int
		err    error
		panic  string
		at     time.Time
	}
	ch := make(chan ret, 1)
	start := time.Now()
	go func() {
		var r ret
		defer func() {
			if p := recover(); p != nil {
				r.panic = fmt.Sprint(p)
			}
			r.at = time.Now()
			ch <- r
		}()
		if wc.Ctx == "none" {
			r.status, r.err = s.in.Execute(cfg)
		} else {
			r.status, r.err = s.in.ExecuteContext(ctx, cfg)
		}
	}()
	doneAt := start
	if cancellable {
		doneAt = start.Add(delay)
	}
	take := func(r ret) {
		res.Status, res.Err, res.Panic = r.status, r.err, r.panic
		res.Wall = r.at.Sub(start).Seconds()
	}
	wd := time.NewTimer(time.Until(doneAt.Add(bound)))
	defer wd.Stop()
	select {
	case r := <-ch:
		take(r)
		res.Late = r.at.Sub(doneAt).Seconds()
	case <-wd.C:
		res.Released = true
		res.StdinBlocked = st.blocked()
		if f := os.Getenv("C15_DEBUG_DUMP"); f != "" && !(wc.Inherits && (wc.Stdin == "io.Pipe:never-written" || wc.Stdin == "slow:4s")) {
			// debugging aid: all goroutine stacks at the moment an unexpected run missed its bound
			if fh, err := os.OpenFile(f, os.O_APPEND|os.O_CREATE|os.O_WRONLY, 0o644); err == nil {
				fmt.Fprintf(fh, "==== %s | %s | %s | %s %dms | %s\n", wc.Wait, wc.Place, wc.Stdin, wc.Ctx, wc.DelayMs, wc.Prog)
				pprof.Lookup("goroutine").WriteTo(fh, 2)
				fh.Close()
			}
		}
		relAt := time.Now()
		st.release()
		select {
		case r := <-ch:
			take(r)
			res.AfterRelease = r.at.Sub(relAt).Seconds()
		case <-time.After(20 * time.Second):
			res.NeededKill = true
			c15KillLeftovers()
			cancel()
			select {
			case r := <-ch:
				take(r)
				res.AfterRelease = r.at.Sub(relAt).Seconds()
			case <-time.After(20 * time.Second):
				res.Hung = true
				res.Panic = "the call did not return: not after the context was done, not after Config.Stdin was released, not after the children were killed"
				atomic.StoreInt32(&c15Hung, 1)
			}
		}
	}
	res.Out, res.ErrOut = raw.String(), errOut.String()
	s.mu.Lock()
	res.Cancelled, res.Ticks, res.TicksAfter = s.cancelled, s.ticks, s.after
	s.mu.Unlock()
	return res
}

// the property on one run whose context became done (timing aside): "" = holds
func c15WaitVerdict(wc c15WaitCase, r c15WaitRes) string {
	cs := c15Case{Ctx: "live", MustErr: wc.MustErr, Prefix: wc.Prefix}
	if wc.Ctx == "timeout" || wc.Ctx == "deadline-past" {
		cs.Ctx = "timeout" // the context's error is DeadlineExceeded
	}
	return c15Check(cs, r.c15Res)
}

const c15PromptAfterRelease = 8.0 // seconds; what "promptly once the reader was released" means on a loaded machine

// c15IsG151 is the class predicate of known finding G15-1 (narrow): the run did not return within the bound; Config.Stdin
// is not an *os.File and a Read on it was blocked at that time; the command was started by system() or `cmd | getline`
// (they get cmd.Stdin = Config.Stdin); and the call did return the right result — the context's error, or the normal
// result of a program that can end on its own, with everything printed before the wait delivered — promptly once the
// reader was released.
func c15IsG151(wc c15WaitCase, st *c15Stdin, r c15WaitRes) bool {
	return r.Released && !r.Hung && !r.NeededKill && r.Panic == "" &&
		!st.IsFile && r.StdinBlocked && wc.Inherits &&
		r.AfterRelease <= c15PromptAfterRelease &&
		c15WaitVerdict(wc, r) == ""
}

// ---- leftovers ------------------------------------------------------------------------------------------------------

// c15KillLeftovers kills every process whose command line carries this harness process's tag; returns how many
func c15KillLeftovers() int {
	ents, _ := filepath.Glob("/proc/[0-9]*/cmdline")
	n := 0
	for _, f := range ents {
		b, err := os.ReadFile(f)
		if err != nil || !bytes.Contains(b, []byte(c15Tag)) {
			continue
		}
		pid, _ := strconv.Atoi(strings.Split(f, "/")[2])
		if pid > 1 && pid != os.Getpid() {
			if syscall.Kill(pid, syscall.SIGKILL) == nil {
				n++
			}
		}
	}
	return n
}

// ---- the streams -----------------------------------------------------------------------------------------------------

type c15WaitOut struct {
	wc  c15WaitCase
	st  *c15Stdin // only Kind / IsFile are used after the run
	r   c15WaitRes
	re  *c15WaitRes // the serial re-run with a three times larger bound, when the first run missed the bound
	idx int
}

type c15WaitStream struct {
	outs      []c15WaitOut
	equiv     []c15EquivOut
	leftovers int
	dir       string
	wallWait  float64
	wallAll   float64
}

func c15Pool(n, workers int, f func(i int)) {
	var wg sync.WaitGroup
	next := make(chan int)
	for w := 0; w < workers; w++ {
		wg.Add(1)
		go func() {
			defer wg.Done()
			for i := range next {
				f(i)
			}
		}()
	}
	for i := 0; i < n; i++ {
		next <- i
	}
	close(next)
	wg.Wait()
}

// c15G151Witness is the recorded witness of G15-1 (always in the corpus)
func c15G151Witness(idx int) c15WaitCase {
	return c15WaitCase{Stream: "wait-for-command", Wait: "system(sleep)", Place: "witness", Stdin: "io.Pipe:never-written", Ctx: "timeout", DelayMs: 200,
		Prog: `BEGIN { print "before"; system("sleep ` + c15SleepToken(idx) + `"); print "after" }`, MustErr: false, Inherits: true, Prefix: "before\n",
		Note: "pr, pw := io.Pipe(); ctx, _ := context.WithTimeout(context.Background(), 200*time.Millisecond); interp.New(prog).ExecuteContext(ctx, &interp.Config{Stdin: pr, Output: &buf}) returns only after pw.Close()"}
}

func c15GenWaitCases(c *vh.Ctx, file string) []c15WaitCase {
	var cases []c15WaitCase
	add := func(wc c15WaitCase) { cases = append(cases, wc) }
	// fixed corpus: the G15-1 witness, its `cmd | getline` twin, and the same programs with stdin kinds that must not hang
	add(c15G151Witness(0))
	g := c15BuildWait(1, 4, 0, "io.Pipe:never-written", "cancel-timer", 150, false, file)
	add(g)
	for i, k := range []string{"file:/dev/null", "file:os.Pipe-kept-open", "bytes.Reader:data", "strings.Reader:empty", "slow:50ms", "error-reader"} {
		w := c15G151Witness(2 + i)
		w.Stdin, w.Place, w.Note = k, "witness-control", ""
		add(w)
	}
	add(c15BuildWait(8, 8, 0, "io.Pipe:never-written", "timeout", 150, false, file)) // print | cmd does not inherit stdin: no hang
	add(c15BuildWait(9, 0, 4, "file:os.Pipe-kept-open", "cancel-timer", 120, true, file))
	add(c15BuildWait(10, 7, 2, "file:os.Pipe-kept-open", "timeout", 120, false, file)) // cat reads the kept-open pipe itself
	add(c15BuildWait(11, 1, 0, "io.Pipe:never-written", "pre", 0, false, file))        // nothing is started under a done context
	add(c15BuildWait(12, 10, 3, "bytes.Reader:data", "cancel-timer", 100, false, file))
	// random combinations
	n := c.N(70, 900)
	for i := 0; i < n; i++ {
		idx := 100 + i
		wi, pi := c.Rng.Intn(len(c15Waits)), c.Rng.Intn(len(c15WaitPlaces))
		stdin := c15WaitStdinKinds[c.Rng.Intn(len(c15WaitStdinKinds))]
		if stdin == "slow:4s" && c.Rng.Intn(3) != 0 {
			stdin = "io.Pipe:never-written"
		}
		ctxKind := c15WaitCtxKinds[c.Rng.Intn(len(c15WaitCtxKinds))]
		delay := 40 + c.Rng.Intn(260)
		add(c15BuildWait(idx, wi, pi, stdin, ctxKind, delay, c.Rng.Intn(2) == 0, file))
	}
	return cases
}

// c15StartWaitStream runs the two command streams in the background (they mostly sleep) and returns a function that
// waits for them. Nothing of vh.Ctx is touched from the background goroutine except c.Rng BEFORE it starts.
func c15StartWaitStream(c *vh.Ctx, dir string) func() *c15WaitStream {
	ws := &c15WaitStream{}
	ws.dir = dir // removed by the caller when everything, the re-runs included, is over
	file := filepath.Join(dir, "records.txt")
	if err := os.WriteFile(file, []byte("r1\nr2\nr3\n"), 0o644); err != nil {
		panic(err)
	}
	cases := c15GenWaitCases(c, file)
	equiv := c15GenEquivCases(c, file)
	bound := 2500 * time.Millisecond
	ws.outs = make([]c15WaitOut, len(cases))
	ws.equiv = equiv
	done := make(chan struct{})
	t0 := time.Now()
	go func() {
		defer close(done)
		var misses int32 // runs that missed their bound outside the recorded G15-1 class
		c15Pool(len(cases), 12, func(i int) {
			wc := cases[i]
			wc.BoundS = bound.Seconds()
			st := c15MakeStdin(wc.Stdin) // only for Kind / IsFile
			st.cleanup()
			if atomic.LoadInt32(&misses) >= 16 {
				// enough witnesses for the retry pass to decide between load and a systematic failure; each further miss would
				// cost its bound plus the release and kill delays (seeded C15-s2 made every wait miss)
				ws.outs[i] = c15WaitOut{wc: wc, st: st, r: c15WaitRes{c15Res: c15Res{Skipped: true}}, idx: i}
				return
			}
			r := c15RunWait(wc, bound)
			if (r.Released || r.Hung) && !c15IsG151(wc, st, r) {
				atomic.AddInt32(&misses, 1)
			}
			ws.outs[i] = c15WaitOut{wc: wc, st: st, r: r, idx: i}
		})
		ws.leftovers = c15KillLeftovers()
		ws.wallWait = time.Since(t0).Seconds()
		c15Pool(len(ws.equiv), 8, func(i int) { c15RunEquiv(&ws.equiv[i]) })
		ws.wallAll = time.Since(t0).Seconds()
	}()
	return func() *c15WaitStream { <-done; return ws }
}

// c15RetryMisses: a miss of the wall bound that is not of the G15-1 class may be due to the load of the machine (this
// process runs its CPU-bound streams at the same time): once more, when nothing else runs in this process, with three times
// the bound
func c15RetryMisses(ws *c15WaitStream) {
	confirmed := 0 // misses that missed again when retried alone with three times the bound
	for i := range ws.outs {
		o := &ws.outs[i]
		if o.r.Skipped || o.r.Hung || !o.r.Released || c15IsG151(o.wc, o.st, o.r) {
			continue
		}
		if confirmed >= 6 {
			// six misses are confirmed: the failure is systematic, not load. Every further retry would cost its bound and the
			// release/kill delays again (a change that makes every wait miss kept this check busy for more than a quarter of
			// an hour — seeded C15-s2); the remaining misses are not judged.
			o.r.Skipped = true
			continue
		}
		wc := o.wc
		r := c15RunWait(wc, time.Duration(3*wc.BoundS*float64(time.Second)))
		o.re = &r
		if r.Released || r.Hung {
			confirmed++
		}
	}
	ws.leftovers += c15KillLeftovers()
}

func c15ReportWaitStream(c *vh.Ctx, ws *c15WaitStream) {
	c15RetryMisses(ws)
	for _, o := range ws.outs {
		wc, r := o.wc, o.r
		if r.Skipped {
			c.Hit("skipped-after-a-run-that-never-returned")
			continue
		}
		c.OracleCase()
		c.Eval(fmt.Sprint("wait", wc.Wait, wc.Place, wc.Stdin, wc.Ctx, wc.DelayMs, wc.Buffered), true)
		c.Hit("wait:in:" + wc.Wait)
		c.Hit("wait:place:" + wc.Place)
		c.Hit("wait:stdin:" + wc.Stdin)
		c.Hit("wait:ctx:" + wc.Ctx)
		got := func(r c15WaitRes) string {
			return fmt.Sprintf("err=%v status=%d wall=%.2fs late=%.2fs released=%v stdinBlockedInRead=%v afterRelease=%.2fs neededKill=%v ticksAfter=%d out=%q stderr=%q",
				r.Err, r.Status, r.Wall, r.Late, r.Released, r.StdinBlocked, r.AfterRelease, r.NeededKill, r.TicksAfter, c15Trunc(r.Out), c15Trunc(r.ErrOut))
		}
		want := fmt.Sprintf("the context's error (or, for a program that ends on its own, its normal result) within %.1fs of the context becoming done, output starting with %q", wc.BoundS, wc.Prefix)
		switch {
		case r.Hung:
			c.Fail(vh.Failure{Kind: "oracle", What: "waiting for a command: " + r.Panic, Case: wc, Got: got(r), Want: want})
		case !r.Released:
			c.Hit("wait:returned-within-bound")
			if msg := c15WaitVerdict(wc, r); msg != "" {
				c.Fail(vh.Failure{Kind: "oracle", What: "waiting for a command when the context becomes done: " + msg, Case: wc, Got: got(r), Want: want})
			}
		case c15IsG151(wc, o.st, r):
			c.Hit("wait:G15-1")
			c.Fail(vh.Failure{Kind: "oracle", Finding: "G15-1",
				What: "the call does not return after the context is done while a command started by system() / cmd | getline holds a non-file Config.Stdin whose Read blocks; it returned the right result as soon as the reader was released",
				Case: wc, Got: got(r), Want: want})
		case o.re != nil && c15IsG151(wc, o.st, *o.re):
			// the first run missed the bound without the reader's Read having been in progress for a second (under heavy load the
			// copy goroutine starts late); re-run alone it shows the pattern of the known finding
			c.Hit("wait:G15-1")
			c.Hit("wait:G15-1-on-re-run")
			c.Fail(vh.Failure{Kind: "oracle", Finding: "G15-1",
				What: "the call does not return after the context is done while a command started by system() / cmd | getline holds a non-file Config.Stdin whose Read blocks; it returned the right result as soon as the reader was released",
				Case: wc, Got: got(*o.re), Want: want})
		default:
			// missed the bound, not of the G15-1 class
			if msg := c15WaitVerdict(wc, r); msg != "" {
				c.Fail(vh.Failure{Kind: "oracle", What: "waiting for a command when the context becomes done: returned only after the watchdog released the run, and " + msg,
					Case: wc, Got: got(r), Want: want})
				continue
			}
			if o.re != nil && !o.re.Released && !o.re.Hung && c15WaitVerdict(wc, *o.re) == "" {
				c.Hit("wait:bound-missed-once-under-load-then-met")
				continue
			}
			g := got(r)
			if o.re != nil {
				g += " | re-run alone with 3x the bound: " + got(*o.re)
			}
			c.Fail(vh.Failure{Kind: "oracle", What: fmt.Sprintf("waiting for a command: the call did not return within %.1fs of the context becoming done (and again not within %.1fs when re-run alone)", wc.BoundS, 3*wc.BoundS),
				Case: wc, Got: g, Want: want})
		}
	}
	c15WaitCorrespondence(c, ws)
	c15ReportEquiv(c, ws.equiv)
	if ws.leftovers > 0 {
		c.Hit("wait:leftover-children-killed-at-the-end")
	}
	c.Note(fmt.Sprintf("command streams (run in the background): %d waits in %.1fs, then %d never-cancelled comparisons, %.1fs in all; %d leftover children killed",
		len(ws.outs), ws.wallWait, len(ws.equiv), ws.wallAll, ws.leftovers))
}

// c15ModelCopy maps a case to the model's description of the goroutine that copies Config.Stdin to the command
func c15ModelCopy(wc c15WaitCase) (string, int) {
	if !wc.Inherits || strings.HasPrefix(wc.Stdin, "file:") {
		return "none", 0
	}
	switch wc.Stdin {
	case "io.Pipe:never-written":
		return "blocked", 0
	case "slow:50ms":
		return "yields", 50
	case "slow:4s":
		return "yields", 4000
	}
	return "yields", 0 // bytes.Reader, strings.Reader, failing reader: the copy is over at once
}

// c15WaitCorrespondence compares each run of the wait stream with the Lean wait-state model (GoawkModel.C15Wait): the
// model says `stuck` exactly for the runs that returned only when the harness released a reader blocked in Read, and for
// the others its bound on the overrun (max WaitDelay d) is within the harness's wall bound.
func c15WaitCorrespondence(c *vh.Ctx, ws *c15WaitStream) {
	if !c.HasLean() {
		return
	}
	b2i := func(b bool) int {
		if b {
			return 1
		}
		return 0
	}
	var reqs []string
	var idx []int
	for i, o := range ws.outs {
		if o.r.Skipped || o.r.Hung {
			continue
		}
		kind, d := c15ModelCopy(o.wc)
		// exec.Cmd.Start under a context that is already done fails with the context's error, which the interpreter prints
		started := o.wc.Ctx != "pre" && o.wc.Ctx != "deadline-past" &&
			!strings.Contains(o.r.ErrOut, context.Canceled.Error()) && !strings.Contains(o.r.ErrOut, context.DeadlineExceeded.Error())
		reqs = append(reqs, fmt.Sprintf("wait %s %d %d %d %d", kind, d, b2i(o.wc.Wait == "system(trap TERM;sleep)"), b2i(started), o.wc.DelayMs))
		idx = append(idx, i)
	}
	ans := c.LeanBatch(reqs)
	for j, a := range ans {
		o := ws.outs[idx[j]]
		c.Trace()
		c.Hit("correspondence:wait-state")
		f := strings.Fields(a)
		last := o.r
		if o.re != nil {
			last = *o.re
		}
		metBound := !last.Released && !last.Hung
		stuckObserved := last.Released && last.StdinBlocked && !last.NeededKill
		bad := ""
		switch {
		case len(f) == 2 && f[0] == "stuck":
			if !stuckObserved {
				bad = "the model says the Wait never returns; the real call returned without the reader being released"
			}
		case len(f) == 3 && (f[0] == "err" || f[0] == "fin"):
			clk, _ := strconv.Atoi(f[1])
			overrun := clk - o.wc.DelayMs
			if clk == 0 {
				overrun = 0
			}
			if float64(overrun) <= 1000*o.wc.BoundS-500 && !metBound {
				bad = fmt.Sprintf("the model says the call returns at most %d ms after the context is done; the real call did not return within the bound", overrun)
			}
			if stuckObserved && float64(overrun) <= 1000*o.wc.BoundS-500 {
				bad = fmt.Sprintf("the real call returned only when the blocked reader was released; the model says it returns at most %d ms after the context is done", overrun)
			}
		default:
			bad = "unexpected answer of the driver"
		}
		if bad != "" {
			c.Fail(vh.Failure{Kind: "correspondence", What: "wait state: " + bad, Case: map[string]interface{}{"case": o.wc, "request": reqs[j]}, Got: a,
				Want: fmt.Sprintf("released=%v stdinBlockedInRead=%v late=%.2fs afterRelease=%.2fs err=%v stderr=%q", o.r.Released, o.r.StdinBlocked, o.r.Late, o.r.AfterRelease, o.r.Err, c15Trunc(o.r.ErrOut))})
		}
	}
}
