package main

// C15 — error identity, more kinds: the cancellation is followed within fewer than a thousand steps by each kind of
// run-time error the interpreter can raise, or by I/O on a stream that the cancellation tore down (Config.Output /
// Config.Stdin of a request whose connection ends with its context). The call must return the context's error.

import (
	"io"
	"sort"
	"strings"
)

var c15MoreSecondary = map[string]string{
	"mod-zero":             `cancel(); x = 5 % zero`,
	"nf-negative":          `cancel(); NF = zero - 1`,
	"bad-dynamic-regex":    `cancel(); re = "("; x = ("a" ~ re)`,
	"printf-too-few-args":  `cancel(); f = "%d %d\n"; printf f, 1`,
	"redirect-open-error":  `cancel(); print "x" > "/nonexistent-c15-dir/sub/file"`,
	"getline-from-writer":  `print "x" > "/dev/null"; cancel(); getline line < "/dev/null"`,
	"print-to-reader":      `getline line < "/dev/null"; cancel(); print "x" > "/dev/null"`,
	"native-func-error":    `cancel(); fail()`,
	"output-torn-down":     `cancel(); for (j = 0; j < 30; j++) print "line", j`,
	"stdin-torn-down":      `cancel(); r = (getline line); r2 = (getline line < "-"); x = 1/zero`,
	"few-steps-then-error": `cancel(); for (j = 0; j < 60; j++) tick(); x = 1/zero`,
}

func c15SortedKeys(m map[string]string) []string {
	ks := make([]string, 0, len(m))
	for k := range m {
		ks = append(ks, k)
	}
	sort.Strings(ks)
	return ks
}

// the main loop itself meets the torn-down stream: the read of the next record / the write of the next line fails
func c15TornMainLoopCases() []c15Case {
	in := strings.Repeat("rec\n", 50)
	return []c15Case{
		{Shape: "error-identity:main-loop:stdin-torn-down", Prog: `BEGIN { print "p" } NR == 2 { cancel() } { n++ }`, Input: in, Ctx: "live", MustErr: true, Prefix: "p\n", TornInput: true},
		{Shape: "error-identity:main-loop:output-torn-down", Prog: `NR == 2 { cancel() } { print }`, Input: in, Ctx: "live", MustErr: true, TornOutput: true},
		{Shape: "error-identity:main-loop:output-torn-down-buffered", Prog: `NR == 2 { cancel() } { printf "%5000s\n", $0 }`, Input: in, Ctx: "live", MustErr: true, TornOutput: true},
		{Shape: "error-identity:END:output-torn-down", Prog: `END { cancel(); print "x" }`, Input: in, Ctx: "live", MustErr: true, TornOutput: true},
		{Shape: "error-identity:getline-loop:stdin-torn-down", Prog: `BEGIN { print "p"; while ((r = (getline line)) > 0) if (++n == 2) cancel(); x = 1/zero }`, Input: in, Ctx: "live", MustErr: true, Prefix: "p\n", TornInput: true},
	}
}

type c15TornWriter struct {
	s *c15Session
	w io.Writer
}

func (t *c15TornWriter) Write(p []byte) (int, error) {
	t.s.mu.Lock()
	dead := t.s.cancelled
	t.s.mu.Unlock()
	if dead {
		return 0, io.ErrClosedPipe
	}
	return t.w.Write(p)
}

type c15TornReader struct {
	s     *c15Session
	lines []string
}

func (t *c15TornReader) Read(p []byte) (int, error) {
	t.s.mu.Lock()
	dead := t.s.cancelled
	t.s.mu.Unlock()
	if dead {
		return 0, io.ErrClosedPipe
	}
	for len(t.lines) > 0 && t.lines[0] == "" {
		t.lines = t.lines[1:]
	}
	if len(t.lines) == 0 {
		return 0, io.EOF
	}
	n := copy(p, t.lines[0])
	t.lines[0] = t.lines[0][n:]
	return n, nil
}
