package main

// C15 — cancellation stops execution promptly and is otherwise invisible.
//
// Implementation-side oracle (no model in the loop), with native functions cancel(), cancel_later() and tick():
//   * once the context is cancelled the call returns the context's error (errors.Is) — also inside nested calls, for-in,
//     patterns, END, and while waiting for system() / a piped command (bounded wall time);
//   * the number of tick() calls made after the cancellation is at most c15Bound ("about a thousand" interpreter steps);
//   * everything printed before the cancellation has been delivered to Config.Output when the call returns;
//   * ExecuteContext with a context that is never cancelled behaves exactly like Execute.
// Correspondence: for the loop shape `while (1) { tick(); if (++i == P) cancel() }` the Lean step-counter model predicts
// the exact number of tick() calls before the run returns.

import (
	"bufio"
	"bytes"
	"context"
	"errors"
	"fmt"
	"os"
	"path/filepath"
	"strings"
	"sync"
	"sync/atomic"
	"time"

	"github.com/benhoyt/goawk/interp"
	"github.com/benhoyt/goawk/parser"

	"verifharness/vh"
)

// "a fixed small number (about a thousand) of further interpreter steps": every tick() is at least one step
const c15Bound = 2000

type c15Case struct {
	Shape      string   `json:"shape"`
	Prog       string   `json:"prog"`
	Input      string   `json:"input,omitempty"`
	Vars       []string `json:"vars,omitempty"`
	Ctx        string   `json:"ctx"`                                   // live | pre | timeout | never | bg | todo | none (= Execute) | shared:A | shared:B (one context object per session)
	Buffered   bool     `json:"buffered,omitempty"`                    // Config.Output is a bufio.Writer
	MustErr    bool     `json:"must_err"`                              // the program cannot end on its own: the call must return the ctx error
	Prefix     string   `json:"prefix,omitempty"`                      // output that was printed before the cancellation
	MaxWall    float64  `json:"max_wall_s,omitempty"`                  // only for shapes that wait for a `sleep 5` child
	ArgsFile   string   `json:"args_file,omitempty"`                   // file operand (content: "f1\nf2\n") …
	ArgsN      int      `json:"args_file_repeated,omitempty"`          // … given this many times
	TornOutput bool     `json:"output_fails_once_cancelled,omitempty"` // Config.Output returns io.ErrClosedPipe once the context is cancelled (a connection torn down with the request)
	TornInput  bool     `json:"stdin_fails_once_cancelled,omitempty"`  // Config.Stdin yields one line per Read and returns io.ErrClosedPipe once the context is cancelled
}

type c15Res struct {
	Out        string
	ErrOut     string
	Status     int
	Err        error
	Panic      string
	Ticks      int
	TicksAfter int
	Cancelled  bool
	Wall       float64
	Skipped    bool
}

type c15LockedBuf struct {
	mu sync.Mutex
	b  bytes.Buffer
}

func (l *c15LockedBuf) Write(p []byte) (int, error) {
	l.mu.Lock()
	defer l.mu.Unlock()
	return l.b.Write(p)
}
func (l *c15LockedBuf) String() string {
	l.mu.Lock()
	defer l.mu.Unlock()
	return l.b.String()
}

// c15Session is one Interpreter (one program, one Funcs map) on which several calls can be made.
type c15Session struct {
	prog      *parser.Program
	in        *interp.Interpreter
	funcs     map[string]any
	mu        sync.Mutex
	cancelFn  context.CancelFunc
	cancelled bool
	ticks     int
	after     int
	shared    map[string]c15Shared // context objects reused across calls of this session ("shared:A", "shared:B")
}

type c15Shared struct {
	ctx    context.Context
	cancel context.CancelFunc
}

func c15NewSession(src string) *c15Session {
	s := &c15Session{}
	doCancel := func() {
		s.mu.Lock()
		s.cancelled = true
		fn := s.cancelFn
		s.mu.Unlock()
		if fn != nil {
			fn()
		}
	}
	s.funcs = map[string]any{
		"cancel":  func() int { doCancel(); return 1 },
		"wait_ms": func(ms int) { time.Sleep(time.Duration(ms) * time.Millisecond) },
		"cancel_later": func(ms int) {
			go func() {
				time.Sleep(time.Duration(ms) * time.Millisecond)
				doCancel()
			}()
		},
		"fail": func() (int, error) { return 0, errors.New("c15: native function failed") },
		"tick": func() {
			s.mu.Lock()
			s.ticks++
			if s.cancelled {
				s.after++
			}
			s.mu.Unlock()
		},
	}
	prog, err := parser.ParseProgram([]byte(src), &parser.ParserConfig{Funcs: s.funcs})
	if err != nil {
		panic(fmt.Sprintf("harness program does not parse: %v\n%s", err, src))
	}
	s.prog = prog
	s.in, _ = interp.New(prog)
	return s
}

// run makes one call (cs.Prog is ignored: the session has its program).
func (s *c15Session) run(cs c15Case) (res c15Res) {
	var raw c15LockedBuf
	var errOut c15LockedBuf
	cfg := &interp.Config{Stdin: strings.NewReader(cs.Input), Output: &raw, Error: &errOut, Vars: cs.Vars, Funcs: s.funcs, Environ: []string{}}
	if cs.Buffered {
		cfg.Output = bufio.NewWriterSize(&raw, 1<<16)
	}
	for i := 0; i < cs.ArgsN; i++ {
		cfg.Args = append(cfg.Args, cs.ArgsFile)
	}
	if cs.TornOutput {
		cfg.Output = &c15TornWriter{s: s, w: &raw}
	}
	if cs.TornInput {
		cfg.Stdin = &c15TornReader{s: s, lines: strings.SplitAfter(cs.Input, "\n")}
	}
	s.mu.Lock()
	s.cancelFn, s.cancelled, s.ticks, s.after = nil, false, 0, 0
	s.mu.Unlock()
	ctx := context.Background()
	switch cs.Ctx {
	case "todo":
		ctx = context.TODO()
	case "live", "never":
		c, cancel := context.WithCancel(context.Background())
		ctx = c
		s.mu.Lock()
		s.cancelFn = cancel
		s.mu.Unlock()
		defer cancel()
	case "shared:A", "shared:B":
		if s.shared == nil {
			s.shared = map[string]c15Shared{}
		}
		sh, ok := s.shared[cs.Ctx]
		if !ok {
			c, cancel := context.WithCancel(context.Background())
			sh = c15Shared{c, cancel}
			s.shared[cs.Ctx] = sh
		}
		ctx = sh.ctx
		s.mu.Lock()
		s.cancelFn = sh.cancel
		s.cancelled = sh.ctx.Err() != nil
		s.mu.Unlock()
	case "pre":
		c, cancel := context.WithCancel(context.Background())
		cancel()
		ctx = c
		s.cancelled = true
	case "timeout":
		c, cancel := context.WithTimeout(context.Background(), 30*time.Millisecond)
		ctx = c
		defer cancel()
	}
	defer func() {
		if p := recover(); p != nil {
			res.Panic = fmt.Sprint(p)
		}
	}()
	start := time.Now()
	if cs.Ctx == "none" {
		res.Status, res.Err = s.in.Execute(cfg)
	} else {
		res.Status, res.Err = s.in.ExecuteContext(ctx, cfg)
	}
	res.Wall = time.Since(start).Seconds()
	res.Out, res.ErrOut = raw.String(), errOut.String()
	s.mu.Lock()
	res.Cancelled, res.Ticks, res.TicksAfter = s.cancelled, s.ticks, s.after
	s.cancelFn = nil
	s.mu.Unlock()
	return res
}

func c15Run(cs c15Case) c15Res { return c15NewSession(cs.Prog).run(cs) }

// c15Guard runs f with a watchdog: a call that never returns (the property's worst violation) must not hang the check.
func c15Guard(f func() c15Res) c15Res {
	if atomic.LoadInt32(&c15Hung) != 0 {
		return c15Res{Skipped: true}
	}
	ch := make(chan c15Res, 1)
	go func() { ch <- f() }()
	select {
	case r := <-ch:
		return r
	case <-time.After(90 * time.Second):
		atomic.StoreInt32(&c15Hung, 1)
		return c15Res{Panic: "the call did not return within 90 s", Cancelled: true}
	}
}

var c15Hung int32 // set once a run failed to return: the remaining runs are skipped (the stuck goroutine keeps a core busy)

func c15RunGuard(cs c15Case) c15Res { return c15Guard(func() c15Res { return c15Run(cs) }) }

// c15Disturbed: the run lost output of a command because the machine is so loaded that os/exec's copy goroutine did not
// finish within WaitDelay (250 ms) of the command's exit ("exec: WaitDelay expired before I/O complete" on stderr, system()
// returns -1). That happens with and without a context; a comparison of two runs of which one was disturbed is repeated.
func c15Disturbed(rs ...c15Res) bool {
	for _, r := range rs {
		if strings.Contains(r.ErrOut, "WaitDelay expired") {
			return true
		}
	}
	return false
}

func c15IsCtxErr(err error) bool {
	return errors.Is(err, context.Canceled) || errors.Is(err, context.DeadlineExceeded)
}

// c15Check applies the property to one cancelled run. "" = holds.
func c15Check(cs c15Case, r c15Res) string {
	if r.Panic != "" {
		return "panic: " + r.Panic
	}
	if cs.MaxWall > 0 && r.Wall > cs.MaxWall {
		return fmt.Sprintf("returned after %.2fs (limit %.2fs)", r.Wall, cs.MaxWall)
	}
	if r.TicksAfter > c15Bound {
		return fmt.Sprintf("%d tick() calls after the cancellation (bound %d)", r.TicksAfter, c15Bound)
	}
	if cs.MustErr {
		if r.Err == nil {
			return "returned no error although the program cannot end on its own"
		}
		if !c15IsCtxErr(r.Err) {
			return "returned an error that is not the context's: " + r.Err.Error()
		}
		want := context.Canceled
		if cs.Ctx == "timeout" {
			want = context.DeadlineExceeded
		}
		if !errors.Is(r.Err, want) {
			return fmt.Sprintf("returned %v, the context's error is %v", r.Err, want)
		}
	} else if r.Err != nil && !c15IsCtxErr(r.Err) {
		return "returned an error that is not the context's: " + r.Err.Error()
	}
	if !strings.HasPrefix(r.Out, cs.Prefix) {
		return fmt.Sprintf("output printed before the cancellation was not delivered: got %q, want prefix %q", c15Trunc(r.Out), c15Trunc(cs.Prefix))
	}
	return ""
}

func c15Trunc(s string) string {
	if len(s) > 200 {
		return s[:100] + "…" + s[len(s)-80:]
	}
	return s
}

func c15Lines(n int) string {
	var b strings.Builder
	for i := 1; i <= n; i++ {
		fmt.Fprintf(&b, "%d\n", i)
	}
	return b.String()
}

const c15LoopShape = `BEGIN { while (1) { tick(); if (++i == P) cancel() } }`

var c15LoopOpcodes = []string{"Num", "JumpFalse", "CallNative", "Drop", "Global", "Num", "Add", "Dupe", "AssignGlobal", "Global",
	"JumpNotEquals", "CallNative", "Drop", "Num", "JumpTrue"}

// programs for "never cancelled ExecuteContext == Execute"
var c15Plain = []string{
	`BEGIN { n = 10 } { s += $1; a[NR] = $0 } END { print s, NR, length(a), n, FILENAME, NF, $0 }`,
	`function f(k) { return k > 20 ? k : f(k+1) } { print NR, $2, f(NR); c++ } END { print c, rand() < 2, RT "|"; for (i = 0; i < 3000; i++) t += i; print t }`,
	`{ while ((getline line) > 0) cnt++; print cnt, NR, $0 } END { match("xxab", /ab/); print RSTART; $3 = "z"; print; print 3.14159 "" }`,
	`NR==2 { exit 7 } { print $1; next } END { print "end", $0 }`,
	`/start/,/stop/ { print "in", $0 } { printf "%5.2f|%c|%s\n", $1, $2, length($2) } END { for (i = 0; i < 2500; i++) u[i % 7]++; for (k in u) n += u[k]; print n; x = 1/zero }`,
	`BEGIN { while (i++ < 5000) s = s + i; print s; system("echo sys"); "echo hi" | getline x; print x }`,
	`BEGIN { for (i = 0; i < 1200; i++) tick(); print "done" } END { print NR }`,
}
var c15Inputs = []string{"", "1 2\n3 4\n", "start\nmid x\nstop\nafter\n", "5\n6\n7\n", "a b c\n"}

func main() { vh.Main("C15", runC15) }

func runC15(c *vh.Ctx) {
	c.Rule("cancelled runs: program shape (tight loop, recursion depth 50, for-in over a big array, one-line function in a loop, pattern " +
		"function, main rules over many records, END, pending buffered output, system(sleep), print | sleep, sleep | getline, numbered " +
		"output) x point of cancellation (script calls cancel() at a random iteration / record; cancel_later(ms) while a child runs; " +
		"context cancelled before the call; 30 ms deadline) x plain or bufio output; never-cancelled runs: 7 programs x 5 inputs x " +
		"{Execute, ExecuteContext(Background), ExecuteContext(live)}; bodies that leave every record / iteration through next, nextfile, " +
		"break out of for-in, return (1-12 tick() per body) cancelled at record K; waiting for commands: 12 waiting statements (system, " +
		"cmd | getline var/$0/loop, close / fflush / blocked write of print | cmd; commands sleep, cat, read, trap TERM) x 6 places " +
		"(BEGIN, function in for-in, rule, END, ...) x 8 kinds of Config.Stdin (*os.File /dev/null, *os.File pipe kept open, bytes.Reader, " +
		"strings.Reader, io.Pipe never written, reader yielding a byte per 50 ms / per 4 s, failing reader) x {WithTimeout, WithCancel + " +
		"timer, pre-cancelled, deadline in the past}, each run under a watchdog that releases the reader; never-cancelled == Execute for 12 " +
		"programs whose commands read standard input x 7 kinds of Config.Stdin x {Background, TODO, WithCancel, WithTimeout(1h)}; error " +
		"identity: 17 kinds of secondary error (run-time errors, killed commands, Config.Output / Config.Stdin failing once cancelled) x 9 " +
		"places; non-trivial = the context was cancelled while the program was running")

	tmpDir, err := os.MkdirTemp("", "c15f")
	if err != nil {
		panic(err)
	}
	defer os.RemoveAll(tmpDir)
	twoLines := filepath.Join(tmpDir, "two-lines.txt")
	if err := os.WriteFile(twoLines, []byte("f1\nf2\n"), 0o644); err != nil {
		panic(err)
	}
	// the two command streams (mostly sleeping) run in the background while the CPU-bound streams below run
	waitStreamDone := c15StartWaitStream(c, tmpDir)
	defer func() {
		if waitStreamDone != nil {
			waitStreamDone() // never leave the function with runs in flight
		}
	}()

	var cases []c15Case
	add := func(cs c15Case) {
		cases = append(cases, cs)
	}
	rec100k := strings.Repeat("x\n", 100000)
	// ---- fixed corpus ----
	add(c15Case{Shape: "loop", Prog: `BEGIN { print "before"; cancel(); while (1) tick() }`, Ctx: "live", MustErr: true, Prefix: "before\n"})
	add(c15Case{Shape: "recursion50", Prog: `function f(n) { tick(); if (n > 0) f(n-1); tick() } BEGIN { cancel(); while (1) f(50) }`, Ctx: "live", MustErr: true})
	add(c15Case{Shape: "forin", Prog: `BEGIN { for (i = 0; i < 20000; i++) a[i]; print "filled"; cancel(); for (k in a) tick() }`, Ctx: "live", MustErr: true, Prefix: "filled\n"})
	add(c15Case{Shape: "forin-nested-loop", Prog: `BEGIN { for (i = 0; i < 50; i++) a[i]; cancel(); while (1) for (k in a) tick() }`, Ctx: "live", MustErr: true})
	add(c15Case{Shape: "func-in-loop", Prog: `function g() { tick() } BEGIN { cancel(); while (1) g() }`, Ctx: "live", MustErr: true})
	add(c15Case{Shape: "pattern-func", Prog: `function t() { tick(); return 1 } NR == 3 { cancel() } t() { n++ }`, Input: rec100k, Ctx: "live", MustErr: true})
	add(c15Case{Shape: "main-rules", Prog: `NR == 1 { cancel() } { tick() }`, Input: rec100k, Ctx: "live", MustErr: true})
	add(c15Case{Shape: "end", Prog: `{ n++ } END { print n; cancel(); while (1) tick() }`, Input: "a\nb\n", Ctx: "live", MustErr: true, Prefix: "2\n"})
	add(c15Case{Shape: "pending-output", Prog: `BEGIN { printf "pending"; cancel(); while (1) tick() }`, Ctx: "live", Buffered: true, MustErr: true, Prefix: "pending"})
	add(c15Case{Shape: "pre-cancelled", Prog: `BEGIN { while (1) tick() }`, Ctx: "pre", MustErr: true})
	add(c15Case{Shape: "pre-cancelled-short", Prog: `BEGIN { print "hi" }`, Ctx: "pre", MustErr: false})
	add(c15Case{Shape: "timeout", Prog: `BEGIN { while (1) tick() }`, Ctx: "timeout", MustErr: true, MaxWall: 4})
	add(c15Case{Shape: "timeout-forin", Prog: `BEGIN { for (i = 0; i < 100; i++) a[i]; while (1) for (k in a) n++ }`, Ctx: "timeout", MustErr: true, MaxWall: 4})
	add(c15Case{Shape: "system-sleep", Prog: `BEGIN { print "go"; cancel_later(60); system("sleep 5"); while (1) tick() }`, Ctx: "live", MustErr: true, Prefix: "go\n", MaxWall: 4})
	add(c15Case{Shape: "print-pipe-sleep", Prog: `BEGIN { cancel_later(60); print "x" | "sleep 5"; close("sleep 5"); while (1) tick() }`, Ctx: "live", MustErr: true, MaxWall: 4})
	add(c15Case{Shape: "print-pipe-sleep-at-exit", Prog: `BEGIN { print "out"; cancel_later(60); print "x" | "sleep 5" }`, Ctx: "live", MustErr: false, Prefix: "out\n", MaxWall: 4})
	add(c15Case{Shape: "getline-pipe-sleep", Prog: `BEGIN { cancel_later(60); "sleep 5" | getline x; while (1) tick() }`, Ctx: "live", MustErr: true, MaxWall: 4})
	add(c15Case{Shape: "timeout-system-sleep", Prog: `BEGIN { system("sleep 5"); while (1) tick() }`, Ctx: "timeout", MustErr: true, MaxWall: 4})
	nCorpus := len(cases)

	// ---- random points of cancellation ----
	for i := c.N(150, 4000); i > 0; i-- {
		k := 1 + c.Rng.Intn(3000)
		buffered := c.Rng.Intn(2) == 0
		switch c.Rng.Intn(11) {
		case 7, 8, 9, 10:
			add(c15LeaveCase(c, k, buffered, twoLines))
		case 0: // numbered output: lines 1..k were printed before cancel()
			add(c15Case{Shape: "numbered-output", Prog: `BEGIN { for (i = 1; ; i++) { print i; if (i == K) cancel() } }`, Vars: []string{"K", fmt.Sprint(k)},
				Ctx: "live", Buffered: buffered, MustErr: true, Prefix: c15Lines(k)})
		case 1:
			add(c15Case{Shape: "loop@k", Prog: `BEGIN { while (1) { tick(); if (++i == K) { print "at", i; cancel() } } }`, Vars: []string{"K", fmt.Sprint(k)},
				Ctx: "live", Buffered: buffered, MustErr: true, Prefix: fmt.Sprintf("at %d\n", k)})
		case 2:
			d := 1 + c.Rng.Intn(200)
			add(c15Case{Shape: "recursion@depth", Prog: `function f(n) { tick(); if (n == D) cancel(); if (n > 0) f(n-1) } BEGIN { while (1) f(D + 7) }`,
				Vars: []string{"D", fmt.Sprint(d)}, Ctx: "live", MustErr: true})
		case 3:
			add(c15Case{Shape: "main-rules@record", Prog: `NR == K { print NR; cancel() } { tick() }`, Input: strings.Repeat("x\n", k+30000), Vars: []string{"K", fmt.Sprint(k)},
				Ctx: "live", Buffered: buffered, MustErr: true, Prefix: fmt.Sprintf("%d\n", k)})
		case 4:
			add(c15Case{Shape: "forin@k", Prog: `BEGIN { for (i = 0; i < K + 3000; i++) a[i]; for (k in a) { tick(); if (++n == K) cancel() } }`, Vars: []string{"K", fmt.Sprint(k)},
				Ctx: "live", MustErr: true})
		case 5:
			add(c15Case{Shape: "end@k", Prog: `END { while (1) { tick(); if (++i == K) { printf "e%d", i; cancel() } } }`, Input: "a\n", Vars: []string{"K", fmt.Sprint(k)},
				Ctx: "live", Buffered: buffered, MustErr: true, Prefix: fmt.Sprintf("e%d", k)})
		case 6:
			add(c15Case{Shape: "getline-loop@k", Prog: `BEGIN { while ((getline l) > 0) { tick(); if (++i == K) cancel() } }`, Input: strings.Repeat("y\n", k+30000), Vars: []string{"K", fmt.Sprint(k)},
				Ctx: "live", MustErr: true})
		}
	}
	results := make([]c15Res, len(cases))
	// cases that start processes or depend on wall time run one after the other; the rest in parallel
	for i := 0; i < nCorpus; i++ {
		results[i] = c15RunGuard(cases[i])
	}
	vh.Parallel(len(cases)-nCorpus, func(i int) { results[nCorpus+i] = c15RunGuard(cases[nCorpus+i]) })
	for i, cs := range cases {
		r := results[i]
		if r.Skipped {
			c.Hit("skipped-after-a-run-that-never-returned")
			continue
		}
		c.OracleCase()
		c.Eval(fmt.Sprint(cs.Shape, cs.Prog, cs.Vars, cs.Ctx, cs.Buffered), r.Cancelled || cs.Ctx == "timeout")
		c.Hit("shape:" + cs.Shape)
		c.Hit("ctx:" + cs.Ctx)
		c.Hit(fmt.Sprintf("ticks-after-cancel:%s", c15Bucket(r.TicksAfter)))
		if r.Err != nil {
			c.Hit("returned:ctx-error")
		} else {
			c.Hit("returned:nil")
		}
		if i < 6 {
			c.Sample(map[string]interface{}{"shape": cs.Shape, "ticks_after_cancel": r.TicksAfter, "err": fmt.Sprint(r.Err), "wall_s": r.Wall})
		}
		if msg := c15Check(cs, r); msg != "" {
			cs2 := cs
			if len(cs2.Input) > 60 {
				cs2.Input = fmt.Sprintf("%q repeated, %d bytes", cs2.Input[:2], len(cs2.Input))
			}
			cs2.Prefix = c15Trunc(cs2.Prefix)
			c.Fail(vh.Failure{Kind: "oracle", What: msg, Case: cs2, Got: fmt.Sprintf("err=%v ticks=%d ticksAfter=%d wall=%.2fs out=%q", r.Err, r.Ticks, r.TicksAfter, r.Wall, c15Trunc(r.Out))})
		}
	}

	// ---- never cancelled: ExecuteContext == Execute ----
	type nv struct {
		prog, input int
	}
	var nvs []nv
	for p := range c15Plain {
		for in := range c15Inputs {
			nvs = append(nvs, nv{p, in})
		}
	}
	for _, x := range nvs {
		if x.prog == 5 && !c.Thorough() && x.input > 0 {
			continue // the program that starts processes: once in the quick tier
		}
		base := c15Case{Shape: "never-cancelled", Prog: c15Plain[x.prog], Input: c15Inputs[x.input], Vars: []string{"zero", "0"}}
		var ref c15Res
		for j, kind := range []string{"none", "bg", "never"} {
			cs := base
			cs.Ctx = kind
			cs.Buffered = x.input%2 == 1
			r := c15RunGuard(cs)
			if r.Skipped {
				continue
			}
			c.OracleCase()
			c.Eval(fmt.Sprint("never", x.prog, x.input, kind), false)
			c.Hit("never-cancelled:" + kind)
			if j == 0 {
				ref = r
				continue
			}
			differs := func() bool {
				return r.Out != ref.Out || r.Status != ref.Status || fmt.Sprint(r.Err) != fmt.Sprint(ref.Err) || r.Ticks != ref.Ticks || r.Panic != ref.Panic
			}
			for try := 0; try < 3 && differs() && c15Disturbed(r, ref); try++ {
				c.Hit("comparison-repeated:command-output-lost-to-WaitDelay-under-load")
				refCs := cs
				refCs.Ctx = "none"
				ref, r = c15RunGuard(refCs), c15RunGuard(cs)
			}
			if differs() {
				c.Fail(vh.Failure{Kind: "oracle", What: "ExecuteContext with a context that is never cancelled differs from Execute", Case: cs,
					Got:  fmt.Sprintf("status=%d err=%v ticks=%d out=%q", r.Status, r.Err, r.Ticks, c15Trunc(r.Out)),
					Want: fmt.Sprintf("status=%d err=%v ticks=%d out=%q", ref.Status, ref.Err, ref.Ticks, c15Trunc(ref.Out))})
			}
		}
	}

	// ---- sequences on ONE Interpreter: a cancelled / expired / pre-cancelled ExecuteContext, then a call that is never
	// cancelled (ExecuteContext(Background), ExecuteContext(TODO), Execute, ExecuteContext(fresh live context)); the second
	// call must equal the same call on a fresh interpreter and must not return a context error ----
	seqProgs := []string{
		// > 1000 instructions; K = iteration that calls cancel() (-1: never); SPIN: never ends on its own
		`BEGIN { for (i = 0; i < 3000; i++) { tick(); if (i == K) cancel() } if (SPIN) while (1) tick(); print "done", i }`,
		`{ tick(); n++; if (NR == K) cancel() } END { if (SPIN) while (1) s++; for (i = 0; i < 1500; i++) s += i; print n, s }`,
		`function f(d) { tick(); if (d == K) cancel(); if (d > 0) f(d - 1) } BEGIN { for (r = 0; r < 40; r++) f(60); if (SPIN) while (1) f(3); print "ok", r }`,
		`BEGIN { if (K >= 0) { cancel_later(40); system("sleep 5") } if (SPIN) while (1) tick(); for (i = 0; i < 2000; i++) tick(); system("echo sys"); print "x" | "cat"; close("cat"); "echo hi" | getline y; print y, i }`,
	}
	recs2000 := strings.Repeat("r\n", 2000)
	type seqJob struct {
		prog          int
		first, second c15Case
	}
	var seqs []seqJob
	for p := range seqProgs {
		for _, fk := range []string{"live-cancelled", "pre", "timeout", "live-cancelled-buffered"} {
			for _, sk := range []string{"bg", "todo", "none", "never"} {
				if p == 3 && !c.Thorough() && !(sk == "bg" || sk == "todo") {
					continue // the program that starts processes: fewer combinations in the quick tier
				}
				first := c15Case{Shape: "seq-first:" + fk, Prog: seqProgs[p], Input: recs2000, Ctx: "live", Vars: []string{"K", fmt.Sprint(5 + c.Rng.Intn(40)), "SPIN", "1"}, MustErr: true}
				switch fk {
				case "pre":
					first.Ctx, first.Vars = "pre", []string{"K", "-1", "SPIN", "1"}
				case "timeout":
					first.Ctx, first.Vars = "timeout", []string{"K", "-1", "SPIN", "1"}
				case "live-cancelled-buffered":
					first.Buffered = true
				}
				second := c15Case{Shape: "seq-second:" + sk, Prog: seqProgs[p], Input: recs2000, Ctx: sk, Vars: []string{"K", "-1", "SPIN", "0"}}
				seqs = append(seqs, seqJob{p, first, second})
			}
		}
	}
	type seqRes struct{ first, second, fresh c15Res }
	seqOut := make([]seqRes, len(seqs))
	runSeq := func(i int) {
		j := seqs[i]
		seqOut[i].first = c15Guard(func() c15Res { return c15NewSession(j.first.Prog).run(j.first) })
		if seqOut[i].first.Skipped || seqOut[i].first.Panic != "" {
			return
		}
		seqOut[i] = func() seqRes {
			var r seqRes
			r.second = c15Guard(func() c15Res {
				s := c15NewSession(j.first.Prog)
				r.first = s.run(j.first)
				s.in.ResetVars() // variables legitimately carry over (C14); this property is about the context only
				return s.run(j.second)
			})
			r.fresh = c15Guard(func() c15Res { return c15NewSession(j.second.Prog).run(j.second) })
			return r
		}()
	}
	for i := range seqs { // serial: some of them wait for processes and deadlines
		if seqs[i].prog == 3 || seqs[i].first.Ctx == "timeout" {
			runSeq(i)
		}
	}
	vh.Parallel(len(seqs), func(i int) {
		if !(seqs[i].prog == 3 || seqs[i].first.Ctx == "timeout") {
			runSeq(i)
		}
	})
	for i, j := range seqs {
		r := seqOut[i]
		if r.first.Skipped || r.second.Skipped || r.fresh.Skipped {
			continue
		}
		c.OracleCase()
		c.Eval(fmt.Sprint("seq", j.prog, j.first.Shape, j.first.Vars, j.second.Shape), true)
		c.Hit(j.first.Shape)
		c.Hit(j.second.Shape)
		cs := map[string]interface{}{"prog": seqProgs[j.prog], "first": j.first.Shape, "first_vars": j.first.Vars, "first_ctx": j.first.Ctx,
			"second_ctx": j.second.Ctx, "second_vars": j.second.Vars, "input": "2000 records"}
		if msg := c15Check(j.first, r.first); msg != "" {
			c.Fail(vh.Failure{Kind: "oracle", What: "first call of a sequence: " + msg, Case: cs, Got: fmt.Sprintf("err=%v ticksAfter=%d", r.first.Err, r.first.TicksAfter)})
			continue
		}
		var got, want string
		for try := 0; ; try++ {
			got = fmt.Sprintf("status=%d err=%v ticks=%d out=%q", r.second.Status, r.second.Err, r.second.Ticks, c15Trunc(r.second.Out))
			want = fmt.Sprintf("status=%d err=%v ticks=%d out=%q", r.fresh.Status, r.fresh.Err, r.fresh.Ticks, c15Trunc(r.fresh.Out))
			if got == want || try == 3 || !c15Disturbed(r.second, r.fresh) {
				break
			}
			c.Hit("comparison-repeated:command-output-lost-to-WaitDelay-under-load")
			runSeq(i)
			r = seqOut[i]
		}
		if r.second.Panic != "" || got != want || r.second.Err != nil {
			c.Fail(vh.Failure{Kind: "oracle", What: "a never-cancelled call right after a cancelled one on the same Interpreter differs from the same call on a fresh interpreter (or returned an error)",
				Case: cs, Got: got + " panic=" + r.second.Panic, Want: want})
		}
	}

	// ---- the SAME context object reused across calls of one Interpreter, with Execute / another context / Background in
	// between: all sequences of three calls over {A, B, Background, Execute}; one of the calls that use a cancellable
	// context cancels it from the script. A call under a context that is (or becomes) cancelled must return its error; every
	// other call must equal the same call on a fresh interpreter. ----
	{
		kinds := []string{"shared:A", "shared:B", "bg", "none"}
		type call struct {
			cs     c15Case
			expect string // cancelled | normal
			res    c15Res
		}
		type seq3 struct {
			prog  int
			calls []call
			fresh c15Res
		}
		progs3 := seqProgs[:3]
		var all []seq3
		for p := range progs3 {
			for a := 0; a < 4; a++ {
				for b := 0; b < 4; b++ {
					for d := 0; d < 4; d++ {
						ks := []string{kinds[a], kinds[b], kinds[d]}
						for cancelIn := 0; cancelIn <= 3; cancelIn++ { // 0 = nobody cancels
							if cancelIn > 0 && !strings.HasPrefix(ks[cancelIn-1], "shared:") {
								continue
							}
							if !c.Thorough() && (p+a+b+d+cancelIn)%3 != int(c.Seed%3) && !(ks[0] == "shared:A" && ks[2] == "shared:A") {
								continue // a third of the combinations per seed in the quick tier; the A … A ones always
							}
							dead := map[string]bool{}
							sq := seq3{prog: p}
							for i, k := range ks {
								cs := c15Case{Shape: "same-ctx", Prog: progs3[p], Input: recs2000, Ctx: k, Vars: []string{"K", "-1", "SPIN", "0"}}
								exp := "normal"
								if dead[k] {
									cs.Vars, cs.MustErr, exp = []string{"K", "-1", "SPIN", "1"}, true, "cancelled"
								} else if cancelIn == i+1 {
									cs.Vars, cs.MustErr, exp = []string{"K", fmt.Sprint(5 + c.Rng.Intn(40)), "SPIN", "1"}, true, "cancelled"
									dead[k] = true
								}
								sq.calls = append(sq.calls, call{cs: cs, expect: exp})
							}
							all = append(all, sq)
						}
					}
				}
			}
		}
		vh.Parallel(len(all), func(i int) {
			sq := &all[i]
			done := c15Guard(func() c15Res {
				s := c15NewSession(progs3[sq.prog])
				for k := range sq.calls {
					if k > 0 {
						s.in.ResetVars()
					}
					sq.calls[k].res = s.run(sq.calls[k].cs)
				}
				return c15Res{}
			})
			if done.Skipped || done.Panic != "" {
				sq.calls[0].res = done
				return
			}
			sq.fresh = c15NewSession(progs3[sq.prog]).run(c15Case{Prog: progs3[sq.prog], Input: recs2000, Ctx: "none", Vars: []string{"K", "-1", "SPIN", "0"}})
		})
		for _, sq := range all {
			if sq.calls[0].res.Skipped {
				continue
			}
			var desc []string
			for _, cl := range sq.calls {
				desc = append(desc, cl.cs.Ctx+"/"+cl.expect)
			}
			c.OracleCase()
			c.Eval(fmt.Sprint("same-ctx", sq.prog, desc), true)
			c.Hit("same-ctx-sequences")
			cs := map[string]interface{}{"prog": progs3[sq.prog], "calls (context/expected)": desc, "input": "2000 records",
				"note": "shared:A / shared:B = one context object per Interpreter, reused by every call that names it; ResetVars between calls"}
			if sq.calls[0].res.Panic != "" {
				c.Fail(vh.Failure{Kind: "oracle", What: sq.calls[0].res.Panic, Case: cs})
				continue
			}
			for i, cl := range sq.calls {
				c.Hit("same-ctx-call:" + cl.expect)
				if cl.expect == "cancelled" {
					if msg := c15Check(cl.cs, cl.res); msg != "" {
						c.Fail(vh.Failure{Kind: "oracle", What: fmt.Sprintf("call %d of a sequence that reuses a context object: %s", i+1, msg), Case: cs,
							Got: fmt.Sprintf("err=%v ticks=%d ticksAfter=%d out=%q", cl.res.Err, cl.res.Ticks, cl.res.TicksAfter, c15Trunc(cl.res.Out))})
						break
					}
					continue
				}
				got := fmt.Sprintf("status=%d err=%v ticks=%d out=%q", cl.res.Status, cl.res.Err, cl.res.Ticks, c15Trunc(cl.res.Out))
				want := fmt.Sprintf("status=%d err=%v ticks=%d out=%q", sq.fresh.Status, sq.fresh.Err, sq.fresh.Ticks, c15Trunc(sq.fresh.Out))
				if got != want || cl.res.Panic != "" {
					c.Fail(vh.Failure{Kind: "oracle", What: fmt.Sprintf("call %d (never cancelled) of a sequence that reuses a context object differs from Execute on a fresh interpreter", i+1),
						Case: cs, Got: got + " panic=" + cl.res.Panic, Want: want})
					break
				}
			}
		}
	}

	// ---- error identity: once cancelled, the error returned is the context's — in every phase (BEGIN, pattern, action, END,
	// and a function called from each), also when a secondary error arises before the next poll ----
	{
		secondary := map[string]string{
			"runtime-error":      `cancel(); wait_ms(5); x = 1/zero`,
			"write-killed-pipe":  `print "a" | "sleep 5"; cancel(); wait_ms(60); big = sprintf("%70000s", "x"); print big | "sleep 5"; print big | "sleep 5"; print big | "sleep 5"; x = 1/zero`,
			"getline-killed-cmd": `cancel_later(40); "sleep 5" | getline y; x = 1/zero`,
			"close-killed-cmd":   `print "a" | "sleep 5"; cancel(); wait_ms(60); r = close("sleep 5"); x = 1/zero`,
			"system-killed":      `cancel_later(40); r = system("sleep 5"); x = 1/zero`,
			"runtime-error-deep": `cancel(); for (j = 0; j < 3; j++) for (k in ENVIRON) q++; x = substr("abc", 1/zero)`,
		}
		for k, v := range c15MoreSecondary {
			secondary[k] = v
		}
		place := map[string]string{
			"BEGIN":            `BEGIN { print "p"; %s }`,
			"BEGIN-func":       `function sec() { %s } BEGIN { print "p"; sec() }`,
			"pattern":          `BEGIN { print "p" } NR == 2 && sec() { n++ } function sec() { %s; return 1 }`,
			"pattern-range":    `BEGIN { print "p" } NR == 2, sec() { n++ } function sec() { %s; return 1 }`,
			"action":           `BEGIN { print "p" } NR == 2 { %s }`,
			"action-func":      `function sec() { %s } BEGIN { print "p" } NR == 2 { sec() }`,
			"END":              `BEGIN { print "p" } { n++ } END { %s }`,
			"END-func":         `function sec() { %s } BEGIN { print "p" } END { sec() }`,
			"END-after-exit":   `BEGIN { print "p" } NR == 1 { exit 3 } END { %s }`,
			"BEGIN-only-begin": `BEGIN { print "p"; %s }`,
		}
		var ids []c15Case
		for _, pk := range vh.SortedKeys(map[string]int{"BEGIN": 0, "BEGIN-func": 0, "pattern": 0, "pattern-range": 0, "action": 0, "action-func": 0, "END": 0, "END-func": 0, "END-after-exit": 0}) {
			for _, sk := range c15SortedKeys(secondary) {
				slow := sk == "write-killed-pipe" || sk == "getline-killed-cmd" || sk == "close-killed-cmd" || sk == "system-killed"
				if slow && !c.Thorough() && !(strings.HasPrefix(pk, "END") || pk == "action" || pk == "BEGIN") {
					continue
				}
				id := c15Case{Shape: "error-identity:" + pk + ":" + sk, Prog: fmt.Sprintf(place[pk], secondary[sk]), Input: "a\nb\nc\n",
					Ctx: "live", MustErr: true, Prefix: "p\n", MaxWall: 4, Buffered: len(ids)%2 == 1}
				switch sk {
				case "output-torn-down":
					id.TornOutput, id.Prefix = true, "" // what sits in a bufio.Writer of the caller when its connection fails is the caller's loss
				case "stdin-torn-down":
					id.TornInput = true
				}
				ids = append(ids, id)
			}
		}
		ids = append(ids, c15TornMainLoopCases()...)
		idRes := make([]c15Res, len(ids))
		for i := range ids {
			idRes[i] = c15RunGuard(ids[i])
		}
		for i, cs := range ids {
			r := idRes[i]
			if r.Skipped {
				continue
			}
			c.OracleCase()
			c.Eval(cs.Shape, true)
			c.Hit("error-identity")
			if r.Err != nil && !c15IsCtxErr(r.Err) {
				c.Hit("error-identity:secondary-error-won")
			}
			if msg := c15Check(cs, r); msg != "" {
				c.Fail(vh.Failure{Kind: "oracle", What: "error identity: " + msg, Case: cs, Got: fmt.Sprintf("err=%v wall=%.2fs out=%q", r.Err, r.Wall, c15Trunc(r.Out))})
			}
		}
	}

	// ---- waiting for commands x kinds of Config.Stdin x ways a context becomes done; never-cancelled == Execute with
	// commands that read standard input (waitcmd.go, equivcmd.go) ----
	c15ReportWaitStream(c, waitStreamDone())
	waitStreamDone = nil

	// ---- correspondence: exact tick counts of the loop shape ----
	if c.HasLean() {
		funcs := map[string]any{"cancel": func() {}, "tick": func() {}}
		prog, err := parser.ParseProgram([]byte(c15LoopShape), &parser.ParserConfig{Funcs: funcs})
		if err != nil {
			panic(err)
		}
		var dis bytes.Buffer
		prog.Disassemble(&dis)
		var ops []string
		for _, l := range strings.Split(dis.String(), "\n") {
			f := strings.Fields(l)
			if len(f) >= 2 && len(f[0]) == 4 && !strings.HasPrefix(f[0], "//") {
				ops = append(ops, f[1])
			}
		}
		if strings.Join(ops, " ") != strings.Join(c15LoopOpcodes, " ") {
			c.Fail(vh.Failure{Kind: "correspondence", What: "the loop shape no longer compiles to the dispatch sequence the Lean model assumes (loopTrace)",
				Case: c15LoopShape, Got: strings.Join(ops, " "), Want: strings.Join(c15LoopOpcodes, " ")})
		}
		n := c.N(300, 3000)
		ps := make([]int, n)
		reqs := make([]string, n)
		for i := range ps {
			ps[i] = 1 + c.Rng.Intn(1200)
			if i < 120 {
				ps[i] = i + 1
			}
			reqs[i] = fmt.Sprintf("loop %d", ps[i])
		}
		real := make([]c15Res, n)
		vh.Parallel(n, func(i int) {
			real[i] = c15RunGuard(c15Case{Shape: "loop-shape", Prog: c15LoopShape, Vars: []string{"P", fmt.Sprint(ps[i])}, Ctx: "live"})
		})
		ans := c.LeanBatch(reqs)
		for i, a := range ans {
			if real[i].Skipped {
				continue
			}
			c.Trace()
			c.Eval(reqs[i], true)
			c.Hit("correspondence:loop-shape")
			want := fmt.Sprintf("err %d %d", real[i].Ticks, real[i].TicksAfter)
			if !c15IsCtxErr(real[i].Err) {
				want = fmt.Sprintf("fin %d %d", real[i].Ticks, real[i].TicksAfter)
			}
			f := strings.Fields(a)
			got := a
			if len(f) == 4 {
				got = strings.Join(f[:3], " ") // the fourth word is the dispatch index of the aborting poll (not observable)
			}
			if got != want {
				c.Fail(vh.Failure{Kind: "correspondence", What: "Lean step-counter model and real interpreter disagree on the number of tick() calls of the loop shape",
					Case: map[string]interface{}{"prog": c15LoopShape, "P": ps[i]}, Got: a, Want: want})
			}
		}
	}
}

func c15Bucket(n int) string {
	switch {
	case n == 0:
		return "0"
	case n <= 100:
		return "1-100"
	case n <= 500:
		return "101-500"
	case n <= 1000:
		return "501-1000"
	case n <= c15Bound:
		return "1001-bound"
	}
	return "over-bound"
}
