package main

// C15 — "ExecuteContext with a context that is never cancelled behaves exactly like Execute", over programs whose shell
// commands (system(), cmd | getline, print | cmd) read the interpreter's standard input, for every kind of Config.Stdin
// that ends on its own and every never-cancelled entry point. Output, stderr, status and error text must be identical.
//
// The programs start at most one command that has not yet drained standard input to its end: two commands in a row that
// each take a part of a streaming non-file reader race with each other through os/exec's copy goroutine (that is not this
// property's business).

import (
	"fmt"
	"time"

	"verifharness/vh"
)

var c15EquivProgs = []struct {
	src  string
	file bool // main input comes from a file operand (the interpreter itself does not read standard input)
}{
	{`BEGIN { r = system("cat"); print "r", r }`, false},
	{`BEGIN { r = system("while read x; do echo \"got $x\"; done; exit 3"); print "status", r }`, false},
	{`BEGIN { r = system("read a b || exit 4; read c; cat >/dev/null; echo \"$c/$b/$a\""); print "status", r }`, false},
	{`BEGIN { while (("cat" | getline line) > 0) print "got", line; print "eof", close("cat") }`, false},
	{`BEGIN { "read x; cat >/dev/null; echo \"<$x>\"" | getline y; print y; while (("cat" | getline) > 0) print "second", $0, NF; print "done" }`, false},
	{`BEGIN { print "to-cmd" | "cat"; close("cat"); r = system("cat"); print r }`, false},
	{`BEGIN { printf "unflushed "; system("cat"); print "tail" }`, false},
	{`function f() { system("cat"); return 1 } NR == 2 && f() { print "rule", $0 } END { "cat" | getline z; print "end", z }`, true},
	{`END { r = system("read q; cat >/dev/null; echo \"q=$q\""); print r; while (("cat" | getline l) > 0) print "l", l }`, true},
	{`{ print } END { system("cat"); print NR }`, false},
	{`NR == 1 { while (("cat" | getline l) > 0) print "cmd", l } { print "awk", $0 }`, false},
	{`BEGIN { for (i = 0; i < 1500; i++) tick(); system("cat") } END { for (i = 0; i < 1500; i++) tick(); print NR }`, false},
}

type c15EquivOut struct {
	prog  int
	wcs   []c15WaitCase // [0] is Execute
	res   []c15WaitRes
	stdin string
}

func c15GenEquivCases(c *vh.Ctx, file string) []c15EquivOut {
	var out []c15EquivOut
	others := []string{"bg", "todo", "never-timeout"}
	for p, pr := range c15EquivProgs {
		for _, k := range c15EquivStdinKinds {
			kinds := []string{"none", "never", others[c.Rng.Intn(len(others))]}
			if c.Thorough() {
				kinds = []string{"none", "never", "bg", "todo", "never-timeout"}
			}
			e := c15EquivOut{prog: p, stdin: k}
			for _, kind := range kinds {
				wc := c15WaitCase{Stream: "never-cancelled-with-commands", Wait: "-", Place: "-", Stdin: k, Ctx: kind, Prog: pr.src, BoundS: 60,
					Buffered: (p+len(k))%2 == 1}
				if pr.file {
					wc.Args, wc.FileData = []string{file}, "r1\nr2\nr3\n"
				}
				e.wcs = append(e.wcs, wc)
			}
			out = append(out, e)
		}
	}
	return out
}

func c15RunEquiv(e *c15EquivOut) {
	e.res = make([]c15WaitRes, len(e.wcs))
	for i, wc := range e.wcs {
		e.res[i] = c15RunWait(wc, 60*time.Second)
	}
}

func c15ReportEquiv(c *vh.Ctx, es []c15EquivOut) {
	show := func(r c15WaitRes) string {
		return fmt.Sprintf("status=%d err=%v ticks=%d out=%q stderr=%q panic=%q", r.Status, r.Err, r.Ticks, c15Trunc(r.Out), c15Trunc(r.ErrOut), r.Panic)
	}
	for _, e := range es {
		if len(e.res) == 0 || e.res[0].Skipped {
			continue
		}
		// a run that lost command output to WaitDelay under load (see c15Disturbed): the whole comparison once more, now that
		// nothing else runs in this process
		for try := 0; try < 3; try++ {
			disturbed, differ := false, false
			for _, r := range e.res {
				disturbed = disturbed || c15Disturbed(r.c15Res)
				differ = differ || (!r.Skipped && show(r) != show(e.res[0]))
			}
			if !disturbed || !differ {
				break
			}
			c.Hit("comparison-repeated:command-output-lost-to-WaitDelay-under-load")
			c15RunEquiv(&e)
		}
		ref := e.res[0]
		for i, wc := range e.wcs {
			r := e.res[i]
			if r.Skipped {
				continue
			}
			c.OracleCase()
			c.Eval(fmt.Sprint("equiv-cmd", e.prog, e.stdin, wc.Ctx), false)
			c.Hit("never-cancelled-with-commands:" + wc.Ctx)
			c.Hit("never-cancelled-with-commands:stdin:" + e.stdin)
			if r.Released || r.Hung {
				c.Fail(vh.Failure{Kind: "oracle", What: "a run whose context is never cancelled (commands reading standard input) did not return within 60 s", Case: wc, Got: show(r)})
				continue
			}
			if i == 0 {
				continue
			}
			if show(r) != show(ref) {
				c.Fail(vh.Failure{Kind: "oracle", What: "ExecuteContext with a context that is never cancelled differs from Execute (program whose commands read standard input)",
					Case: wc, Got: show(r), Want: show(ref)})
			}
		}
	}
}
