package main

// C15 — bodies that never reach their end: every record / iteration leaves through next, nextfile, break out of a for-in
// body, return, or next from inside a for-in body, after fewer than a thousand steps. The steps of such bodies count
// towards the poll like any others: the context is cancelled by the script at record / iteration K and the call must
// return its error within the bound.

import (
	"fmt"
	"strings"

	"verifharness/vh"
)

func c15LeaveCase(c *vh.Ctx, k int, buffered bool, twoLines string) c15Case {
	t := 1 + c.Rng.Intn(12)
	body := strings.Repeat("tick(); ", t)
	vars := []string{"K", fmt.Sprint(k)}
	records := strings.Repeat("x\n", k+30000)
	cs := c15Case{Ctx: "live", MustErr: true, Vars: vars, Buffered: buffered}
	switch c.Rng.Intn(8) {
	case 0:
		cs.Shape, cs.Input = "leave:rule-next", records
		cs.Prog = `{ ` + body + `if (NR == K) { print NR; cancel() } next } { never++ }`
		cs.Prefix = fmt.Sprintf("%d\n", k)
	case 1:
		cs.Shape, cs.Input = "leave:pattern-func-then-next", records
		cs.Prog = `function p() { tick(); return 1 } p() { ` + body + `if (NR == K) cancel(); next } { never++ }`
	case 2:
		k = 1 + k%600
		cs.Vars = []string{"K", fmt.Sprint(k)}
		cs.Shape, cs.ArgsFile, cs.ArgsN = "leave:rule-nextfile", twoLines, k+2600
		cs.Prog = `{ ` + body + `if (++n == K) { print n; cancel() } nextfile }`
		cs.Prefix = fmt.Sprintf("%d\n", k)
	case 3:
		cs.Shape = "leave:forin-break"
		body = strings.Repeat("tick(); ", 10+c.Rng.Intn(20))
		cs.Prog = `BEGIN { a[1]; a[2]; a[3]; while (1) { for (k in a) { ` + body + `if (++n == K) cancel(); break } } }`
	case 4:
		cs.Shape, cs.Input = "leave:next-inside-forin", records
		cs.Prog = `BEGIN { a[1]; a[2] } { for (k in a) { ` + body + `if (NR == K) cancel(); next } }`
	case 5:
		cs.Shape, cs.Input = "leave:func-return-then-next", records
		cs.Prog = `function f(x) { ` + body + `if (x == K) cancel(); return 1 } { f(NR); next }`
	case 6:
		cs.Shape, cs.Input = "leave:func-forin-return", records
		cs.Prog = `function f(x,  k) { for (k in a) { ` + body + `if (x == K) cancel(); return k } } BEGIN { a[1]; a[2] } { f(NR); next }`
	case 7:
		cs.Shape, cs.Input = "leave:getline-loop-break-next", records
		cs.Prog = `{ while ((getline l) > 0) { ` + body + `if (++n == K) cancel(); break } next }`
	}
	return cs
}
