package main

// C08, widened dimensions (all implementation-side oracles, no model in the loop):
//   O6  size × path: records and single fields around 4 KiB, 64 KiB ± 1 and 128 KiB on EVERY path that yields CSV fields
//       (main loop, plain getline, getline < file, cmd | getline, $0 assignment, split() in CSV mode): the same record must
//       give the same fields on every path, and those of encoding/csv
//   O7  reuse histories: 2–3 Execute calls on ONE Interpreter with different (input mode, output mode, separators, comment,
//       header, CRLF) per call and the same or a different Output object; each run is judged on its own configuration
//       (reader oracle on its input, round trip of its output through a fresh reader with that run's output separator) and
//       against a fresh interpreter with the same configuration
//   O8  Output objects: a bytes.Buffer, and *bufio.Writer of several sizes around csv.NewWriter's 4096-byte reuse threshold

import (
	"bufio"
	"bytes"
	"fmt"
	"io"
	"os"
	"path/filepath"
	"strings"

	"github.com/benhoyt/goawk/interp"

	"verifharness/vh"
)

// ---- O6 ---------------------------------------------------------------------------------------------------------------

// (the command runs last: with a Stdin that is not an *os.File, os/exec copies the rest of the main input to the child)
const c08PathsProg = `
function emit(tag,   i) { printf "P %s %d", tag, NF; for (i=1;i<=NF;i++) printf " %d:%s", length($i), $i; printf "\n" }
function emitarr(tag, n,   i) { printf "P %s %d", tag, n; for (i=1;i<=n;i++) printf " %d:%s", length(arr[i]), arr[i]; printf "\n" }
NR==1 {
	emit("main")
	while ((getline line < FILE) > 0) { $0 = line; emit("assign"); n = split(line, arr); emitarr("split", n) }
	close(FILE)
	while ((getline < FILE) > 0) emit("getline-file")
	close(FILE)
	while ((getline) > 0) emit("getline")
	while ((CMD | getline) > 0) emit("cmd-getline")
	close(CMD)
}`

type c08PathCase struct {
	Sep   rune
	Rec   []byte // one CSV record, without its line terminator
	Shape string
}

func c08Big(c *vh.Ctx, n int, withSpecials bool, sep string) []byte {
	b := make([]byte, 0, n)
	atoms := []string{"a", "b", "c", " ", "é"}
	if withSpecials {
		atoms = append(atoms, sep, "\"\"", "\n", "\r\n", "#")
	}
	for len(b) < n {
		if c.Rng.Intn(40) == 0 {
			b = append(b, atoms[c.Rng.Intn(len(atoms))]...)
		} else {
			b = append(b, byte('a'+c.Rng.Intn(26)))
		}
	}
	return b[:n]
}

func c08PathsPart(c *vh.Ctx) {
	sizes := []int{4095, 4096, 4097, 65535, 65536, 65537, 131072}
	if !c.Thorough() {
		// every run covers the 64 KiB edge; the other sizes rotate with the seed
		sizes = []int{65535, 65536, 65537, sizes[c.Rng.Intn(3)], 131072 - c.Rng.Intn(2)}
	} else {
		sizes = append(sizes, 8192, 32768, 65534, 65538, 70000, 131071, 200000)
	}
	seps := []rune{',', '\t', 'é'}
	var cases []c08PathCase
	for _, n := range sizes {
		sep := seps[c.Rng.Intn(len(seps))]
		ss := string(sep)
		// the whole record is n bytes: one plain field
		cases = append(cases, c08PathCase{sep, c08Big(c, n, false, ss), fmt.Sprintf("plain-record=%d", n)})
		// a,BIG,c with a big plain field of n bytes
		cases = append(cases, c08PathCase{sep, []byte("k" + ss + string(c08Big(c, n, false, ss)) + ss + "z"), fmt.Sprintf("plain-field=%d", n)})
		// quoted big field holding separators, doubled quotes and line breaks; record of exactly n bytes
		if n > 16 {
			body := c08Big(c, n-2-4, true, ss)
			// keep the quoting well-formed: no lone quote
			body = bytes.ReplaceAll(body, []byte("\""), []byte("q"))
			if body[len(body)-1] == '\r' {
				body[len(body)-1] = 'x' // no lone CR: $0 loses every CR when a quoted field spans CRLF (accepted normalisation)
			}
			rec := append([]byte("x"+ss+"\""), body...)
			rec = append(rec, []byte("\""+ss+"y")...)
			cases = append(cases, c08PathCase{sep, rec, fmt.Sprintf("quoted-field~%d", n)})
		}
		// many small fields, record around n bytes
		var many []byte
		for len(many) < n-8 {
			many = append(many, c08Big(c, 1+c.Rng.Intn(12), false, ss)...)
			many = append(many, ss...)
		}
		many = append(many, 'e')
		cases = append(cases, c08PathCase{sep, many, fmt.Sprintf("many-fields~%d", n)})
	}
	// small sanity cases on every path
	cases = append(cases, c08PathCase{',', []byte("a,\"b\nc\",d"), "small-multiline"}, c08PathCase{',', []byte("\"\""), "small-empty-quoted"})

	dir, err := os.MkdirTemp("", "c08paths")
	if err != nil {
		c.Note("O6 skipped: cannot create temp dir: " + err.Error())
		return
	}
	defer os.RemoveAll(dir)

	type outT struct {
		res  vh.RunResult
		tags map[string][]string // tag -> canonical field lists, one per emit
	}
	outs := make([]outT, len(cases))
	vh.Parallel(len(cases), func(i int) {
		cs := cases[i]
		file := filepath.Join(dir, fmt.Sprintf("r%d.csv", i))
		os.WriteFile(file, append(append([]byte{}, cs.Rec...), '\n'), 0o644)
		stdin := append(append(append([]byte{}, cs.Rec...), '\n'), append(cs.Rec, '\n')...)
		cfg := &interp.Config{Stdin: bytes.NewReader(stdin), InputMode: interp.CSVMode, CSVInput: interp.CSVInputConfig{Separator: cs.Sep},
			Vars: []string{"FILE", file, "CMD", "cat " + file}}
		res := vh.ExecProg(vh.MustParse(c08PathsProg), cfg)
		o := outT{res: res, tags: map[string][]string{}}
		b := []byte(res.Out)
		for len(b) > 0 && res.Err == "" && res.Panic == "" {
			if !bytes.HasPrefix(b, []byte("P ")) {
				o.res.Err = "unparsable output"
				break
			}
			b = b[2:]
			sp := bytes.IndexByte(b, ' ')
			if sp < 0 {
				o.res.Err = "unparsable output"
				break
			}
			tag := string(b[:sp])
			b = b[sp:]
			nf, rest, ok := c08Int(b)
			b = rest
			var fs [][]byte
			for k := 0; ok && k < nf; k++ {
				var f []byte
				f, b, ok = c08LP(b)
				fs = append(fs, f)
			}
			if !ok || len(b) == 0 || b[0] != '\n' {
				o.res.Err = "unparsable output"
				break
			}
			b = b[1:]
			o.tags[tag] = append(o.tags[tag], c08FieldsShort(fs))
		}
		outs[i] = o
	})

	paths := []string{"main", "assign", "split", "getline-file", "cmd-getline", "getline"}
	for i, cs := range cases {
		o := outs[i]
		kase := map[string]interface{}{"sep": vh.HxS(string(cs.Sep)), "shape": cs.Shape, "record_len": len(cs.Rec),
			"record_head_hex": vh.Hx(cs.Rec[:min(len(cs.Rec), 48)]), "program": "c08PathsProg (harness/c08/wide.go)",
			"replay": "stdin = record+LF twice; FILE holds record+LF; CMD = cat FILE; CSV input mode with this separator"}
		c.Eval("paths|"+cs.Shape+"|"+string(cs.Sep)+"|"+fmt.Sprint(len(cs.Rec)), true)
		c.OracleCase()
		c.Hit("paths:" + strings.SplitN(cs.Shape, "=", 2)[0])
		c.Hit(fmt.Sprintf("paths:size-class:%s", c08SizeClass(len(cs.Rec))))
		if o.res.Err != "" || o.res.Panic != "" {
			c.Fail(vh.Failure{Kind: "oracle", What: "O6: run failed or panicked: " + o.res.Err + o.res.Panic, Case: kase})
			continue
		}
		rows, err := c08Ref(c08Cfg{cs.Sep, 0, false}, append(append([]byte{}, cs.Rec...), '\n'))
		if err != nil || len(rows) != 1 {
			c.Hit("paths:reference-reader-error")
			continue
		}
		want := c08FieldsShort(rows[0].Fields)
		for _, p := range paths {
			got := o.tags[p]
			if len(got) != 1 || got[0] != want {
				g := "no record"
				if len(got) > 0 {
					g = got[0]
				}
				c.Fail(vh.Failure{Kind: "oracle", What: "O6: path '" + p + "' does not yield the fields of the record (encoding/csv and the other paths do)",
					Case: kase, Got: g, Want: want})
			}
		}
	}
}

func c08SizeClass(n int) string {
	switch {
	case n < 4000:
		return "small"
	case n < 5000:
		return "4KiB"
	case n < 60000:
		return "mid"
	case n < 70000:
		return "64KiB"
	default:
		return "128KiB+"
	}
}

// c08FieldsShort: canonical form of a field list that stays small for huge fields (length + hash of each field)
func c08FieldsShort(fs [][]byte) string {
	s := make([]string, len(fs))
	for i, f := range fs {
		if len(f) <= 24 {
			s[i] = vh.Hx(f)
		} else {
			h := uint64(1469598103934665603)
			for _, b := range f {
				h = (h ^ uint64(b)) * 1099511628211
			}
			s[i] = fmt.Sprintf("len%d#%016x", len(f), h)
		}
	}
	return fmt.Sprintf("%d[%s]", len(fs), strings.Join(s, ","))
}

// ---- O7 ---------------------------------------------------------------------------------------------------------------

const c08ReuseProg = `{ print $1, $2, $3; $1 = $1; print }`

type c08RunCfg struct {
	In      c08Cfg
	InMode  interp.IOMode
	OutSep  rune
	OutMode interp.IOMode
	CRLF    bool
	OutKind string // "buffer" | "bufio65536" | "bufio4096" | "shared"
}

func (r c08RunCfg) String() string {
	return fmt.Sprintf("in{mode=%d %s} out{mode=%d sep=%s crlf=%v obj=%s}", r.InMode, r.In, r.OutMode, vh.HxS(string(r.OutSep)), r.CRLF, r.OutKind)
}

func c08RandRunCfg(c *vh.Ctx) c08RunCfg {
	seps := []rune{',', '\t', '|', ';', 'é'}
	r := c08RunCfg{}
	r.In.Sep = seps[c.Rng.Intn(len(seps))]
	r.InMode = interp.CSVMode
	if r.In.Sep == '\t' {
		r.InMode = interp.TSVMode
	}
	if c.Rng.Intn(3) == 0 {
		r.In.Comment = '#'
	}
	r.In.Header = c.Rng.Intn(3) == 0
	r.OutSep = seps[c.Rng.Intn(len(seps))]
	r.OutMode = interp.CSVMode
	if r.OutSep == '\t' {
		r.OutMode = interp.TSVMode
	}
	r.CRLF = c.Rng.Intn(4) == 0
	r.OutKind = []string{"buffer", "bufio65536", "bufio4096", "shared", "shared"}[c.Rng.Intn(5)]
	return r
}

// three-field rows written for the run's input configuration
func c08ThreeFieldInput(c *vh.Ctx, g c08Cfg) []byte {
	sep := string(g.Sep)
	atoms := []string{"a", "b", " ", sep, "\"", "\n", "x y", "#", ",", "\t", "|", ";", "é"}
	var in []byte
	rows := 1 + c.Rng.Intn(4)
	if g.Header {
		in = append(in, "h1"+sep+"h2"+sep+"h3\n"...)
	}
	for r := 0; r < rows; r++ {
		if g.Comment != 0 && c.Rng.Intn(4) == 0 {
			in = append(in, "#note\n"...)
		}
		for f := 0; f < 3; f++ {
			if f > 0 {
				in = append(in, sep...)
			}
			var v []byte
			for k := c.Rng.Intn(4); k > 0; k-- {
				v = append(v, atoms[c.Rng.Intn(len(atoms))]...)
			}
			if f == 0 && len(v) == 0 {
				v = []byte("id")
			}
			if f == 0 && g.Comment != 0 && bytes.HasPrefix(v, []byte("#")) {
				v = append([]byte("k"), v...)
			}
			// always quote: the value may hold anything
			in = append(in, '"')
			in = append(in, bytes.ReplaceAll(v, []byte("\""), []byte("\"\""))...)
			in = append(in, '"')
		}
		in = append(in, '\n')
	}
	return in
}

func c08MakeConfig(r c08RunCfg, input []byte, out io.Writer) *interp.Config {
	cfg := &interp.Config{Stdin: bytes.NewReader(input), Output: out, Error: &bytes.Buffer{}, Environ: []string{},
		InputMode: r.InMode, CSVInput: interp.CSVInputConfig{Separator: r.In.Sep, Comment: r.In.Comment, Header: r.In.Header},
		OutputMode: r.OutMode, CSVOutput: interp.CSVOutputConfig{Separator: r.OutSep}, NewlineOutput: interp.RawNewlineMode}
	if r.CRLF {
		cfg.NewlineOutput = interp.CRLFNewlineMode
	}
	return cfg
}

func c08ReusePart(c *vh.Ctx) {
	nHist := c.N(250, 4000)
	type run struct {
		cfg   c08RunCfg
		input []byte
		got   []byte // this run's output bytes
		fresh []byte // a fresh interpreter with the same configuration
		err   string
	}
	hists := make([][]run, nHist)
	for h := range hists {
		k := 2 + c.Rng.Intn(2)
		for i := 0; i < k; i++ {
			rc := c08RandRunCfg(c)
			hists[h] = append(hists[h], run{cfg: rc, input: c08ThreeFieldInput(c, rc.In)})
		}
	}
	// fixed histories: the same destination with a changed separator / mode / CRLF (the witness shape of a stale cached writer)
	mk := func(sep, osep rune, crlf bool, kind string, in string) run {
		rc := c08RunCfg{In: c08Cfg{Sep: sep}, InMode: interp.CSVMode, OutSep: osep, OutMode: interp.CSVMode, CRLF: crlf, OutKind: kind}
		if osep == '\t' {
			rc.OutMode = interp.TSVMode
		}
		return run{cfg: rc, input: []byte(in)}
	}
	hists = append(hists,
		[]run{mk(',', ',', false, "shared", "a,\"b,c\",d\n"), mk(',', '\t', false, "shared", "a,\"b,c\",d\n"), mk(',', '|', false, "shared", "a,\"b|c\",d\n")},
		[]run{mk(',', '|', false, "buffer", "a,b,c\n"), mk(',', ',', true, "buffer", "a,\"x\ny\",c\n")},
		[]run{mk(',', ',', true, "bufio65536", "a,b,c\n"), mk(',', ',', false, "bufio65536", "a,\"x\ny\",c\n")},
	)

	vh.Parallel(len(hists), func(h int) {
		prog := vh.MustParse(c08ReuseProg)
		p, err := interp.New(prog)
		if err != nil {
			hists[h][0].err = "interp.New: " + err.Error()
			return
		}
		var shared bytes.Buffer
		for i := range hists[h] {
			r := &hists[h][i]
			func() {
				defer func() {
					if x := recover(); x != nil {
						r.err = fmt.Sprint("panic: ", x)
					}
				}()
				var sink bytes.Buffer
				var w io.Writer = &sink
				var bw *bufio.Writer
				before := 0
				switch r.cfg.OutKind {
				case "bufio65536":
					bw = bufio.NewWriterSize(&sink, 65536)
					w = bw
				case "bufio4096":
					bw = bufio.NewWriterSize(&sink, 4096)
					w = bw
				case "shared":
					before = shared.Len()
					w = &shared
				}
				_, err := p.Execute(c08MakeConfig(r.cfg, r.input, w))
				if err != nil {
					r.err = err.Error()
				}
				if bw != nil {
					bw.Flush()
				}
				if r.cfg.OutKind == "shared" {
					r.got = append([]byte{}, shared.Bytes()[before:]...)
				} else {
					r.got = sink.Bytes()
				}
				// the same configuration on a fresh interpreter, plain buffer
				var fb bytes.Buffer
				res := vh.ExecProg(prog, c08MakeConfig(r.cfg, r.input, &fb))
				if res.Err != "" || res.Panic != "" {
					r.err += " fresh: " + res.Err + res.Panic
				}
				r.fresh = fb.Bytes()
			}()
		}
	})

	for h, hist := range hists {
		var descr []string
		for _, r := range hist {
			descr = append(descr, r.cfg.String()+" stdin="+vh.Hx(r.input))
		}
		for i, r := range hist {
			kase := map[string]interface{}{"program": c08ReuseProg, "history": descr, "failing_run": i + 1}
			c.Eval(fmt.Sprintf("reuse|%d|%d|%s|%s", h, i, r.cfg, r.input), i > 0)
			c.OracleCase()
			c.Hit(fmt.Sprintf("reuse:run%d", i+1))
			c.Hit("reuse:out-obj:" + r.cfg.OutKind)
			if r.cfg.CRLF {
				c.Hit("reuse:crlf")
			}
			if i > 0 && (hist[i-1].cfg.OutSep != r.cfg.OutSep || hist[i-1].cfg.CRLF != r.cfg.CRLF) {
				c.Hit("reuse:output-config-changed")
			}
			if r.err != "" {
				c.Fail(vh.Failure{Kind: "oracle", What: "O7: run failed: " + r.err, Case: kase})
				continue
			}
			// judged on its own configuration: rows of its input …
			rows, err := c08Ref(r.cfg.In, r.input)
			if err != nil {
				c.Hit("reuse:reference-reader-error")
				continue
			}
			if r.cfg.In.Header && len(rows) > 0 {
				rows = rows[1:]
			}
			hasCR := false
			var want [][][]byte
			for _, row := range rows {
				fs := row.Fields
				for len(fs) < 3 {
					fs = append(fs, nil)
				}
				for _, f := range fs {
					hasCR = hasCR || bytes.IndexByte(f, '\r') >= 0
				}
				want = append(want, fs[:3], fs) // print $1,$2,$3 ; then the rebuilt $0
			}
			// … written with its own output separator, read back by a fresh reader with that separator
			back, rres := c08RunRead(c08Cfg{r.cfg.OutSep, 0, false}, [][]byte{r.got}, false)
			if rres.Err != "" || rres.Panic != "" {
				c.Fail(vh.Failure{Kind: "oracle", What: "O7: reading the run's output back failed: " + rres.String(), Case: kase})
				continue
			}
			var got [][][]byte
			for _, rec := range back.Recs {
				got = append(got, rec.Fields)
			}
			if !hasCR && c08RecsCanon(got) != c08RecsCanon(want) {
				c.Fail(vh.Failure{Kind: "oracle", What: fmt.Sprintf("O7: run %d of a reused interpreter: its output, read back with its own output separator, is not its input's fields", i+1),
					Case: kase, Got: c08RecsCanon(got) + " raw=" + vh.Hx(r.got), Want: c08RecsCanon(want)})
				continue
			}
			if !bytes.Equal(r.got, r.fresh) {
				c.Fail(vh.Failure{Kind: "oracle", What: fmt.Sprintf("O7: run %d of a reused interpreter writes other bytes than a fresh interpreter with the same configuration", i+1),
					Case: kase, Got: vh.Hx(r.got), Want: vh.Hx(r.fresh)})
			}
		}
	}
}

// ---- O8 ---------------------------------------------------------------------------------------------------------------

// (G08-4, repaired: a *bufio.Writer smaller than 4096 bytes as Config.Output lost every record written through csv.Writer,
// because csv.NewWriter wrapped it in a fresh buffer nobody flushed. Regression stream; no class predicate.)
func c08OutputObjPart(c *vh.Ctx) {
	type part struct {
		fields [][]byte // nil = raw printf text
		raw    string
	}
	n := c.N(40, 600)
	sizes := []int{16, 100, 4095, 4096, 8192, 65536}
	for k := 0; k < n; k++ {
		var parts []part
		for j := 1 + c.Rng.Intn(4); j > 0; j-- {
			switch c.Rng.Intn(4) {
			case 0:
				parts = append(parts, part{raw: fmt.Sprintf("raw%d\n", j)})
			case 1:
				parts = append(parts, part{fields: [][]byte{{}}})
			default:
				var fs [][]byte
				for f := 1 + c.Rng.Intn(3); f > 0; f-- {
					fs = append(fs, c08RandField(c, ",", false))
				}
				if len(fs) == 1 && len(fs[0]) == 0 {
					fs[0] = []byte("v")
				}
				parts = append(parts, part{fields: fs})
			}
		}
		if k == 0 {
			parts = []part{{fields: [][]byte{[]byte("a"), []byte("b c")}}, {fields: [][]byte{[]byte("x,y"), []byte("2")}}, {raw: "raw\n"}, {fields: [][]byte{{}}}}
		}
		var src strings.Builder
		src.WriteString("BEGIN {")
		var direct bytes.Buffer // what survives the defect
		for _, p := range parts {
			if p.fields == nil {
				fmt.Fprintf(&src, " printf %s;", c08Lit([]byte(p.raw)))
				direct.WriteString(p.raw)
				continue
			}
			src.WriteString(" print ")
			for i, f := range p.fields {
				if i > 0 {
					src.WriteString(", ")
				}
				src.WriteString(c08Lit(f))
			}
			src.WriteString(";")
			if len(p.fields) == 1 && len(p.fields[0]) == 0 {
				direct.WriteString("\"\"\n")
			}
		}
		src.WriteString(" }")
		prog := vh.MustParse(src.String())
		var ref bytes.Buffer
		res := vh.ExecProg(prog, &interp.Config{Output: &ref, OutputMode: interp.CSVMode})
		if res.Err != "" || res.Panic != "" {
			continue
		}
		for _, sz := range sizes {
			var sink bytes.Buffer
			bw := bufio.NewWriterSize(&sink, sz)
			res := vh.ExecProg(prog, &interp.Config{Output: bw, OutputMode: interp.CSVMode})
			bw.Flush()
			kase := map[string]interface{}{"program": src.String(), "output": fmt.Sprintf("bufio.NewWriterSize(&buf, %d), flushed by the caller after ExecProgram", sz), "output_mode": "csv"}
			c.Eval(fmt.Sprintf("outobj|%d|%s", sz, src.String()), true)
			c.OracleCase()
			c.Hit(fmt.Sprintf("outobj:bufio%d", sz))
			if res.Err != "" || res.Panic != "" {
				c.Fail(vh.Failure{Kind: "oracle", What: "O8: run failed: " + res.String(), Case: kase})
				continue
			}
			if !bytes.Equal(sink.Bytes(), ref.Bytes()) {
				c.Fail(vh.Failure{Kind: "oracle", What: "O8: CSV output written to a *bufio.Writer differs from the output written to a bytes.Buffer (output lost)",
					Case: kase, Got: vh.Hx(sink.Bytes()), Want: vh.Hx(ref.Bytes())})
			}
		}
	}
}
