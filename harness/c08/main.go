package main

// C08 — CSV/TSV input follows RFC 4180; CSV output reads back to the same fields.
//
// Implementation-side oracles (no model in the loop):
//   O1  fields of every row = Go's own encoding/csv reader (LazyQuotes, FieldsPerRecord=-1, same Comma/Comment) on the same
//       bytes after a leading BOM; header mode takes the first row as names
//   O2  $0 of every record = the record's own byte range (found from the reference reader's InputOffset, skipping the
//       comment/empty lines before it) without its line terminator; the code's documented normalisation (every CR deleted
//       when a quoted field spans a CRLF line break) is accepted
//   O3  chunk independence: every delivery schedule (chunkings; EOF alone or together with the last chunk) prints the same
//   O4  round trip on the real code: print in CSV output mode, read back in CSV input mode, same separator (and the $0
//       rebuild / re-parse / split() variant)
//   O5  getline var must not disturb the current record's fields (F13, repaired: regression cases)
// Correspondence: the Lean specification reader (csvRecords), the chunked scanner model (csvScan) and the writer model
// (csvWrite / joinFields / reparse) against the real code on the same inputs.

import (
	"bytes"
	"encoding/csv"
	"fmt"
	"io"
	"sort"
	"strconv"
	"strings"
	"unicode/utf8"

	"github.com/benhoyt/goawk/interp"

	"verifharness/vh"
)

func main() { vh.Main("C08", runC08) }

// ---- running the real code ---------------------------------------------------------------------------------------

const c08ReadProg = `{ printf "R %d %d %d:%s", NR, NF, length($0), $0; for (i=1;i<=NF;i++) printf " %d:%s", length($i), $i; printf "\n" }
END { n=0; for (k in FIELDS) n++; printf "H %d", n; for (i=1;i<=n;i++) printf " %d:%s", length(FIELDS[i]), FIELDS[i]; printf "\n" }`

type c08Cfg struct {
	Sep     rune
	Comment rune
	Header  bool
}

func (g c08Cfg) String() string {
	return fmt.Sprintf("sep=%s comment=%s header=%v", vh.HxS(string(g.Sep)), c08RuneHex(g.Comment), g.Header)
}

func c08RuneHex(r rune) string {
	if r == 0 {
		return "-"
	}
	return vh.HxS(string(r))
}

type c08Rec struct {
	Fields [][]byte
	Text   []byte
}

type c08Out struct {
	Recs []c08Rec
	Hdr  [][]byte // nil = no header names
}

type c08Case struct {
	Cfg      string   `json:"cfg"`
	Input    string   `json:"input_hex"`
	Chunks   []string `json:"chunks_hex,omitempty"`
	EOFWith  bool     `json:"eof_with_last_chunk,omitempty"`
	Program  string   `json:"program,omitempty"`
	Fields   []string `json:"fields_hex,omitempty"`
	Comment_ string   `json:"note,omitempty"`
}

// schedReader delivers one chunk per Read; with eofWith the last chunk is returned together with io.EOF (which the
// io.Reader contract allows and e.g. HTTP bodies do).
type schedReader struct {
	chunks  [][]byte
	eofWith bool
}

func (r *schedReader) Read(p []byte) (int, error) {
	if len(r.chunks) == 0 {
		return 0, io.EOF
	}
	n := copy(p, r.chunks[0])
	if n == len(r.chunks[0]) {
		r.chunks = r.chunks[1:]
	} else {
		r.chunks[0] = r.chunks[0][n:]
	}
	if len(r.chunks) == 0 && r.eofWith {
		return n, io.EOF
	}
	return n, nil
}

func c08Reader(chunks [][]byte, eofWith bool) io.Reader {
	cp := make([][]byte, 0, len(chunks))
	for _, c := range chunks {
		if len(c) > 0 {
			cp = append(cp, append([]byte(nil), c...))
		}
	}
	return &schedReader{cp, eofWith}
}

func c08RunRead(g c08Cfg, chunks [][]byte, eofWith bool) (c08Out, vh.RunResult) {
	cfg := &interp.Config{Stdin: c08Reader(chunks, eofWith), InputMode: interp.CSVMode,
		CSVInput: interp.CSVInputConfig{Separator: g.Sep, Comment: g.Comment, Header: g.Header}}
	res := vh.ExecProg(vh.MustParse(c08ReadProg), cfg)
	if res.Panic != "" || res.Err != "" {
		return c08Out{}, res
	}
	out, ok := c08ParseOut([]byte(res.Out))
	if !ok {
		res.Err = "unparsable output"
	}
	return out, res
}

// c08LP reads ` <len>:<bytes>` items
func c08LP(b []byte) (item []byte, rest []byte, ok bool) {
	if len(b) == 0 || b[0] != ' ' {
		return nil, b, false
	}
	b = b[1:]
	i := bytes.IndexByte(b, ':')
	if i < 0 {
		return nil, b, false
	}
	n, err := strconv.Atoi(string(b[:i]))
	if err != nil || len(b) < i+1+n {
		return nil, b, false
	}
	return append([]byte{}, b[i+1:i+1+n]...), b[i+1+n:], true
}

func c08Int(b []byte) (int, []byte, bool) {
	if len(b) == 0 || b[0] != ' ' {
		return 0, b, false
	}
	b = b[1:]
	i := 0
	for i < len(b) && b[i] >= '0' && b[i] <= '9' {
		i++
	}
	n, err := strconv.Atoi(string(b[:i]))
	return n, b[i:], err == nil
}

func c08ParseOut(out []byte) (c08Out, bool) {
	var o c08Out
	nr := 0
	for len(out) > 0 {
		switch {
		case bytes.HasPrefix(out, []byte("R")):
			out = out[1:]
			var n, nf int
			var ok bool
			if n, out, ok = c08Int(out); !ok {
				return o, false
			}
			nr++
			if n != nr {
				return o, false
			}
			if nf, out, ok = c08Int(out); !ok {
				return o, false
			}
			var rec c08Rec
			if rec.Text, out, ok = c08LP(out); !ok {
				return o, false
			}
			rec.Fields = [][]byte{}
			for i := 0; i < nf; i++ {
				var f []byte
				if f, out, ok = c08LP(out); !ok {
					return o, false
				}
				rec.Fields = append(rec.Fields, f)
			}
			o.Recs = append(o.Recs, rec)
		case bytes.HasPrefix(out, []byte("H")):
			out = out[1:]
			n, rest, ok := c08Int(out)
			if !ok {
				return o, false
			}
			out = rest
			if n > 0 {
				o.Hdr = [][]byte{}
			}
			for i := 0; i < n; i++ {
				var f []byte
				if f, out, ok = c08LP(out); !ok {
					return o, false
				}
				o.Hdr = append(o.Hdr, f)
			}
		default:
			return o, false
		}
		if len(out) == 0 || out[0] != '\n' {
			return o, false
		}
		out = out[1:]
	}
	return o, true
}

func c08Fields(fs [][]byte) string {
	s := make([]string, len(fs))
	for i, f := range fs {
		s[i] = vh.Hx(f)
	}
	return strings.Join(s, ",")
}

// canonical form = the Lean driver's answer format
func c08Canon(o c08Out, withText bool) string {
	var b strings.Builder
	b.WriteString("ok ")
	if o.Hdr == nil {
		b.WriteString("none")
	} else {
		b.WriteString("H" + c08Fields(o.Hdr))
	}
	for _, r := range o.Recs {
		b.WriteString(" " + c08Fields(r.Fields))
		if withText {
			b.WriteString("|" + vh.Hx(r.Text))
		}
	}
	return b.String()
}

// ---- O1/O2: the reference reader -----------------------------------------------------------------------------------

var c08BOM = []byte{0xEF, 0xBB, 0xBF}

type c08RefRow struct {
	Fields     [][]byte
	Start, End int // byte range of the row in the input (after skipped lines; End = start of what follows)
}

// c08Ref reads data with encoding/csv and locates every row's byte range independently of GoAWK.
func c08Ref(g c08Cfg, data []byte) ([]c08RefRow, error) {
	base := 0
	if bytes.HasPrefix(data, c08BOM) {
		base = 3
	}
	body := data[base:]
	rd := csv.NewReader(bytes.NewReader(body))
	rd.Comma = g.Sep
	rd.Comment = g.Comment
	rd.LazyQuotes = true
	rd.FieldsPerRecord = -1
	var rows []c08RefRow
	prev := 0
	for {
		rec, err := rd.Read()
		if err == io.EOF {
			return rows, nil
		}
		if err != nil {
			return nil, err
		}
		end := int(rd.InputOffset())
		// skip the comment lines and empty lines that precede the row
		start := prev
		for start < end {
			nl := bytes.IndexByte(body[start:end], '\n')
			line := body[start:end]
			if nl >= 0 {
				line = body[start : start+nl+1]
			}
			isComment := false
			if g.Comment != 0 {
				r, _ := utf8.DecodeRune(line)
				isComment = r == g.Comment
			}
			if isComment || string(line) == "\n" || string(line) == "\r\n" {
				start += len(line)
				continue
			}
			break
		}
		row := c08RefRow{Start: base + start, End: base + end}
		for _, f := range rec {
			row.Fields = append(row.Fields, []byte(f))
		}
		rows = append(rows, row)
		prev = end
	}
}

func c08StripNL(b []byte) []byte {
	if bytes.HasSuffix(b, []byte("\r\n")) {
		return b[:len(b)-2]
	}
	if bytes.HasSuffix(b, []byte("\n")) {
		return b[:len(b)-1]
	}
	return b
}

// c08TextOK: $0 is the record's own text without its line terminator; when the record spans a CRLF line break the code
// deletes every CR from $0 (documented normalisation), which is accepted too.
func c08TextOK(data []byte, row c08RefRow, got []byte) bool {
	want := c08StripNL(data[row.Start:row.End])
	if bytes.Equal(want, got) {
		return true
	}
	spansLines := false
	for _, f := range row.Fields {
		spansLines = spansLines || bytes.IndexByte(f, '\n') >= 0
	}
	if spansLines && bytes.Contains(data[row.Start:row.End], []byte("\r\n")) && bytes.Equal(bytes.ReplaceAll(want, []byte("\r"), nil), got) {
		return true
	}
	return false
}

// c08CheckRef compares one run of the real code with the reference rows. "" = fine.
func c08CheckRef(g c08Cfg, data []byte, rows []c08RefRow, o c08Out) string {
	recs := rows
	if g.Header {
		if len(rows) == 0 {
			if o.Hdr != nil {
				return "header names without a header row"
			}
		} else {
			if c08Fields(o.Hdr) != c08Fields(rows[0].Fields) || o.Hdr == nil {
				return "header names differ from the first row: got " + c08Fields(o.Hdr) + " want " + c08Fields(rows[0].Fields)
			}
			recs = rows[1:]
		}
	} else if o.Hdr != nil {
		return "header names although header mode is off"
	}
	if len(recs) != len(o.Recs) {
		return fmt.Sprintf("%d records, reference reader has %d", len(o.Recs), len(recs))
	}
	for i, r := range recs {
		if c08Fields(r.Fields) != c08Fields(o.Recs[i].Fields) {
			return fmt.Sprintf("record %d fields %s, reference %s", i+1, c08Fields(o.Recs[i].Fields), c08Fields(r.Fields))
		}
		if !c08TextOK(data, r, o.Recs[i].Text) {
			return fmt.Sprintf("record %d $0 = %s, its byte range is %s", i+1, vh.Hx(o.Recs[i].Text), vh.Hx(c08StripNL(data[r.Start:r.End])))
		}
	}
	return ""
}

// ---- generators --------------------------------------------------------------------------------------------------------

func c08Alphabet(g c08Cfg) [][]byte {
	sep := []byte(string(g.Sep))
	a := [][]byte{sep, sep, {'"'}, {'"'}, {'\r'}, {'\n'}, {'\n'}, {'#'}, {'a'}, {' '}, c08BOM, {0xEF}, {0xBB, 0xBF}, {'\r', '\n'}}
	if g.Comment != 0 && g.Comment != '#' {
		a = append(a, []byte(string(g.Comment)))
	}
	if len(sep) > 1 {
		a = append(a, sep[:1], sep[1:])
	}
	return a
}

func c08RandInput(c *vh.Ctx, alpha [][]byte, maxLen int) []byte {
	n := 1 + c.Rng.Intn(maxLen)
	var in []byte
	for len(in) < n {
		in = append(in, alpha[c.Rng.Intn(len(alpha))]...)
	}
	if len(in) > maxLen {
		in = in[:maxLen]
	}
	return in
}

// c08StructInput: rows of fields, each field written plain, quoted, or sloppily quoted; LF or CRLF ends; optional BOM,
// comment and blank lines, missing final newline.
func c08StructInput(c *vh.Ctx, g c08Cfg) []byte {
	var in []byte
	if c.Rng.Intn(4) == 0 {
		in = append(in, c08BOM...)
	}
	sep := string(g.Sep)
	rows := 1 + c.Rng.Intn(4)
	atoms := []string{"a", "b", " ", "\"\"", sep, "\n", "\r\n", "#", "é", "\r", "\""}
	for r := 0; r < rows; r++ {
		switch c.Rng.Intn(8) {
		case 0:
			in = append(in, "\n"...)
		case 1:
			in = append(in, "\r\n"...)
		case 2:
			cm := "#"
			if g.Comment != 0 {
				cm = string(g.Comment)
			}
			in = append(in, cm+"x"+sep+"y\n"...)
		}
		nf := 1 + c.Rng.Intn(4)
		for f := 0; f < nf; f++ {
			if f > 0 {
				in = append(in, sep...)
			}
			quoted := c.Rng.Intn(2) == 0
			if quoted {
				in = append(in, '"')
			}
			for k := c.Rng.Intn(4); k > 0; k-- {
				a := atoms[c.Rng.Intn(len(atoms))]
				if !quoted && (a == "\n" || a == "\r\n" || a == sep) {
					a = "c"
				}
				in = append(in, a...)
			}
			if quoted && c.Rng.Intn(8) != 0 {
				in = append(in, '"')
			}
		}
		switch c.Rng.Intn(6) {
		case 0:
			in = append(in, "\r\n"...)
		case 1:
			if r == rows-1 {
				if c.Rng.Intn(2) == 0 {
					in = append(in, '\r')
				}
				break
			}
			fallthrough
		default:
			in = append(in, '\n')
		}
	}
	return in
}

func c08Configs(c *vh.Ctx) []c08Cfg {
	gs := []c08Cfg{
		{',', 0, false}, {',', '#', false}, {',', 0, true}, {',', '#', true},
		{'\t', 0, false}, {'|', '#', true}, {'é', 0, false}, {'€', '#', false}, {' ', 0, false}, {',', 'é', true},
	}
	if c.Thorough() {
		gs = append(gs, c08Cfg{';', 0, false}, c08Cfg{'a', '#', false}, c08Cfg{'#', 0, false}, c08Cfg{'é', '€', true},
			c08Cfg{0x1F600, 0, false}, c08Cfg{'\t', '#', true}, c08Cfg{0x7f, 0, false}, c08Cfg{1, 2, true}, c08Cfg{',', ' ', false},
			c08Cfg{0xFEFF, 0, false}, c08Cfg{',', 0xFEFF, false})
	}
	return gs
}

type c08Job struct {
	g       c08Cfg
	input   []byte
	chunks  [][]byte
	eofWith bool
}

func (j c08Job) Case() c08Case {
	return c08Case{Cfg: j.g.String(), Input: vh.Hx(j.input), Chunks: vh.HexChunks(j.chunks), EOFWith: j.eofWith}
}

func c08Key(g c08Cfg, in []byte) string { return g.String() + "|" + string(in) }

func runC08(c *vh.Ctx) {
	c.Rule("per configuration (separator incl. multi-byte, comment on/off, header on/off): random strings over {sep, \", CR, LF, CRLF, #, " +
		"BOM and BOM fragments, a, space, separator fragments} and structured rows (plain / quoted / sloppily quoted fields, LF or CRLF, " +
		"blank and comment lines, missing final newline, optional BOM); every chunking of short inputs, every single cut and byte-at-a-time " +
		"for longer ones, EOF alone or with the last chunk; round trip: field lists over {sep, \", LF, CR, space, tab, NBSP, BOM, #, \\, ., a}; " +
		"size x path: records/fields around 4 KiB, 64 KiB +-1, 128 KiB on main loop, getline, getline<file, cmd|getline, $0=, split(); " +
		"reuse: 2-3 Execute calls on one Interpreter with different input/output mode, separators, comment, header, CRLF, Output object; " +
		"Output objects: bytes.Buffer and bufio.Writer of 16..65536 bytes; " +
		"non-trivial = the input has a quote, a separator or a line break inside and (for schedules) at least one cut")
	c08ReadPart(c)
	c08RoundTripPart(c)
	c08GetlinePart(c)
	c08PathsPart(c)
	c08ReusePart(c)
	c08OutputObjPart(c)
}

func c08ReadPart(c *vh.Ctx) {
	maxAll := c.N(7, 9)
	nShort := c.N(90, 260)
	nLong := c.N(40, 220)
	var jobs []c08Job
	add := func(g c08Cfg, in []byte, allCuts bool) {
		n := len(in)
		if n == 0 {
			return
		}
		if allCuts && n <= maxAll {
			for mask := uint64(0); mask < 1<<uint(n-1); mask++ {
				jobs = append(jobs, c08Job{g, in, vh.Cut(in, vh.CutsFromMask(n, mask)), false})
			}
			jobs = append(jobs, c08Job{g, in, [][]byte{in}, true})
			if n > 1 {
				jobs = append(jobs, c08Job{g, in, vh.Cut(in, []int{1 + c.Rng.Intn(n-1)}), true})
			}
			return
		}
		jobs = append(jobs, c08Job{g, in, [][]byte{in}, false})
		for p := 1; p < n; p++ {
			jobs = append(jobs, c08Job{g, in, vh.Cut(in, []int{p}), false})
		}
		all := make([]int, 0, n)
		for i := 1; i < n; i++ {
			all = append(all, i)
		}
		jobs = append(jobs, c08Job{g, in, vh.Cut(in, all), false})
		jobs = append(jobs, c08Job{g, in, [][]byte{in}, true})
		jobs = append(jobs, c08Job{g, in, vh.Cut(in, all), true})
		if n > 2 {
			jobs = append(jobs, c08Job{g, in, vh.Cut(in, []int{1 + c.Rng.Intn(n-1), 1 + c.Rng.Intn(n-1)}), true})
		}
	}

	// corpus: witnesses of fixed / recorded findings and past disagreements; always run, every chunking
	type cw struct {
		g  c08Cfg
		in string
	}
	for _, w := range []cw{
		{c08Cfg{',', 0, false}, "\xef\xbb\xbfa,b\nc,d\n"}, // F12 (fixed): BOM, $0 of first record
		{c08Cfg{',', 0, false}, "\xef\xbb\xbfa,b"},        // F12 (fixed): single record
		{c08Cfg{',', 0, true}, "\xef\xbb\xbfh\na\n"},      // F12 + header
		{c08Cfg{',', 0, true}, "h,i\na,b\n"},              // G08-1 (repaired): EOF-with-data schedules must give the data rows
		{c08Cfg{',', 0, false}, "abc\r"},                  // trailing CR before EOF: field drops it, $0 keeps it
		{c08Cfg{',', 0, false}, "\"a\n\r"},
		{c08Cfg{',', 0, false}, "\"a\r\nb\",c\rd\n"}, // CR deletion in $0
		{c08Cfg{',', 0, false}, "a,\"b\"\"c\"\r\n"},  // doubled quote, CRLF
		{c08Cfg{',', '#', false}, "#x\n\na\n#y"},
		{c08Cfg{'é', 0, false}, "a\xc3\xa9\"b\xc3\"\xc3\xa9c\n"},
		{c08Cfg{',', 0, false}, "a\"b,\"c\"d\",\"e\n"}, // lenient quotes
		{c08Cfg{',', 0, false}, "\n\xef\xbb\xbfa\n"},   // BOM not at the start is data
		{c08Cfg{',', 0, false}, "\r\r\n"},
		{c08Cfg{',', 0, false}, "\"\"\n,\n"},
	} {
		add(w.g, []byte(w.in), true)
	}

	for _, g := range c08Configs(c) {
		alpha := c08Alphabet(g)
		seen := map[string]bool{}
		for k := 0; k < nShort; k++ {
			var in []byte
			if k%3 == 2 {
				in = c08StructInput(c, g)
				if len(in) > maxAll {
					in = in[:maxAll]
				}
			} else {
				in = c08RandInput(c, alpha, maxAll)
			}
			if seen[string(in)] {
				continue
			}
			seen[string(in)] = true
			add(g, in, true)
		}
		for k := 0; k < nLong; k++ {
			var in []byte
			if k%2 == 0 {
				in = c08StructInput(c, g)
			} else {
				in = c08RandInput(c, alpha, maxAll+1+c.Rng.Intn(24))
			}
			if seen[string(in)] {
				continue
			}
			seen[string(in)] = true
			add(g, in, false)
		}
	}
	// the 64 KiB buffer edge: a quoted multi-line field and a BOM file crossing it
	for e := 0; e < c.N(1, 4); e++ {
		n := 65536 - 8 + c.Rng.Intn(16)
		in := append([]byte("\xef\xbb\xbfx,\""), bytes.Repeat([]byte("q"), n)...)
		in = append(in, "\r\nr\"\"s\",t\r\nu,v\n"...)
		g := c08Cfg{',', 0, e%2 == 1}
		jobs = append(jobs, c08Job{g, in, [][]byte{in}, false})
		jobs = append(jobs, c08Job{g, in, vh.Cut(in, []int{2}), false})
		jobs = append(jobs, c08Job{g, in, vh.Cut(in, []int{65535, 65537}), false})
		jobs = append(jobs, c08Job{g, in, vh.Cut(in, []int{4096, n + 7}), false})
	}

	type outT struct {
		o   c08Out
		res vh.RunResult
	}
	outs := make([]outT, len(jobs))
	vh.Parallel(len(jobs), func(i int) {
		o, res := c08RunRead(jobs[i].g, jobs[i].chunks, jobs[i].eofWith)
		outs[i] = outT{o, res}
	})

	// reference rows per distinct (cfg, input)
	type refT struct {
		rows  []c08RefRow
		err   error
		canon string // the first (one-piece, EOF alone) run
		first int
	}
	refs := map[string]*refT{}
	for i, j := range jobs {
		key := c08Key(j.g, j.input)
		o := outs[i]
		cs := j.Case()
		nontrivial := bytes.ContainsAny(j.input, "\"\n") || bytes.Contains(j.input, []byte(string(j.g.Sep)))
		c.Eval(key+"|"+strings.Join(cs.Chunks, ",")+fmt.Sprint(j.eofWith), nontrivial && len(j.chunks) > 1)
		c.OracleCase()
		c.Hit("read:" + j.g.String())
		c.Hit(fmt.Sprintf("read:chunks:%d", min(len(j.chunks), 9)))
		c.Hit(fmt.Sprintf("read:records:%d", min(len(o.o.Recs), 6)))
		if j.eofWith {
			c.Hit("read:eof-with-last-chunk")
		}
		if bytes.HasPrefix(j.input, c08BOM) {
			c.Hit("read:bom")
		}
		if bytes.Contains(j.input, []byte("\"")) {
			c.Hit("read:has-quote")
		}
		if i%20011 == 0 {
			c.Sample(map[string]interface{}{"case": cs, "got": c08Canon(o.o, true)})
		}
		if o.res.Panic != "" || o.res.Err != "" {
			c.Fail(vh.Failure{Kind: "oracle", What: "run failed or panicked: " + o.res.String(), Case: cs})
			continue
		}
		r, ok := refs[key]
		if !ok {
			r = &refT{first: i}
			r.rows, r.err = c08Ref(j.g, j.input)
			r.canon = c08Canon(o.o, true)
			refs[key] = r
			if r.err != nil {
				c.Hit("read:reference-reader-error")
			} else if msg := c08CheckRef(j.g, j.input, r.rows, o.o); msg != "" {
				c.Fail(vh.Failure{Kind: "oracle", What: "O1/O2 (RFC 4180 reader, $0 = own text): " + msg, Case: cs, Got: r.canon})
			}
			continue
		}
		if got := c08Canon(o.o, true); got != r.canon {
			c.Fail(vh.Failure{Kind: "oracle", What: "O3: records depend on how the input is delivered", Case: cs, Got: got, Want: r.canon})
		}
	}

	// correspondence: the Lean specification reader on every distinct (cfg, input)
	if c.HasLean() {
		var reqs []string
		var idx []int
		keys := make([]string, 0, len(refs))
		for k := range refs {
			keys = append(keys, k)
		}
		sort.Strings(keys)
		for _, k := range keys {
			r := refs[k]
			j := jobs[r.first]
			if len(j.input) > 8192 {
				continue
			}
			h := "0"
			if j.g.Header {
				h = "1"
			}
			reqs = append(reqs, fmt.Sprintf("read %s %s %s %s", vh.HxS(string(j.g.Sep)), c08RuneHex(j.g.Comment), h, vh.Hx(j.input)))
			idx = append(idx, r.first)
		}
		for k, a := range c.LeanBatch(reqs) {
			i := idx[k]
			if outs[i].res.Panic != "" || outs[i].res.Err != "" {
				continue
			}
			c.Trace()
			if got := c08Canon(outs[i].o, true); got != a {
				c.Fail(vh.Failure{Kind: "correspondence", What: "Lean csvRecords and the real reader differ", Case: jobs[i].Case(), Got: got, Want: a})
			}
		}
		// the scanner model (csvSplitter.scan + bufio.Scanner loop) on every delivery schedule
		reqs, idx = reqs[:0], idx[:0]
		for i, j := range jobs {
			if len(j.input) > 8192 {
				continue
			}
			h, e := "0", "0"
			if j.g.Header {
				h = "1"
			}
			if j.eofWith {
				e = "1"
			}
			reqs = append(reqs, fmt.Sprintf("scan %s %s %s %s %s", vh.HxS(string(j.g.Sep)), c08RuneHex(j.g.Comment), h, e, strings.Join(vh.HexChunks(j.chunks), " ")))
			idx = append(idx, i)
		}
		for k, a := range c.LeanBatch(reqs) {
			i := idx[k]
			if outs[i].res.Panic != "" || outs[i].res.Err != "" {
				continue
			}
			c.Trace()
			if got := c08Canon(outs[i].o, true); got != a {
				finding := ""
				c.Fail(vh.Failure{Kind: "correspondence", What: "Lean scanner model (csvScanAll) and the real scanner differ on this schedule", Finding: finding,
					Case: jobs[i].Case(), Got: got, Want: a})
			}
		}
	}
}

// ---- O4: round trip ---------------------------------------------------------------------------------------------------

func c08Lit(b []byte) string {
	var s strings.Builder
	s.WriteByte('"')
	for _, x := range b {
		fmt.Fprintf(&s, "\\%03o", x)
	}
	s.WriteByte('"')
	return s.String()
}

func c08RandField(c *vh.Ctx, sep string, withCR bool) []byte {
	atoms := []string{sep, sep, "\"", "\"", "\n", " ", "a", "b", "#", "\t", "\\", ".", "\xc2\xa0", "\xef\xbb\xbf", "\xe2\x80\x83", "é", "\xc3", ",", "\x00"}
	if withCR {
		atoms = append(atoms, "\r", "\r\n")
	}
	var f []byte
	for k := c.Rng.Intn(5); k > 0; k-- {
		f = append(f, atoms[c.Rng.Intn(len(atoms))]...)
	}
	switch c.Rng.Intn(40) {
	case 0:
		f = []byte("\\.")
	case 1:
		f = append([]byte("\xef\xbb\xbf"), f...)
	}
	return f
}

func c08HasCR(recs [][][]byte) bool {
	for _, r := range recs {
		for _, f := range r {
			if bytes.IndexByte(f, '\r') >= 0 {
				return true
			}
		}
	}
	return false
}

func c08RecsCanon(recs [][][]byte) string {
	s := make([]string, len(recs))
	for i, r := range recs {
		s[i] = c08Fields(r)
	}
	return strings.Join(s, " ")
}

// c08RoundTripClass: the recorded class in which a CR-free field list is not read back.
//
//	G08-3: the first field of the first record of the stream starts with the BOM bytes and is written unquoted; the reader
//	       drops them as a byte-order mark
//
// The predicate accepts a failing case only if removing exactly those three bytes from that field yields what was read.
// (G08-2, the single empty field written as an empty line, is repaired: its witnesses are regression cases now.)
func c08RoundTripClass(recs [][][]byte, written []byte, got [][][]byte) string {
	if len(recs) == 0 || !bytes.HasPrefix(written, c08BOM) || !bytes.HasPrefix(recs[0][0], c08BOM) {
		return ""
	}
	adj := append([][][]byte{append([][]byte{bytes.TrimPrefix(recs[0][0], c08BOM)}, recs[0][1:]...)}, recs[1:]...)
	if len(adj[0]) == 1 && len(adj[0][0]) == 0 {
		adj = adj[1:] // the field was only the BOM: what is left of the line is empty, and an empty line is no record
	}
	if c08RecsCanon(adj) == c08RecsCanon(got) {
		return "G08-3"
	}
	return ""
}

func c08RoundTripPart(c *vh.Ctx) {
	type rt struct {
		sep     rune
		recs    [][][]byte
		comment rune // only for the $0 rebuild / re-parse / split() variant
	}
	seps := []rune{',', '\t', '|', 'é', '€', ' ', ';', 'a'}
	n := c.N(1500, 20000)
	var cases []rt
	// corpus
	cases = append(cases,
		rt{sep: ',', recs: [][][]byte{{[]byte("")}}},                               // G08-2 (repaired): regression
		rt{sep: ',', recs: [][][]byte{{[]byte("a")}, {[]byte("")}, {[]byte("b")}}}, // G08-2 (repaired)
		rt{sep: ',', recs: [][][]byte{{[]byte("\xef\xbb\xbfa"), []byte("b")}}},     // G08-3
		rt{sep: ',', recs: [][][]byte{{[]byte("x")}, {[]byte("\xef\xbb\xbfa")}}},   // BOM not first: fine
		rt{sep: ',', recs: [][][]byte{{[]byte(""), []byte("")}}},                   // two empty fields: fine
		rt{sep: ',', recs: [][][]byte{{[]byte("a,b"), []byte("c\"d"), []byte("e\nf"), []byte(" g"), []byte("\\.")}}},
		rt{sep: 'é', recs: [][][]byte{{[]byte("\xc3"), []byte("\xa9"), []byte("aéb")}}},
		rt{sep: ',', recs: [][][]byte{{[]byte("#a")}}},
		rt{sep: ',', recs: [][][]byte{{[]byte("#a"), []byte("b")}}, comment: '#'}, // re-parse sees a comment line: no fields
		rt{sep: ',', recs: [][][]byte{{[]byte("a#"), []byte("#")}}, comment: '#'},
	)
	for k := 0; k < n; k++ {
		sep := seps[c.Rng.Intn(len(seps))]
		withCR := c.Rng.Intn(5) == 0
		var recs [][][]byte
		for r := 1 + c.Rng.Intn(3); r > 0; r-- {
			var rec [][]byte
			for f := 1 + c.Rng.Intn(4); f > 0; f-- {
				rec = append(rec, c08RandField(c, string(sep), withCR))
			}
			recs = append(recs, rec)
		}
		cm := rune(0)
		if c.Rng.Intn(6) == 0 {
			cm = '#'
		}
		cases = append(cases, rt{sep: sep, recs: recs, comment: cm})
	}

	type outT struct {
		written []byte
		wres    vh.RunResult
		back    c08Out
		rres    vh.RunResult
		// $0 rebuild variant, for the first record
		joined       []byte
		reNF, splitN int
		reFields     [][]byte
		splitFields  [][]byte
		jres         vh.RunResult
		jok          bool
	}
	outs := make([]outT, len(cases))
	vh.Parallel(len(cases), func(i int) {
		cs := cases[i]
		var src strings.Builder
		src.WriteString("BEGIN {")
		for _, r := range cs.recs {
			src.WriteString(" print ")
			for k, f := range r {
				if k > 0 {
					src.WriteString(", ")
				}
				src.WriteString(c08Lit(f))
			}
			src.WriteString(";")
		}
		src.WriteString(" }")
		o := &outs[i]
		o.wres = vh.ExecProg(vh.MustParse(src.String()), &interp.Config{OutputMode: interp.CSVMode, CSVOutput: interp.CSVOutputConfig{Separator: cs.sep}})
		o.written = []byte(o.wres.Out)
		if o.wres.Err == "" && o.wres.Panic == "" {
			o.back, o.rres = c08RunRead(c08Cfg{cs.sep, 0, false}, [][]byte{o.written}, false)
		}
		// $0 rebuilt from assigned fields in CSV output mode, then re-parsed, then split()
		var js strings.Builder
		js.WriteString("BEGIN { $0 = \"\";")
		for k, f := range cs.recs[0] {
			fmt.Fprintf(&js, " $%d = %s;", k+1, c08Lit(f))
		}
		js.WriteString(` x = $0; printf "J %d:%s", length(x), x; $0 = x; printf " %d", NF; for (i=1;i<=NF;i++) printf " %d:%s", length($i), $i;`)
		js.WriteString(` n = split(x, arr); printf " %d", n; for (i=1;i<=n;i++) printf " %d:%s", length(arr[i]), arr[i]; printf "\n" }`)
		o.jres = vh.ExecProg(vh.MustParse(js.String()), &interp.Config{InputMode: interp.CSVMode, CSVInput: interp.CSVInputConfig{Separator: cs.sep, Comment: cs.comment},
			OutputMode: interp.CSVMode, CSVOutput: interp.CSVOutputConfig{Separator: cs.sep}})
		if o.jres.Err == "" && o.jres.Panic == "" {
			b := []byte(o.jres.Out)
			ok := bytes.HasPrefix(b, []byte("J"))
			if ok {
				b = b[1:]
				o.joined, b, ok = c08LP(b)
			}
			if ok {
				o.reNF, b, ok = c08Int(b)
			}
			for k := 0; ok && k < o.reNF; k++ {
				var f []byte
				f, b, ok = c08LP(b)
				o.reFields = append(o.reFields, f)
			}
			if ok {
				o.splitN, b, ok = c08Int(b)
			}
			for k := 0; ok && k < o.splitN; k++ {
				var f []byte
				f, b, ok = c08LP(b)
				o.splitFields = append(o.splitFields, f)
			}
			o.jok = ok && string(b) == "\n"
		}
	})

	var reqs []string
	type corr struct {
		i    int
		kind string
	}
	var corrs []corr
	for i, cs := range cases {
		o := outs[i]
		flds := []string{}
		for _, r := range cs.recs {
			flds = append(flds, c08Fields(r))
		}
		kase := c08Case{Cfg: "sep=" + vh.HxS(string(cs.sep)), Fields: flds}
		hasCR := c08HasCR(cs.recs)
		special := false
		for _, r := range cs.recs {
			for _, f := range r {
				if bytes.ContainsAny(f, "\"\n") || bytes.Contains(f, []byte(string(cs.sep))) {
					special = true
				}
			}
		}
		c.Eval("rt|"+kase.Cfg+"|"+strings.Join(flds, " "), special)
		c.OracleCase()
		c.Hit("roundtrip:sep=" + vh.HxS(string(cs.sep)))
		c.Hit(fmt.Sprintf("roundtrip:records:%d", len(cs.recs)))
		if hasCR {
			c.Hit("roundtrip:has-CR(no-claim)")
		}
		if special {
			c.Hit("roundtrip:needs-quoting")
		}
		if i%4001 == 0 {
			c.Sample(map[string]interface{}{"case": kase, "written": vh.Hx(o.written)})
		}
		for _, res := range []vh.RunResult{o.wres, o.rres, o.jres} {
			if res.Panic != "" || res.Err != "" {
				c.Fail(vh.Failure{Kind: "oracle", What: "round trip run failed or panicked: " + res.String(), Case: kase})
			}
		}
		if o.wres.Err != "" || o.wres.Panic != "" || o.rres.Err != "" || o.rres.Panic != "" {
			continue
		}
		// O4: print → read back
		if !hasCR {
			var got [][][]byte
			for _, r := range o.back.Recs {
				got = append(got, r.Fields)
			}
			if c08RecsCanon(got) != c08RecsCanon(cs.recs) {
				c.Fail(vh.Failure{Kind: "oracle", What: "O4: CR-free fields written by print in CSV mode are not read back", Finding: c08RoundTripClass(cs.recs, o.written, got),
					Case: kase, Got: c08RecsCanon(got), Want: c08RecsCanon(cs.recs)})
			}
			// $0 rebuild → re-parse → split, first record
			if o.jok && !(cs.comment != 0 && bytes.HasPrefix(bytes.TrimPrefix(o.joined, c08BOM), []byte(string(cs.comment)))) {
				one := [][][]byte{cs.recs[0]}
				for _, v := range []struct {
					name string
					fs   [][]byte
				}{{"re-parsing the rebuilt $0", o.reFields}, {"split() of the rebuilt $0", o.splitFields}} {
					var g [][][]byte
					if len(v.fs) > 0 {
						g = [][][]byte{v.fs}
					}
					if c08RecsCanon(g) != c08RecsCanon(one) {
						c.Fail(vh.Failure{Kind: "oracle", What: "O4: " + v.name + " does not yield the assigned fields", Finding: c08RoundTripClass(one, o.joined, g),
							Case: kase, Got: c08RecsCanon(g), Want: c08RecsCanon(one)})
					}
				}
			} else if !o.jok && o.jres.Err == "" && o.jres.Panic == "" {
				c.Fail(vh.Failure{Kind: "oracle", What: "unparsable output of the $0 rebuild program: " + o.jres.String(), Case: kase})
			}
		}
		// correspondence requests: writer, joinFields, reparse
		if c.HasLean() {
			var want []byte
			for _, r := range cs.recs {
				reqs = append(reqs, "write "+vh.HxS(string(cs.sep))+" "+strings.Join(c08FieldList(r), " "))
				corrs = append(corrs, corr{i, "write"})
				_ = want
			}
			if o.jok {
				reqs = append(reqs, "join "+vh.HxS(string(cs.sep))+" "+strings.Join(c08FieldList(cs.recs[0]), " "))
				corrs = append(corrs, corr{i, "join"})
				reqs = append(reqs, "reparse "+vh.HxS(string(cs.sep))+" "+c08RuneHex(cs.comment)+" "+vh.Hx(o.joined))
				corrs = append(corrs, corr{i, "reparse"})
			}
		}
	}
	if c.HasLean() {
		ans := c.LeanBatch(reqs)
		written := map[int][]byte{}
		for k, a := range ans {
			cr := corrs[k]
			o := outs[cr.i]
			kase := c08Case{Cfg: "sep=" + vh.HxS(string(cases[cr.i].sep)), Fields: []string{c08RecsCanon(cases[cr.i].recs)}, Comment_: reqs[k]}
			switch cr.kind {
			case "write":
				b, ok := c08Unhex(strings.TrimPrefix(a, "ok "))
				if !ok {
					c.Fail(vh.Failure{Kind: "correspondence", What: "Lean csvWrite: bad answer", Case: kase, Got: a})
					continue
				}
				written[cr.i] = append(written[cr.i], b...)
			case "join":
				c.Trace()
				if a != "ok "+vh.Hx(o.joined) {
					c.Fail(vh.Failure{Kind: "correspondence", What: "Lean joinFields and the rebuilt $0 differ", Case: kase, Got: vh.Hx(o.joined), Want: a})
				}
			case "reparse":
				c.Trace()
				got := "ok none"
				if len(o.reFields) > 0 {
					got = "ok " + c08Fields(o.reFields)
				}
				got2 := "ok none"
				if len(o.splitFields) > 0 {
					got2 = "ok " + c08Fields(o.splitFields)
				}
				if a != got || a != got2 {
					c.Fail(vh.Failure{Kind: "correspondence", What: "Lean reparse and the real re-parse / split() differ", Case: kase, Got: got + " / " + got2, Want: a})
				}
			}
		}
		for i, w := range written {
			c.Trace()
			if !bytes.Equal(w, outs[i].written) {
				c.Fail(vh.Failure{Kind: "correspondence", What: "Lean csvWrite and the real print output differ",
					Case: c08Case{Cfg: "sep=" + vh.HxS(string(cases[i].sep)), Fields: []string{c08RecsCanon(cases[i].recs)}}, Got: vh.Hx(outs[i].written), Want: vh.Hx(w)})
			}
		}
	}
}

func c08FieldList(r [][]byte) []string {
	s := make([]string, len(r))
	for i, f := range r {
		s[i] = vh.Hx(f)
	}
	return s
}

func c08Unhex(s string) ([]byte, bool) {
	if s == "-" {
		return nil, true
	}
	b := make([]byte, 0, len(s)/2)
	if len(s)%2 != 0 {
		return nil, false
	}
	for i := 0; i < len(s); i += 2 {
		v, err := strconv.ParseUint(s[i:i+2], 16, 8)
		if err != nil {
			return nil, false
		}
		b = append(b, byte(v))
	}
	return b, true
}

// ---- O5: getline var (F13) -------------------------------------------------------------------------------------------

// In CSV/TSV input mode `getline var` (from the main input) must leave $0 and the fields of the current record alone.
// (F13, repaired: the main-input csvSplitter used to write p.fields directly; these are regression cases now.)
func c08GetlinePart(c *vh.Ctx) {
	prog := `NR==1 { printf "%d:%s", length($1), $1; getline x; printf " %d:%s %d:%s %d:%s\n", length($0), $0, length($1), $1, length(x), x }`
	inputs := []string{"a,b\nc,d\n", "\"p,q\",r\nss,t\n", "k\n\"l\nm\",n\n"}
	for k := c.N(6, 60); k > 0; k-- {
		in := c08StructInput(c, c08Cfg{',', 0, false})
		inputs = append(inputs, string(in))
	}
	for _, in := range inputs {
		rows, err := c08Ref(c08Cfg{',', 0, false}, []byte(in))
		if err != nil || len(rows) < 2 {
			continue
		}
		res := vh.ExecProg(vh.MustParse(prog), &interp.Config{Stdin: strings.NewReader(in), InputMode: interp.CSVMode})
		kase := c08Case{Cfg: "sep=2c", Input: vh.HxS(in), Program: prog}
		c.Eval("getline|"+in, true)
		c.OracleCase()
		c.Hit("getline-var")
		if res.Err != "" || res.Panic != "" {
			c.Fail(vh.Failure{Kind: "oracle", What: "getline run failed: " + res.String(), Case: kase})
			continue
		}
		b := []byte(" " + res.Out)
		var it [4][]byte
		ok := true
		for k := 0; k < 4 && ok; k++ {
			it[k], b, ok = c08LP(b)
		}
		if !ok {
			c.Fail(vh.Failure{Kind: "oracle", What: "unparsable getline output " + res.String(), Case: kase})
			continue
		}
		// it[0] = $1 before, it[1] = $0 after, it[2] = $1 after, it[3] = x
		if !bytes.Equal(it[0], it[2]) || !bytes.Equal(it[0], rows[0].Fields[0]) {
			c.Fail(vh.Failure{Kind: "oracle", What: "O5: getline var changed the fields of the current record", Case: kase,
				Got: vh.Hx(it[2]), Want: vh.Hx(it[0])})
		}
	}
}
