#!/usr/bin/env python3
"""cross_rehearse.py <seeded-id> <Cnn>...  — run OTHER properties' checks (rehearsal mode) against a seeded change and record
which of them report it (seeded/<id>/meta.json → "also_checked")."""
import json, os, subprocess, sys, time
V = '/verif'
sid, props = sys.argv[1], sys.argv[2:]
env = dict(os.environ, GOFLAGS='-mod=mod', GOPROXY='off', GOSUMDB='off', GOTOOLCHAIN='local')
def sh(cmd, **kw):
    kw.setdefault('env', env)
    p = subprocess.run(cmd, stdout=subprocess.PIPE, stderr=subprocess.STDOUT, text=True, errors='replace', **kw)
    return p.returncode, p.stdout
mp = f'{V}/seeded/{sid}/meta.json'
m = json.load(open(mp))
wt = f'/tmp/cross_{sid}'
sh(['git', '-C', '/repo', 'worktree', 'remove', '--force', wt])
sh(['git', '-C', '/repo', 'worktree', 'add', '--detach', wt, 'HEAD'])
rc, out = sh(['git', '-C', wt, 'apply', f'{V}/seeded/{sid}/patch.diff'])
res = m.setdefault('also_checked', {})
for pid in props:
    rc, out = sh([f'{V}/check', pid, '--tier', 'quick'], cwd=V, env=dict(env, VERIF_REPO=wt), timeout=3000)
    lines = [l for l in out.strip().splitlines() if l.startswith('VIOLATION')]
    what = ''
    if lines:
        try:
            rp = json.load(open(lines[0].split('replay=')[1].split()[0])); what = (rp.get('failure') or {}).get('what', '')
        except Exception:
            pass
    res[pid] = {'caught': bool(lines) and rc == 1, 'no_failing_input_found': 'no-failing-input-found' in out, 'what': what[:200]}
    print(sid, pid, 'CAUGHT' if res[pid]['caught'] else 'not caught', what[:120], flush=True)
sh(['git', '-C', '/repo', 'worktree', 'remove', '--force', wt])
json.dump(m, open(mp, 'w'), indent=1)
