#!/usr/bin/env python3
"""Regenerate /verif/MANIFEST.json from props/Cnn.json (one file per property). A property is claimed when its props file
says "claimed": true; every other property of properties.jsonl goes to not_applicable with the reason given there."""
import json, os, subprocess
V = os.path.dirname(os.path.dirname(os.path.abspath(__file__)))
props = [json.loads(l) for l in open(os.path.join(V, 'properties.jsonl'))]
hook_commits = subprocess.run(['git', '-C', '/repo', 'log', '--format=%H', '--grep=^verif hooks'], capture_output=True, text=True).stdout.split()
ready = set(open(os.path.join(V, 'props', 'READY')).read().split())   # ids the lead has accepted
checks, na = [], []
for p in props:
    pid = p['id']
    mp = os.path.join(V, 'props', pid + '.json')
    meta = json.load(open(mp)) if os.path.exists(mp) else {}
    if not meta.get('claimed') or pid not in ready:
        na.append({'property_id': pid, 'reason': meta.get('na_reason', 'machinery for this property is not built yet (work in progress); no claim is made')})
        continue
    checks.append({
        'property_id': pid,
        'quick_cmd': f'./check {pid} --tier quick',
        'thorough_cmd': f'./check {pid} --tier thorough',
        'evidence_file': f'evidence/{pid}.json',
        'replay_cmd_template': f'./check {pid} --replay {{path}}',
        'engine': 'lean-proof+correspondence',
        'level_claimed': {'category': 'proof', 'text': meta['level_text'], 'design_ref': meta.get('design_ref', 'DESIGN.md section 5, ' + pid)},
        'level_note': meta['level_note'],
        'technique': meta.get('technique', 'Lean 4 theorems over an executable model; model tied to the Go source by regenerated facts and a differential correspondence check; implementation-side oracle yields replays'),
    })
man = {
    'version': 1,
    'setup_cmd': './check --setup',
    'hooks': {'guard': 'verif', 'enable': 'go build -tags verif (harness/cNN binaries are built against /repo with the tag on every check run)',
              'baseline_off_cmd': 'python3 tools/baseline_check.py /repo',
              'source_commits': hook_commits, 'add_only': True},
    'engines': [{'name': 'lean-proof+correspondence', 'path': 'lean/ harness/ extract/ check',
                 'serves_properties': [c['property_id'] for c in checks],
                 'kind_free_text': 'Lean 4 machine-checked theorems about hand-written executable models (lean/GoawkModel, lean/Props); tie to /repo: facts regenerated from the Go source by extract/ on every run + differential correspondence of model vs real code through a line protocol (harness/); implementation-side oracle searches for a concrete failing input when a tie or proof breaks'}],
    'checks': checks,
    'notes': 'See DESIGN.md. Every check regenerates lean/GoawkModel/Generated from /repo, rebuilds Props.<id> and its driver, audits axioms, rebuilds the harness with -tags verif against /repo, runs correspondence + oracle, and writes evidence/<id>.json. Known findings: known_findings.json.',
    'not_applicable': na,
}
json.dump(man, open(os.path.join(V, 'MANIFEST.json'), 'w'), indent=1)
print('claimed:', [c['property_id'] for c in checks], 'not_applicable:', len(na))
