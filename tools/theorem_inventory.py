#!/usr/bin/env python3
"""Print (markdown) the theorem inventory as built: per property, the theorems audited in the last check run (from evidence/*.json),
their axioms, and the model clauses that have no theorem (props/*.json modelled_unproved)."""
import glob, json, os
print('| property | theorems audited | names | axioms used | modelled, unproved (from props/Cnn.json) |')
print('|---|---|---|---|---|')
tot = 0
for f in sorted(glob.glob('/verif/evidence/C*.json')):
    e = json.load(open(f)); c = e['coverage']; pid = e['property_id']
    th = c.get('theorems', [])
    tot += len(th)
    names = ', '.join('`' + t['name'].split('.')[-1] + '`' for t in th)
    axs = sorted({a for t in th for a in t['axioms']})
    meta = json.load(open(f'/verif/props/{pid}.json'))
    un = '; '.join(meta.get('modelled_unproved', [])) or '—'
    print(f"| {pid} | {c['discharged']}/{c['obligations']} | {names} | {', '.join(axs) or 'none'} | {un[:700]} |")
print(f'\nTotal: {tot} theorems in `lean/Props`.')
