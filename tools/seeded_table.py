#!/usr/bin/env python3
"""Print the markdown table of seeded breaking changes and which check reported what (DESIGN.md Appendix D)."""
import glob, json, os
rows = []
c1 = c2 = c3 = 0
for f in sorted(glob.glob('/verif/seeded/*/meta.json')):
    m = json.load(open(f)); c = m['confirmation']; r = m.get('rechecks') or []
    first = 'caught' if c['caught_by_quick'] else 'missed'
    if c.get('no_failing_input_found'):
        first += ' (no-failing-input-found)'
    final = first
    rep = (c.get('reported') or {}).get('what') or ''
    if r:
        final = 'caught' if r[-1]['caught'] else 'missed'
        if r[-1].get('no_failing_input_found'):
            final += ' (no-failing-input-found)'
        rep = (r[-1].get('reported') or {}).get('what') or rep
    others = [p for p, v in (m.get('also_checked') or {}).items() if v.get('caught')]
    if not final.startswith('caught') and others:
        final = 'missed by ' + m['property'] + ', caught by ' + '/'.join(others)
        c3 += 1
    c1 += first.startswith('caught'); c2 += final.startswith('caught')
    def cell(s, n):
        s = (s or '').replace('|', '\\|').replace('\n', ' ')
        return s if len(s) <= n else s[:n - 1] + '…'
    rows.append(f"| {c['id']} | {cell(m.get('title') or m.get('what_it_breaks'), 150)} | {cell(m.get('needs_to_manifest'), 170)} | {first} | {final} | {cell(rep, 110)} |")
print('| id | change (as described by its author) | needs to manifest | first rehearsal | after strengthening | reported as |')
print('|---|---|---|---|---|---|')
print('\n'.join(rows))
n = len(rows)
print(f'\n{n} seeded changes; caught by the property\'s own check at first rehearsal: {c1}; now: {c2}; caught only by another property\'s check: {c3}; caught by no check: {n - c2 - c3}.')
