#!/usr/bin/env python3
"""fullmode_seeded.py <seeded-id>...  — apply each seeded change to /repo ITSELF (git apply), run the property's registered
quick command (facts regenerated, proofs rebuilt, harness rebuilt: the real thing, not rehearsal mode), undo it straight
afterwards (git checkout -- .) and record the outcome in seeded/<id>/meta.json under "full_mode". Run only while nothing else
is using /repo. Never commits anything in /repo."""
import json, os, subprocess, sys, time
V = '/verif'
def sh(cmd, **kw):
    p = subprocess.run(cmd, stdout=subprocess.PIPE, stderr=subprocess.STDOUT, text=True, errors='replace', **kw)
    return p.returncode, p.stdout
assert sh(['git', '-C', '/repo', 'status', '--porcelain'])[1].strip() == '', '/repo is not clean'
for sid in sys.argv[1:]:
    mp = f'{V}/seeded/{sid}/meta.json'
    m = json.load(open(mp)); pid = m['property']
    res = {'at': time.strftime('%Y-%m-%dT%H:%M:%SZ', time.gmtime())}
    try:
        rc, out = sh(['git', '-C', '/repo', 'apply', f'{V}/seeded/{sid}/patch.diff'])
        if rc != 0:
            res['note'] = 'patch does not apply: ' + out[-200:]
        else:
            t0 = time.time()
            rc, out = sh([f'{V}/check', pid, '--tier', 'quick'], cwd=V, timeout=3000)
            vio = [l for l in out.splitlines() if l.startswith('VIOLATION')]
            res.update({'exit': rc, 'violation_line': vio[0] if vio else None, 'wall_s': round(time.time() - t0),
                        'broken_obligations': [l[:300] for l in out.splitlines() if l.startswith('broken obligations')][:1]})
            if vio:
                try:
                    rp = json.load(open(vio[0].split('replay=')[1].split()[0]))
                    res['replay_kind'] = rp.get('kind'); res['what'] = ((rp.get('failure') or {}).get('what') or '')[:200]
                    res['broken'] = [(b.get('decl'), (b.get('message') or '')[:120]) for b in (rp.get('broken_obligations') or (rp.get('triggered_by') or {}).get('broken_obligations') or [])][:4]
                except Exception:
                    pass
    finally:
        sh(['git', '-C', '/repo', 'checkout', '--', '.'])
        sh(['git', '-C', '/repo', 'clean', '-fdq'])
        # the evidence file this run wrote describes the PATCHED tree: put the committed one back
        sh(['git', '-C', V, 'checkout', '--', f'evidence/{pid}.json'])
    m['full_mode'] = res
    json.dump(m, open(mp, 'w'), indent=1)
    print(sid, res.get('exit'), res.get('violation_line'), res.get('replay_kind'), res.get('broken'), flush=True)
# leave the generated facts as the unchanged tree has them
sh([f'{V}/extract/extract', '-repo', '/repo', '-out', f'{V}/lean/GoawkModel/Generated'])
