#!/bin/bash
# confirm_mutant.sh <mutant-dir (patch.diff, demo, meta.json)> <scratch worktree the demo's go.mod points at>
# Confirms: patch applies and builds, baseline tests still pass with it, the demonstration fails with it and passes without.
set -u
D=$1; WT=$2
export GOFLAGS=-mod=mod GOPROXY=off GOSUMDB=off GOTOOLCHAIN=local
git -C "$WT" checkout -q -- . || exit 2
git -C "$WT" apply "$D/patch.diff" || { echo "APPLY FAILED"; exit 2; }
(cd "$WT" && go build ./... && go build -tags verif ./...) || { echo "BUILD FAILED"; git -C "$WT" checkout -q -- .; exit 2; }
python3 /verif/tools/baseline_check.py "$WT" | tail -1
cmd=$(python3 -c "import json,sys; print(json.load(open('$D/meta.json')).get('demo_cmd',''))")
echo "demo_cmd: $cmd"
run_demo() { (cd "$D" && if ls *_test.go >/dev/null 2>&1; then go test -count=1 ./... ; else go run . ; fi) >/tmp/.demo_out 2>&1; echo $?; }
with=$(run_demo); tail -3 /tmp/.demo_out | sed 's/^/  with: /'
git -C "$WT" checkout -q -- .
without=$(run_demo); tail -2 /tmp/.demo_out | sed 's/^/  without: /'
echo "RESULT demo_exit_with_mutant=$with demo_exit_without=$without"
