#!/usr/bin/env python3
"""Merge props/*.findings.json (written by the per-property builders) into known_findings.json. Entries are keyed by id;
ids listed in known_findings.json "retired" (repaired defects) are dropped. Run by hand by the lead; never by a check."""
import glob, json, os
V = os.path.dirname(os.path.dirname(os.path.abspath(__file__)))
kf = json.load(open(os.path.join(V, 'known_findings.json')))
retired = set(kf.get('retired', []))
by_id = {f['id']: f for f in kf['findings']}
for path in sorted(glob.glob(os.path.join(V, 'props', '*.findings.json'))):
    d = json.load(open(path))
    d = d if isinstance(d, list) else d.get('findings', [])
    for e in d:
        if e.get('status', 'known') == 'known':
            by_id[e['id']] = e
kf['findings'] = [f for i, f in sorted(by_id.items()) if i not in retired]
json.dump(kf, open(os.path.join(V, 'known_findings.json'), 'w'), indent=1)
print('findings:', [f['id'] + ':' + f['property'] for f in kf['findings']])
