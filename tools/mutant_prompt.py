#!/usr/bin/env python3
"""Print the prompt for a fresh mutation sub-agent: only the property text and its scratch worktree. usage: mutant_prompt.py C07 /tmp/mut_c07 [n]"""
import json, sys
pid, wt = sys.argv[1], sys.argv[2]
n = int(sys.argv[3]) if len(sys.argv) > 3 else 3
round2 = len(sys.argv) > 4 and sys.argv[4] == 'round2'
p = next(json.loads(l) for l in open('/verif/properties.jsonl') if json.loads(l)['id'] == pid)
extra = ""
if round2:
    extra = ("- This is a second round: an earlier round already produced simple single-site slips. Aim for DIFFERENT kinds now: at least one mutant where two sites that each look fine alone cooperate; at least one that only shows under an unusual configuration, mode or API path (library API vs command line, reused objects, character mode, CSV/TSV modes, sandbox flags, multiple files, very long runs, inputs straddling a 64 KiB buffer, values near 2^53 / 2^63, invalid UTF-8) ; at least one on an error / early-exit / cleanup path. Do not simply revert a past bug fix visible in the git log.\n")
print(f"""You are testing how well a verification effort can detect regressions in the Go project benhoyt/goawk (a POSIX AWK interpreter: lexer, parser, resolver, bytecode compiler, VM, CSV modes). You get ONLY the text of one semantic property and your own scratch git worktree of the repository at {wt}. Work only inside {wt} and under /tmp/{pid.lower()}_mut/ for scratch files. Do NOT read or touch /verif or /repo. No network. Each shell call: `export GOFLAGS=-mod=mod GOPROXY=off GOSUMDB=off GOTOOLCHAIN=local`.

PROPERTY {pid}: {p['title']}
Statement: {p['statement']}
Quantified over: {p['quantifier']['text']}
Code it is anchored in: {', '.join(p['anchors']['files'])}

TASK: produce {n} DIFFERENT realistic changes ("mutants") to the goawk source, each of which BREAKS this property while the code still compiles and the existing test suite still passes (`go build ./... && go test -vet=off -count=1 ./...` in {wt}: the set of passing tests must not shrink — note many TestInterp/awk_* and awkposix_* subtests already fail because no external awk/gawk is installed; compare against the unmodified tree, e.g. count "--- FAIL" lines before and after, or diff the `go test -json` pass sets).

Requirements for each mutant:
- It must look like a plausible maintenance edit or refactoring slip (an off-by-one, a dropped reset, a swapped branch, an optimisation that forgets a case, a condition moved, a cache not invalidated, two sites that each look fine alone), NOT a blatant sabotage, and it must need something SPECIFIC to manifest — a particular input shape, a multi-step sequence, an unusual configuration, a boundary (buffer edge, huge number, empty list), a particular interleaving or fault point — not something ordinary use would expose at once. Spread the {n} mutants over different mechanisms/sites of the property.
{extra}- Change only non-test source files (no *_test.go, no testdata).
- Provide a DEMONSTRATION: a small Go program or `go test` file (kept OUTSIDE the patch, under /tmp/{pid.lower()}_mut/<k>/) or a shell command using a freshly built goawk binary, that FAILS (shows the property violated) with the mutant applied and PASSES on the unmodified tree. Actually run it both ways and report the outputs.

Deliver for each mutant k = 1..{n}, in /tmp/{pid.lower()}_mut/<k>/: `patch.diff` (output of `git -C {wt} diff` with only that mutant applied — reset the worktree between mutants with `git -C {wt} checkout -- .`), the demonstration files, and `meta.json` with keys: property, title (one line), what_it_breaks, needs_to_manifest, demo_cmd, demo_output_with_mutant, demo_output_without, tests_before (number of passing tests or FAIL lines), tests_after. Leave the worktree clean (no mutant applied) at the end. Reply with a short summary table of the {n} mutants.""")
