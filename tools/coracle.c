/* libc printf oracle for property C09.
 * One request per line:  <format hex> <kind> <nstar> <star1> <star2> <arg>
 *   kind d: long long (decimal)      -- format must contain the ll length modifier
 *        u: unsigned long long (decimal)
 *        f: double given as 16 hex digits of its IEEE-754 bit pattern
 *        s: string as hex ("-" = empty; must not contain NUL)
 *        c: int (decimal)
 *        n: no argument (literal text / %%)
 *   nstar 0..2: number of `*` in the specification; star1/star2 are ints passed before the argument (ignored when unused)
 * Answer: hex of the bytes snprintf produced ("-" = empty), or "ERR" when the result does not fit.
 */
#include <stdio.h>
#include <stdlib.h>
#include <string.h>
#include <stdint.h>

static int unhex(const char *h, char *out, size_t cap) {
  if (strcmp(h, "-") == 0) { out[0] = 0; return 0; }
  size_t n = strlen(h) / 2;
  if (n + 1 > cap) return -1;
  for (size_t i = 0; i < n; i++) { unsigned v; sscanf(h + 2 * i, "%2x", &v); out[i] = (char)v; }
  out[n] = 0;
  return (int)n;
}

int main(void) {
  static char line[1 << 17], fmt[1 << 15], sarg[1 << 15], out[1 << 17];
  while (fgets(line, sizeof line, stdin)) {
    size_t n = strlen(line);
    if (n && line[n - 1] == '\n') line[--n] = 0;
    char *tok[6]; int k = 0;
    for (char *p = strtok(line, " "); p && k < 6; p = strtok(0, " ")) tok[k++] = p;
    if (k != 6 || unhex(tok[0], fmt, sizeof fmt) < 0) { puts("ERR"); fflush(stdout); continue; }
    char kind = tok[1][0];
    int ns = atoi(tok[2]), s1 = atoi(tok[3]), s2 = atoi(tok[4]);
    int len = -1;
#define CALL(ARG) (ns == 0 ? snprintf(out, sizeof out, fmt, ARG) : ns == 1 ? snprintf(out, sizeof out, fmt, s1, ARG) : snprintf(out, sizeof out, fmt, s1, s2, ARG))
    switch (kind) {
    case 'd': { long long v = strtoll(tok[5], 0, 10); len = CALL(v); break; }
    case 'u': { unsigned long long v = strtoull(tok[5], 0, 10); len = CALL(v); break; }
    case 'f': { uint64_t b = strtoull(tok[5], 0, 16); double d; memcpy(&d, &b, 8); len = CALL(d); break; }
    case 's': { if (unhex(tok[5], sarg, sizeof sarg) < 0) break; len = CALL(sarg); break; }
    case 'c': { int v = atoi(tok[5]); len = CALL(v); break; }
    case 'n': len = snprintf(out, sizeof out, fmt, 0); break;
    }
    if (len < 0 || (size_t)len >= sizeof out) { puts("ERR"); fflush(stdout); continue; }
    if (len == 0) { puts("-"); continue; }
    for (int i = 0; i < len; i++) printf("%02x", (unsigned char)out[i]);
    putchar('\n');
  }
  return 0;
}
