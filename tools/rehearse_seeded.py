#!/usr/bin/env python3
"""rehearse_seeded.py [--tier quick|thorough] <seeded-id>...   (default: every id whose last result was not a catch)
Re-run ./check for the property of each seeded change against a scratch worktree with the change applied (rehearsal mode,
VERIF_REPO) and append the outcome to seeded/<id>/meta.json under "rechecks". Worktrees are created under /tmp and removed."""
import json, os, subprocess, sys, time, glob
V = '/verif'
args = sys.argv[1:]
tier = 'quick'
if '--tier' in args:
    i = args.index('--tier'); tier = args[i + 1]; del args[i:i + 2]
ids = args
def last_caught(m):
    r = m.get('rechecks') or []
    return (r[-1]['caught'] if r else m['confirmation']['caught_by_quick'])
if not ids:
    ids = [os.path.basename(os.path.dirname(f)) for f in sorted(glob.glob(f'{V}/seeded/*/meta.json')) if not last_caught(json.load(open(f)))]
env = dict(os.environ, GOFLAGS='-mod=mod', GOPROXY='off', GOSUMDB='off', GOTOOLCHAIN='local')
def sh(cmd, **kw):
    kw.setdefault('env', env)
    p = subprocess.run(cmd, stdout=subprocess.PIPE, stderr=subprocess.STDOUT, text=True, **kw)
    return p.returncode, p.stdout
def one(sid):
    mp = f'{V}/seeded/{sid}/meta.json'
    m = json.load(open(mp))
    pid = m['property']
    wt = f'/tmp/rehearse_{sid}'
    sh(['git', '-C', '/repo', 'worktree', 'remove', '--force', wt])
    rc, out = sh(['git', '-C', '/repo', 'worktree', 'add', '--detach', wt, 'HEAD'])
    rc, out = sh(['git', '-C', wt, 'apply', f'{V}/seeded/{sid}/patch.diff'])
    res = {'at': time.strftime('%Y-%m-%dT%H:%M:%SZ', time.gmtime()), 'tier': tier, 'repo_head': sh(['git', '-C', '/repo', 'rev-parse', '--short', 'HEAD'])[1].strip(),
           'verif_head': sh(['git', '-C', V, 'rev-parse', '--short', 'HEAD'])[1].strip()}
    if rc != 0:
        res.update({'caught': False, 'note': 'patch no longer applies: ' + out[-300:]})
    else:
        t0 = time.time()
        rc, out = sh([f'{V}/check', pid, '--tier', tier], cwd=V, env=dict(env, VERIF_REPO=wt), timeout=3000)
        lines = [l for l in out.strip().splitlines() if not l.startswith(('NOTE', 'KNOWN'))]
        res.update({'caught': rc == 1 and any(l.startswith('VIOLATION') for l in lines), 'no_failing_input_found': 'no-failing-input-found' in out,
                    'wall_s': round(time.time() - t0), 'tail': lines[-2:]})
        for l in lines:
            if l.startswith('VIOLATION'):
                try:
                    rp = json.load(open(l.split('replay=')[1].split()[0]))
                    f = rp.get('failure') or {}
                    res['reported'] = {'kind': rp.get('kind'), 'what': f.get('what'), 'case': json.dumps(f.get('case'))[:400]}
                except Exception:
                    pass
    sh(['git', '-C', '/repo', 'worktree', 'remove', '--force', wt])
    m.setdefault('rechecks', []).append(res)
    json.dump(m, open(mp, 'w'), indent=1)
    print(sid, 'CAUGHT' if res['caught'] else 'missed', res.get('reported', {}).get('what', ''), flush=True)
from concurrent.futures import ThreadPoolExecutor
by_prop = {}
for sid in ids:
    by_prop.setdefault(sid.split('-')[0], []).append(sid)
def chain(lst):
    for s in lst:
        one(s)
with ThreadPoolExecutor(max_workers=4) as ex:
    list(ex.map(chain, by_prop.values()))
