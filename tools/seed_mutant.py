#!/usr/bin/env python3
"""seed_mutant.py <src_dir> <seeded-id> <Cnn> <worktree> [--demo bin|tree|gorun]
Confirm a candidate breaking change and record it under /verif/seeded/<id>/:
  1. patch applies to the scratch worktree (at /repo's HEAD), builds with and without -tags verif
  2. the pinned baseline tests still pass with it                   (tools/baseline_check.py)
  3. the demonstration fails with it and passes without it
  4. ./check Cnn in rehearsal mode (VERIF_REPO=worktree; harness + oracle only) — does it report VIOLATION?
The worktree is left clean. Nothing is ever applied to /repo here."""
import json, os, shutil, subprocess, sys, time
src, sid, pid, wt = sys.argv[1:5]
mode = sys.argv[sys.argv.index('--demo') + 1] if '--demo' in sys.argv else None
V = '/verif'
env = dict(os.environ, GOFLAGS='-mod=mod', GOPROXY='off', GOSUMDB='off', GOTOOLCHAIN='local')
def sh(cmd, cwd=None, timeout=3000, extra_env=None):
    e = dict(env, **(extra_env or {}))
    p = subprocess.run(cmd, shell=isinstance(cmd, str), cwd=cwd, env=e, stdout=subprocess.PIPE, stderr=subprocess.STDOUT, text=True, errors='replace', timeout=timeout)
    return p.returncode, p.stdout
meta = json.load(open(os.path.join(src, 'meta.json')))
if mode is None:
    mode = 'gorun' if os.path.exists(os.path.join(src, 'main.go')) else ('tree' if 'demo.sh ' + wt in str(meta.get('demo_cmd', '')) or str(meta.get('demo_cmd', '')).strip().endswith(wt) else 'bin')
def demo():
    if mode == 'gorun':
        return sh('go run .', cwd=src)
    if mode.startswith('gorun:'):
        return sh('go run .', cwd=os.path.join(src, mode.split(':', 1)[1]))
    if mode.startswith('cmd:'):
        return sh(mode[4:])
    if mode == 'sh':
        return sh(f"bash {src}/demo.sh")
    if mode == 'tree':
        return sh(f'sh {src}/demo.sh {wt}')
    rc, out = sh('go build -o /tmp/.seed_goawk_' + sid + ' .', cwd=wt)
    if rc != 0:
        return 99, out
    return sh(f'sh {src}/demo.sh /tmp/.seed_goawk_' + sid + '')
res = {'id': sid, 'property': pid, 'confirmed_at': time.strftime('%Y-%m-%dT%H:%M:%SZ', time.gmtime())}
sh(['git', '-C', wt, 'checkout', '-q', '--', '.'])
head = sh(['git', '-C', '/repo', 'rev-parse', 'HEAD'])[1].strip()
sh(['git', '-C', wt, 'checkout', '-q', '--detach', head])
rc, out = sh(['git', '-C', wt, 'apply', os.path.join(src, 'patch.diff')])
res['applies'] = rc == 0
if rc != 0:
    print('APPLY FAILED', out); sys.exit(2)
rc, out = sh('go build ./... && go build -tags verif ./...', cwd=wt)
res['builds'] = rc == 0
rc, out = sh(['python3', f'{V}/tools/baseline_check.py', wt])
res['baseline'] = out.strip().splitlines()[-1] if out.strip() else ''
res['baseline_ok'] = rc == 0
rc_with, out_with = demo()
t0 = time.time()
rc_chk, out_chk = sh([f'{V}/check', pid, '--tier', 'quick'], cwd=V, extra_env={'VERIF_REPO': wt})
res['check_quick'] = {'exit': rc_chk, 'wall_s': round(time.time() - t0), 'tail': [l for l in out_chk.strip().splitlines() if not l.startswith(('NOTE', 'KNOWN'))][-3:]}
replay = None
for l in out_chk.splitlines():
    if l.startswith('VIOLATION'):
        rp = l.split('replay=')[1].split()[0]
        try:
            replay = json.load(open(rp))
        except Exception:
            replay = None
res['caught_by_quick'] = rc_chk == 1 and any(l.startswith('VIOLATION') for l in out_chk.splitlines())
res['no_failing_input_found'] = 'no-failing-input-found' in out_chk
if replay:
    f = replay.get('failure') or {}
    res['reported'] = {'kind': replay.get('kind'), 'what': f.get('what'), 'case': json.dumps(f.get('case'))[:600]}
sh(['git', '-C', wt, 'checkout', '-q', '--', '.'])
rc_without, out_without = demo()
res['demo'] = {'mode': mode, 'exit_with_mutant': rc_with, 'exit_without': rc_without,
               'out_with': out_with.strip()[-600:], 'out_without': out_without.strip()[-300:]}
res['demo_ok'] = rc_with != 0 and rc_without == 0
dst = os.path.join(V, 'seeded', sid)
os.makedirs(dst, exist_ok=True)
extra = [os.path.join('demo', f) for f in os.listdir(os.path.join(src, 'demo'))] if os.path.isdir(os.path.join(src, 'demo')) else []
os.makedirs(os.path.join(dst, 'demo'), exist_ok=True) if extra else None
for f in os.listdir(src) + extra:
    p = os.path.join(src, f)
    if os.path.isfile(p) and os.path.getsize(p) < 200_000 and not os.path.basename(f).startswith('goawk') and f not in ('test.json', 'tests.json', 'pass.txt', 'test.pass', 'tests.pass', 'test.fail', 'tests.err', 'err.txt'):
        shutil.copy(p, os.path.join(dst, f))  # f may be demo/<file>
meta_out = {'property': pid, 'title': meta.get('title'), 'what_it_breaks': meta.get('what_it_breaks'),
            'needs_to_manifest': meta.get('needs_to_manifest'), 'source': 'fresh sub-agent given only the property text and a scratch worktree',
            'author_meta': {k: meta.get(k) for k in ('demo_cmd', 'tests_before', 'tests_after')},
            'what_i_ran': ['git apply patch.diff in a scratch worktree at /repo HEAD ' + head[:7], 'go build ./... (with and without -tags verif)',
                           'tools/baseline_check.py <worktree> (2544 pinned tests)', 'the demonstration with and without the patch',
                           'VERIF_REPO=<worktree> ./check ' + pid + ' --tier quick (rehearsal mode: harness+oracle against the patched tree)'],
            'confirmation': res}
json.dump(meta_out, open(os.path.join(dst, 'meta.json'), 'w'), indent=1)
print(json.dumps({k: res[k] for k in ('id', 'builds', 'baseline_ok', 'demo_ok', 'caught_by_quick', 'no_failing_input_found')}), res.get('reported', {}).get('what'))
