#!/bin/bash
# seed_batch.sh <cNN> <letter> <srcdir> <worktree> [demo-mode]
# confirm + rehearse every candidate <srcdir>/<k>/ as seeded change CNN-<letter><k> (see tools/seed_mutant.py)
l=$1; L=$2; src=$3; wt=$4; P=$(echo $l | tr a-z A-Z)
cd /verif
for d in $(ls -d $src/[0-9] 2>/dev/null | sort); do
  k=$(basename $d)
  python3 tools/seed_mutant.py $d $P-$L$k $P $wt ${5:+--demo "$5"} 2>&1 | tail -2
done
