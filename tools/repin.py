#!/usr/bin/env python3
"""repin.py Cnn [Cnn ...] — accept the CURRENT text of the pinned functions (extract/gen_cnn_pins.go → Generated/CnnPins.lean)
as the text the hand-written model GoawkModel.Cnn mirrors: writes lean/Proofs/CnnPins.lean (the expected table) and the
`pin_*` theorem block at the end of lean/Props/Cnn.lean. Run it ONLY after comparing the model with the new text (and after the
correspondence check is clean on it); ./check never runs it. Run the extractor first (./check does, or extract/extract)."""
import re, sys
L = '/verif/lean/'
BEGIN, END = '/-! ## Pinned source text', '-- end of pinned source text'
for pid in sys.argv[1:]:
    gen = open(f'{L}GoawkModel/Generated/{pid}Pins.lean').read()
    defs = re.findall(r'^def (\w+) : List String := (.*)$', gen, re.M)
    exp = (f'import GoawkModel.Generated.{pid}Pins\n/-! The source text of the Go functions `GoawkModel.{pid}` mirrors, as it was when the model was last compared with it\n'
           f'(written by tools/repin.py, never by a check run). `Props.{pid}` states `pin_*`: what the extractor reads from /repo now equals this. -/\n'
           f'namespace GoawkModel.Pins.{pid}.Expected\n\n' + ''.join(f'def {n} : List String := {v}\n' for n, v in defs) + f'\nend GoawkModel.Pins.{pid}.Expected\n')
    open(f'{L}Proofs/{pid}Pins.lean', 'w').write(exp)
    names = [n for n, _ in defs if n != 'pinned']
    block = (f'{BEGIN} (regenerated tie; extract/pins.go, tools/repin.py)\nAn edit of one of these functions in /repo breaks the matching obligation: the model below was written from the text\nin `Proofs.{pid}Pins` and has to be compared with the new text before it is re-pinned. -/\n'
             f'namespace GoawkModel.Pins.{pid}\n'
             + ''.join(f'theorem pin_{n} : Generated.{pid}Pins.{n} = Expected.{n} := rfl\n' for n in names)
             + f'theorem pin_list : Generated.{pid}Pins.pinned = Expected.pinned := rfl\n'
             + f'end GoawkModel.Pins.{pid}\n{END}\n')
    pf = f'{L}Props/{pid}.lean'
    s = open(pf).read()
    if BEGIN in s:
        s = s[:s.index(BEGIN)] + block + s[s.index(END) + len(END) + 1:]
    else:
        s = s.rstrip('\n') + '\n\n' + block
    if f'import Proofs.{pid}Pins' not in s:
        s = f'import Proofs.{pid}Pins\n' + s
    open(pf, 'w').write(s)
    print(pid, 'pinned', len(names), 'functions')
