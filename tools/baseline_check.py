#!/usr/bin/env python3
"""Run the repository's baseline test command (guard OFF) in a given tree and compare with BASELINE.json stable_pass.
usage: baseline_check.py [repo_dir]   -> exit 0 iff every stable_pass test passes."""
import json, os, subprocess, sys
repo = sys.argv[1] if len(sys.argv) > 1 else '/repo'
base = json.load(open('/root/.vp/BASELINE.json'))
env = dict(os.environ, GOFLAGS='-mod=mod', GOPROXY='off', GOSUMDB='off', GOTOOLCHAIN='local')
p = subprocess.run(['go', 'test', '-json', '-vet=off', '-count=1', '-timeout', '25m', './...'], cwd=repo, env=env,
                   stdout=subprocess.PIPE, stderr=subprocess.STDOUT, text=True)
passed = set()
for line in p.stdout.splitlines():
    try:
        ev = json.loads(line)
    except Exception:
        continue
    if ev.get('Action') == 'pass' and ev.get('Test'):
        passed.add(ev['Package'] + '::' + ev['Test'])
missing = [t for t in base['stable_pass'] if t not in passed]
print(f'passed={len(passed)} stable={len(base["stable_pass"])} missing={len(missing)}')
for t in missing[:40]:
    print('MISSING', t)
sys.exit(1 if missing else 0)
