import Proofs.C02TypingStmt
/-! The statement induction: `cStmt bk ct s` is a well-typed statement fragment for every statement of C01's language whose
assignment targets are lvalues. -/
namespace GoawkModel.C02.Ty
open GoawkModel GoawkModel.C01

def slvOK : Stmt → Bool
  | .skip | .brk | .cont | .next => true
  | .seq s t => slvOK s && slvOK t
  | .expr e => lvOK e
  | .print args => args.all lvOK
  | .ifThen c b => lvOK c && slvOK b
  | .ifElse c b e => lvOK c && slvOK b && slvOK e
  | .while c b => lvOK c && slvOK b
  | .doWhile b c => slvOK b && lvOK c
  | .for pre (some c) post b => slvOK pre && lvOK c && slvOK post && slvOK b
  | .for pre none post b => slvOK pre && slvOK post && slvOK b
  | .exit none => true
  | .exit (some e) => lvOK e
  | .block b => slvOK b
  | .ret _ => false   -- `return` is outside the typed fragment (translation-validated per program)

theorem STyped.cast {c : Code} {bk ct bk' ct' : Nat} (t : STyped c bk ct) (e1 : bk = bk') (e2 : ct = ct') : STyped c bk' ct' := by
  subst e1; subst e2; exact t

theorem cExprs_typed : ∀ (args : List Expr), args.all lvOK = true → ∀ h, Typed (cExprs args) h (h + args.length)
  | [], _, h => Typed.nil h
  | e :: es, hl, h => by
    simp only [List.all_cons, Bool.and_eq_true] at hl
    show Typed (cExpr e ++ cExprs es) h (h + (es.length + 1))
    exact ((cExpr_push1 e hl.1 h).append (cExprs_typed es hl.2 (h + 1))).cast (by omega)

theorem cIdx_push1 (i : Expr) (hl : lvOK i = true) : Push1 (cIdx i) := cIdxOf_push1 i (cExpr_push1 i hl)

/-- a statement-position expression leaves the height unchanged -/
theorem cExprStmt_typed (e : Expr) (hl : lvOK e = true) (h : Nat) : Typed (cExprStmt e) h h := by
  have other : Typed (cExpr e ++ [.drop]) h h := (cExpr_push1 e hl h).thenStraight (by tail_ok) (by simp [after, sh])
  cases e with
  | assign lv r =>
    simp only [lvOK, Bool.and_eq_true] at hl
    have tr := cExpr_push1 r hl.2 h
    cases lv with
    | var sc i =>
      show Typed (cExpr r ++ [.assignVar sc i]) h h
      exact tr.thenStraight (by tail_ok) (by simp [after, sh])
    | field ie =>
      show Typed (cExpr r ++ cExpr ie ++ [.assignField]) h h
      exact (tr.append (cExpr_push1 ie (by simpa [lvOK] using hl.1.2) _)).thenStraight (by tail_ok) (by simp [after, sh])
    | index sc a ie =>
      show Typed (cExpr r ++ cIdx ie ++ [.arrAssign sc a]) h h
      exact (tr.append (cIdx_push1 ie (by simpa [lvOK] using hl.1.2) _)).thenStraight (by tail_ok) (by simp [after, sh])
    | _ => simp [isLv] at hl
  | augAssign lv op r =>
    simp only [lvOK, Bool.and_eq_true] at hl
    have tr := cExpr_push1 r hl.2 h
    cases lv with
    | var sc i =>
      show Typed (cExpr r ++ [.augVar sc op i]) h h
      exact tr.thenStraight (by tail_ok) (by simp [after, sh])
    | field ie =>
      show Typed (cExpr r ++ cExpr ie ++ [.augField op]) h h
      exact (tr.append (cExpr_push1 ie (by simpa [lvOK] using hl.1.2) _)).thenStraight (by tail_ok) (by simp [after, sh])
    | index sc a ie =>
      show Typed (cExpr r ++ cIdx ie ++ [.arrAug sc op a]) h h
      exact (tr.append (cIdx_push1 ie (by simpa [lvOK] using hl.1.2) _)).thenStraight (by tail_ok) (by simp [after, sh])
    | _ => simp [isLv] at hl
  | incr lv dec pre =>
    simp only [lvOK, Bool.and_eq_true] at hl
    cases lv with
    | var sc i =>
      show Typed [.incrVar sc dec i] h h
      exact (Typed.straight _ _ (by tail_ok)).cast (by simp [after, sh])
    | field ie =>
      show Typed (cExpr ie ++ [.incrField dec]) h h
      exact (cExpr_push1 ie (by simpa [lvOK] using hl.2) h).thenStraight (by tail_ok) (by simp [after, sh])
    | index sc a ie =>
      show Typed (cIdx ie ++ [.arrIncr sc dec a]) h h
      exact (cIdx_push1 ie (by simpa [lvOK] using hl.2) h).thenStraight (by tail_ok) (by simp [after, sh])
    | _ => simp [isLv] at hl
  | _ => exact other

theorem stmt_ok : ∀ (s : Stmt), slvOK s = true → ∀ bk ct, STyped (cStmt bk ct s) bk ct
  | .skip, _, bk, ct => STyped.nil bk ct
  | .seq s t, hl, bk, ct => by
    simp only [slvOK, Bool.and_eq_true] at hl
    have e := csize_cStmt t bk ct
    show STyped (cStmt (bk + stmtSize t) (ct + stmtSize t) s ++ cStmt bk ct t) bk ct
    exact STyped.seq ((stmt_ok s hl.1 _ _).cast (by rw [e]) (by rw [e])) (stmt_ok t hl.2 bk ct)
  | .expr e, hl, bk, ct => STyped.ofTyped (cExprStmt_typed e (by simpa [slvOK] using hl) 0) bk ct
  | .print args, hl, bk, ct => by
    show STyped (cExprs args ++ [.print args.length]) bk ct
    exact STyped.ofTyped ((cExprs_typed args (by simpa [slvOK] using hl) 0).thenStraight (by tail_ok) (by simp [after, sh])) bk ct
  | .ifThen c b, hl, bk, ct => by
    simp only [slvOK, Bool.and_eq_true] at hl
    obtain ⟨hc', p, tc, hj, hsz, hp, hq⟩ := condT_typed (expr_ok c hl.1) 0
    show STyped (cCondT c ++ [cJumpT c (stmtSize b)] ++ cStmt bk ct b) bk ct
    exact STyped.ifThen hj hsz tc hp hq (stmt_ok b hl.2 bk ct) (by rw [csize_cStmt])
  | .ifElse c b e, hl, bk, ct => by
    simp only [slvOK, Bool.and_eq_true] at hl
    obtain ⟨hc', p, tc, hj, hsz, hp, hq⟩ := condT_typed (expr_ok c hl.1.1) 0
    show STyped (cCondT c ++ [cJumpT c (stmtSize b + 2)] ++ cStmt (bk + 2 + stmtSize e) (ct + 2 + stmtSize e) b
      ++ [.jump (stmtSize e)] ++ cStmt bk ct e) bk ct
    have ee := csize_cStmt e bk ct
    exact STyped.ifElse hj hsz tc hp hq ((stmt_ok b hl.1.2 _ _).cast (by rw [ee]) (by rw [ee])) (stmt_ok e hl.2 bk ct)
      (by rw [csize_cStmt]) (by rw [csize_cStmt])
  | .while c b, hl, bk, ct => by
    simp only [slvOK, Bool.and_eq_true] at hl
    have ic := expr_ok c hl.1
    obtain ⟨hT, pT, tcc, hjT, hszT, hpT, hqT⟩ := condT_typed ic 0
    obtain ⟨hF, pF, tcf, hjF, hszF, hpF, hqF⟩ := condF_typed ic 0
    have tB := stmt_ok b hl.2 (csize (cCondF c) + 2) 0
    have key := Typed.loop (pre := []) (post := []) (B := cStmt (csize (cCondF c) + 2) 0 b) (offT := (stmtSize b + (csize (cCondF c) + 2 : Nat) : Int))
      (offF := -((stmtSize b + (csize (cCondF c) + 2) : Nat) : Int)) hjT hszT hjF hszF (STyped.nil 0 0) tcc hpT hqT
      (tB.cast (by simp) rfl) (STyped.nil 0 0) tcf hpF hqF (by simp [csize_cStmt]) (by simp [csize_cStmt])
    refine STyped.ofTyped ?_ bk ct
    simpa [cStmt] using key
  | .doWhile b c, hl, bk, ct => by
    simp only [slvOK, Bool.and_eq_true] at hl
    obtain ⟨hF, pF, tcf, hjF, hszF, hpF, hqF⟩ := condF_typed (expr_ok c hl.2) 0
    have tB := stmt_ok b hl.1 (csize (cCondF c) + 2) 0
    have key := Typed.doLoop (offF := -((stmtSize b + (csize (cCondF c) + 2) : Nat) : Int)) hjF hszF tB tcf hpF hqF
      (by simp [csize_cStmt])
    refine STyped.ofTyped ?_ bk ct
    simpa [cStmt] using key
  | .for pre (some c) post b, hl, bk, ct => by
    simp only [slvOK, Bool.and_eq_true] at hl
    have ic := expr_ok c hl.1.1.2
    obtain ⟨hT, pT, tcc, hjT, hszT, hpT, hqT⟩ := condT_typed ic 0
    obtain ⟨hF, pF, tcf, hjF, hszF, hpF, hqF⟩ := condF_typed ic 0
    have tB := stmt_ok b hl.2 (stmtSize post + (csize (cCondF c) + 2)) 0
    have key := Typed.loop (offT := (stmtSize b + stmtSize post + (csize (cCondF c) + 2 : Nat) : Int))
      (offF := -((stmtSize b + stmtSize post + (csize (cCondF c) + 2) : Nat) : Int)) hjT hszT hjF hszF (stmt_ok pre hl.1.1.1 0 0) tcc hpT hqT
      (tB.cast (by rw [csize_cStmt]) rfl) (stmt_ok post hl.1.2 0 0) tcf hpF hqF (by simp [csize_cStmt]) (by simp [csize_cStmt])
    refine STyped.ofTyped ?_ bk ct
    simpa [cStmt] using key
  | .for pre none post b, hl, bk, ct => by
    simp only [slvOK, Bool.and_eq_true] at hl
    have tB := stmt_ok b hl.2 (stmtSize post + 2) 0
    have key := Typed.foreverLoop (offF := -((stmtSize b + stmtSize post + 2 : Nat) : Int)) (stmt_ok pre hl.1.1 0 0)
      (tB.cast (by rw [csize_cStmt]) rfl) (stmt_ok post hl.1.2 0 0) (by simp [csize_cStmt])
    refine STyped.ofTyped ?_ bk ct
    simpa [cStmt] using key
  | .brk, _, bk, ct => STyped.jumpBk bk ct
  | .cont, _, bk, ct => STyped.jumpCt bk ct
  | .next, _, bk, ct => STyped.ofTyped ((Typed.halt .next 0 rfl (Nat.zero_le _)).cast rfl) bk ct
  | .exit none, _, bk, ct => STyped.ofTyped ((Typed.halt .exit 0 rfl (Nat.zero_le _)).cast rfl) bk ct
  | .exit (some e), hl, bk, ct => by
    show STyped (cExpr e ++ [.exitStatus]) bk ct
    exact STyped.ofTyped ((cExpr_push1 e (by simpa [slvOK] using hl) 0).append ((Typed.halt .exitStatus 1 rfl (by omega)).cast rfl)) bk ct
  | .block b, hl, bk, ct => stmt_ok b (by simpa [slvOK] using hl) bk ct
  | .ret _, hl, _, _ => by simp [slvOK] at hl

/-- A whole block (`cStmt 0 0 p`, break/continue targets = its end) is a closed well-typed fragment of height 0 → 0. -/
theorem block_typed (p : Stmt) (hl : slvOK p = true) : Typed (cStmt 0 0 p) 0 0 := by
  have t := stmt_ok p hl 0 0
  intro E o hA
  have tEnd := hA.at (cStmt 0 0 p) [] (by simp)
  rw [t.1] at tEnd
  exact ⟨t.2 E o hA (E_at tEnd (by omega)) (E_at tEnd (by omega)), t.1⟩

end GoawkModel.C02.Ty
