import Proofs.C03Lex
/-! C03 — REGEX tokens: what `Scan()` guarantees when it returns DIV / DIV_ASSIGN (table facts about the generated operator trie and
keyword list), the column arithmetic of `ScanRegex()`, and the token theorem for the whole stream. -/
namespace GoawkModel.C03
open GoawkModel
open GoawkModel.Generated.C03Lex

theorem trueLineCol_pred {src : Bytes} {k : Nat} (hk : k < src.length) (h10 : byteAt src k ≠ 10) (h13 : byteAt src k ≠ 13) :
    trueLineCol src k = ⟨(trueLineCol src (k + 1)).line, (trueLineCol src (k + 1)).col - 1⟩ := by
  rw [trueLineCol_succ src k hk]
  simp [stepPos, h10, h13]

/-- what `Scan()` guarantees when it returns DIV or DIV_ASSIGN: the lexer stands right behind the `/` or `/=` -/
def DivPost (src : Bytes) (s' : St) (t : Token) : Prop :=
  (t.tok = T.DIV → G src s' ∧ s'.offset = t.off + 2 ∧ byteAt src t.off = 47 ∧ AtByte src t) ∧
  (t.tok = T.DIV_ASSIGN → G src s' ∧ s'.offset = t.off + 3 ∧ byteAt src t.off = 47 ∧ byteAt src (t.off + 1) = 61 ∧ AtByte src t)

theorem divPost_of_ne {src : Bytes} {s' : St} {t : Token} (h1 : t.tok ≠ T.DIV) (h2 : t.tok ≠ T.DIV_ASSIGN) : DivPost src s' t :=
  ⟨fun h => absurd h h1, fun h => absurd h h2⟩

theorem keywordToken_range (name : Bytes) : keywordToken name = T.ILLEGAL ∨ (T.BEGIN ≤ keywordToken name ∧ keywordToken name ≤ T.F_TOUPPER) := by
  unfold keywordToken
  split
  · rename_i kv hkv
    right
    have hm := List.mem_of_find?_eq_some hkv
    have hall : keywords.all (fun kv => T.BEGIN ≤ kv.2 && kv.2 ≤ T.F_TOUPPER) = true := by decide
    have := List.all_eq_true.mp hall kv hm
    simpa using this
  · left; rfl

theorem lookup2_mem (c : UInt8) : ∀ (l : List (Nat × Nat)) (t : Nat), lookup2 c l = some t → (c.toNat, t) ∈ l
  | [], _, h => by simp [lookup2] at h
  | (k, t') :: rest, t, h => by
    unfold lookup2 at h
    split at h
    · rename_i hk; cases h; rw [hk]; exact List.mem_cons_self
    · exact List.mem_cons_of_mem _ (lookup2_mem c rest t h)

theorem lookup3_mem (c : UInt8) : ∀ (l : List (Nat × Nat × List (Nat × Nat))) (t : Nat) (m : List (Nat × Nat)),
    lookup3 c l = some (t, m) → (c.toNat, t, m) ∈ l
  | [], _, _, h => by simp [lookup3] at h
  | (k, t', m') :: rest, t, m, h => by
    unfold lookup3 at h
    split at h
    · rename_i hk; cases h; rw [hk]; exact List.mem_cons_self
    · exact List.mem_cons_of_mem _ (lookup3_mem c rest t m h)

theorem lookupOp_mem (c : UInt8) : ∀ (l : List (Nat × Nat × List (Nat × Nat × List (Nat × Nat)))) (t : Nat) (m : List (Nat × Nat × List (Nat × Nat))),
    lookupOp c l = some (t, m) → (c.toNat, t, m) ∈ l
  | [], _, _, h => by simp [lookupOp] at h
  | (k, t', m') :: rest, t, m, h => by
    unfold lookupOp at h
    split at h
    · rename_i hk; cases h; rw [hk]; exact List.mem_cons_self
    · exact List.mem_cons_of_mem _ (lookupOp_mem c rest t m h)

def noDiv (t : Nat) : Bool := t != T.DIV && t != T.DIV_ASSIGN

/-- table fact: only the entry for `/` mentions DIV or DIV_ASSIGN -/
theorem ops_noDiv : ops.all (fun e => e.1 == 47 || (noDiv e.2.1 && e.2.2.all (fun a => noDiv a.2.1 && a.2.2.all (fun b => noDiv b.2)))) = true := by
  decide

theorem ops_div : lookupOp 47 ops = some (T.DIV, [(61, T.DIV_ASSIGN, [])]) := by rfl

/-- an operator other than `/` never yields DIV / DIV_ASSIGN -/
theorem scanOp_noDiv {src : Bytes} {s : St} {ch : UInt8} {d : Nat} {alts : List (Nat × Nat × List (Nat × Nat))}
    (hl : lookupOp ch ops = some (d, alts)) (hne : ch.toNat ≠ 47) : noDiv (scanOp src s d alts).2 = true := by
  have hm := lookupOp_mem ch ops d alts hl
  have hall := List.all_eq_true.mp ops_noDiv _ hm
  simp only [Bool.or_eq_true, Bool.and_eq_true, beq_iff_eq] at hall
  rcases hall with hall | ⟨hd, halts⟩
  · exact absurd hall hne
  · unfold scanOp
    split
    · exact hd
    · rename_i t2 alts3 h3
      have hm3 := lookup3_mem _ _ _ _ h3
      have h3' := List.all_eq_true.mp halts _ hm3
      simp only [Bool.and_eq_true] at h3'
      dsimp only
      split
      · exact h3'.1
      · rename_i t3 h2
        have hm2 := lookup2_mem _ _ _ h2
        exact List.all_eq_true.mp h3'.2 _ hm2
theorem noDiv_ne {t : Nat} (h : noDiv t = true) : t ≠ T.DIV ∧ t ≠ T.DIV_ASSIGN := by
  simpa [noDiv] using h

theorem scanPunct_div {src : Bytes} {pos : Pos} {off : Nat} {ch : UInt8} {s : St} (hG : G src s) (hoff : s.offset = off + 2)
    (hch : byteAt src off = ch) (hat : Start src pos off) :
    DivPost src (scanPunct src pos off ch s).1 (scanPunct src pos off ch s).2 := by
  unfold scanPunct
  split
  · split
    · exact divPost_of_ne (by dsimp only [illegalHere]; decide) (by dsimp only [illegalHere]; decide)
    · exact divPost_of_ne (by dsimp only [illegalHere]; decide) (by dsimp only [illegalHere]; decide)
  · split
    · rename_i d alts hl
      by_cases h47 : ch.toNat = 47
      · have hc : ch = 47 := by
          apply UInt8.toNat_inj.mp; simpa using h47
        subst hc
        rw [ops_div] at hl
        cases hl
        dsimp only
        unfold scanOp
        by_cases h61 : s.ch.toNat = 61
        · have hs61 : s.ch = 61 := by apply UInt8.toNat_inj.mp; simpa using h61
          have hne0 : s.ch ≠ 0 := by rw [hs61]; decide
          have hn := next_G hG hne0
          simp only [lookup3, h61, if_true, lookup2]
          refine ⟨fun h => absurd h (by dsimp only; decide), fun _ => ⟨hn.1, ?_, hch, ?_, hat _ _⟩⟩
          · show (next src s).offset = off + 3
            rw [hn.2, hoff]
          · have := hG.ch
            rw [hoff] at this
            show byteAt src (off + 1) = 61
            rw [show off + 2 - 1 = off + 1 by omega] at this
            rw [← this]; exact hs61
        · simp only [lookup3, h61, if_false]
          exact ⟨fun _ => ⟨hG, hoff, hch, hat _ _⟩, fun h => absurd h (by dsimp only; decide)⟩
      · have := noDiv_ne (scanOp_noDiv (src := src) (s := s) hl h47)
        exact divPost_of_ne this.1 this.2
    · exact divPost_of_ne (by dsimp only [illegalHere]; decide) (by dsimp only [illegalHere]; decide)

theorem scanBody_div {src : Bytes} (fuel : Nat) {pos : Pos} {off : Nat} {ch : UInt8} {s : St} (hG : G src s) (hoff : s.offset = off + 2)
    (hch : byteAt src off = ch) (hat : Start src pos off) :
    DivPost src (scanBody src fuel pos off ch s).1 (scanBody src fuel pos off ch s).2 := by
  unfold scanBody
  split
  · unfold scanName
    dsimp only
    split
    · exact divPost_of_ne (by dsimp only [illegalHere]; decide) (by dsimp only [illegalHere]; decide)
    · rename_i hk
      rcases keywordToken_range (slice src (s.offset - 2) ((whileCh src (fun c => isNameStart c || isDigit c) fuel s).offset - 1)) with h | h
      · exact absurd h hk
      · apply divPost_of_ne
        · show keywordToken _ ≠ T.DIV
          intro h'; rw [h'] at h; revert h; decide
        · show keywordToken _ ≠ T.DIV_ASSIGN
          intro h'; rw [h'] at h; revert h; decide
  · split
    · unfold scanNum
      dsimp only
      split
      · exact divPost_of_ne (by dsimp only [illegalHere]; decide) (by dsimp only [illegalHere]; decide)
      · exact divPost_of_ne (by dsimp only [illegalHere]; decide) (by dsimp only [illegalHere]; decide)
    · split
      · unfold scanStr
        dsimp only
        split
        · exact divPost_of_ne (by dsimp only [illegalHere]; decide) (by dsimp only [illegalHere]; decide)
        · split
          · exact divPost_of_ne (by dsimp only [illegalHere]; decide) (by dsimp only [illegalHere]; decide)
          · exact divPost_of_ne (by dsimp only [illegalHere]; decide) (by dsimp only [illegalHere]; decide)
      · exact scanPunct_div hG hoff hch hat

theorem scan_div {src : Bytes} (fuel : Nat) {s : St} (h : Inv src s) : DivPost src (scan src fuel s).1 (scan src fuel s).2 := by
  have hw := skipWs_inv fuel _ (inv_hadSpace (src := src) false h)
  have hc := skipComment_inv fuel hw
  unfold scan
  dsimp only
  split
  · exact divPost_of_ne (by dsimp only [illegalHere]; decide) (by dsimp only [illegalHere]; decide)
  · split
    · exact divPost_of_ne (by dsimp only [illegalHere]; decide) (by dsimp only [illegalHere]; decide)
    · rename_i h0
      have hG := inv_G_of_ne hc h0
      have hn := next_G hG h0
      refine scanBody_div fuel hn.1 ?_ hG.ch.symm (start_of_G hc h0)
      rw [hn.2]; have := hG.lo; omega

/-- the REGEX token of `ScanRegex()` called right after `Scan()` returned DIV / DIV_ASSIGN is at the slash -/
theorem scanRegex_atByte {src : Bytes} (fuel : Nat) {s : St} {t : Token} (hp : DivPost src s t)
    (hl : s.lastTok = t.tok) (hd : t.tok = T.DIV ∨ t.tok = T.DIV_ASSIGN) (hr : (scanRegex src fuel s).2.tok = T.REGEX) :
    AtByte src (scanRegex src fuel s).2 := by
  rcases hd with hd | hd
  · obtain ⟨hG, hoff, h47, hat⟩ := hp.1 hd
    have hlt : s.lastTok = T.DIV := hl.trans hd
    have hk : t.off < src.length := hat.1
    have hpred := trueLineCol_pred hk (by rw [h47]; decide) (by rw [h47]; decide)
    cases hreg : (regexLoop src fuel s []).2 with
    | error m => simp [scanRegex, hlt, hreg, illegalHere] at hr; exact absurd hr (by decide)
    | ok chars =>
      simp only [scanRegex, hlt, hreg, if_true, ne_eq, not_true, Bool.false_and, Bool.false_eq_true, if_false, decide_false]
      refine ⟨?_, ?_, ?_⟩
      · show s.offset - 1 - 1 < src.length; omega
      · show (⟨s.pos.line, s.pos.col - 1⟩ : Pos) = trueLineCol src (s.offset - 1 - 1)
        rw [hG.pos, hoff, show t.off + 2 - 1 - 1 = t.off by omega, show t.off + 2 - 1 = t.off + 1 by omega]
        exact hpred.symm
      · show byteAt src (s.offset - 1 - 1) ≠ 0
        rw [hoff, show t.off + 2 - 1 - 1 = t.off by omega, h47]; decide
  · obtain ⟨hG, hoff, h47, h61, hat⟩ := hp.2 hd
    have hlt : s.lastTok = T.DIV_ASSIGN := hl.trans hd
    have hk : t.off < src.length := hat.1
    have hk1 : t.off + 1 < src.length := by
      rcases Nat.lt_or_ge (t.off + 1) src.length with h | h
      · exact h
      · have := byteAt_ge src _ h; rw [h61] at this; exact absurd this (by decide)
    have hpred := trueLineCol_pred hk (by rw [h47]; decide) (by rw [h47]; decide)
    have hpred1 := trueLineCol_pred hk1 (by rw [h61]; decide) (by rw [h61]; decide)
    have hne : ¬ (T.DIV_ASSIGN = T.DIV) := by decide
    cases hreg : (regexLoop src fuel s [61]).2 with
    | error m => simp [scanRegex, hlt, hne, hreg, illegalHere] at hr; exact absurd hr (by decide)
    | ok chars =>
      simp only [scanRegex, hlt, hne, hreg, if_false, ne_eq, not_true, not_false_eq_true, Bool.and_false, Bool.false_eq_true, decide_true, decide_false]
      refine ⟨?_, ?_, ?_⟩
      · show s.offset - 1 - 2 < src.length; omega
      · show (⟨s.pos.line, s.pos.col - 2⟩ : Pos) = trueLineCol src (s.offset - 1 - 2)
        rw [hG.pos, hoff, show t.off + 3 - 1 - 2 = t.off by omega, show t.off + 3 - 1 = t.off + 1 + 1 by omega]
        rw [hpred, hpred1]
        simp; omega
      · show byteAt src (s.offset - 1 - 2) ≠ 0
        rw [hoff, show t.off + 3 - 1 - 2 = t.off by omega, h47]; decide
theorem divPost_lastTok {src : Bytes} {s : St} {t : Token} (k : Nat) (h : DivPost src s t) : DivPost src { s with lastTok := k } t := by
  refine ⟨fun hd => ?_, fun hd => ?_⟩
  · obtain ⟨hG, a, b, c⟩ := h.1 hd
    exact ⟨⟨hG.lo, hG.hi, hG.ch, hG.pos, hG.nextPos⟩, a, b, c⟩
  · obtain ⟨hG, a, b, c, d⟩ := h.2 hd
    exact ⟨⟨hG.lo, hG.hi, hG.ch, hG.pos, hG.nextPos⟩, a, b, c, d⟩

theorem scanTok_div {src : Bytes} (fuel : Nat) {s : St} (h : Inv src s) : DivPost src (scanTok src fuel s).1 (scanTok src fuel s).2 :=
  divPost_lastTok _ (scan_div fuel h)

/-- `ScanRegex()` right after a DIV / DIV_ASSIGN from `Scan()`: its token is correct -/
theorem scanRegex_tokOK {src : Bytes} (fuel : Nat) {s : St} (h : Inv src s)
    (hd : (scanTok src fuel s).2.tok = T.DIV ∨ (scanTok src fuel s).2.tok = T.DIV_ASSIGN) :
    TokOK src (scanRegex src fuel (scanTok src fuel s).1).2 := by
  rcases scanRegex_tok fuel (scanTok_ok fuel h).1 with h' | h'
  · exact h'
  · exact Or.inl (scanRegex_atByte fuel (scanTok_div fuel h) rfl hd h')

theorem lexLoop_tokOK {src : Bytes} (fuel : Nat) : ∀ (n : Nat) (s : St) (bits : List Bool), Inv src s →
    ∀ t ∈ lexLoop src fuel n s bits, TokOK src t
  | 0, _, _, _ => by intro t ht; simp [lexLoop] at ht
  | n + 1, s, bits, h => by
    have hs := scanTok_ok fuel h
    have hr := scanRegex_inv fuel hs.1
    intro t
    unfold lexLoop
    dsimp only
    split
    · intro hm; simp at hm; subst hm; exact hs.2
    · split
      · rename_i hdiv
        have hdiv' : (scanTok src fuel s).2.tok = T.DIV ∨ (scanTok src fuel s).2.tok = T.DIV_ASSIGN := by
          simpa using hdiv
        have ht := scanRegex_tokOK fuel h hdiv'
        split
        · split
          · intro hm
            simp at hm
            rcases hm with hm | hm
            · subst hm; exact hs.2
            · subst hm; exact ht
          · intro hm
            simp only [List.mem_cons] at hm
            rcases hm with hm | hm | hm
            · subst hm; exact hs.2
            · subst hm; exact ht
            · exact lexLoop_tokOK fuel n _ _ hr t hm
        · intro hm
          simp only [List.mem_cons] at hm
          rcases hm with hm | hm
          · subst hm; exact hs.2
          · exact lexLoop_tokOK fuel n _ _ hs.1 t hm
        · intro hm
          simp only [List.mem_cons] at hm
          rcases hm with hm | hm
          · subst hm; exact hs.2
          · exact lexLoop_tokOK fuel n _ _ hs.1 t hm
      · intro hm
        simp only [List.mem_cons] at hm
        rcases hm with hm | hm
        · subst hm; exact hs.2
        · exact lexLoop_tokOK fuel n _ _ hs.1 t hm
end GoawkModel.C03
