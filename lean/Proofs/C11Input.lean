import GoawkModel.C11
/-! Facts about `nextLine` (the operand walk), by induction over the number of operands left. -/
namespace GoawkModel.C11

def Take.delta : Take → Nat
  | .got _ => 1
  | _ => 0

theorem setVarByName_fields (s : St) (n v : Bytes) :
    (s.setVarByName n v).iters = s.iters ∧ (s.setVarByName n v).gl = s.gl ∧ (s.setVarByName n v).glv = s.glv ∧
    (s.setVarByName n v).out = s.out ∧ (s.setVarByName n v).line = s.line ∧ (s.setVarByName n v).status = s.status ∧
    (s.setVarByName n v).streams = s.streams ∧ (s.setVarByName n v).fs = s.fs ∧ (s.setVarByName n v).argv = s.argv ∧
    (s.setVarByName n v).argc = s.argc ∧ (s.setVarByName n v).nr = s.nr := by
  unfold St.setVarByName
  split
  · simp
  · split
    · simp
    · split <;> simp

/-- `nextLine`'s operand walk never touches the ghost counters, the output, `$0`, the exit status, the getline streams,
the file system or ARGV/ARGC; `NR` moves by exactly one when a record is delivered and not at all otherwise -/
theorem openWalk_frame : ∀ (n : Nat) (s : St),
    (openWalk n s).2.iters = s.iters ∧ (openWalk n s).2.gl = s.gl ∧ (openWalk n s).2.glv = s.glv ∧
    (openWalk n s).2.out = s.out ∧ (openWalk n s).2.line = s.line ∧ (openWalk n s).2.status = s.status ∧
    (openWalk n s).2.streams = s.streams ∧ (openWalk n s).2.fs = s.fs ∧ (openWalk n s).2.argv = s.argv ∧
    (openWalk n s).2.argc = s.argc ∧ (openWalk n s).2.nr = s.nr + (openWalk n s).1.delta
  | 0, s => by
    unfold openWalk
    split
    · simp [Take.delta]
    · split <;> simp [Take.delta, St.setFile, St.took]
  | n + 1, s => by
    have ih := openWalk_frame n
    unfold openWalk
    simp only [St.fetch]
    split
    · simp [ih, setVarByName_fields]
    · simp [ih]
    · split <;> simp [ih, Take.delta, St.setFile, St.took]
    · split <;> simp [ih, Take.delta, St.setFile, St.took]

theorem nextLine_frame (s : St) :
    (nextLine s).2.iters = s.iters ∧ (nextLine s).2.gl = s.gl ∧ (nextLine s).2.glv = s.glv ∧
    (nextLine s).2.out = s.out ∧ (nextLine s).2.line = s.line ∧ (nextLine s).2.status = s.status ∧
    (nextLine s).2.streams = s.streams ∧ (nextLine s).2.fs = s.fs ∧ (nextLine s).2.argv = s.argv ∧
    (nextLine s).2.argc = s.argc ∧ (nextLine s).2.nr = s.nr + (nextLine s).1.delta := by
  unfold nextLine
  split
  · simp [Take.delta, St.took]
  · simp [openWalk_frame]

/-- `getline < file` reads its own stream: the main input position, NR, FNR, FILENAME, the ghost counters, the output, `$0`
and the variables are untouched (the callers then set `$0` or the variable) -/
theorem readStream_fields (s : St) (f : Bytes) :
    (readStream s f).2.2.nr = s.nr ∧ (readStream s f).2.2.fnr = s.fnr ∧ (readStream s f).2.2.filename = s.filename ∧
    (readStream s f).2.2.iters = s.iters ∧ (readStream s f).2.2.gl = s.gl ∧ (readStream s f).2.2.glv = s.glv ∧
    (readStream s f).2.2.out = s.out ∧ (readStream s f).2.2.line = s.line ∧ (readStream s f).2.2.vars = s.vars ∧
    (readStream s f).2.2.cur = s.cur ∧ (readStream s f).2.2.idx = s.idx ∧ (readStream s f).2.2.status = s.status ∧
    (readStream s f).2.2.argv = s.argv ∧ (readStream s f).2.2.argc = s.argc ∧ (readStream s f).2.2.stdin = s.stdin ∧
    (readStream s f).2.2.hadFiles = s.hadFiles ∧ (readStream s f).2.2.fs = s.fs := by
  unfold readStream
  cases lookup f s.streams with
  | some rs => cases rs <;> simp
  | none =>
    cases lookup f s.fs with
    | none => simp
    | some rs => cases rs <;> simp

end GoawkModel.C11
