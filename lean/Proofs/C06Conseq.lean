import Proofs.C06Refine
/-! C06: clause-by-clause consequences of the refinement (reads are pure, NF is the count, assignments rebuild `$0`,
`$0=` re-splits, FS changes are inert, out-of-range indexes). -/
namespace GoawkModel.C06
variable {ρ : Type} (M : ρ → Bytes → List (Nat × Nat))

/-! ### reads are pure -/
theorem getField_pure (r : Rec ρ) (i : Num) : abs M (step M r (.getField i)).1 = abs M r := by
  simp only [step, getField]
  split
  · rfl
  · split
    · exact abs_ensure M r
    · split <;> exact abs_ensure M r

theorem getNF_pure (r : Rec ρ) : abs M (step M r .getNF).1 = abs M r := abs_ensure M r

def Op.isRead : Op ρ → Bool
  | .getField _ => true
  | .getNF => true
  | _ => false

theorem read_pure (r : Rec ρ) (op : Op ρ) (h : op.isRead = true) : abs M (step M r op).1 = abs M r := by
  cases op <;> simp [Op.isRead] at h
  · exact getField_pure M r _
  · exact getNF_pure M r

theorem read_canon (op : Op ρ) (h : op.isRead = true) : op.Canon := by
  cases op <;> simp [Op.isRead] at h <;> trivial

theorem spec_read_state (s : Spec ρ) (op : Op ρ) (h : op.isRead = true) : (specStep M s op).1 = s := by
  cases op <;> simp [Op.isRead] at h <;> rfl

theorem spec_read_noerr (s : Spec ρ) (op : Op ρ) (h : op.isRead = true) : ∀ e, (specStep M s op).2 ≠ .err e := by
  cases op with
  | getField i =>
    intro e; simp only [specStep, specGetField]
    repeat' split
    all_goals simp
  | getNF => intro e; simp [specStep]
  | _ => simp [Op.isRead] at h

/-- a read is invisible to everything observed afterwards -/
theorem read_invisible (r : Rec ρ) (op : Op ρ) (ops : List (Op ρ)) (h : op.isRead = true) (hinv : Inv r)
    (hc : ∀ o ∈ ops, o.Canon) : run M r (op :: ops) = (step M r op).2 :: run M r ops := by
  obtain ⟨h1, h2, h3⟩ := refines_step M r op hinv (read_canon op h)
  have hne := spec_read_noerr M (abs M r) op h
  rw [← h2] at hne
  have e1 : run M r (op :: ops) = (step M r op).2 :: run M (step M r op).1 ops := by
    simp only [run]
  rw [e1, lift_run M _ ops h3 hc, read_pure M r op h, ← lift_run M r ops hinv hc]

/-! ### NF is the number of fields -/
theorem nf_count (r : Rec ρ) (hinv : Inv r) : (step M r .getNF).2 = .nf (NFv.count (abs M r).fields.length) := by
  simp only [step]; rw [ensure_numFields M r hinv]

/-- the state after a history (a runtime error leaves the record as it was) -/
def exec (r : Rec ρ) : List (Op ρ) → Rec ρ
  | [] => r
  | op :: ops => exec (step M r op).1 ops

theorem exec_inv (r : Rec ρ) (ops : List (Op ρ)) (hinv : Inv r) (hc : ∀ o ∈ ops, o.Canon) : Inv (exec M r ops) := by
  induction ops generalizing r with
  | nil => exact hinv
  | cons op ops ih =>
    exact ih _ (refines_step M r op hinv (hc op (by simp))).2.2 (fun o ho => hc o (by simp [ho]))
/-! ### assignments rebuild `$0` -/

theorem joinFields_default (env : Env ρ) (fl : List Fld) (h : env.csv = none) :
    joinFields env fl = intercalate env.ofs (fl.map Prod.fst) := by simp [joinFields, h]

theorem joinFields_csv (env : Env ρ) (fl : List Fld) (sep : UInt8) (h : env.csv = some sep) :
    joinFields env fl = csvJoin sep (fl.map Prod.fst) := by simp [joinFields, h]

theorem resolveIdx_pos (len : Nat) (i : Int) (h : 1 ≤ i) : resolveIdx len i = some i.toNat := by
  simp only [resolveIdx]
  have h1 : ¬ i < 1 := by omega
  simp [h1]

theorem resolveIdx_neg (len : Nat) (i : Int) (h1 : i < 0) (h2 : -((len : Int)) ≤ i) :
    resolveIdx len i = some (len + 1 - i.natAbs) := by
  simp only [resolveIdx]
  have h3 : i < 1 := by omega
  simp only [h3, if_true]
  have h4 : ¬ ((len : Int) + 1 + i < 1) := by omega
  simp only [h4, if_false]
  congr 1
  omega

theorem resolveIdx_before (len : Nat) (i : Int) (h : i < -((len : Int))) : resolveIdx len i = none := by
  simp only [resolveIdx]
  have h3 : i < 1 := by omega
  simp only [h3, if_true]
  have h4 : (len : Int) + 1 + i < 1 := by omega
  simp [h4]

/-- `$i = v` with `1 ≤ i ≤ maxFieldIndex` on the specification: the fields are padded with empty ones up to `i`, field `i`
becomes `v`, `$0` is the fields joined (OFS or CSV), nothing is printed. -/
theorem spec_setField (s : Spec ρ) (i : Num) (v : Bytes) (h1 : 1 ≤ floatToInt i) (h2 : floatToInt i ≤ maxFieldIndex) :
    let s' := (specStep M s (.setField i v)).1
    let k := (floatToInt i).toNat
    s'.fields.map Prod.fst = ((s.fields.map Prod.fst) ++ List.replicate (k - s.fields.length) []).set (k - 1) v ∧
    s'.line = joinFields s.env s'.fields ∧ s'.env = s.env ∧ (specStep M s (.setField i v)).2 = .none := by
  have h0 : floatToInt i ≠ 0 := by omega
  have hb : ¬ floatToInt i > maxFieldIndex := by omega
  simp only [specStep, specSetField, h0, hb, if_false, resolveIdx_pos _ _ h1]
  refine ⟨?_, ?_, ?_, ?_⟩ <;> try trivial
  simp only [resize, List.map_set, List.map_append, List.map_take, List.map_replicate]
  congr 1
  have : List.take (max (floatToInt i).toNat s.fields.length) (List.map Prod.fst s.fields) = List.map Prod.fst s.fields := by
    apply List.take_of_length_le; simp; omega
  rw [this]
  congr 2
  omega

/-- `NF = n` with `0 ≤ n ≤ maxFieldIndex` on the specification -/
theorem spec_setNF (s : Spec ρ) (a : NFArg) (h1 : 0 ≤ goInt a.val) (h2 : goInt a.val ≤ maxFieldIndex) :
    let s' := (specStep M s (.setNF a)).1
    let n := (goInt a.val).toNat
    s'.fields.map Prod.fst = (s.fields.map Prod.fst).take n ++ List.replicate (n - s.fields.length) [] ∧
    s'.line = joinFields s.env s'.fields ∧ s'.env = s.env ∧ (specStep M s' .getNF).2 = .nf (NFv.count n) := by
  have hn : ¬ goInt a.val < 0 := by omega
  have hb : ¬ goInt a.val > maxFieldIndex := by omega
  simp only [specStep, specSetNF, hn, hb, if_false]
  refine ⟨?_, ?_, ?_, ?_⟩ <;> try trivial
  · simp [resize]
  · simp [resize]; congr 1; omega

/-! ### reads of fields -/
theorem spec_beyond_nf (s : Spec ρ) (i : Num) (h : (s.fields.length : Int) < floatToInt i) :
    (specStep M s (.getField i)).2 = .val [] true := by
  have h0 : floatToInt i ≠ 0 := by omega
  have h1 : 1 ≤ floatToInt i := by omega
  simp only [specStep, specGetField, h0, if_false, resolveIdx_pos _ _ h1]
  have : s.fields[(floatToInt i).toNat - 1]? = none := by
    apply List.getElem?_eq_none; omega
  simp [this]

theorem spec_negative (s : Spec ρ) (i : Num) (h1 : floatToInt i < 0) (h2 : -((s.fields.length : Int)) ≤ floatToInt i) :
    ∃ f, s.fields[s.fields.length - (floatToInt i).natAbs]? = some f ∧ (specStep M s (.getField i)).2 = .val f.1 f.2 := by
  have h0 : floatToInt i ≠ 0 := by omega
  simp only [specStep, specGetField, h0, if_false, resolveIdx_neg _ _ h1 h2]
  have hlt : s.fields.length - (floatToInt i).natAbs < s.fields.length := by omega
  refine ⟨s.fields[s.fields.length - (floatToInt i).natAbs], by simp, ?_⟩
  have : s.fields.length + 1 - (floatToInt i).natAbs - 1 = s.fields.length - (floatToInt i).natAbs := by omega
  rw [this]
  simp [hlt]

theorem spec_before_first (s : Spec ρ) (i : Num) (h : floatToInt i < -((s.fields.length : Int))) (v : Bytes) :
    (specStep M s (.getField i)).2 = .val [] true ∧ (specStep M s (.setField i v)) = (s, .none) := by
  have h0 : floatToInt i ≠ 0 := by omega
  have hb : ¬ floatToInt i > maxFieldIndex := by simp [maxFieldIndex]; omega
  simp [specStep, specGetField, specSetField, h0, hb, resolveIdx_before _ _ h]

/-- assignment to an index above `maxFieldIndex`: an error, the record is untouched (lazy record, any state) -/
theorem huge_index (r : Rec ρ) (i : Num) (v : Bytes) (h : floatToInt i > maxFieldIndex) :
    step M r (.setField i v) = (r, .err (.fieldTooLarge (floatToInt i))) := by
  have h0 : floatToInt i ≠ 0 := by simp [maxFieldIndex] at h; omega
  simp [step, setField, h0, h]

theorem floatToInt_int (n : Int) (h1 : minInt < n) (h2 : n < maxInt) : floatToInt (.rat n 1) = n := by
  simp only [floatToInt]
  have : Int.tdiv n ((1 : Nat) : Int) = n := by simp
  rw [this]
  have a : ¬ n ≥ maxInt := by omega
  have b : ¬ n ≤ minInt := by omega
  simp [a, b]

/-- A rejected assignment (`$i =` with an index above the limit, `NF =` negative or too large, `FS =` a text that is not a
regular expression) returns the SAME state: `$0`, the fields, the stored NF, the laziness flag, the saved separator and
every variable are exactly as before. (Only a rejected OUTPUTMODE text is different: the code has by then reset the output
mode to the default; the record itself is untouched there too.) -/
theorem rejected_same_state (r : Rec ρ) (op : Op ρ) (e : Err) (h : (step M r op).2 = .err e)
    (hm : ∀ m, op ≠ .setOutMode m) : (step M r op).1 = r := by
  cases op with
  | setLine s t => simp [step] at h
  | getField i =>
    simp only [step, getField] at h
    repeat' split at h
    all_goals simp at h
  | setField i v =>
    simp only [step, setField] at h ⊢
    repeat' split at h
    all_goals first | rfl | simp at h
    all_goals simp_all
  | getNF => simp [step] at h
  | setNF a =>
    simp only [step, setNF] at h ⊢
    by_cases h1 : goInt a.val < 0
    · simp [h1]
    · by_cases h2 : goInt a.val > maxFieldIndex
      · simp [h1, h2]
      · simp [h1, h2] at h
  | setFS fs re =>
    simp only [step] at h ⊢
    split
    · rfl
    · rename_i hh; simp [hh] at h
  | setOFS s => simp [step] at h
  | setOutMode m => exact absurd rfl (hm m)

theorem rejected_outmode_record (r : Rec ρ) (m : OutMode) (e : Err) (h : (step M r (.setOutMode m)).2 = .err e) :
    let r' := (step M r (.setOutMode m)).1
    r'.line = r.line ∧ r'.fields = r.fields ∧ r'.numFields = r.numFields ∧ r'.haveFields = r.haveFields ∧
      r'.env.csv = none := by
  cases m <;> simp [step, setModeEnv] at h ⊢

/-! ### `$0 = v` re-splits with the FS in force; a later FS change is inert -/
theorem setLine_resplits (r : Rec ρ) (v : Bytes) (t : Bool) :
    (abs M (step M r (.setLine v t)).1).fields = splitFlds M r.env r.env.fs r.env.fsRe v ∧
    (abs M (step M r (.setLine v t)).1).line = v := by
  simp [step, setLine, abs]

theorem fs_change_inert (r : Rec ρ) (fs : Bytes) (re : Option ρ) :
    (abs M (step M r (.setFS fs re)).1).fields = (abs M r).fields ∧ (abs M (step M r (.setFS fs re)).1).line = (abs M r).line := by
  simp only [step]
  split
  · exact ⟨rfl, rfl⟩
  · simp [abs, splitFlds, setFSEnv]

end GoawkModel.C06
