import Proofs.C11Lift
import Proofs.C11Input
import Proofs.C11Stream
/-!
The unified input log: operand fetches and record deliveries in one ghost sequence (`ilog`). While the program has not
edited ARGV / ARGC nor executed nextfile, that sequence followed by what is still to come is the declarative `logSpec` of
the operand list — so each operand (in particular each `var=value` assignment, which `openWalk` applies in the very step that
fetches it) is reached after every record of the operands before it and before any record of the operands after it.
-/
namespace GoawkModel.C11

def numberedL (fn : Bytes) : Nat → List Rec → List LogEntry
  | _, [] => []
  | k, r :: rs => .record fn (k + 1) r :: numberedL fn (k + 1) rs

/-- operands left to right, each followed by the records it delivers -/
def logSpec (fs : List (Bytes × List Rec)) : List Bytes → Bool → List Rec → List LogEntry
  | [], had, stdin => if had then [] else numberedL [45] 0 stdin
  | o :: os, had, stdin =>
    .op o ::
    match classify o with
    | .assign _ _ => logSpec fs os had stdin
    | .empty => logSpec fs os had stdin
    | .dash => numberedL [45] 0 stdin ++ logSpec fs os true []
    | .file n =>
      match lookup n fs with
      | none => logSpec fs os had stdin
      | some rs => numberedL n 0 rs ++ logSpec fs os true stdin

def pendingL (s : St) : List LogEntry :=
  (match s.cur with
   | some rs => numberedL s.filename s.fnr rs
   | none => []) ++ logSpec s.fs (remaining s) s.hadFiles s.stdin

theorem setVarByName_ilog (s : St) (n v : Bytes) : (s.setVarByName n v).ilog = s.ilog := by
  unfold St.setVarByName
  split
  · rfl
  · split
    · rfl
    · split <;> rfl

theorem openWalk_log : ∀ (n : Nat) (s : St), s.cur = none → n = s.argc - s.idx →
    ∃ d, (openWalk n s).2.ilog = d.reverse ++ s.ilog ∧
      logSpec s.fs (remaining s) s.hadFiles s.stdin = d ++ pendingL (openWalk n s).2
  | 0, s, hc, hn => by
    have hrem : remaining s = [] := by simp [remaining, ← hn, operandsFrom]
    unfold openWalk
    split
    · rename_i hh
      exact ⟨[], by simp, by simp [pendingL, hc, hrem, logSpec, hh]⟩
    · rename_i hh
      split
      · rename_i hs
        exact ⟨[], by simp [St.setFile], by simp [pendingL, logSpec, hh, hs, numberedL, St.setFile, remaining, ← hn, operandsFrom]⟩
      · rename_i r rs hs
        exact ⟨[.record [45] 1 r], by simp [St.setFile, St.took],
          by simp [pendingL, hrem, logSpec, hh, hs, numberedL, St.setFile, St.took, remaining, ← hn, operandsFrom]⟩
  | n + 1, s, hc, hn => by
    have hrem : remaining s = s.argv.getD s.idx [] :: operandsFrom s.argv (s.idx + 1) n := by
      simp [remaining, ← hn, operandsFrom]
    have hn' : n = s.argc - (s.idx + 1) := by omega
    have ih := openWalk_log n
    unfold openWalk
    simp only [St.fetch]
    rw [hrem]
    unfold logSpec
    split
    · rename_i name val hcl
      obtain ⟨d, h1, h2⟩ := ih (St.setVarByName s.fetch.2 name val)
        (by simp [setVarByName_fields2, St.fetch, hc]) (by simp [setVarByName_fields2, St.fetch]; exact hn')
      simp only [St.fetch, setVarByName_ilog] at h1
      refine ⟨.op (s.argv.getD s.idx []) :: d, ?_, ?_⟩
      · rw [h1]; simp
      · simp only [hcl]
        simpa [remaining, setVarByName_fields2, St.fetch, ← hn'] using h2
    · rename_i hcl
      obtain ⟨d, h1, h2⟩ := ih s.fetch.2 (by simpa [St.fetch] using hc) (by simpa [St.fetch] using hn')
      simp only [St.fetch] at h1
      refine ⟨.op (s.argv.getD s.idx []) :: d, ?_, ?_⟩
      · rw [h1]; simp
      · simp only [hcl]
        simpa [remaining, St.fetch, ← hn'] using h2
    · rename_i hcl
      simp only [hcl]
      split
      · rename_i hs
        obtain ⟨d, h1, h2⟩ := ih { (St.setFile s.fetch.2 [45] true s.stdin) with stdin := [], cur := none } rfl
          (by simp [St.setFile, St.fetch]; exact hn')
        simp only [St.fetch, St.setFile] at h1
        refine ⟨.op (s.argv.getD s.idx []) :: d, ?_, ?_⟩
        · simp only [St.setFile]; rw [h1]; simp
        · simpa [remaining, St.fetch, ← hn', St.setFile, hs, numberedL] using h2
      · rename_i r rs hs
        exact ⟨[.op (s.argv.getD s.idx []), .record [45] 1 r], by simp [St.setFile, St.took],
          by simp [pendingL, hs, numberedL, St.setFile, St.took, remaining, ← hn']⟩
    · rename_i name hcl
      simp only [hcl]
      cases hl : lookup name s.fs with
      | none => exact ⟨[.op (s.argv.getD s.idx [])], by simp, by simp [pendingL, hc, remaining, ← hn']⟩
      | some rs0 =>
        cases rs0 with
        | nil =>
          obtain ⟨d, h1, h2⟩ := ih { (St.setFile s.fetch.2 name false []) with cur := none } rfl
            (by simp [St.setFile, St.fetch]; exact hn')
          simp only [St.fetch, St.setFile] at h1
          refine ⟨.op (s.argv.getD s.idx []) :: d, ?_, ?_⟩
          · simp only [St.setFile]; rw [h1]; simp
          · simpa [remaining, St.fetch, ← hn', St.setFile, numberedL] using h2
        | cons r rs =>
          exact ⟨[.op (s.argv.getD s.idx []), .record name 1 r], by simp [St.setFile, St.took],
            by simp [pendingL, numberedL, St.setFile, St.took, remaining, ← hn']⟩

theorem nextLine_log (s : St) :
    ∃ d, (nextLine s).2.ilog = d.reverse ++ s.ilog ∧ pendingL s = d ++ pendingL (nextLine s).2 := by
  unfold nextLine
  split
  · rename_i r rs hc
    exact ⟨[.record s.filename (s.fnr + 1) r], by simp [St.took], by simp [pendingL, hc, St.took, numberedL, remaining]⟩
  · rename_i hc
    obtain ⟨d, h1, h2⟩ := openWalk_log (s.argc - s.idx) { s with cur := none } rfl rfl
    have hp : pendingL s = logSpec s.fs (remaining s) s.hadFiles s.stdin := by
      unfold pendingL
      cases hcur : s.cur with
      | none => simp
      | some rs =>
        cases rs with
        | nil => simp [numberedL]
        | cons r rs => exact absurd hcur (hc r rs)
    exact ⟨d, h1, by rw [hp]; simpa [remaining] using h2⟩

def LogInv (full : List LogEntry) (s : St) : Prop :=
  s.edited = false → s.ilog.reverse ++ pendingL s = full

theorem logInv_of_same {full : List LogEntry} {s s1 : St} (h : LogInv full s) (he : s1.edited = s.edited)
    (ht : s1.ilog = s.ilog) (hp : pendingL s1 = pendingL s) : LogInv full s1 := by
  intro h1
  rw [ht, hp]
  exact h (by rw [← he]; exact h1)

theorem logInv_nextLine {full : List LogEntry} {s : St} (h : LogInv full s) : LogInv full (nextLine s).2 := by
  intro h1
  obtain ⟨d, hl, hp⟩ := nextLine_log s
  rw [(nextLine_pending s).2.2] at h1
  rw [hl, List.reverse_append, List.reverse_reverse, List.append_assoc, ← hp]
  exact h h1

theorem logInv_edited {full : List LogEntry} {s : St} (he : s.edited = true) : LogInv full s := by
  intro h1
  rw [he] at h1
  cases h1

theorem logInv_stable (full : List LogEntry) : Stable (LogInv full) where
  emit s tag h := logInv_of_same h rfl rfl rfl
  ev s e _ h := logInv_of_same h rfl rfl rfl
  exitSome s n h := logInv_of_same h rfl rfl rfl
  gl s h := by
    have h1 := logInv_nextLine h
    unfold doGetline
    rcases hn : nextLine s with ⟨t, s1⟩
    rw [hn] at h1
    cases t <;> exact logInv_of_same h1 rfl rfl rfl
  glv s v h := by
    have h1 := logInv_nextLine h
    unfold doGetlineVar
    rcases hn : nextLine s with ⟨t, s1⟩
    rw [hn] at h1
    cases t <;> exact logInv_of_same h1 rfl rfl rfl
  glf s f h := by
    unfold doGetlineFile readStream
    cases lookup f s.streams with
    | some rs => cases rs <;> exact logInv_of_same h rfl rfl rfl
    | none =>
      cases lookup f s.fs with
      | none => exact logInv_of_same h rfl rfl rfl
      | some rs => cases rs <;> exact logInv_of_same h rfl rfl rfl
  glvf s v f h := by
    unfold doGetlineVarFile readStream
    cases lookup f s.streams with
    | some rs => cases rs <;> exact logInv_of_same h rfl rfl rfl
    | none =>
      cases lookup f s.fs with
      | none => exact logInv_of_same h rfl rfl rfl
      | some rs => cases rs <;> exact logInv_of_same h rfl rfl rfl
  argv s i v _ := logInv_edited rfl
  argc s n _ := logInv_edited rfl
  close s f h := logInv_of_same h rfl rfl rfl
  fname s v _ := logInv_edited rfl
  fsep s v h := logInv_of_same h rfl rfl rfl
  enter s h := logInv_of_same h rfl rfl rfl
  leave s h := logInv_of_same h rfl rfl rfl
  take s r s1 h hn := by
    have h1 := logInv_nextLine h
    rw [hn] at h1
    exact logInv_of_same h1 rfl rfl rfl
  eof s s1 h hn := by
    have h1 := logInv_nextLine h
    rw [hn] at h1
    exact h1
  err s s1 h hn := by
    have h1 := logInv_nextLine h
    rw [hn] at h1
    exact h1
  nextfile s _ := logInv_edited rfl
  visit s v h := logInv_of_same h rfl rfl rfl

end GoawkModel.C11
