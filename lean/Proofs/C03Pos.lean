import GoawkModel.C03
/-! C03 — position bookkeeping lemmas: `trueLineCol` advances exactly like the lexer s `nextPos`; the invariant `Inv` is preserved by
`next`; `unread` exactly undoes `next` under the precondition stated in the Go comment. -/
namespace GoawkModel.C03
open GoawkModel
theorem take_succ_byteAt (src : Bytes) (off : Nat) (h : off < src.length) :
    src.take (off + 1) = src.take off ++ [byteAt src off] := by
  rw [List.take_add_one]
  have : src[off]? = some (byteAt src off) := by
    unfold byteAt
    rw [List.getD_eq_getElem?_getD, List.getElem?_eq_getElem h]; rfl
  rw [this]; rfl

theorem trueLineCol_zero (src : Bytes) : trueLineCol src 0 = ⟨1, 1⟩ := by
  simp [trueLineCol, lineOf, colOf]

theorem trueLineCol_succ (src : Bytes) (off : Nat) (h : off < src.length) :
    trueLineCol src (off + 1) = stepPos (trueLineCol src off) (byteAt src off) := by
  simp only [trueLineCol, lineOf, colOf, take_succ_byteAt src off h, stepPos]
  by_cases h10 : byteAt src off = 10
  · simp [h10, List.filter_append]
    omega
  · by_cases h13 : byteAt src off = 13
    · simp [h13, List.filter_append]
    · simp [h10, h13, List.filter_append]
      omega

theorem trueLineCol_ge (src : Bytes) (off : Nat) (h : src.length ≤ off) :
    trueLineCol src off = trueLineCol src src.length := by
  simp [trueLineCol, lineOf, colOf, List.take_of_length_le h]

theorem byteAt_ge (src : Bytes) (i : Nat) (h : src.length ≤ i) : byteAt src i = 0 := by
  unfold byteAt
  rw [List.getD_eq_getElem?_getD, List.getElem?_eq_none h]; rfl

/-- the lexer is "on" the character at offset `offset - 1` (which is the virtual NUL one past the end when `offset = len + 1`) -/
structure G (src : Bytes) (s : St) : Prop where
  lo : 1 ≤ s.offset
  hi : s.offset ≤ src.length + 1
  ch : s.ch = byteAt src (s.offset - 1)
  pos : s.pos = trueLineCol src (s.offset - 1)
  nextPos : s.nextPos = trueLineCol src s.offset

/-- the lexer rests at the end: empty source, or `next()` was called again on a final NUL byte -/
structure Stuck (src : Bytes) (s : St) : Prop where
  ch : s.ch = 0
  off : s.offset = src.length
  pos : s.pos = trueLineCol src src.length
  nextPos : s.nextPos = trueLineCol src src.length

def Inv (src : Bytes) (s : St) : Prop := G src s ∨ Stuck src s

theorem next_lt {src : Bytes} {s : St} (h : s.offset < src.length) :
    next src s = { s with pos := s.nextPos, nextPos := stepPos s.nextPos (byteAt src s.offset), ch := byteAt src s.offset, offset := s.offset + 1 } := by
  have : ¬ (s.offset ≥ src.length) := by omega
  simp [next, this]

theorem next_ge_nz {src : Bytes} {s : St} (h : src.length ≤ s.offset) (hc : s.ch ≠ 0) :
    next src s = { s with pos := s.nextPos, ch := 0, offset := s.offset + 1 } := by
  simp [next, h, hc]

theorem next_ge_z {src : Bytes} {s : St} (h : src.length ≤ s.offset) (hc : s.ch = 0) :
    next src s = { s with pos := s.nextPos } := by
  simp [next, h, hc]

theorem G.lt_of_ne {src : Bytes} {s : St} (h : G src s) (hc : s.ch ≠ 0) : s.offset ≤ src.length := by
  rcases Nat.lt_or_ge (s.offset - 1) src.length with h1 | h1
  · have := h.lo; omega
  · exact absurd (h.ch.trans (byteAt_ge src _ h1)) hc

theorem next_inv {src : Bytes} {s : St} (h : Inv src s) : Inv src (next src s) := by
  rcases h with h | h
  · obtain ⟨lo, hi, hch, hpos, hnp⟩ := h
    by_cases hlt : s.offset < src.length
    · left
      rw [next_lt hlt]
      exact ⟨by simp, by simp; omega, by simp, by simp [hnp], by simp [hnp, trueLineCol_succ src s.offset hlt]⟩
    · have hge : src.length ≤ s.offset := by omega
      by_cases hc : s.ch = 0
      · rw [next_ge_z hge hc]
        by_cases he : s.offset = src.length
        · right
          exact ⟨hc, he, by simp [hnp, he], by simp [hnp, he]⟩
        · left
          have he' : s.offset = src.length + 1 := by omega
          refine ⟨lo, hi, hch, ?_, hnp⟩
          simp [hnp, he']
          exact trueLineCol_ge src _ (by omega)
      · rw [next_ge_nz hge hc]
        have he : s.offset = src.length := by
          have := G.lt_of_ne ⟨lo, hi, hch, hpos, hnp⟩ hc; omega
        left
        refine ⟨by simp, by simp; omega, ?_, ?_, ?_⟩
        · simp [he, byteAt_ge]
        · simp [hnp, he]
        · simp [hnp, he]; exact (trueLineCol_ge src _ (by omega)).symm
  · obtain ⟨hc, ho, hp, hn⟩ := h
    right
    rw [next_ge_z (by omega) hc]
    exact ⟨hc, ho, hn, hn⟩

/-- on a real (non-NUL) character `next` moves to the following offset and stays in `G` -/
theorem next_G {src : Bytes} {s : St} (h : G src s) (hc : s.ch ≠ 0) :
    G src (next src s) ∧ (next src s).offset = s.offset + 1 := by
  have hle := h.lt_of_ne hc
  obtain ⟨lo, hi, hch, hpos, hnp⟩ := h
  by_cases hlt : s.offset < src.length
  · rw [next_lt hlt]
    exact ⟨⟨by simp, by simp; omega, by simp, by simp [hnp], by simp [hnp, trueLineCol_succ src s.offset hlt]⟩, rfl⟩
  · have he : s.offset = src.length := by omega
    rw [next_ge_nz (by omega) hc]
    refine ⟨⟨by simp, by simp; omega, ?_, ?_, ?_⟩, rfl⟩
    · simp [he, byteAt_ge]
    · simp [hnp, he]
    · simp [hnp, he]; exact (trueLineCol_ge src _ (by omega)).symm

/-- `unread` undoes `next` when the character that becomes current again is neither NUL, newline nor carriage return
(the Go comment's precondition) — up to nothing: all six fields are restored -/
theorem unread_next {src : Bytes} {s : St} (h : G src s) (h0 : s.ch ≠ 0) (h10 : s.ch ≠ 10) (h13 : s.ch ≠ 13) :
    unread src (next src s) = s := by
  have hle := h.lt_of_ne h0
  obtain ⟨lo, hi, hch, hpos, hnp⟩ := h
  have hstep : trueLineCol src s.offset = ⟨s.pos.line, s.pos.col + 1⟩ := by
    have := trueLineCol_succ src (s.offset - 1) (by omega)
    rw [show s.offset - 1 + 1 = s.offset by omega, ← hch, ← hpos] at this
    simp [this, stepPos, h10, h13]
  by_cases hlt : s.offset < src.length
  · rw [next_lt hlt]
    cases s with
    | mk offset ch pos nextPos hadSpace lastTok =>
      simp only [unread] at *
      simp [hch, hnp, hstep]
  · rw [next_ge_nz (by omega) h0]
    cases s with
    | mk offset ch pos nextPos hadSpace lastTok =>
      simp only [unread] at *
      simp [hch, hnp, hstep]
end GoawkModel.C03
