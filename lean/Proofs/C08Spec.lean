import Proofs.C08Chunk
/-! C08: the scanner on a whole input (EOF known) yields exactly the specification reader's rows (fields and `$0`).
Core Lean only. -/
namespace GoawkModel.C08
open GoawkModel

/-! ### a field that ran into the end of the data leaves nothing unread -/

theorem unq_eof_rest (sep : Bytes) : ∀ d : Bytes, (unq sep d).2.2 = .eof → (unq sep d).2.1 = [] := by
  intro d
  induction d with
  | nil => intro _; simp [unq]
  | cons b d ih =>
    simp only [unq]
    split
    · intro h; simp at h
    · split
      · intro h; simp at h
      · split
        · intro h; simp at h
        · intro h; exact ih h

theorem quo_eof_rest (sep : Bytes) : ∀ (n : Nat) (d : Bytes), d.length ≤ n →
    (quo sep d).2.2.1 = .eof → (quo sep d).2.1 = [] := by
  intro n
  induction n with
  | zero =>
    intro d hl _
    have : d = [] := by cases d with | nil => rfl | cons _ _ => simp at hl
    subst this; simp [quo]
  | succ n ih =>
    intro d hl
    cases d with
    | nil => intro _; simp [quo]
    | cons b d =>
      simp only [List.length_cons, Nat.add_le_add_iff_right] at hl
      rw [quo.eq_def]
      simp only
      split
      · cases d with
        | nil => intro _; rfl
        | cons c d' =>
          simp only [List.length_cons] at hl
          simp only
          split
          · intro h; exact ih d' (by omega) h
          · split
            · intro h; simp at h
            · split
              · intro h; simp at h
              · split
                · intro h; simp at h
                · intro h; exact ih (c :: d') (by simp; omega) h
      · split
        · cases d with
          | nil => intro _; rfl
          | cons c d' =>
            simp only [List.length_cons] at hl
            simp only
            split
            · intro h; exact ih d' (by omega) h
            · intro h; exact ih (c :: d') (by simp; omega) h
        · intro h; exact ih d hl h

theorem field_eof_rest (sep : Bytes) (d : Bytes) (h : (field sep d).2.2.1 = .eof) : (field sep d).2.1 = [] := by
  cases d with
  | nil => simp [field]
  | cons b t =>
    simp only [field] at h ⊢
    split
    · rename_i hb; simp only [hb, if_true] at h; exact quo_eof_rest sep t.length t (Nat.le_refl _) h
    · rename_i hb; simp only [hb, if_false] at h; exact unq_eof_rest sep (b :: t) h

theorem fieldsFuel_eof_rest {sep : Bytes} (hs : validSep sep = true) : ∀ (n : Nat) (d : Bytes) (fs : List Bytes) (r : Bytes)
    (c : Bool), d.length < n → fieldsFuel sep n d = (fs, r, true, c) → r = [] := by
  intro n
  induction n with
  | zero => intro d fs r c h; omega
  | succ n ih =>
    intro d fs r c hl h
    simp only [fieldsFuel] at h
    cases hf : field sep d with
    | mk f p =>
      obtain ⟨r1, e, c1⟩ := p
      rw [hf] at h
      cases e with
      | sep =>
        simp only at h
        cases hr : fieldsFuel sep n r1 with
        | mk fs' q =>
          obtain ⟨r'', eof', c'⟩ := q
          rw [hr] at h
          simp only [Prod.mk.injEq] at h
          obtain ⟨rfl, rfl, rfl, rfl⟩ := h
          obtain ⟨q, hd, hqn, -, -⟩ := field_prefix hs d f r1 .sep c1 hf (by simp)
          have hqpos := List.length_pos_iff.mpr hqn
          have : r1.length < n := by rw [hd] at hl; simp at hl; omega
          exact ih r1 fs' r'' c' this hr
      | eol => simp at h
      | eof =>
        simp only [Prod.mk.injEq] at h
        obtain ⟨-, rfl, -, -⟩ := h
        have := field_eof_rest sep d (by rw [hf])
        rw [hf] at this; exact this

/-- every record consumes at least one byte -/
theorem fieldsFuel_progress {sep : Bytes} (hs : validSep sep = true) (r : Bytes) (hr : r ≠ []) (fs : List Bytes) (r' : Bytes)
    (e c : Bool) (h : fieldsFuel sep (r.length + 1) r = (fs, r', e, c)) : r'.length < r.length := by
  have hpos := List.length_pos_iff.mpr hr
  cases e with
  | true => rw [fieldsFuel_eof_rest hs _ r fs r' c (by omega) h]; exact hpos
  | false =>
    obtain ⟨p, hrp, hpl, -, -⟩ := fieldsFuel_prefix hs _ r fs r' c h
    have hpn : p ≠ [] := by intro h0; simp [h0] at hpl
    have := List.length_pos_iff.mpr hpn
    rw [hrp]; simp; omega


/-! ### the specification reader, one record at a time -/

theorem tail_length_lt {d : Bytes} (h : d ≠ []) : d.tail.length < d.length := by
  cases d with
  | nil => exact absurd rfl h
  | cons _ _ => simp

theorem skipLines_fuel (cfg : Cfg) : ∀ (n m : Nat) (d : Bytes), d.length < n → d.length < m →
    skipLines cfg n d = skipLines cfg m d := by
  intro n
  induction n with
  | zero => intro m d h; omega
  | succ n ih =>
    intro m d hn hm
    cases m with
    | zero => omega
    | succ m =>
      simp only [skipLines]
      by_cases h0 : d = []
      · simp [h0]
      · have hdl := dropLine_length_lt h0
        have htl := tail_length_lt h0
        have htl2 : d.tail.tail.length ≤ d.tail.length := by simp
        simp only [h0, if_false]
        split
        · exact ih m _ (by omega) (by omega)
        · split
          · exact ih m _ (by omega) (by omega)
          · split
            · exact ih m _ (by omega) (by omega)
            · rfl

/-- one record of the specification reader: the row (fields, `$0`) and the unread rest; `none` = no further record -/
def step1 (cfg : Cfg) (cr : Bool) (d : Bytes) : Option ((List Bytes × Bytes) × Bytes) :=
  let r := skipLines cfg (d.length + 1) d
  if r.isEmpty then none else
  match fieldsFuel cfg.sep (r.length + 1) r with
  | (fs, r', e, c) => some ((fs, recordText (r.take (r.length - r'.length)) e cr c), r')

def rowsS (cfg : Cfg) (cr : Bool) : Nat → Bytes → List (List Bytes × Bytes)
  | 0, _ => []
  | n + 1, d =>
    match step1 cfg cr d with
    | none => []
    | some (row, r') => row :: rowsS cfg cr n r'

theorem step1_congr (cfg : Cfg) (cr : Bool) {d d' : Bytes}
    (h : skipLines cfg (d.length + 1) d = skipLines cfg (d'.length + 1) d') : step1 cfg cr d = step1 cfg cr d' := by
  unfold step1; simp only [h]

theorem rowsS_congr (cfg : Cfg) (cr : Bool) (m : Nat) {d d' : Bytes}
    (h : skipLines cfg (d.length + 1) d = skipLines cfg (d'.length + 1) d') :
    rowsS cfg cr (m + 1) d = rowsS cfg cr (m + 1) d' := by
  simp only [rowsS, step1_congr cfg cr h]

/-- the specification reader `recordsFuel` is the iteration of `step1` -/
theorem recordsFuel_eq_rowsS (cfg : Cfg) (hs : validSep cfg.sep = true) (cr : Bool) : ∀ (n m : Nat) (d : Bytes),
    d.length < n → d.length < m → recordsFuel cfg cr n d = rowsS cfg cr m d := by
  intro n
  induction n with
  | zero => intro m d h; omega
  | succ n ih =>
    intro m d hn hm
    cases m with
    | zero => omega
    | succ m =>
      rw [recordsFuel]
      by_cases h0 : d = []
      · subst h0
        simp [rowsS, step1, skipLines]
      · have hdl := dropLine_length_lt h0
        have htl := tail_length_lt h0
        have htl2 : d.tail.tail.length ≤ d.tail.length := by simp
        simp only [h0, if_false]
        by_cases c1 : cfg.comment ≠ [] ∧ cfg.comment.isPrefixOf d = true
        · rw [if_pos c1, ih (m + 1) _ (by omega) (by omega)]
          apply (rowsS_congr cfg cr m _).symm
          rw [skipLines]
          simp only [h0, if_false]
          rw [if_pos c1]
          exact skipLines_fuel cfg _ _ _ (by omega) (by omega)
        · rw [if_neg c1]
          by_cases c2 : d.head? = some 10
          · rw [if_pos c2, ih (m + 1) _ (by omega) (by omega)]
            apply (rowsS_congr cfg cr m _).symm
            rw [skipLines]
            simp only [h0, if_false]
            rw [if_neg c1, if_pos c2]
            exact skipLines_fuel cfg _ _ _ (by omega) (by omega)
          · rw [if_neg c2]
            by_cases c3 : d.head? = some 13 ∧ d.tail.head? = some 10
            · rw [if_pos c3, ih (m + 1) _ (by omega) (by omega)]
              apply (rowsS_congr cfg cr m _).symm
              rw [skipLines]
              simp only [h0, if_false]
              rw [if_neg c1, if_neg c2, if_pos c3]
              exact skipLines_fuel cfg _ _ _ (by omega) (by omega)
            · rw [if_neg c3]
              have hsk : skipLines cfg (d.length + 1) d = d := by
                rw [skipLines]
                simp only [h0, if_false]
                rw [if_neg c1, if_neg c2, if_neg c3]
              have hne : d.isEmpty = false := by cases d with | nil => exact absurd rfl h0 | cons _ _ => rfl
              cases hff : fieldsFuel cfg.sep (d.length + 1) d with
              | mk fs q =>
                obtain ⟨r', e, c⟩ := q
                have hprog := fieldsFuel_progress hs d h0 fs r' e c hff
                simp only [rowsS, step1, hsk, hne, Bool.false_eq_true, if_false, hff]
                rw [ih m r' (by omega) (by omega)]


/-! ### one scanner row at EOF = one record of the specification reader -/

/-- the `\r` that `readLine` drops before EOF, as it still sits at the end of the scanner's buffer -/
def crs (cr : Bool) : Bytes := if cr then [13] else []

/-- `d` is what is left of an input whose final `\r` (if `cr`) has been dropped -/
def Inv (d : Bytes) (cr : Bool) : Prop := cr = false → d.getLast? ≠ some 13

theorem eq_dropLast_append_of_getLast? : ∀ (l : Bytes) (x : UInt8), l.getLast? = some x → l = l.dropLast ++ [x] := by
  intro l
  induction l with
  | nil => intro x h; simp at h
  | cons a t ih =>
    intro x h
    cases t with
    | nil => simp at h; simp [h]
    | cons b t' =>
      rw [List.getLast?_cons_cons] at h
      have := ih x h
      simp only [List.dropLast_cons₂, List.cons_append]
      rw [← this]

theorem dropFinalCR_of_inv {d : Bytes} {cr : Bool} (hi : Inv d cr) : dropFinalCR (d ++ crs cr) = (d, cr) := by
  unfold dropFinalCR crs
  cases cr with
  | true => simp
  | false =>
    have := hi rfl
    simp [this]

theorem inv_of_dropFinalCR (d0 : Bytes) : d0 = (dropFinalCR d0).1 ++ crs (dropFinalCR d0).2 ∧ Inv (dropFinalCR d0).1 (dropFinalCR d0).2 := by
  unfold dropFinalCR crs Inv
  by_cases hl : d0.getLast? = some 13
  · simp only [hl, if_true]
    exact ⟨eq_dropLast_append_of_getLast? d0 13 hl, by simp⟩
  · simp [hl]

theorem inv_suffix {a r' : Bytes} {cr : Bool} (hi : Inv (a ++ r') cr) : Inv r' cr := by
  intro hc
  have := hi hc
  by_cases h0 : r' = []
  · simp [h0]
  · rw [List.getLast?_append] at this
    cases hr : r'.getLast? with
    | none => simp
    | some z => rw [hr] at this; simpa using this

theorem step_eof (cfg : Cfg) (hs : validSep cfg.sep = true) (d : Bytes) (cr : Bool) (hi : Inv d cr) :
    (step1 cfg cr d = none → rowAt cfg (d ++ crs cr) true = none) ∧
    (∀ fs t r', step1 cfg cr d = some ((fs, t), r') →
      ∃ a, rowAt cfg (d ++ crs cr) true = some (a, fs, t) ∧
        (((d ++ crs cr).drop a = r' ++ crs cr ∧ Inv r' cr) ∨ ((d ++ crs cr).drop a = [] ∧ r' = []))) := by
  unfold rowAt
  simp only [if_true]
  by_cases hem : (d ++ crs cr).isEmpty = true
  · have hd : d = [] := by
      cases d with
      | nil => rfl
      | cons _ _ => simp at hem
    subst hd
    simp only [hem, if_true]
    have : step1 cfg cr [] = none := by simp [step1, skipLines]
    simp [this]
  · simp only [hem, Bool.false_eq_true, if_false, dropFinalCR_of_inv hi]
    unfold rowCore step1
    simp only
    have hsl := skipLines_length cfg (d.length + 1) d
    obtain ⟨s, hds⟩ := skipLines_suffix cfg (d.length + 1) d
    generalize skipLines cfg (d.length + 1) d = r at hsl hds
    by_cases hre : r.isEmpty = true
    · simp [hre]
    · simp only [hre, Bool.false_eq_true, if_false]
      have hrn : r ≠ [] := by intro h0; simp [h0] at hre
      cases hff : fieldsFuel cfg.sep (r.length + 1) r with
      | mk fs0 q =>
        obtain ⟨r1, ee, hc⟩ := q
        simp only [Bool.not_true, Bool.and_false, Bool.false_eq_true, if_false]
        refine ⟨by simp, ?_⟩
        intro fs t r' h
        simp only [Option.some.injEq, Prod.mk.injEq] at h
        obtain ⟨⟨rfl, rfl⟩, rfl⟩ := h
        cases ee with
        | false =>
          obtain ⟨p, hrp, hpl, -, -⟩ := fieldsFuel_prefix hs _ r fs0 r1 hc hff
          refine ⟨(d.length - r.length) + (r.length - r1.length) + 0, ?_, Or.inl ⟨?_, ?_⟩⟩
          · simp [recordText]
          · have e1 : d ++ crs cr = (s ++ p) ++ (r1 ++ crs cr) := by rw [hds, hrp]; simp
            rw [e1]
            apply List.drop_left'
            rw [hds, hrp]; simp
          · have : d = (s ++ p) ++ r1 := by rw [hds, hrp]; simp
            rw [this] at hi
            exact inv_suffix hi
        | true =>
          have hr1 : r1 = [] := fieldsFuel_eof_rest hs _ r fs0 r1 hc (by omega) hff
          subst hr1
          refine ⟨(d.length - r.length) + r.length + (if cr then 1 else 0), ?_, Or.inr ⟨?_, rfl⟩⟩
          · simp
          · apply List.drop_of_length_le
            unfold crs
            cases cr <;> simp <;> omega


/-! ### all rows -/

/-- the rows the scanner decides when the whole remaining input is in the buffer and EOF is known -/
def rowsE (cfg : Cfg) : Nat → Bool → Bytes → List (List Bytes × Bytes)
  | 0, _, _ => []
  | n + 1, nb, x =>
    match scanRow cfg nb x true with
    | none => []
    | some (a, fs, t) => (fs, t) :: rowsE cfg n true (x.drop a)

theorem rowsE_nil (cfg : Cfg) (n : Nat) : rowsE cfg n true [] = [] := by
  cases n with
  | zero => rfl
  | succ n => simp [rowsE, scanRow, rowAt]

theorem rowsS_nil (cfg : Cfg) (cr : Bool) (n : Nat) : rowsS cfg cr n [] = [] := by
  cases n with
  | zero => rfl
  | succ n => simp [rowsS, step1, skipLines]

theorem rowsE_eq_rowsS (cfg : Cfg) (hs : validSep cfg.sep = true) : ∀ (n : Nat) (nb : Bool) (x d : Bytes) (cr : Bool),
    Inv d cr → x.drop (if (!nb && bom.isPrefixOf x) = true then 3 else 0) = d ++ crs cr →
    rowsE cfg n nb x = rowsS cfg cr n d := by
  intro n
  induction n with
  | zero => intro nb x d cr _ _; rfl
  | succ n ih =>
    intro nb x d cr hi hx
    obtain ⟨hnone, hsome⟩ := step_eof cfg hs d cr hi
    simp only [rowsE, rowsS]
    unfold scanRow
    simp only [hx]
    cases hs1 : step1 cfg cr d with
    | none => simp [hnone hs1]
    | some v =>
      obtain ⟨⟨fs, t⟩, r'⟩ := v
      obtain ⟨a, hrow, hdrop⟩ := hsome fs t r' hs1
      simp only [hrow, List.cons.injEq, true_and]
      have hdd : x.drop ((if (!nb && bom.isPrefixOf x) = true then 3 else 0) + a) = (d ++ crs cr).drop a := by
        rw [← hx, List.drop_drop]
      rw [hdd]
      rcases hdrop with ⟨hd1, hi'⟩ | ⟨hd1, hr'⟩
      · rw [hd1]
        exact ih true _ r' cr hi' (by simp)
      · rw [hd1, hr', rowsE_nil, rowsS_nil]

/-- **Fields and `$0`.** The rows the scanner decides on a whole input are exactly the rows of the specification reader
(BOM ignored, final `\r` rule, comment and empty lines skipped, lenient quotes, `$0` = the record's own text). -/
theorem rowsE_eq_csvRows (cfg : Cfg) (hs : validSep cfg.sep = true) (x : Bytes) :
    rowsE cfg (x.length + 1) false x = csvRows cfg x := by
  unfold csvRows
  obtain ⟨hd0, hi⟩ := inv_of_dropFinalCR (dropBOM x)
  have hlen : (dropFinalCR (dropBOM x)).1.length < x.length + 1 := by
    have h1 := dropFinalCR_length (dropBOM x)
    have h2 : (dropBOM x).length ≤ x.length := by unfold dropBOM; split <;> simp
    omega
  simp only
  rw [recordsFuel_eq_rowsS cfg hs _ _ (x.length + 1) _ (by omega) hlen]
  apply rowsE_eq_rowsS cfg hs _ false x _ _ hi
  rw [← hd0]
  unfold dropBOM
  simp only [Bool.not_false, Bool.true_and]
  split <;> simp


/-! ### the loop at EOF -/

/-- what the program has seen once the rows `rows` have been delivered from state `st` -/
def assemble (cfg : Cfg) (st : St) (rows : List (List Bytes × Bytes)) (out : Out) : Out :=
  if (st.row0 && cfg.header) = true then
    match rows with
    | [] => out
    | h :: tl => { names := some h.1, recs := out.recs ++ tl }
  else { names := out.names, recs := out.recs ++ rows }

theorem run_eof_eq (cfg : Cfg) (hs : validSep cfg.sep = true) : ∀ (f : Nat) (st : St) (x : Bytes) (out : Out) (g : Nat),
    x.length < f → x.length < g →
    run cfg false f st x [] true out = assemble cfg st (rowsE cfg g st.noBOM x) out := by
  intro f
  induction f with
  | zero => intro st x out g h; omega
  | succ f ih =>
    intro st x out g hf hg
    cases g with
    | zero => omega
    | succ g' =>
      rw [run]
      simp only [Bool.or_true, if_true, rowsE]
      unfold csvScan
      cases h1 : scanRow cfg st.noBOM x true with
      | none =>
        simp only [assemble]
        split <;> simp
      | some v =>
        obtain ⟨adv, fs, t⟩ := v
        obtain ⟨a0, ale⟩ := scanRow_bounds cfg hs _ x true adv fs t h1
        simp only
        by_cases hh : (st.row0 && cfg.header) = true
        · simp only [hh, if_true]
          cases h2 : scanRow cfg true (x.drop adv) true with
          | none =>
            simp only [ale, if_true]
            cases g' with
            | zero => omega
            | succ g'' => simp [assemble, hh, rowsE, h2]
          | some w =>
            obtain ⟨m, f2, t2⟩ := w
            obtain ⟨m0, mle⟩ := scanRow_bounds cfg hs _ _ true m f2 t2 h2
            simp only [List.length_drop] at mle
            have hg1 : 0 < adv + m ∧ adv + m ≤ x.length := by omega
            simp only [hg1, and_self, if_true, Option.isSome_some]
            cases g' with
            | zero => omega
            | succ g'' =>
              rw [ih _ (x.drop (adv + m)) _ g'' (by simp only [List.length_drop]; omega)
                (by simp only [List.length_drop]; omega)]
              simp only [assemble, hh, if_true, rowsE, h2, Bool.false_and, Bool.false_eq_true, if_false, List.drop_drop]
              simp
        · simp only [hh, Bool.false_eq_true, if_false, a0, ale, and_self, if_true, Option.isSome_none]
          rw [ih _ (x.drop adv) _ g' (by simp only [List.length_drop]; omega) (by simp only [List.length_drop]; omega)]
          simp only [assemble, hh, Bool.false_eq_true, if_false, Bool.false_and]
          simp

/-- **`csv_fields_spec`.** The scanner on a whole input yields exactly the specification reader's header names, records,
fields and `$0` values. -/
theorem scanWhole_eq_spec (cfg : Cfg) (hs : validSep cfg.sep = true) (x : Bytes) :
    scanWhole cfg x = { names := csvHeader cfg x, recs := csvRecords cfg x } := by
  unfold scanWhole
  rw [run_eof_eq cfg hs _ {} x {} (x.length + 1) (by omega) (by omega)]
  simp only [rowsE_eq_csvRows cfg hs x]
  unfold assemble csvHeader csvRecords
  by_cases hh : cfg.header = true
  · simp only [hh, Bool.and_true, if_true]
    cases csvRows cfg x with
    | nil => rfl
    | cons h tl => simp
  · simp only [Bool.not_eq_true] at hh
    simp [hh]

end GoawkModel.C08
