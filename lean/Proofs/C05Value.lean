import GoawkModel.C05
/-! C05 helper lemmas, value layer: orders on bytes and on `Num`, the six operators, integer printing. -/
namespace GoawkModel.C05
open GoawkModel

theorem intCmp_swap (a b : Int) : intCmp b a = (intCmp a b).swap := by
  unfold intCmp
  by_cases h1 : a < b <;> by_cases h2 : b < a <;> simp [h1, h2, Ordering.swap] <;> omega

theorem intCmp_eq_iff (a b : Int) : intCmp a b = .eq ↔ a = b := by
  unfold intCmp
  by_cases h1 : a < b <;> by_cases h2 : b < a <;> simp [h1, h2] <;> omega

theorem bytesCmp_swap : ∀ a b : Bytes, bytesCmp b a = (bytesCmp a b).swap
  | [], [] => rfl
  | [], _ :: _ => rfl
  | _ :: _, [] => rfl
  | x :: xs, y :: ys => by
    have ih := bytesCmp_swap xs ys
    unfold bytesCmp
    by_cases h1 : x.toNat < y.toNat <;> by_cases h2 : y.toNat < x.toNat <;> simp [h1, h2, Ordering.swap, ih] <;> omega

theorem bytesCmp_eq_iff : ∀ a b : Bytes, bytesCmp a b = .eq ↔ a = b
  | [], [] => by simp [bytesCmp]
  | [], _ :: _ => by simp [bytesCmp]
  | _ :: _, [] => by simp [bytesCmp]
  | x :: xs, y :: ys => by
    have ih := bytesCmp_eq_iff xs ys
    unfold bytesCmp
    by_cases h1 : x.toNat < y.toNat
    · simp [h1]; intro h; subst h; omega
    · by_cases h2 : y.toNat < x.toNat
      · simp [h1, h2]; intro h; subst h; omega
      · have : x = y := UInt8.toNat_inj.mp (by omega)
        simp [h1, h2, ih, this]

theorem Num.ord_swap (a b : Num) : Num.ord b a = (Num.ord a b).map Ordering.swap := by
  cases a <;> cases b <;> simp [Num.ord, Ordering.swap]
  rename_i x y
  exact intCmp_swap x y

theorem Num.ord_none_iff (a b : Num) : Num.ord a b = none ↔ (a = .nan ∨ b = .nan) := by
  cases a <;> cases b <;> simp [Num.ord]

/-! the operators on an ordering -/

theorem ofOrdering_ne (o : Ordering) : CmpOp.ne.ofOrdering o = !CmpOp.eq.ofOrdering o := by cases o <;> rfl
theorem ofOrdering_le (o : Ordering) : CmpOp.le.ofOrdering o = !CmpOp.gt.ofOrdering o := by cases o <;> rfl
theorem ofOrdering_ge (o : Ordering) : CmpOp.ge.ofOrdering o = !CmpOp.lt.ofOrdering o := by cases o <;> rfl
theorem ofOrdering_lt_swap (o : Ordering) : CmpOp.lt.ofOrdering o = CmpOp.gt.ofOrdering o.swap := by cases o <;> rfl
theorem ofOrdering_le_swap (o : Ordering) : CmpOp.le.ofOrdering o = CmpOp.ge.ofOrdering o.swap := by cases o <;> rfl
theorem ofOrdering_eq_swap (o : Ordering) : CmpOp.eq.ofOrdering o = CmpOp.eq.ofOrdering o.swap := by cases o <;> rfl

/-- exactly one of three Booleans -/
def exactlyOne (a b c : Bool) : Bool := (a && !b && !c) || (!a && b && !c) || (!a && !b && c)

theorem ofOrdering_trichotomy (o : Ordering) :
    exactlyOne (CmpOp.lt.ofOrdering o) (CmpOp.eq.ofOrdering o) (CmpOp.gt.ofOrdering o) = true := by cases o <;> rfl

theorem ofNum_ne (o : Option Ordering) : CmpOp.ne.ofNum o = !CmpOp.eq.ofNum o := by
  cases o with
  | none => rfl
  | some o => exact ofOrdering_ne o

theorem ofNum_lt_swap (o : Option Ordering) : CmpOp.lt.ofNum o = CmpOp.gt.ofNum (o.map Ordering.swap) := by
  cases o with
  | none => rfl
  | some o => exact ofOrdering_lt_swap o

theorem ofNum_le_swap (o : Option Ordering) : CmpOp.le.ofNum o = CmpOp.ge.ofNum (o.map Ordering.swap) := by
  cases o with
  | none => rfl
  | some o => exact ofOrdering_le_swap o

theorem ofNum_eq_swap (o : Option Ordering) : CmpOp.eq.ofNum o = CmpOp.eq.ofNum (o.map Ordering.swap) := by
  cases o with
  | none => rfl
  | some o => exact ofOrdering_eq_swap o

/-! `boolean(b)` is truthy exactly when `b` -/

theorem scale_pos : 0 < scale := by unfold scale; exact Int.pow_pos (by decide)

theorem boolNum_nonzero (b : Bool) : (boolNum b).nonzero = b := by
  have h := scale_pos
  cases b
  · simp [boolNum, Num.nonzero, Num.ofInt, Num.zero, Num.ord, intCmp]
  · have h1 : ¬ (scale < 0) := by omega
    simp [boolNum, Num.nonzero, Num.ofInt, Num.zero, Num.ord, intCmp, h1, h]

/-! integer printing -/

/-- `v.n == float64(int64(v.n))` holds exactly for integral values in the int64 range -/
theorem fin_eq_ofInt_toInt64 (k : Int) :
    Num.fin k = Num.ofInt (toInt64 k) ↔ (scale ∣ k ∧ -(2 ^ 63) * scale ≤ k ∧ k < 2 ^ 63 * scale) := by
  have hs := scale_pos
  have hne : scale ≠ 0 := by omega
  simp only [Num.ofInt, Num.fin.injEq, toInt64]
  constructor
  · intro h
    by_cases hr : -(2 ^ 63) ≤ k.tdiv scale ∧ k.tdiv scale < 2 ^ 63
    · rw [if_pos hr] at h
      refine ⟨⟨_, by rw [Int.mul_comm]; exact h⟩, ?_, ?_⟩
      · rw [h]; exact Int.mul_le_mul_of_nonneg_right hr.1 (by omega)
      · rw [h]; exact Int.mul_lt_mul_of_pos_right hr.2 hs
    · rw [if_neg hr] at h
      exfalso; apply hr
      have : k.tdiv scale = -(2 ^ 63) := by rw [h]; exact Int.mul_tdiv_cancel _ hne
      rw [this]; constructor <;> decide
  · rintro ⟨⟨c, hc⟩, hlo, hhi⟩
    have ht : k.tdiv scale = c := by rw [hc]; exact Int.mul_tdiv_cancel_left c hne
    have hlo' : -(2 ^ 63) ≤ c := by
      apply Int.le_of_mul_le_mul_right (a := scale) _ hs
      rw [Int.mul_comm c, ← hc]; exact hlo
    have hhi' : c < 2 ^ 63 := by
      apply Int.lt_of_mul_lt_mul_right (a := scale) _ (by omega)
      rw [Int.mul_comm c, ← hc]; exact hhi
    rw [ht, if_pos ⟨hlo', hhi'⟩, hc, Int.mul_comm]

end GoawkModel.C05
