import GoawkModel.C07
import Proofs.ScannerChunk
import Proofs.C07Splitters
namespace GoawkModel.C07
open GoawkModel.Scanner

theorem indexByte_split {c : UInt8} {d : Bytes} {i : Nat} (h : indexByte c d = some i) :
    d = d.take i ++ c :: d.drop (i + 1) := by
  induction d generalizing i with
  | nil => simp [indexByte] at h
  | cons b bs ih =>
    simp only [indexByte] at h
    by_cases hbc : b = c
    · simp [hbc] at h; subst h; simp [hbc]
    · simp only [hbc, if_false] at h
      cases hh : indexByte c bs with
      | none => simp [hh] at h
      | some j => simp [hh] at h; subst h; simp; exact ih hh

/-- the matcher reports positions inside the data, start before end -/
def InRange (m : Bytes → Option (Nat × Nat)) : Prop :=
  ∀ d a b, m d = some (a, b) → a ≤ b ∧ b ≤ d.length

/-- a non-empty match that ends strictly inside the data is still *the* match on every extension of the data -/
def MatchStable (m : Bytes → Option (Nat × Nat)) : Prop :=
  ∀ d a b, m d = some (a, b) → a < b → b < d.length → ∀ ext, m (d ++ ext) = some (a, b)

theorem wf_regex (m : Bytes → Option (Nat × Nat)) (hr : InRange m) (hs : MatchStable m) :
    WellFormed (splitRegex m) where
  tokenStable := by
    intro d n r t hd h
    simp only [splitRegex, Bool.false_eq_true, false_and, if_false] at h
    cases hm : m d with
    | none => simp [hm] at h
    | some ab =>
      obtain ⟨a, b⟩ := ab
      simp only [hm] at h
      by_cases hab : a = b
      · simp [hab] at h
      · simp only [ne_eq, hab, not_false_eq_true, if_true, and_true] at h
        by_cases hb : b = d.length
        · simp [hb] at h
        · simp only [hb, if_false] at h
          injection h with h1 h2 h3
          subst h1 h2 h3
          obtain ⟨hle, hlen⟩ := hr d a b hm
          have hlt : a < b := by omega
          refine ⟨by omega, hlen, ?_⟩
          intro ext eof
          have hne : d ++ ext ≠ [] := by simp [hd]
          have hm' := hs d a b hm hlt (by omega) ext
          have hb' : b ≠ (d ++ ext).length := by simp; omega
          simp only [splitRegex, hne, and_false, if_false, hm', ne_eq, hab, not_false_eq_true, if_true, hb', false_and]
          congr 1
          · rw [List.take_append_of_le_length (by omega)]
          · rw [List.drop_append_of_le_length (by omega), List.take_append_of_le_length (by simp; omega)]
  skipInvisible := by
    intro d n _ h
    simp only [splitRegex, Bool.false_eq_true, false_and, if_false] at h
    cases hm : m d with
    | none => simp [hm] at h
    | some ab =>
      obtain ⟨a, b⟩ := ab
      simp only [hm] at h
      by_cases hab : a = b
      · simp [hab] at h
      · simp only [ne_eq, hab, not_false_eq_true, if_true, and_true] at h
        by_cases hb : b = d.length <;> simp [hb] at h

/-- Lossless: with a regex RS every record followed by its RT, concatenated in order, reproduces the input — for any
matcher that reports in-range positions, stable or not. -/
theorem regex_lossless_final (m : Bytes → Option (Nat × Nat)) (hr : InRange m) :
    ∀ x, ((final (splitRegex m) x).map fun p => p.1 ++ p.2).flatten = x := by
  intro x
  induction h : x.length using Nat.strongRecOn generalizing x with
  | ind k ih =>
    by_cases hx : x = []
    · subst hx; rw [final, scan]; simp [splitRegex]
    · rw [final, scan]
      simp only [ne_eq, hx, not_false_eq_true, true_or, if_true]
      simp only [splitRegex, hx, and_false, if_false, if_true]
      have hpos : 0 < x.length := List.length_pos_iff.mpr hx
      cases hm : m x with
      | none =>
        simp only [hpos, Nat.le_refl, and_self, dite_true, List.drop_length]
        rw [scan]; simp [splitRegex]
      | some ab =>
        obtain ⟨a, b⟩ := ab
        obtain ⟨hle, hlen⟩ := hr x a b hm
        by_cases hab : a = b
        · simp only [hab, ne_eq, not_true_eq_false, if_false, hpos, Nat.le_refl, and_self, dite_true, List.drop_length]
          rw [scan]; simp [splitRegex]
        · have hb0 : 0 < b := by omega
          simp only [ne_eq, hab, not_false_eq_true, if_true, Bool.true_eq_false, and_false, if_false, hb0, hlen, and_self, dite_true]
          have := ih (x.length - b) (by omega) (x.drop b) (by simp)
          simp only [final] at this
          simp only [List.map_cons, List.flatten_cons, this]
          have h1 : (x.drop a).take (b - a) = (x.take b).drop a := by
            rw [List.drop_take]
          rw [h1]
          have h2 : x.take a = (x.take b).take a := by
            rw [List.take_take]; congr 1; omega
          rw [h2, List.take_append_drop, List.take_append_drop]

/-- flattening records each followed by the separator byte gives the input, plus one separator iff the input did not end with one -/
theorem byte_lossless_final (c : UInt8) :
    ∀ x, ((final (splitByte c) x).map fun p => p.1 ++ [c]).flatten = if x.getLast? = some c ∨ x = [] then x else x ++ [c] := by
  intro x
  induction h : x.length using Nat.strongRecOn generalizing x with
  | ind k ih =>
    by_cases hx : x = []
    · subst hx; rw [final, scan]; simp [splitByte]
    · rw [final, scan]
      simp only [ne_eq, hx, not_false_eq_true, true_or, if_true, or_false]
      simp only [splitByte, hx, and_false, if_false, if_true]
      have hpos : 0 < x.length := List.length_pos_iff.mpr hx
      cases hi : indexByte c x with
      | none =>
        simp only [hpos, Nat.le_refl, and_self, dite_true, List.drop_length]
        rw [scan]
        simp only [ne_eq, not_true_eq_false, false_or, if_true, splitByte, and_self]
        have hlast : x.getLast? ≠ some c := by
          intro hl
          have hmem : c ∈ x := List.mem_of_getLast? hl
          clear ih h hl hpos hx
          induction x with
          | nil => simp at hmem
          | cons b bs ihx =>
            simp only [indexByte] at hi
            by_cases hbc : b = c
            · simp [hbc] at hi
            · simp only [hbc, if_false] at hi
              cases hh : indexByte c bs with
              | none =>
                have : c ∈ bs := by
                  rcases List.mem_cons.mp hmem with h | h
                  · exact absurd h.symm hbc
                  · exact h
                exact ihx hh this
              | some j => simp [hh] at hi
        simp [hlast]
      | some i =>
        have hlt := indexByte_lt hi
        have hsplit := indexByte_split hi
        have hi1 : 0 < i + 1 ∧ i + 1 ≤ x.length := by omega
        simp only [hi1, and_self, dite_true]
        have := ih (x.length - (i + 1)) (by omega) (x.drop (i + 1)) (by simp)
        simp only [final] at this
        simp only [List.map_cons, List.flatten_cons, this]
        by_cases hr : x.drop (i + 1) = []
        · simp only [hr, or_true, if_true, List.append_nil]
          have hx' : x = x.take i ++ [c] := by rw [hr] at hsplit; exact hsplit
          have : x.getLast? = some c := by rw [hx']; simp
          simp only [this, if_true]
          exact hx'.symm
        · have hl : x.getLast? = (x.drop (i + 1)).getLast? := by
            conv => lhs; rw [hsplit]
            rw [List.getLast?_append]
            have : (c :: x.drop (i + 1)).getLast? = (x.drop (i + 1)).getLast? := by
              cases hd : x.drop (i + 1) with
              | nil => exact absurd hd hr
              | cons y ys => simp [List.getLast?_cons_cons]
            rw [this]
            cases hh : (x.drop (i + 1)).getLast? with
            | none => exact absurd (List.getLast?_eq_none_iff.mp hh) hr
            | some v => simp
          simp only [hr, or_false]
          rw [← hl]
          by_cases hc : x.getLast? = some c
          · simp only [hc, if_true]
            conv => rhs; rw [hsplit]
            simp
          · simp only [hc, if_false]
            conv => rhs; rw [hsplit]
            simp
end GoawkModel.C07
