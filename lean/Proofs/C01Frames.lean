import Proofs.C01StmtSim
import GoawkModel.C01Frames
/-!
# C01 — user calls: the VM with frames on the value stack refines the framed reference semantics
-/
namespace GoawkModel.C01

theorem mkSem_laws {B : Base} (L : Laws B.S) (cf) : Laws (mkSem B cf) where
  toBool_ofBool := L.toBool_ofBool
  cmp_ne a b w := L.cmp_ne a b w.2
  fieldInt c n w h := L.fieldInt c n w.2 h
  idx_get c n sc a w h :=
    congrArg (fun r : B.S.V × B.S.W => (r.1, (w.1, r.2))) (L.idx_get c n .global (arrIdOf w.1.larrs sc a) w.2 h)
  idx_set c n sc a v w h :=
    congrArg (fun x : B.S.W => (w.1, x)) (L.idx_set c n .global (arrIdOf w.1.larrs sc a) v w.2 h)
  idx_in c n sc a w h := L.idx_in c n .global _ w.2 h
  idx_multi_l c n v w h := L.idx_multi_l c n v w.2 h
  idx_multi_r c n u w h := L.idx_multi_r c n u w.2 h
  concat_stable a b w w' := L.concat_stable a b w.2 w'.2
  concatMulti_spec v1 v2 rest w := L.concatMulti_spec v1 v2 rest w.2

theorem mkSem_stmtLaws {B : Base} (M : StmtLaws B.S) (cf) : StmtLaws (mkSem B cf) where
  aug_eq := M.aug_eq
  incr_eq := M.incr_eq
  incr_plus := M.incr_plus
  set_get sc a i x w :=
    congrArg (fun y : B.S.W => (w.1, y)) (M.set_get .global (arrIdOf w.1.larrs sc a) i x w.2)

variable {B : Base}

/-- the frame descriptor of a frame lying above `below` on the stack -/
def fiOf (fr : Frame B.S.V) (below : List B.S.V) : FInfo := ⟨below.length, fr.locals.length, fr.larrs, fr.depth⟩

theorem getLocal_frame (tmp L below : List B.S.V) (la : List Nat) (d k : Nat) :
    getLocal B (tmp ++ L.reverse ++ below) ⟨below.length, L.length, la, d⟩ k = L.getD k B.S.nullV := by
  unfold getLocal
  by_cases hk : k < L.length
  · simp only [hk, if_true, List.reverse_append, List.reverse_reverse]
    rw [List.getD_eq_getElem?_getD, List.getD_eq_getElem?_getD]
    rw [List.getElem?_append_right (by simp)]
    simp [List.getElem?_append_left, hk]
  · simp only [hk, if_false]
    rw [List.getD_eq_getElem?_getD, List.getElem?_eq_none (by omega)]; rfl

theorem setLocal_frame (tmp L below : List B.S.V) (la : List Nat) (d k : Nat) (v : B.S.V) :
    setLocal B (tmp ++ L.reverse ++ below) ⟨below.length, L.length, la, d⟩ k v = tmp ++ (L.set k v).reverse ++ below := by
  unfold setLocal
  by_cases hk : k < L.length
  · simp only [hk, if_true, List.reverse_append, List.reverse_reverse]
    rw [List.set_append_right _ _ (by simp)]
    simp [List.set_append_left, hk]
  · simp only [hk, if_false]
    rw [List.set_eq_of_length_le (by omega)]

@[simp] theorem getLocal_frame' (tmp L below : List B.S.V) (la : List Nat) (d k : Nat) :
    getLocal B (tmp ++ (L.reverse ++ below)) ⟨below.length, L.length, la, d⟩ k = L[k]?.getD B.S.nullV := by
  rw [← List.append_assoc, getLocal_frame, List.getD_eq_getElem?_getD]

@[simp] theorem setLocal_frame' (tmp L below : List B.S.V) (la : List Nat) (d k : Nat) (v : B.S.V) :
    setLocal B (tmp ++ (L.reverse ++ below)) ⟨below.length, L.length, la, d⟩ k v = tmp ++ ((L.set k v).reverse ++ below) := by
  rw [← List.append_assoc, setLocal_frame, List.append_assoc]

def SameShape (fr fr' : Frame B.S.V) : Prop :=
  fr'.locals.length = fr.locals.length ∧ fr'.larrs = fr.larrs ∧ fr'.depth = fr.depth

/-- an effect of the framed semantics, seen on the VM whose frame lies on the stack above `below` -/
abbrev CallF (B : Base) := Nat → List B.S.V → List (AScope × Nat) → FW B → Option (B.S.V × FW B)

/-- the operand stack of the framed semantics on top of its frame's slots on top of the rest of the real stack -/
def onFrame (t : List B.S.V) (fw : FW B) (below : List B.S.V) : List B.S.V := t ++ fw.1.locals.reverse ++ below

def liftEff {cf : CallF B} (below : List B.S.V) : Eff (mkSem B cf) → Eff B.S
  | .next t fw => .next (onFrame t fw below) (fw : FW B).2
  | .jump o t fw => .jump o (onFrame t fw below) (fw : FW B).2
  | .stopNext fw => .stopNext (fw : FW B).2
  | .stopExit fw => .stopExit (fw : FW B).2
  | .stopRet v fw => .stopRet (v : B.S.V) (fw : FW B).2

def effShape {cf : CallF B} (fr : Frame B.S.V) : Eff (mkSem B cf) → Prop
  | .next _ fw => SameShape fr (fw : FW B).1
  | .jump _ _ fw => SameShape fr (fw : FW B).1
  | .stopNext fw => SameShape fr (fw : FW B).1
  | .stopExit fw => SameShape fr (fw : FW B).1
  | .stopRet _ fw => SameShape fr (fw : FW B).1

/-- what one instruction (not `CallUser`) of the framed semantics does, the VM with the frame on the stack does too -/
def StepOK {cf : CallF B} (i : Instr) (tmp : List B.S.V) (fr : Frame B.S.V) (w : B.S.W) (below : List B.S.V) : Prop :=
  ∀ eff, execInstr (mkSem B cf) i tmp (fr, w) = some eff →
    execInstrR B (fiOf fr below) i (tmp ++ fr.locals.reverse ++ below) w = some (liftEff below eff) ∧ effShape fr eff

set_option hygiene false in
macro "step_tac" : tactic => `(tactic| (
  intro eff h
  simp [execInstr, mkSem, condJump, Option.map_eq_some_iff, Option.bind_eq_some_iff] at h <;>
  ((repeat (obtain ⟨_, h⟩ := h)); subst h;
   simp [execInstr, execInstrR, resolveInstr, mkSem, liftEff, onFrame, effShape, SameShape, fiOf, condJump, apply_ite, *])))


set_option hygiene false in
macro "step_tac" : tactic => `(tactic| (
  intro eff h
  simp [execInstr, mkSem, condJump] at h <;>
  ((first
      | (have h2 := Option.some.inj h; subst h2)
      | (obtain ⟨_, _, h2⟩ := Option.map_eq_some_iff.mp h; subst h2)
      | (obtain ⟨_, _, h3⟩ := Option.bind_eq_some_iff.mp h; first
          | (have h2 := Option.some.inj h3; subst h2)
          | (obtain ⟨_, _, h2⟩ := Option.map_eq_some_iff.mp h3; subst h2)
          | (obtain ⟨_, _, h4⟩ := Option.bind_eq_some_iff.mp h3; first
              | (have h2 := Option.some.inj h4; subst h2)
              | (obtain ⟨_, _, h2⟩ := Option.map_eq_some_iff.mp h4; subst h2))));
   simp [execInstr, execInstrR, resolveInstr, mkSem, liftEff, onFrame, effShape, SameShape, fiOf, condJump, apply_ite, *];
   try (rename_i hm; obtain ⟨_, hx, rfl⟩ := Option.map_eq_some_iff.mp hm; simp [hx]);
   try (split <;> simp_all [liftEff, onFrame, effShape, SameShape]))))

theorem step_ok {cf : CallF B} (i : Instr) (hi : ∀ f n r, i ≠ .callUser f n r) (tmp : List B.S.V) (fr : Frame B.S.V) (w : B.S.W)
    (below : List B.S.V) : StepOK (cf := cf) i tmp fr w below := by
  unfold StepOK
  cases i with
  | callUser f n r => exact absurd rfl (hi f n r)
  | getVar sc k => cases sc <;> step_tac
  | assignVar sc k => cases sc <;> rcases tmp with _ | ⟨a, t⟩ <;> step_tac
  | incrVar sc dec k => cases sc <;> step_tac
  | augVar sc op k => cases sc <;> rcases tmp with _ | ⟨a, t⟩ <;> step_tac
  | nulls k =>
    intro eff h
    simp only [execInstr] at h
    have h2 := Option.some.inj h; subst h2
    simp [execInstrR, resolveInstr, execInstr, mkSem, liftEff, onFrame, effShape, SameShape, fiOf]
    exact (List.append_assoc _ _ _).symm
  | indexMulti n =>
    intro eff h
    simp only [execInstr] at h
    split at h
    · rename_i hn
      have h2 := Option.some.inj h; subst h2
      have hn' : n ≤ tmp.length := hn
      simp [execInstrR, resolveInstr, execInstr, mkSem, liftEff, onFrame, effShape, SameShape, fiOf,
        List.take_append_of_le_length hn', List.drop_append_of_le_length hn']
      try omega
    · simp at h
  | concatMulti n =>
    intro eff h
    simp only [execInstr] at h
    split at h
    · rename_i hn
      have h2 := Option.some.inj h; subst h2
      have hn' : n ≤ tmp.length := hn
      simp [execInstrR, resolveInstr, execInstr, mkSem, liftEff, onFrame, effShape, SameShape, fiOf,
        List.take_append_of_le_length hn', List.drop_append_of_le_length hn']
      try omega
    · simp at h
  | print n =>
    intro eff h
    simp only [execInstr] at h
    split at h
    · rename_i hn
      obtain ⟨fw2, hp, h2⟩ := Option.map_eq_some_iff.mp h; subst h2
      obtain ⟨w2, hp2, rfl⟩ := Option.map_eq_some_iff.mp hp
      have hn' : n ≤ tmp.length := hn
      simp [execInstrR, resolveInstr, execInstr, mkSem, liftEff, onFrame, effShape, SameShape, fiOf,
        List.take_append_of_le_length hn', List.drop_append_of_le_length hn', hp2]
      exact ⟨by omega, hp2⟩
    · simp at h
  | _ => rcases tmp with _ | ⟨a, _ | ⟨b, _ | ⟨c, t⟩⟩⟩ <;> step_tac

/-- a state of the framed semantics as a state of the VM whose stack continues with `below` under the frame -/
def liftSt {cf : CallF B} (below : List B.S.V) (a : St (mkSem B cf)) : RSt B :=
  ⟨a.pc, onFrame a.stk a.w below, fiOf (a.w : FW B).1 below, (a.w : FW B).2⟩

theorem cons_app3 {α} (v : α) (d x b : List α) : v :: (d ++ (x ++ b)) = v :: d ++ x ++ b := by simp

theorem fiOf_shape {fr fr' : Frame B.S.V} (h : SameShape fr fr') (below : List B.S.V) : fiOf fr' below = fiOf fr below := by
  obtain ⟨h1, h2, h3⟩ := h
  simp [fiOf, h1, h2, h3]

theorem SameShape.refl (fr : Frame B.S.V) : SameShape fr fr := ⟨rfl, rfl, rfl⟩
theorem SameShape.trans {a b c : Frame B.S.V} (h1 : SameShape a b) (h2 : SameShape b c) : SameShape a c :=
  ⟨h2.1.trans h1.1, h2.2.1.trans h1.2.1, h2.2.2.trans h1.2.2⟩

variable (FT : FunTable)

/-- the refinement statement for call-nesting fuel `n` -/
def Refines (B : Base) (FT : FunTable) (n : Nat) : Prop :=
  ∀ (C : Code) (a b : St (FS B FT n)), Reach (FS B FT n) C a b →
    SameShape (a.w : FW B).1 (b.w : FW B).1 ∧
    ∀ below out, RBig B FT C (liftSt below b) out → RBig B FT C (liftSt below a) out

theorem callN_frame (n : Nat) (f : Nat) (vs : List B.S.V) (refs : List (AScope × Nat)) (fw : FW B) (r : B.S.V × FW B)
    (h : callN B FT n f vs refs fw = some r) : r.2.1 = fw.1 := by
  cases n with
  | zero => simp [callN] at h
  | succ k =>
    simp only [callN, callBody] at h
    split at h
    · simp at h
    · split at h
      · simp at h
      · split at h <;> simp at h <;> (subst h; rfl)

theorem step_refines (L : Laws B.S) (M : StmtLaws B.S) (hFT : ∀ fn ∈ FT, fn.body.WF) (n : Nat)
    (hcall : ∀ k, n = k + 1 → Refines B FT k) (C : Code) (pc : Nat) (tmp : List B.S.V) (fr : Frame B.S.V) (w : B.S.W)
    (b : St (FS B FT n)) (hs : stepTo (FS B FT n) C ⟨pc, tmp, (fr, w)⟩ = some b) :
    SameShape fr (b.w : FW B).1 ∧
    ∀ below out, RBig B FT C (liftSt below b) out →
      RBig B FT C (liftSt (cf := callN B FT n) below ⟨pc, tmp, (fr, w)⟩) out := by
  simp only [stepTo] at hs
  split at hs
  · simp at hs
  · rename_i i hf
    by_cases hi : ∀ f m r, i ≠ .callUser f m r
    · -- an ordinary instruction
      split at hs
      · rename_i s' w' he
        simp only [Option.some.injEq] at hs; subst hs
        obtain ⟨hr, hsh⟩ := step_ok (cf := callN B FT n) i hi tmp fr w
          (below := ([] : List B.S.V)) _ he
        refine ⟨hsh, fun below out hb => ?_⟩
        obtain ⟨hr, _⟩ := step_ok (cf := callN B FT n) i hi tmp fr w below _ he
        refine RBig.step (i := i) (s' := onFrame s' w' below) (w' := (w' : FW B).2) hf hr ?_
        have := fiOf_shape hsh below
        simpa [liftSt, this] using hb
      · rename_i off s' w' he
        simp only [Option.some.injEq] at hs; subst hs
        obtain ⟨hr, hsh⟩ := step_ok (cf := callN B FT n) i hi tmp fr w
          (below := ([] : List B.S.V)) _ he
        refine ⟨hsh, fun below out hb => ?_⟩
        obtain ⟨hr, _⟩ := step_ok (cf := callN B FT n) i hi tmp fr w below _ he
        refine RBig.jump (i := i) (off := off) (s' := onFrame s' w' below) (w' := (w' : FW B).2) hf hr ?_
        have := fiOf_shape hsh below
        simpa [liftSt, this] using hb
      · simp at hs
    · -- CallUser
      have : ∃ f m r, i = .callUser f m r := by
        cases i <;> first | exact ⟨_, _, _, rfl⟩ | (exfalso; apply hi; intro f m r h; cases h)
      obtain ⟨f, nsc, refs, rfl⟩ := this
      have hex : execInstr (FS B FT n) (.callUser f nsc refs) tmp (fr, w) =
          if nsc ≤ tmp.length then
            (callN B FT n f (tmp.take nsc).reverse refs (fr, w)).map (fun r => Eff.next (S := FS B FT n) (r.1 :: tmp.drop nsc) r.2)
          else none := rfl
      rw [hex] at hs
      by_cases hle : nsc ≤ tmp.length
      · rw [if_pos hle] at hs
        cases hcl : callN B FT n f (tmp.take nsc).reverse refs (fr, w) with
        | none => rw [hcl] at hs; simp at hs
        | some r =>
          rw [hcl] at hs
          simp only [Option.map, Option.some.injEq] at hs
          subst hs
          have hfr := callN_frame FT n f _ refs (fr, w) r hcl
          refine ⟨by rw [show (r.2 : FW B).1 = fr from hfr]; exact SameShape.refl fr, fun below out hb => ?_⟩
          cases n with
          | zero => simp [callN] at hcl
          | succ k =>
            have ihk := hcall k rfl
            simp only [callN, callBody] at hcl
            cases hfn : FT[f]? with
            | none => simp [hfn] at hcl
            | some fn =>
              simp only [hfn] at hcl
              split at hcl
              · simp at hcl
              · rename_i hcond
                have hd : fr.depth < maxDepth := by
                  have : ¬ maxDepth ≤ fr.depth := fun h => hcond (Or.inl h)
                  omega
                have hns : nsc = fn.numScalars := by
                  have : ¬ (List.take nsc tmp).reverse.length ≠ fn.numScalars := fun h => hcond (Or.inr (Or.inl h))
                  simp at this; omega
                have hna : refs.length ≤ fn.numArrays := by
                  have : ¬ fn.numArrays < refs.length := fun h => hcond (Or.inr (Or.inr h))
                  omega
                have hwf : fn.body.WF := hFT fn (List.mem_of_getElem? hfn)
                -- names for the pieces of the call
                have hvl : (List.take nsc tmp).reverse.length = fn.numScalars := by simp; omega
                generalize hal : allocArrays B (fn.numArrays - refs.length) w = al at hcl
                generalize hfr' : (⟨(List.take nsc tmp).reverse, refs.map (fun r => arrIdOf fr.larrs r.1 r.2) ++ al.1, fr.depth + 1⟩ :
                  Frame B.S.V) = fr' at hcl
                let below' : List B.S.V := tmp.drop nsc ++ fr.locals.reverse ++ below
                have hcs : calleeSt B fn refs (liftSt (cf := callN B FT (k + 1)) below ⟨pc, tmp, (fr, w)⟩) =
                    liftSt (cf := callN B FT k) below' ⟨0, [], (fr', al.2)⟩ := by
                  subst hfr'
                  simp only [calleeSt, liftSt, onFrame, fiOf, hal, List.reverse_reverse, List.nil_append, below']
                  have e1 : tmp ++ fr.locals.reverse ++ below =
                      List.take nsc tmp ++ (List.drop nsc tmp ++ fr.locals.reverse ++ below) := by
                    rw [← List.append_assoc, ← List.append_assoc, List.take_append_drop]
                  have e2 : (tmp ++ fr.locals.reverse ++ below).length - fn.numScalars =
                      (List.drop nsc tmp ++ fr.locals.reverse ++ below).length := by
                    simp; omega
                  rw [e2]
                  congr 1
                  · simp [hvl]
                have hlen : fn.numScalars ≤ (liftSt (cf := callN B FT (k + 1)) below ⟨pc, tmp, (fr, w)⟩).stk.length := by
                  simp [liftSt, onFrame]; omega
                have simB := (stmt_sim (mkSem_laws L (callN B FT k)) (mkSem_stmtLaws M (callN B FT k)) k).1 fn.body 0 0
                  ([] : List B.S.V) (fr', al.2)
                cases hx : exec (mkSem B (callN B FT k)) k fn.body (fr', al.2) with
                | none => simp [hx] at hcl
                | some o =>
                  rw [hx] at hcl
                  cases o with
                  | ret v fw2 =>
                    simp only [Option.some.injEq] at hcl; subst hcl
                    have sim := simB _ hwf hx
                    obtain ⟨st', hreach, hw', hcase⟩ := sim (cStmt 0 0 fn.body) 0 (CodeAt.whole _)
                    obtain ⟨hsh, hlift⟩ := ihk (cStmt 0 0 fn.body) _ st' hreach
                    have hsh' : SameShape fr' (fw2 : FW B).1 := by rw [← hw']; exact hsh
                    have hcallee : RBig B FT (cStmt 0 0 fn.body) (liftSt (cf := callN B FT k) below' ⟨0, [], (fr', al.2)⟩)
                        (.ret v ((fw2 : FW B).1.locals.reverse ++ below') (fw2 : FW B).2) := by
                      refine hlift below' _ ?_
                      rcases hcase with ⟨hfe, hstk⟩ | ⟨hfe, hstk, hv⟩
                      · have := RBig.ret (B := B) (FT := FT) (C := cStmt 0 0 fn.body)
                          (st := liftSt (cf := callN B FT k) below' st') (v := v)
                          (s := (fw2 : FW B).1.locals.reverse ++ below') hfe
                          (by show onFrame st'.stk st'.w below' = _; rw [hstk, hw']; rfl)
                        simpa [liftSt, hw'] using this
                      · have := RBig.retNull (B := B) (FT := FT) (C := cStmt 0 0 fn.body)
                          (st := liftSt (cf := callN B FT k) below' st') hfe
                        rw [hv]
                        have h2 : RBig B FT (cStmt 0 0 fn.body) (liftSt (cf := callN B FT k) below' st')
                            (ROut.ret B.S.nullV ((fw2 : FW B).1.locals.reverse ++ below') (fw2 : FW B).2) := by
                          simpa [liftSt, onFrame, hstk, hw'] using this
                        exact h2
                    rw [← hcs] at hcallee
                    refine RBig.callRet (f := f) (nsc := nsc) (refs := refs) hf hfn hd hlen hna hcallee ?_
                    have e3 : ((fw2 : FW B).1.locals.reverse ++ below').drop fn.numScalars = below' := by
                      have : (fw2 : FW B).1.locals.reverse.length = fn.numScalars := by
                        rw [List.length_reverse, hsh'.1, ← hfr']; exact hvl
                      rw [← this, List.drop_left]
                    have hgoal : afterCall B fn (.callUser f nsc refs) (liftSt (cf := callN B FT (k + 1)) below ⟨pc, tmp, (fr, w)⟩) v
                        ((fw2 : FW B).1.locals.reverse ++ below') (fw2 : FW B).2 =
                        liftSt (cf := callN B FT (k + 1)) below ⟨pc + (Instr.callUser f nsc refs).size, v :: tmp.drop nsc,
                          (fr, B.arrTrunc (B.arrCount w) (fw2 : FW B).2)⟩ := by
                      simp only [afterCall, liftSt, onFrame, fiOf]
                      rw [e3]
                      simp only [below', List.cons_append, List.append_assoc]
                      first | done | rfl | exact congrArg (fun s : List B.S.V => (⟨_, s, _, _⟩ : RSt B)) (cons_app3 (α := B.S.V) _ _ _ _)
                    rw [hgoal]; exact hb
                  | normal fw2 =>
                    simp only [Option.some.injEq] at hcl; subst hcl
                    have sim := simB _ hwf hx
                    have hreach := sim (cStmt 0 0 fn.body) 0 (CodeAt.whole _)
                    obtain ⟨hsh, hlift⟩ := ihk (cStmt 0 0 fn.body) _ _ hreach
                    have hcallee : RBig B FT (cStmt 0 0 fn.body) (liftSt (cf := callN B FT k) below' ⟨0, [], (fr', al.2)⟩)
                        (.normal ((fw2 : FW B).1.locals.reverse ++ below') (fw2 : FW B).2) := by
                      refine hlift below' _ ?_
                      have := RBig.done (B := B) (FT := FT) (C := cStmt 0 0 fn.body)
                        (st := liftSt (cf := callN B FT k) below' ⟨0 + stmtSize fn.body, [], fw2⟩) (by simp [liftSt])
                      exact this
                    rw [← hcs] at hcallee
                    refine RBig.callNormal (f := f) (nsc := nsc) (refs := refs) hf hfn hd hlen hna hcallee ?_
                    have e3 : ((fw2 : FW B).1.locals.reverse ++ below').drop fn.numScalars = below' := by
                      have : (fw2 : FW B).1.locals.reverse.length = fn.numScalars := by
                        rw [List.length_reverse, hsh.1, ← hfr']; exact hvl
                      rw [← this, List.drop_left]
                    have hgoal : afterCall B fn (.callUser f nsc refs) (liftSt (cf := callN B FT (k + 1)) below ⟨pc, tmp, (fr, w)⟩) B.S.nullV
                        ((fw2 : FW B).1.locals.reverse ++ below') (fw2 : FW B).2 =
                        liftSt (cf := callN B FT (k + 1)) below ⟨pc + (Instr.callUser f nsc refs).size, B.S.nullV :: tmp.drop nsc,
                          (fr, B.arrTrunc (B.arrCount w) (fw2 : FW B).2)⟩ := by
                      simp only [afterCall, liftSt, onFrame, fiOf]
                      rw [e3]
                      simp only [below', List.cons_append, List.append_assoc]
                      first | done | rfl | exact congrArg (fun s : List B.S.V => (⟨_, s, _, _⟩ : RSt B)) (cons_app3 (α := B.S.V) _ _ _ _)
                    rw [hgoal]; exact hb
                  | brk _ => simp at hcl
                  | cont _ => simp at hcl
                  | next _ => simp at hcl
                  | exit _ => simp at hcl
      · rw [if_neg hle] at hs; simp at hs

theorem refines_of (L : Laws B.S) (M : StmtLaws B.S) (hFT : ∀ fn ∈ FT, fn.body.WF) (n : Nat)
    (hcall : ∀ k, n = k + 1 → Refines B FT k) : Refines B FT n := by
  intro C a b hr
  induction hr with
  | refl st => exact ⟨SameShape.refl _, fun _ _ h => h⟩
  | @step a m c hs _ ih =>
    obtain ⟨pc, tmp, fw⟩ := a
    obtain ⟨h1, h2⟩ := step_refines FT L M hFT n hcall C pc tmp (fw : FW B).1 (fw : FW B).2 m hs
    exact ⟨h1.trans ih.1, fun below out h => h2 below out (ih.2 below out h)⟩

/-- the VM with frames on the value stack does whatever the VM over the framed semantics does (all call depths) -/
theorem refines_all (L : Laws B.S) (M : StmtLaws B.S) (hFT : ∀ fn ∈ FT, fn.body.WF) : ∀ n, Refines B FT n := by
  intro n
  induction n with
  | zero => exact refines_of FT L M hFT 0 (fun k h => by omega)
  | succ k ih =>
    refine refines_of FT L M hFT (k + 1) (fun j h => ?_)
    have hj : j = k := by omega
    subst hj; exact ih

/-- the top-level frame: no locals, no local arrays, call depth 0 -/
def topFrame (B : Base) : Frame B.S.V := ⟨[], [], 0⟩
def topInfo : FInfo := ⟨0, 0, [], 0⟩

/-- **compile_call_correct**: a whole block of a program with user functions. If direct evaluation of the syntax tree under
the framed semantics (call-nesting fuel `n`, statement fuel `m`) ends normally / with `next` / with `exit`, then the VM with
frames on its value stack, started on the compiled block with an empty stack, ends the same way with the same world. -/
theorem compile_call_correct (L : Laws B.S) (M : StmtLaws B.S) (hFT : ∀ fn ∈ FT, fn.body.WF) (n m : Nat) (p : Stmt)
    (hp : p.WF) (w : B.S.W) :
    (∀ fw', exec (FS B FT n) m p (topFrame B, w) = some (.normal fw') →
      RBig B FT (cStmt 0 0 p) ⟨0, [], topInfo, w⟩ (.normal [] (fw' : FW B).2)) ∧
    (∀ fw', exec (FS B FT n) m p (topFrame B, w) = some (.next fw') →
      RBig B FT (cStmt 0 0 p) ⟨0, [], topInfo, w⟩ (.next (fw' : FW B).2)) ∧
    (∀ fw', exec (FS B FT n) m p (topFrame B, w) = some (.exit fw') →
      RBig B FT (cStmt 0 0 p) ⟨0, [], topInfo, w⟩ (.exit (fw' : FW B).2)) := by
  have sim := fun o => (stmt_sim (mkSem_laws L (callN B FT n)) (mkSem_stmtLaws M (callN B FT n)) m).1 p 0 0
    ([] : List B.S.V) (topFrame B, w) o hp
  have hC : CodeAt (cStmt 0 0 p) 0 (cStmt 0 0 p) := CodeAt.whole _
  refine ⟨?_, ?_, ?_⟩
  · intro fw' h
    have r := sim _ h (cStmt 0 0 p) 0 hC
    obtain ⟨hsh, hl⟩ := refines_all FT L M hFT n (cStmt 0 0 p) _ _ r
    have hloc : (fw' : FW B).1.locals = [] := by
      have := hsh.1; simp [topFrame] at this; exact this
    have := hl [] _ (RBig.done (B := B) (FT := FT) (C := cStmt 0 0 p)
      (st := liftSt (cf := callN B FT n) [] ⟨0 + stmtSize p, [], fw'⟩) (by simp [liftSt]))
    have h2 : RBig B FT (cStmt 0 0 p) ⟨0, [], topInfo, w⟩
        (.normal ([] ++ (fw' : FW B).1.locals.reverse ++ []) (fw' : FW B).2) := this
    simpa [hloc] using h2
  · intro fw' h
    have r := sim _ h (cStmt 0 0 p) 0 hC
    obtain ⟨st', i, e, hr, hf, he, ho⟩ := r
    obtain ⟨hsh, hl⟩ := refines_all FT L M hFT n (cStmt 0 0 p) _ _ hr
    have hi : ∀ f m r, i ≠ .callUser f m r := by
      intro f m r hh; subst hh
      simp only [ex_callUser] at he
      split at he
      · obtain ⟨x, _, hx⟩ := Option.map_eq_some_iff.mp he; subst hx; simp [stopOf] at ho
      · simp at he
    obtain ⟨pc', tmp', fwp⟩ := st'
    obtain ⟨hr2, _⟩ := step_ok (cf := callN B FT n) i hi tmp' (fwp : FW B).1 (fwp : FW B).2 [] e he
    cases e <;> simp [stopOf] at ho
    subst ho
    have := hl [] _ (RBig.stopNext (B := B) (FT := FT) (C := cStmt 0 0 p)
      (st := liftSt (cf := callN B FT n) [] ⟨pc', tmp', fwp⟩) (i := i) hf hr2)
    exact this
  · intro fw' h
    have r := sim _ h (cStmt 0 0 p) 0 hC
    obtain ⟨st', i, e, hr, hf, he, ho⟩ := r
    obtain ⟨hsh, hl⟩ := refines_all FT L M hFT n (cStmt 0 0 p) _ _ hr
    have hi : ∀ f m r, i ≠ .callUser f m r := by
      intro f m r hh; subst hh
      simp only [ex_callUser] at he
      split at he
      · obtain ⟨x, _, hx⟩ := Option.map_eq_some_iff.mp he; subst hx; simp [stopOf] at ho
      · simp at he
    obtain ⟨pc', tmp', fwp⟩ := st'
    obtain ⟨hr2, _⟩ := step_ok (cf := callN B FT n) i hi tmp' (fwp : FW B).1 (fwp : FW B).2 [] e he
    cases e <;> simp [stopOf] at ho
    subst ho
    have := hl [] _ (RBig.stopExit (B := B) (FT := FT) (C := cStmt 0 0 p)
      (st := liftSt (cf := callN B FT n) [] ⟨pc', tmp', fwp⟩) (i := i) hf hr2)
    exact this

end GoawkModel.C01
