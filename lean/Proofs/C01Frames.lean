import Proofs.C01StmtSim
import GoawkModel.C01Frames
/-!
# C01 — user calls: the VM with frames on the value stack refines the framed reference semantics
-/
namespace GoawkModel.C01

theorem mkSem_laws {B : Base} (L : Laws B.S) (cf) : Laws (mkSem B cf) where
  toBool_ofBool := L.toBool_ofBool
  cmp_ne a b w := L.cmp_ne a b w.2
  fieldInt c n w h := L.fieldInt c n w.2 h
  idx_get c n sc a w h :=
    congrArg (fun r : B.S.V × B.S.W => (r.1, (w.1, r.2))) (L.idx_get c n .global (arrIdOf w.1.larrs sc a) w.2 h)
  idx_set c n sc a v w h :=
    congrArg (fun x : B.S.W => (w.1, x)) (L.idx_set c n .global (arrIdOf w.1.larrs sc a) v w.2 h)
  idx_in c n sc a w h := L.idx_in c n .global _ w.2 h
  idx_multi_l c n v w h := L.idx_multi_l c n v w.2 h
  idx_multi_r c n u w h := L.idx_multi_r c n u w.2 h
  concat_stable a b w w' := L.concat_stable a b w.2 w'.2
  concatMulti_spec v1 v2 rest w := L.concatMulti_spec v1 v2 rest w.2

theorem mkSem_stmtLaws {B : Base} (M : StmtLaws B.S) (cf) : StmtLaws (mkSem B cf) where
  aug_eq := M.aug_eq
  incr_eq := M.incr_eq
  incr_plus := M.incr_plus
  set_get sc a i x w :=
    congrArg (fun y : B.S.W => (w.1, y)) (M.set_get .global (arrIdOf w.1.larrs sc a) i x w.2)

variable {B : Base}

/-- the frame descriptor of a frame lying above `below` on the stack -/
def fiOf (fr : Frame B.S.V) (below : List B.S.V) : FInfo := ⟨below.length, fr.locals.length, fr.larrs, fr.depth⟩

theorem getLocal_frame (tmp L below : List B.S.V) (la : List Nat) (d k : Nat) :
    getLocal B (tmp ++ L.reverse ++ below) ⟨below.length, L.length, la, d⟩ k = L.getD k B.S.nullV := by
  unfold getLocal
  by_cases hk : k < L.length
  · simp only [hk, if_true, List.reverse_append, List.reverse_reverse]
    rw [List.getD_eq_getElem?_getD, List.getD_eq_getElem?_getD]
    rw [List.getElem?_append_right (by simp)]
    simp [List.getElem?_append_left, hk]
  · simp only [hk, if_false]
    rw [List.getD_eq_getElem?_getD, List.getElem?_eq_none (by omega)]; rfl

theorem setLocal_frame (tmp L below : List B.S.V) (la : List Nat) (d k : Nat) (v : B.S.V) :
    setLocal B (tmp ++ L.reverse ++ below) ⟨below.length, L.length, la, d⟩ k v = tmp ++ (L.set k v).reverse ++ below := by
  unfold setLocal
  by_cases hk : k < L.length
  · simp only [hk, if_true, List.reverse_append, List.reverse_reverse]
    rw [List.set_append_right _ _ (by simp)]
    simp [List.set_append_left, hk]
  · simp only [hk, if_false]
    rw [List.set_eq_of_length_le (by omega)]

@[simp] theorem getLocal_frame' (tmp L below : List B.S.V) (la : List Nat) (d k : Nat) :
    getLocal B (tmp ++ (L.reverse ++ below)) ⟨below.length, L.length, la, d⟩ k = L[k]?.getD B.S.nullV := by
  rw [← List.append_assoc, getLocal_frame, List.getD_eq_getElem?_getD]

@[simp] theorem setLocal_frame' (tmp L below : List B.S.V) (la : List Nat) (d k : Nat) (v : B.S.V) :
    setLocal B (tmp ++ (L.reverse ++ below)) ⟨below.length, L.length, la, d⟩ k v = tmp ++ ((L.set k v).reverse ++ below) := by
  rw [← List.append_assoc, setLocal_frame, List.append_assoc]

def SameShape (fr fr' : Frame B.S.V) : Prop :=
  fr'.locals.length = fr.locals.length ∧ fr'.larrs = fr.larrs ∧ fr'.depth = fr.depth

/-- an effect of the framed semantics, seen on the VM whose frame lies on the stack above `below` -/
abbrev CallF (B : Base) := Nat → List B.S.V → List (AScope × Nat) → FW B → Option (B.S.V × FW B)

/-- the operand stack of the framed semantics on top of its frame's slots on top of the rest of the real stack -/
def onFrame (t : List B.S.V) (fw : FW B) (below : List B.S.V) : List B.S.V := t ++ fw.1.locals.reverse ++ below

def liftEff {cf : CallF B} (below : List B.S.V) : Eff (mkSem B cf) → Eff B.S
  | .next t fw => .next (onFrame t fw below) (fw : FW B).2
  | .jump o t fw => .jump o (onFrame t fw below) (fw : FW B).2
  | .stopNext fw => .stopNext (fw : FW B).2
  | .stopExit fw => .stopExit (fw : FW B).2
  | .stopRet v fw => .stopRet (v : B.S.V) (fw : FW B).2

def effShape {cf : CallF B} (fr : Frame B.S.V) : Eff (mkSem B cf) → Prop
  | .next _ fw => SameShape fr (fw : FW B).1
  | .jump _ _ fw => SameShape fr (fw : FW B).1
  | .stopNext fw => SameShape fr (fw : FW B).1
  | .stopExit fw => SameShape fr (fw : FW B).1
  | .stopRet _ fw => SameShape fr (fw : FW B).1

/-- what one instruction (not `CallUser`) of the framed semantics does, the VM with the frame on the stack does too -/
def StepOK {cf : CallF B} (i : Instr) (tmp : List B.S.V) (fr : Frame B.S.V) (w : B.S.W) (below : List B.S.V) : Prop :=
  ∀ eff, execInstr (mkSem B cf) i tmp (fr, w) = some eff →
    execInstrR B (fiOf fr below) i (tmp ++ fr.locals.reverse ++ below) w = some (liftEff below eff) ∧ effShape fr eff

set_option hygiene false in
macro "step_tac" : tactic => `(tactic| (
  intro eff h
  simp [execInstr, mkSem, condJump, Option.map_eq_some_iff, Option.bind_eq_some_iff] at h <;>
  ((repeat (obtain ⟨_, h⟩ := h)); subst h;
   simp [execInstr, execInstrR, resolveInstr, mkSem, liftEff, onFrame, effShape, SameShape, fiOf, condJump, apply_ite, *])))


end GoawkModel.C01
