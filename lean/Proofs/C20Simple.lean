import GoawkModel.C20Simple
import Proofs.C20Show
/-! C20 — the printed form of a simple statement (print/printf with the `hasRedirectOp` rule, delete, exit, return, next,
nextfile, break, continue, expression statement) is read back by `parseSimple` as the same statement modulo grouping. -/
namespace GoawkModel.C20Simple
open GoawkModel.C04 GoawkModel.C20

theorem map_lift (X : List Tok) (R : List PTok) : (lift X ++ R).map toE = X ++ R.map toE := by
  simp [lift, List.map_map, Function.comp_def, toE]

theorem hdP_lift_cons (t : Tok) (X : List Tok) (R : List PTok) : hdP (lift (t :: X) ++ R) = t := by
  simp [hdP, lift, toE, hd]

/-- the expression parser reads back a canonical tree inside a mixed token list -/
theorem pexpr_render (pc : Bool) (x : Expr) (R : List PTok) (hc : canon pc 1 x = true) (hR : cl pc (hdP R) = 0) :
    pexpr pc (lift (render x) ++ R) = .ok (x, R) := by
  unfold pexpr
  rw [map_lift, parseExpr_canon pc x (R.map toE) hc (by unfold hdP at hR; omega)]
  simp only [List.length_append, List.length_map, lift]
  rw [show (render x).length + R.length - R.length = (List.map PTok.t (render x)).length by simp]
  rw [List.drop_left]

/-- … and the printed form of a tree of the parser's range -/
theorem pexpr_show (pc : Bool) (e : Expr) (R : List PTok) (hc : canon pc 1 e = true) (hR : cl pc (hdP R) = 0) :
    pexpr pc (lift (showE e) ++ R) = .ok (addShow e, R) := by
  rw [showE_eq_render e pc 1 hc]
  exact pexpr_render pc (addShow e) R (canon_addShow e pc 1 hc) hR

/-! ### `hasRedirectOp` is exactly what the print context cares about -/

/-- no `>` comparison and no `cmd | getline` outside parentheses, on a tree with its parentheses written as `group` -/
def noTopRedir : Expr → Bool
  | .binary op l r => op != .cmp .gt && noTopRedir l && noTopRedir r
  | .getline c _ _ => c == .none
  | .unary _ v => noTopRedir v
  | .cond c _ f => noTopRedir c && noTopRedir f
  | .assign _ _ r => noTopRedir r
  | .inArr e _ => noTopRedir e
  | _ => true

/-- a plain-context tree without an unparenthesised redirection operator is a print-context tree -/
theorem canon_true_of_noTopRedir (x : Expr) : ∀ k, canon false k x = true → noTopRedir x = true → canon true k x = true := by
  induction x with
  | num i => intro k h _; simpa [canon] using h
  | var i => intro k h _; simpa [canon] using h
  | str i => intro k h _; simpa [canon] using h
  | group e _ => intro k h _; simpa [canon] using h
  | unary op e ih =>
    intro k h hn
    simp only [noTopRedir] at hn
    simp only [canon, Bool.and_eq_true] at h ⊢
    exact ⟨h.1, ih _ h.2 hn⟩
  | binary op l r ihl ihr =>
    intro k h hn
    simp only [noTopRedir, Bool.and_eq_true, bne_iff_ne, ne_eq] at hn
    simp only [canon, Bool.and_eq_true] at h ⊢
    refine ⟨⟨⟨⟨?_, h.1.1.1.2⟩, ihl _ h.1.1.2 hn.1.2⟩, ihr _ h.1.2 hn.2⟩, h.2⟩
    have := hn.1.1
    cases op <;> simp_all [BOp.stageA]
  | cond c t f ihc _ ihf =>
    intro k h hn
    simp only [noTopRedir, Bool.and_eq_true] at hn
    simp only [canon, Bool.and_eq_true] at h ⊢
    exact ⟨⟨⟨h.1.1.1, ihc _ h.1.1.2 hn.1⟩, h.1.2⟩, ihf _ h.2 hn.2⟩
  | assign op l r _ ihr =>
    intro k h hn
    simp only [noTopRedir] at hn
    simp only [canon, Bool.and_eq_true] at h ⊢
    exact ⟨h.1, ihr _ h.2 hn⟩
  | inArr e a ih =>
    intro k h hn
    simp only [noTopRedir] at hn
    simp only [canon, Bool.and_eq_true] at h ⊢
    exact ⟨h.1, ih _ h.2 hn⟩
  | incr p d e _ =>
    intro k h _
    cases p
    · cases e <;> simpa [canon] using h
    · simpa [canon] using h
  | field e _ => intro k h _; simpa [canon] using h
  | index a i _ => intro k h _; simpa [canon] using h
  | none => intro k h; simp [canon] at h
  | namedField e _ => intro k h _; simpa [canon] using h
  | getline c t f _ _ _ =>
    intro k h hn
    simp only [noTopRedir, beq_iff_eq] at hn
    subst hn
    simpa [canon] using h

theorem noTopRedir_pg (p : Nat) (x : Expr) (h : (decide (p ≤ goPrec x) && hasRedirectOp x) = false)
    (ih : hasRedirectOp x = false → noTopRedir (addShow x) = true) : noTopRedir (pg p x (addShow x)) = true := by
  unfold pg
  split
  · rfl
  · rename_i hlt
    apply ih
    simp only [Bool.and_eq_false_iff, decide_eq_false_iff_not] at h
    rcases h with h | h
    · omega
    · exact h

/-- `hasRedirectOp e = false` means the printed form of `e` has no redirection operator outside parentheses -/
theorem noTopRedir_addShow (e : Expr) : hasRedirectOp e = false → noTopRedir (addShow e) = true := by
  induction e with
  | unary op v ih =>
    intro h
    simp only [hasRedirectOp] at h
    simp only [addShow, noTopRedir]
    exact noTopRedir_pg 10 v h ih
  | binary op l r ihl ihr =>
    intro h
    simp only [hasRedirectOp] at h
    split at h
    · cases h
    · rename_i hop
      simp only [Bool.or_eq_false_iff] at h
      simp only [addShow, noTopRedir, Bool.and_eq_true, bne_iff_ne, ne_eq]
      exact ⟨⟨hop, noTopRedir_pg _ l h.1 ihl⟩, noTopRedir_pg _ r h.2 ihr⟩
  | cond c t f ihc _ ihf =>
    intro h
    simp only [hasRedirectOp, Bool.or_eq_false_iff] at h
    simp only [addShow, noTopRedir, Bool.and_eq_true]
    exact ⟨noTopRedir_pg 1 c h.1.1 ihc, noTopRedir_pg 1 f h.2 ihf⟩
  | assign op l r _ ihr =>
    intro h
    simp only [hasRedirectOp] at h
    simp only [addShow, noTopRedir, pg_zero]
    exact ihr h
  | inArr e a ih =>
    intro h
    simp only [hasRedirectOp] at h
    simp only [addShow, noTopRedir]
    exact noTopRedir_pg 4 e h ih
  | getline c t f _ _ _ =>
    intro h
    simp only [hasRedirectOp, bne_eq_false_iff_eq] at h
    subst h
    simp [addShow, noTopRedir, pgOpt_none]
  | _ => intro _; simp [addShow, noTopRedir]

/-- a print argument without `hasRedirectOp` prints to a print-context tree -/
theorem canon_true_addShow (e : Expr) (hc : canon false 1 e = true) (hr : hasRedirectOp e = false) :
    canon true 1 (addShow e) = true :=
  canon_true_of_noTopRedir _ 1 (canon_addShow e false 1 hc) (noTopRedir_addShow e hr)

/-! ### expression lists -/

/-- `, x₁ , x₂ …` -/
def restR : List Expr → List PTok
  | [] => []
  | x :: xs => .t .comma :: (lift (render x) ++ restR xs)

theorem skipNlP_render (x : Expr) (pc : Bool) (k : Nat) (R : List PTok) (hc : canon pc k x = true) :
    skipNlP (lift (render x) ++ R) = lift (render x) ++ R := by
  obtain ⟨t, ts, h1, h2⟩ := render_hd x pc k hc
  rw [h1]
  cases t <;> simp [isHead] at h2 <;> rfl

theorem hdP_render (x : Expr) (pc : Bool) (k : Nat) (R : List PTok) (hc : canon pc k x = true) :
    printStop (hdP (lift (render x) ++ R)) = false ∧ stmtEnd (hdP (lift (render x) ++ R)) = false := by
  obtain ⟨t, ts, h1, h2⟩ := render_hd x pc k hc
  rw [h1, hdP_lift_cons]
  cases t <;> simp [isHead] at h2 <;> simp [printStop, stmtEnd]

theorem hdP_restR (xs : List Expr) (R : List PTok) (pc : Bool) (hR : cl pc (hdP R) = 0) : cl pc (hdP (restR xs ++ R)) = 0 := by
  cases xs with
  | nil => exact hR
  | cons x xs => simp [restR, hdP, toE, hd, cl]

theorem pRest_ok (pc : Bool) (xs : List Expr) : ∀ (n : Nat) (R : List PTok), xs.length < n →
    (∀ x ∈ xs, canon pc 1 x = true) → cl pc (hdP R) = 0 → printStop (hdP R) = true →
    pRest pc n (restR xs ++ R) = .ok (xs, R) := by
  induction xs with
  | nil =>
    intro n R hn _ _ hs
    obtain ⟨m, rfl⟩ : ∃ m, n = m + 1 := ⟨n - 1, by simp at hn; omega⟩
    simp [pRest, restR, hs]
  | cons x xs ih =>
    intro n R hn hx hR hs
    obtain ⟨m, rfl⟩ : ∃ m, n = m + 1 := ⟨n - 1, by simp at hn; omega⟩
    have hcx := hx x (by simp)
    have h1 : ∀ Y, printStop (hdP (PTok.t Tok.comma :: Y)) = false := by intro Y; simp [hdP, toE, hd, printStop]
    have h2 := pexpr_render pc x (restR xs ++ R) hcx (hdP_restR xs R pc hR)
    have h3 := ih m R (by simp at hn; omega) (fun y hy => hx y (by simp [hy])) hR hs
    simp only [pRest, h1, Bool.false_eq_true, if_false, restR, List.cons_append, List.append_assoc,
      skipNlP_render x pc 1 _ hcx, h2, h3]

theorem restR_length (xs : List Expr) : xs.length ≤ (restR xs).length := by
  induction xs with
  | nil => simp [restR]
  | cons x xs ih => simp only [restR, List.length_cons, List.length_append]; omega

/-- `x₁ , x₂ , …` is read by `exprList` -/
theorem pList_ok (pc : Bool) (x : Expr) (xs : List Expr) (R : List PTok) (hx : ∀ y ∈ x :: xs, canon pc 1 y = true)
    (hR : cl pc (hdP R) = 0) (hs : printStop (hdP R) = true) :
    pList pc (lift (render x) ++ (restR xs ++ R)) = .ok (x :: xs, R) := by
  have hcx := hx x (by simp)
  unfold pList
  rw [(hdP_render x pc 1 _ hcx).1, pexpr_render pc x _ hcx (hdP_restR xs R pc hR)]
  have := pRest_ok pc xs (restR xs ++ R).length.succ R
    (by have := restR_length xs; simp only [List.length_append]; omega) (fun y hy => hx y (by simp [hy])) hR hs
  simp only [Bool.false_eq_true, if_false, this]

theorem pList_nil (pc : Bool) (R : List PTok) (hs : printStop (hdP R) = true) : pList pc R = .ok ([], R) := by
  simp [pList, hs]

/-- `showArgs` in terms of the canonical printed trees -/
theorem showArgs_eq (a : Expr) (as : List Expr) (h : ∀ y ∈ a :: as, canon false 1 y = true) :
    showArgs (a :: as) = lift (render (addShow a)) ++ restR (as.map addShow) := by
  induction as generalizing a with
  | nil => simp [showArgs, restR, showE_eq_render a false 1 (h a (by simp))]
  | cons b bs ih =>
    have := ih b (fun y hy => h y (by simp [hy]))
    simp only [showArgs, this, List.map_cons, restR, showE_eq_render a false 1 (h a (by simp))]

/-! ### the statements -/

theorem stmtEnd_facts (t : Tok) (h : stmtEnd t = true) (pc : Bool) : cl pc t = 0 ∧ printStop t = true ∧ isRedirect t = false ∧ t ≠ .lparen := by
  cases t <;> simp [stmtEnd] at h <;> simp [cl, printStop, isRedirect]

theorem hdP_eq_t (R : List PTok) (h : stmtEnd (hdP R) = true) : ∃ x R0, R = .t x :: R0 ∧ stmtEnd x = true := by
  cases R with
  | nil => simp [hdP, hd, stmtEnd] at h
  | cons y R0 =>
    cases y with
    | t x => exact ⟨x, R0, rfl, by simpa [hdP, toE, hd] using h⟩
    | _ => simp [hdP, toE, hd, stmtEnd] at h

/-- the tokens of the redirection part -/
def redirToks : Option (Tok × Expr) → List PTok
  | none => []
  | some (tok, d) => .t tok :: lift (showE d)

def RedirOk (redir : Option (Tok × Expr)) : Prop := ∀ tok d, redir = some (tok, d) → isRedirect tok = true ∧ canon false 1 d = true

theorem redirect_facts (t : Tok) (h : isRedirect t = true) : cl true t = 0 ∧ printStop t = true ∧ t ≠ .lparen := by
  cases t with
  | cmp c => cases c <;> simp [isRedirect] at h; simp [cl, printStop]
  | pipe => simp [cl, printStop]
  | append => simp [cl, printStop]
  | _ => simp [isRedirect] at h

theorem redir_head (redir : Option (Tok × Expr)) (R : List PTok) (hr : RedirOk redir) (hR : stmtEnd (hdP R) = true) :
    cl true (hdP (redirToks redir ++ R)) = 0 ∧ printStop (hdP (redirToks redir ++ R)) = true ∧
    hdP (redirToks redir ++ R) ≠ .lparen := by
  cases redir with
  | none => have := stmtEnd_facts _ hR true; exact ⟨this.1, this.2.1, this.2.2.2⟩
  | some p =>
    obtain ⟨tok, d⟩ := p
    have := redirect_facts tok (hr tok d rfl).1
    simpa only [redirToks, List.cons_append, hdP, List.map_cons, toE, hd] using this

/-- the redirection part of `print` -/
theorem pPrint_tail (f : Bool) (args : List Expr) (redir : Option (Tok × Expr)) (R : List PTok) (hr : RedirOk redir)
    (hR : stmtEnd (hdP R) = true) (hf : (f && args.isEmpty) = false) (X : List PTok)
    (hargs : pPrintArgs (X ++ (redirToks redir ++ R)) = .ok (args, redirToks redir ++ R)) :
    pPrint f (X ++ (redirToks redir ++ R)) = .ok (.print f args (redir.map fun (p : Tok × Expr) => (p.1, addShow p.2)), R) := by
  unfold pPrint
  rw [hargs]
  simp only [hf, Bool.false_eq_true, if_false]
  cases redir with
  | none =>
    obtain ⟨x, R0, rfl, hx⟩ := hdP_eq_t R hR
    have := (stmtEnd_facts x hx true).2.2.1
    simp [redirToks, this]
  | some p =>
    obtain ⟨tok, d⟩ := p
    have h := hr tok d rfl
    have hcl := (stmtEnd_facts _ hR false).1
    simp only [redirToks, List.cons_append, h.1, if_true, pexpr_show false d R h.2 hcl, Option.map]

theorem multiArgs_not_lparen (ts : List PTok) (h : hdP ts ≠ .lparen) : multiArgs ts = none := by
  cases ts with
  | nil => rfl
  | cons y R0 =>
    cases y with
    | t x =>
      have hx : x ≠ .lparen := by simpa [hdP, toE, hd] using h
      cases x <;> first | rfl | (exact absurd rfl hx)
    | _ => rfl

theorem multiArgs_lparen (r r' : List PTok) (es : List Expr) (h : pList false r = .ok (es, .t .rparen :: r')) :
    multiArgs (.t .lparen :: r) = if 2 ≤ es.length && printStop (hdP r') then some (es, r') else none := by
  simp only [multiArgs, h]

/-- a canonical tree whose rendering starts with `(` starts with a parenthesised sub-expression -/
theorem render_lparen (x : Expr) : ∀ (pc : Bool) (k : Nat), canon pc k x = true → firstTok x = .lparen →
    ∃ g tail, render x = .lparen :: (render g ++ .rparen :: tail) ∧ canon false 1 g = true := by
  induction x with
  | num i => intro pc k _ h; simp [firstTok] at h
  | var i => intro pc k _ h; simp [firstTok] at h
  | str i => intro pc k _ h; simp [firstTok] at h
  | group e _ =>
    intro pc k hc _
    simp only [canon, Bool.and_eq_true] at hc
    exact ⟨e, [], by simp [render], hc.2⟩
  | unary op e _ => intro pc k _ h; cases op <;> simp [firstTok, uopTok] at h
  | binary op l r ihl _ =>
    intro pc k hc h
    simp only [canon, Bool.and_eq_true] at hc
    obtain ⟨g, tail, h1, h2⟩ := ihl pc _ hc.1.1.2 (by simpa [firstTok] using h)
    exact ⟨g, tail ++ (bopToks op ++ render r), by simp [render, h1], h2⟩
  | cond c t f ihc _ _ =>
    intro pc k hc h
    simp only [canon, Bool.and_eq_true] at hc
    obtain ⟨g, tail, h1, h2⟩ := ihc pc _ hc.1.1.2 (by simpa [firstTok] using h)
    exact ⟨g, tail ++ (.question :: render t ++ .colon :: render f), by simp [render, h1], h2⟩
  | assign op l r ihl _ =>
    intro pc k hc h
    simp only [canon, Bool.and_eq_true] at hc
    obtain ⟨g, tail, h1, h2⟩ := ihl false _ hc.1.2 (by simpa [firstTok] using h)
    exact ⟨g, tail ++ (.asg op :: render r), by simp [render, h1], h2⟩
  | inArr e a ih =>
    intro pc k hc h
    simp only [canon, Bool.and_eq_true] at hc
    obtain ⟨g, tail, h1, h2⟩ := ih pc _ hc.2 (by simpa [firstTok] using h)
    exact ⟨g, tail ++ [.in_, .name a], by simp [render, h1], h2⟩
  | incr p d e ih =>
    intro pc k hc h
    have ha := canon_incr_arg pc k p d e hc
    cases p
    · obtain ⟨g, tail, h1, h2⟩ := ih false 14 ha.2 (by simpa [firstTok] using h)
      exact ⟨g, tail ++ [if d then Tok.decr else Tok.incr], by simp [render, h1], h2⟩
    · cases d <;> simp [firstTok] at h
  | field e _ => intro pc k _ h; simp [firstTok] at h
  | index a i _ => intro pc k _ h; simp [firstTok] at h
  | none => intro pc k hc; simp [canon] at hc
  | namedField e _ => intro pc k _ h; simp [firstTok] at h
  | getline c t f ihc _ _ =>
    intro pc k hc h
    obtain ⟨_, hcf⟩ := canon_getline_parts pc k c t f hc
    rcases hcf with h' | h'
    · simp [firstTok, h'.1] at h
    · obtain ⟨g, tail, h1, h2⟩ := ihc false 3 h'.2.2.2.2 (by simpa [firstTok, h'.1] using h)
      exact ⟨g, tail ++ (.pipe :: .getline :: (render t ++ fileToks f)), by rw [render_getline_cmd c t f h'.1, h1]; simp, h2⟩

/-- a print list that merely starts with a parenthesised sub-expression is not a parenthesised list -/
theorem multiArgs_group_head (x : Expr) (Y : List PTok) (pc : Bool) (k : Nat) (hc : canon pc k x = true) (h : firstTok x = .lparen) :
    multiArgs (lift (render x) ++ Y) = none := by
  obtain ⟨g, tail, h1, h2⟩ := render_lparen x pc k hc h
  have e : lift (render x) ++ Y = .t .lparen :: (lift (render g) ++ (restR [] ++ (.t .rparen :: (lift tail ++ Y)))) := by
    rw [h1]; simp [lift, restR]
  have hl := pList_ok false g [] (.t .rparen :: (lift tail ++ Y)) (by simpa using h2) (by simp [hdP, toE, hd, cl])
    (by simp [hdP, toE, hd, printStop])
  rw [e, multiArgs_lparen _ _ _ hl]
  simp

/-- the argument list of a printed `print`/`printf` -/
theorem pPrintArgs_show (args : List Expr) (R' : List PTok) (hargs : ∀ a ∈ args, canon false 1 a = true)
    (h0 : cl true (hdP R') = 0) (hs : printStop (hdP R') = true) (hlp : hdP R' ≠ .lparen) :
    ∃ args', pPrintArgs ((if args.any hasRedirectOp then PTok.t .lparen :: showArgs args ++ [.t .rparen] else showArgs args) ++ R') =
      .ok (args', R') ∧ args'.map strip = args.map strip ∧ (args' = [] ↔ args = []) := by
  cases args with
  | nil =>
    refine ⟨[], ?_, rfl, by simp⟩
    simp only [List.any_nil, Bool.false_eq_true, if_false, showArgs, List.nil_append]
    unfold pPrintArgs
    rw [multiArgs_not_lparen R' hlp]
    exact pList_nil true R' hs
  | cons a as =>
    have hx : ∀ y ∈ (a :: as).map addShow, canon false 1 y = true := by
      intro y hy
      obtain ⟨z, hz, rfl⟩ := List.mem_map.mp hy
      exact canon_addShow z false 1 (hargs z hz)
    by_cases hany : (a :: as).any hasRedirectOp = true
    · -- the printer wrote parentheses around the list
      simp only [hany, if_true]
      have e1 : (PTok.t Tok.lparen :: showArgs (a :: as) ++ [PTok.t Tok.rparen]) ++ R' =
          PTok.t Tok.lparen :: (lift (render (addShow a)) ++ (restR (as.map addShow) ++ (PTok.t Tok.rparen :: R'))) := by
        rw [showArgs_eq a as hargs]; simp
      rw [e1]
      have hl := pList_ok false (addShow a) (as.map addShow) (PTok.t Tok.rparen :: R')
        (by simpa using hx) (by simp [hdP, toE, hd, cl]) (by simp [hdP, toE, hd, printStop])
      unfold pPrintArgs
      rw [multiArgs_lparen _ _ _ hl]
      cases as with
      | nil =>
        -- a single argument: the parentheses read back as a grouping
        refine ⟨[.group (addShow a)], ?_, by simp [strip, strip_addShow], by simp⟩
        have hg : canon true 1 (.group (addShow a)) = true := by
          simp only [canon, Bool.and_eq_true, decide_eq_true_eq]
          exact ⟨by omega, hx _ (by simp)⟩
        have := pList_ok true (.group (addShow a)) [] R' (by simpa using hg) h0 hs
        simpa [render, lift, restR] using this
      | cons b bs =>
        refine ⟨(a :: b :: bs).map addShow, ?_, by simp [strip_addShow], by simp⟩
        simp [hs]
    · -- no parentheses: every argument is a print-context expression
      have hany' : (a :: as).any hasRedirectOp = false := by simpa using hany
      simp only [hany', Bool.false_eq_true, if_false]
      rw [showArgs_eq a as hargs, List.append_assoc]
      have hxt : ∀ y ∈ addShow a :: as.map addShow, canon true 1 y = true := by
        intro y hy
        rw [← List.map_cons] at hy
        obtain ⟨z, hz, rfl⟩ := List.mem_map.mp hy
        have hz' : hasRedirectOp z = false := by
          have := List.any_eq_false.mp hany' z hz
          simpa using this
        exact canon_true_addShow z (hargs z hz) hz'
      refine ⟨(a :: as).map addShow, ?_, by simp [strip_addShow], by simp⟩
      unfold pPrintArgs
      have hm : multiArgs (lift (render (addShow a)) ++ (restR (List.map addShow as) ++ R')) = none := by
        by_cases hne : firstTok (addShow a) = .lparen
        · exact multiArgs_group_head _ _ false 1 (hx _ (by simp)) hne
        · apply multiArgs_not_lparen
          obtain ⟨ts, hts⟩ := render_first (addShow a) false 1 (hx _ (by simp))
          rw [hts]; simpa [hdP, lift, toE, hd] using hne
      rw [hm]
      simpa using pList_ok true (addShow a) (as.map addShow) R' hxt h0 hs

theorem parseSimple_print (r : List PTok) : parseSimple (.kPrint :: r) = pPrint false r := rfl
theorem parseSimple_printf (r : List PTok) : parseSimple (.kPrintf :: r) = pPrint true r := rfl
theorem parseSimple_exit (r : List PTok) : parseSimple (.kExit :: r) = pOptE .exit r := rfl
theorem parseSimple_return (r : List PTok) : parseSimple (.kReturn :: r) = pOptE .ret r := rfl
theorem parseSimple_t (x : Tok) (r : List PTok) : parseSimple (.t x :: r) = pExprStmt (.t x :: r) := rfl
theorem parseSimple_delete (r : List PTok) : parseSimple (.kDelete :: r) = pDelete r := rfl

theorem delete_none_parse (a : Nat) (x : Tok) (R0 : List PTok) (hx : x ≠ .lbracket) :
    pDelete (.t (.name a) :: .t x :: R0) = .ok (.delete a none, .t x :: R0) := by
  show pDeleteName a (.t x :: R0) = _
  have : (hdP (.t x :: R0) == Tok.lbracket) = false := by simpa [hdP, toE, hd] using hx
  simp only [pDeleteName, this, Bool.false_eq_true, if_false]

theorem hdP_rbracket (r' : List PTok) : (hdP (.t Tok.rbracket :: r') == Tok.rbracket) = true := by simp [hdP, toE, hd]
theorem hdP_lbracket (r : List PTok) : (hdP (.t Tok.lbracket :: r) == Tok.lbracket) = true := by simp [hdP, toE, hd]

theorem delete_idx_parse (a : Nat) (r r' : List PTok) (i : Expr) (h : pexpr false r = .ok (i, .t .rbracket :: r')) :
    pDelete (.t (.name a) :: .t .lbracket :: r) = .ok (.delete a (some i), r') := by
  show pDeleteName a (.t .lbracket :: r) = _
  unfold pDeleteName
  rw [if_pos (hdP_lbracket r), List.tail_cons]
  unfold pDeleteIdx
  rw [h]
  simp only [hdP_rbracket, if_true, List.tail_cons]

theorem showSimple_delete_none (a : Nat) : showSimple (.delete a none) = [.kDelete, .t (.name a)] := rfl
theorem showSimple_delete_some (a : Nat) (i : Expr) :
    showSimple (.delete a (some i)) = .kDelete :: .t (.name a) :: .t .lbracket :: lift (showE i) ++ [.t .rbracket] := rfl
theorem showSimple_exprS (e : Expr) : showSimple (.exprS e) = lift (showE e) := rfl

/-- when is a simple statement in the range of the theorems: its expressions are in the parser's range -/
def okSimple : Simple → Prop
  | .print f args redir => (∀ a ∈ args, canon false 1 a = true) ∧ RedirOk redir ∧ (f = true → args ≠ [])
  | .delete _ idx => ∀ i, idx = some i → canon false 1 i = true
  | .exit e => ∀ x, e = some x → canon false 1 x = true
  | .ret e => ∀ x, e = some x → canon false 1 x = true
  | .exprS e => canon false 1 e = true
  | _ => True

theorem print_reparses (f : Bool) (args : List Expr) (redir : Option (Tok × Expr)) (R : List PTok)
    (hok : okSimple (.print f args redir)) (hR : stmtEnd (hdP R) = true) :
    ∃ args', parseSimple (showSimple (.print f args redir) ++ R) =
      .ok (.print f args' (redir.map fun (p : Tok × Expr) => (p.1, addShow p.2)), R) ∧ args'.map strip = args.map strip := by
  obtain ⟨hargs, hr, hf⟩ := hok
  obtain ⟨h0, hs, hlp⟩ := redir_head redir R hr hR
  obtain ⟨args', hp, hstrip, hnil⟩ := pPrintArgs_show args (redirToks redir ++ R) hargs h0 hs hlp
  refine ⟨args', ?_, hstrip⟩
  have hfe : (f && args'.isEmpty) = false := by
    cases f
    · rfl
    · have := hf rfl
      cases args' with
      | nil => exact absurd (hnil.mp rfl) this
      | cons _ _ => rfl
  have e1 : showSimple (.print f args redir) ++ R =
      (if f then PTok.kPrintf else PTok.kPrint) ::
        ((if args.any hasRedirectOp then PTok.t .lparen :: showArgs args ++ [.t .rparen] else showArgs args) ++ (redirToks redir ++ R)) := by
    cases redir with
    | none => simp [showSimple, redirToks]
    | some p => obtain ⟨tok, d⟩ := p; simp [showSimple, redirToks]
  rw [e1]
  have := pPrint_tail f args' redir R hr hR hfe _ hp
  cases f
  · simpa only [Bool.false_eq_true, if_false, parseSimple_print] using this
  · simpa only [if_true, parseSimple_printf] using this

theorem optE_reparses (kw : PTok) (mk : Option Expr → Simple) (e : Option Expr) (R : List PTok)
    (he : ∀ x, e = some x → canon false 1 x = true) (hR : stmtEnd (hdP R) = true) :
    pOptE mk (showOptE kw e ++ R).tail = .ok (mk (e.map addShow), R) := by
  cases e with
  | none =>
    show pOptE mk R = _
    unfold pOptE
    rw [if_pos hR]; rfl
  | some x =>
    have hc := he x rfl
    have hcl := (stmtEnd_facts _ hR false).1
    have hne : stmtEnd (hdP (lift (showE x) ++ R)) = false := by
      rw [showE_eq_render x false 1 hc]; exact (hdP_render _ false 1 R (canon_addShow x false 1 hc)).2
    show pOptE mk (lift (showE x) ++ R) = _
    unfold pOptE
    rw [if_neg (by simp [hne]), pexpr_show false x R hc hcl]; rfl

theorem showOptE_cons (kw : PTok) (e : Option Expr) (R : List PTok) : showOptE kw e ++ R = kw :: (showOptE kw e ++ R).tail := by
  cases e <;> rfl

/-- the printed form of a simple statement is read back as the same statement modulo grouping -/
theorem simple_reparses (s : Simple) (R : List PTok) (hok : okSimple s) (hR : stmtEnd (hdP R) = true) :
    ∃ s', parseSimple (showSimple s ++ R) = .ok (s', R) ∧ stripSimple s' = stripSimple s := by
  have hcl := (stmtEnd_facts _ hR false).1
  cases s with
  | print f args redir =>
    obtain ⟨args', hp, hst⟩ := print_reparses f args redir R hok hR
    refine ⟨_, hp, ?_⟩
    simp only [stripSimple, hst]
    cases redir with
    | none => rfl
    | some p => simp [Option.map, strip_addShow]
  | delete a idx =>
    cases idx with
    | none =>
      obtain ⟨x, R0, rfl, hx⟩ := hdP_eq_t R hR
      have hxb : x ≠ .lbracket := by cases x <;> simp [stmtEnd] at hx <;> simp
      refine ⟨.delete a none, ?_, rfl⟩
      have e : showSimple (.delete a none) ++ (PTok.t x :: R0) = .kDelete :: .t (.name a) :: .t x :: R0 := by
        rw [showSimple_delete_none]; rfl
      rw [e, parseSimple_delete, delete_none_parse a x R0 hxb]
    | some i =>
      have hc : canon false 1 i = true := hok i rfl
      have hp := pexpr_show false i (.t .rbracket :: R) hc (by simp [hdP, toE, hd, cl])
      refine ⟨.delete a (some (addShow i)), ?_, ?_⟩
      · have e : showSimple (.delete a (some i)) ++ R =
            .kDelete :: .t (.name a) :: .t .lbracket :: (lift (showE i) ++ .t .rbracket :: R) := by
          rw [showSimple_delete_some]; simp
        rw [e, parseSimple_delete]
        exact delete_idx_parse a (lift (showE i) ++ .t .rbracket :: R) R (addShow i) hp
      · show Simple.delete a (some (strip (addShow i))) = Simple.delete a (some (strip i))
        rw [strip_addShow]
  | exit e =>
    refine ⟨.exit (e.map addShow), ?_, ?_⟩
    · have := optE_reparses .kExit .exit e R hok hR
      show parseSimple (showOptE .kExit e ++ R) = _
      rw [showOptE_cons, parseSimple_exit]; exact this
    · cases e <;> simp [stripSimple, strip_addShow]
  | ret e =>
    refine ⟨.ret (e.map addShow), ?_, ?_⟩
    · have := optE_reparses .kReturn .ret e R hok hR
      show parseSimple (showOptE .kReturn e ++ R) = _
      rw [showOptE_cons, parseSimple_return]; exact this
    · cases e <;> simp [stripSimple, strip_addShow]
  | next => exact ⟨.next, rfl, rfl⟩
  | nextfile => exact ⟨.nextfile, rfl, rfl⟩
  | brk => exact ⟨.brk, rfl, rfl⟩
  | cont => exact ⟨.cont, rfl, rfl⟩
  | exprS e =>
    have hc : canon false 1 e = true := hok
    have h := pexpr_show false e R hc hcl
    obtain ⟨ts, hts⟩ := render_first (addShow e) false 1 (canon_addShow e false 1 hc)
    have hl : lift (showE e) ++ R = .t (firstTok (addShow e)) :: (lift ts ++ R) := by
      rw [showE_eq_render e false 1 hc, hts]; rfl
    refine ⟨.exprS (addShow e), ?_, ?_⟩
    · rw [showSimple_exprS, hl, parseSimple_t]
      unfold pExprStmt
      rw [← hl, h]
    · show Simple.exprS (strip (addShow e)) = Simple.exprS (strip e)
      rw [strip_addShow]

end GoawkModel.C20Simple
