import GoawkModel.C18
/-! Helper lemmas for property C18 (coverage annotation). Core Lean only. -/
namespace GoawkModel.C18
set_option linter.unusedSimpArgs false
set_option linter.unusedVariables false
set_option linter.unnecessarySimpa false

def Stmt.isCounter : Stmt → Bool
  | .counter _ => true
  | _ => false

theorem eraseStmts_cons_of_not_counter (s : Stmt) (r : Stmts) (h : s.isCounter = false) :
    eraseStmts (.cons s r) = .cons (eraseStmt s) (eraseStmts r) := by
  cases s <;> simp [Stmt.isCounter] at h <;> simp [eraseStmts]

theorem eraseStmts_cons_counter (k : Nat) (r : Stmts) : eraseStmts (.cons (.counter k) r) = eraseStmts r := by
  simp [eraseStmts]

theorem erase_cons_congr (s s' : Stmt) (r r' : Stmts) (hc : s'.isCounter = s.isCounter) (he : eraseStmt s' = eraseStmt s)
    (hr : eraseStmts r' = eraseStmts r) : eraseStmts (.cons s' r') = eraseStmts (.cons s r) := by
  cases hs : s.isCounter with
  | false =>
    rw [eraseStmts_cons_of_not_counter s r hs, eraseStmts_cons_of_not_counter s' r' (by rw [hc, hs]), he, hr]
  | true =>
    have h1 : ∃ k, s = .counter k := by cases s <;> simp [Stmt.isCounter] at hs; exact ⟨_, rfl⟩
    have h2 : ∃ k, s' = .counter k := by
      rw [hs] at hc; cases s' <;> simp [Stmt.isCounter] at hc; exact ⟨_, rfl⟩
    obtain ⟨k, rfl⟩ := h1
    obtain ⟨k', rfl⟩ := h2
    simp [eraseStmts, hr]

theorem erase_prepend_congr (run : List Stmt) (t1 t2 : Stmts) (h : eraseStmts t1 = eraseStmts t2) :
    eraseStmts (prepend run t1) = eraseStmts (prepend run t2) := by
  induction run with
  | nil => simpa [prepend] using h
  | cons s run ih => simp only [prepend]; exact erase_cons_congr s s _ _ rfl rfl ih

theorem prepend_append (run : List Stmt) (s : Stmt) (t : Stmts) : prepend (run ++ [s]) t = prepend run (.cons s t) := by
  induction run with
  | nil => rfl
  | cons a run ih => simp [prepend, ih]

theorem nf_tail_of_head (b : Stmts) (h : Stmts.NF true b = true) (hn : b.isGoNil = false) : Stmts.NF false b = true := by
  cases b with
  | nil f => simp [Stmts.isGoNil] at hn; subst hn; simp [Stmts.NF]
  | cons s r => simpa [Stmts.NF] using h

mutual
theorem annStmt_erase (st : AnnState) (s : Stmt) (h : Stmt.NF s = true) :
    eraseStmt (annStmt st s).2 = eraseStmt s ∧ (annStmt st s).2.isCounter = s.isCounter := by
  cases s with
  | simple i => simp [annStmt]
  | jump i j => simp [annStmt]
  | counter k => simp [annStmt]
  | ifS i b e =>
    simp only [Stmt.NF, Bool.and_eq_true] at h
    have hb : eraseStmts (if b.isGoNil then (st, b) else annRun st [] b).2 = eraseStmts b := by
      cases hn : b.isGoNil with
      | true => simp
      | false => simpa [prepend] using annRun_erase st [] b (nf_tail_of_head b h.1 hn)
    have he : ∀ st1, eraseStmts (if e.isGoNil then (st1, e) else annRun st1 [] e).2 = eraseStmts e := by
      intro st1
      cases hn : e.isGoNil with
      | true => simp
      | false => simpa [prepend] using annRun_erase st1 [] e (nf_tail_of_head e h.2 hn)
    simp only [annStmt, eraseStmt, Stmt.isCounter, and_true]
    rw [hb, he]
  | whileS i b =>
    simp only [Stmt.NF] at h
    have hb : eraseStmts (if b.isGoNil then (st, b) else annRun st [] b).2 = eraseStmts b := by
      cases hn : b.isGoNil with
      | true => simp
      | false => simpa [prepend] using annRun_erase st [] b (nf_tail_of_head b h hn)
    simp only [annStmt, eraseStmt, Stmt.isCounter, and_true]; rw [hb]
  | forS i b =>
    simp only [Stmt.NF] at h
    have hb : eraseStmts (if b.isGoNil then (st, b) else annRun st [] b).2 = eraseStmts b := by
      cases hn : b.isGoNil with
      | true => simp
      | false => simpa [prepend] using annRun_erase st [] b (nf_tail_of_head b h hn)
    simp only [annStmt, eraseStmt, Stmt.isCounter, and_true]; rw [hb]
  | forIn i b =>
    simp only [Stmt.NF] at h
    have hb : eraseStmts (if b.isGoNil then (st, b) else annRun st [] b).2 = eraseStmts b := by
      cases hn : b.isGoNil with
      | true => simp
      | false => simpa [prepend] using annRun_erase st [] b (nf_tail_of_head b h hn)
    simp only [annStmt, eraseStmt, Stmt.isCounter, and_true]; rw [hb]
  | doWhile i b =>
    simp only [Stmt.NF] at h
    have hb : eraseStmts (if b.isGoNil then (st, b) else annRun st [] b).2 = eraseStmts b := by
      cases hn : b.isGoNil with
      | true => simp
      | false => simpa [prepend] using annRun_erase st [] b (nf_tail_of_head b h hn)
    simp only [annStmt, eraseStmt, Stmt.isCounter, and_true]; rw [hb]
  | block i b =>
    simp only [Stmt.NF] at h
    have hb : eraseStmts (if b.isGoNil then (st, b) else annRun st [] b).2 = eraseStmts b := by
      cases hn : b.isGoNil with
      | true => simp
      | false => simpa [prepend] using annRun_erase st [] b (nf_tail_of_head b h hn)
    simp only [annStmt, eraseStmt, Stmt.isCounter, and_true]; rw [hb]
theorem annRun_erase (st : AnnState) (run : List Stmt) (ss : Stmts) (h : Stmts.NF false ss = true) :
    eraseStmts (annRun st run ss).2 = eraseStmts (prepend run ss) := by
  cases ss with
  | nil f =>
    simp [Stmts.NF] at h; subst h
    simp only [annRun]
    cases run with
    | nil => simp [prepend]
    | cons a run => simp [AnnState.track, eraseStmts]
  | cons s rest =>
    simp only [Stmts.NF, Bool.and_eq_true] at h
    obtain ⟨he, hc⟩ := annStmt_erase st s h.1
    simp only [annRun]
    cases hcomp : s.isCompound with
    | true =>
      simp only [if_true, AnnState.track]
      rw [eraseStmts_cons_counter, prepend_append]
      apply erase_prepend_congr
      apply erase_cons_congr _ _ _ _ hc he
      simpa [prepend] using annRun_erase _ [] rest h.2
    | false =>
      simp only [Bool.false_eq_true, if_false]
      rw [annRun_erase _ _ rest h.2, prepend_append]
      apply erase_prepend_congr
      exact erase_cons_congr _ _ _ _ hc he rfl
end


mutual
theorem eraseStmt_id (s : Stmt) (h : hasCounterStmt s = false) : eraseStmt s = s := by
  cases s with
  | simple i => rfl
  | jump i j => rfl
  | counter k => simp [hasCounterStmt] at h
  | ifS i b e =>
    simp only [hasCounterStmt, Bool.or_eq_false_iff] at h
    simp [eraseStmt, eraseStmts_id b h.1, eraseStmts_id e h.2]
  | whileS i b => simp only [hasCounterStmt] at h; simp [eraseStmt, eraseStmts_id b h]
  | forS i b => simp only [hasCounterStmt] at h; simp [eraseStmt, eraseStmts_id b h]
  | forIn i b => simp only [hasCounterStmt] at h; simp [eraseStmt, eraseStmts_id b h]
  | doWhile i b => simp only [hasCounterStmt] at h; simp [eraseStmt, eraseStmts_id b h]
  | block i b => simp only [hasCounterStmt] at h; simp [eraseStmt, eraseStmts_id b h]
theorem eraseStmts_id (ss : Stmts) (h : hasCounter ss = false) : eraseStmts ss = ss := by
  cases ss with
  | nil f => rfl
  | cons s r =>
    simp only [hasCounter, Bool.or_eq_false_iff] at h
    have hs := eraseStmt_id s h.1
    have hr := eraseStmts_id r h.2
    cases s <;> simp [hasCounterStmt] at h <;> simp [eraseStmts, hr] <;> first | rfl | (simpa [eraseStmt] using hs)
end

def flatIds (bs : List Block) : List Nat := bs.flatMap (·.ids)

theorem flatIds_append (a b : List Block) : flatIds (a ++ b) = flatIds a ++ flatIds b := by simp [flatIds]

theorem body_blocks (st : AnnState) (b : Stmts)
    (ih : ∀ st, ∃ nb, (annRun st [] b).1.blocks = st.blocks ++ nb ∧ ∀ x, (flatIds nb).count x = (stmtsIds b).count x) :
    ∃ nb, (if b.isGoNil then (st, b) else annRun st [] b).1.blocks = st.blocks ++ nb ∧
      ∀ x, (flatIds nb).count x = (stmtsIds b).count x := by
  cases hn : b.isGoNil with
  | true =>
    refine ⟨[], by simp, ?_⟩
    cases b with
    | nil f => simp [flatIds, stmtsIds]
    | cons s r => simp [Stmts.isGoNil] at hn
  | false => simpa using ih st

mutual
theorem annStmt_blocks (st : AnnState) (s : Stmt) (hc : hasCounterStmt s = false) :
    ∃ nb, (annStmt st s).1.blocks = st.blocks ++ nb ∧ (annStmt st s).2.id = s.id ∧
      ∀ x, (stmtIds s).count x = (if s.id = x then 1 else 0) + (flatIds nb).count x := by
  cases s with
  | simple i => exact ⟨[], by simp [annStmt], by simp [annStmt], by intro x; by_cases hx : i = x <;> simp [stmtIds, Stmt.id, flatIds, List.count_cons, hx]⟩
  | jump i j => exact ⟨[], by simp [annStmt], by simp [annStmt], by intro x; by_cases hx : i = x <;> simp [stmtIds, Stmt.id, flatIds, List.count_cons, hx]⟩
  | counter k => simp [hasCounterStmt] at hc
  | ifS i b e =>
    simp only [hasCounterStmt, Bool.or_eq_false_iff] at hc
    obtain ⟨nb1, h1, c1⟩ := body_blocks st b (fun st => by simpa using annRun_blocks st [] b hc.1)
    obtain ⟨nb2, h2, c2⟩ := body_blocks (if b.isGoNil then (st, b) else annRun st [] b).1 e (fun st => by simpa using annRun_blocks st [] e hc.2)
    refine ⟨nb1 ++ nb2, ?_, by simp [annStmt, Stmt.id], ?_⟩
    · simp only [annStmt]; rw [h2, h1, List.append_assoc]
    · intro x
      simp only [stmtIds, Stmt.id, List.count_cons, List.count_append, flatIds_append, c1, c2]
      by_cases hx : i = x <;> simp [hx] <;> omega
  | whileS i b =>
    simp only [hasCounterStmt] at hc
    obtain ⟨nb1, h1, c1⟩ := body_blocks st b (fun st => by simpa using annRun_blocks st [] b hc)
    refine ⟨nb1, by simp only [annStmt]; exact h1, by simp [annStmt, Stmt.id], ?_⟩
    intro x; simp only [stmtIds, Stmt.id, List.count_cons, c1]; by_cases hx : i = x <;> simp [hx] <;> omega
  | forS i b =>
    simp only [hasCounterStmt] at hc
    obtain ⟨nb1, h1, c1⟩ := body_blocks st b (fun st => by simpa using annRun_blocks st [] b hc)
    refine ⟨nb1, by simp only [annStmt]; exact h1, by simp [annStmt, Stmt.id], ?_⟩
    intro x; simp only [stmtIds, Stmt.id, List.count_cons, c1]; by_cases hx : i = x <;> simp [hx] <;> omega
  | forIn i b =>
    simp only [hasCounterStmt] at hc
    obtain ⟨nb1, h1, c1⟩ := body_blocks st b (fun st => by simpa using annRun_blocks st [] b hc)
    refine ⟨nb1, by simp only [annStmt]; exact h1, by simp [annStmt, Stmt.id], ?_⟩
    intro x; simp only [stmtIds, Stmt.id, List.count_cons, c1]; by_cases hx : i = x <;> simp [hx] <;> omega
  | doWhile i b =>
    simp only [hasCounterStmt] at hc
    obtain ⟨nb1, h1, c1⟩ := body_blocks st b (fun st => by simpa using annRun_blocks st [] b hc)
    refine ⟨nb1, by simp only [annStmt]; exact h1, by simp [annStmt, Stmt.id], ?_⟩
    intro x; simp only [stmtIds, Stmt.id, List.count_cons, c1]; by_cases hx : i = x <;> simp [hx] <;> omega
  | block i b =>
    simp only [hasCounterStmt] at hc
    obtain ⟨nb1, h1, c1⟩ := body_blocks st b (fun st => by simpa using annRun_blocks st [] b hc)
    refine ⟨nb1, by simp only [annStmt]; exact h1, by simp [annStmt, Stmt.id], ?_⟩
    intro x; simp only [stmtIds, Stmt.id, List.count_cons, c1]; by_cases hx : i = x <;> simp [hx] <;> omega
theorem annRun_blocks (st : AnnState) (run : List Stmt) (ss : Stmts) (hc : hasCounter ss = false) :
    ∃ nb, (annRun st run ss).1.blocks = st.blocks ++ nb ∧
      ∀ x, (flatIds nb).count x = (run.map Stmt.id).count x + (stmtsIds ss).count x := by
  cases ss with
  | nil f =>
    simp only [annRun]
    cases run with
    | nil => exact ⟨[], by simp, by simp [flatIds, stmtsIds]⟩
    | cons a run => exact ⟨[⟨(a :: run).map Stmt.id⟩], by simp [AnnState.track], by intro x; simp [flatIds, stmtsIds]⟩
  | cons s rest =>
    simp only [hasCounter, Bool.or_eq_false_iff] at hc
    obtain ⟨nb1, h1, hid, c1⟩ := annStmt_blocks st s hc.1
    simp only [annRun]
    cases hcomp : s.isCompound with
    | true =>
      simp only [if_true, AnnState.track]
      obtain ⟨nb2, h2, c2⟩ := annRun_blocks ⟨(annStmt st s).1.blocks ++ [⟨(run ++ [(annStmt st s).2]).map Stmt.id⟩]⟩ [] rest hc.2
      refine ⟨nb1 ++ [⟨(run ++ [(annStmt st s).2]).map Stmt.id⟩] ++ nb2, ?_, ?_⟩
      · rw [h2, h1]; simp [List.append_assoc]
      · intro x
        have := c1 x
        simp only [flatIds_append, List.count_append, c2, stmtsIds, List.map_append, List.map_cons, List.map_nil, hid]
        simp only [flatIds, List.flatMap_cons, List.flatMap_nil, List.append_nil, List.count_append, List.map_append, List.map_cons,
          List.map_nil, hid, List.count_cons, List.count_nil]
        simp only [flatIds] at this
        by_cases hx : s.id = x <;> simp [hx] at this ⊢ <;> omega
    | false =>
      simp only [Bool.false_eq_true, if_false]
      obtain ⟨nb2, h2, c2⟩ := annRun_blocks (annStmt st s).1 (run ++ [(annStmt st s).2]) rest hc.2
      refine ⟨nb1 ++ nb2, by rw [h2, h1, List.append_assoc], ?_⟩
      intro x
      have := c1 x
      simp only [flatIds_append, List.count_append, c2, stmtsIds, List.map_append, List.map_cons, List.map_nil, hid, List.count_cons,
        List.count_nil]
      by_cases hx : s.id = x <;> simp [hx] at this ⊢ <;> omega
end


theorem annRun_not_goNil (st : AnnState) (run : List Stmt) (ss : Stmts) : (annRun st run ss).2.isGoNil = false := by
  cases ss with
  | nil f => simp only [annRun]; cases run <;> simp [Stmts.isGoNil, AnnState.track]
  | cons s rest =>
    simp only [annRun]
    cases s.isCompound with
    | true => simp [Stmts.isGoNil, AnnState.track]
    | false => simp only [Bool.false_eq_true, if_false]; exact annRun_not_goNil _ _ rest

theorem annStmts_erase (st : AnnState) (ss : Stmts) (hnf : Stmts.NF true ss = true) :
    eraseStmts (annStmts st ss).2 = eraseStmts ss := by
  unfold annStmts
  cases hn : ss.isGoNil with
  | true => simp
  | false => simpa [prepend] using annRun_erase st [] ss (nf_tail_of_head ss hnf hn)

theorem annStmts_blocks (st : AnnState) (ss : Stmts) (hc : hasCounter ss = false) :
    ∃ nb, (annStmts st ss).1.blocks = st.blocks ++ nb ∧ ∀ x, (flatIds nb).count x = (stmtsIds ss).count x := by
  unfold annStmts
  exact body_blocks st ss (fun st => by simpa using annRun_blocks st [] ss hc)

end GoawkModel.C18
