import Proofs.C08Stable
/-! C08: the consumed-prefix lemmas — a field / record that did not run into the end of the data is determined by exactly
the bytes it consumed, and a record that ended at a line break consumed bytes ending in `\n`. Core Lean only. -/
namespace GoawkModel.C08
open GoawkModel

theorem prefix_eq_append {sep d : Bytes} (h : sep.isPrefixOf d = true) : d = sep ++ d.drop sep.length := by
  have := List.prefix_iff_eq_append.mp (List.isPrefixOf_iff_prefix.mp h)
  exact this.symm

theorem validSep_ne_nil {sep : Bytes} (hs : validSep sep = true) : sep ≠ [] := by
  obtain ⟨h, t, rfl, -⟩ := validSep_cons hs
  simp

theorem getLast?_cons_of_ne {b : UInt8} {q : Bytes} (h : q ≠ []) : (b :: q).getLast? = q.getLast? := by
  cases q with
  | nil => exact absurd rfl h
  | cons c q' => simp [List.getLast?_cons_cons]

theorem unq_prefix {sep : Bytes} (hs : validSep sep = true) : ∀ (d f r : Bytes) (e : End),
    unq sep d = (f, r, e) → e ≠ .eof →
    ∃ q, d = q ++ r ∧ q ≠ [] ∧ unq sep q = (f, [], e) ∧ (e = .eol → q.getLast? = some 10) := by
  intro d
  induction d with
  | nil => intro f r e h he; simp [unq] at h; exact absurd h.2.2.symm he
  | cons b d ih =>
    intro f r e h he
    by_cases hp : sep.isPrefixOf (b :: d) = true
    · simp only [unq, hp, if_true, Prod.mk.injEq] at h
      obtain ⟨rfl, rfl, rfl⟩ := h
      refine ⟨sep, prefix_eq_append hp, validSep_ne_nil hs, ?_, by simp⟩
      simpa using unq_sep hs []
    · simp only [Bool.not_eq_true] at hp
      simp only [unq, hp, Bool.false_eq_true, if_false] at h
      by_cases hb : b = 10
      · simp only [hb, if_true, Prod.mk.injEq] at h
        obtain ⟨rfl, rfl, rfl⟩ := h
        exact ⟨[10], by simp [hb], by simp, unq_eol hs [], by simp⟩
      · simp only [hb, if_false] at h
        by_cases hc : b = 13 ∧ d.head? = some 10
        · simp only [hc, and_self, if_true, Prod.mk.injEq] at h
          obtain ⟨rfl, rfl, rfl⟩ := h
          obtain ⟨hb13, hd⟩ := hc
          cases d with
          | nil => simp at hd
          | cons y d' =>
            simp at hd
            subst hd; subst hb13
            refine ⟨[13, 10], by simp, by simp, ?_, by simp⟩
            simp [unq, not_prefix_of_head hs 13 [10] (by simp)]
        · simp only [hc, if_false] at h
          cases hu : unq sep d with
          | mk f' p =>
            obtain ⟨r', e'⟩ := p
            rw [hu] at h
            simp only [Prod.mk.injEq] at h
            obtain ⟨rfl, rfl, rfl⟩ := h
            obtain ⟨q, hd, hq, huq, hl⟩ := ih f' r' e' hu he
            refine ⟨b :: q, by simp [hd], by simp, ?_, ?_⟩
            · have hpq : sep.isPrefixOf (b :: q) = false := by
                cases hx : sep.isPrefixOf (b :: q) with
                | false => rfl
                | true =>
                  have := isPrefixOf_append_mono r' hx
                  simp only [List.cons_append, ← hd] at this
                  rw [this] at hp; exact absurd hp (by simp)
              have hcq : ¬ (b = 13 ∧ q.head? = some 10) := by
                intro hx
                apply hc
                refine ⟨hx.1, ?_⟩
                rw [hd, (head_append_of_ne (x := r') hq).1]; exact hx.2
              simp [unq, hpq, hb, hcq, huq]
            · intro he'
              rw [getLast?_cons_of_ne hq]; exact hl he'


theorem not_prefix_of_append {sep q r : Bytes} (h : sep.isPrefixOf (q ++ r) = false) : sep.isPrefixOf q = false := by
  cases hx : sep.isPrefixOf q with
  | false => rfl
  | true => rw [isPrefixOf_append_mono r hx] at h; exact absurd h (by simp)

theorem quo_prefix {sep : Bytes} (hs : validSep sep = true) : ∀ (n : Nat) (d f r : Bytes) (e : End) (cr : Bool),
    d.length ≤ n → quo sep d = (f, r, e, cr) → e ≠ .eof →
    ∃ q, d = q ++ r ∧ q ≠ [] ∧ quo sep q = (f, [], e, cr) ∧ (e = .eol → q.getLast? = some 10) := by
  intro n
  induction n with
  | zero =>
    intro d f r e cr hl h he
    have : d = [] := by cases d with | nil => rfl | cons _ _ => simp at hl
    subst this
    simp [quo] at h
    exact absurd h.2.2.1.symm he
  | succ n ih =>
    intro d f r e cr hl h he
    cases d with
    | nil => simp [quo] at h; exact absurd h.2.2.1.symm he
    | cons b d =>
      simp only [List.length_cons, Nat.add_le_add_iff_right] at hl
      rw [quo.eq_def] at h
      simp only at h
      by_cases hb : b = 34
      · subst hb
        simp only [if_true] at h
        cases d with
        | nil => simp at h; exact absurd h.2.2.1.symm he
        | cons c d' =>
          simp only [List.length_cons] at hl
          simp only at h
          by_cases hc34 : c = 34
          · subst hc34
            simp only [if_true] at h
            cases hq : quo sep d' with
            | mk f' p =>
              obtain ⟨r', e', cr'⟩ := p
              rw [hq] at h
              simp only [Prod.mk.injEq] at h
              obtain ⟨rfl, rfl, rfl, rfl⟩ := h
              obtain ⟨q, hd, hqn, hqq, hl'⟩ := ih d' f' r' e' cr' (by omega) hq he
              refine ⟨34 :: 34 :: q, by simp [hd], by simp, ?_, ?_⟩
              · rw [quo.eq_def]; simp [hqq]
              · intro he'; rw [getLast?_cons_of_ne (by simp), getLast?_cons_of_ne hqn]; exact hl' he'
          · simp only [hc34, if_false] at h
            by_cases hp : sep.isPrefixOf (c :: d') = true
            · simp only [hp, if_true, Prod.mk.injEq] at h
              obtain ⟨rfl, rfl, rfl, rfl⟩ := h
              refine ⟨34 :: sep, ?_, by simp, ?_, by simp⟩
              · have := prefix_eq_append hp
                simp only [List.cons_append]; rw [← this]
              · simpa using quo_close_sep hs []
            · simp only [Bool.not_eq_true] at hp
              simp only [hp, Bool.false_eq_true, if_false] at h
              by_cases hc10 : c = 10
              · simp only [hc10, if_true, Prod.mk.injEq] at h
                obtain ⟨rfl, rfl, rfl, rfl⟩ := h
                exact ⟨[34, 10], by simp [hc10], by simp, quo_close_eol hs [], by simp⟩
              · simp only [hc10, if_false] at h
                by_cases hc : c = 13 ∧ d'.head? = some 10
                · simp only [hc, and_self, if_true, Prod.mk.injEq] at h
                  obtain ⟨rfl, rfl, rfl, rfl⟩ := h
                  obtain ⟨hc13, hd⟩ := hc
                  cases d' with
                  | nil => simp at hd
                  | cons y d'' =>
                    simp at hd
                    subst hd; subst hc13
                    refine ⟨[34, 13, 10], by simp, by simp, ?_, by simp⟩
                    rw [quo.eq_def]
                    simp [not_prefix_of_head hs 13 [10] (by simp)]
                · simp only [hc, if_false] at h
                  cases hq : quo sep (c :: d') with
                  | mk f' p =>
                    obtain ⟨r', e', cr'⟩ := p
                    rw [hq] at h
                    simp only [Prod.mk.injEq] at h
                    obtain ⟨rfl, rfl, rfl, rfl⟩ := h
                    obtain ⟨q, hd, hqn, hqq, hl'⟩ := ih (c :: d') f' r' e' cr' (by simp; omega) hq he
                    cases q with
                    | nil => exact absurd rfl hqn
                    | cons c2 q'' =>
                      simp only [List.cons_append, List.cons.injEq] at hd
                      obtain ⟨rfl, hd'⟩ := hd
                      refine ⟨34 :: c :: q'', by simp [hd'], by simp, ?_, ?_⟩
                      · have hpq : sep.isPrefixOf (c :: q'') = false := by
                          apply not_prefix_of_append (r := r')
                          simpa [← hd'] using hp
                        have hcq : ¬ (c = 13 ∧ q''.head? = some 10) := by
                          intro hx
                          apply hc
                          refine ⟨hx.1, ?_⟩
                          have hne : q'' ≠ [] := by intro h0; simp [h0] at hx
                          rw [hd', (head_append_of_ne (x := r') hne).1]; exact hx.2
                        rw [quo.eq_def]
                        simp [hc34, hpq, hc10, hcq, hqq]
                      · intro he'
                        rw [getLast?_cons_of_ne (by simp)]; exact hl' he'
      · simp only [hb, if_false] at h
        by_cases hb13 : b = 13
        · subst hb13
          simp only [if_true] at h
          cases d with
          | nil => simp at h; exact absurd h.2.2.1.symm he
          | cons c d' =>
            simp only [List.length_cons] at hl
            simp only at h
            by_cases hc10 : c = 10
            · simp only [hc10, if_true] at h
              cases hq : quo sep d' with
              | mk f' p =>
                obtain ⟨r', e', cr'⟩ := p
                rw [hq] at h
                simp only [Prod.mk.injEq] at h
                obtain ⟨rfl, rfl, rfl, rfl⟩ := h
                obtain ⟨q, hd, hqn, hqq, hl'⟩ := ih d' f' r' e' cr' (by omega) hq he
                refine ⟨13 :: 10 :: q, by simp [hd, hc10], by simp, ?_, ?_⟩
                · rw [quo.eq_def]; simp [hqq]
                · intro he'; rw [getLast?_cons_of_ne (by simp), getLast?_cons_of_ne hqn]; exact hl' he'
            · simp only [hc10, if_false] at h
              cases hq : quo sep (c :: d') with
              | mk f' p =>
                obtain ⟨r', e', cr'⟩ := p
                rw [hq] at h
                simp only [Prod.mk.injEq] at h
                obtain ⟨rfl, rfl, rfl, rfl⟩ := h
                obtain ⟨q, hd, hqn, hqq, hl'⟩ := ih (c :: d') f' r' e' cr' (by simp; omega) hq he
                cases q with
                | nil => exact absurd rfl hqn
                | cons c2 q'' =>
                  simp only [List.cons_append, List.cons.injEq] at hd
                  obtain ⟨rfl, hd'⟩ := hd
                  refine ⟨13 :: c :: q'', by simp [hd'], by simp, ?_, ?_⟩
                  · rw [quo.eq_def]; simp [hc10, hqq]
                  · intro he'; rw [getLast?_cons_of_ne (by simp)]; exact hl' he'
        · simp only [hb13, if_false] at h
          cases hq : quo sep d with
          | mk f' p =>
            obtain ⟨r', e', cr'⟩ := p
            rw [hq] at h
            simp only [Prod.mk.injEq] at h
            obtain ⟨rfl, rfl, rfl, rfl⟩ := h
            obtain ⟨q, hd, hqn, hqq, hl'⟩ := ih d f' r' e' cr' hl hq he
            refine ⟨b :: q, by simp [hd], by simp, ?_, ?_⟩
            · rw [quo.eq_def]; simp [hb, hb13, hqq]
            · intro he'; rw [getLast?_cons_of_ne hqn]; exact hl' he'


theorem field_prefix {sep : Bytes} (hs : validSep sep = true) (d f r : Bytes) (e : End) (cr : Bool)
    (h : field sep d = (f, r, e, cr)) (he : e ≠ .eof) :
    ∃ q, d = q ++ r ∧ q ≠ [] ∧ field sep q = (f, [], e, cr) ∧ (e = .eol → q.getLast? = some 10) := by
  cases d with
  | nil => simp [field] at h; exact absurd h.2.2.1.symm he
  | cons b t =>
    simp only [field] at h
    by_cases hb : b = 34
    · simp only [hb, if_true] at h
      obtain ⟨q, hd, hqn, hqq, hl⟩ := quo_prefix hs t.length t f r e cr (Nat.le_refl _) h he
      refine ⟨34 :: q, by simp [hd, hb], by simp, by simpa [field] using hqq, ?_⟩
      intro he'; rw [getLast?_cons_of_ne hqn]; exact hl he'
    · simp only [hb, if_false] at h
      cases hu : unq sep (b :: t) with
      | mk f' p =>
        obtain ⟨r', e'⟩ := p
        rw [hu] at h
        simp only [Prod.mk.injEq] at h
        obtain ⟨rfl, rfl, rfl, rfl⟩ := h
        obtain ⟨q, hd, hqn, hqq, hl⟩ := unq_prefix hs (b :: t) f' r' e' hu he
        cases q with
        | nil => exact absurd rfl hqn
        | cons b2 q' =>
          simp only [List.cons_append, List.cons.injEq] at hd
          obtain ⟨rfl, hd'⟩ := hd
          refine ⟨b :: q', by simp [hd'], by simp, ?_, hl⟩
          simp [field, hb, hqq]

/-- **Consumed prefix.** A record that ended at its line break is determined by exactly the bytes it consumed: they end in
`\n`, and parsing them alone gives the same fields (and the same CR flag) with nothing left over. -/
theorem fieldsFuel_prefix {sep : Bytes} (hs : validSep sep = true) : ∀ (n : Nat) (d : Bytes) (fs : List Bytes) (r : Bytes)
    (c : Bool), fieldsFuel sep n d = (fs, r, false, c) →
    ∃ p, d = p ++ r ∧ p.getLast? = some 10 ∧ fieldsFuel sep n p = (fs, [], false, c) ∧ fs.length ≤ p.length := by
  intro n
  induction n with
  | zero => intro d fs r c h; simp [fieldsFuel] at h
  | succ n ih =>
    intro d fs r c h
    simp only [fieldsFuel] at h
    cases hf : field sep d with
    | mk f p =>
      obtain ⟨r1, e, c1⟩ := p
      rw [hf] at h
      cases e with
      | sep =>
        simp only at h
        cases hr : fieldsFuel sep n r1 with
        | mk fs' q =>
          obtain ⟨r'', eof', c'⟩ := q
          rw [hr] at h
          simp only [Prod.mk.injEq] at h
          obtain ⟨rfl, rfl, rfl, rfl⟩ := h
          obtain ⟨q, hd, hqn, hqq, -⟩ := field_prefix hs d f r1 .sep c1 hf (by simp)
          obtain ⟨p', hd', hl', hp', hlen'⟩ := ih r1 fs' r'' c' hr
          have hp'n : p' ≠ [] := by intro h0; simp [h0] at hl'
          have hqpos : 0 < q.length := List.length_pos_iff.mpr hqn
          refine ⟨q ++ p', by rw [hd, hd']; simp, ?_, ?_, by simp; omega⟩
          · rw [List.getLast?_append]; simp [hl']
          · simp only [fieldsFuel]
            have := field_ext hs p' q f [] .sep c1 hqq (by simp)
            simp only [List.nil_append] at this
            rw [this]
            simp [hp']
      | eol =>
        simp only [Prod.mk.injEq] at h
        obtain ⟨rfl, rfl, -, rfl⟩ := h
        obtain ⟨q, hd, hqn, hqq, hl⟩ := field_prefix hs d f r1 .eol c1 hf (by simp)
        have hqpos : 0 < q.length := List.length_pos_iff.mpr hqn
        refine ⟨q, hd, hl rfl, ?_, by simp; omega⟩
        simp [fieldsFuel, hqq]
      | eof => simp at h


/-- any fuel that covers the number of fields gives the same parse of a record that ended at its line break -/
theorem fieldsFuel_fuel (sep : Bytes) : ∀ (n : Nat) (d : Bytes) (fs : List Bytes) (r : Bytes) (c : Bool),
    fieldsFuel sep n d = (fs, r, false, c) → ∀ m, fs.length ≤ m → fieldsFuel sep m d = (fs, r, false, c) := by
  intro n
  induction n with
  | zero => intro d fs r c h; simp [fieldsFuel] at h
  | succ n ih =>
    intro d fs r c h m hm
    simp only [fieldsFuel] at h
    cases hf : field sep d with
    | mk f p =>
      obtain ⟨r1, e, c1⟩ := p
      rw [hf] at h
      cases e with
      | sep =>
        simp only at h
        cases hr : fieldsFuel sep n r1 with
        | mk fs' q =>
          obtain ⟨r'', eof', c'⟩ := q
          rw [hr] at h
          simp only [Prod.mk.injEq] at h
          obtain ⟨rfl, rfl, rfl, rfl⟩ := h
          cases m with
          | zero => simp at hm
          | succ m' =>
            simp only [fieldsFuel, hf]
            rw [ih r1 fs' r'' c' hr m' (by simp at hm; omega)]
      | eol =>
        simp only [Prod.mk.injEq] at h
        obtain ⟨rfl, rfl, -, rfl⟩ := h
        cases m with
        | zero => simp at hm
        | succ m' => simp [fieldsFuel, hf]
      | eof => simp at h

end GoawkModel.C08
