import Proofs.C11Lift
import Proofs.C11Input
/-!
The call-depth counter (`p.callDepth`): whatever a list of operations does — return normally, or be left by next, nextfile,
exit or an error from any depth of calls, loops and conditionals — the counter is afterwards what it was before. Hence it is 0
at the start of every record and in END, however the records before ended.
-/
namespace GoawkModel.C11

theorem openWalk_depth : ∀ (n : Nat) (s : St), (openWalk n s).2.depth = s.depth
  | 0, s => by
    unfold openWalk
    split
    · rfl
    · split <;> simp [St.setFile, St.took]
  | n + 1, s => by
    have ih := openWalk_depth n
    unfold openWalk
    simp only [St.fetch]
    split
    · rw [ih]; unfold St.setVarByName; split
      · rfl
      · split
        · rfl
        · split <;> rfl
    · rw [ih]
    · split <;> simp [ih, St.setFile, St.took]
    · split <;> simp [ih, St.setFile, St.took]

theorem nextLine_depth (s : St) : (nextLine s).2.depth = s.depth := by
  unfold nextLine
  split
  · rfl
  · rw [openWalk_depth]

theorem doGetline_depth (s : St) : (doGetline s).depth = s.depth := by
  have hv := nextLine_depth s
  unfold doGetline
  rcases hn : nextLine s with ⟨t, s1⟩
  rw [hn] at hv
  cases t <;> exact hv

theorem doGetlineVar_depth (s : St) (v : Nat) : (doGetlineVar s v).depth = s.depth := by
  have hv := nextLine_depth s
  unfold doGetlineVar
  rcases hn : nextLine s with ⟨t, s1⟩
  rw [hn] at hv
  cases t <;> exact hv

theorem doGetlineFile_depth (s : St) (f : Bytes) : (doGetlineFile s f).depth = s.depth := by
  unfold doGetlineFile readStream
  cases lookup f s.streams with
  | some rs => cases rs <;> rfl
  | none =>
    cases lookup f s.fs with
    | none => rfl
    | some rs => cases rs <;> rfl

theorem doGetlineVarFile_depth (s : St) (v : Nat) (f : Bytes) : (doGetlineVarFile s v f).depth = s.depth := by
  unfold doGetlineVarFile readStream
  cases lookup f s.streams with
  | some rs => cases rs <;> rfl
  | none =>
    cases lookup f s.fs with
    | none => rfl
    | some rs => cases rs <;> rfl

theorem iter_depth (f : St → Sig × St) (hf : ∀ s, (f s).2.depth = s.depth) : ∀ n s, (iter f n s).2.depth = s.depth
  | 0, s => rfl
  | n + 1, s => by
    have h1 := hf s
    unfold iter
    rcases hfs : f s with ⟨sig, s1⟩
    rw [hfs] at h1
    cases sig <;> simp <;> first | (rw [iter_depth f hf n s1]; exact h1) | exact h1

mutual
/-- the unwinding invariant, one operation: for EVERY outcome signal -/
theorem execOp_depth : ∀ (o : Op) (s : St), (execOp o s).2.depth = s.depth
  | .emit _, s => by simp [execOp, St.doEmit, St.emitEv]
  | .next, s => by simp [execOp, St.emitEv]
  | .nextfile, s => by simp [execOp, St.emitEv]
  | .exit none, s => by simp [execOp, St.emitEv]
  | .exit (some _), s => by simp [execOp, St.emitEv, St.setStatus]
  | .getline, s => by simp [execOp, doGetline_depth]
  | .getlineVar v, s => by simp [execOp, doGetlineVar_depth]
  | .getlineFile f, s => by simp [execOp, doGetlineFile_depth]
  | .getlineVarFile v f, s => by simp [execOp, doGetlineVarFile_depth]
  | .call body, s => by
    simp only [execOp]
    split
    · rfl
    · have h := execOps_depth body s.enterCall
      show (execOps body s.enterCall).2.depth - 1 = s.depth
      rw [h]
      show s.depth + 1 - 1 = s.depth
      omega
  | .loop n body, s => by
    simp only [execOp]
    exact iter_depth _ (fun s => execOps_depth body s) n s
  | .cond c body, s => by
    simp only [execOp]
    split
    · exact execOps_depth body s
    · rfl
  | .setArgv _ _, s => by simp [execOp, St.setArgv]
  | .setArgc _, s => by simp [execOp, St.setArgc]
  | .close _, s => by simp [execOp, St.closeStream]
  | .setFilename _, s => by simp [execOp, St.assignFilename]
  | .setFs _, s => by simp [execOp, St.assignFs]
theorem execOps_depth : ∀ (os : List Op) (s : St), (execOps os s).2.depth = s.depth
  | [], s => by simp [execOps]
  | o :: os, s => by
    have h1 := execOp_depth o s
    unfold execOps
    rcases ho : execOp o s with ⟨sig, s1⟩
    rw [ho] at h1
    cases sig <;> simp <;> first | (rw [execOps_depth os s1]; exact h1) | exact h1
end

theorem logVisit_depth (s : St) (i : Nat) (p : Pat) (f : Bool) : (s.logVisit i p f).depth = s.depth := by
  unfold St.logVisit
  split <;> rfl

/-- one record through the rule list, however it ends -/
theorem runRules_depth : ∀ (i : Nat) (rules : List Rule) (fl : List Bool) (s : St),
    (runRules i rules fl s).2.2.depth = s.depth
  | _, [], fl, s => by simp [runRules]
  | _, _ :: _, [], s => by simp [runRules]
  | i, r :: rs, f :: fl, s => by
    unfold runRules
    have h0 := logVisit_depth s i r.pat f
    split
    · split
      · rfl
      · exact h0
    · simp only
      split
      · rw [runRules_depth (i + 1) rs fl]; exact h0
      · split
        · rw [runRules_depth (i + 1) rs fl]; exact h0
        · rename_i ops _
          have h1 := execOps_depth ops (s.logVisit i r.pat f)
          rcases ho : execOps ops (s.logVisit i r.pat f) with ⟨sig, s1⟩
          rw [ho] at h1
          cases sig <;> simp <;> first | (rw [runRules_depth (i + 1) rs fl s1, h1]; exact h0) | (rw [h1]; exact h0)

/-- the whole main loop -/
theorem mainLoop_depth : ∀ (fuel : Nat) (rules : List Rule) (fl : List Bool) (s : St),
    (mainLoop fuel rules fl s).2.depth = s.depth
  | 0, _, _, s => by simp [mainLoop]
  | fuel + 1, rules, fl, s => by
    unfold mainLoop
    have hv := nextLine_depth s
    rcases hn : nextLine s with ⟨t, s1⟩
    rw [hn] at hv
    simp only at hv
    cases t with
    | eof => exact hv
    | err => exact hv
    | got r =>
      simp only
      have h3 := runRules_depth 0 rules fl (s1.beginRecord r)
      rcases hr : runRules 0 rules fl (s1.beginRecord r) with ⟨sig, fl', s3⟩
      rw [hr] at h3
      have h4 : s3.depth = s.depth := by rw [h3]; exact hv
      cases sig
      · rw [mainLoop_depth fuel rules fl' s3]; exact h4
      · rw [mainLoop_depth fuel rules fl' s3]; exact h4
      · rw [mainLoop_depth fuel rules fl' s3.dropScanner]; exact h4
      · exact h4
      · exact h4

/-- the state at the start of each record's rule pass has the depth the main loop was entered with -/
theorem run_depth (fuel : Nat) (p : Prog) (s : St) : (run fuel p s).2.depth = s.depth := by
  unfold run
  have h1 := execOps_depth p.begin s
  rcases hb : execOps p.begin s with ⟨sigB, s1⟩
  rw [hb] at h1
  have key : (if (p.rules.isEmpty && p.end_.isNone) = true then (true, s1) else
      match mainPhase fuel p sigB s1 with
      | (Sig.fatal, s2) => (false, s2)
      | (_, s2) => endPhase p s2).2.depth = s.depth := by
    split
    · exact h1
    · have h2 : (mainPhase fuel p sigB s1).2.depth = s.depth := by
        unfold mainPhase
        split
        · exact h1
        · rw [mainLoop_depth]; exact h1
      rcases hm : mainPhase fuel p sigB s1 with ⟨sigM, s2⟩
      rw [hm] at h2
      have h3 : (endPhase p s2).2.depth = s.depth := by rw [endPhase_snd, execOps_depth]; exact h2
      cases sigM <;> first | exact h3 | exact h2
  cases sigB <;> first | exact key | exact h1

end GoawkModel.C11
