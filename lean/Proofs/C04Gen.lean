import GoawkModel.Generated.C04Levels
import GoawkModel.C04Canon
import GoawkModel.C20
/-! C04 / C20 — the tie of the Lean parser and printer models to the regenerated source facts.

`expectedLevels` is the table the model `GoawkModel.C04` is written from: call structure literally, operator sets computed
from the model's own functions (`orOp`, `andOp`, `addOp`, `mulOp`, `cmpOp`, `concatStart`, `printStop`, `isRedirect`,
`backtrackOp`). `gen_matches*` compare it with what the extractor found in parser.go / ast.go now. -/
namespace GoawkModel.C04
open GoawkModel.Generated.C04Levels

/-- Go name of a token -/
def tokName : Tok → String
  | .num _ => "NUMBER" | .name _ => "NAME" | .str _ => "STRING" | .func _ => "FUNC"
  | .lparen => "LPAREN" | .rparen => "RPAREN" | .lbracket => "LBRACKET" | .rbracket => "RBRACKET" | .comma => "COMMA"
  | .question => "QUESTION" | .colon => "COLON"
  | .asg .set => "ASSIGN" | .asg .add => "ADD_ASSIGN" | .asg .sub => "SUB_ASSIGN" | .asg .mul => "MUL_ASSIGN"
  | .asg .div => "DIV_ASSIGN" | .asg .mod => "MOD_ASSIGN" | .asg .pow => "POW_ASSIGN"
  | .or => "OR" | .and => "AND" | .in_ => "IN" | .match_ false => "MATCH" | .match_ true => "NOT_MATCH"
  | .cmp .eq => "EQUALS" | .cmp .ne => "NOT_EQUALS" | .cmp .lt => "LESS" | .cmp .le => "LTE" | .cmp .gt => "GREATER" | .cmp .ge => "GTE"
  | .add => "ADD" | .sub => "SUB" | .mul => "MUL" | .div => "DIV" | .mod => "MOD" | .pow => "POW" | .not => "NOT"
  | .incr => "INCR" | .decr => "DECR" | .dollar => "DOLLAR" | .at => "AT" | .getline => "GETLINE" | .pipe => "PIPE"
  | .append => "APPEND" | .newline => "NEWLINE" | .semi => "SEMICOLON" | .rbrace => "RBRACE" | .eof => "EOF" | .other => "OTHER"

/-- tokens in the order in which parser.go lists them -/
def tokOrder : List Tok :=
  [.asg .set, .asg .add, .asg .div, .asg .mod, .asg .mul, .asg .pow, .asg .sub,
   .and, .or, .match_ false, .match_ true, .cmp .eq, .cmp .ne, .cmp .lt, .cmp .le, .cmp .ge, .cmp .gt,
   .add, .sub, .mul, .div, .mod, .pow,
   .dollar, .at, .not, .name 0, .num 0, .str 0, .lparen, .incr, .decr,
   .newline, .semi, .rbrace, .rbracket, .rparen, .pipe, .append]

def toksOf (f : Tok → Bool) : List String := (tokOrder.filter f).map tokName

def isAsg : Tok → Bool
  | .asg _ => true
  | _ => false

def bopOfTok : Tok → Option BOp
  | .and => some .and | .or => some .or | .match_ false => some .match_ | .match_ true => some .notMatch | .cmp c => some (.cmp c)
  | _ => none

/-- exprList's stop set in Go order: NEWLINE SEMICOLON RBRACE RBRACKET RPAREN GREATER PIPE APPEND -/
def stopOrder : List Tok := [.newline, .semi, .rbrace, .rbracket, .rparen, .cmp .gt, .pipe, .append]
def redirectOrder : List Tok := [.cmp .gt, .append, .pipe]

def expectedLevels : List (String × List String × List String × String) := [
  ("expr", ["_assign", "getline"], [], "plain"),
  ("printExpr", ["_assign", "printCond"], [], "plain"),
  ("getline", ["cond", "cond"], ["PIPE"], "if"),
  ("_assign", ["higher", "_assign", "IsLValue", "IsLValue", "arg:higher"],
    toksOf isAsg ++ toksOf (fun t => (bopOfTok t).any backtrackOp), "if"),
  ("cond", ["_cond", "or", "expr"], [], "plain"),
  ("printCond", ["_cond", "printOr", "printExpr"], [], "plain"),
  ("_cond", ["higher", "optionalNewlines", "expr", "optionalNewlines", "last"], ["QUESTION", "COLON"], "if"),
  ("or", ["allowNewline:true", "binaryLeft", "and"], toksOf (fun t => (orOp t).isSome), "plain"),
  ("printOr", ["allowNewline:true", "binaryLeft", "printAnd"], toksOf (fun t => (orOp t).isSome), "plain"),
  ("and", ["allowNewline:true", "binaryLeft", "in"], toksOf (fun t => (andOp t).isSome), "plain"),
  ("printAnd", ["allowNewline:true", "binaryLeft", "printIn"], toksOf (fun t => (andOp t).isSome), "plain"),
  ("in", ["_in", "match"], [], "plain"),
  ("printIn", ["_in", "printMatch"], [], "plain"),
  ("_in", ["higher"], ["IN"], "loop"),
  ("match", ["_match", "compare"], [], "plain"),
  ("printMatch", ["_match", "printCompare"], [], "plain"),
  ("_match", ["higher", "regexStr", "arg:higher"], ["MATCH", "NOT_MATCH"], "if"),
  ("compare", ["_compare"], toksOf (fun t => (cmpOp false t).isSome), "plain"),
  ("printCompare", ["_compare"], toksOf (fun t => (cmpOp true t).isSome), "plain"),
  ("_compare", ["concat", "concat"], [], "if"),
  ("concat", ["add", "add"], toksOf concatStart ++ ["FIRST_FUNC", "LAST_FUNC", "CONCAT"], "loop"),
  ("add", ["allowNewline:false", "binaryLeft", "mul"], toksOf (fun t => (addOp t).isSome), "plain"),
  ("mul", ["allowNewline:false", "binaryLeft", "pow"], toksOf (fun t => (mulOp t).isSome), "plain"),
  ("pow", ["postIncr", "pow"], ["POW", "POW"], "if"),
  ("postIncr", ["primary", "IsLValue"], ["INCR", "DECR"], "if"),
  ("binaryLeft", ["higher", "optionalNewlines", "higher"], [], "loop"),
  ("exprList", ["commaNewlines", "parse"], (stopOrder.filter printStop).map tokName, "loop"),
  ("optionalLValue", ["exprList", "expr", "primary"], ["NAME", "LBRACKET", "RBRACKET", "DOLLAR"], "if"),
  ("regexStr", ["nextRegex", "parse"], ["DIV", "DIV_ASSIGN"], "if")]

def expectedPrimaryCases : List (List String × List String × List String) := [
  (["NUMBER"], [], []),
  (["STRING"], [], []),
  (["DIV", "DIV_ASSIGN"], ["nextRegex"], []),
  (["DOLLAR"], ["primary"], ["INCR", "DECR"]),
  (["AT"], ["primary"], []),
  (["NOT", "ADD", "SUB"], ["pow"], []),
  (["INCR", "DECR"], ["optionalLValue"], []),
  (["NAME"], ["exprList", "expr", "userCall"], ["LBRACKET", "RBRACKET", "LPAREN"]),
  (["LPAREN"], ["exprList", "expr", "multiExpr"], ["RPAREN", "RPAREN", "IN"]),
  (["GETLINE"], ["optionalLValue", "primary"], ["LESS"])]

/-- every token that starts a primary expression: the model's `primaryF` has a case for each (`unsupported` for regex
    literals and builtin calls), and the harness has a tree builder for each (checked at run time against this list) -/
def expectedPrimaryHeads : List String :=
  ["NUMBER", "STRING", "DIV", "DIV_ASSIGN", "DOLLAR", "AT", "NOT", "ADD", "SUB", "INCR", "DECR", "NAME", "LPAREN", "GETLINE",
   "F_SUB", "F_GSUB", "F_SPLIT", "F_MATCH", "F_RAND", "F_SRAND", "F_LENGTH", "F_SUBSTR", "F_SPRINTF", "F_FFLUSH", "F_COS", "F_SIN",
   "F_EXP", "F_LOG", "F_SQRT", "F_INT", "F_TOLOWER", "F_TOUPPER", "F_SYSTEM", "F_CLOSE", "F_ATAN2", "F_INDEX"]

theorem gen_matches_heads : primaryCaseHeads = expectedPrimaryHeads := by decide

/-- parser.go's expression levels are the ones the model is written from -/
theorem gen_matches_levels : levels = expectedLevels := by decide
theorem gen_matches_primary : primaryCases = expectedPrimaryCases := by decide
theorem gen_matches_redirect : printRedirectTokens = (redirectOrder.filter isRedirect).map tokName := by decide

/-! ### ast.go's precedence table against the printer model `GoawkModel.C20.goPrec` -/

def precIdx (c : String) : Nat := precConsts.idxOf c

def bopOfName : String → Option BOp
  | "AND" => some .and | "OR" => some .or | "CONCAT" => some .concat | "ADD" => some .add | "SUB" => some .sub
  | "MUL" => some .mul | "DIV" => some .div | "MOD" => some .mod | "EQUALS" => some (.cmp .eq) | "LESS" => some (.cmp .lt)
  | "LTE" => some (.cmp .le) | "GREATER" => some (.cmp .gt) | "GTE" => some (.cmp .ge) | "NOT_EQUALS" => some (.cmp .ne)
  | "MATCH" => some .match_ | "NOT_MATCH" => some .notMatch | "POW" => some .pow
  | _ => none

open GoawkModel.C20 in
/-- a sample node of each modelled Go type -/
def sampleOf : String → Option Expr
  | "AssignExpr" => some (.assign .set .none .none) | "AugAssignExpr" => some (.assign .add .none .none)
  | "CondExpr" => some (.cond .none .none .none) | "FieldExpr" => some (.field .none) | "GetlineExpr" => some (.getline .none .none .none)
  | "GroupingExpr" => some (.group .none) | "InExpr" => some (.inArr .none 0) | "IndexExpr" => some (.index 0 .none)
  | "NumExpr" => some (.num 0) | "StrExpr" => some (.str 0) | "UnaryExpr" => some (.unary .neg .none) | "VarExpr" => some (.var 0)
  | _ => none

/-- every `precedence()` method returns the constant whose iota value the printer model uses -/
theorem gen_matches_prec :
    precConsts.length = 17 ∧
    precedenceOf.all (fun (t, c) => match sampleOf t with | some e => C20.goPrec e == precIdx c | none => precIdx c == 15 || t == "NamedFieldExpr") = true ∧
    (precedenceOf.map (·.1)).length = 17 ∧
    binaryPrecedence.all (fun (ts, c) => ts.all fun t => (bopOfName t).map C20.bopPrec == some (precIdx c)) = true ∧
    (binaryPrecedence.map (·.1)).flatten.length = 17 ∧
    incrPrecedence.map precIdx = [C20.goPrec (.incr true false .none), C20.goPrec (.incr false false .none)] ∧
    parenthesizeTest = "e.precedence() < other.precedence()" ∧
    lvalueTypes = ["VarExpr", "IndexExpr", "FieldExpr"] := by decide

/-- the POSIX table of the property statement and ast.go's table order the binary operators the same way -/
theorem table_matches_ast (op : BOp) : op.prec = C20.bopPrec op + 1 := by cases op <;> rfl

end GoawkModel.C04
