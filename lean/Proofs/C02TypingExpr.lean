import Proofs.C02Typing
/-! Every expression of C01's modelled language compiles (`cExpr`) to a fragment that is well-typed at every entry height and
leaves exactly one more value. Side condition `lvOK`: the targets of `=`, `op=`, `++`, `--` are lvalues (variable, field, array
element) — what the parser guarantees; C01's `cE` emits placeholder code for anything else. -/
namespace GoawkModel.C02.Ty
open GoawkModel GoawkModel.C01

def isLv : Expr → Bool
  | .var _ _ | .field _ | .index _ _ _ => true
  | _ => false

def lvOK : Expr → Bool
  | .num _ | .str _ | .var _ _ => true
  | .field e => lvOK e
  | .index _ _ i => lvOK i
  | .multi i j => lvOK i && lvOK j
  | .inArr i _ _ => lvOK i
  | .arith _ l r | .cmp _ l r | .concat l r | .and l r | .or l r => lvOK l && lvOK r
  | .unary _ e | .group e => lvOK e
  | .cond c t f => lvOK c && lvOK t && lvOK f
  | .assign lv r => isLv lv && lvOK lv && lvOK r
  | .augAssign lv _ r => isLv lv && lvOK lv && lvOK r
  | .incr lv _ _ => isLv lv && lvOK lv
  | .call _ _ _ _ => false   -- user calls are outside the typed fragment (translation-validated per program)

/-- pushes one value at every height -/
def Push1 (c : Code) : Prop := ∀ h, Typed c h (h + 1)

theorem Push1.one (i : Instr) (hs : sh i = .simple 0 1) : Push1 [i] := fun h => (Typed.simple i 0 1 hs (Nat.zero_le _)).cast (by omega)

/-- `c` then a jump-free tail, with the exit height computed by the scan -/
theorem Typed.thenStraight {c t : Code} {h h1 h2 : Nat} (tc : Typed c h h1) (hs : jumpFree t h1 = true) (he : exitH t h1 = h2) :
    Typed (c ++ t) h h2 := (tc.append (Typed.straight t h1 hs)).cast he

theorem cIdxOf_push1 (i : Expr) (hi : Push1 (cExpr i)) : Push1 (cIdxOf i (cExpr i)) := by
  cases i with
  | num c =>
    simp only [cIdxOf]
    cases c.int64? with
    | none => exact hi
    | some n => exact Push1.one _ rfl
  | _ => exact hi

/-- what the typing of a condition needs from the operands of a comparison -/
def SubOK : Expr → Prop
  | .cmp _ l r => Push1 (cExpr l) ∧ Push1 (cExpr r)
  | _ => True

def EOK (e : Expr) : Prop :=
  Push1 (cExpr e) ∧ 1 ≤ spineN e ∧ (∀ h, Typed (spine e) h (h + spineN e)) ∧ SubOK e

theorem EOK.mk' {e : Expr} (hn : ∀ l r, e ≠ .concat l r) (t : Push1 (cExpr e)) (hs : SubOK e) : EOK e := by
  have h2 := cE_snd e hn
  refine ⟨t, ?_, ?_, hs⟩
  · simp [spineN, h2]
  · intro h
    have : spine e = cExpr e := by simp [spine, cExpr, h2]
    have hn1 : spineN e = 1 := by simp [spineN, h2]
    rw [this, hn1]; exact t h

/-- the inverted condition: code and jump of `compiler.condition(e, true)` -/
theorem condT_typed {c : Expr} (hc : EOK c) (h : Nat) :
    ∃ hc' p, Typed (cCondT c) h hc' ∧ (∀ off, sh (cJumpT c off) = .jmp p true off) ∧ (∀ off, (cJumpT c off).size = 2) ∧ p ≤ hc' ∧ hc' - p = h := by
  have gen : ∃ hc' p, Typed (cExpr c) h hc' ∧ (∀ off, sh (Instr.jumpFalse off) = .jmp p true off) ∧
      (∀ off, (Instr.jumpFalse off).size = 2) ∧ p ≤ hc' ∧ hc' - p = h :=
    ⟨h + 1, 1, hc.1 h, fun _ => rfl, fun _ => rfl, by omega, by omega⟩
  cases c with
  | cmp op l r =>
    obtain ⟨hl, hr⟩ := hc.2.2.2
    have two : ∃ hc' p, Typed (cExpr l ++ cExpr r) h hc' ∧ (∀ off, sh (Instr.jumpCmp op.negate off) = .jmp p true off) ∧
        (∀ off, (Instr.jumpCmp op.negate off).size = 2) ∧ p ≤ hc' ∧ hc' - p = h :=
      ⟨h + 2, 2, ((hl h).append (hr (h + 1))).cast (by omega), fun _ => rfl, fun _ => rfl, by omega, by omega⟩
    cases op <;> first | exact two | exact gen
  | _ => exact gen

/-- the direct condition: code and jump of `compiler.condition(e, false)` -/
theorem condF_typed {c : Expr} (hc : EOK c) (h : Nat) :
    ∃ hc' p, Typed (cCondF c) h hc' ∧ (∀ off, sh (cJumpF c off) = .jmp p true off) ∧ (∀ off, (cJumpF c off).size = 2) ∧ p ≤ hc' ∧ hc' - p = h := by
  cases c with
  | cmp op l r =>
    obtain ⟨hl, hr⟩ := hc.2.2.2
    exact ⟨h + 2, 2, ((hl h).append (hr (h + 1))).cast (by omega), fun _ => rfl, fun _ => rfl, by omega, by omega⟩
  | _ => exact ⟨h + 1, 1, hc.1 h, fun _ => rfl, fun _ => rfl, by omega, by omega⟩

/-- straight tails used by the lvalue forms: checked by evaluation of the scan at a symbolic height -/
macro "tail_ok" : tactic => `(tactic| (simp [jumpFree, sh, after]; try omega))

theorem expr_ok : ∀ e, lvOK e = true → EOK e
  | .num c, _ => EOK.mk' (by simp) (Push1.one _ rfl) trivial
  | .str s, _ => EOK.mk' (by simp) (Push1.one _ rfl) trivial
  | .var sc i, _ => EOK.mk' (by simp) (Push1.one _ rfl) trivial
  | .field e, hl => by
    have ie := expr_ok e (by simpa [lvOK] using hl)
    refine EOK.mk' (by simp) ?_ trivial
    have gen : Push1 (cExpr e ++ [.field]) := fun h => (ie.1 h).thenStraight (by tail_ok) (by simp [after, sh])
    cases e with
    | num c =>
      intro h
      simp only [cExpr, cE]
      cases c.int32? with
      | some n => exact Push1.one _ rfl h
      | none => exact Typed.straight _ _ (by tail_ok) |>.cast (by simp [after, sh])
    | _ => simpa [cExpr, cE] using gen
  | .index sc a i, hl => by
    have ii := expr_ok i (by simpa [lvOK] using hl)
    refine EOK.mk' (by simp) ?_ trivial
    intro h
    show Typed (cIdxOf i (cExpr i) ++ [.arrGet sc a]) h (h + 1)
    exact (cIdxOf_push1 i ii.1 h).thenStraight (by tail_ok) (by simp [after, sh])
  | .multi i j, hl => by
    simp only [lvOK, Bool.and_eq_true] at hl
    have ii := expr_ok i hl.1
    have ij := expr_ok j hl.2
    refine EOK.mk' (by simp) ?_ trivial
    intro h
    show Typed (cIdxOf i (cExpr i) ++ cIdxOf j (cExpr j) ++ [.indexMulti 2]) h (h + 1)
    exact ((cIdxOf_push1 i ii.1 h).append (cIdxOf_push1 j ij.1 (h + 1))).thenStraight (by tail_ok) (by simp [after, sh])
  | .inArr i sc a, hl => by
    have ii := expr_ok i (by simpa [lvOK] using hl)
    refine EOK.mk' (by simp) ?_ trivial
    intro h
    show Typed (cIdxOf i (cExpr i) ++ [.arrIn sc a]) h (h + 1)
    exact (cIdxOf_push1 i ii.1 h).thenStraight (by tail_ok) (by simp [after, sh])
  | .arith op l r, hl => by
    simp only [lvOK, Bool.and_eq_true] at hl
    have il := expr_ok l hl.1
    have ir := expr_ok r hl.2
    refine EOK.mk' (by simp) ?_ trivial
    intro h
    show Typed (cExpr l ++ cExpr r ++ [.arith op]) h (h + 1)
    exact ((il.1 h).append (ir.1 (h + 1))).thenStraight (by tail_ok) (by simp [after, sh])
  | .cmp op l r, hl => by
    simp only [lvOK, Bool.and_eq_true] at hl
    have il := expr_ok l hl.1
    have ir := expr_ok r hl.2
    refine EOK.mk' (by simp) ?_ ⟨il.1, ir.1⟩
    intro h
    show Typed (cExpr l ++ cExpr r ++ [.cmp op]) h (h + 1)
    exact ((il.1 h).append (ir.1 (h + 1))).thenStraight (by tail_ok) (by simp [after, sh])
  | .concat l r, hl => by
    simp only [lvOK, Bool.and_eq_true] at hl
    have il := expr_ok l hl.1
    have ir := expr_ok r hl.2
    obtain ⟨_, hn, hsp, _⟩ := il
    have sp : ∀ h, Typed (spine l ++ cExpr r) h (h + spineN l + 1) := fun h => (hsp h).append (ir.1 _)
    refine ⟨?_, ?_, ?_, trivial⟩
    · intro h
      rw [cExpr_concat]
      split
      · rename_i h1
        exact (sp h).thenStraight (by rw [h1]; tail_ok) (by rw [h1]; simp [after, sh])
      · exact (sp h).thenStraight (by tail_ok) (by simp [after, sh])
    · rw [spineN_concat]; omega
    · intro h
      rw [spine_concat, spineN_concat]
      exact (sp h).cast (by omega)
  | .and l r, hl => by
    simp only [lvOK, Bool.and_eq_true] at hl
    have il := expr_ok l hl.1
    have ir := expr_ok r hl.2
    refine EOK.mk' (by simp) ?_ trivial
    intro h
    show Typed (cExpr l ++ [.dupe, .jumpFalse (1 + csize (cExpr r))] ++ [.drop] ++ cExpr r ++ [.boolean]) h (h + 1)
    exact Typed.andor (j := Instr.jumpFalse) (fun _ => rfl) (fun _ => rfl) (il.1 h) (ir.1 h)
  | .or l r, hl => by
    simp only [lvOK, Bool.and_eq_true] at hl
    have il := expr_ok l hl.1
    have ir := expr_ok r hl.2
    refine EOK.mk' (by simp) ?_ trivial
    intro h
    show Typed (cExpr l ++ [.dupe, .jumpTrue (1 + csize (cExpr r))] ++ [.drop] ++ cExpr r ++ [.boolean]) h (h + 1)
    exact Typed.andor (j := Instr.jumpTrue) (fun _ => rfl) (fun _ => rfl) (il.1 h) (ir.1 h)
  | .unary op e, hl => by
    have ie := expr_ok e (by simpa [lvOK] using hl)
    refine EOK.mk' (by simp) ?_ trivial
    intro h
    cases op
    · show Typed (cExpr e ++ [.neg]) h (h + 1)
      exact (ie.1 h).thenStraight (by tail_ok) (by simp [after, sh])
    · show Typed (cExpr e ++ [.plus]) h (h + 1)
      exact (ie.1 h).thenStraight (by tail_ok) (by simp [after, sh])
    · show Typed (cExpr e ++ [.not]) h (h + 1)
      exact (ie.1 h).thenStraight (by tail_ok) (by simp [after, sh])
  | .cond c t f, hl => by
    simp only [lvOK, Bool.and_eq_true] at hl
    have ic := expr_ok c hl.1.1
    have it := expr_ok t hl.1.2
    have jf := expr_ok f hl.2
    refine EOK.mk' (by simp) ?_ trivial
    intro h
    rw [cExpr_cond]
    obtain ⟨hc', p, tc, hj, hsz, hp, hq⟩ := condT_typed ic h
    show Typed (cCondT c ++ [cJumpT c (csize (cExpr t) + 2)] ++ cExpr t ++ [.jump (csize (cExpr f))] ++ cExpr f) h (h + 1)
    exact Typed.cond hj hsz tc hp (by rw [hq]; exact it.1 h) (by simpa using jf.1 h) (by omega)
  | .assign lv r, hl => by
    simp only [lvOK, Bool.and_eq_true] at hl
    have ir := expr_ok r hl.2
    refine EOK.mk' (by simp) ?_ trivial
    intro h
    cases lv with
    | var sc i =>
      show Typed (cExpr r ++ [.dupe, .assignVar sc i]) h (h + 1)
      exact (ir.1 h).thenStraight (by tail_ok) (by simp [after, sh])
    | field ie =>
      have iie := expr_ok ie (by simpa [lvOK] using hl.1.2)
      show Typed (cExpr r ++ [.dupe] ++ cExpr ie ++ [.assignField]) h (h + 1)
      exact (((ir.1 h).thenStraight (t := [.dupe]) (by tail_ok) rfl).append (iie.1 _)).thenStraight (by tail_ok) (by simp [after, sh])
    | index sc a ie =>
      have iie := expr_ok ie (by simpa [lvOK] using hl.1.2)
      show Typed (cExpr r ++ [.dupe] ++ cIdxOf ie (cExpr ie) ++ [.arrAssign sc a]) h (h + 1)
      exact (((ir.1 h).thenStraight (t := [.dupe]) (by tail_ok) rfl).append (cIdxOf_push1 ie iie.1 _)).thenStraight (by tail_ok)
        (by simp [after, sh])
    | _ => simp [isLv] at hl
  | .augAssign lv op r, hl => by
    simp only [lvOK, Bool.and_eq_true] at hl
    have ir := expr_ok r hl.2
    refine EOK.mk' (by simp) ?_ trivial
    intro h
    cases lv with
    | var sc i =>
      show Typed (cExpr r ++ [.getVar sc i, .swap, .arith op, .dupe, .assignVar sc i]) h (h + 1)
      exact (ir.1 h).thenStraight (by tail_ok) (by simp [after, sh])
    | field ie =>
      have iie := expr_ok ie (by simpa [lvOK] using hl.1.2)
      show Typed (cExpr r ++ cExpr ie ++ [.dupe, .field, .rote, .arith op, .dupe, .rote, .assignField]) h (h + 1)
      exact ((ir.1 h).append (iie.1 _)).thenStraight (by tail_ok) (by simp [after, sh])
    | index sc a ie =>
      have iie := expr_ok ie (by simpa [lvOK] using hl.1.2)
      show Typed (cExpr r ++ cIdxOf ie (cExpr ie) ++ [.dupe, .arrGet sc a, .rote, .arith op, .dupe, .rote, .arrAssign sc a]) h (h + 1)
      exact ((ir.1 h).append (cIdxOf_push1 ie iie.1 _)).thenStraight (by tail_ok) (by simp [after, sh])
    | _ => simp [isLv] at hl
  | .incr lv dec pre, hl => by
    simp only [lvOK, Bool.and_eq_true] at hl
    refine EOK.mk' (by simp) ?_ trivial
    intro h
    cases lv with
    | var sc i =>
      cases pre
      · show Typed [.getVar sc i, .plus, .dupe, .num .one, .arith (incrArith dec), .assignVar sc i] h (h + 1)
        exact (Typed.straight _ _ (by tail_ok)).cast (by simp [after, sh])
      · show Typed [.getVar sc i, .num .one, .arith (incrArith dec), .dupe, .assignVar sc i] h (h + 1)
        exact (Typed.straight _ _ (by tail_ok)).cast (by simp [after, sh])
    | field ie =>
      have iie := expr_ok ie (by simpa [lvOK] using hl.2)
      cases pre
      · show Typed (cExpr ie ++ [.dupe, .field, .plus, .dupe, .num .one, .arith (incrArith dec), .rote, .assignField]) h (h + 1)
        exact (iie.1 h).thenStraight (by tail_ok) (by simp [after, sh])
      · show Typed (cExpr ie ++ [.dupe, .field, .num .one, .arith (incrArith dec), .dupe, .rote, .assignField]) h (h + 1)
        exact (iie.1 h).thenStraight (by tail_ok) (by simp [after, sh])
    | index sc a ie =>
      have iie := expr_ok ie (by simpa [lvOK] using hl.2)
      cases pre
      · show Typed (cIdxOf ie (cExpr ie) ++ [.dupe, .arrGet sc a, .plus, .dupe, .num .one, .arith (incrArith dec), .rote, .arrAssign sc a]) h (h + 1)
        exact (cIdxOf_push1 ie iie.1 h).thenStraight (by tail_ok) (by simp [after, sh])
      · show Typed (cIdxOf ie (cExpr ie) ++ [.dupe, .arrGet sc a, .num .one, .arith (incrArith dec), .dupe, .rote, .arrAssign sc a]) h (h + 1)
        exact (cIdxOf_push1 ie iie.1 h).thenStraight (by tail_ok) (by simp [after, sh])
    | _ => simp [isLv] at hl
  | .group e, hl => by
    have ie := expr_ok e (by simpa [lvOK] using hl)
    exact EOK.mk' (by simp) (fun h => by show Typed (cExpr e) h (h + 1); exact ie.1 h) trivial
  | .call _ _ _ _, hl => by simp [lvOK] at hl

theorem cExpr_push1 (e : Expr) (hl : lvOK e = true) : Push1 (cExpr e) := (expr_ok e hl).1

end GoawkModel.C02.Ty
