import Proofs.C18
/-! Semantic lemmas for property C18: unfolding equations of the scripted control-flow semantics, fuel monotonicity, the
erasure simulation (transparency) and the counter/first-statement balance (exactness of counts). Core Lean only. -/
namespace GoawkModel.C18
set_option linter.unusedSimpArgs false
set_option linter.unusedVariables false


theorem execStmts_succ (f : Nat) (ss : Stmts) (sc : List Nat) (tr : List Ev) : execStmts (f + 1) ss sc tr =
    match ss with
    | .nil _ => some ⟨.normal, sc, tr⟩
    | .cons s rest =>
      match execStmt f s sc tr with
      | none => none
      | some r => if r.sig = .normal then execStmts f rest r.script r.trace else some r := by
  simp only [execStmts] <;> rfl

theorem loop_succ (f : Nat) (b : Stmts) (testFirst : Bool) (sc : List Nat) (tr : List Ev) : loop (f + 1) b testFirst sc tr =
    if testFirst = true ∧ (nextDecision sc).1 = 0 then some ⟨.normal, (nextDecision sc).2, tr⟩ else
    match execStmts f b (if testFirst then (nextDecision sc).2 else sc) tr with
    | none => none
    | some r =>
      if r.sig = .brk then some ⟨.normal, r.script, r.trace⟩
      else if r.sig = .normal ∨ r.sig = .cont then
        (if testFirst then loop f b true r.script r.trace
         else if (nextDecision r.script).1 != 0 then loop f b false (nextDecision r.script).2 r.trace
         else some ⟨.normal, (nextDecision r.script).2, r.trace⟩)
      else some r := by
  simp only [loop] <;> rfl

theorem iter_succ (f : Nat) (b : Stmts) (n : Nat) (sc : List Nat) (tr : List Ev) : iter (f + 1) b (n + 1) sc tr =
    match execStmts f b sc tr with
    | none => none
    | some r =>
      if r.sig = .brk then some ⟨.normal, r.script, r.trace⟩
      else if r.sig = .normal ∨ r.sig = .cont then iter f b n r.script r.trace
      else some r := by
  simp only [iter] <;> rfl

theorem iter_zero (f : Nat) (b : Stmts) (sc : List Nat) (tr : List Ev) : iter (f + 1) b 0 sc tr = some ⟨.normal, sc, tr⟩ := by
  simp only [iter] <;> rfl

theorem execStmt_succ (f : Nat) (s : Stmt) (sc : List Nat) (tr : List Ev) : execStmt (f + 1) s sc tr =
    match s with
    | .simple i => some ⟨.normal, sc, tr ++ [.start i]⟩
    | .jump i j => some ⟨j.signal, sc, tr ++ [.start i]⟩
    | .counter k => some ⟨.normal, sc, tr ++ [.ctr k]⟩
    | .block i b => execStmts f b sc (tr ++ [.start i])
    | .ifS i b e =>
      if (nextDecision sc).1 != 0 then execStmts f b (nextDecision sc).2 (tr ++ [.start i])
      else execStmts f e (nextDecision sc).2 (tr ++ [.start i])
    | .whileS i b => loop f b true sc (tr ++ [.start i])
    | .forS i b => loop f b true sc (tr ++ [.start i])
    | .doWhile i b => loop f b false sc (tr ++ [.start i])
    | .forIn i b => iter f b (nextDecision sc).1 (nextDecision sc).2 (tr ++ [.start i]) := by
  cases s <;> simp only [execStmt] <;> rfl

/-- the four evaluators at one fuel level -/
structure MonoAt (f : Nat) : Prop where
  stmt : ∀ s sc tr r, execStmt f s sc tr = some r → execStmt (f + 1) s sc tr = some r
  stmts : ∀ ss sc tr r, execStmts f ss sc tr = some r → execStmts (f + 1) ss sc tr = some r
  loop : ∀ b tf sc tr r, loop f b tf sc tr = some r → loop (f + 1) b tf sc tr = some r
  iter : ∀ b n sc tr r, iter f b n sc tr = some r → iter (f + 1) b n sc tr = some r

theorem exec_mono : ∀ f, MonoAt f
  | 0 => ⟨by intro s sc tr r h; simp [execStmt] at h, by intro s sc tr r h; simp [execStmts] at h,
          by intro b tf sc tr r h; simp [loop] at h, by intro b n sc tr r h; simp [iter] at h⟩
  | f + 1 => by
    have ih := exec_mono f
    refine ⟨?_, ?_, ?_, ?_⟩
    · intro s sc tr r h
      cases s with
      | simple i => (simp only [execStmt_succ] at h ⊢; exact h)
      | jump i j => (simp only [execStmt_succ] at h ⊢; exact h)
      | counter k => (simp only [execStmt_succ] at h ⊢; exact h)
      | block i b => simp only [execStmt_succ] at h ⊢; exact ih.stmts _ _ _ _ h
      | ifS i b e =>
        simp only [execStmt_succ] at h ⊢
        split at h
        · rename_i hd; rw [if_pos hd]; exact ih.stmts _ _ _ _ h
        · rename_i hd; rw [if_neg hd]; exact ih.stmts _ _ _ _ h
      | whileS i b => simp only [execStmt_succ] at h ⊢; exact ih.loop _ _ _ _ _ h
      | forS i b => simp only [execStmt_succ] at h ⊢; exact ih.loop _ _ _ _ _ h
      | doWhile i b => simp only [execStmt_succ] at h ⊢; exact ih.loop _ _ _ _ _ h
      | forIn i b => simp only [execStmt_succ] at h ⊢; exact ih.iter _ _ _ _ _ h
    · intro ss sc tr r h
      cases ss with
      | nil g => rw [execStmts_succ] at h ⊢; exact h
      | cons s rest =>
        rw [execStmts_succ] at h ⊢; simp only [] at h ⊢
        cases hs : execStmt f s sc tr with
        | none => simp [hs] at h
        | some r1 =>
          simp only [hs] at h
          rw [ih.stmt _ _ _ _ hs]
          simp only []
          split at h
          · rename_i hn; rw [if_pos hn]; exact ih.stmts _ _ _ _ h
          · rename_i hn; rw [if_neg hn]; exact h
    · intro b tf sc tr r h
      rw [loop_succ] at h ⊢
      split at h
      · rename_i hc; rw [if_pos hc]; exact h
      · rename_i hc
        rw [if_neg hc]
        cases hb : execStmts f b (if tf = true then (nextDecision sc).2 else sc) tr with
        | none => simp [hb] at h
        | some r1 =>
          simp only [hb] at h
          rw [ih.stmts _ _ _ _ hb]
          simp only []
          split at h
          · rename_i h1; rw [if_pos h1]; exact h
          · rename_i h1
            rw [if_neg h1]
            split at h
            · rename_i h2
              rw [if_pos h2]
              split at h
              · rename_i h3; rw [if_pos h3]; exact ih.loop _ _ _ _ _ h
              · rename_i h3
                rw [if_neg h3]
                split at h
                · rename_i h4; rw [if_pos h4]; exact ih.loop _ _ _ _ _ h
                · rename_i h4; rw [if_neg h4]; exact h
            · rename_i h2; rw [if_neg h2]; exact h
    · intro b n sc tr r h
      cases n with
      | zero => rw [iter_zero] at h ⊢; exact h
      | succ n =>
        rw [iter_succ] at h ⊢
        cases hb : execStmts f b sc tr with
        | none => simp [hb] at h
        | some r1 =>
          simp only [hb] at h
          rw [ih.stmts _ _ _ _ hb]
          simp only []
          split at h
          · rename_i h1; rw [if_pos h1]; exact h
          · rename_i h1
            rw [if_neg h1]
            split at h
            · rename_i h2; rw [if_pos h2]; exact ih.iter _ _ _ _ _ h
            · rename_i h2; rw [if_neg h2]; exact h



@[simp] theorem eraseRun_sig (r : Run) : (eraseRun r).sig = r.sig := rfl
@[simp] theorem eraseRun_script (r : Run) : (eraseRun r).script = r.script := rfl
@[simp] theorem eraseRun_trace (r : Run) : (eraseRun r).trace = eraseTrace r.trace := rfl

theorem eraseTrace_start (tr : List Ev) (i : Nat) : eraseTrace (tr ++ [.start i]) = eraseTrace tr ++ [.start i] := by
  simp [eraseTrace, List.filter_append]
theorem eraseTrace_ctr (tr : List Ev) (k : Nat) : eraseTrace (tr ++ [.ctr k]) = eraseTrace tr := by
  simp [eraseTrace, List.filter_append]

structure EraseAt (f : Nat) : Prop where
  stmt : ∀ s sc tr r, s.isCounter = false → execStmt f s sc tr = some r →
    execStmt f (eraseStmt s) sc (eraseTrace tr) = some (eraseRun r)
  stmts : ∀ ss sc tr r, execStmts f ss sc tr = some r → execStmts f (eraseStmts ss) sc (eraseTrace tr) = some (eraseRun r)
  loop : ∀ b tf sc tr r, loop f b tf sc tr = some r → loop f (eraseStmts b) tf sc (eraseTrace tr) = some (eraseRun r)
  iter : ∀ b n sc tr r, iter f b n sc tr = some r → iter f (eraseStmts b) n sc (eraseTrace tr) = some (eraseRun r)

theorem erase_sim : ∀ f, EraseAt f
  | 0 => ⟨by intro s sc tr r _ h; simp [execStmt] at h, by intro s sc tr r h; simp [execStmts] at h,
          by intro b tf sc tr r h; simp [loop] at h, by intro b n sc tr r h; simp [iter] at h⟩
  | f + 1 => by
    have ih := erase_sim f
    refine ⟨?_, ?_, ?_, ?_⟩
    · intro s sc tr r hnc h
      cases s with
      | simple i => simp only [execStmt_succ, eraseStmt] at h ⊢; injection h with h; subst h; simp [eraseRun, eraseTrace_start]
      | jump i j => simp only [execStmt_succ, eraseStmt] at h ⊢; injection h with h; subst h; simp [eraseRun, eraseTrace_start]
      | counter k => simp [Stmt.isCounter] at hnc
      | block i b => simp only [execStmt_succ, eraseStmt] at h ⊢; rw [← eraseTrace_start]; exact ih.stmts _ _ _ _ h
      | ifS i b e =>
        simp only [execStmt_succ, eraseStmt] at h ⊢
        rw [← eraseTrace_start]
        split at h
        · rename_i hd; rw [if_pos hd]; exact ih.stmts _ _ _ _ h
        · rename_i hd; rw [if_neg hd]; exact ih.stmts _ _ _ _ h
      | whileS i b => simp only [execStmt_succ, eraseStmt] at h ⊢; rw [← eraseTrace_start]; exact ih.loop _ _ _ _ _ h
      | forS i b => simp only [execStmt_succ, eraseStmt] at h ⊢; rw [← eraseTrace_start]; exact ih.loop _ _ _ _ _ h
      | doWhile i b => simp only [execStmt_succ, eraseStmt] at h ⊢; rw [← eraseTrace_start]; exact ih.loop _ _ _ _ _ h
      | forIn i b => simp only [execStmt_succ, eraseStmt] at h ⊢; rw [← eraseTrace_start]; exact ih.iter _ _ _ _ _ h
    · intro ss sc tr r h
      cases ss with
      | nil g =>
        rw [execStmts_succ] at h; simp only [] at h; injection h with h; subst h
        simp only [eraseStmts]; rw [execStmts_succ]; rfl
      | cons s rest =>
        rw [execStmts_succ] at h; simp only [] at h
        cases hs : execStmt f s sc tr with
        | none => simp [hs] at h
        | some r1 =>
          simp only [hs] at h
          cases hc : s.isCounter with
          | true =>
            obtain ⟨k, rfl⟩ : ∃ k, s = .counter k := by cases s <;> simp [Stmt.isCounter] at hc; exact ⟨_, rfl⟩
            rw [eraseStmts_cons_counter]
            cases f with
            | zero => simp [execStmt] at hs
            | succ f' =>
              simp only [execStmt_succ] at hs; injection hs with hs; subst hs
              simp only [if_true] at h
              have := ih.stmts _ _ _ _ h
              rw [eraseTrace_ctr] at this
              exact (exec_mono _).stmts _ _ _ _ this
          | false =>
            rw [eraseStmts_cons_of_not_counter s rest hc, execStmts_succ]; simp only []
            rw [ih.stmt _ _ _ _ hc hs]
            split at h
            · rename_i hn; simpa [hn] using ih.stmts _ _ _ _ h
            · rename_i hn; injection h with h; subst h; simp [hn]
    · intro b tf sc tr r h
      rw [loop_succ] at h ⊢
      split at h
      · rename_i hc; rw [if_pos hc]; injection h with h; subst h; rfl
      · rename_i hc
        rw [if_neg hc]
        cases hb : execStmts f b (if tf = true then (nextDecision sc).2 else sc) tr with
        | none => simp [hb] at h
        | some r1 =>
          simp only [hb] at h
          rw [ih.stmts _ _ _ _ hb]
          split at h
          · rename_i h1; injection h with h; subst h; simp [h1, eraseRun]
          · rename_i h1
            split at h
            · rename_i h2
              split at h
              · rename_i h3; simpa [h1, h2, h3] using ih.loop _ _ _ _ _ h
              · rename_i h3
                split at h
                · rename_i h4; simpa [h1, h2, h3, h4] using ih.loop _ _ _ _ _ h
                · rename_i h4; injection h with h; subst h; simp [h1, h2, h3, h4, eraseRun]
            · rename_i h2; injection h with h; subst h; simp [h1, h2]
    · intro b n sc tr r h
      cases n with
      | zero => rw [iter_zero] at h ⊢; injection h with h; subst h; rfl
      | succ n =>
        rw [iter_succ] at h ⊢
        cases hb : execStmts f b sc tr with
        | none => simp [hb] at h
        | some r1 =>
          simp only [hb] at h
          rw [ih.stmts _ _ _ _ hb]
          split at h
          · rename_i h1; injection h with h; subst h; simp [h1, eraseRun]
          · rename_i h1
            split at h
            · rename_i h2; simpa [h1, h2] using ih.iter _ _ _ _ _ h
            · rename_i h2; injection h with h; subst h; simp [h1, h2]



mutual
/-- the bodies of a statement are balanced -/
def balS (k i : Nat) : Stmt → Bool
  | .ifS _ b e => balL k i false b && balL k i false e
  | .whileS _ b | .forS _ b | .forIn _ b | .doWhile _ b | .block _ b => balL k i false b
  | _ => true
/-- in this list (and below) every counter `k` is immediately followed by a statement with identifier `i`, and every statement
with identifier `i` is immediately preceded by counter `k`; `prev` = the element before this list is counter `k` -/
def balL (k i : Nat) (prev : Bool) : Stmts → Bool
  | .nil _ => !prev
  | .cons s rest =>
    if s.isCounter then !prev && balL k i (s.id == k) rest
    else ((s.id == i) == prev) && balS k i s && balL k i false rest
end

theorem countStart_start (i j : Nat) (tr : List Ev) : countStart i (tr ++ [.start j]) = countStart i tr + (if j = i then 1 else 0) := by
  by_cases h : j = i <;> simp [countStart, List.count_append, List.count_cons, h]
theorem countStart_ctr (i c : Nat) (tr : List Ev) : countStart i (tr ++ [.ctr c]) = countStart i tr := by
  simp [countStart, List.count_append, List.count_cons]
theorem countCtr_start (k j : Nat) (tr : List Ev) : countCtr k (tr ++ [.start j]) = countCtr k tr := by
  simp [countCtr, List.count_append, List.count_cons]
theorem countCtr_ctr (k c : Nat) (tr : List Ev) : countCtr k (tr ++ [.ctr c]) = countCtr k tr + (if c = k then 1 else 0) := by
  by_cases h : c = k <;> simp [countCtr, List.count_append, List.count_cons, h]

/-- counter-`k` events and start-of-`i` events gained between two traces, with corrections `a` and `b` -/
def Gain (k i : Nat) (tr tr' : List Ev) (a b : Nat) : Prop :=
  countCtr k tr' + countStart i tr + a = countStart i tr' + countCtr k tr + b

structure BalAt (k i f : Nat) : Prop where
  stmt : ∀ s sc tr r, balS k i s = true → execStmt f s sc tr = some r →
    Gain k i tr r.trace (if s.isCounter = false ∧ s.id = i then 1 else 0) (if s.isCounter = true ∧ s.id = k then 1 else 0)
  stmts : ∀ ss prev sc tr r, balL k i prev ss = true → execStmts f ss sc tr = some r →
    Gain k i tr r.trace (if prev = true then 1 else 0) 0
  loop : ∀ b tf sc tr r, balL k i false b = true → loop f b tf sc tr = some r → Gain k i tr r.trace 0 0
  iter : ∀ b n sc tr r, balL k i false b = true → iter f b n sc tr = some r → Gain k i tr r.trace 0 0

theorem gain_of_start {k i j : Nat} {tr tr' : List Ev} (h : Gain k i (tr ++ [.start j]) tr' 0 0) :
    Gain k i tr tr' (if j = i then 1 else 0) 0 := by
  unfold Gain at h ⊢
  rw [countStart_start, countCtr_start] at h
  omega

theorem balance_sim (k i : Nat) : ∀ f, BalAt k i f
  | 0 => ⟨by intro s sc tr r _ h; simp [execStmt] at h, by intro s p sc tr r _ h; simp [execStmts] at h,
          by intro b tf sc tr r _ h; simp [loop] at h, by intro b n sc tr r _ h; simp [iter] at h⟩
  | f + 1 => by
    have ih := balance_sim k i f
    refine ⟨?_, ?_, ?_, ?_⟩
    · intro s sc tr r hb h
      cases s with
      | simple j =>
        simp only [execStmt_succ] at h; injection h with h; subst h
        simp only [Stmt.isCounter, Stmt.id, Gain, countStart_start, countCtr_start]
        by_cases hji : j = i <;> simp [hji] <;> omega
      | jump j jj =>
        simp only [execStmt_succ] at h; injection h with h; subst h
        simp only [Stmt.isCounter, Stmt.id, Gain, countStart_start, countCtr_start]
        by_cases hji : j = i <;> simp [hji] <;> omega
      | counter c =>
        simp only [execStmt_succ] at h; injection h with h; subst h
        simp only [Stmt.isCounter, Stmt.id, Gain, countStart_ctr, countCtr_ctr]
        by_cases hck : c = k <;> simp [hck] <;> omega
      | block j b =>
        simp only [execStmt_succ] at h; simp only [balS] at hb
        simpa [Stmt.isCounter, Stmt.id] using gain_of_start (ih.stmts _ false _ _ _ hb h)
      | ifS j b e =>
        simp only [execStmt_succ] at h; simp only [balS, Bool.and_eq_true] at hb
        split at h
        · simpa [Stmt.isCounter, Stmt.id] using gain_of_start (ih.stmts _ false _ _ _ hb.1 h)
        · simpa [Stmt.isCounter, Stmt.id] using gain_of_start (ih.stmts _ false _ _ _ hb.2 h)
      | whileS j b =>
        simp only [execStmt_succ] at h; simp only [balS] at hb
        simpa [Stmt.isCounter, Stmt.id] using gain_of_start (ih.loop _ _ _ _ _ hb h)
      | forS j b =>
        simp only [execStmt_succ] at h; simp only [balS] at hb
        simpa [Stmt.isCounter, Stmt.id] using gain_of_start (ih.loop _ _ _ _ _ hb h)
      | doWhile j b =>
        simp only [execStmt_succ] at h; simp only [balS] at hb
        simpa [Stmt.isCounter, Stmt.id] using gain_of_start (ih.loop _ _ _ _ _ hb h)
      | forIn j b =>
        simp only [execStmt_succ] at h; simp only [balS] at hb
        simpa [Stmt.isCounter, Stmt.id] using gain_of_start (ih.iter _ _ _ _ _ hb h)
    · intro ss prev sc tr r hb h
      cases ss with
      | nil g =>
        rw [execStmts_succ] at h; simp only [] at h; injection h with h; subst h
        simp only [balL, Bool.not_eq_true'] at hb
        simp only [Gain, hb]; simp; omega
      | cons s rest =>
        rw [execStmts_succ] at h; simp only [] at h
        cases hs : execStmt f s sc tr with
        | none => simp [hs] at h
        | some r1 =>
          simp only [hs] at h
          have h1 := ih.stmt s sc tr r1
          cases hc : s.isCounter with
          | true =>
            simp only [balL, hc, if_true, Bool.and_eq_true, Bool.not_eq_true'] at hb
            obtain ⟨c, rfl⟩ : ∃ c, s = .counter c := by cases s <;> simp [Stmt.isCounter] at hc; exact ⟨_, rfl⟩
            cases f with
            | zero => simp [execStmt] at hs
            | succ f' =>
              simp only [execStmt_succ] at hs; injection hs with hs; subst hs
              simp only [if_true] at h
              have h2 := ih.stmts rest _ _ _ _ hb.2 h
              simp only [Gain, countStart_ctr, countCtr_ctr, Stmt.id, hb.1] at h2 ⊢
              by_cases hck : c = k <;> simp [hck] at h2 ⊢ <;> omega
          | false =>
            simp only [balL, hc, Bool.false_eq_true, if_false, Bool.and_eq_true] at hb
            have h1' := h1 hb.1.2 hs
            simp only [hc, true_and] at h1'
            have hp : (prev = true) ↔ s.id = i := by
              have := hb.1.1
              cases prev <;> simp at this ⊢ <;> simpa using this
            split at h
            · have h2 := ih.stmts rest false _ _ _ hb.2 h
              simp only [Gain] at h1' h2 ⊢
              by_cases hi : s.id = i
              · simp [hi, hp.2 hi] at h1' h2 ⊢; omega
              · have : prev = false := by cases prev <;> simp_all
                simp [hi, this] at h1' h2 ⊢; omega
            · injection h with h; subst h
              simp only [Gain] at h1' ⊢
              by_cases hi : s.id = i
              · simp [hi, hp.2 hi] at h1' ⊢; omega
              · have : prev = false := by cases prev <;> simp_all
                simp [hi, this] at h1' ⊢; omega
    · intro b tf sc tr r hb h
      rw [loop_succ] at h
      split at h
      · injection h with h; subst h; simp only [Gain]; omega
      · cases hbd : execStmts f b (if tf = true then (nextDecision sc).2 else sc) tr with
        | none => simp [hbd] at h
        | some r1 =>
          simp only [hbd] at h
          have h1 := ih.stmts b false _ _ _ hb hbd
          simp only [Gain, Bool.false_eq_true, if_false] at h1
          split at h
          · injection h with h; subst h; simpa [Gain] using h1
          · split at h
            · split at h
              · have h2 := ih.loop _ _ _ _ _ hb h; simp only [Gain] at h2 ⊢; omega
              · split at h
                · have h2 := ih.loop _ _ _ _ _ hb h; simp only [Gain] at h2 ⊢; omega
                · injection h with h; subst h; simpa [Gain] using h1
            · injection h with h; subst h; simpa [Gain] using h1
    · intro b n sc tr r hb h
      cases n with
      | zero => rw [iter_zero] at h; injection h with h; subst h; simp only [Gain]; omega
      | succ n =>
        rw [iter_succ] at h
        cases hbd : execStmts f b sc tr with
        | none => simp [hbd] at h
        | some r1 =>
          simp only [hbd] at h
          have h1 := ih.stmts b false _ _ _ hb hbd
          simp only [Gain, Bool.false_eq_true, if_false] at h1
          split at h
          · injection h with h; subst h; simpa [Gain] using h1
          · split at h
            · have h2 := ih.iter _ _ _ _ _ hb h; simp only [Gain] at h2 ⊢; omega
            · injection h with h; subst h; simpa [Gain] using h1



/-- the block whose counter and first statement we follow: block number `kk` (counter `kk + 1`) of the final block list `B`,
its first statement `i`; identifiers occur at most once in `B` -/
structure Target (kk i : Nat) (B : List Block) : Prop where
  blk : ∃ b, B[kk]? = some b ∧ b.ids.head? = some i
  nodup : ∀ x, (flatIds B).count x ≤ 1

theorem count_flatIds_of_mem (bs : List Block) (b : Block) (i : Nat) (hb : b ∈ bs) (hi : i ∈ b.ids) :
    1 ≤ (flatIds bs).count i := by
  induction bs with
  | nil => cases hb
  | cons a bs ih =>
    simp only [flatIds, List.flatMap_cons, List.count_append]
    rcases List.mem_cons.1 hb with rfl | h
    · have := List.count_pos_iff.2 hi; omega
    · have := ih h; simp only [flatIds] at this; omega

theorem target_at {kk i : Nat} {B : List Block} (T : Target kk i B) (pre post : List Block) (blk : Block)
    (hB : B = pre ++ blk :: post) :
    (pre.length = kk → blk.ids.head? = some i) ∧ (pre.length ≠ kk → blk.ids.count i = 0) ∧ blk.ids.count i ≤ 1 := by
  obtain ⟨b, hb, hh⟩ := T.blk
  have hi : i ∈ b.ids := by
    cases hids : b.ids with
    | nil => simp [hids] at hh
    | cons a r => simp [hids] at hh; subst hh; simp
  have hn := T.nodup i
  subst hB
  simp only [flatIds, List.flatMap_append, List.flatMap_cons, List.count_append] at hn
  refine ⟨?_, ?_, by omega⟩
  · intro hl
    rw [← hl, List.getElem?_append_right (Nat.le_refl _)] at hb
    simp at hb; subst hb; exact hh
  · intro hl
    by_cases hlt : kk < pre.length
    · rw [List.getElem?_append_left hlt] at hb
      have := count_flatIds_of_mem pre b i (List.mem_of_getElem? hb) hi
      simp only [flatIds] at this; omega
    · have hgt : pre.length < kk := by omega
      rw [List.getElem?_append_right (by omega)] at hb
      have hpos : kk - pre.length = (kk - pre.length - 1) + 1 := by omega
      rw [hpos, List.getElem?_cons_succ] at hb
      have := count_flatIds_of_mem post b i (List.mem_of_getElem? hb) hi
      simp only [flatIds] at this; omega

theorem bal_prepend_none (k i : Nat) (run : List Stmt) (X : Stmts)
    (hr : ∀ s ∈ run, s.isCounter = false ∧ balS k i s = true ∧ s.id ≠ i) (hX : balL k i false X = true) :
    balL k i false (prepend run X) = true := by
  induction run with
  | nil => simpa [prepend] using hX
  | cons s run ih =>
    obtain ⟨h1, h2, h3⟩ := hr s (by simp)
    simp only [prepend, balL, h1, Bool.false_eq_true, if_false, Bool.and_eq_true]
    refine ⟨⟨by simp [h3], h2⟩, ih (fun x hx => hr x (by simp [hx]))⟩

theorem track_bal {kk i : Nat} {B : List Block} (T : Target kk i B) (pre post : List Block) (R : List Stmt) (X : Stmts)
    (hne : R ≠ []) (hR : ∀ s ∈ R, s.isCounter = false ∧ balS (kk + 1) i s = true)
    (hB : B = pre ++ ⟨R.map Stmt.id⟩ :: post) (hX : balL (kk + 1) i false X = true) :
    balL (kk + 1) i false (.cons (.counter (pre.length + 1)) (prepend R X)) = true := by
  obtain ⟨h1, h2, h3⟩ := target_at T pre post ⟨R.map Stmt.id⟩ hB
  cases R with
  | nil => exact absurd rfl hne
  | cons s0 tl =>
    obtain ⟨hc0, hb0⟩ := hR s0 (by simp)
    simp only [List.map_cons, List.head?_cons, List.count_cons] at h1 h2 h3
    have htl : ∀ s ∈ tl, s.isCounter = false ∧ balS (kk + 1) i s = true ∧ (pre.length = kk ∨ s0.id ≠ i → s.id ≠ i) := by
      intro s hs
      obtain ⟨a, b⟩ := hR s (by simp [hs])
      refine ⟨a, b, ?_⟩
      intro _ hsi
      have : 0 < (tl.map Stmt.id).count i := List.count_pos_iff.2 (by rw [← hsi]; exact List.mem_map_of_mem hs)
      by_cases hl : pre.length = kk
      · have := h1 hl; simp at this; simp [this] at h3; omega
      · have := h2 hl; omega
    have e1 : (Stmt.counter (pre.length + 1)).isCounter = true := rfl
    have e2 : (Stmt.counter (pre.length + 1)).id = pre.length + 1 := rfl
    simp only [balL, e1, e2, if_true, Bool.not_false, Bool.true_and, prepend, hc0, Bool.false_eq_true, if_false,
      Bool.and_eq_true]
    by_cases hl : pre.length = kk
    · have hs0 : s0.id = i := by have := h1 hl; simpa using this
      refine ⟨⟨by simp [hl, hs0], hb0⟩, ?_⟩
      exact bal_prepend_none _ _ tl X (fun s hs => let ⟨a, b, c⟩ := htl s hs; ⟨a, b, c (Or.inl hl)⟩) hX
    · have hz := h2 hl
      have hs0 : s0.id ≠ i := by
        intro h; simp [h] at hz
      have e3 : (s0.id == i) = false := by simpa using hs0
      have e4 : (pre.length + 1 == kk + 1) = false := by simpa using hl
      refine ⟨⟨by rw [e3, e4]; rfl, hb0⟩, ?_⟩
      exact bal_prepend_none _ _ tl X (fun s hs => let ⟨a, b, c⟩ := htl s hs; ⟨a, b, c (Or.inr hs0)⟩) hX



theorem annStmt_not_counter (st : AnnState) (s : Stmt) (h : s.isCounter = false) : (annStmt st s).2.isCounter = false := by
  cases s <;> simp [Stmt.isCounter] at h <;> simp [annStmt, Stmt.isCounter]

theorem not_counter_of_hasCounter {s : Stmt} (h : hasCounterStmt s = false) : s.isCounter = false := by
  cases s <;> simp [hasCounterStmt] at h <;> simp [Stmt.isCounter]

/-- the body helper of `annStmt`, for the balance property -/
theorem body_bal {kk i : Nat} {B : List Block} (st : AnnState) (b : Stmts)
    (ih : ∀ st post, B = (annRun st [] b).1.blocks ++ post → balL (kk + 1) i false (annRun st [] b).2 = true) :
    ∀ post, B = (if b.isGoNil then (st, b) else annRun st [] b).1.blocks ++ post →
      balL (kk + 1) i false (if b.isGoNil then (st, b) else annRun st [] b).2 = true := by
  intro post hB
  cases hn : b.isGoNil with
  | true =>
    cases b with
    | nil f => simp [balL]
    | cons s r => simp [Stmts.isGoNil] at hn
  | false => simp only [hn] at hB ⊢; exact ih st post (by simpa using hB)

mutual
theorem annStmt_bal {kk i : Nat} {B : List Block} (T : Target kk i B) (st : AnnState) (s : Stmt) (hc : hasCounterStmt s = false)
    (post : List Block) (hB : B = (annStmt st s).1.blocks ++ post) : balS (kk + 1) i (annStmt st s).2 = true := by
  cases s with
  | simple j => simp [annStmt, balS]
  | jump j jj => simp [annStmt, balS]
  | counter c => simp [hasCounterStmt] at hc
  | ifS j b e =>
    simp only [hasCounterStmt, Bool.or_eq_false_iff] at hc
    simp only [annStmt] at hB ⊢
    obtain ⟨nbe, hnbe, _⟩ := body_blocks (if b.isGoNil then (st, b) else annRun st [] b).1 e
      (fun st => by simpa using annRun_blocks st [] e hc.2)
    simp only [balS, Bool.and_eq_true]
    constructor
    · exact body_bal st b (fun st post h => annRun_bal T st [] b hc.1 (by simp) post h) (nbe ++ post)
        (by rw [hB, hnbe, List.append_assoc])
    · exact body_bal _ e (fun st post h => annRun_bal T st [] e hc.2 (by simp) post h) post hB
  | whileS j b =>
    simp only [hasCounterStmt] at hc; simp only [annStmt] at hB ⊢; simp only [balS]
    exact body_bal st b (fun st post h => annRun_bal T st [] b hc (by simp) post h) post hB
  | forS j b =>
    simp only [hasCounterStmt] at hc; simp only [annStmt] at hB ⊢; simp only [balS]
    exact body_bal st b (fun st post h => annRun_bal T st [] b hc (by simp) post h) post hB
  | forIn j b =>
    simp only [hasCounterStmt] at hc; simp only [annStmt] at hB ⊢; simp only [balS]
    exact body_bal st b (fun st post h => annRun_bal T st [] b hc (by simp) post h) post hB
  | doWhile j b =>
    simp only [hasCounterStmt] at hc; simp only [annStmt] at hB ⊢; simp only [balS]
    exact body_bal st b (fun st post h => annRun_bal T st [] b hc (by simp) post h) post hB
  | block j b =>
    simp only [hasCounterStmt] at hc; simp only [annStmt] at hB ⊢; simp only [balS]
    exact body_bal st b (fun st post h => annRun_bal T st [] b hc (by simp) post h) post hB
theorem annRun_bal {kk i : Nat} {B : List Block} (T : Target kk i B) (st : AnnState) (run : List Stmt) (ss : Stmts)
    (hc : hasCounter ss = false) (hrun : ∀ s ∈ run, s.isCounter = false ∧ balS (kk + 1) i s = true)
    (post : List Block) (hB : B = (annRun st run ss).1.blocks ++ post) :
    balL (kk + 1) i false (annRun st run ss).2 = true := by
  cases ss with
  | nil f =>
    simp only [annRun] at hB ⊢
    cases run with
    | nil => simp [balL]
    | cons a run =>
      simp only [List.isEmpty_cons, Bool.false_eq_true, if_false, AnnState.track] at hB ⊢
      exact track_bal T st.blocks post (a :: run) (.nil false) (by simp) hrun (by simpa using hB) (by simp [balL])
  | cons s rest =>
    simp only [hasCounter, Bool.or_eq_false_iff] at hc
    have hnc := annStmt_not_counter st s (not_counter_of_hasCounter hc.1)
    simp only [annRun] at hB ⊢
    cases hcomp : s.isCompound with
    | true =>
      simp only [hcomp, if_true, AnnState.track] at hB ⊢
      obtain ⟨nb2, h2, _⟩ := annRun_blocks ⟨(annStmt st s).1.blocks ++ [⟨(run ++ [(annStmt st s).2]).map Stmt.id⟩]⟩ [] rest hc.2
      have hB' : B = (annStmt st s).1.blocks ++ (⟨(run ++ [(annStmt st s).2]).map Stmt.id⟩ :: (nb2 ++ post)) := by
        rw [hB, h2]; simp [List.append_assoc]
      have hs' := annStmt_bal T st s hc.1 _ hB'
      have hrest := annRun_bal T ⟨(annStmt st s).1.blocks ++ [⟨(run ++ [(annStmt st s).2]).map Stmt.id⟩]⟩ [] rest hc.2 (by simp) post hB
      exact track_bal T (annStmt st s).1.blocks (nb2 ++ post) (run ++ [(annStmt st s).2]) _ (by simp)
        (by
          intro x hx
          rcases List.mem_append.1 hx with h | h
          · exact hrun x h
          · simp at h; subst h; exact ⟨hnc, hs'⟩)
        hB' hrest
    | false =>
      simp only [hcomp, Bool.false_eq_true, if_false] at hB ⊢
      obtain ⟨nb2, h2, _⟩ := annRun_blocks (annStmt st s).1 (run ++ [(annStmt st s).2]) rest hc.2
      have hs' := annStmt_bal T st s hc.1 (nb2 ++ post) (by rw [hB, h2, List.append_assoc])
      exact annRun_bal T (annStmt st s).1 (run ++ [(annStmt st s).2]) rest hc.2
        (by
          intro x hx
          rcases List.mem_append.1 hx with h | h
          · exact hrun x h
          · simp at h; subst h; exact ⟨hnc, hs'⟩)
        post hB
end


theorem countStart_eraseTrace (i : Nat) (tr : List Ev) : countStart i (eraseTrace tr) = countStart i tr := by
  induction tr with
  | nil => rfl
  | cons e tr ih =>
    cases e with
    | start j => simp only [eraseTrace, countStart, List.filter_cons] at ih ⊢; simp [List.count_cons, ih]
    | ctr c => simp only [eraseTrace, countStart, List.filter_cons] at ih ⊢; simp [List.count_cons, ih]

/-- `annStmts` (any annotator state, any continuation of the block list): the annotated body is balanced for every target block -/
theorem annStmts_bal {kk i : Nat} {B : List Block} (T : Target kk i B) (st : AnnState) (ss : Stmts) (hc : hasCounter ss = false)
    (post : List Block) (hB : B = (annStmts st ss).1.blocks ++ post) : balL (kk + 1) i false (annStmts st ss).2 = true := by
  unfold annStmts at hB ⊢
  exact body_bal st ss (fun st post h => annRun_bal T st [] ss hc (by simp) post h) post hB


mutual
def sizeS : Stmt → Nat
  | .ifS _ b e => 1 + sizeL b + sizeL e
  | .whileS _ b | .forS _ b | .forIn _ b | .doWhile _ b | .block _ b => 1 + sizeL b
  | _ => 1
def sizeL : Stmts → Nat
  | .nil _ => 1
  | .cons s r => 1 + sizeS s + sizeL r
end

theorem eraseRun_eq {r r0 : Run} (h : eraseRun r = r0) : r.sig = r0.sig ∧ r.script = r0.script ∧ eraseTrace r.trace = r0.trace := by
  subst h; exact ⟨rfl, rfl, rfl⟩

structure RevAt (f : Nat) : Prop where
  stmt : ∀ s sc tr0 r0 tr, s.isCounter = false → eraseTrace tr = tr0 → execStmt f (eraseStmt s) sc tr0 = some r0 →
    ∀ N, sizeS s ≤ N → ∃ r, execStmt (f + N) s sc tr = some r ∧ eraseRun r = r0
  stmts : ∀ t sc tr0 r0 tr, eraseTrace tr = tr0 → execStmts f (eraseStmts t) sc tr0 = some r0 →
    ∀ N, sizeL t ≤ N → ∃ r, execStmts (f + N) t sc tr = some r ∧ eraseRun r = r0
  loop : ∀ b tf sc tr0 r0 tr, eraseTrace tr = tr0 → loop f (eraseStmts b) tf sc tr0 = some r0 →
    ∀ N, sizeL b ≤ N → ∃ r, loop (f + N) b tf sc tr = some r ∧ eraseRun r = r0
  iter : ∀ b n sc tr0 r0 tr, eraseTrace tr = tr0 → iter f (eraseStmts b) n sc tr0 = some r0 →
    ∀ N, sizeL b ≤ N → ∃ r, iter (f + N) b n sc tr = some r ∧ eraseRun r = r0

theorem succ_add_eq (f N : Nat) : f + 1 + N = (f + N) + 1 := by omega

theorem rev_stmts (f : Nat) (ih : RevAt f) : ∀ (t : Stmts) (sc : List Nat) (tr0 : List Ev) (r0 : Run) (tr : List Ev),
    eraseTrace tr = tr0 → execStmts (f + 1) (eraseStmts t) sc tr0 = some r0 →
    ∀ N, sizeL t ≤ N → ∃ r, execStmts (f + 1 + N) t sc tr = some r ∧ eraseRun r = r0
  | .nil g, sc, tr0, r0, tr, htr, h, N, hN => by
    rw [succ_add_eq, execStmts_succ]
    simp only [eraseStmts] at h; rw [execStmts_succ] at h; simp only [] at h ⊢
    injection h with h; subst h
    exact ⟨_, rfl, by simp [eraseRun, htr]⟩
  | .cons s rest, sc, tr0, r0, tr, htr, h, N, hN => by
    have ihrest := rev_stmts f ih rest
    simp only [sizeL] at hN
    cases hc : s.isCounter with
    | true =>
      obtain ⟨k, rfl⟩ : ∃ k, s = .counter k := by cases s <;> simp [Stmt.isCounter] at hc; exact ⟨_, rfl⟩
      rw [eraseStmts_cons_counter] at h
      obtain ⟨r, hr, he⟩ := ihrest sc tr0 r0 (tr ++ [.ctr k]) (by rw [eraseTrace_ctr, htr]) h (N - 1) (by omega)
      refine ⟨r, ?_, he⟩
      have e1 : f + 1 + N = (f + N) + 1 := by omega
      have e2 : f + N = (f + 1 + (N - 1) - 1) + 1 := by omega
      rw [e1, execStmts_succ]; simp only []
      rw [e2, execStmt_succ]; simp only [if_true]
      have e3 : f + 1 + (N - 1) - 1 + 1 = f + 1 + (N - 1) := by omega
      rw [e3]; exact hr
    | false =>
      rw [eraseStmts_cons_of_not_counter s rest hc, execStmts_succ] at h; simp only [] at h
      cases hs : execStmt f (eraseStmt s) sc tr0 with
      | none => simp [hs] at h
      | some r10 =>
        simp only [hs] at h
        obtain ⟨r1, hr1, he1⟩ := ih.stmt s sc tr0 r10 tr hc htr hs N (by omega)
        obtain ⟨g1, g2, g3⟩ := eraseRun_eq he1
        rw [succ_add_eq, execStmts_succ]; simp only []
        rw [hr1]; simp only []
        split at h
        · rename_i hn
          rw [if_pos (by rw [g1]; exact hn), g2]
          exact ih.stmts rest _ _ _ _ g3 h N (by omega)
        · rename_i hn
          rw [if_neg (by rw [g1]; exact hn)]
          injection h with h; subst h
          exact ⟨r1, rfl, he1⟩

theorem rev_sim : ∀ f, RevAt f
  | 0 => ⟨by intro s sc tr0 r0 tr _ _ h; simp [execStmt] at h, by intro s sc tr0 r0 tr _ h; simp [execStmts] at h,
          by intro b tf sc tr0 r0 tr _ h; simp [loop] at h, by intro b n sc tr0 r0 tr _ h; simp [iter] at h⟩
  | f + 1 => by
    have ih := rev_sim f
    refine ⟨?_, ?_, ?_, ?_⟩
    · intro s sc tr0 r0 tr hnc htr h N hN
      rw [succ_add_eq]
      cases s with
      | simple i =>
        simp only [execStmt_succ, eraseStmt] at h ⊢; injection h with h; subst h
        exact ⟨_, rfl, by simp [eraseRun, eraseTrace_start, htr]⟩
      | jump i j =>
        simp only [execStmt_succ, eraseStmt] at h ⊢; injection h with h; subst h
        exact ⟨_, rfl, by simp [eraseRun, eraseTrace_start, htr]⟩
      | counter k => simp [Stmt.isCounter] at hnc
      | block i b =>
        simp only [execStmt_succ, eraseStmt, sizeS] at h hN ⊢
        exact ih.stmts _ _ _ _ _ (by rw [eraseTrace_start, htr]) h N (by omega)
      | ifS i b e =>
        simp only [execStmt_succ, eraseStmt, sizeS] at h hN ⊢
        split at h
        · rename_i hd; rw [if_pos hd]; exact ih.stmts _ _ _ _ _ (by rw [eraseTrace_start, htr]) h N (by omega)
        · rename_i hd; rw [if_neg hd]; exact ih.stmts _ _ _ _ _ (by rw [eraseTrace_start, htr]) h N (by omega)
      | whileS i b =>
        simp only [execStmt_succ, eraseStmt, sizeS] at h hN ⊢
        exact ih.loop _ _ _ _ _ _ (by rw [eraseTrace_start, htr]) h N (by omega)
      | forS i b =>
        simp only [execStmt_succ, eraseStmt, sizeS] at h hN ⊢
        exact ih.loop _ _ _ _ _ _ (by rw [eraseTrace_start, htr]) h N (by omega)
      | doWhile i b =>
        simp only [execStmt_succ, eraseStmt, sizeS] at h hN ⊢
        exact ih.loop _ _ _ _ _ _ (by rw [eraseTrace_start, htr]) h N (by omega)
      | forIn i b =>
        simp only [execStmt_succ, eraseStmt, sizeS] at h hN ⊢
        exact ih.iter _ _ _ _ _ _ (by rw [eraseTrace_start, htr]) h N (by omega)
    · exact rev_stmts f ih
    · intro b tf sc tr0 r0 tr htr h N hN
      rw [succ_add_eq, loop_succ]
      rw [loop_succ] at h
      split at h
      · rename_i hc; rw [if_pos hc]; injection h with h; subst h
        exact ⟨_, rfl, by simp [eraseRun, htr]⟩
      · rename_i hc
        rw [if_neg hc]
        cases hb : execStmts f (eraseStmts b) (if tf = true then (nextDecision sc).2 else sc) tr0 with
        | none => simp [hb] at h
        | some r10 =>
          simp only [hb] at h
          obtain ⟨r1, hr1, he1⟩ := ih.stmts b _ _ _ tr htr hb N hN
          obtain ⟨g1, g2, g3⟩ := eraseRun_eq he1
          rw [hr1]; simp only []
          rw [g1, g2]
          split at h
          · rename_i h1; rw [if_pos h1]; injection h with h; subst h
            exact ⟨_, rfl, by simp [eraseRun, g3]⟩
          · rename_i h1
            rw [if_neg h1]
            split at h
            · rename_i h2
              rw [if_pos h2]
              split at h
              · rename_i h3; rw [if_pos h3]; exact ih.loop _ _ _ _ _ _ g3 h N hN
              · rename_i h3
                rw [if_neg h3]
                split at h
                · rename_i h4; rw [if_pos h4]; exact ih.loop _ _ _ _ _ _ g3 h N hN
                · rename_i h4; rw [if_neg h4]; injection h with h; subst h
                  exact ⟨_, rfl, by simp [eraseRun, g3]⟩
            · rename_i h2; rw [if_neg h2]; injection h with h; subst h
              exact ⟨r1, rfl, he1⟩
    · intro b n sc tr0 r0 tr htr h N hN
      rw [succ_add_eq]
      cases n with
      | zero => rw [iter_zero] at h ⊢; injection h with h; subst h; exact ⟨_, rfl, by simp [eraseRun, htr]⟩
      | succ n =>
        rw [iter_succ] at h ⊢
        cases hb : execStmts f (eraseStmts b) sc tr0 with
        | none => simp [hb] at h
        | some r10 =>
          simp only [hb] at h
          obtain ⟨r1, hr1, he1⟩ := ih.stmts b _ _ _ tr htr hb N hN
          obtain ⟨g1, g2, g3⟩ := eraseRun_eq he1
          rw [hr1]; simp only []
          rw [g1, g2]
          split at h
          · rename_i h1; rw [if_pos h1]; injection h with h; subst h
            exact ⟨_, rfl, by simp [eraseRun, g3]⟩
          · rename_i h1
            rw [if_neg h1]
            split at h
            · rename_i h2; rw [if_pos h2]; exact ih.iter _ _ _ _ _ _ g3 h N hN
            · rename_i h2; rw [if_neg h2]; injection h with h; subst h
              exact ⟨r1, rfl, he1⟩


end GoawkModel.C18
