import Proofs.C11Lift
import Proofs.C11Input
import Proofs.C11Range
/-!
Range rules inside the whole machine: every evaluation of a range rule is logged (ghost `visits`); the decisions logged for
one rule follow the flag automaton of `Proofs.C11Range` over exactly the records that reached that rule — whatever earlier
rules did (next, nextfile, getline changing `$0`), for every program, world and fuel.
-/
namespace GoawkModel.C11

/-- the automaton state of rule `i` after the logged visits (newest first) -/
def flagOf (i : Nat) : List Visit → Bool
  | [] => false
  | v :: older => if v.rule = i then (rangeStep (flagOf i older) v.b v.e).2 else flagOf i older

/-- every logged decision is the automaton's decision in the state the earlier visits of the same rule left -/
def Consistent : List Visit → Prop
  | [] => True
  | v :: older => v.matched = (rangeStep (flagOf v.rule older) v.b v.e).1 ∧ Consistent older

/-! ### operations never touch the log -/

theorem openWalk_visits : ∀ (n : Nat) (s : St), (openWalk n s).2.visits = s.visits
  | 0, s => by
    unfold openWalk
    split
    · rfl
    · split <;> simp [St.setFile, St.took]
  | n + 1, s => by
    have ih := openWalk_visits n
    unfold openWalk
    simp only [St.fetch]
    split
    · rw [ih]; unfold St.setVarByName; split
      · rfl
      · split
        · rfl
        · split <;> rfl
    · rw [ih]
    · split <;> simp [ih, St.setFile, St.took]
    · split <;> simp [ih, St.setFile, St.took]

theorem nextLine_visits (s : St) : (nextLine s).2.visits = s.visits := by
  unfold nextLine
  split
  · rfl
  · rw [openWalk_visits]

theorem visitsEq_stableOps (v0 : List Visit) : StableOps (fun s => s.visits = v0) where
  emit s tag h := h
  ev s e _ h := h
  exitSome s n h := h
  gl s h := by
    have hv := nextLine_visits s
    unfold doGetline
    rcases hn : nextLine s with ⟨t, s1⟩
    rw [hn] at hv
    cases t <;> exact hv.trans h
  glv s v h := by
    have hv := nextLine_visits s
    unfold doGetlineVar
    rcases hn : nextLine s with ⟨t, s1⟩
    rw [hn] at hv
    cases t <;> exact hv.trans h
  glf s f h := by
    unfold doGetlineFile readStream
    cases lookup f s.streams with
    | some rs => cases rs <;> exact h
    | none =>
      cases lookup f s.fs with
      | none => exact h
      | some rs => cases rs <;> exact h
  glvf s v f h := by
    unfold doGetlineVarFile readStream
    cases lookup f s.streams with
    | some rs => cases rs <;> exact h
    | none =>
      cases lookup f s.fs with
      | none => exact h
      | some rs => cases rs <;> exact h
  argv s i v h := h
  argc s n h := h
  close s f h := h
  fname s v h := h
  fsep s v h := h
  enter s h := h
  leave s h := h

theorem execOps_visits (os : List Op) (s : St) : (execOps os s).2.visits = s.visits :=
  execOps_preserves (visitsEq_stableOps s.visits) os s rfl

/-! ### one record through the rule list -/

theorem flagOf_logVisit_other (s : St) (i j : Nat) (p : Pat) (f : Bool) (h : j ≠ i) :
    flagOf j (s.logVisit i p f).visits = flagOf j s.visits := by
  unfold St.logVisit
  split
  · simp only [flagOf]
    rw [if_neg (fun h' => h h'.symm)]
  · rfl

/-- `fl` holds the automaton states of the rules at positions `i, i+1, …` -/
def FlagsOk (i : Nat) (fl : List Bool) (vs : List Visit) : Prop :=
  ∀ k, k < fl.length → fl.getD k false = flagOf (i + k) vs

theorem flagsOk_tail {i : Nat} {f : Bool} {fl : List Bool} {vs : List Visit} (h : FlagsOk i (f :: fl) vs) :
    FlagsOk (i + 1) fl vs := by
  intro k hk
  have := h (k + 1) (by simpa using hk)
  simpa [Nat.add_assoc, Nat.add_comm 1 k] using this

theorem head_step (s : St) (i : Nat) (p : Pat) (f : Bool) (hc : Consistent s.visits) (hf : f = flagOf i s.visits) :
    Consistent (s.logVisit i p f).visits ∧ (matchPat p f s.view).2 = flagOf i (s.logVisit i p f).visits := by
  cases p with
  | always => exact ⟨hc, hf⟩
  | pred c => exact ⟨hc, hf⟩
  | range b e =>
    subst hf
    simp [St.logVisit, matchPat, Consistent, flagOf, hc]

theorem runRules_visits : ∀ (i : Nat) (rules : List Rule) (fl : List Bool) (s : St),
    fl.length = rules.length → Consistent s.visits → FlagsOk i fl s.visits →
    Consistent (runRules i rules fl s).2.2.visits ∧ FlagsOk i (runRules i rules fl s).2.1 (runRules i rules fl s).2.2.visits ∧
    (runRules i rules fl s).2.1.length = rules.length ∧
    ∀ j, j < i → flagOf j (runRules i rules fl s).2.2.visits = flagOf j s.visits
  | i, [], fl, s, hl, hc, hf => by
    unfold runRules
    exact ⟨hc, hf, hl, fun _ _ => rfl⟩
  | i, r :: rs, [], s, hl, _, _ => by simp at hl
  | i, r :: rs, f :: fl, s, hl, hc, hf => by
    have hl' : fl.length = rs.length := by simpa using hl
    have hf0 : f = flagOf i s.visits := by simpa using hf 0 (by simp)
    obtain ⟨hc1, hf1⟩ := head_step s i r.pat f hc hf0
    -- the flags of the later rules are not affected by logging rule i
    have hft : FlagsOk (i + 1) fl (s.logVisit i r.pat f).visits := by
      intro k hk
      rw [flagOf_logVisit_other s i (i + 1 + k) r.pat f (by omega)]
      exact flagsOk_tail hf k hk
    have hlow : ∀ j, j < i → flagOf j (s.logVisit i r.pat f).visits = flagOf j s.visits :=
      fun j hj => flagOf_logVisit_other s i j r.pat f (by omega)
    -- assemble the result for a continuation state `s1` whose log is that of the logged state
    have finish : ∀ s1 : St, s1.visits = (s.logVisit i r.pat f).visits →
        Consistent (runRules (i + 1) rs fl s1).2.2.visits ∧
        FlagsOk i ((matchPat r.pat f s.view).2 :: (runRules (i + 1) rs fl s1).2.1) (runRules (i + 1) rs fl s1).2.2.visits ∧
        ((matchPat r.pat f s.view).2 :: (runRules (i + 1) rs fl s1).2.1).length = (r :: rs).length ∧
        ∀ j, j < i → flagOf j (runRules (i + 1) rs fl s1).2.2.visits = flagOf j s.visits := by
      intro s1 hv
      obtain ⟨a, b, c, d⟩ := runRules_visits (i + 1) rs fl s1 hl' (by rw [hv]; exact hc1) (by rw [hv]; exact hft)
      refine ⟨a, ?_, by simp [c], fun j hj => by rw [d j (by omega), hv]; exact hlow j hj⟩
      intro k hk
      cases k with
      | zero =>
        simp only [List.getD_cons_zero, Nat.add_zero]
        rw [d i (by omega), hv]
        exact hf1
      | succ k =>
        simp only [List.getD_cons_succ]
        have := b k (by simpa using hk)
        simpa [Nat.add_assoc, Nat.add_comm 1 k] using this
    have abort : ∀ s1 : St, s1.visits = (s.logVisit i r.pat f).visits →
        Consistent s1.visits ∧ FlagsOk i ((matchPat r.pat f s.view).2 :: fl) s1.visits ∧
        ((matchPat r.pat f s.view).2 :: fl).length = (r :: rs).length ∧ ∀ j, j < i → flagOf j s1.visits = flagOf j s.visits := by
      intro s1 hv
      refine ⟨by rw [hv]; exact hc1, ?_, by simp [hl'], fun j hj => by rw [hv]; exact hlow j hj⟩
      intro k hk
      cases k with
      | zero => simp only [List.getD_cons_zero, Nat.add_zero]; rw [hv]; exact hf1
      | succ k =>
        simp only [List.getD_cons_succ]
        rw [hv]
        have := hft k (by simpa using hk)
        simpa [Nat.add_assoc, Nat.add_comm 1 k] using this
    unfold runRules
    split
    · split
      · -- the begin pattern of a closed range raised: nothing was decided, nothing logged
        exact ⟨hc, hf, hl, fun _ _ => rfl⟩
      · exact abort _ rfl
    · simp only
      split
      · exact finish _ rfl
      · split
        · exact finish _ rfl
        · rename_i ops _
          have hv := execOps_visits ops (s.logVisit i r.pat f)
          rcases ho : execOps ops (s.logVisit i r.pat f) with ⟨sig, s1⟩
          rw [ho] at hv
          cases sig
          · exact finish s1 hv
          all_goals exact abort s1 hv

/-! ### the main loop and the whole run -/

theorem mainLoop_visits : ∀ (fuel : Nat) (rules : List Rule) (fl : List Bool) (s : St),
    fl.length = rules.length → Consistent s.visits → FlagsOk 0 fl s.visits →
    Consistent (mainLoop fuel rules fl s).2.visits
  | 0, _, _, s, _, hc, _ => by simp [mainLoop]; exact hc
  | fuel + 1, rules, fl, s, hl, hc, hf => by
    unfold mainLoop
    have hv := nextLine_visits s
    rcases hn : nextLine s with ⟨t, s1⟩
    rw [hn] at hv
    simp only at hv
    cases t with
    | eof => simp only; rw [hv]; exact hc
    | err => simp only; rw [hv]; exact hc
    | got r =>
      simp only
      have hv2 : (s1.beginRecord r).visits = s.visits := hv
      obtain ⟨a, b, c, _⟩ := runRules_visits 0 rules fl (s1.beginRecord r) hl (by rw [hv2]; exact hc) (by rw [hv2]; exact hf)
      rcases hr : runRules 0 rules fl (s1.beginRecord r) with ⟨sig, fl', s3⟩
      rw [hr] at a b c
      cases sig
      · exact mainLoop_visits fuel rules fl' s3 c a b
      · exact mainLoop_visits fuel rules fl' s3 c a b
      · exact mainLoop_visits fuel rules fl' s3.dropScanner c a b
      · exact a
      · exact a

theorem flagsOk_init (n : Nat) (vs : List Visit) (h : vs = []) : FlagsOk 0 (List.replicate n false) vs := by
  intro k hk
  subst h
  simp only [flagOf, List.getD_eq_getElem?_getD, List.getElem?_replicate]
  split <;> rfl

theorem run_visits (fuel : Nat) (p : Prog) (s : St) (h0 : s.visits = []) : Consistent (run fuel p s).2.visits := by
  unfold run
  have hb := execOps_visits p.begin s
  rcases hbe : execOps p.begin s with ⟨sigB, s1⟩
  rw [hbe, h0] at hb
  simp only at hb
  have hc1 : Consistent s1.visits := by rw [hb]; trivial
  have key : Consistent (if (p.rules.isEmpty && p.end_.isNone) = true then (true, s1) else
      match mainPhase fuel p sigB s1 with
      | (Sig.fatal, s2) => (false, s2)
      | (_, s2) => endPhase p s2).2.visits := by
    split
    · exact hc1
    · have h2 : Consistent (mainPhase fuel p sigB s1).2.visits := by
        unfold mainPhase
        split
        · exact hc1
        · have : (p.rules.map fun _ => false) = List.replicate p.rules.length false := by
            induction p.rules with
            | nil => rfl
            | cons _ _ ih => simp [List.replicate_succ, ih]
          rw [this]
          exact mainLoop_visits fuel p.rules _ s1 (by simp) hc1 (flagsOk_init _ _ hb)
      rcases hm : mainPhase fuel p sigB s1 with ⟨sigM, s2⟩
      rw [hm] at h2
      have h3 : Consistent (endPhase p s2).2.visits := by
        rw [endPhase_snd, execOps_visits]; exact h2
      cases sigM <;> first | exact h3 | exact h2
  cases sigB <;> first | exact key | exact hc1

/-! ### from the newest-first log to the automaton run over the history of one rule -/

def stateAfter : Bool → List (Bool × Bool) → Bool
  | f, [] => f
  | f, (b, e) :: rest => stateAfter (rangeStep f b e).2 rest

theorem rangeRun_snoc : ∀ (xs : List (Bool × Bool)) (f b e : Bool),
    rangeRun f (xs ++ [(b, e)]) = rangeRun f xs ++ [(rangeStep (stateAfter f xs) b e).1]
  | [], f, b, e => by simp [rangeRun, stateAfter]
  | (b0, e0) :: rest, f, b, e => by
    simp only [List.cons_append, rangeRun, stateAfter]
    rw [rangeRun_snoc rest]

theorem stateAfter_snoc : ∀ (xs : List (Bool × Bool)) (f b e : Bool),
    stateAfter f (xs ++ [(b, e)]) = (rangeStep (stateAfter f xs) b e).2
  | [], f, b, e => by simp [stateAfter]
  | (b0, e0) :: rest, f, b, e => by
    simp only [List.cons_append, stateAfter]
    rw [stateAfter_snoc rest]

/-- the visits of rule `i`, oldest first -/
def history (i : Nat) (vs : List Visit) : List Visit := (vs.filter fun v => v.rule == i).reverse

def Visit.be (v : Visit) : Bool × Bool := (v.b, v.e)

theorem history_cons_eq (i : Nat) (v : Visit) (vs : List Visit) (h : v.rule = i) : history i (v :: vs) = history i vs ++ [v] := by
  simp [history, List.filter_cons, h]

theorem history_cons_ne (i : Nat) (v : Visit) (vs : List Visit) (h : v.rule ≠ i) : history i (v :: vs) = history i vs := by
  simp [history, List.filter_cons, h]

theorem flagOf_eq : ∀ (i : Nat) (vs : List Visit), flagOf i vs = stateAfter false ((history i vs).map Visit.be)
  | i, [] => rfl
  | i, v :: vs => by
    unfold flagOf
    split
    · rename_i h
      rw [history_cons_eq i v vs h, List.map_append, List.map_singleton, Visit.be, stateAfter_snoc, flagOf_eq i vs]
    · rename_i h
      rw [history_cons_ne i v vs h, flagOf_eq i vs]

/-- the decisions logged for rule `i` are the automaton run over the pattern values of the records that reached it -/
theorem consistent_history : ∀ (i : Nat) (vs : List Visit), Consistent vs →
    (history i vs).map (·.matched) = rangeRun false ((history i vs).map Visit.be)
  | i, [], _ => rfl
  | i, v :: vs, hc => by
    obtain ⟨hm, hrest⟩ := hc
    by_cases h : v.rule = i
    · rw [history_cons_eq i v vs h, List.map_append, List.map_append, List.map_singleton, List.map_singleton, Visit.be,
        rangeRun_snoc, consistent_history i vs hrest, hm, h, flagOf_eq i vs]
    · rw [history_cons_ne i v vs h]
      exact consistent_history i vs hrest

end GoawkModel.C11
