import Proofs.C08RoundTrip
/-! C08: a record that ended at a line break is parsed identically whatever bytes follow it (the core of chunk independence
and of "never bytes of a neighbouring record"). Core Lean only. -/
namespace GoawkModel.C08
open GoawkModel

theorem sep_no10 {sep : Bytes} (hs : validSep sep = true) : 10 ∉ sep := by
  obtain ⟨h, t, rfl, -, -, -, h10, hcont⟩ := validSep_cons hs
  simp only [List.mem_cons, not_or]
  refine ⟨fun e => h10 e.symm, fun hm => ?_⟩
  exact (isCont_ne (hcont 10 hm)).1 rfl

theorem sep_no34 {sep : Bytes} (hs : validSep sep = true) : 34 ∉ sep := by
  obtain ⟨h, t, rfl, -, h34, -, -, hcont⟩ := validSep_cons hs
  simp only [List.mem_cons, not_or]
  refine ⟨fun e => h34 e.symm, fun hm => ?_⟩
  exact (isCont_ne (hcont 34 hm)).2.2 rfl

theorem isPrefixOf_false_of_length {sep s : Bytes} (h : s.length < sep.length) : sep.isPrefixOf s = false := by
  cases hp : sep.isPrefixOf s with
  | false => rfl
  | true =>
    have := (List.isPrefixOf_iff_prefix.mp hp).length_le
    omega

theorem isPrefixOf_append_mono {sep d : Bytes} (x : Bytes) (h : sep.isPrefixOf d = true) : sep.isPrefixOf (d ++ x) = true := by
  rw [List.isPrefixOf_iff_prefix] at h ⊢
  exact h.trans (List.prefix_append d x)

theorem drop_append_of_prefix {sep d : Bytes} (x : Bytes) (h : sep.isPrefixOf d = true) :
    (d ++ x).drop sep.length = d.drop sep.length ++ x := by
  have := (List.isPrefixOf_iff_prefix.mp h).length_le
  rw [List.drop_append_of_le_length this]

/-- `d` is a proper prefix of `sep` when `sep` starts `d ++ x` but not `d` -/
theorem proper_prefix {sep d x : Bytes} (h1 : sep.isPrefixOf d = false) (h2 : sep.isPrefixOf (d ++ x) = true) :
    d.length < sep.length ∧ ∀ b ∈ d, b ∈ sep := by
  rcases prefix_split sep d x h2 with h | ⟨y, t, _, hy⟩
  · rw [h] at h1; exact absurd h1 (by simp)
  · have hl : d.length < sep.length := by
      by_cases hlt : d.length < sep.length
      · exact hlt
      · rw [List.drop_eq_nil_of_le (by omega)] at hy; simp at hy
    refine ⟨hl, ?_⟩
    have hp : d <+: sep :=
      List.prefix_of_prefix_length_le (List.prefix_append d x) (List.isPrefixOf_iff_prefix.mp h2) (by omega)
    intro b hb
    exact hp.subset hb

/-- a text shorter than the separator, without line breaks, is one unquoted field that runs to the end of the data -/
theorem unq_short (sep : Bytes) : ∀ s : Bytes, s.length < sep.length → 10 ∉ s → 13 ∉ s → unq sep s = (s, [], .eof) := by
  intro s
  induction s with
  | nil => intro _ _ _; simp [unq]
  | cons b s ih =>
    intro hl h10 h13
    simp at h10 h13
    have hp := isPrefixOf_false_of_length hl
    have := ih (by simp at hl; omega) h10.2 h13.2
    have hb10 : b ≠ 10 := fun h => h10.1 (Eq.symm h)
    have hb13 : b ≠ 13 := fun h => h13.1 (Eq.symm h)
    simp [unq, hp, hb10, hb13, this]

theorem unq_ext {sep : Bytes} (hs : validSep sep = true) (x : Bytes) : ∀ (d f r : Bytes) (e : End),
    unq sep d = (f, r, e) → e ≠ .eof → unq sep (d ++ x) = (f, r ++ x, e) := by
  intro d
  induction d with
  | nil => intro f r e h he; simp [unq] at h; exact absurd h.2.2.symm he
  | cons b d ih =>
    intro f r e h he
    by_cases hp : sep.isPrefixOf (b :: d) = true
    · have hp' := isPrefixOf_append_mono x hp
      have hd := drop_append_of_prefix x hp
      simp only [List.cons_append] at hp' hd
      simp only [unq, hp, if_true] at h
      simp only [List.cons_append, unq, hp', if_true, hd]
      obtain ⟨rfl, rfl, rfl⟩ := by simpa using h
      rfl
    · simp only [Bool.not_eq_true] at hp
      by_cases hpx : sep.isPrefixOf (b :: d ++ x) = true
      · -- impossible: then `b :: d` is a proper prefix of `sep` and the field runs to the end of the data
        exfalso
        obtain ⟨hl, hm⟩ := proper_prefix hp hpx
        have h10 : 10 ∉ (b :: d) := fun hc => sep_no10 hs (hm _ hc)
        have h13 : 13 ∉ (b :: d) := fun hc => sep_no13 hs (hm _ hc)
        rw [unq_short sep _ hl h10 h13] at h
        simp only [Prod.mk.injEq] at h
        exact he h.2.2.symm
      · simp only [Bool.not_eq_true, List.cons_append] at hpx
        simp only [unq, hp, Bool.false_eq_true, if_false] at h
        simp only [List.cons_append, unq, hpx, Bool.false_eq_true, if_false]
        by_cases hb : b = 10
        · simp only [hb, if_true] at h ⊢
          obtain ⟨rfl, rfl, rfl⟩ := by simpa using h
          rfl
        · simp only [hb, if_false] at h ⊢
          by_cases hc : b = 13 ∧ d.head? = some 10
          · have hc' : b = 13 ∧ (d ++ x).head? = some 10 := by
              refine ⟨hc.1, ?_⟩
              cases d with
              | nil => simp at hc
              | cons y d' => simpa using hc.2
            have ht : (d ++ x).tail = d.tail ++ x := by
              cases d with
              | nil => simp at hc
              | cons y d' => simp
            simp only [hc, and_self, if_true] at h
            simp only [hc', and_self, if_true, ht]
            obtain ⟨rfl, rfl, rfl⟩ := by simpa using h
            rfl
          · simp only [hc, if_false] at h
            have hc' : ¬ (b = 13 ∧ (d ++ x).head? = some 10) := by
              intro hcx
              apply hc
              refine ⟨hcx.1, ?_⟩
              cases d with
              | nil =>
                -- on `d` the field would run to the end of the data
                exfalso
                simp [unq] at h
                exact he h.2.2.symm
              | cons y d' => simpa using hcx.2
            simp only [hc', if_false]
            cases hu : unq sep d with
            | mk f' p =>
              obtain ⟨r', e'⟩ := p
              rw [hu] at h
              simp only [Prod.mk.injEq] at h
              obtain ⟨rfl, rfl, rfl⟩ := h
              rw [ih f' r' e' hu he]


theorem quo_short (sep : Bytes) : ∀ s : Bytes, 34 ∉ s → 13 ∉ s → quo sep s = (s, [], .eof, false) := by
  intro s
  induction s with
  | nil => intro _ _; simp [quo]
  | cons b s ih =>
    intro h34 h13
    simp at h34 h13
    have hb34 : b ≠ 34 := fun h => h34.1 (Eq.symm h)
    have hb13 : b ≠ 13 := fun h => h13.1 (Eq.symm h)
    rw [quo.eq_def]
    simp [hb34, hb13, ih h34.2 h13.2]

theorem head_append_of_ne {d x : Bytes} (h : d ≠ []) : (d ++ x).head? = d.head? ∧ (d ++ x).tail = d.tail ++ x := by
  cases d with
  | nil => exact absurd rfl h
  | cons y d' => simp

theorem quo_ext {sep : Bytes} (hs : validSep sep = true) (x : Bytes) : ∀ (n : Nat) (d f r : Bytes) (e : End) (cr : Bool),
    d.length ≤ n → quo sep d = (f, r, e, cr) → e ≠ .eof → quo sep (d ++ x) = (f, r ++ x, e, cr) := by
  intro n
  induction n with
  | zero =>
    intro d f r e cr hl h he
    have : d = [] := by cases d with | nil => rfl | cons _ _ => simp at hl
    subst this
    simp [quo] at h
    exact absurd h.2.2.1.symm he
  | succ n ih =>
    intro d f r e cr hl h he
    cases d with
    | nil => simp [quo] at h; exact absurd h.2.2.1.symm he
    | cons b d =>
      simp only [List.length_cons, Nat.add_le_add_iff_right] at hl
      rw [quo.eq_def] at h
      simp only [List.cons_append]
      rw [quo.eq_def]
      simp only at h ⊢
      by_cases hb : b = 34
      · subst hb
        simp only [if_true] at h ⊢
        cases d with
        | nil => simp at h; exact absurd h.2.2.1.symm he
        | cons c d' =>
          simp only [List.length_cons] at hl
          simp only [List.cons_append] at h ⊢
          by_cases hc34 : c = 34
          · subst hc34
            simp only [if_true] at h ⊢
            cases hq : quo sep d' with
            | mk f' p =>
              obtain ⟨r', e', cr'⟩ := p
              rw [hq] at h
              simp only [Prod.mk.injEq] at h
              obtain ⟨rfl, rfl, rfl, rfl⟩ := h
              rw [ih d' f' r' e' cr' (by omega) hq he]
          · simp only [hc34, if_false] at h ⊢
            by_cases hp : sep.isPrefixOf (c :: d') = true
            · have hp' := isPrefixOf_append_mono x hp
              have hd := drop_append_of_prefix x hp
              simp only [List.cons_append] at hp' hd
              simp only [hp, if_true] at h
              simp only [hp', if_true, hd]
              simp only [Prod.mk.injEq] at h
              obtain ⟨rfl, rfl, rfl, rfl⟩ := h
              rfl
            · simp only [Bool.not_eq_true] at hp
              by_cases hpx : sep.isPrefixOf (c :: d' ++ x) = true
              · exfalso
                obtain ⟨hl', hm⟩ := proper_prefix hp hpx
                have h10 : 10 ∉ (c :: d') := fun hc => sep_no10 hs (hm _ hc)
                have h13 : 13 ∉ (c :: d') := fun hc => sep_no13 hs (hm _ hc)
                have h34 : 34 ∉ (c :: d') := fun hc => sep_no34 hs (hm _ hc)
                have hc10 : c ≠ 10 := fun hc => h10 (by simp [hc])
                have hc13 : c ≠ 13 := fun hc => h13 (by simp [hc])
                simp only [hp, Bool.false_eq_true, if_false, hc10, hc13, false_and] at h
                rw [quo_short sep _ h34 h13] at h
                simp only [Prod.mk.injEq] at h
                exact he h.2.2.1.symm
              · simp only [Bool.not_eq_true, List.cons_append] at hpx
                simp only [hp, Bool.false_eq_true, if_false] at h
                simp only [hpx, Bool.false_eq_true, if_false]
                by_cases hc10 : c = 10
                · simp only [hc10, if_true] at h ⊢
                  simp only [Prod.mk.injEq] at h
                  obtain ⟨rfl, rfl, rfl, rfl⟩ := h
                  rfl
                · simp only [hc10, if_false] at h ⊢
                  by_cases hc : c = 13 ∧ d'.head? = some 10
                  · have hne : d' ≠ [] := by intro hd; simp [hd] at hc
                    have ⟨hh, ht⟩ := head_append_of_ne (x := x) hne
                    simp only [hc, and_self, if_true] at h
                    simp only [hh, ht, hc, and_self, if_true]
                    simp only [Prod.mk.injEq] at h
                    obtain ⟨rfl, rfl, rfl, rfl⟩ := h
                    rfl
                  · simp only [hc, if_false] at h
                    cases hq : quo sep (c :: d') with
                    | mk f' p =>
                      obtain ⟨r', e', cr'⟩ := p
                      rw [hq] at h
                      simp only [Prod.mk.injEq] at h
                      obtain ⟨rfl, rfl, rfl, rfl⟩ := h
                      have hc' : ¬ (c = 13 ∧ (d' ++ x).head? = some 10) := by
                        intro hcx
                        apply hc
                        refine ⟨hcx.1, ?_⟩
                        cases d' with
                        | nil =>
                          exfalso
                          rw [hcx.1, quo.eq_def] at hq
                          simp at hq
                          exact he hq.2.2.1.symm
                        | cons y d'' => simpa using hcx.2
                      simp only [hc', if_false]
                      have := ih (c :: d') f' r' e' cr' (by simp; omega) hq he
                      simp only [List.cons_append] at this
                      rw [this]
      · simp only [hb, if_false] at h ⊢
        by_cases hb13 : b = 13
        · subst hb13
          simp only [if_true] at h ⊢
          cases d with
          | nil => simp at h; exact absurd h.2.2.1.symm he
          | cons c d' =>
            simp only [List.length_cons] at hl
            simp only [List.cons_append] at h ⊢
            by_cases hc10 : c = 10
            · simp only [hc10, if_true] at h ⊢
              cases hq : quo sep d' with
              | mk f' p =>
                obtain ⟨r', e', cr'⟩ := p
                rw [hq] at h
                simp only [Prod.mk.injEq] at h
                obtain ⟨rfl, rfl, rfl, rfl⟩ := h
                rw [ih d' f' r' e' cr' (by omega) hq he]
            · simp only [hc10, if_false] at h ⊢
              cases hq : quo sep (c :: d') with
              | mk f' p =>
                obtain ⟨r', e', cr'⟩ := p
                rw [hq] at h
                simp only [Prod.mk.injEq] at h
                obtain ⟨rfl, rfl, rfl, rfl⟩ := h
                have := ih (c :: d') f' r' e' cr' (by simp; omega) hq he
                simp only [List.cons_append] at this
                rw [this]
        · simp only [hb13, if_false] at h ⊢
          cases hq : quo sep d with
          | mk f' p =>
            obtain ⟨r', e', cr'⟩ := p
            rw [hq] at h
            simp only [Prod.mk.injEq] at h
            obtain ⟨rfl, rfl, rfl, rfl⟩ := h
            rw [ih d f' r' e' cr' hl hq he]


theorem field_ext {sep : Bytes} (hs : validSep sep = true) (x : Bytes) (d f r : Bytes) (e : End) (cr : Bool)
    (h : field sep d = (f, r, e, cr)) (he : e ≠ .eof) : field sep (d ++ x) = (f, r ++ x, e, cr) := by
  cases d with
  | nil => simp [field] at h; exact absurd h.2.2.1.symm he
  | cons b t =>
    simp only [field] at h
    simp only [List.cons_append, field]
    by_cases hb : b = 34
    · simp only [hb, if_true] at h ⊢
      exact quo_ext hs x t.length t f r e cr (Nat.le_refl _) h he
    · simp only [hb, if_false] at h ⊢
      cases hu : unq sep (b :: t) with
      | mk f' p =>
        obtain ⟨r', e'⟩ := p
        rw [hu] at h
        simp only [Prod.mk.injEq] at h
        obtain ⟨rfl, rfl, rfl, rfl⟩ := h
        have := unq_ext hs x (b :: t) f' r' e' hu he
        simp only [List.cons_append] at this
        rw [this]

/-- A record that ended at its line break is parsed to the same fields, with the same unread rest, whatever follows it. -/
theorem fieldsFuel_ext {sep : Bytes} (hs : validSep sep = true) (x : Bytes) : ∀ (n : Nat) (d : Bytes) (fs : List Bytes)
    (r : Bytes) (cr : Bool), fieldsFuel sep n d = (fs, r, false, cr) → fieldsFuel sep n (d ++ x) = (fs, r ++ x, false, cr) := by
  intro n
  induction n with
  | zero => intro d fs r cr h; simp [fieldsFuel] at h
  | succ n ih =>
    intro d fs r cr h
    simp only [fieldsFuel] at h ⊢
    cases hf : field sep d with
    | mk f p =>
      obtain ⟨r', e, c⟩ := p
      rw [hf] at h
      cases e with
      | sep =>
        rw [field_ext hs x d f r' .sep c hf (by simp)]
        simp only at h ⊢
        cases hr : fieldsFuel sep n r' with
        | mk fs' q =>
          obtain ⟨r'', eof', c'⟩ := q
          rw [hr] at h
          simp only [Prod.mk.injEq] at h
          obtain ⟨rfl, rfl, rfl, rfl⟩ := h
          rw [ih r' fs' r'' c' hr]
      | eol =>
        rw [field_ext hs x d f r' .eol c hf (by simp)]
        simp only [Prod.mk.injEq] at h ⊢
        obtain ⟨rfl, rfl, -, rfl⟩ := h
        simp
      | eof => simp at h

/-- more fuel does not change the parse of a record that ended at its line break -/
theorem fieldsFuel_mono (sep : Bytes) : ∀ (n m : Nat) (d : Bytes) (fs : List Bytes) (r : Bytes) (cr : Bool),
    n ≤ m → fieldsFuel sep n d = (fs, r, false, cr) → fieldsFuel sep m d = (fs, r, false, cr) := by
  intro n
  induction n with
  | zero => intro m d fs r cr _ h; simp [fieldsFuel] at h
  | succ n ih =>
    intro m d fs r cr hm h
    cases m with
    | zero => omega
    | succ m =>
      simp only [fieldsFuel] at h ⊢
      cases hf : field sep d with
      | mk f p =>
        obtain ⟨r', e, c⟩ := p
        rw [hf] at h
        cases e with
        | sep =>
          simp only at h ⊢
          cases hr : fieldsFuel sep n r' with
          | mk fs' q =>
            obtain ⟨r'', eof', c'⟩ := q
            rw [hr] at h
            simp only [Prod.mk.injEq] at h
            obtain ⟨rfl, rfl, rfl, rfl⟩ := h
            rw [ih m r' fs' r'' c' (by omega) hr]
        | eol => exact h
        | eof => simp at h

theorem record_independent_of_rest {sep : Bytes} (hs : validSep sep = true) (d x : Bytes) (fs : List Bytes) (r : Bytes) (cr : Bool)
    (h : fieldsFuel sep (d.length + 1) d = (fs, r, false, cr)) :
    fieldsFuel sep ((d ++ x).length + 1) (d ++ x) = (fs, r ++ x, false, cr) := by
  have h1 := fieldsFuel_mono sep _ ((d ++ x).length + 1) d fs r cr (by simp) h
  exact fieldsFuel_ext hs x _ d fs r cr h1

end GoawkModel.C08
