import Proofs.C02TypingExpr
/-! Every statement of C01's modelled language compiles (`cStmt bk ct`) to a fragment that is well-typed at height 0 and leaves
height 0; its `break` / `continue` jumps land `bk` / `ct` words after its end, where the enclosing construct guarantees an
instruction boundary of height 0. -/
namespace GoawkModel.C02.Ty
open GoawkModel GoawkModel.C01

/-- a statement fragment: scan height 0 → 0, locally typed given that the two external targets are boundaries of height 0 -/
def STyped (c : Code) (bk ct : Nat) : Prop :=
  exitH c 0 = 0 ∧ ∀ (E : Int → Option Nat) (o : Int), Agree E o c 0 → E (o + csize c + bk) = some 0 → E (o + csize c + ct) = some 0 → Loc E c 0 o

theorem E_at {E : Int → Option Nat} {x y : Int} {v : Option Nat} (h : E x = v) (e : y = x) : E y = v := e ▸ h

theorem STyped.ofTyped {c : Code} (t : Typed c 0 0) (bk ct : Nat) : STyped c bk ct := by
  have e : exitH c 0 = 0 := by
    have := t (env c 0) 0 (fun x _ _ => by simp)
    exact this.2
  exact ⟨e, fun E o hA _ _ => (t E o hA).1⟩

theorem STyped.nil (bk ct : Nat) : STyped [] bk ct := STyped.ofTyped (Typed.nil 0) bk ct

theorem STyped.seq {a b : Code} {bk ct : Nat} (ta : STyped a (bk + csize b) (ct + csize b)) (tb : STyped b bk ct) :
    STyped (a ++ b) bk ct := by
  refine ⟨by rw [exitH_append, ta.1, tb.1], ?_⟩
  intro E o hA hbk hct
  rw [Loc_append, ta.1]
  refine ⟨ta.2 E o hA.left (E_at hbk (by simp only [csize_append]; push_cast; omega)) (E_at hct (by simp only [csize_append]; push_cast; omega)), ?_⟩
  have hB := hA.right
  rw [ta.1] at hB
  exact tb.2 E _ hB (E_at hbk (by simp only [csize_append]; push_cast; omega)) (E_at hct (by simp only [csize_append]; push_cast; omega))

theorem STyped.jumpBk (bk ct : Nat) : STyped [.jump bk] bk ct := by
  refine ⟨by simp, ?_⟩
  intro E o _ hbk _
  exact Loc_jump hbk (by simp [Instr.size]) rfl

theorem STyped.jumpCt (bk ct : Nat) : STyped [.jump ct] bk ct := by
  refine ⟨by simp, ?_⟩
  intro E o _ _ hct
  exact Loc_jump hct (by simp [Instr.size]) rfl

/-- `cc ; j→end ; B` -/
theorem STyped.ifThen {cc B : Code} {j : Int → Instr} {p hc bk ct : Nat} {off : Int}
    (hj : ∀ off, sh (j off) = .jmp p true off) (hsz : ∀ off, (j off).size = 2)
    (tc : Typed cc 0 hc) (hp : p ≤ hc) (hq : hc - p = 0) (tb : STyped B bk ct) (hoff : off = csize B) :
    STyped (cc ++ [j off] ++ B) bk ct := by
  have ec : exitH cc 0 = hc := (tc (env cc 0) 0 (fun x _ _ => by simp)).2
  have x1 : exitH (cc ++ [j off]) 0 = 0 := by rw [exitH_append, ec, exitH_one, after_cond (hj _), hq]
  have xw : exitH (cc ++ [j off] ++ B) 0 = 0 := by rw [exitH_append, x1, tb.1]
  refine ⟨xw, ?_⟩
  intro E o hA hbk hct
  have tgt := hA.at (cc ++ [j off] ++ B) [] (by simp)
  rw [xw] at tgt
  rw [Loc_append, Loc_append, ec, x1]
  refine ⟨⟨(tc E o hA.left.left).1, ?_⟩, ?_⟩
  · refine Loc_cjump (hj _) hp tgt ?_ hq.symm
    simp only [csize_append, csize_cons, csize_nil, hsz, hoff]; push_cast; omega
  · have hB := hA.right
    rw [x1] at hB
    exact tb.2 E _ hB (E_at hbk (by simp only [csize_append]; push_cast; omega)) (E_at hct (by simp only [csize_append]; push_cast; omega))

/-- `cc ; j→else ; B ; jump→end ; El` -/
theorem STyped.ifElse {cc B El : Code} {j : Int → Instr} {p hc bk ct : Nat} {off off2 : Int}
    (hj : ∀ off, sh (j off) = .jmp p true off) (hsz : ∀ off, (j off).size = 2)
    (tc : Typed cc 0 hc) (hp : p ≤ hc) (hq : hc - p = 0)
    (tb : STyped B (bk + 2 + csize El) (ct + 2 + csize El)) (te : STyped El bk ct) (hoff : off = csize B + 2) (hoff2 : off2 = csize El) :
    STyped (cc ++ [j off] ++ B ++ [.jump off2] ++ El) bk ct := by
  have ec : exitH cc 0 = hc := (tc (env cc 0) 0 (fun x _ _ => by simp)).2
  have x1 : exitH (cc ++ [j off]) 0 = 0 := by rw [exitH_append, ec, exitH_one, after_cond (hj _), hq]
  have x2 : exitH (cc ++ [j off] ++ B) 0 = 0 := by rw [exitH_append, x1, tb.1]
  have x3 : exitH (cc ++ [j off] ++ B ++ [.jump off2]) 0 = 0 := by rw [exitH_append, x2]; simp
  have xw : exitH (cc ++ [j off] ++ B ++ [.jump off2] ++ El) 0 = 0 := by rw [exitH_append, x3, te.1]
  refine ⟨xw, ?_⟩
  intro E o hA hbk hct
  have tgtEnd := hA.at (cc ++ [j off] ++ B ++ [.jump off2] ++ El) [] (by simp)
  rw [xw] at tgtEnd
  have tgtElse := hA.at (cc ++ [j off] ++ B ++ [.jump off2]) El rfl
  rw [x3] at tgtElse
  rw [Loc_append, Loc_append, Loc_append, Loc_append, ec, x1, x2, x3]
  refine ⟨⟨⟨⟨(tc E o hA.left.left.left.left).1, ?_⟩, ?_⟩, ?_⟩, ?_⟩
  · refine Loc_cjump (hj _) hp tgtElse ?_ hq.symm
    simp only [csize_append, csize_cons, csize_nil, hsz, hoff, Instr.size]; push_cast; omega
  · have hB := hA.left.left.right
    rw [x1] at hB
    exact tb.2 E _ hB (E_at hbk (by simp only [csize_append, csize_cons, csize_nil, Instr.size]; push_cast; omega))
      (E_at hct (by simp only [csize_append, csize_cons, csize_nil, Instr.size]; push_cast; omega))
  · refine Loc_jump tgtEnd ?_ rfl
    simp only [csize_append, csize_cons, csize_nil, hsz, hoff2, Instr.size]; push_cast; omega
  · have hE := hA.right
    rw [x3] at hE
    exact te.2 E _ hE (E_at hbk (by simp only [csize_append]; push_cast; omega)) (E_at hct (by simp only [csize_append]; push_cast; omega))

/-- `pre ; cc ; jT→end ; B ; post ; cf ; jF→B` — `for (pre; c; post) B`, and `while` with empty `pre` / `post` -/
theorem Typed.loop {pre cc B post cf : Code} {jT jF : Int → Instr} {pT hT pF hF : Nat} {offT offF : Int}
    (hjT : ∀ off, sh (jT off) = .jmp pT true off) (hszT : ∀ off, (jT off).size = 2)
    (hjF : ∀ off, sh (jF off) = .jmp pF true off) (hszF : ∀ off, (jF off).size = 2)
    (tpre : STyped pre 0 0) (tcc : Typed cc 0 hT) (hpT : pT ≤ hT) (hqT : hT - pT = 0)
    (tB : STyped B (csize post + (csize cf + 2)) 0) (tpost : STyped post 0 0)
    (tcf : Typed cf 0 hF) (hpF : pF ≤ hF) (hqF : hF - pF = 0)
    (hoT : offT = csize B + csize post + (csize cf + 2)) (hoF : offF = -(csize B + csize post + (csize cf + 2) : Int)) :
    Typed (pre ++ cc ++ [jT offT] ++ B ++ post ++ cf ++ [jF offF]) 0 0 := by
  have ec : exitH cc 0 = hT := (tcc (env cc 0) 0 (fun x _ _ => by simp)).2
  have ef : exitH cf 0 = hF := (tcf (env cf 0) 0 (fun x _ _ => by simp)).2
  have x0 : exitH pre 0 = 0 := tpre.1
  have x1 : exitH (pre ++ cc) 0 = hT := by rw [exitH_append, x0, ec]
  have x2 : exitH (pre ++ cc ++ [jT offT]) 0 = 0 := by rw [exitH_append, x1, exitH_one, after_cond (hjT _), hqT]
  have x3 : exitH (pre ++ cc ++ [jT offT] ++ B) 0 = 0 := by rw [exitH_append, x2, tB.1]
  have x4 : exitH (pre ++ cc ++ [jT offT] ++ B ++ post) 0 = 0 := by rw [exitH_append, x3, tpost.1]
  have x5 : exitH (pre ++ cc ++ [jT offT] ++ B ++ post ++ cf) 0 = hF := by rw [exitH_append, x4, ef]
  have xw : exitH (pre ++ cc ++ [jT offT] ++ B ++ post ++ cf ++ [jF offF]) 0 = 0 := by
    rw [exitH_append, x5, exitH_one, after_cond (hjF _), hqF]
  intro E o hA
  refine ⟨?_, xw⟩
  have tEnd := hA.at (pre ++ cc ++ [jT offT] ++ B ++ post ++ cf ++ [jF offF]) [] (by simp)
  rw [xw] at tEnd
  have tPre := hA.at pre (cc ++ [jT offT] ++ B ++ post ++ cf ++ [jF offF]) (by simp)
  rw [x0] at tPre
  have tB0 := hA.at (pre ++ cc ++ [jT offT]) (B ++ post ++ cf ++ [jF offF]) (by simp)
  rw [x2] at tB0
  have tB1 := hA.at (pre ++ cc ++ [jT offT] ++ B) (post ++ cf ++ [jF offF]) (by simp)
  rw [x3] at tB1
  have tP1 := hA.at (pre ++ cc ++ [jT offT] ++ B ++ post) (cf ++ [jF offF]) (by simp)
  rw [x4] at tP1
  rw [Loc_append, Loc_append, Loc_append, Loc_append, Loc_append, Loc_append, x0, x1, x2, x3, x4, x5]
  refine ⟨⟨⟨⟨⟨⟨?_, ?_⟩, ?_⟩, ?_⟩, ?_⟩, ?_⟩, ?_⟩
  · exact tpre.2 E o hA.left.left.left.left.left.left (E_at tPre (by push_cast; omega)) (E_at tPre (by push_cast; omega))
  · have h := hA.left.left.left.left.left.right
    rw [x0] at h
    exact (tcc E _ h).1
  · refine Loc_cjump (hjT _) hpT tEnd ?_ hqT.symm
    simp only [csize_append, csize_cons, csize_nil, hszT, hszF, hoT]; push_cast; omega
  · have h := hA.left.left.left.right
    rw [x2] at h
    refine tB.2 E _ h (E_at tEnd ?_) (E_at tB1 ?_)
    · simp only [csize_append, csize_cons, csize_nil, hszT, hszF]; push_cast; omega
    · simp only [csize_append, csize_cons, csize_nil, hszT, hszF]; push_cast; omega
  · have h := hA.left.left.right
    rw [x3] at h
    refine tpost.2 E _ h (E_at tP1 ?_) (E_at tP1 ?_)
    · simp only [csize_append]; push_cast; omega
    · simp only [csize_append]; push_cast; omega
  · have h := hA.left.right
    rw [x4] at h
    exact (tcf E _ h).1
  · refine Loc_cjump (hjF _) hpF tB0 ?_ hqF.symm
    simp only [csize_append, csize_cons, csize_nil, hszT, hszF, hoF]; push_cast; omega

/-- `B ; cf ; jF→B` — do-while -/
theorem Typed.doLoop {B cf : Code} {jF : Int → Instr} {pF hF : Nat} {offF : Int}
    (hjF : ∀ off, sh (jF off) = .jmp pF true off) (hszF : ∀ off, (jF off).size = 2)
    (tB : STyped B (csize cf + 2) 0) (tcf : Typed cf 0 hF) (hpF : pF ≤ hF) (hqF : hF - pF = 0)
    (hoF : offF = -(csize B + (csize cf + 2) : Int)) :
    Typed (B ++ cf ++ [jF offF]) 0 0 := by
  have ef : exitH cf 0 = hF := (tcf (env cf 0) 0 (fun x _ _ => by simp)).2
  have x1 : exitH (B ++ cf) 0 = hF := by rw [exitH_append, tB.1, ef]
  have xw : exitH (B ++ cf ++ [jF offF]) 0 = 0 := by rw [exitH_append, x1, exitH_one, after_cond (hjF _), hqF]
  intro E o hA
  refine ⟨?_, xw⟩
  have tEnd := hA.at (B ++ cf ++ [jF offF]) [] (by simp)
  rw [xw] at tEnd
  have t0 := hA.at [] (B ++ cf ++ [jF offF]) (by simp)
  have tB1 := hA.at B (cf ++ [jF offF]) (by simp)
  rw [tB.1] at tB1
  rw [Loc_append, Loc_append, tB.1, x1]
  refine ⟨⟨?_, ?_⟩, ?_⟩
  · refine tB.2 E o hA.left.left (E_at tEnd ?_) (E_at tB1 ?_)
    · simp only [csize_append, csize_cons, csize_nil, hszF]; push_cast; omega
    · push_cast; omega
  · have h := hA.left.right
    rw [tB.1] at h
    exact (tcf E _ h).1
  · refine Loc_cjump (hjF _) hpF t0 ?_ (by simpa using hqF.symm)
    simp only [csize_append, csize_cons, csize_nil, hszF, hoF]; push_cast; omega

/-- `pre ; B ; post ; jump→B` — `for (pre; ; post) B` -/
theorem Typed.foreverLoop {pre B post : Code} {offF : Int}
    (tpre : STyped pre 0 0) (tB : STyped B (csize post + 2) 0) (tpost : STyped post 0 0)
    (hoF : offF = -(csize B + csize post + 2 : Int)) :
    Typed (pre ++ B ++ post ++ [.jump offF]) 0 0 := by
  have x1 : exitH (pre ++ B) 0 = 0 := by rw [exitH_append, tpre.1, tB.1]
  have x2 : exitH (pre ++ B ++ post) 0 = 0 := by rw [exitH_append, x1, tpost.1]
  have xw : exitH (pre ++ B ++ post ++ [.jump offF]) 0 = 0 := by rw [exitH_append, x2]; simp
  intro E o hA
  refine ⟨?_, xw⟩
  have tEnd := hA.at (pre ++ B ++ post ++ [.jump offF]) [] (by simp)
  rw [xw] at tEnd
  have tPre := hA.at pre (B ++ post ++ [.jump offF]) (by simp)
  rw [tpre.1] at tPre
  have tB1 := hA.at (pre ++ B) (post ++ [.jump offF]) (by simp)
  rw [x1] at tB1
  have tP1 := hA.at (pre ++ B ++ post) [.jump offF] rfl
  rw [x2] at tP1
  rw [Loc_append, Loc_append, Loc_append, tpre.1, x1, x2]
  refine ⟨⟨⟨?_, ?_⟩, ?_⟩, ?_⟩
  · exact tpre.2 E o hA.left.left.left (E_at tPre (by push_cast; omega)) (E_at tPre (by push_cast; omega))
  · have h := hA.left.left.right
    rw [tpre.1] at h
    refine tB.2 E _ h (E_at tEnd ?_) (E_at tB1 ?_)
    · simp only [csize_append, csize_cons, csize_nil, Instr.size]; push_cast; omega
    · simp only [csize_append]; push_cast; omega
  · have h := hA.left.right
    rw [x1] at h
    refine tpost.2 E _ h (E_at tP1 ?_) (E_at tP1 ?_)
    · simp only [csize_append]; push_cast; omega
    · simp only [csize_append]; push_cast; omega
  · refine Loc_jump tPre ?_ rfl
    simp only [csize_append, csize_cons, csize_nil, hoF]; push_cast; omega

end GoawkModel.C02.Ty
