import GoawkModel.C02
/-! Soundness of the C02 bytecode verifier: an invariant of the abstract machine (every activation sits at a pc whose inferred
height is its actual height, parents wait at the pc and height their child will return to) preserved by every step. -/
namespace GoawkModel.C02
open GoawkModel.Generated

/-- a block accepted by the verifier with some fuel -/
def BlockOK (t : Tables) (cx : Ctx) (inLoop : Bool) (endH : Nat) (code : Code) : Prop :=
  ∃ fuel, verifyBlock t cx fuel inLoop endH code = true

def FuncsOK (t : Tables) : Prop := ∀ f ∈ t.funcs, BlockOK t (funcCtx f) false 0 f.body

def isLoop (fr : Frame) : Bool := match fr.kind with | .loop => true | _ => false

/-- the activation's block has a consistent height assignment in which its pc has height `e` -/
def FrameOK (t : Tables) (fr : Frame) (e : Nat) : Prop :=
  ∃ H sub, (∀ c, sub c = true → BlockOK t fr.cx true 0 c) ∧
    checkBlock t fr.cx (isLoop fr) fr.endH fr.code H sub = true ∧ hAt H fr.pc = some e

/-- `GoodStack t e s`: the innermost activation is at a pc of height `e`; every waiting parent is at the pc and height at which its
child leaves it. -/
inductive GoodStack (t : Tables) : Nat → State → Prop
  | top (fr : Frame) (e : Nat) : fr.kind = .top → fr.cx.inFunc = false → FrameOK t fr e → GoodStack t e [fr]
  | loop (fr p : Frame) (rest : State) (e : Nat) : fr.kind = .loop → fr.endH = 0 → p.h = 0 → fr.cx = p.cx → FrameOK t fr e →
      GoodStack t 0 (p :: rest) → GoodStack t e (fr :: p :: rest)
  | func (fr p : Frame) (rest : State) (e n : Nat) : fr.kind = .func n → fr.endH = 0 → fr.cx.inFunc = true → n ≤ p.h →
      FrameOK t fr e → GoodStack t (p.h - n + 1) (p :: rest) → GoodStack t e (fr :: p :: rest)

def Good (t : Tables) (s : State) : Prop := ∃ fr rest, s = fr :: rest ∧ GoodStack t fr.h s

theorem blockOK_unfold {t : Tables} {cx : Ctx} {il : Bool} {e : Nat} {code : Code} (h : BlockOK t cx il e code) :
    ∃ H sub, (∀ c, sub c = true → BlockOK t cx true 0 c) ∧ checkBlock t cx il e code H sub = true := by
  obtain ⟨fuel, hf⟩ := h
  cases fuel with
  | zero => simp [verifyBlock] at hf
  | succ k =>
    simp only [verifyBlock, Bool.and_eq_true] at hf
    exact ⟨_, _, fun c hc => ⟨k, hc⟩, hf.2⟩

theorem GoodStack.frameOK {t : Tables} {e : Nat} {fr : Frame} {rest : State} (h : GoodStack t e (fr :: rest)) : FrameOK t fr e := by
  cases h with
  | top _ _ _ _ hf => exact hf
  | loop _ _ _ _ _ _ _ _ hf _ => exact hf
  | func _ _ _ _ _ _ _ _ _ hf _ => exact hf

/-- the innermost activation may move to any pc of known height; pc and h of a frame are not mentioned by the rest of the invariant -/
theorem GoodStack.replace {t : Tables} {e e' : Nat} {fr fr' : Frame} {rest : State} (h : GoodStack t e (fr :: rest))
    (hk : fr'.kind = fr.kind) (hc : fr'.cx = fr.cx) (he : fr'.endH = fr.endH) (hf : FrameOK t fr' e') :
    GoodStack t e' (fr' :: rest) := by
  cases h with
  | top _ _ h1 h2 _ => exact .top fr' e' (hk ▸ h1) (hc ▸ h2) hf
  | loop _ p r _ h1 h2 h3 h4 _ h6 => exact .loop fr' p r e' (hk ▸ h1) (he ▸ h2) h3 (hc ▸ h4) hf h6
  | func _ p r _ n h1 h2 h3 h4 _ h6 => exact .func fr' p r e' n (hk ▸ h1) (he ▸ h2) (hc ▸ h3) h4 hf h6

theorem FrameOK.move {t : Tables} {e e' : Nat} {fr fr' : Frame} (h : FrameOK t fr e)
    (hk : fr'.kind = fr.kind) (hc : fr'.cx = fr.cx) (he : fr'.endH = fr.endH) (hcode : fr'.code = fr.code)
    (hpc : ∀ H, hAt H fr.pc = some e → (∃ sub, checkBlock t fr.cx (isLoop fr) fr.endH fr.code H sub = true) → hAt H fr'.pc = some e') :
    FrameOK t fr' e' := by
  obtain ⟨H, sub, hs, hcb, hp⟩ := h
  have hl : isLoop fr' = isLoop fr := by simp [isLoop, hk]
  exact ⟨H, sub, by rw [hc]; exact hs, by rw [hc, hl, he, hcode]; exact hcb, hpc H hp ⟨sub, hcb⟩⟩

theorem hAt_lt {H : Heights} {pc e : Nat} (h : hAt H pc = some e) : pc < H.length := by
  unfold hAt at h
  by_cases hlt : pc < H.length
  · exact hlt
  · rw [List.getD_eq_getElem?_getD, List.getElem?_eq_none (by omega)] at h
    simp at h

theorem checkBlock_parts {t : Tables} {cx : Ctx} {il : Bool} {endH : Nat} {code : Code} {H : Heights} {sub : Code → Bool}
    (h : checkBlock t cx il endH code H sub = true) :
    H.length = code.length + 1 ∧ hAt H 0 = some 0 ∧ (hAt H code.length = none ∨ hAt H code.length = some endH) ∧
      ∀ pc, pc < code.length → checkAt t cx il code H sub pc = true := by
  simp only [checkBlock, Bool.and_eq_true, Bool.or_eq_true, decide_eq_true_eq, beq_iff_eq, List.all_eq_true, List.mem_range] at h
  exact ⟨h.1.1.1, h.1.1.2, h.1.2, h.2⟩

/-! ### leaving activations -/

theorem popFunc_good {t : Tables} {n : Nat} {p : Frame} {rest : State} (hn : n ≤ p.h) (h : GoodStack t (p.h - n + 1) (p :: rest)) :
    ∃ s', popFunc n (p :: rest) = .next s' ∧ Good t s' := by
  refine ⟨{ p with h := p.h - n + 1 } :: rest, ?_, ?_⟩
  · simp [popFunc, Nat.not_lt.mpr hn]
  · refine ⟨_, _, rfl, ?_⟩
    exact h.replace rfl rfl rfl (h.frameOK.move rfl rfl rfl rfl (fun _ hp _ => hp))

theorem unwind_good {t : Tables} {e : Nat} {s : State} (h : GoodStack t e s) :
    ∀ fr rest, s = fr :: rest → fr.cx.inFunc = true → fr.h = 0 → ∃ s', unwind s = .next s' ∧ Good t s' := by
  induction h with
  | top fr e h1 h2 _ =>
    intro fr' rest' heq hin _
    cases heq
    rw [h2] at hin
    cases hin
  | loop fr p rest e h1 h2 h3 h4 _ h6 ih =>
    intro fr' rest' heq hin h0
    cases heq
    have : unwind (fr :: p :: rest) = unwind (p :: rest) := by
      simp [unwind, h0, h1]
    rw [this]
    exact ih p rest rfl (h4 ▸ hin) h3
  | func fr p rest e n h1 h2 h3 h4 _ h6 _ =>
    intro fr' rest' heq _ h0
    cases heq
    have : unwind (fr :: p :: rest) = popFunc n (p :: rest) := by
      simp [unwind, h0, h1]
    rw [this]
    exact popFunc_good h4 h6

/-! ### one step -/

theorem exec_good {t : Tables} (hfs : FuncsOK t) {fr : Frame} {rest : State} (hs : GoodStack t fr.h (fr :: rest))
    {H : Heights} {sub : Code → Bool} (hsub : ∀ c, sub c = true → BlockOK t fr.cx true 0 c)
    (hcb : checkBlock t fr.cx (isLoop fr) fr.endH fr.code H sub = true) (hpc : hAt H fr.pc = some fr.h)
    (hlt : fr.pc < fr.code.length) (c : Choice) :
    ∃ i, decode t fr.cx fr.code fr.pc = some i ∧
      match exec t fr rest c i with
      | .next s' => Good t s'
      | .stuck => False
      | _ => True := by
  obtain ⟨_, _, _, hall⟩ := checkBlock_parts hcb
  have hat := hall fr.pc hlt
  unfold checkAt at hat
  rw [hpc] at hat
  simp only at hat
  -- a frame that differs from `fr` in pc and h only, at a pc of known height
  have mv : ∀ (pc' h' : Nat), hAt H pc' = some h' → Good t ({ fr with pc := pc', h := h' } :: rest) := by
    intro pc' h' hp
    refine ⟨_, _, rfl, ?_⟩
    exact hs.replace rfl rfl rfl ⟨H, sub, hsub, hcb, hp⟩
  cases hd : decode t fr.cx fr.code fr.pc with
  | none => rw [hd] at hat; simp at hat
  | some i =>
    refine ⟨i, rfl, ?_⟩
    rw [hd] at hat
    cases i with
    | simple len pops pushes =>
      simp only [Bool.and_eq_true, decide_eq_true_eq, beq_iff_eq] at hat
      simp only [exec, Nat.not_lt.mpr hat.1, if_false]
      by_cases hc : c = .fail
      · simp [hc]
      · simp only [hc, if_false]
        exact mv _ _ hat.2
    | jump len pops cond target =>
      simp only [Bool.and_eq_true, Bool.or_eq_true, Bool.not_eq_true', decide_eq_true_eq, beq_iff_eq] at hat
      simp only [exec, Nat.not_lt.mpr hat.1.1, if_false]
      by_cases hc : (cond && decide (c = .a)) = true
      · simp only [hc, if_true]
        simp only [Bool.and_eq_true] at hc
        rcases hat.2 with h | h
        · rw [h] at hc; simp at hc
        · exact mv _ _ h
      · simp only [hc]
        exact mv _ _ hat.1.2
    | halt pops =>
      simp only [decide_eq_true_eq] at hat
      simp [exec, Nat.not_lt.mpr hat]
    | ret pops =>
      simp only [Bool.and_eq_true, decide_eq_true_eq] at hat
      simp only [exec, Nat.not_lt.mpr hat.1.2, if_false]
      have hg : GoodStack t fr.h ({ fr with h := fr.h - pops } :: rest) :=
        hs.replace rfl rfl rfl ⟨H, sub, hsub, hcb, hpc⟩
      obtain ⟨s', hu, hgood⟩ := unwind_good hg _ _ rfl hat.1.1 hat.2
      rw [hu]
      exact hgood
    | brk =>
      simp only [Bool.and_eq_true, decide_eq_true_eq] at hat
      have hl : fr.kind = .loop := by
        have := hat.1
        unfold isLoop at this
        split at this <;> simp_all
      simp only [exec, hat.2, hl]
      cases hs with
      | top _ _ h1 _ _ => rw [hl] at h1; cases h1
      | loop _ p r _ _ _ h3 _ _ h6 =>
        simp
        exact ⟨p, r, rfl, h3 ▸ h6⟩
      | func _ _ _ _ n h1 _ _ _ _ _ => rw [hl] at h1; cases h1
    | forIn len bodyLen =>
      simp only [Bool.and_eq_true, decide_eq_true_eq, beq_iff_eq] at hat
      obtain ⟨⟨h0, hafter⟩, hbody⟩ := hat
      have hne : ¬ (fr.h ≠ 0) := by simp [h0]
      simp only [exec, hne, if_false]
      by_cases hc : c = .fail
      · simp [hc]
      · simp only [hc, if_false]
        have hgAfter : GoodStack t 0 ({ fr with pc := fr.pc + len + bodyLen } :: rest) :=
          hs.replace rfl rfl rfl ⟨H, sub, hsub, hcb, hafter⟩
        by_cases hb : c = .b
        · simp only [hb, if_true]
          exact ⟨_, _, rfl, by simpa [h0] using hgAfter⟩
        · simp only [hb, if_false]
          obtain ⟨H', sub', hs', hcb'⟩ := blockOK_unfold (hsub _ hbody)
          have h00 := (checkBlock_parts hcb').2.1
          refine ⟨_, _, rfl, ?_⟩
          exact .loop _ _ rest 0 rfl rfl h0 rfl ⟨H', sub', hs', hcb', h00⟩ hgAfter
    | call len f =>
      dsimp only at hat
      cases hfi : t.funcs[f]? with
      | none => rw [hfi] at hat; simp at hat
      | some fi =>
        rw [hfi] at hat
        simp only [Bool.and_eq_true, decide_eq_true_eq, beq_iff_eq] at hat
        simp only [exec, hfi, Nat.not_lt.mpr hat.1, if_false]
        by_cases hdep : callDepth (fr :: rest) ≥ Consts.maxCallDepth
        · simp [hdep]
        · simp only [hdep, if_false]
          have hmem : fi ∈ t.funcs := List.mem_of_getElem? hfi
          obtain ⟨H', sub', hs', hcb'⟩ := blockOK_unfold (hfs fi hmem)
          have h00 := (checkBlock_parts hcb').2.1
          have hgCaller : GoodStack t (fr.h - fi.numScalars + 1) ({ fr with pc := fr.pc + len } :: rest) :=
            hs.replace rfl rfl rfl ⟨H, sub, hsub, hcb, hat.2⟩
          refine ⟨_, _, rfl, ?_⟩
          exact .func _ _ rest 0 fi.numScalars rfl rfl rfl hat.1 ⟨H', sub', hs', hcb', h00⟩ hgCaller

theorem blockEnd_good {t : Tables} {fr : Frame} {rest : State} (hs : GoodStack t fr.h (fr :: rest))
    {H : Heights} {sub : Code → Bool} (hsub : ∀ c, sub c = true → BlockOK t fr.cx true 0 c)
    (hcb : checkBlock t fr.cx (isLoop fr) fr.endH fr.code H sub = true) (hpc : hAt H fr.pc = some fr.h)
    (heq : fr.pc = fr.code.length) (c : Choice) :
    match blockEnd fr rest c with
    | .next s' => Good t s'
    | .stuck => False
    | _ => True := by
  obtain ⟨_, h00, hend, _⟩ := checkBlock_parts hcb
  have hh : fr.h = fr.endH := by
    rw [heq] at hpc
    rcases hend with h | h
    · rw [h] at hpc; exact absurd hpc (by simp)
    · exact (Option.some.inj (h.symm.trans hpc)).symm
  have hne : ¬ (fr.h ≠ fr.endH) := by simp [hh]
  simp only [blockEnd, hne, if_false]
  cases hs with
  | top _ _ h1 _ _ => simp [h1]
  | loop _ p r _ h1 h2 h3 h4 _ h6 =>
    simp only [h1]
    by_cases hc : c = .a
    · simp only [hc, if_true]
      refine ⟨_, _, rfl, ?_⟩
      have hz : fr.h = 0 := by rw [hh, h2]
      have : GoodStack t 0 ({ fr with pc := 0 } :: p :: r) :=
        .loop _ p r 0 h1 h2 h3 h4 ⟨H, sub, hsub, hcb, h00⟩ h6
      simpa [hz, h1] using this
    · simp only [hc, if_false]
      simp
      exact ⟨p, r, rfl, h3 ▸ h6⟩
  | func _ p r _ n h1 h2 h3 h4 _ h6 =>
    simp only [h1]
    obtain ⟨s', hp, hg⟩ := popFunc_good h4 h6
    rw [hp]
    exact hg

/-- One step from a good state is never stuck and ends in a good state. -/
theorem step_good {t : Tables} (hfs : FuncsOK t) {s : State} (hg : Good t s) (c : Choice) :
    match step t s c with
    | .next s' => Good t s'
    | .stuck => False
    | _ => True := by
  obtain ⟨fr, rest, rfl, hs⟩ := hg
  obtain ⟨H, sub, hsub, hcb, hpc⟩ := hs.frameOK
  obtain ⟨hlen, _, _, _⟩ := checkBlock_parts hcb
  have hle : fr.pc < fr.code.length + 1 := by
    have := hAt_lt hpc
    omega
  simp only [step]
  by_cases heq : fr.pc = fr.code.length
  · simp only [heq, if_true]
    have := blockEnd_good hs hsub hcb hpc heq c
    exact this
  · simp only [heq, if_false]
    obtain ⟨i, hd, hres⟩ := exec_good hfs hs hsub hcb hpc (by omega) c
    rw [hd]
    exact hres

theorem run_good {t : Tables} (hfs : FuncsOK t) (cs : List Choice) : ∀ {s : State}, Good t s → run t s cs ≠ .stuck := by
  induction cs with
  | nil => intro s _; simp [run]
  | cons c cs ih =>
    intro s hg
    have h := step_good hfs hg c
    simp only [run]
    cases hst : step t s c with
    | next s' => rw [hst] at h; exact ih h
    | done => simp
    | error => simp
    | stuck => rw [hst] at h; exact absurd h id

theorem good_init {t : Tables} {code : Code} {endH : Nat} (h : BlockOK t topCtx false endH code) : Good t (initState code endH) := by
  obtain ⟨H, sub, hs, hcb⟩ := blockOK_unfold h
  have h00 := (checkBlock_parts hcb).2.1
  exact ⟨_, _, rfl, .top _ 0 rfl rfl ⟨H, sub, hs, hcb, h00⟩⟩

theorem verify_blocks {p : Prog} (hv : verify p = true) :
    (∀ b ∈ p.blocks, BlockOK p.tables topCtx false b.2 b.1) ∧ FuncsOK p.tables := by
  simp only [verify, Bool.and_eq_true, List.all_eq_true] at hv
  exact ⟨fun b hb => ⟨_, hv.1 b hb⟩, fun f hf => ⟨_, hv.2 f hf⟩⟩

end GoawkModel.C02
