import GoawkModel.Scanner
/-! Generic chunk-independence of the scanner model for split functions whose token decisions are stable under
more data and whose skips are invisible. -/
namespace GoawkModel.Scanner

/-- what a program sees when the whole remaining input `x` is in the buffer and EOF is known -/
def final (f : SplitFn) (x : Bytes) : List (Bytes × Bytes) := scan f x [] true

structure WellFormed (f : SplitFn) : Prop where
  /-- a token decided before EOF advances within the data and is decided identically on any extension, at EOF or not -/
  tokenStable : ∀ d n r t, d ≠ [] → f d false = .token n r t →
      0 < n ∧ n ≤ d.length ∧ ∀ ext eof, f (d ++ ext) eof = .token n r t
  /-- a skip decided before EOF stays within the data and does not change what the rest of the input scans to -/
  skipInvisible : ∀ d n, d ≠ [] → f d false = .skip n →
      n ≤ d.length ∧ ∀ ext, final f (d ++ ext) = final f (d.drop n ++ ext)

theorem scan_eq_final (f : SplitFn) (hf : WellFormed f) (chunks : List Bytes) :
    ∀ buf, scan f buf chunks false = final f (buf ++ chunks.flatten) := by
  induction chunks with
  | nil =>
    intro buf
    induction h : buf.length using Nat.strongRecOn generalizing buf with
    | ind k ih =>
      by_cases hb : buf = []
      · subst hb; rw [scan]; simp [final]
      · rw [scan]
        simp only [ne_eq, hb, not_false_eq_true, true_or, if_true, List.flatten_nil, List.append_nil]
        cases hd : f buf false with
        | more => simp [final]
        | skip n =>
          have := hf.skipInvisible buf n hb hd
          simp only [this.1, if_true]
          have h2 := this.2 []
          simp only [List.append_nil] at h2
          simp [final] at h2 ⊢
          exact h2.symm
        | token n r t =>
          obtain ⟨h0, hl, hs⟩ := hf.tokenStable buf n r t hb hd
          have hs' := hs [] true
          simp only [List.append_nil] at hs'
          simp only [h0, hl, and_self, dite_true]
          have := ih (buf.length - n) (by omega) (buf.drop n) (by simp)
          simp only [List.flatten_nil, List.append_nil] at this
          rw [this, final, final]
          conv => rhs; rw [scan]
          simp [hb, hs', h0, hl]
  | cons c cs ihc =>
    intro buf
    induction h : buf.length using Nat.strongRecOn generalizing buf with
    | ind k ih =>
      by_cases hb : buf = []
      · subst hb; rw [scan]; simp [ihc]
      · rw [scan]
        simp only [ne_eq, hb, not_false_eq_true, true_or, if_true]
        cases hd : f buf false with
        | more => simp [ihc, List.append_assoc]
        | skip n =>
          have := hf.skipInvisible buf n hb hd
          simp only [this.1, if_true]
          have h2 := this.2 (c ++ cs.flatten)
          simp [ihc, List.append_assoc, h2]
        | token n r t =>
          obtain ⟨h0, hl, hs⟩ := hf.tokenStable buf n r t hb hd
          have hs' := hs ((c :: cs).flatten) true
          simp only [h0, hl, and_self, dite_true]
          have := ih (buf.length - n) (by omega) (buf.drop n) (by simp)
          rw [this, final, final]
          conv => rhs; rw [scan]
          have hne : buf ++ (c :: cs).flatten ≠ [] := by simp [hb]
          simp only [ne_eq, hne, not_false_eq_true, true_or, if_true, hs']
          have hl' : n ≤ (buf ++ (c :: cs).flatten).length := by simp; omega
          simp only [h0, hl', and_self, dite_true]
          rw [List.drop_append_of_le_length hl]

/-- Chunk independence: however the reader cuts the input, the records (and RT values, hence NR/FNR) are those of
delivering it in one piece. -/
theorem chunk_independent (f : SplitFn) (hf : WellFormed f) (chunks : List Bytes) :
    scan f [] chunks false = scan f [] [chunks.flatten] false := by
  rw [scan_eq_final f hf, scan_eq_final f hf]; simp

end GoawkModel.Scanner
