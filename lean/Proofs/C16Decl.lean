import Proofs.C16Bound
/-! Which globals exist after a successful resolve: exactly ARGV/ENVIRON/FIELDS and the names referred to as globals. -/
namespace GoawkModel.C16

def DeclGlob (p : Program) (s : State) : Prop := ∀ v, s.decl v = true → GlobMention p v

theorem declGlob_stepInv {p : Program} (wf : WF p) : StepInv p (DeclGlob p) := by
  intro fn e s s' c hin hI hst v hv
  rcases (step_decl (inProg_argOK wf hin) hst).2.2 v hv with h1 | h1
  · exact hI v h1
  · rcases hin with ⟨h0, he⟩ | ⟨f, hf, hn, he⟩
    · rw [h0] at h1
      exact Or.inr (Or.inl ⟨e, he, h1.1, h1.2⟩)
    · rw [← hn] at h1
      exact Or.inr (Or.inr ⟨f, hf, e, he, h1.1, h1.2⟩)

theorem prelude_declGlob (p : Program) : DeclGlob p (prelude p) := by
  intro v hv
  rcases prelude_decl_aux v p.builtins State.init hv with h | h
  · exact Or.inl h
  · simp [State.init] at h

/-- after a successful resolve under a covering order the declared globals are exactly the mentioned ones -/
theorem resolve_decl_iff {p : Program} (wf : WF p) (order : List Name) (hc : Covers order p) (s : State)
    (h : resolve p order = .ok s) (v : Name) : s.decl v = true ↔ GlobMention p v := by
  constructor
  · exact resolve_inv (declGlob_stepInv wf) order s (prelude_declGlob p) h v
  · intro hg
    obtain ⟨s0, h0⟩ := resolve_fix order s h
    have hcl := (pass_closed wf order s0 s false h0).2
    rcases hg with hb | ⟨e, he, hv, hr⟩ | ⟨f, hf, e, he, hv, hr⟩
    · exact (resolve_inv (keeps_stepInv p v) order s (prelude_keeps hb) h).1
    · exact hcl 0 e (Or.inl ⟨rfl, he⟩) v hv hr
    · exact hcl f.name e (Or.inr ⟨hc f hf, (wf.names f hf).1, f, (wf.names f hf).2, he⟩) v hv hr

end GoawkModel.C16
