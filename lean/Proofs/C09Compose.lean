import GoawkModel.C09
import GoawkModel.C09Spec
import Proofs.C09
import Proofs.C09Scan
import Proofs.C09Conv
/-! Composition of the three format scanners (`parseFmtAux`, `addPrecGAux`, `goPrintfAux`) over a whole format string given as
a list of segments, and the link to the per-conversion theorems. -/
namespace GoawkModel.C09
open GoawkModel

/-! ### the conversion characters of the property -/

def cVerbs : List UInt8 := [100, 105, 111, 117, 120, 88, 99, 115, 101, 69, 102, 103, 71]

def verbTy (v : UInt8) : UInt8 := ((lookupVerb v).getD (0, 0)).1
def verbGo (v : UInt8) : UInt8 := ((lookupVerb v).getD (0, 0)).2

def isGVerb (v : UInt8) : Bool := v = 103 || v = 71

theorem cverb_facts : ∀ v ∈ cVerbs,
    lookupVerb v = some (verbTy v, verbGo v) ∧ isSpecChar v = false ∧ v ≠ 37 ∧
    isGoFlag (verbGo v) = false ∧ isDigit (verbGo v) = false ∧ verbGo v ≠ 46 ∧ verbGo v ≠ 42 ∧ verbGo v ≠ 37 ∧
    ¬ (verbGo v ≥ 128) ∧ isSpecCharG (verbGo v) = false ∧ inCodes Generated.C09Verbs.precGVerbs (verbGo v) = isGVerb v := by
  decide

theorem isSpecCharG_eq (c : UInt8) : isSpecCharG c = isSpecChar c := rfl

/-! ### what the body of a well-formed specification consists of -/

theorem isDigit_toNat (c : UInt8) (h : isDigit c = true) : 48 ≤ c.toNat ∧ c.toNat ≤ 57 := by
  simp only [isDigit, Bool.and_eq_true, decide_eq_true_eq, UInt8.le_iff_toNat_le] at h
  exact h

theorem isDigit_isSpecChar (c : UInt8) (h : isDigit c = true) : isSpecChar c = true := by
  have h2 := isDigit_toNat c h
  have h3 : c.toNat = 48 ∨ c.toNat = 49 ∨ c.toNat = 50 ∨ c.toNat = 51 ∨ c.toNat = 52 ∨ c.toNat = 53 ∨ c.toNat = 54 ∨
      c.toNat = 55 ∨ c.toNat = 56 ∨ c.toNat = 57 := by omega
  unfold isSpecChar inCodes
  rcases h3 with h | h | h | h | h | h | h | h | h | h <;> rw [h] <;> decide

theorem isDigit_ne (c : UInt8) (h : isDigit c = true) : c ≠ 42 ∧ c ≠ 46 ∧ c ≠ 37 := by
  refine ⟨?_, ?_, ?_⟩ <;> (intro hc; subst hc; revert h; decide)

theorem isGoFlag_ne (c : UInt8) (h : isGoFlag c = true) : c ≠ 42 ∧ c ≠ 46 ∧ c ≠ 37 := by
  refine ⟨?_, ?_, ?_⟩ <;> (intro hc; subst hc; revert h; decide)

def starTy (w : WP) : List UInt8 := match w with | .star => [100] | _ => []

structure WF (sp : Spec) : Prop where
  flags : ∀ c ∈ sp.flags, isGoFlag c = true
  width : ∀ ds, sp.width = .lit ds → (∀ c ∈ ds, isDigit c = true) ∧ ∃ d r, ds = d :: r ∧ d ≠ 48
  prec : ∀ ds, sp.prec = .lit ds → ∀ c ∈ ds, isDigit c = true

theorem wf_of_wellFormed (sp : Spec) (h : sp.wellFormed = true) : WF sp := by
  obtain ⟨flags, width, prec, verb⟩ := sp
  simp only [Spec.wellFormed, Bool.and_eq_true, List.all_eq_true] at h
  obtain ⟨⟨hf, hw⟩, hp⟩ := h
  refine ⟨hf, ?_, ?_⟩
  · intro ds hds
    simp only at hds; subst hds
    simp only [Bool.and_eq_true, List.all_eq_true] at hw
    refine ⟨hw.1, ?_⟩
    cases ds with
    | nil => simp at hw
    | cons d r => exact ⟨d, r, rfl, by simpa using hw.2⟩
  · intro ds hds
    simp only at hds; subst hds
    simpa [List.all_eq_true] using hp

theorem wtext_spec (w : WP) (hd : ∀ ds, w = .lit ds → ∀ c ∈ ds, isDigit c = true) : ∀ c ∈ w.text, isSpecChar c = true := by
  cases w with
  | absent => intro c hc; simp [WP.text] at hc
  | lit ds => intro c hc; exact isDigit_isSpecChar c (hd ds rfl c (by simpa [WP.text] using hc))
  | star => intro c hc; simp [WP.text] at hc; subst hc; decide

theorem ptext_spec (w : WP) (hd : ∀ ds, w = .lit ds → ∀ c ∈ ds, isDigit c = true) : ∀ c ∈ precText w, isSpecChar c = true := by
  cases w with
  | absent => intro c hc; simp [precText] at hc
  | lit ds =>
    intro c hc
    simp only [precText, List.mem_cons] at hc
    rcases hc with rfl | hc
    · decide
    · exact isDigit_isSpecChar c (hd ds rfl c hc)
  | star =>
    intro c hc
    simp only [precText, List.mem_cons, List.not_mem_nil, or_false] at hc
    rcases hc with rfl | rfl <;> decide

theorem body_spec (sp : Spec) (h : WF sp) : ∀ c ∈ sp.body, isSpecChar c = true := by
  intro c hc
  simp only [Spec.body, List.mem_append] at hc
  rcases hc with hc | hc | hc
  · exact isGoFlag_isSpecChar c (h.flags c hc)
  · exact wtext_spec sp.width (fun ds hds => (h.width ds hds).1) c hc
  · exact ptext_spec sp.prec h.prec c hc

theorem filter_star_nil (l : Bytes) (h : ∀ c ∈ l, c ≠ 42) : l.filter (· == 42) = [] := by
  rw [List.filter_eq_nil_iff]; intro c hc; simpa using h c hc

theorem starTypes_body (sp : Spec) (h : WF sp) : starTypes sp.body = starTy sp.width ++ starTy sp.prec := by
  have hf : sp.flags.filter (· == 42) = [] := filter_star_nil _ (fun c hc => (isGoFlag_ne c (h.flags c hc)).1)
  have hw : starTypes sp.width.text = starTy sp.width := by
    cases hwd : sp.width with
    | absent => rfl
    | lit ds =>
      have := filter_star_nil ds (fun c hc => (isDigit_ne c ((h.width ds hwd).1 c hc)).1)
      simp [starTypes, WP.text, starTy, this]
    | star => decide
  have hp : starTypes (precText sp.prec) = starTy sp.prec := by
    cases hpd : sp.prec with
    | absent => rfl
    | lit ds =>
      have := filter_star_nil ds (fun c hc => (isDigit_ne c (h.prec ds hpd c hc)).1)
      simp [starTypes, precText, starTy, this]
    | star => decide
  have happ : ∀ a b : Bytes, starTypes (a ++ b) = starTypes a ++ starTypes b := by
    intro a b; simp [starTypes, List.filter_append]
  rw [Spec.body, happ, happ, hw, hp]
  simp [starTypes, hf]

theorem body_contains_dot (sp : Spec) (h : WF sp) : sp.body.contains 46 = (sp.prec != .absent) := by
  have hf : sp.flags.contains 46 = false := by
    rw [Bool.eq_false_iff]; intro hc
    have := List.contains_iff_mem.mp hc
    exact (isGoFlag_ne 46 (h.flags 46 this)).2.1 rfl
  have hw : sp.width.text.contains 46 = false := by
    cases hwd : sp.width with
    | absent => rfl
    | lit ds =>
      rw [Bool.eq_false_iff]; intro hc
      have := List.contains_iff_mem.mp hc
      exact (isDigit_ne 46 ((h.width ds hwd).1 46 (by simpa [WP.text] using this))).2.1 rfl
    | star => decide
  have hp : (precText sp.prec).contains 46 = (sp.prec != .absent) := by
    cases sp.prec <;> simp [precText]
  simp only [Spec.body, List.contains_append, hf, hw, hp, Bool.false_or]

/-! ### segments -/

def SegOK : Seg → Prop
  | .lit b => ∀ c ∈ b, c ≠ 37
  | .pct => True
  | .conv sp => WF sp ∧ sp.verb ∈ cVerbs

/-- the format after verb rewriting -/
def goText1 : List Seg → Bytes
  | [] => []
  | .lit b :: r => b ++ goText1 r
  | .pct :: r => 37 :: 37 :: goText1 r
  | .conv sp :: r => 37 :: (sp.body ++ verbGo sp.verb :: goText1 r)

/-- the precision text `addDefaultPrecisionG` inserts -/
def gIns (sp : Spec) : Bytes := if isGVerb sp.verb && sp.prec == .absent then [46, 54] else []

/-- the format handed to `fmt.Sprintf` -/
def goText2 : List Seg → Bytes
  | [] => []
  | .lit b :: r => b ++ goText2 r
  | .pct :: r => 37 :: 37 :: goText2 r
  | .conv sp :: r => 37 :: (sp.body ++ (gIns sp ++ verbGo sp.verb :: goText2 r))

def typesOf : List Seg → List UInt8
  | [] => []
  | .conv sp :: r => starTy sp.width ++ (starTy sp.prec ++ verbTy sp.verb :: typesOf r)
  | _ :: r => typesOf r

theorem renderSegs_conv (sp : Spec) (r : List Seg) :
    renderSegs (.conv sp :: r) = 37 :: (sp.body ++ sp.verb :: renderSegs r) := by
  simp [renderSegs, Seg.render, Spec.render]

theorem parse_lit (b : Bytes) (hb : ∀ c ∈ b, c ≠ 37) :
    ∀ (fuel : Nat) (rest o : Bytes) (t : List UInt8), parseFmtAux fuel rest = .ok (o, t) →
      parseFmtAux (fuel + b.length) (b ++ rest) = .ok (b ++ o, t) := by
  induction b with
  | nil => intro fuel rest o t h; simpa using h
  | cons c b ih =>
    intro fuel rest o t h
    have hc : c ≠ 37 := hb c (by simp)
    have := ih (fun x hx => hb x (by simp [hx])) fuel rest o t h
    rw [show fuel + (c :: b).length = (fuel + b.length) + 1 by simp; omega]
    simp [parseFmtAux, hc, this]

theorem parse_segs : ∀ (segs : List Seg) (fuel : Nat), (∀ s ∈ segs, SegOK s) → fuel ≥ (renderSegs segs).length →
    parseFmtAux fuel (renderSegs segs) = .ok (goText1 segs, typesOf segs) := by
  intro segs
  induction segs with
  | nil => intro fuel _ _; simp [renderSegs, goText1, typesOf, parseFmtAux_nil]
  | cons s r ih =>
    intro fuel hok hfuel
    have hr : ∀ s ∈ r, SegOK s := fun x hx => hok x (by simp [hx])
    cases s with
    | lit b =>
      have hb : ∀ c ∈ b, c ≠ 37 := hok (.lit b) (by simp)
      simp only [renderSegs, Seg.render, List.length_append] at hfuel ⊢
      obtain ⟨f', rfl⟩ : ∃ f', fuel = f' + b.length := ⟨fuel - b.length, by omega⟩
      exact parse_lit b hb f' _ _ _ (ih f' hr (by omega))
    | pct =>
      simp only [renderSegs, Seg.render, List.length_append, List.length_cons, List.length_nil] at hfuel ⊢
      obtain ⟨f', rfl⟩ : ∃ f', fuel = f' + 1 := ⟨fuel - 1, by omega⟩
      have := ih f' hr (by omega)
      simp [parseFmtAux, this, goText1, typesOf]
    | conv sp =>
      obtain ⟨hwf, hv⟩ : WF sp ∧ sp.verb ∈ cVerbs := hok (.conv sp) (by simp)
      obtain ⟨hl, hns, hn37, _⟩ := cverb_facts sp.verb hv
      rw [renderSegs_conv] at hfuel ⊢
      simp only [List.length_cons, List.length_append] at hfuel
      obtain ⟨f', rfl⟩ : ∃ f', fuel = f' + 1 := ⟨fuel - 1, by omega⟩
      rw [parseFmtAux_spec f' sp.body sp.verb (renderSegs r) (body_spec sp hwf) hns (fun _ => hn37), hl]
      have := ih f' hr (by omega)
      simp [this, goText1, typesOf, starTypes_body sp hwf]

theorem addPrec_lit (b : Bytes) (hb : ∀ c ∈ b, c ≠ 37) :
    ∀ (fuel : Nat) (rest : Bytes), addPrecGAux (fuel + b.length) (b ++ rest) = b ++ addPrecGAux fuel rest := by
  induction b with
  | nil => intro fuel rest; simp
  | cons c b ih =>
    intro fuel rest
    have hc : c ≠ 37 := hb c (by simp)
    rw [show fuel + (c :: b).length = (fuel + b.length) + 1 by simp; omega]
    simp [addPrecGAux, hc, ih (fun x hx => hb x (by simp [hx]))]

theorem addPrecGAux_nil (fuel : Nat) : addPrecGAux fuel [] = [] := by cases fuel <;> rfl

theorem addPrec_segs : ∀ (segs : List Seg) (fuel : Nat), (∀ s ∈ segs, SegOK s) → fuel ≥ (goText1 segs).length →
    addPrecGAux fuel (goText1 segs) = goText2 segs := by
  intro segs
  induction segs with
  | nil => intro fuel _ _; simp [goText1, goText2, addPrecGAux_nil]
  | cons s r ih =>
    intro fuel hok hfuel
    have hr : ∀ s ∈ r, SegOK s := fun x hx => hok x (by simp [hx])
    cases s with
    | lit b =>
      have hb : ∀ c ∈ b, c ≠ 37 := hok (.lit b) (by simp)
      simp only [goText1, goText2, List.length_append] at hfuel ⊢
      obtain ⟨f', rfl⟩ : ∃ f', fuel = f' + b.length := ⟨fuel - b.length, by omega⟩
      rw [addPrec_lit b hb, ih f' hr (by omega)]
    | pct =>
      simp only [goText1, goText2, List.length_cons] at hfuel ⊢
      obtain ⟨f', rfl⟩ : ∃ f', fuel = f' + 1 := ⟨fuel - 1, by omega⟩
      have h37 : isSpecCharG 37 = false := by decide
      have hg : inCodes Generated.C09Verbs.precGVerbs 37 = false := by decide
      simp [addPrecGAux, List.takeWhile, List.dropWhile, h37, hg, ih f' hr (by omega)]
    | conv sp =>
      obtain ⟨hwf, hv⟩ : WF sp ∧ sp.verb ∈ cVerbs := hok (.conv sp) (by simp)
      obtain ⟨_, _, _, _, _, _, _, _, _, hgs, hgv⟩ := cverb_facts sp.verb hv
      simp only [goText1, goText2, List.length_cons, List.length_append] at hfuel ⊢
      obtain ⟨f', rfl⟩ : ∃ f', fuel = f' + 1 := ⟨fuel - 1, by omega⟩
      have hb : ∀ c ∈ sp.body, isSpecCharG c = true := fun c hc => by rw [isSpecCharG_eq]; exact body_spec sp hwf c hc
      have htw : (sp.body ++ verbGo sp.verb :: goText1 r).takeWhile isSpecCharG = sp.body := by
        rw [List.takeWhile_append_of_pos hb]; simp [List.takeWhile, hgs]
      have hdw : (sp.body ++ verbGo sp.verb :: goText1 r).dropWhile isSpecCharG = verbGo sp.verb :: goText1 r := by
        rw [List.dropWhile_append_of_pos hb]; simp [List.dropWhile, hgs]
      have hdot := body_contains_dot sp hwf
      simp only [addPrecGAux, ne_eq, not_true_eq_false, if_false, htw, hdw, hgv, hdot, ih f' hr (by omega)]
      unfold gIns
      cases hgv2 : isGVerb sp.verb <;> cases hpa : (sp.prec == WP.absent) <;> simp_all [Generated.C09Verbs.precGInsert]

/-! ### the stages of `doPrintf` at one specification -/

/-- a width or precision as `fmt` obtains it: the literal, or the next argument (an `int64`) -/
def gTakeInt (w : WP) (gargs : List GoArg) : Option (Option Int × List GoArg) :=
  match w with
  | .absent => some (none, gargs)
  | .lit ds => some (some (numVal ds : Int), gargs)
  | .star =>
    match gargs with
    | .i64 v :: rest => some (some v, rest)
    | _ => none

/-- flags after the width stage: a negative `*` width sets `-` and clears `0` -/
def goFl (fl : Flags) (x : Option Int) : Flags :=
  match x with
  | some v => if v < 0 then { fl with minus := true, zero := false } else fl
  | none => fl

theorem takeWhile_digits (ds : Bytes) (h : UInt8) (t : Bytes) (hd : ∀ c ∈ ds, isDigit c = true) (hh : isDigit h = false) :
    (ds ++ h :: t).takeWhile isDigit = ds ∧ (ds ++ h :: t).dropWhile isDigit = h :: t := by
  constructor
  · rw [List.takeWhile_append_of_pos hd]; simp [List.takeWhile, hh]
  · rw [List.dropWhile_append_of_pos hd]; simp [List.dropWhile, hh]

theorem width_stage (fl : Flags) (w : WP) (h : UInt8) (t : Bytes) (gargs g1 : List GoArg) (x : Option Int)
    (hwf : ∀ ds, w = .lit ds → (∀ c ∈ ds, isDigit c = true) ∧ ∃ d r, ds = d :: r ∧ d ≠ 48)
    (hh : isDigit h = false) (hh42 : h ≠ 42)
    (htake : gTakeInt w gargs = some (x, g1))
    (hrange : w = .star → ∀ v, x = some v → v.natAbs ≤ 1000000)
    (hlit : ∀ ds, w = .lit ds → litTooLarge ds = false) :
    goParseWidth fl (w.text ++ h :: t) gargs = ⟨[], goFl fl x, x.map Int.natAbs, h :: t, g1, false⟩ := by
  cases w with
  | absent =>
    simp only [gTakeInt, Option.some.injEq, Prod.mk.injEq] at htake
    obtain ⟨rfl, rfl⟩ := htake
    simp only [WP.text, List.nil_append]
    unfold goParseWidth
    split
    · rename_i r heq; simp at heq; exact absurd heq.1 hh42
    · simp [List.takeWhile, hh, goFl]
  | lit ds =>
    simp only [gTakeInt, Option.some.injEq, Prod.mk.injEq] at htake
    obtain ⟨rfl, rfl⟩ := htake
    obtain ⟨hds, d, r, rfl, hd48⟩ := hwf ds rfl
    have hd42 : d ≠ 42 := (isDigit_ne d (hds d (by simp))).1
    have htd := takeWhile_digits (d :: r) h t hds hh
    simp only [WP.text]
    unfold goParseWidth
    split
    · rename_i r' heq; simp at heq; exact absurd heq.1 hd42
    · simp only [htd.1, htd.2, List.isEmpty_cons, Bool.false_eq_true, if_false, hlit (d :: r) rfl]
      have : ¬ ((numVal (d :: r) : Int) < 0) := by omega
      simp [goFl, this]
  | star =>
    simp only [WP.text, List.cons_append, List.nil_append]
    cases gargs with
    | nil => simp [gTakeInt] at htake
    | cons a as =>
      cases a with
      | i64 v =>
        simp only [gTakeInt, Option.some.injEq, Prod.mk.injEq] at htake
        obtain ⟨rfl, rfl⟩ := htake
        have hv := hrange rfl v rfl
        have hnot : ¬ (v.natAbs > 1000000) := by omega
        by_cases hneg : v < 0
        · simp [goParseWidth, intFromArg, hnot, hneg, goFl]
        · have : v.toNat = v.natAbs := by omega
          simp [goParseWidth, intFromArg, hnot, hneg, goFl, this]
      | _ => simp [gTakeInt] at htake

theorem prec_stage (p : WP) (g : UInt8) (rest : Bytes) (gargs g1 : List GoArg) (y : Option Int)
    (hwf : ∀ ds, p = .lit ds → ∀ c ∈ ds, isDigit c = true)
    (hg : isDigit g = false) (hg42 : g ≠ 42) (hg46 : g ≠ 46)
    (htake : gTakeInt p gargs = some (y, g1))
    (hrange : p = .star → ∀ v, y = some v → 0 ≤ v ∧ v ≤ 1000000)
    (hlit : ∀ ds, p = .lit ds → litTooLarge ds = false) :
    goParsePrec (precText p ++ g :: rest) gargs = ⟨[], y.map Int.toNat, g :: rest, g1, false⟩ := by
  cases p with
  | absent =>
    simp only [gTakeInt, Option.some.injEq, Prod.mk.injEq] at htake
    obtain ⟨rfl, rfl⟩ := htake
    simp only [precText, List.nil_append]
    unfold goParsePrec
    split
    · rename_i r heq; simp at heq; exact absurd heq.1 hg46
    · simp
  | lit ds =>
    simp only [gTakeInt, Option.some.injEq, Prod.mk.injEq] at htake
    obtain ⟨rfl, rfl⟩ := htake
    have hds := hwf ds rfl
    have htd := takeWhile_digits ds g rest hds hg
    simp only [precText, List.cons_append]
    unfold goParsePrec
    have hne : (ds ++ g :: rest).isEmpty = false := by cases ds <;> simp
    simp only [hne, Bool.false_eq_true, if_false]
    split
    · rename_i r' heq
      cases ds with
      | nil => simp at heq; exact absurd heq.1 hg42
      | cons d r => simp at heq; exact absurd heq.1 (isDigit_ne d (hds d (by simp))).1
    · simp [htd.1, htd.2, hlit ds rfl]
  | star =>
    simp only [precText, List.cons_append, List.nil_append]
    cases gargs with
    | nil => simp [gTakeInt] at htake
    | cons a as =>
      cases a with
      | i64 v =>
        simp only [gTakeInt, Option.some.injEq, Prod.mk.injEq] at htake
        obtain ⟨rfl, rfl⟩ := htake
        have hv := hrange rfl v rfl
        have hnot : ¬ (v.natAbs > 1000000) := by omega
        have hneg : ¬ (v < 0) := by omega
        simp [goParsePrec, intFromArg, hnot, hneg]
      | _ => simp [gTakeInt] at htake

/-- the precision `fmt` sees: `addDefaultPrecisionG` gives `g G` without a precision the precision 6 -/
def effPrec (sp : Spec) : WP := if isGVerb sp.verb && sp.prec == .absent then .lit [54] else sp.prec

theorem body_gins (sp : Spec) (tl : Bytes) :
    sp.body ++ (gIns sp ++ tl) = sp.flags ++ (sp.width.text ++ (precText (effPrec sp) ++ tl)) := by
  unfold Spec.body gIns effPrec
  cases isGVerb sp.verb <;> cases hp : sp.prec <;> simp [precText]

theorem digit_not_flag (d : UInt8) (hd : isDigit d = true) (h48 : d ≠ 48) : isGoFlag d = false := by
  have h2 := isDigit_toNat d hd
  rw [Bool.eq_false_iff]; intro hf
  simp only [isGoFlag, Bool.or_eq_true, decide_eq_true_eq] at hf
  rcases hf with (((h | h) | h) | h) | h <;> subst h <;> simp_all

theorem go_conv_step (dg : DigitGen) (sp : Spec) (hwf : WF sp) (hv : sp.verb ∈ cVerbs) (fuel : Nat) (rest : Bytes)
    (gargs g1 as : List GoArg) (a : GoArg) (x y : Option Int) (b : Bytes)
    (hx : gTakeInt sp.width gargs = some (x, g1)) (hy : gTakeInt (effPrec sp) g1 = some (y, a :: as))
    (hxr : sp.width = .star → ∀ v, x = some v → v.natAbs ≤ 1000000)
    (hyr : sp.prec = .star → ∀ v, y = some v → 0 ≤ v ∧ v ≤ 1000000)
    (hwl : ∀ ds, sp.width = .lit ds → litTooLarge ds = false) (hpl : ∀ ds, sp.prec = .lit ds → litTooLarge ds = false)
    (hfmt : goFormat dg ⟨goFl (goFlags sp.flags) x, x.map Int.natAbs, y.map Int.toNat, verbGo sp.verb⟩ a = some b) :
    goPrintfAux dg (fuel + 1) (37 :: (sp.body ++ (gIns sp ++ verbGo sp.verb :: rest))) gargs =
      (goPrintfAux dg fuel rest as).prepend b := by
  obtain ⟨_, _, _, hgf, hgd, hg46, hg42, hg37, hg128, _, _⟩ := cverb_facts sp.verb hv
  generalize hg : verbGo sp.verb = g at *
  rw [body_gins]
  -- the precision text followed by the verb starts with a character that is neither a digit, `*` nor a flag
  have heff_wf : ∀ ds, effPrec sp = .lit ds → ∀ c ∈ ds, isDigit c = true := by
    intro ds hds
    unfold effPrec at hds
    split at hds
    · injection hds with hds; subst hds; intro c hc; simp at hc; subst hc; decide
    · exact hwf.prec ds hds
  have heff_star : effPrec sp = .star → sp.prec = .star := by
    intro h; unfold effPrec at h; split at h
    · cases h
    · exact h
  have heff_lit : ∀ ds, effPrec sp = .lit ds → litTooLarge ds = false := by
    intro ds hds
    unfold effPrec at hds
    split at hds
    · injection hds with hds; subst hds; decide
    · exact hpl ds hds
  obtain ⟨h2, t2, ht2, h2d, h242, h2f⟩ : ∃ h2 t2, precText (effPrec sp) ++ g :: rest = h2 :: t2 ∧ isDigit h2 = false ∧ h2 ≠ 42 ∧ isGoFlag h2 = false := by
    cases effPrec sp with
    | absent => exact ⟨g, rest, rfl, hgd, hg42, hgf⟩
    | lit ds => exact ⟨46, ds ++ g :: rest, rfl, by decide, by decide, by decide⟩
    | star => exact ⟨46, 42 :: g :: rest, rfl, by decide, by decide, by decide⟩
  obtain ⟨h1, t1, ht1, h1f⟩ : ∃ h1 t1, sp.width.text ++ (precText (effPrec sp) ++ g :: rest) = h1 :: t1 ∧ isGoFlag h1 = false := by
    rw [ht2]
    cases hw : sp.width with
    | absent => exact ⟨h2, t2, rfl, h2f⟩
    | lit ds =>
      obtain ⟨hds, d, r, rfl, hd48⟩ := hwf.width ds hw
      exact ⟨d, r ++ h2 :: t2, rfl, digit_not_flag d (hds d (by simp)) hd48⟩
    | star => exact ⟨42, h2 :: t2, rfl, by decide⟩
  have htw : (sp.flags ++ h1 :: t1).takeWhile isGoFlag = sp.flags := by
    rw [List.takeWhile_append_of_pos hwf.flags]; simp [List.takeWhile, h1f]
  have hdw : (sp.flags ++ h1 :: t1).dropWhile isGoFlag = h1 :: t1 := by
    rw [List.dropWhile_append_of_pos hwf.flags]; simp [List.dropWhile, h1f]
  rw [ht1]
  simp only [goPrintfAux, ne_eq, not_true_eq_false, if_false, htw, hdw]
  rw [← ht1, ht2, width_stage (goFlags sp.flags) sp.width h2 t2 gargs g1 x hwf.width h2d h242 hx hxr hwl]
  simp only [Bool.false_eq_true, if_false]
  rw [← ht2, prec_stage (effPrec sp) g rest g1 (a :: as) y heff_wf hgd hg42 hg46 hy (fun h => hyr (heff_star h)) heff_lit]
  simp [hg37, hg128, hfmt]

/-! ### one conversion: what `fmt` prints is what C prints -/

theorem vt_100 : lookupVerb 100 = some (100, 100) ∧ verbTy 100 = 100 ∧ verbGo 100 = 100 ∧ isGVerb 100 = false := by decide
theorem vt_105 : lookupVerb 105 = some (100, 100) ∧ verbTy 105 = 100 ∧ verbGo 105 = 100 ∧ isGVerb 105 = false := by decide
theorem vt_111 : lookupVerb 111 = some (117, 111) ∧ verbTy 111 = 117 ∧ verbGo 111 = 111 ∧ isGVerb 111 = false := by decide
theorem vt_117 : lookupVerb 117 = some (117, 100) ∧ verbTy 117 = 117 ∧ verbGo 117 = 100 ∧ isGVerb 117 = false := by decide
theorem vt_120 : lookupVerb 120 = some (117, 120) ∧ verbTy 120 = 117 ∧ verbGo 120 = 120 ∧ isGVerb 120 = false := by decide
theorem vt_88 : lookupVerb 88 = some (117, 88) ∧ verbTy 88 = 117 ∧ verbGo 88 = 88 ∧ isGVerb 88 = false := by decide
theorem vt_99 : lookupVerb 99 = some (99, 115) ∧ verbTy 99 = 99 ∧ verbGo 99 = 115 ∧ isGVerb 99 = false := by decide
theorem vt_115 : lookupVerb 115 = some (115, 115) ∧ verbTy 115 = 115 ∧ verbGo 115 = 115 ∧ isGVerb 115 = false := by decide
theorem vt_101 : lookupVerb 101 = some (102, 101) ∧ verbTy 101 = 102 ∧ verbGo 101 = 101 ∧ isGVerb 101 = false := by decide
theorem vt_69 : lookupVerb 69 = some (102, 69) ∧ verbTy 69 = 102 ∧ verbGo 69 = 69 ∧ isGVerb 69 = false := by decide
theorem vt_102 : lookupVerb 102 = some (102, 102) ∧ verbTy 102 = 102 ∧ verbGo 102 = 102 ∧ isGVerb 102 = false := by decide
theorem vt_103 : lookupVerb 103 = some (102, 103) ∧ verbTy 103 = 102 ∧ verbGo 103 = 103 ∧ isGVerb 103 = true := by decide
theorem vt_71 : lookupVerb 71 = some (102, 71) ∧ verbTy 71 = 102 ∧ verbGo 71 = 71 ∧ isGVerb 71 = true := by decide

/-- the hypotheses under which one converted argument is claimed: outside F15 / G09-1 for integers, ASCII text for `%s`, one
rune (or no width) for `%c`, finite values and a coherent digit generator for the floating conversions (F27) -/
def ArgOK (dg : DigitGen) (cs : CSpec) : CArg → Prop
  | .int v => ¬ IntExcluded cs (decide (v < 0)) v.natAbs
  | .uint u => ¬ IntExcluded cs false u
  | .str s => AllAscii s
  | .chr c => runeCount c = 1 ∨ cs.width = none
  | .dbl x => (∃ neg m e, x = .fin neg m e) ∧ AsciiDigits dg ∧ (cs.fl.sharp = true → SharpCoherent dg)

theorem conv_link (dg : DigitGen) (chars : Bool) (fl : Flags) (wid prec : Option Nat) (v : UInt8) (a : Arg) (ca : CArg)
    (hv : v ∈ cVerbs) (hdom : InCDomain ⟨fl, wid, prec, v⟩) (hca : awkConvert chars v a = some ca)
    (hok : ArgOK dg ⟨fl, wid, prec, v⟩ ca) :
    ∃ ga b, convertArg chars (verbTy v) a = some ga ∧
      goFormat dg ⟨fl, wid, (if (isGVerb v && prec.isNone) = true then some 6 else prec), verbGo v⟩ ga = some b ∧
      cFormat dg ⟨fl, wid, prec, v⟩ ca = some b := by
  simp only [cVerbs, List.mem_cons, List.not_mem_nil, or_false] at hv
  rcases hv with rfl | rfl | rfl | rfl | rfl | rfl | rfl | rfl | rfl | rfl | rfl | rfl | rfl
  · -- d
    have hl := vt_100.1; have ht := vt_100.2.1; have hg := vt_100.2.2.1; have hgv := vt_100.2.2.2
    simp only [awkConvert, hl] at hca
    simp only [ht, hg, hgv]
    simp at hca; subst hca
    have key := conv_signed dg ⟨fl, wid, prec, 100⟩ (toInt64 a.n) (Or.inl rfl) hdom hok
    refine ⟨.i64 (toInt64 a.n), cFmtInteger ⟨fl, wid, prec, 100⟩ (decide (toInt64 a.n < 0)) (toInt64 a.n).natAbs, by simp [convertArg], ?_, by simp [cFormat]⟩
    simp only [Bool.false_and, Bool.false_eq_true, if_false]
    rw [key]; simp [cFormat]
  · -- i
    have hl := vt_105.1; have ht := vt_105.2.1; have hg := vt_105.2.2.1; have hgv := vt_105.2.2.2
    simp only [awkConvert, hl] at hca
    simp only [ht, hg, hgv]
    simp at hca; subst hca
    have key := conv_signed dg ⟨fl, wid, prec, 105⟩ (toInt64 a.n) (Or.inr rfl) hdom hok
    refine ⟨.i64 (toInt64 a.n), cFmtInteger ⟨fl, wid, prec, 105⟩ (decide (toInt64 a.n < 0)) (toInt64 a.n).natAbs, by simp [convertArg], ?_, by simp [cFormat]⟩
    simp only [Bool.false_and, Bool.false_eq_true, if_false]
    rw [key]; simp [cFormat]
  · -- o
    have hl := vt_111.1; have ht := vt_111.2.1; have hg := vt_111.2.2.1; have hgv := vt_111.2.2.2
    simp only [awkConvert, hl] at hca
    simp only [ht, hg, hgv]
    simp at hca; subst hca
    have key := conv_unsigned dg ⟨fl, wid, prec, 111⟩ (toUint64 (toInt64 a.n)) 111 (Or.inr (Or.inl ⟨rfl, rfl⟩)) hdom hok
    refine ⟨.u64 (toUint64 (toInt64 a.n)), cFmtInteger ⟨fl, wid, prec, 111⟩ false (toUint64 (toInt64 a.n)), by simp [convertArg], ?_, by simp [cFormat]⟩
    simp only [Bool.false_and, Bool.false_eq_true, if_false]
    rw [key]; simp [cFormat]
  · -- u
    have hl := vt_117.1; have ht := vt_117.2.1; have hg := vt_117.2.2.1; have hgv := vt_117.2.2.2
    simp only [awkConvert, hl] at hca
    simp only [ht, hg, hgv]
    simp at hca; subst hca
    have key := conv_unsigned dg ⟨fl, wid, prec, 117⟩ (toUint64 (toInt64 a.n)) 100 (Or.inl ⟨rfl, rfl⟩) hdom hok
    refine ⟨.u64 (toUint64 (toInt64 a.n)), cFmtInteger ⟨fl, wid, prec, 117⟩ false (toUint64 (toInt64 a.n)), by simp [convertArg], ?_, by simp [cFormat]⟩
    simp only [Bool.false_and, Bool.false_eq_true, if_false]
    rw [key]; simp [cFormat]
  · -- x
    have hl := vt_120.1; have ht := vt_120.2.1; have hg := vt_120.2.2.1; have hgv := vt_120.2.2.2
    simp only [awkConvert, hl] at hca
    simp only [ht, hg, hgv]
    simp at hca; subst hca
    have key := conv_unsigned dg ⟨fl, wid, prec, 120⟩ (toUint64 (toInt64 a.n)) 120 (Or.inr (Or.inr (Or.inl ⟨rfl, rfl⟩))) hdom hok
    refine ⟨.u64 (toUint64 (toInt64 a.n)), cFmtInteger ⟨fl, wid, prec, 120⟩ false (toUint64 (toInt64 a.n)), by simp [convertArg], ?_, by simp [cFormat]⟩
    simp only [Bool.false_and, Bool.false_eq_true, if_false]
    rw [key]; simp [cFormat]
  · -- X
    have hl := vt_88.1; have ht := vt_88.2.1; have hg := vt_88.2.2.1; have hgv := vt_88.2.2.2
    simp only [awkConvert, hl] at hca
    simp only [ht, hg, hgv]
    simp at hca; subst hca
    have key := conv_unsigned dg ⟨fl, wid, prec, 88⟩ (toUint64 (toInt64 a.n)) 88 (Or.inr (Or.inr (Or.inr ⟨rfl, rfl⟩))) hdom hok
    refine ⟨.u64 (toUint64 (toInt64 a.n)), cFmtInteger ⟨fl, wid, prec, 88⟩ false (toUint64 (toInt64 a.n)), by simp [convertArg], ?_, by simp [cFormat]⟩
    simp only [Bool.false_and, Bool.false_eq_true, if_false]
    rw [key]; simp [cFormat]
  · -- c
    have hl := vt_99.1; have ht := vt_99.2.1; have hg := vt_99.2.2.1; have hgv := vt_99.2.2.2
    simp only [awkConvert, hl] at hca
    simp only [ht, hg, hgv]
    simp at hca; subst hca
    have key := conv_chr dg ⟨fl, wid, prec, 99⟩ (charBytes chars a) rfl hdom hok
    refine ⟨.bytes (charBytes chars a), cFmtChr ⟨fl, wid, prec, 99⟩ (charBytes chars a), by simp [convertArg], ?_, by simp [cFormat]⟩
    simp only [Bool.false_and, Bool.false_eq_true, if_false]
    rw [key]; simp [cFormat]
  · -- s
    have hl := vt_115.1; have ht := vt_115.2.1; have hg := vt_115.2.2.1; have hgv := vt_115.2.2.2
    simp only [awkConvert, hl] at hca
    simp only [ht, hg, hgv]
    simp at hca; subst hca
    have key := conv_str dg ⟨fl, wid, prec, 115⟩ a.s rfl hdom hok
    refine ⟨.str a.s, cFmtStr ⟨fl, wid, prec, 115⟩ a.s, by simp [convertArg], ?_, by simp [cFormat]⟩
    simp only [Bool.false_and, Bool.false_eq_true, if_false]
    rw [key]; simp [cFormat]
  · -- e
    have hl := vt_101.1; have ht := vt_101.2.1; have hg := vt_101.2.2.1; have hgv := vt_101.2.2.2
    simp only [awkConvert, hl] at hca
    simp only [ht, hg, hgv]
    simp at hca; subst hca
    obtain ⟨⟨neg, m, e, hfin⟩, hasc, hsh⟩ := hok
    rw [hfin]
    have key := conv_float dg ⟨fl, wid, prec, 101⟩ neg m e (Or.inl rfl) hasc hsh
    refine ⟨.f64 (.fin neg m e), cFmtFloat dg ⟨fl, wid, prec, 101⟩ (.fin neg m e), by simp [convertArg, hfin], ?_, by simp [cFormat]⟩
    have hgo : goFormat dg ⟨fl, wid, (if ((false : Bool) && prec.isNone) = true then some 6 else prec), 101⟩ (.f64 (.fin neg m e)) =
        goFormat dg ⟨fl, wid, some (prec.getD 6), 101⟩ (.f64 (.fin neg m e)) := by
      cases prec <;> simp [goFormat]
    rw [hgo, key]; simp [cFormat]
  · -- E
    have hl := vt_69.1; have ht := vt_69.2.1; have hg := vt_69.2.2.1; have hgv := vt_69.2.2.2
    simp only [awkConvert, hl] at hca
    simp only [ht, hg, hgv]
    simp at hca; subst hca
    obtain ⟨⟨neg, m, e, hfin⟩, hasc, hsh⟩ := hok
    rw [hfin]
    have key := conv_float dg ⟨fl, wid, prec, 69⟩ neg m e (Or.inr (Or.inl rfl)) hasc hsh
    refine ⟨.f64 (.fin neg m e), cFmtFloat dg ⟨fl, wid, prec, 69⟩ (.fin neg m e), by simp [convertArg, hfin], ?_, by simp [cFormat]⟩
    have hgo : goFormat dg ⟨fl, wid, (if ((false : Bool) && prec.isNone) = true then some 6 else prec), 69⟩ (.f64 (.fin neg m e)) =
        goFormat dg ⟨fl, wid, some (prec.getD 6), 69⟩ (.f64 (.fin neg m e)) := by
      cases prec <;> simp [goFormat]
    rw [hgo, key]; simp [cFormat]
  · -- f
    have hl := vt_102.1; have ht := vt_102.2.1; have hg := vt_102.2.2.1; have hgv := vt_102.2.2.2
    simp only [awkConvert, hl] at hca
    simp only [ht, hg, hgv]
    simp at hca; subst hca
    obtain ⟨⟨neg, m, e, hfin⟩, hasc, hsh⟩ := hok
    rw [hfin]
    have key := conv_float dg ⟨fl, wid, prec, 102⟩ neg m e (Or.inr (Or.inr (Or.inl rfl))) hasc hsh
    refine ⟨.f64 (.fin neg m e), cFmtFloat dg ⟨fl, wid, prec, 102⟩ (.fin neg m e), by simp [convertArg, hfin], ?_, by simp [cFormat]⟩
    have hgo : goFormat dg ⟨fl, wid, (if ((false : Bool) && prec.isNone) = true then some 6 else prec), 102⟩ (.f64 (.fin neg m e)) =
        goFormat dg ⟨fl, wid, some (prec.getD 6), 102⟩ (.f64 (.fin neg m e)) := by
      cases prec <;> simp [goFormat]
    rw [hgo, key]; simp [cFormat]
  · -- g
    have hl := vt_103.1; have ht := vt_103.2.1; have hg := vt_103.2.2.1; have hgv := vt_103.2.2.2
    simp only [awkConvert, hl] at hca
    simp only [ht, hg, hgv]
    simp at hca; subst hca
    obtain ⟨⟨neg, m, e, hfin⟩, hasc, hsh⟩ := hok
    rw [hfin]
    have key := conv_float dg ⟨fl, wid, prec, 103⟩ neg m e (Or.inr (Or.inr (Or.inr (Or.inl rfl)))) hasc hsh
    refine ⟨.f64 (.fin neg m e), cFmtFloat dg ⟨fl, wid, prec, 103⟩ (.fin neg m e), by simp [convertArg, hfin], ?_, by simp [cFormat]⟩
    have hgo : goFormat dg ⟨fl, wid, (if ((true : Bool) && prec.isNone) = true then some 6 else prec), 103⟩ (.f64 (.fin neg m e)) =
        goFormat dg ⟨fl, wid, some (prec.getD 6), 103⟩ (.f64 (.fin neg m e)) := by
      cases prec <;> simp [goFormat]
    rw [hgo, key]; simp [cFormat]
  · -- G
    have hl := vt_71.1; have ht := vt_71.2.1; have hg := vt_71.2.2.1; have hgv := vt_71.2.2.2
    simp only [awkConvert, hl] at hca
    simp only [ht, hg, hgv]
    simp at hca; subst hca
    obtain ⟨⟨neg, m, e, hfin⟩, hasc, hsh⟩ := hok
    rw [hfin]
    have key := conv_float dg ⟨fl, wid, prec, 71⟩ neg m e (Or.inr (Or.inr (Or.inr (Or.inr rfl)))) hasc hsh
    refine ⟨.f64 (.fin neg m e), cFmtFloat dg ⟨fl, wid, prec, 71⟩ (.fin neg m e), by simp [convertArg, hfin], ?_, by simp [cFormat]⟩
    have hgo : goFormat dg ⟨fl, wid, (if ((true : Bool) && prec.isNone) = true then some 6 else prec), 71⟩ (.f64 (.fin neg m e)) =
        goFormat dg ⟨fl, wid, some (prec.getD 6), 71⟩ (.f64 (.fin neg m e)) := by
      cases prec <;> simp [goFormat]
    rw [hgo, key]; simp [cFormat]

/-! ### arguments: AWK values and what reaches `fmt` -/

theorem convertArgs_cons_inv (chars : Bool) (t : UInt8) (ts : List UInt8) (args : List Arg) (gargs : List GoArg)
    (h : convertArgs chars (t :: ts) args = some gargs) :
    ∃ a as ga gs, args = a :: as ∧ gargs = ga :: gs ∧ convertArg chars t a = some ga ∧ convertArgs chars ts as = some gs := by
  cases args with
  | nil => simp [convertArgs] at h
  | cons a as =>
    simp only [convertArgs] at h
    cases h1 : convertArg chars t a with
    | none => simp [h1] at h
    | some ga =>
      cases h2 : convertArgs chars ts as with
      | none => simp [h1, h2] at h
      | some gs =>
        simp [h1, h2] at h
        exact ⟨a, as, ga, gs, rfl, h.symm, h1, h2⟩

/-- a `*` (type letter `d`) takes the same argument on both sides: C sees `int(a)`, `fmt` sees the `int64` -/
theorem take_link (chars : Bool) (w : WP) (ts : List UInt8) (args : List Arg) (gargs : List GoArg)
    (h : convertArgs chars (starTy w ++ ts) args = some gargs) :
    ∃ x args' gargs', cTakeInt w args = some (x, args') ∧ gTakeInt w gargs = some (x, gargs') ∧
      convertArgs chars ts args' = some gargs' := by
  cases w with
  | absent => exact ⟨none, args, gargs, rfl, rfl, by simpa [starTy] using h⟩
  | lit ds => exact ⟨some (numVal ds : Int), args, gargs, rfl, rfl, by simpa [starTy] using h⟩
  | star =>
    simp only [starTy, List.cons_append, List.nil_append] at h
    obtain ⟨a, as, ga, gs, rfl, rfl, hga, hgs⟩ := convertArgs_cons_inv chars 100 ts args gargs h
    have : ga = .i64 (toInt64 a.n) := by simp [convertArg] at hga; exact hga.symm
    subst this
    exact ⟨some (toInt64 a.n), as, gs, rfl, rfl, hgs⟩

/-- one conversion with the arguments it consumes is inside the claim: `*` values within `fmt`'s limit (G09-3) and a
non-negative `*` precision (G09-2), literals not "too large", the resolved specification in the C domain, the converted
argument outside the recorded classes -/
def ConvOK (dg : DigitGen) (chars : Bool) (sp : Spec) (args rest : List Arg) : Prop :=
  ∃ w args1 p a ca,
    cTakeInt sp.width args = some (w, args1) ∧ cTakeInt sp.prec args1 = some (p, a :: rest) ∧
    (sp.width = .star → ∀ v, w = some v → v.natAbs ≤ 1000000) ∧
    (sp.prec = .star → ∀ v, p = some v → 0 ≤ v ∧ v ≤ 1000000) ∧
    (∀ ds, sp.width = .lit ds → litTooLarge ds = false) ∧ (∀ ds, sp.prec = .lit ds → litTooLarge ds = false) ∧
    InCDomain (resolveSpec (goFlags sp.flags) w p sp.verb) ∧
    awkConvert chars sp.verb a = some ca ∧ ArgOK dg (resolveSpec (goFlags sp.flags) w p sp.verb) ca

def AllConvOK (dg : DigitGen) (chars : Bool) : List Seg → List Arg → Prop
  | [], _ => True
  | .conv sp :: r, args => ∃ rest, ConvOK dg chars sp args rest ∧ AllConvOK dg chars r rest
  | _ :: r, args => AllConvOK dg chars r args

theorem Res.prepend_ok (pre b : Bytes) : (Res.ok b).prepend pre = .ok (pre ++ b) := rfl

theorem go_lit (dg : DigitGen) (b : Bytes) (hb : ∀ c ∈ b, c ≠ 37) :
    ∀ (fuel : Nat) (rest : Bytes) (gargs : List GoArg),
      goPrintfAux dg (fuel + b.length) (b ++ rest) gargs = (goPrintfAux dg fuel rest gargs).prepend b := by
  induction b with
  | nil =>
    intro fuel rest gargs
    simp only [List.length_nil, Nat.add_zero, List.nil_append]
    cases goPrintfAux dg fuel rest gargs <;> simp [Res.prepend]
  | cons c b ih =>
    intro fuel rest gargs
    have hc : c ≠ 37 := hb c (by simp)
    rw [show fuel + (c :: b).length = (fuel + b.length) + 1 by simp; omega]
    simp only [List.cons_append, goPrintfAux, ne_eq, hc, not_false_eq_true, if_true, ih (fun x hx => hb x (by simp [hx]))]
    cases goPrintfAux dg fuel rest gargs <;> simp [Res.prepend]

/-- C's resolved precision: a negative `*` precision counts as omitted -/
def cPrecOf (p : Option Int) : Option Nat :=
  match p with
  | some p => if p < 0 then none else some p.toNat
  | none => none

theorem resolveSpec_eq (fl : Flags) (w p : Option Int) (v : UInt8) :
    resolveSpec fl w p v = ⟨goFl fl w, w.map Int.natAbs, cPrecOf p, v⟩ := by
  cases w <;> cases p <;> rfl

/-- the precision `fmt` gets is the one C resolves, with 6 for `g G` without a precision -/
theorem prec_resolve (sp : Spec) (g1 g2 : List GoArg) (p : Option Int) (args1 args2 : List Arg)
    (hc : cTakeInt sp.prec args1 = some (p, args2)) (hg : gTakeInt sp.prec g1 = some (p, g2))
    (hr : sp.prec = .star → ∀ v, p = some v → 0 ≤ v ∧ v ≤ 1000000) :
    ∃ y, gTakeInt (effPrec sp) g1 = some (y, g2) ∧
      y.map Int.toNat = (if (isGVerb sp.verb && (cPrecOf p).isNone) = true then some 6 else cPrecOf p) ∧
      (sp.prec = .star → y = p) := by
  unfold effPrec cPrecOf
  cases hp : sp.prec with
  | absent =>
    rw [hp] at hc hg
    simp only [cTakeInt, Option.some.injEq, Prod.mk.injEq] at hc
    simp only [gTakeInt, Option.some.injEq, Prod.mk.injEq] at hg
    obtain ⟨rfl, _⟩ := hc
    obtain ⟨_, rfl⟩ := hg
    cases isGVerb sp.verb
    · exact ⟨none, rfl, by simp, by simp [hp]⟩
    · exact ⟨some 6, by simp [gTakeInt]; decide, by simp, by simp [hp]⟩
  | lit ds =>
    rw [hp] at hc hg
    simp only [cTakeInt, Option.some.injEq, Prod.mk.injEq] at hc
    obtain ⟨rfl, _⟩ := hc
    refine ⟨some (numVal ds : Int), by simpa using hg, ?_, by simp [hp]⟩
    have : ¬ ((numVal ds : Int) < 0) := by omega
    simp [this]
  | star =>
    rw [hp] at hg
    refine ⟨p, by simpa using hg, ?_, fun _ => rfl⟩
    cases p with
    | none => cases g1 with
      | nil => simp [gTakeInt] at hg
      | cons a as => cases a <;> simp [gTakeInt] at hg
    | some v =>
      have hv := hr hp v rfl
      have : ¬ (v < 0) := by omega
      simp [this]

theorem go_segs (dg : DigitGen) (chars : Bool) : ∀ (segs : List Seg) (args : List Arg) (gargs : List GoArg) (fuel : Nat),
    (∀ s ∈ segs, SegOK s) → AllConvOK dg chars segs args → convertArgs chars (typesOf segs) args = some gargs →
    fuel ≥ (goText2 segs).length →
    ∃ out, cSegs dg chars segs args = some out ∧ goPrintfAux dg fuel (goText2 segs) gargs = .ok out := by
  intro segs
  induction segs with
  | nil =>
    intro args gargs fuel _ _ hconv _
    simp only [typesOf, convertArgs, Option.some.injEq] at hconv
    subst hconv
    refine ⟨[], rfl, ?_⟩
    cases fuel <;> rfl
  | cons s r ih =>
    intro args gargs fuel hok hall hconv hfuel
    have hr : ∀ s ∈ r, SegOK s := fun x hx => hok x (by simp [hx])
    cases s with
    | lit b =>
      have hb : ∀ c ∈ b, c ≠ 37 := hok (.lit b) (by simp)
      simp only [goText2, List.length_append] at hfuel
      obtain ⟨f', rfl⟩ : ∃ f', fuel = f' + b.length := ⟨fuel - b.length, by omega⟩
      obtain ⟨out, hc, hg⟩ := ih args gargs f' hr hall hconv (by omega)
      exact ⟨b ++ out, by simp [cSegs, hc], by simp only [goText2]; rw [go_lit dg b hb, hg]; rfl⟩
    | pct =>
      simp only [goText2, List.length_cons] at hfuel
      obtain ⟨f', rfl⟩ : ∃ f', fuel = f' + 1 := ⟨fuel - 1, by omega⟩
      obtain ⟨out, hc, hg⟩ := ih args gargs f' hr hall hconv (by omega)
      refine ⟨37 :: out, by simp [cSegs, hc], ?_⟩
      simp [goText2, goPrintfAux, goParseWidth, goParsePrec, List.takeWhile, List.dropWhile, isGoFlag, isDigit, hg, Res.prepend]
    | conv sp =>
      obtain ⟨hwf, hv⟩ : WF sp ∧ sp.verb ∈ cVerbs := hok (.conv sp) (by simp)
      obtain ⟨rest, ⟨w, args1, p, a, ca, hcw, hcp, hwr, hpr, hwl, hpl, hdom, hca, hargok⟩, hallr⟩ := hall
      simp only [typesOf] at hconv
      obtain ⟨x, args1', g1, hcw', hgw, hconv1⟩ := take_link chars sp.width _ args gargs hconv
      rw [hcw] at hcw'; simp only [Option.some.injEq, Prod.mk.injEq] at hcw'
      obtain ⟨rfl, rfl⟩ := hcw'
      obtain ⟨y0, args2', g2, hcp', hgp, hconv2⟩ := take_link chars sp.prec _ args1 g1 hconv1
      rw [hcp] at hcp'; simp only [Option.some.injEq, Prod.mk.injEq] at hcp'
      obtain ⟨rfl, rfl⟩ := hcp'
      obtain ⟨a', as', ga, gs, haeq, rfl, hga, hgs⟩ := convertArgs_cons_inv chars _ _ _ _ hconv2
      simp only [List.cons.injEq] at haeq
      obtain ⟨rfl, rfl⟩ := haeq
      obtain ⟨y, hgy, hyeq, hyp⟩ := prec_resolve sp g1 (ga :: gs) p args1 (a :: rest) hcp hgp hpr
      -- the per-conversion theorem
      rw [resolveSpec_eq] at hdom hargok
      have hlink := conv_link dg chars (goFl (goFlags sp.flags) w) (w.map Int.natAbs) (cPrecOf p) sp.verb a ca hv hdom hca hargok
      obtain ⟨ga', b, hga', hgofmt, hcfmt⟩ := hlink
      rw [hga] at hga'; simp only [Option.some.injEq] at hga'; subst hga'
      rw [← hyeq] at hgofmt
      simp only [goText2, List.length_cons, List.length_append] at hfuel
      obtain ⟨f', rfl⟩ : ∃ f', fuel = f' + 1 := ⟨fuel - 1, by omega⟩
      obtain ⟨out, hc, hg⟩ := ih rest gs f' hr hallr hgs (by omega)
      refine ⟨b ++ out, ?_, ?_⟩
      · have hcf : cFormat dg (resolveSpec (goFlags sp.flags) w p sp.verb) ca = some b := by rw [resolveSpec_eq]; exact hcfmt
        simp [cSegs, cConv, hcw, hcp, hca, hcf, hc]
      · simp only [goText2]
        rw [go_conv_step dg sp hwf hv f' (goText2 r) gargs g1 gs ga w y b hgw hgy hwr (fun h v hv => hpr h v (by rw [← hyp h]; exact hv)) hwl hpl hgofmt, hg]
        rfl

theorem typesOf_length (segs : List Seg) : (typesOf segs).length = needSegs segs := by
  induction segs with
  | nil => rfl
  | cons s r ih =>
    cases s with
    | lit b => simpa [typesOf, needSegs, Seg.need] using ih
    | pct => simpa [typesOf, needSegs, Seg.need] using ih
    | conv sp =>
      simp only [typesOf, needSegs, Seg.need, Spec.stars, List.length_append, List.length_cons, ih]
      cases sp.width <;> cases sp.prec <;> simp [starTy] <;> omega

def okType (t : UInt8) : Prop := t = 100 ∨ t = 115 ∨ t = 102 ∨ t = 117 ∨ t = 99

theorem verbTy_ok : ∀ v ∈ cVerbs, okType (verbTy v) := by unfold okType; decide

theorem typesOf_ok (segs : List Seg) (hok : ∀ s ∈ segs, SegOK s) : ∀ t ∈ typesOf segs, okType t := by
  induction segs with
  | nil => intro t ht; simp [typesOf] at ht
  | cons s r ih =>
    have hr : ∀ s ∈ r, SegOK s := fun x hx => hok x (by simp [hx])
    cases s with
    | lit b => simpa [typesOf] using ih hr
    | pct => simpa [typesOf] using ih hr
    | conv sp =>
      obtain ⟨_, hv⟩ : WF sp ∧ sp.verb ∈ cVerbs := hok (.conv sp) (by simp)
      intro t ht
      simp only [typesOf, List.mem_append, List.mem_cons] at ht
      rcases ht with ht | ht | ht | ht
      · cases hw : sp.width <;> simp [starTy, hw] at ht; subst ht; exact Or.inl rfl
      · cases hp : sp.prec <;> simp [starTy, hp] at ht; subst ht; exact Or.inl rfl
      · subst ht; exact verbTy_ok sp.verb hv
      · exact ih hr t ht

theorem convertArgs_total (chars : Bool) : ∀ (ts : List UInt8) (args : List Arg), (∀ t ∈ ts, okType t) → ts.length ≤ args.length →
    ∃ gargs, convertArgs chars ts args = some gargs := by
  intro ts
  induction ts with
  | nil => intro args _ _; exact ⟨[], rfl⟩
  | cons t ts ih =>
    intro args hok hlen
    cases args with
    | nil => simp at hlen
    | cons a as =>
      obtain ⟨gs, hgs⟩ := ih as (fun x hx => hok x (by simp [hx])) (by simpa using hlen)
      have ht := hok t (by simp)
      have : ∃ ga, convertArg chars t a = some ga := by
        rcases ht with rfl | rfl | rfl | rfl | rfl <;> simp [convertArg]
      obtain ⟨ga, hga⟩ := this
      exact ⟨ga :: gs, by simp [convertArgs, hga, hgs]⟩

theorem parseFmtTypes_segs (segs : List Seg) (hok : ∀ s ∈ segs, SegOK s) :
    parseFmtTypes (renderSegs segs) = .ok (goText2 segs, typesOf segs) := by
  unfold parseFmtTypes
  rw [parse_segs segs _ hok (Nat.le_refl _)]
  simp only [addPrecG]
  rw [addPrec_segs segs _ hok (Nat.le_refl _)]

end GoawkModel.C09
