import GoawkModel.C06
import Proofs.C06Split
import Proofs.C06SplitMulti
/-! C06: `FS = ""` — `ensureFields` takes the "at most one rune" branch with an empty separator, i.e. `strings.Split(line, "")`:
one field per UTF-8 sequence, an invalid byte standing alone. Nothing is lost, no field is empty. -/
namespace GoawkModel.C06
variable {ρ : Type} (M : ρ → Bytes → List (Nat × Nat))

theorem decodeRune_width (b : UInt8) (rest : Bytes) :
    1 ≤ (decodeRune (b :: rest)).2 ∧ (decodeRune (b :: rest)).2 ≤ 4 := by
  simp only [decodeRune]
  repeat' split
  all_goals simp

theorem runesAux_flatten : ∀ (fuel : Nat) (s : Bytes), s.length ≤ fuel → (runesAux fuel s).flatten = s := by
  intro fuel
  induction fuel with
  | zero =>
    intro s h
    have : s = [] := List.length_eq_zero_iff.mp (by omega)
    subst this; simp [runesAux]
  | succ n ih =>
    intro s h
    cases s with
    | nil => simp [runesAux]
    | cons b bs =>
      have hw := decodeRune_width b bs
      simp only [runesAux, List.flatten_cons]
      rw [ih]
      · exact List.take_append_drop _ _
      · simp only [List.length_drop, List.length_cons] at *; omega

theorem runesAux_nonempty : ∀ (fuel : Nat) (s : Bytes), ∀ g ∈ runesAux fuel s, g ≠ [] := by
  intro fuel
  induction fuel with
  | zero => intro s g hg; simp [runesAux] at hg
  | succ n ih =>
    intro s g hg
    cases s with
    | nil => simp [runesAux] at hg
    | cons b bs =>
      have hw := decodeRune_width b bs
      simp only [runesAux, List.mem_cons] at hg
      rcases hg with rfl | hg
      · intro h
        have := congrArg List.length h
        simp only [List.length_take, List.length_cons, List.length_nil] at this
        omega
      · exact ih _ g hg

/-- the characters of a line, joined with nothing, are the line -/
theorem runes_flatten (s : Bytes) : (runes s).flatten = s := runesAux_flatten s.length s (Nat.le_refl _)

theorem runes_nonempty (s : Bytes) : ∀ g ∈ runes s, g ≠ [] := runesAux_nonempty s.length s

/-- `FS = ""`: whatever RS is, a non-empty record is split into its UTF-8 sequences (an empty one has no fields:
`split_empty_line`) -/
theorem split_fs_empty (rs : Bool) (re : Option ρ) (line : Bytes) (hl : line ≠ []) :
    split M rs [] re line = runes line := by
  simp [split, hl, runeCount, runes, runesAux]

end GoawkModel.C06

/-! ### RS = "" with a one-byte FS: the extra newline rule of `ensureFields` -/
namespace GoawkModel.C06
variable {ρ : Type} (M : ρ → Bytes → List (Nat × Nat))

theorem splitOnP_subset {α : Type} (p : α → Bool) (l : List α) : ∀ g ∈ splitOnP p l, ∀ x ∈ g, x ∈ l := by
  induction l with
  | nil => simp [splitOnP]
  | cons a as ih =>
    simp only [splitOnP]
    by_cases h : p a = true
    · simp only [h, if_true]
      intro g hg
      simp at hg
      rcases hg with rfl | hg
      · simp
      · intro x hx; exact List.mem_cons_of_mem _ (ih g hg x hx)
    · simp only [h]
      cases hs : splitOnP p as with
      | nil => exact absurd hs (splitOnP_ne_nil _ as)
      | cons g gs =>
        rw [hs] at ih
        intro g' hg'
        simp at hg'
        rcases hg' with rfl | hg'
        · intro x hx
          simp at hx
          rcases hx with rfl | hx
          · simp
          · exact List.mem_cons_of_mem _ (ih g (by simp) x hx)
        · intro x hx; exact List.mem_cons_of_mem _ (ih g' (by simp [hg']) x hx)

theorem trimCR_subset (f : Bytes) : ∀ x ∈ trimCR f, x ∈ f := by
  intro x hx
  unfold trimCR at hx
  split at hx
  · exact (List.dropLast_sublist f).subset hx
  · exact hx

/-- the shape of the paragraph-mode split: the FS split, each piece split again at newlines, one trailing CR dropped per piece -/
theorem split_paragraph_char (c : UInt8) (hc : c < 0x80) (h32 : c ≠ 32) (re : Option ρ) (line : Bytes) (hl : line ≠ []) :
    split M true [c] re line = (splitSep [c] line).flatMap (fun f => (splitSep [10] f).map trimCR) := by
  simp [split, h32, hl, runeCount_single c hc]

/-- no field of a paragraph-mode record split on a one-byte FS contains the separator or a newline, and every byte of a field
comes from the record -/
theorem split_paragraph_char_clean (c : UInt8) (hc : c < 0x80) (h32 : c ≠ 32) (re : Option ρ) (line : Bytes) (hl : line ≠ []) :
    ∀ f ∈ split M true [c] re line, c ∉ f ∧ (10 : UInt8) ∉ f ∧ ∀ x ∈ f, x ∈ line := by
  intro f hf
  rw [split_paragraph_char M c hc h32 re line hl] at hf
  simp only [List.mem_flatMap, List.mem_map] at hf
  obtain ⟨g, hg, g', hg', rfl⟩ := hf
  rw [splitSep_single] at hg hg'
  have hgc := splitOnP_no_sep (fun b => b == c) line g hg
  have hgl := splitOnP_subset (fun b => b == c) line g hg
  have hnl := splitOnP_no_sep (fun b => b == (10 : UInt8)) g g' hg'
  have hsub := splitOnP_subset (fun b => b == (10 : UInt8)) g g' hg'
  refine ⟨?_, ?_, ?_⟩
  · intro h
    have := hgc c (hsub c (trimCR_subset g' c h))
    simp at this
  · intro h
    have := hnl 10 (trimCR_subset g' 10 h)
    simp at this
  · intro x hx
    exact hgl x (hsub x (trimCR_subset g' x hx))

end GoawkModel.C06

/-! ### RS = "" with any one-character FS (multi-byte included) -/
namespace GoawkModel.C06
variable {ρ : Type} (M : ρ → Bytes → List (Nat × Nat))

theorem mem_intercalate (sep : Bytes) : ∀ (l : List Bytes) (g : Bytes) (x : UInt8), g ∈ l → x ∈ g → x ∈ intercalate sep l
  | [], g, x, hg, _ => by simp at hg
  | [a], g, x, hg, hx => by
    simp at hg; subst hg; simpa [intercalate] using hx
  | a :: b :: rest, g, x, hg, hx => by
    simp only [intercalate, List.mem_append]
    rcases List.mem_cons.mp hg with rfl | hg
    · exact Or.inl (Or.inl hx)
    · exact Or.inr (mem_intercalate sep (b :: rest) g x hg hx)

theorem splitSep_subset (sep : Bytes) (hsep : sep ≠ []) (s : Bytes) : ∀ g ∈ splitSep sep s, ∀ x ∈ g, x ∈ s := by
  intro g hg x hx
  have := mem_intercalate sep (splitSep sep s) g x hg hx
  rwa [splitSep_join sep hsep s] at this

theorem split_paragraph_onechar (fs : Bytes) (h1 : runeCount fs = 1) (h32 : fs ≠ [32]) (re : Option ρ) (line : Bytes)
    (hl : line ≠ []) :
    split M true fs re line = (splitSep fs line).flatMap (fun f => (splitSep [10] f).map trimCR) := by
  have hne : fs ≠ [] := by intro e; subst e; simp [runeCount, runes, runesAux] at h1
  simp [split, h32, hl, h1, hne]

/-- with any one-character FS (a multi-byte character included) no field of a paragraph-mode record contains a newline, and
every byte of a field comes from the record -/
theorem split_paragraph_onechar_clean (fs : Bytes) (h1 : runeCount fs = 1) (h32 : fs ≠ [32]) (re : Option ρ) (line : Bytes)
    (hl : line ≠ []) :
    ∀ f ∈ split M true fs re line, (10 : UInt8) ∉ f ∧ ∀ x ∈ f, x ∈ line := by
  have hne : fs ≠ [] := by intro e; subst e; simp [runeCount, runes, runesAux] at h1
  intro f hf
  rw [split_paragraph_onechar M fs h1 h32 re line hl] at hf
  simp only [List.mem_flatMap, List.mem_map] at hf
  obtain ⟨g, hg, g', hg', rfl⟩ := hf
  have hgl := splitSep_subset fs hne line g hg
  rw [splitSep_single] at hg'
  have hnl := splitOnP_no_sep (fun b => b == (10 : UInt8)) g g' hg'
  have hsub := splitOnP_subset (fun b => b == (10 : UInt8)) g g' hg'
  refine ⟨?_, ?_⟩
  · intro h
    have := hnl 10 (trimCR_subset g' 10 h)
    simp at this
  · intro x hx
    exact hgl x (hsub x (trimCR_subset g' x hx))

end GoawkModel.C06
