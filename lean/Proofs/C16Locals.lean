import GoawkModel.C16Locals
/-! Lemmas about the array-table discipline of `CallUser` (`GoawkModel.C16.Locals`), for Props.C16 and Props.C14. -/
namespace GoawkModel.C16.Locals

theorem upd_length (t : Table) (i k : Nat) : (upd t i k).length = t.length := by
  induction t generalizing i with
  | nil => rfl
  | cons m t ih => cases i <;> simp [upd, ih]

theorem upd_take (t : Table) (i k n : Nat) (h : n ≤ i) : (upd t i k).take n = t.take n := by
  induction t generalizing i n with
  | nil => rfl
  | cons m t ih =>
    cases n with
    | zero => simp
    | succ n =>
      cases i with
      | zero => omega
      | succ i => simp [upd, ih i n (by omega)]

theorem allFresh_append {a b : List (List Nat)} (ha : AllFresh a) (hb : AllFresh b) : AllFresh (a ++ b) := by
  intro e he
  rcases List.mem_append.mp he with h | h
  · exact ha e h
  · exact hb e h

theorem snapshot_fresh (t : Table) (n : Nat) :
    AllFresh [((t ++ List.replicate n ([] : AMap)).drop t.length).map List.length] := by
  intro e he
  simp at he
  subst he
  intro x hx
  simp at hx
  exact hx.2.symm ▸ rfl

/-- everything at once: the table below `base`… in fact the whole table is what it was, and every recorded entry is fresh -/
theorem exec_spec (fns : List Fn) (fuel base : Nat) (stmts : List Stmt) (s : St) (hb : base ≤ s.tab.length)
    (hf : AllFresh s.entries) :
    (exec fns fuel base stmts s).1.tab.length = s.tab.length ∧
    (exec fns fuel base stmts s).1.tab.take base = s.tab.take base ∧
    AllFresh (exec fns fuel base stmts s).1.entries := by
  induction fuel generalizing base stmts s with
  | zero =>
    cases stmts with
    | nil => simp [exec, hf]
    | cons a r => simp [exec, hf]
  | succ fuel ih =>
    cases stmts with
    | nil => simp [exec, hf]
    | cons a rest =>
      cases a with
      | fill slot key =>
        simp only [exec]
        have := ih base rest { s with tab := upd s.tab (base + slot) key } (by simp [upd_length]; exact hb) hf
        simp only [upd_length] at this
        refine ⟨this.1, ?_, this.2.2⟩
        rw [this.2.1, upd_take _ _ _ _ (by omega)]
      | leave o => simp [exec, hf]
      | call f =>
        simp only [exec]
        cases hfn : fns[f]? with
        | none => simp [hf]
        | some fn =>
          simp only []
          have hfresh1 : AllFresh (s.entries ++ [((s.tab ++ List.replicate fn.nArr ([] : AMap)).drop s.tab.length).map List.length]) :=
            allFresh_append hf (snapshot_fresh s.tab fn.nArr)
          have inner := ih s.tab.length fn.body
            { tab := s.tab ++ List.replicate fn.nArr [],
              entries := s.entries ++ [((s.tab ++ List.replicate fn.nArr ([] : AMap)).drop s.tab.length).map List.length] }
            (by simp) hfresh1
          simp only [List.take_left'] at inner
          have htab : (exec fns fuel s.tab.length fn.body
              { tab := s.tab ++ List.replicate fn.nArr [],
                entries := s.entries ++ [((s.tab ++ List.replicate fn.nArr ([] : AMap)).drop s.tab.length).map List.length] }).1.tab.take
                s.tab.length = s.tab := by
            rw [inner.2.1]
          generalize exec fns fuel s.tab.length fn.body
              { tab := s.tab ++ List.replicate fn.nArr [],
                entries := s.entries ++ [((s.tab ++ List.replicate fn.nArr ([] : AMap)).drop s.tab.length).map List.length] } = r at *
          obtain ⟨r1, o⟩ := r
          simp only at htab inner ⊢
          have after := ih base rest { r1 with tab := r1.tab.take s.tab.length } (by simp only [htab]; exact hb) inner.2.2
          simp only [htab] at after
          cases o <;> simp only [htab] <;> first | exact after | exact ⟨trivial, trivial, inner.2.2⟩ | exact ⟨rfl, rfl, inner.2.2⟩

/-- seen from the top level (no activation alive: `base` = size of the table = number of global arrays) a piece of code leaves
the table exactly as it found it, however it ended -/
theorem exec_top (fns : List Fn) (fuel : Nat) (stmts : List Stmt) (s : St) (hf : AllFresh s.entries) :
    (exec fns fuel s.tab.length stmts s).1.tab = s.tab ∧ AllFresh (exec fns fuel s.tab.length stmts s).1.entries := by
  have h := exec_spec fns fuel s.tab.length stmts s (Nat.le_refl _) hf
  refine ⟨?_, h.2.2⟩
  have h2 := h.2.1
  rw [List.take_length, List.take_of_length_le (Nat.le_of_eq h.1)] at h2
  exact h2

theorem phases_spec (fns : List Fn) (fuel : Nat) (phs : List (List Stmt)) (s : St) (hf : AllFresh s.entries) :
    (phases fns fuel s.tab.length phs s).1.tab = s.tab ∧ AllFresh (phases fns fuel s.tab.length phs s).1.entries := by
  induction phs generalizing s with
  | nil => exact ⟨rfl, hf⟩
  | cons ph rest ih =>
    have h := exec_top fns fuel ph s hf
    have h2 := ih (exec fns fuel s.tab.length ph s).1 h.2
    simp only [phases]
    rw [h.1] at h2
    exact ⟨h2.1, h2.2⟩

end GoawkModel.C16.Locals
