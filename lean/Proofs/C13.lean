import GoawkModel.C13
/-! Helper lemmas for C13: association lists, the standard-output invariant and its lifting over histories. -/
namespace GoawkModel.C13

/-! ### association lists -/

theorem find_remove_self {α : Type} (n : Name) (l : List (Name × α)) : find n (remove n l) = none := by
  induction l with
  | nil => simp [remove, find]
  | cons p rest ih =>
    obtain ⟨m, v⟩ := p
    by_cases h : m = n
    · simpa [remove, List.filter, h] using ih
    · simp only [remove, List.filter, ne_eq, h, not_false_eq_true, decide_true, find, if_false]
      simpa [remove] using ih

theorem find_remove_ne {α : Type} {n m : Name} (h : m ≠ n) (l : List (Name × α)) : find m (remove n l) = find m l := by
  induction l with
  | nil => simp [remove, find]
  | cons p rest ih =>
    obtain ⟨k, v⟩ := p
    by_cases hk : k = n
    · subst hk
      have : k ≠ m := fun e => h e.symm
      simpa [remove, List.filter, find, this] using ih
    · simp only [remove, List.filter, ne_eq, hk, not_false_eq_true, decide_true, find]
      split
      · rfl
      · simpa [remove] using ih

theorem find_set_self {α : Type} (n : Name) (v : α) (l : List (Name × α)) : find n (set n v l) = some v := by
  simp [set, find]

theorem find_set_ne {α : Type} {n m : Name} (h : m ≠ n) (v : α) (l : List (Name × α)) : find m (set n v l) = find m l := by
  have : n ≠ m := fun e => h e.symm
  simp [set, find, this, find_remove_ne h]

theorem content_set_self (n : Name) (v : Bytes) (fs : List (Name × Bytes)) : content (set n v fs) n = v := by
  simp [content, find_set_self]

theorem content_set_ne {n m : Name} (h : m ≠ n) (v : Bytes) (fs : List (Name × Bytes)) : content (set n v fs) m = content fs m := by
  simp [content, find_set_ne h]

/-! ### standard output: nothing is lost between the buffer and the underlying writer -/

/-- no fault injected, no sticky error, and (delivered ++ waiting) = (everything written, in order) -/
structure StdInv (s : St) : Prop where
  nofail : s.failAt = none
  sound : s.broken = false
  log : s.out ++ s.outBuf = s.outLog
  unbuf : s.buffered = false → s.outBuf = []

theorem rawOut_nofail (s : St) (c : Bytes) (h : s.failAt = none) : rawOut s c = ({ s with out := s.out ++ c }, true) := by
  simp [rawOut, h]

theorem writeOut_inv (s : St) (c : Bytes) (h : StdInv s) : StdInv (writeOut s c).1 ∧ (writeOut s c).2 = true := by
  obtain ⟨h1, h2, h3, h4⟩ := h
  by_cases hb : s.buffered = true
  · refine ⟨⟨?_, ?_, ?_, ?_⟩, ?_⟩ <;> simp [writeOut, hb, h2, h1, ← h3, List.append_assoc]
  · have hb' : s.buffered = false := by simpa using hb
    have ho := h4 hb'
    refine ⟨⟨?_, ?_, ?_, ?_⟩, ?_⟩ <;> simp [writeOut, hb', rawOut, h1, h2, ← h3, ho]

theorem childOut_inv (s : St) (c : Bytes) (h : StdInv s) : StdInv (childOut s c) := by
  obtain ⟨h1, h2, h3, h4⟩ := h
  by_cases hb : s.buffered = true
  · refine ⟨?_, ?_, ?_, ?_⟩ <;> simp [childOut, hb, h2, h1, ← h3, List.append_assoc]
  · have hb' : s.buffered = false := by simpa using hb
    have ho := h4 hb'
    refine ⟨?_, ?_, ?_, ?_⟩ <;> simp [childOut, hb', rawOut, h1, h2, ← h3, ho]

theorem flushOut_inv (s : St) (h : StdInv s) : StdInv (flushOut s).1 ∧ (flushOut s).1.outBuf = [] ∧ (flushOut s).2 = true := by
  obtain ⟨h1, h2, h3, h4⟩ := h
  by_cases hb : s.buffered = true
  · by_cases he : s.outBuf = []
    · have h3' : s.out = s.outLog := by simpa [he] using h3
      refine ⟨⟨?_, ?_, ?_, ?_⟩, ?_, ?_⟩ <;> simp [flushOut, hb, h2, he, h1, h3']
    · refine ⟨⟨?_, ?_, ?_, ?_⟩, ?_, ?_⟩ <;> simp [flushOut, hb, h2, he, rawOut, h1, h3]
  · have hb' : s.buffered = false := by simpa using hb
    have ho := h4 hb'
    have h3' : s.out = s.outLog := by simpa [ho] using h3
    refine ⟨⟨?_, ?_, ?_, ?_⟩, ?_, ?_⟩ <;> simp [flushOut, hb', h1, h2, h3', ho]

theorem flushOut_frame (s : St) : (flushOut s).1.outLog = s.outLog ∧ (flushOut s).1.fs = s.fs ∧
    (flushOut s).1.streams = s.streams ∧ (flushOut s).1.procs = s.procs := by
  unfold flushOut rawOut
  cases s.buffered <;> cases s.broken <;> by_cases he : s.outBuf = [] <;> simp [he] <;>
    (cases s.failAt <;> simp <;> (split <;> simp))

/-- the parts of the state that the stream / file bookkeeping may change without touching standard output -/
def SameStd (s t : St) : Prop :=
  t.buffered = s.buffered ∧ t.failAt = s.failAt ∧ t.broken = s.broken ∧ t.out = s.out ∧ t.outBuf = s.outBuf ∧ t.outLog = s.outLog

theorem StdInv.of_same {s t : St} (h : StdInv s) (e : SameStd s t) : StdInv t := by
  obtain ⟨e1, e2, e3, e4, e5, e6⟩ := e
  exact ⟨e2 ▸ h.nofail, e3 ▸ h.sound, by rw [e4, e5, e6]; exact h.log, fun hb => by rw [e5]; exact h.unbuf (e1 ▸ hb)⟩

theorem deliver_same (s : St) (n : Name) (st : Stream) : SameStd s (deliver s n st).1 := by
  unfold deliver; cases st.kind <;> simp [SameStd]

theorem deliverAll_same (l : List (Name × Stream)) : ∀ s : St, SameStd s (deliverAll s l).1 := by
  induction l with
  | nil => intro s; simp [deliverAll, SameStd]
  | cons p rest ih =>
    intro s
    obtain ⟨n, st⟩ := p
    have h1 := deliver_same s n st
    have h2 := ih (deliver s n st).1
    simp only [deliverAll]
    obtain ⟨a1, a2, a3, a4, a5, a6⟩ := h1
    obtain ⟨b1, b2, b3, b4, b5, b6⟩ := h2
    exact ⟨b1.trans a1, b2.trans a2, b3.trans a3, b4.trans a4, b5.trans a5, b6.trans a6⟩

theorem flushAll_inv (s : St) (h : StdInv s) : StdInv (flushAll s).1 ∧ (flushAll s).1.outBuf = [] ∧ (flushAll s).2 = true := by
  have hs : StdInv ({ (deliverAll s s.streams).1 with streams := (deliverAll s s.streams).2 } : St) :=
    h.of_same (by have := deliverAll_same s.streams s; simpa [SameStd] using this)
  have hf := flushOut_inv _ hs
  have e : flushAll s = ((flushOut ({ (deliverAll s s.streams).1 with streams := (deliverAll s s.streams).2 } : St)).1, true) := by
    simp [flushAll, hf.2.2]
  rw [e]
  exact ⟨hf.1, hf.2.1, rfl⟩

theorem closeStream_inv (b : Beh) (s : St) (n : Name) (st : Stream) (h : StdInv s) : StdInv (closeStream b s n st).1 := by
  unfold closeStream
  cases st.kind with
  | rd => exact h
  | file => exact h.of_same (deliver_same s n st)
  | cmd => exact childOut_inv _ _ (h.of_same (by simp [SameStd]))

theorem closeList_inv (b : Beh) (l : List (Name × Stream)) : ∀ s : St, StdInv s → StdInv (closeList b s l) := by
  induction l with
  | nil => intro s h; exact h
  | cons p rest ih =>
    intro s h
    obtain ⟨n, st⟩ := p
    exact ih _ (closeStream_inv b s n st h)

/-- after `closeAll` everything written to standard output has reached the underlying writer, in order -/
theorem finish_complete (b : Beh) (s : St) (h : StdInv s) : (finish b s).out = (finish b s).outLog ∧ (finish b s).outBuf = [] := by
  unfold finish
  have h1 : StdInv { s with streams := [] } := h.of_same (by simp [SameStd])
  have h2 := closeList_inv b s.streams _ h1
  have h3 := flushOut_inv _ h2
  refine ⟨?_, h3.2.1⟩
  have := h3.1.log
  rw [h3.2.1] at this
  simpa using this

/-- one step keeps the standard-output invariant and never reports a write error when no fault is injected -/
theorem step_inv (b : Beh) (s : St) (op : Op) (h : StdInv s) : StdInv (step b s op).1 ∧ (step b s op).2 ≠ .err .stdoutWrite := by
  cases op with
  | print c =>
    have := writeOut_inv s c h
    simp only [step, this.2, if_true]
    exact ⟨this.1, by simp⟩
  | printTo rd n c =>
    simp only [step]
    split
    · split
      · exact ⟨h, by simp⟩
      · exact ⟨h.of_same (by simp [SameStd]), by simp⟩
    · have hf := flushOut_inv s h
      split
      · exact ⟨hf.1.of_same (by simp [SameStd]), by simp⟩
      split
      · have := writeOut_inv s c h
        simp only [this.2, if_true]
        exact ⟨this.1, by simp⟩
      split
      · exact ⟨hf.1, by simp⟩
      split
      · have := writeOut_inv _ c hf.1
        simp only [this.2, if_true]
        exact ⟨this.1, by simp⟩
      · exact ⟨hf.1.of_same (by simp [SameStd]), by simp⟩
  | close n =>
    simp only [step]
    split
    · exact ⟨h, by simp⟩
    · exact ⟨closeStream_inv b _ n _ (h.of_same (by simp [SameStd])), by simp⟩
  | fflush n =>
    simp only [step]
    have hf := flushOut_inv s h
    split
    · split
      · exact ⟨hf.1, by simp⟩
      · rename_i st _ _
        exact ⟨StdInv.of_same (h.of_same (deliver_same s n st)) (by simp [SameStd]), by simp⟩
    · exact ⟨hf.1, by simp⟩
  | fflushAll =>
    simp only [step]
    exact ⟨(flushAll_inv s h).1, by split <;> simp⟩
  | system c =>
    simp only [step]
    exact ⟨childOut_inv _ _ ((flushAll_inv s h).1.of_same (by simp [SameStd])), by simp⟩
  | getlineFile n =>
    simp only [step]
    split
    · split
      · split
        · exact ⟨h, by simp⟩
        · exact ⟨h.of_same (by simp [SameStd]), by simp⟩
      · exact ⟨h, by simp⟩
    · split
      · exact ⟨h, by simp⟩
      · split
        · exact ⟨h.of_same (by simp [SameStd]), by simp⟩
        · exact ⟨h.of_same (by simp [SameStd]), by simp⟩
  | exit code => exact ⟨h, by simp [step]⟩
  | fail => exact ⟨h, by simp [step]⟩

/-- every history, however it ends (all operations done, `exit`, run-time error): standard output is complete and in order -/
theorem run_stdout_complete (b : Beh) (ops : List Op) : ∀ s : St, StdInv s →
    (run b s ops).2.2.out = (run b s ops).2.2.outLog ∧ (run b s ops).2.1 ≠ .error .stdoutWrite := by
  induction ops with
  | nil => intro s h; exact ⟨(finish_complete b s h).1, by simp [run]⟩
  | cons op rest ih =>
    intro s h
    have hs := step_inv b s op h
    simp only [run]
    split
    · rename_i s' e heq
      rw [heq] at hs
      refine ⟨(finish_complete b s' hs.1).1, ?_⟩
      intro hc
      simp only [Outcome.error.injEq] at hc
      exact hs.2 (by simp [hc])
    · rename_i s' code heq
      rw [heq] at hs
      exact ⟨(finish_complete b s' hs.1).1, by simp⟩
    · rename_i s' r _ _ heq
      rw [heq] at hs
      exact ih s' hs.1

theorem stdInv_init (buffered : Bool) (fs : List (Name × Bytes)) : StdInv (St.init buffered none fs) :=
  ⟨rfl, rfl, rfl, fun _ => rfl⟩

end GoawkModel.C13
