import GoawkModel.C06
/-! C06: the lazy record `Rec` refines the eager specification `Spec` through `abs` (one step, then any history). -/
namespace GoawkModel.C06
variable {ρ : Type} (M : ρ → Bytes → List (Nat × Nat))

def Inv (r : Rec ρ) : Prop := r.haveFields = true → r.numFields = NFv.count r.fields.length

theorem ensure_have (r : Rec ρ) : (ensure M r).haveFields = true := by
  unfold ensure; split <;> simp_all
theorem ensure_fields (r : Rec ρ) : (ensure M r).fields = (abs M r).fields := by
  unfold ensure abs; split <;> simp_all
theorem ensure_line (r : Rec ρ) : (ensure M r).line = r.line := by
  unfold ensure; split <;> rfl
theorem ensure_lineTrue (r : Rec ρ) : (ensure M r).lineTrue = r.lineTrue := by
  unfold ensure; split <;> rfl
theorem ensure_env (r : Rec ρ) : (ensure M r).env = r.env := by
  unfold ensure; split <;> rfl
theorem abs_ensure (r : Rec ρ) : abs M (ensure M r) = abs M r := by
  unfold ensure abs; split <;> simp_all
theorem ensure_inv (r : Rec ρ) (h : Inv r) : Inv (ensure M r) := by
  unfold ensure; split
  · exact h
  · intro _; rfl
theorem ensure_numFields (r : Rec ρ) (h : Inv r) : (ensure M r).numFields = NFv.count (abs M r).fields.length := by
  have h1 := ensure_inv M r h (ensure_have M r)
  rw [h1, ensure_fields]

@[simp] theorem abs_line (r : Rec ρ) : (abs M r).line = r.line := rfl
@[simp] theorem abs_lineTrue (r : Rec ρ) : (abs M r).lineTrue = r.lineTrue := rfl
@[simp] theorem abs_env (r : Rec ρ) : (abs M r).env = r.env := rfl

def NFArg.Canon : NFArg → Prop
  | .num _ => True
  | .str s x => s = natToDec (goInt x).toNat ∧ x = .rat (goInt x) 1

def Op.Canon : Op ρ → Prop
  | .setNF a => a.Canon
  | _ => True

theorem nfStored_canon (a : NFArg) (hc : a.Canon) (hn : 0 ≤ goInt a.val) :
    nfStored a (goInt a.val).toNat = NFv.count (goInt a.val).toNat := by
  cases a with
  | num x => rfl
  | str s x =>
    obtain ⟨h1, h2⟩ := hc
    simp only [nfStored, NFv.count, NFArg.val] at *
    rw [← h1]
    have : ((goInt x).toNat : Int) = goInt x := Int.toNat_of_nonneg hn
    rw [this, ← h2]

theorem resize_length (f : List Fld) (n : Nat) (p : Fld) : (resize f n p).length = n := by
  simp [resize]; omega

/-- one step of the lazy record matches one step of the eager specification through `abs` -/
theorem refines_step (r : Rec ρ) (op : Op ρ) (hinv : Inv r) (hc : op.Canon) :
    abs M (step M r op).1 = (specStep M (abs M r) op).1 ∧ (step M r op).2 = (specStep M (abs M r) op).2 ∧
      Inv (step M r op).1 := by
  cases op with
  | setLine s t =>
    refine ⟨?_, rfl, ?_⟩
    · simp [step, specStep, setLine, specSetLine, abs]
    · intro h; simp [step, setLine] at h
  | getField i =>
    simp only [step, specStep, getField, specGetField]
    by_cases h0 : floatToInt i = 0
    · simp [h0, hinv]
    · simp only [h0, if_false]
      rw [ensure_fields]
      cases hr : resolveIdx (abs M r).fields.length (floatToInt i) with
      | none => simp [abs_ensure, ensure_inv M r hinv]
      | some k =>
        simp only []
        cases hk : (abs M r).fields[k - 1]? <;> simp [abs_ensure, ensure_inv M r hinv]
  | setField i v =>
    simp only [step, specStep, setField, specSetField]
    by_cases h0 : floatToInt i = 0
    · simp only [h0, if_true]
      refine ⟨?_, ?_, ?_⟩
      · simp [setLine, specSetLine, abs]
      · trivial
      · intro h; simp [setLine] at h
    · simp only [h0, if_false]
      by_cases hbig : floatToInt i > maxFieldIndex
      · simp [hbig, hinv]
      · simp only [hbig, if_false]
        rw [ensure_fields]
        cases hr : resolveIdx (abs M r).fields.length (floatToInt i) with
        | none => simp [abs_ensure, ensure_inv M r hinv]
        | some k =>
          refine ⟨?_, ?_, ?_⟩
          · simp [abs, ensure_have, ensure_env]
          · trivial
          · intro _; rfl
  | getNF =>
    simp only [step, specStep]
    refine ⟨abs_ensure M r, ?_, ensure_inv M r hinv⟩
    rw [ensure_numFields M r hinv]
  | setNF a =>
    simp only [step, specStep, setNF, specSetNF]
    by_cases hneg : goInt a.val < 0
    · simp [hneg, hinv]
    · simp only [hneg, if_false]
      by_cases hbig : goInt a.val > maxFieldIndex
      · simp [hbig, hinv]
      · simp only [hbig, if_false]
        refine ⟨?_, ?_, ?_⟩
        · simp [abs, ensure_have, ensure_env, ensure_fields]
        · trivial
        · intro _
          simp only []
          rw [nfStored_canon a hc (by omega)]
          rw [resize_length]
  | setFS fs re =>
    simp only [step, specStep]
    split
    · exact ⟨rfl, rfl, hinv⟩
    · refine ⟨?_, rfl, hinv⟩
      simp [abs, splitFlds, setFSEnv]
  | setOFS s =>
    refine ⟨?_, rfl, hinv⟩
    simp [step, specStep, abs, splitFlds]
    rfl
  | setOutMode m =>
    cases m with
    | invalid => refine ⟨?_, rfl, hinv⟩; (simp [step, specStep, abs, splitFlds, setModeEnv]; rfl)
    | default => refine ⟨?_, rfl, hinv⟩; (simp [step, specStep, abs, splitFlds, setModeEnv]; rfl)
    | csv sep => refine ⟨?_, rfl, hinv⟩; (simp [step, specStep, abs, splitFlds, setModeEnv]; rfl)

/-- any history: the lazy record and the eager specification print the same observations -/
theorem lift_run (r : Rec ρ) (ops : List (Op ρ)) (hinv : Inv r) (hc : ∀ op ∈ ops, op.Canon) :
    run M r ops = specRun M (abs M r) ops := by
  induction ops generalizing r with
  | nil => rfl
  | cons op ops ih =>
    obtain ⟨h1, h2, h3⟩ := refines_step M r op hinv (hc op (by simp))
    have ih' := ih (step M r op).1 h3 (fun o ho => hc o (by simp [ho]))
    simp only [run, specRun]
    rw [← h2, ← h1, ← ih']

theorem init_inv (rs : Bool) : Inv (Rec.init rs : Rec ρ) := by
  intro h; simp [Rec.init] at h

theorem abs_init (rs : Bool) : abs M (Rec.init rs : Rec ρ) = Spec.init rs := by
  simp [abs, Rec.init, Spec.init, splitFlds, split, fieldsSpace, runes, runesAux, splitOnP]

end GoawkModel.C06
