import GoawkModel.C10
import Proofs.C10Index
namespace GoawkModel.C10

theorem runeLen_take (s : Bytes) (n : Nat) (h : runeLen s ≤ n) : runeLen (s.take n) = runeLen s := by
  rcases s with _ | ⟨b0, _ | ⟨b1, _ | ⟨b2, _ | ⟨b3, t⟩⟩⟩⟩ <;> rcases n with _ | _ | _ | _ | n <;>
    simp only [runeLen, List.take] at h ⊢ <;> (repeat' split) <;> simp_all

theorem take_runes (s : Bytes) (k : Nat) : s.take ((runes s).take k).flatten.length = ((runes s).take k).flatten := by
  have := flatten_take_take_length (runes s) k
  rwa [runes_flatten] at this

/-- a prefix that ends on a rune boundary decodes to the same runes -/
theorem runes_take : ∀ (k : Nat) (s : Bytes), runes ((runes s).take k).flatten = (runes s).take k := by
  intro k
  induction k with
  | zero => intro s; simp [runes_nil]
  | succ k ih =>
    intro s
    cases s with
    | nil => simp [runes_nil]
    | cons b bs =>
      have hb := runeLen_bounds b bs
      rw [runes_cons, List.take_succ_cons, List.flatten_cons]
      -- the prefix is `s.take n` for n = runeLen s + |rest|
      have hpre : (b :: bs).take (runeLen (b :: bs)) ++ ((runes ((b :: bs).drop (runeLen (b :: bs)))).take k).flatten
          = (b :: bs).take (runeLen (b :: bs) + ((runes ((b :: bs).drop (runeLen (b :: bs)))).take k).flatten.length) := by
        rw [List.take_add, take_runes]
      obtain ⟨r, hr⟩ : ∃ r, (b :: bs).take (runeLen (b :: bs)) = b :: r := by
        cases hh : runeLen (b :: bs) with
        | zero => omega
        | succ n => exact ⟨_, rfl⟩
      have hl : runeLen ((b :: bs).take (runeLen (b :: bs)) ++ ((runes ((b :: bs).drop (runeLen (b :: bs)))).take k).flatten)
          = runeLen (b :: bs) := by
        rw [hpre]; exact runeLen_take _ _ (by omega)
      have hlen : ((b :: bs).take (runeLen (b :: bs))).length = runeLen (b :: bs) := by
        rw [List.length_take]; omega
      generalize hP : ((runes ((b :: bs).drop (runeLen (b :: bs)))).take k).flatten = P at hl ⊢
      have ihP := ih ((b :: bs).drop (runeLen (b :: bs)))
      rw [hP] at ihP
      rw [hr] at hl hlen ⊢
      rw [List.cons_append, runes_cons, ← List.cons_append, hl, ← hlen]
      simp only [List.take_left', List.drop_left', ihP]
      rw [hlen]

theorem aligned_slice (s : Bytes) (k l : Nat) :
    (s.drop ((runes s).take k).flatten.length).take
      (((runes s).take (k + l)).flatten.length - ((runes s).take k).flatten.length)
      = (((runes s).drop k).take l).flatten := by
  rw [drop_runes, List.take_add, List.flatten_append, List.length_append, Nat.add_sub_cancel_left,
    flatten_take_take_length]

theorem runeCount_prefix (s : Bytes) (k : Nat) (h : k ≤ (runes s).length) :
    runeCount (s.take ((runes s).take k).flatten.length) = k := by
  rw [take_runes, runeCount, runes_take, List.length_take]; omega

theorem runeCount_run (s : Bytes) (k l : Nat) (h : k + l ≤ (runes s).length) :
    runeCount (((runes s).drop k).take l).flatten = l := by
  have h1 := runes_drop k s
  have h2 := runes_take l ((runes s).drop k).flatten
  rw [h1] at h2
  rw [runeCount, h2, List.length_take, List.length_drop]; omega
end GoawkModel.C10
