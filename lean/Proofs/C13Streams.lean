import Proofs.C13
/-!
Helper lemmas for C13, part 2: the stream table. Key facts:
* functions that only touch standard output leave `streams`, `fs`, `procs` alone (`Frame`);
* with distinct keys, flushing all streams (`deliverAll`) and closing all streams (`closeList`) treat every entry exactly
  once, so the per-stream invariant `EntryOK` gives the content of every destination;
* `SInv` (distinct keys + `EntryOK` for every entry) is kept by every operation.
-/
namespace GoawkModel.C13

/-! ### frames -/

def Frame (s t : St) : Prop := t.streams = s.streams ∧ t.fs = s.fs ∧ t.procs = s.procs

theorem frame_refl (s : St) : Frame s s := ⟨rfl, rfl, rfl⟩
theorem frame_trans {s t u : St} (a : Frame s t) (b : Frame t u) : Frame s u :=
  ⟨b.1.trans a.1, b.2.1.trans a.2.1, b.2.2.trans a.2.2⟩

theorem rawOut_frame (s : St) (c : Bytes) : Frame s (rawOut s c).1 := by
  unfold rawOut; cases s.failAt <;> simp [Frame] <;> (split <;> simp)

theorem flushOut_frame' (s : St) : Frame s (flushOut s).1 :=
  ⟨(flushOut_frame s).2.2.1, (flushOut_frame s).2.1, (flushOut_frame s).2.2.2⟩

theorem writeOut_frame (s : St) (c : Bytes) : Frame s (writeOut s c).1 := by
  have h := rawOut_frame { s with outLog := s.outLog ++ c } c
  unfold writeOut
  cases hb : s.buffered
  · simpa [Frame, hb] using h
  · cases s.broken <;> simp [Frame]

theorem childOut_frame (s : St) (c : Bytes) : Frame s (childOut s c) := by
  have h := rawOut_frame { s with outLog := s.outLog ++ c } c
  unfold childOut
  cases hb : s.buffered
  · simpa [Frame, hb] using h
  · cases s.broken <;> simp [Frame]

/-! ### keys -/

def keys (l : List (Name × Stream)) : List Name := l.map Prod.fst

theorem find_none_iff {α : Type} (n : Name) (l : List (Name × α)) : find n l = none ↔ n ∉ l.map Prod.fst := by
  induction l with
  | nil => simp [find]
  | cons p rest ih =>
    obtain ⟨m, v⟩ := p
    by_cases h : m = n
    · simp [find, h]
    · have h' : ¬ n = m := fun e => h e.symm
      simp [find, h, h', ih]

theorem find_some_mem_keys {n : Name} {l : List (Name × Stream)} {st : Stream} (h : find n l = some st) : n ∈ keys l := by
  by_cases hn : n ∈ keys l
  · exact hn
  · rw [keys, ← find_none_iff] at hn; rw [hn] at h; cases h

theorem keys_remove_sublist (n : Name) (l : List (Name × Stream)) : (keys (remove n l)).Sublist (keys l) := by
  unfold keys remove
  exact List.Sublist.map _ List.filter_sublist

theorem nodup_remove {n : Name} {l : List (Name × Stream)} (h : (keys l).Nodup) : (keys (remove n l)).Nodup :=
  h.sublist (keys_remove_sublist n l)

theorem not_mem_keys_remove (n : Name) (l : List (Name × Stream)) : n ∉ keys (remove n l) := by
  rw [keys, ← find_none_iff]; exact find_remove_self n l

theorem nodup_set {n : Name} {v : Stream} {l : List (Name × Stream)} (h : (keys l).Nodup) : (keys (set n v l)).Nodup := by
  simp only [set, keys, List.map_cons, List.nodup_cons]
  exact ⟨not_mem_keys_remove n l, nodup_remove h⟩

theorem nodup_cons_new {n : Name} {v : Stream} {l : List (Name × Stream)} (h : (keys l).Nodup) (hn : find n l = none) :
    (keys ((n, v) :: l)).Nodup := by
  simp only [keys, List.map_cons, List.nodup_cons]
  exact ⟨(find_none_iff n l).mp hn, h⟩

theorem find_cons {α : Type} (n m : Name) (v : α) (l : List (Name × α)) :
    find n ((m, v) :: l) = if m = n then some v else find n l := rfl

/-! ### the per-stream invariant -/

/-- what the buffers of an open stream owe its destination -/
def EntryOK (fs : List (Name × Bytes)) (n : Name) (st : Stream) : Prop :=
  (st.kind = .file → content fs n ++ st.buf = st.base ++ st.log) ∧ (st.kind = .cmd → st.sent ++ st.buf = st.log)

theorem EntryOK.congr {fs fs' : List (Name × Bytes)} {n : Name} {st : Stream} (h : EntryOK fs n st)
    (e : content fs' n = content fs n) : EntryOK fs' n st := by
  unfold EntryOK at *; rw [e]; exact h

/-- the stream after its buffer has been handed over -/
def delivered (st : Stream) : Stream :=
  match st.kind with
  | .file => { st with buf := [] }
  | .cmd => { st with sent := st.sent ++ st.buf, buf := [] }
  | .rd => st

theorem deliver_snd (s : St) (n : Name) (st : Stream) : (deliver s n st).2 = delivered st := by
  unfold deliver delivered; cases st.kind <;> rfl

theorem delivered_ghost (st : Stream) : (delivered st).kind = st.kind ∧ (delivered st).base = st.base ∧ (delivered st).log = st.log := by
  unfold delivered; cases h : st.kind <;> simp [h]

theorem deliver_frame (s : St) (n : Name) (st : Stream) :
    (deliver s n st).1.streams = s.streams ∧ (deliver s n st).1.procs = s.procs ∧
    (∀ m, m ≠ n → content (deliver s n st).1.fs m = content s.fs m) := by
  unfold deliver
  cases st.kind
  · exact ⟨rfl, rfl, fun m hm => content_set_ne hm _ _⟩
  · exact ⟨rfl, rfl, fun _ _ => rfl⟩
  · exact ⟨rfl, rfl, fun _ _ => rfl⟩

theorem entryOK_deliver (s : St) (n : Name) (st : Stream) (h : EntryOK s.fs n st) :
    EntryOK (deliver s n st).1.fs n (delivered st) := by
  obtain ⟨h1, h2⟩ := h
  unfold deliver delivered
  cases hk : st.kind with
  | file => simp [EntryOK, content_set_self, h1 hk]
  | cmd => simp [EntryOK, ← h2 hk]
  | rd => simp [EntryOK, hk]

/-! ### flushing all streams -/

theorem deliverAll_frame (l : List (Name × Stream)) : ∀ s : St,
    (deliverAll s l).1.streams = s.streams ∧ (deliverAll s l).1.procs = s.procs ∧
    (∀ m, m ∉ keys l → content (deliverAll s l).1.fs m = content s.fs m) := by
  induction l with
  | nil => intro s; simp [deliverAll]
  | cons p rest ih =>
    intro s
    obtain ⟨n, st⟩ := p
    have h1 := deliver_frame s n st
    have h2 := ih (deliver s n st).1
    simp only [deliverAll]
    refine ⟨h2.1.trans h1.1, h2.2.1.trans h1.2.1, ?_⟩
    intro m hm
    simp only [keys, List.map_cons, List.mem_cons, not_or] at hm
    rw [h2.2.2 m hm.2, h1.2.2 m hm.1]

theorem deliverAll_find (l : List (Name × Stream)) : ∀ (s : St) (n : Name),
    find n (deliverAll s l).2 = (find n l).map delivered := by
  induction l with
  | nil => intro s n; simp [deliverAll, find]
  | cons p rest ih =>
    intro s n
    obtain ⟨m, st⟩ := p
    simp only [deliverAll, find_cons, deliver_snd]
    split
    · simp
    · exact ih _ n

theorem deliverAll_keys (l : List (Name × Stream)) : ∀ s : St, keys (deliverAll s l).2 = keys l := by
  induction l with
  | nil => intro s; simp [deliverAll, keys]
  | cons p rest ih =>
    intro s
    obtain ⟨m, st⟩ := p
    have := ih (deliver s m st).1
    simp only [keys] at this
    simp [deliverAll, keys, this]

theorem deliverAll_entries (l : List (Name × Stream)) : ∀ s : St, (keys l).Nodup →
    (∀ n st, find n l = some st → EntryOK s.fs n st) →
    ∀ n st, find n l = some st → EntryOK (deliverAll s l).1.fs n (delivered st) := by
  induction l with
  | nil => intro s _ _ n st h; simp [find] at h
  | cons p rest ih =>
    intro s hnd hall n st hf
    obtain ⟨m, st0⟩ := p
    simp only [keys, List.map_cons, List.nodup_cons] at hnd
    have hfr := deliver_frame s m st0
    simp only [deliverAll]
    rw [find_cons] at hf
    by_cases hmn : m = n
    · subst hmn
      simp only [if_true, Option.some.injEq] at hf
      subst hf
      have h0 := entryOK_deliver s m st0 (hall m st0 (by simp [find_cons]))
      exact h0.congr ((deliverAll_frame rest _).2.2 m hnd.1)
    · simp only [hmn, if_false] at hf
      refine ih _ hnd.2 ?_ n st hf
      intro n' st' hf'
      have hne : n' ≠ m := by
        intro e; subst e
        exact hnd.1 (find_some_mem_keys hf')
      have : find n' ((m, st0) :: rest) = some st' := by
        have hmn' : ¬ m = n' := fun e => hne e.symm
        rw [find_cons, if_neg hmn']; exact hf'
      exact (hall n' st' this).congr (hfr.2.2 n' hne)

/-! ### closing all streams -/

theorem closeStream_frame (b : Beh) (s : St) (n : Name) (st : Stream) :
    (closeStream b s n st).1.streams = s.streams ∧
    (∀ m, m ≠ n → content (closeStream b s n st).1.fs m = content s.fs m) ∧
    (∀ p, p ∈ s.procs → p ∈ (closeStream b s n st).1.procs) := by
  unfold closeStream
  cases st.kind with
  | rd => exact ⟨rfl, fun _ _ => rfl, fun _ h => h⟩
  | file =>
    have h := deliver_frame s n st
    exact ⟨h.1, h.2.2, fun p hp => by rw [h.2.1]; exact hp⟩
  | cmd =>
    have h := childOut_frame { s with procs := s.procs ++ [(n, st.sent ++ st.buf, (b.pipe n (st.sent ++ st.buf)).2)] }
      (b.pipe n (st.sent ++ st.buf)).1
    refine ⟨h.1, fun m _ => by rw [h.2.1], fun p hp => ?_⟩
    rw [h.2.2]
    exact List.mem_append_left _ hp

theorem closeStream_file (b : Beh) (s : St) (n : Name) (st : Stream) (hk : st.kind = .file) (h : EntryOK s.fs n st) :
    content (closeStream b s n st).1.fs n = st.base ++ st.log := by
  simp [closeStream, hk, deliver, content_set_self, h.1 hk]

theorem closeStream_cmd (b : Beh) (s : St) (n : Name) (st : Stream) (hk : st.kind = .cmd) (h : EntryOK s.fs n st) :
    (closeStream b s n st).1.procs = s.procs ++ [(n, st.log, (b.pipe n st.log).2)] ∧
    (closeStream b s n st).2 = ((b.pipe n st.log).2 : Int) := by
  have e := h.2 hk
  have hf := childOut_frame { s with procs := s.procs ++ [(n, st.log, (b.pipe n st.log).2)] } (b.pipe n st.log).1
  simp only [closeStream, hk, e]
  exact ⟨hf.2.2, trivial⟩

theorem closeList_frame (b : Beh) (l : List (Name × Stream)) : ∀ s : St,
    (closeList b s l).streams = s.streams ∧
    (∀ m, m ∉ keys l → content (closeList b s l).fs m = content s.fs m) ∧
    (∀ p, p ∈ s.procs → p ∈ (closeList b s l).procs) := by
  induction l with
  | nil => intro s; exact ⟨rfl, fun _ _ => rfl, fun _ h => h⟩
  | cons p rest ih =>
    intro s
    obtain ⟨n, st⟩ := p
    have h1 := closeStream_frame b s n st
    have h2 := ih (closeStream b s n st).1
    simp only [closeList]
    refine ⟨h2.1.trans h1.1, ?_, fun p hp => h2.2.2 p (h1.2.2 p hp)⟩
    intro m hm
    simp only [keys, List.map_cons, List.mem_cons, not_or] at hm
    rw [h2.2.1 m hm.2, h1.2.1 m hm.1]

/-- closing every stream of a table with distinct keys: every file ends up holding base ++ log, every command has been run
on exactly its log -/
theorem closeList_entries (b : Beh) (l : List (Name × Stream)) : ∀ s : St, (keys l).Nodup →
    (∀ n st, find n l = some st → EntryOK s.fs n st) →
    ∀ n st, find n l = some st →
      (st.kind = .file → content (closeList b s l).fs n = st.base ++ st.log) ∧
      (st.kind = .cmd → (n, st.log, (b.pipe n st.log).2) ∈ (closeList b s l).procs) := by
  induction l with
  | nil => intro s _ _ n st h; simp [find] at h
  | cons p rest ih =>
    intro s hnd hall n st hf
    obtain ⟨m, st0⟩ := p
    simp only [keys, List.map_cons, List.nodup_cons] at hnd
    have hfr := closeStream_frame b s m st0
    simp only [closeList]
    rw [find_cons] at hf
    by_cases hmn : m = n
    · subst hmn
      simp only [if_true, Option.some.injEq] at hf
      subst hf
      have hok := hall m st0 (by simp [find_cons])
      have hrest := closeList_frame b rest (closeStream b s m st0).1
      constructor
      · intro hk
        rw [hrest.2.1 m hnd.1]
        exact closeStream_file b s m st0 hk hok
      · intro hk
        apply hrest.2.2
        rw [(closeStream_cmd b s m st0 hk hok).1]
        simp
    · simp only [hmn, if_false] at hf
      refine ih _ hnd.2 ?_ n st hf
      intro n' st' hf'
      have hne : n' ≠ m := by
        intro e; subst e
        exact hnd.1 (find_some_mem_keys hf')
      have : find n' ((m, st0) :: rest) = some st' := by
        have hmn' : ¬ m = n' := fun e => hne e.symm
        rw [find_cons, if_neg hmn']; exact hf'
      exact (hall n' st' this).congr (hfr.2.1 n' hne)

/-! ### the invariant of the stream table -/

structure SInv (s : St) : Prop where
  nodup : (keys s.streams).Nodup
  ok : ∀ n st, find n s.streams = some st → EntryOK s.fs n st

theorem sinv_same {s t : St} (h : SInv s) (e1 : t.streams = s.streams) (e2 : ∀ m, content t.fs m = content s.fs m) : SInv t :=
  ⟨e1 ▸ h.nodup, fun n st hf => (h.ok n st (e1 ▸ hf)).congr (e2 n)⟩

theorem sinv_frame {s t : St} (h : SInv s) (f : Frame s t) : SInv t :=
  sinv_same h f.1 (fun m => by rw [f.2.1])

theorem sinv_set {s t : St} (h : SInv s) (n : Name) (v : Stream) (e1 : t.streams = set n v s.streams)
    (e2 : ∀ m, m ≠ n → content t.fs m = content s.fs m) (hv : EntryOK t.fs n v) : SInv t := by
  refine ⟨e1 ▸ nodup_set h.nodup, fun n' st hf => ?_⟩
  rw [e1] at hf
  by_cases hn : n' = n
  · subst hn
    rw [find_set_self] at hf
    cases hf
    exact hv
  · rw [find_set_ne hn] at hf
    exact (h.ok n' st hf).congr (e2 n' hn)

theorem sinv_cons {s t : St} (h : SInv s) (n : Name) (v : Stream) (hn : find n s.streams = none)
    (e1 : t.streams = (n, v) :: s.streams) (e2 : ∀ m, m ≠ n → content t.fs m = content s.fs m) (hv : EntryOK t.fs n v) :
    SInv t := by
  refine ⟨e1 ▸ nodup_cons_new h.nodup hn, fun n' st hf => ?_⟩
  rw [e1, find_cons] at hf
  by_cases hn' : n = n'
  · subst hn'
    simp only [if_true, Option.some.injEq] at hf
    subst hf
    exact hv
  · simp only [hn', if_false] at hf
    exact (h.ok n' st hf).congr (e2 n' (fun e => hn' e.symm))

theorem sinv_remove {s t : St} (h : SInv s) (n : Name) (e1 : t.streams = remove n s.streams)
    (e2 : ∀ m, m ≠ n → content t.fs m = content s.fs m) : SInv t := by
  refine ⟨e1 ▸ nodup_remove h.nodup, fun n' st hf => ?_⟩
  rw [e1] at hf
  have hn : n' ≠ n := by
    intro e; subst e
    rw [find_remove_self] at hf; cases hf
  rw [find_remove_ne hn] at hf
  exact (h.ok n' st hf).congr (e2 n' hn)

theorem entryOK_rd (fs : List (Name × Bytes)) (n : Name) (st : Stream) (h : st.kind = .rd) : EntryOK fs n st := by
  simp [EntryOK, h]

theorem entryOK_write {fs : List (Name × Bytes)} {n : Name} {st : Stream} (h : EntryOK fs n st) (c : Bytes) :
    EntryOK fs n { st with buf := st.buf ++ c, log := st.log ++ c } := by
  obtain ⟨h1, h2⟩ := h
  constructor
  · intro hk; simp only; rw [← List.append_assoc, h1 hk, List.append_assoc]
  · intro hk; simp only; rw [← List.append_assoc, h2 hk]

theorem flushAll_streams (s : St) : (flushAll s).1.streams = (deliverAll s s.streams).2 ∧
    (flushAll s).1.fs = (deliverAll s s.streams).1.fs ∧ (flushAll s).1.procs = (deliverAll s s.streams).1.procs := by
  unfold flushAll
  simp only
  split
  · have f := flushOut_frame' ({ (deliverAll s s.streams).1 with streams := (deliverAll s s.streams).2 } : St)
    exact ⟨f.1, f.2.1, f.2.2⟩
  · have f := flushOut_frame' ({ (deliverAll s s.streams).1 with streams := (deliverAll s s.streams).2 } : St)
    have g := flushOut_frame' (flushOut ({ (deliverAll s s.streams).1 with streams := (deliverAll s s.streams).2 } : St)).1
    exact ⟨g.1.trans f.1, g.2.1.trans f.2.1, g.2.2.trans f.2.2⟩

theorem flushAll_find (s : St) (n : Name) : find n (flushAll s).1.streams = (find n s.streams).map delivered := by
  rw [(flushAll_streams s).1]; exact deliverAll_find s.streams s n

theorem flushAll_sinv (s : St) (h : SInv s) : SInv (flushAll s).1 := by
  have e := flushAll_streams s
  refine ⟨?_, fun n st' hf => ?_⟩
  · rw [e.1, deliverAll_keys]; exact h.nodup
  · rw [flushAll_find] at hf
    cases hfn : find n s.streams with
    | none => rw [hfn] at hf; cases hf
    | some st =>
      rw [hfn] at hf
      simp only [Option.map_some, Option.some.injEq] at hf
      subst hf
      rw [e.2.1]
      exact deliverAll_entries s.streams s h.nodup h.ok n st hfn

/-- every operation keeps the invariant -/
theorem step_sinv (b : Beh) (s : St) (op : Op) (h : SInv s) : SInv (step b s op).1 := by
  cases op with
  | print c => exact sinv_frame h (writeOut_frame s c)
  | printTo rd n c =>
    simp only [step]
    split
    · rename_i st hst
      split
      · exact h
      · exact sinv_set h n _ rfl (fun _ _ => rfl) (entryOK_write (h.ok n st hst) c)
    · rename_i hst
      have ff := flushOut_frame' s
      have hs1 : SInv (flushOut s).1 := sinv_frame h ff
      have hst1 : find n (flushOut s).1.streams = none := by rw [ff.1]; exact hst
      split
      · exact sinv_cons hs1 n _ hst1 rfl (fun _ _ => rfl) (by simp [EntryOK])
      split
      · exact sinv_frame h (writeOut_frame s c)
      split
      · exact hs1
      split
      · exact sinv_frame hs1 (writeOut_frame _ c)
      · exact sinv_cons hs1 n _ hst1 rfl (fun m hm => content_set_ne hm _ _) (by simp [EntryOK, content_set_self])
  | close n =>
    simp only [step]
    split
    · exact h
    · rename_i st hst
      have hc := closeStream_frame b { s with streams := remove n s.streams } n st
      exact sinv_remove h n hc.1 hc.2.1
  | fflush n =>
    simp only [step]
    split
    · rename_i st hst
      split
      · exact sinv_frame h (flushOut_frame' s)
      · have hd := deliver_frame s n st
        refine sinv_set h n (deliver s n st).2 (by simp [hd.1]) hd.2.2 ?_
        rw [deliver_snd]
        exact entryOK_deliver s n st (h.ok n st hst)
    · exact sinv_frame h (flushOut_frame' s)
  | fflushAll => exact flushAll_sinv s h
  | system c =>
    simp only [step]
    have h1 := flushAll_sinv s h
    have f := childOut_frame { (flushAll s).1 with procs := (flushAll s).1.procs ++ [(c, (b.sys c (flushAll s).1.fs).1, (b.sys c (flushAll s).1.fs).2.2)] }
      (b.sys c (flushAll s).1.fs).2.1
    exact sinv_same h1 f.1 (fun m => by rw [f.2.1])
  | getlineFile n =>
    simp only [step]
    split
    · rename_i st hst
      split
      · rename_i hk
        split
        · exact h
        · exact sinv_set h n _ rfl (fun _ _ => rfl) (entryOK_rd _ _ _ hk)
      · exact h
    · rename_i hst
      split
      · exact h
      · split
        · exact sinv_cons h n _ hst rfl (fun _ _ => rfl) (entryOK_rd _ _ _ rfl)
        · exact sinv_cons h n _ hst rfl (fun _ _ => rfl) (entryOK_rd _ _ _ rfl)
  | exit code => exact h
  | fail => exact h

theorem sinv_init (buffered : Bool) (failAt : Option Nat) (fs : List (Name × Bytes)) : SInv (St.init buffered failAt fs) :=
  ⟨by simp [St.init, keys], fun n st hf => by simp [St.init, find] at hf⟩

/-! ### histories -/

/-- the state after executing the operations, whatever they returned -/
def after (b : Beh) : St → List Op → St
  | s, [] => s
  | s, op :: ops => after b (step b s op).1 ops

theorem after_append (b : Beh) (xs ys : List Op) : ∀ s, after b s (xs ++ ys) = after b (after b s xs) ys := by
  induction xs with
  | nil => intro s; rfl
  | cons x rest ih => intro s; simp [after, ih]

theorem after_sinv (b : Beh) (ops : List Op) : ∀ s, SInv s → SInv (after b s ops) := by
  induction ops with
  | nil => intro s h; exact h
  | cons op rest ih => intro s h; exact ih _ (step_sinv b s op h)

/-- a run ends with `closeAll` applied to the state after the operations that were executed (a prefix of the history) -/
theorem run_final (b : Beh) (ops : List Op) : ∀ s, ∃ pre, pre <+: ops ∧ (run b s ops).2.2 = finish b (after b s pre) := by
  induction ops with
  | nil => intro s; exact ⟨[], List.prefix_refl _, rfl⟩
  | cons op rest ih =>
    intro s
    simp only [run]
    split
    · rename_i s' e heq
      refine ⟨[op], by simp, ?_⟩
      simp [after, heq]
    · rename_i s' code heq
      refine ⟨[op], by simp, ?_⟩
      simp [after, heq]
    · rename_i s' r _ _ heq
      obtain ⟨pre, hp, he⟩ := ih s'
      refine ⟨op :: pre, by simpa using hp, ?_⟩
      simp only [after, heq]
      exact he

/-- what an operation writes to the name `n` -/
def opWrite (n : Name) : Op → Bytes
  | .printTo _ m c => if m = n then c else []
  | _ => []

def writesTo (n : Name) : List Op → Bytes
  | [] => []
  | op :: ops => opWrite n op ++ writesTo n ops

/-- one operation, seen from an open output stream `n`: unless it is `close n`, the stream stays what it is and its log grows
by exactly what the operation writes to the name `n` (through any redirect) -/
theorem step_entry (b : Beh) (s : St) (op : Op) (n : Name) (st : Stream) (hf : find n s.streams = some st)
    (hk : st.kind ≠ .rd) (hop : op ≠ .close n) :
    ∃ st', find n (step b s op).1.streams = some st' ∧ st'.kind = st.kind ∧ st'.base = st.base ∧
      st'.log = st.log ++ opWrite n op := by
  cases op with
  | print c => exact ⟨st, by simp only [step]; rw [(writeOut_frame s c).1]; exact hf, rfl, rfl, by simp [opWrite]⟩
  | printTo rd m c =>
    by_cases hm : m = n
    · subst hm
      refine ⟨{ st with buf := st.buf ++ c, log := st.log ++ c }, ?_, rfl, rfl, by simp [opWrite]⟩
      simp [step, hf, hk, find_set_self]
    · have hnm : n ≠ m := fun e => hm e.symm
      refine ⟨st, ?_, rfl, rfl, by simp [opWrite, hm]⟩
      have ff := (flushOut_frame' s).1
      simp only [step]
      split
      · split
        · exact hf
        · simp only; rw [find_set_ne hnm]; exact hf
      · split
        · simp only [find_cons, hm, if_false, ff]; exact hf
        split
        · rw [(writeOut_frame s c).1]; exact hf
        split
        · rw [ff]; exact hf
        split
        · rw [(writeOut_frame _ c).1, ff]; exact hf
        · simp only [find_cons, hm, if_false, ff]; exact hf
  | close m =>
    have hm : m ≠ n := fun e => hop (by rw [e])
    have hnm : n ≠ m := fun e => hm e.symm
    refine ⟨st, ?_, rfl, rfl, by simp [opWrite]⟩
    simp only [step]
    split
    · exact hf
    · rw [(closeStream_frame b _ m _).1]
      simp only; rw [find_remove_ne hnm]; exact hf
  | fflush m =>
    by_cases hm : m = n
    · subst hm
      have g := delivered_ghost st
      refine ⟨delivered st, ?_, g.1, g.2.1, by simp [opWrite, g.2.2]⟩
      simp [step, hf, hk, find_set_self, deliver_snd]
    · have hnm : n ≠ m := fun e => hm e.symm
      refine ⟨st, ?_, rfl, rfl, by simp [opWrite]⟩
      simp only [step]
      split
      · split
        · rw [(flushOut_frame' s).1]; exact hf
        · simp only; rw [find_set_ne hnm, (deliver_frame s m _).1]; exact hf
      · rw [(flushOut_frame' s).1]; exact hf
  | fflushAll =>
    have g := delivered_ghost st
    refine ⟨delivered st, ?_, g.1, g.2.1, by simp [opWrite, g.2.2]⟩
    simp only [step]
    rw [flushAll_find, hf]; rfl
  | system c =>
    have g := delivered_ghost st
    refine ⟨delivered st, ?_, g.1, g.2.1, by simp [opWrite, g.2.2]⟩
    simp only [step]
    rw [(childOut_frame _ _).1]
    simp only
    rw [flushAll_find, hf]; rfl
  | getlineFile m =>
    by_cases hm : m = n
    · subst hm
      exact ⟨st, by simp [step, hf, hk], rfl, rfl, by simp [opWrite]⟩
    · have hnm : n ≠ m := fun e => hm e.symm
      refine ⟨st, ?_, rfl, rfl, by simp [opWrite]⟩
      simp only [step]
      split
      · split
        · split
          · exact hf
          · simp only; rw [find_set_ne hnm]; exact hf
        · exact hf
      · split
        · exact hf
        · split <;> (simp only [find_cons, hm, if_false]; exact hf)
  | exit code => exact ⟨st, hf, rfl, rfl, by simp [opWrite]⟩
  | fail => exact ⟨st, hf, rfl, rfl, by simp [opWrite]⟩

/-- lifted over a history without `close n` -/
theorem after_entry (b : Beh) (n : Name) (ops : List Op) : ∀ (s : St) (st : Stream), find n s.streams = some st →
    st.kind ≠ .rd → (Op.close n) ∉ ops →
    ∃ st', find n (after b s ops).streams = some st' ∧ st'.kind = st.kind ∧ st'.base = st.base ∧
      st'.log = st.log ++ writesTo n ops := by
  induction ops with
  | nil => intro s st hf _ _; exact ⟨st, hf, rfl, rfl, by simp [writesTo]⟩
  | cons op rest ih =>
    intro s st hf hk hc
    simp only [List.mem_cons, not_or] at hc
    obtain ⟨st1, h1, k1, b1, l1⟩ := step_entry b s op n st hf hk (fun e => hc.1 e.symm)
    obtain ⟨st2, h2, k2, b2, l2⟩ := ih _ st1 h1 (k1 ▸ hk) hc.2
    exact ⟨st2, h2, k2.trans k1, b2.trans b1, by rw [l2, l1, writesTo, List.append_assoc]⟩

/-- `closeAll`: what every destination holds at the end of a run -/
theorem finish_entries (b : Beh) (s : St) (h : SInv s) (n : Name) (st : Stream) (hf : find n s.streams = some st) :
    (st.kind = .file → content (finish b s).fs n = st.base ++ st.log) ∧
    (st.kind = .cmd → (n, st.log, (b.pipe n st.log).2) ∈ (finish b s).procs) := by
  have hc := closeList_entries b s.streams { s with streams := [] } h.nodup h.ok n st hf
  have ff := flushOut_frame' (closeList b { s with streams := [] } s.streams)
  unfold finish
  rw [ff.2.1, ff.2.2]
  exact hc

/-! ### counting: `closeAll` runs each open command exactly once -/

def cnt (n : Name) (l : List Proc) : Nat := (l.filter (fun p => p.1 = n)).length

def cmdHere (n : Name) (l : List (Name × Stream)) : Nat :=
  match find n l with
  | some st => if st.kind = .cmd then 1 else 0
  | none => 0

theorem closeStream_procs (b : Beh) (s : St) (m : Name) (st : Stream) :
    (closeStream b s m st).1.procs =
      s.procs ++ (if st.kind = .cmd then [(m, st.sent ++ st.buf, (b.pipe m (st.sent ++ st.buf)).2)] else []) := by
  unfold closeStream
  cases hk : st.kind with
  | rd => simp
  | file => simp [(deliver_frame s m st).2.1]
  | cmd =>
    have h := childOut_frame { s with procs := s.procs ++ [(m, st.sent ++ st.buf, (b.pipe m (st.sent ++ st.buf)).2)] }
      (b.pipe m (st.sent ++ st.buf)).1
    simp [h.2.2]

theorem closeList_count (b : Beh) (n : Name) (l : List (Name × Stream)) : ∀ s : St, (keys l).Nodup →
    cnt n (closeList b s l).procs = cnt n s.procs + cmdHere n l := by
  induction l with
  | nil => intro s _; simp [closeList, cmdHere, find]
  | cons p rest ih =>
    intro s hnd
    obtain ⟨m, st0⟩ := p
    simp only [keys, List.map_cons, List.nodup_cons] at hnd
    simp only [closeList]
    rw [ih _ hnd.2, closeStream_procs]
    by_cases hmn : m = n
    · subst hmn
      have : find m rest = none := (find_none_iff m rest).mpr hnd.1
      by_cases hk : st0.kind = .cmd <;> simp [cnt, cmdHere, find_cons, this, hk, List.filter_append]
    · by_cases hk : st0.kind = .cmd <;> simp [cnt, cmdHere, find_cons, hmn, hk, List.filter_append]


/-! ### files nobody writes to -/

/-- `n` is not open for output (it may be open for reading) -/
def NotWriter (l : List (Name × Stream)) (n : Name) : Prop := ∀ st, find n l = some st → st.kind = .rd

theorem mem_find {l : List (Name × Stream)} (h : (keys l).Nodup) {n : Name} {st : Stream} (hm : (n, st) ∈ l) :
    find n l = some st := by
  induction l with
  | nil => cases hm
  | cons p rest ih =>
    obtain ⟨m, v⟩ := p
    simp only [keys, List.map_cons, List.nodup_cons] at h
    rw [find_cons]
    rcases List.mem_cons.mp hm with e | hm'
    · cases e; simp
    · have : m ≠ n := by
        intro e; subst e
        exact h.1 (List.mem_map.mpr ⟨(m, st), hm', rfl⟩)
      simp [this, ih h.2 hm']

theorem deliver_content_rd (s : St) (m n : Name) (st : Stream) (h : m = n → st.kind ≠ .file) :
    content (deliver s m st).1.fs n = content s.fs n := by
  by_cases hm : n = m
  · subst hm
    unfold deliver
    cases hk : st.kind with
    | file => exact absurd hk (h rfl)
    | cmd => rfl
    | rd => rfl
  · exact (deliver_frame s m st).2.2 n hm

theorem deliverAll_content (l : List (Name × Stream)) (n : Name) : ∀ s : St,
    (∀ st, (n, st) ∈ l → st.kind ≠ .file) → content (deliverAll s l).1.fs n = content s.fs n := by
  induction l with
  | nil => intro s _; rfl
  | cons p rest ih =>
    intro s h
    obtain ⟨m, st0⟩ := p
    simp only [deliverAll]
    rw [ih _ (fun st hm => h st (List.mem_cons_of_mem _ hm))]
    exact deliver_content_rd s m n st0 (fun e => h st0 (by rw [e]; exact List.mem_cons_self))

theorem closeList_content (b : Beh) (l : List (Name × Stream)) (n : Name) : ∀ s : St,
    (∀ st, (n, st) ∈ l → st.kind ≠ .file) → content (closeList b s l).fs n = content s.fs n := by
  induction l with
  | nil => intro s _; rfl
  | cons p rest ih =>
    intro s h
    obtain ⟨m, st0⟩ := p
    simp only [closeList]
    rw [ih _ (fun st hm => h st (List.mem_cons_of_mem _ hm))]
    by_cases hm : n = m
    · subst hm
      have hk := h st0 List.mem_cons_self
      unfold closeStream
      cases hk' : st0.kind with
      | file => exact absurd hk' hk
      | rd => rfl
      | cmd => simp only; rw [(childOut_frame _ _).2.1]
    · exact (closeStream_frame b s m st0).2.1 n hm

theorem notWriter_mem {l : List (Name × Stream)} (hnd : (keys l).Nodup) {n : Name} (h : NotWriter l n) :
    ∀ st, (n, st) ∈ l → st.kind ≠ .file := by
  intro st hm hk
  have := h st (mem_find hnd hm)
  rw [this] at hk; cases hk

/-- an operation that does not print to `n` leaves a file that is not open for writing alone -/
theorem step_untouched (b : Beh) (s : St) (op : Op) (n : Name) (hs : SInv s) (hw : NotWriter s.streams n)
    (hop : ∀ r c, op ≠ .printTo r n c) :
    NotWriter (step b s op).1.streams n ∧ content (step b s op).1.fs n = content s.fs n := by
  have hmem := notWriter_mem hs.nodup hw
  cases op with
  | print c =>
    have f := writeOut_frame s c
    simp only [step]; rw [f.1, f.2.1]; exact ⟨hw, rfl⟩
  | printTo rd m c =>
    have hm : m ≠ n := fun e => hop rd c (by rw [e])
    have hnm : n ≠ m := fun e => hm e.symm
    have ff := flushOut_frame' s
    simp only [step]
    split
    · split
      · exact ⟨hw, rfl⟩
      · refine ⟨fun st hf => ?_, rfl⟩
        simp only at hf; rw [find_set_ne hnm] at hf; exact hw st hf
    · split
      · refine ⟨fun st hf => ?_, by simp only; rw [ff.2.1]⟩
        simp only [find_cons, hm, if_false, ff.1] at hf; exact hw st hf
      split
      · have f := writeOut_frame s c
        rw [f.1, f.2.1]; exact ⟨hw, rfl⟩
      split
      · rw [ff.1, ff.2.1]; exact ⟨hw, rfl⟩
      split
      · have f := writeOut_frame (flushOut s).1 c
        rw [f.1, f.2.1, ff.1, ff.2.1]; exact ⟨hw, rfl⟩
      · refine ⟨fun st hf => ?_, ?_⟩
        · simp only [find_cons, hm, if_false, ff.1] at hf; exact hw st hf
        · simp only; rw [content_set_ne hnm, ff.2.1]
  | close m =>
    simp only [step]
    split
    · exact ⟨hw, rfl⟩
    · rename_i st hst
      have hc := closeStream_frame b { s with streams := remove m s.streams } m st
      by_cases hm : n = m
      · subst hm
        have hk := hw st hst
        refine ⟨fun st' hf => ?_, ?_⟩
        · rw [hc.1] at hf; simp only at hf; rw [find_remove_self] at hf; cases hf
        · simp only [closeStream, hk]
      · refine ⟨fun st' hf => ?_, hc.2.1 n hm⟩
        rw [hc.1] at hf; simp only at hf; rw [find_remove_ne hm] at hf; exact hw st' hf
  | fflush m =>
    have ff := flushOut_frame' s
    simp only [step]
    split
    · rename_i st hst
      split
      · rw [ff.1, ff.2.1]; exact ⟨hw, rfl⟩
      · rename_i hk
        have hm : n ≠ m := by
          intro e; subst e
          exact hk (hw st hst)
        have hd := deliver_frame s m st
        refine ⟨fun st' hf => ?_, hd.2.2 n hm⟩
        simp only at hf; rw [find_set_ne hm, hd.1] at hf; exact hw st' hf
    · rw [ff.1, ff.2.1]; exact ⟨hw, rfl⟩
  | fflushAll =>
    simp only [step]
    have e := flushAll_streams s
    refine ⟨fun st' hf => ?_, by rw [e.2.1]; exact deliverAll_content s.streams n s hmem⟩
    rw [flushAll_find] at hf
    cases hfn : find n s.streams with
    | none => rw [hfn] at hf; cases hf
    | some st =>
      rw [hfn] at hf
      simp only [Option.map_some, Option.some.injEq] at hf
      subst hf
      rw [(delivered_ghost st).1]; exact hw st hfn
  | system c =>
    simp only [step]
    have e := flushAll_streams s
    have f := childOut_frame { (flushAll s).1 with procs := (flushAll s).1.procs ++ [(c, (b.sys c (flushAll s).1.fs).1, (b.sys c (flushAll s).1.fs).2.2)] }
      (b.sys c (flushAll s).1.fs).2.1
    refine ⟨fun st' hf => ?_, by rw [f.2.1]; simp only; rw [e.2.1]; exact deliverAll_content s.streams n s hmem⟩
    rw [f.1] at hf
    simp only at hf
    rw [flushAll_find] at hf
    cases hfn : find n s.streams with
    | none => rw [hfn] at hf; cases hf
    | some st =>
      rw [hfn] at hf
      simp only [Option.map_some, Option.some.injEq] at hf
      subst hf
      rw [(delivered_ghost st).1]; exact hw st hfn
  | getlineFile m =>
    simp only [step]
    split
    · rename_i st hst
      split
      · rename_i hk
        split
        · exact ⟨hw, rfl⟩
        · refine ⟨fun st' hf => ?_, rfl⟩
          simp only at hf
          by_cases hm : n = m
          · subst hm; rw [find_set_self] at hf; cases hf; exact hk
          · rw [find_set_ne hm] at hf; exact hw st' hf
      · exact ⟨hw, rfl⟩
    · split
      · exact ⟨hw, rfl⟩
      · split <;>
        · refine ⟨fun st' hf => ?_, rfl⟩
          simp only [find_cons] at hf
          split at hf
          · cases hf; rfl
          · exact hw st' hf
  | exit code => exact ⟨hw, rfl⟩
  | fail => exact ⟨hw, rfl⟩


theorem after_untouched (b : Beh) (n : Name) (ops : List Op) : ∀ s : St, SInv s → NotWriter s.streams n →
    (∀ r c, Op.printTo r n c ∉ ops) →
    NotWriter (after b s ops).streams n ∧ content (after b s ops).fs n = content s.fs n := by
  induction ops with
  | nil => intro s _ hw _; exact ⟨hw, rfl⟩
  | cons op rest ih =>
    intro s hs hw hop
    have h1 := step_untouched b s op n hs hw (fun r c e => hop r c (by rw [e]; exact List.mem_cons_self))
    have h2 := ih _ (step_sinv b s op hs) h1.1 (fun r c hm => hop r c (List.mem_cons_of_mem _ hm))
    exact ⟨h2.1, h2.2.trans h1.2⟩

theorem finish_untouched (b : Beh) (s : St) (n : Name) (hs : SInv s) (hw : NotWriter s.streams n) :
    content (finish b s).fs n = content s.fs n := by
  have hc := closeList_content b s.streams n { s with streams := [] } (notWriter_mem hs.nodup hw)
  have ff := flushOut_frame' (closeList b { s with streams := [] } s.streams)
  unfold finish
  rw [ff.2.1]
  exact hc

theorem finish_count (b : Beh) (s : St) (n : Name) (hs : SInv s) :
    cnt n (finish b s).procs = cnt n s.procs + cmdHere n s.streams := by
  have hc := closeList_count b n s.streams { s with streams := [] } hs.nodup
  have ff := flushOut_frame' (closeList b { s with streams := [] } s.streams)
  unfold finish
  rw [ff.2.2]
  exact hc

/-! ### the process log after `closeAll`, exactly -/

theorem closeList_procs (b : Beh) (l : List (Name × Stream)) : ∀ s : St,
    (∀ p ∈ l, p.2.kind = .cmd → p.2.sent ++ p.2.buf = p.2.log) →
    (closeList b s l).procs = s.procs ++ (l.filter (fun p => p.2.kind = .cmd)).map
      (fun p => (p.1, p.2.log, (b.pipe p.1 p.2.log).2)) := by
  induction l with
  | nil => intro s _; simp [closeList]
  | cons p rest ih =>
    intro s h
    obtain ⟨m, st0⟩ := p
    simp only [closeList]
    rw [ih _ (fun p hp => h p (List.mem_cons_of_mem _ hp)), closeStream_procs]
    by_cases hk : st0.kind = .cmd
    · have e := h (m, st0) List.mem_cons_self hk
      simp only at e
      simp [hk, e]
    · simp [hk]

theorem finish_procs (b : Beh) (s : St) (hs : SInv s) :
    (finish b s).procs = s.procs ++ (s.streams.filter (fun p => p.2.kind = .cmd)).map
      (fun p => (p.1, p.2.log, (b.pipe p.1 p.2.log).2)) := by
  have hc := closeList_procs b s.streams { s with streams := [] } (fun p hp hk => by
    have hf := mem_find hs.nodup (show (p.1, p.2) ∈ s.streams from hp)
    exact (hs.ok p.1 p.2 hf).2 hk)
  have ff := flushOut_frame' (closeList b { s with streams := [] } s.streams)
  unfold finish
  rw [ff.2.2]
  exact hc

end GoawkModel.C13
