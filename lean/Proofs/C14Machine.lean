import GoawkModel.C14
/-!
# C14 — proofs about the state-machine model

1. The regex cache is semantically inert: as long as every entry is what compiling its key gives (`CacheOk`, an invariant
   of every reachable state), a run is determined by the cache-free part of the state (`Core`).
2. `resetCore` after `ResetVars` + `ResetRand` leaves no trace of the past in anything a run reads.
-/
namespace GoawkModel.C14

/-- one operation on the cache-free state, with the regex compiled afresh -/
def coreStep (op : Op) (c : Core) : Core × List String × Ctl :=
  stepCore op (match op with | .rx k => compile k | _ => "") c

def runScriptC : List Op → Core → Core × List String × Ctl
  | [], c => (c, [], .cont)
  | op :: rest, c =>
    match coreStep op c with
    | (c1, o1, .cont) => let r := runScriptC rest c1; (r.1, o1 ++ r.2.1, r.2.2)
    | r => r

def mainLoopC (m : List Op) : Nat → Core → Core × List String × Ctl
  | 0, c => (c, [], .cont)
  | fuel + 1, c =>
    match readRecord c with
    | (c', false) => (c', [], .cont)
    | (c', true) =>
      match runScriptC m (rangeRule c').1 with
      | (c1, o1, .cont) => let r := mainLoopC m fuel c1; (r.1, (rangeRule c').2 ++ o1 ++ r.2.1, r.2.2)
      | (c1, o1, ctl) => (c1, (rangeRule c').2 ++ o1, ctl)

def executeAllC (cfg : Cfg) (c : Core) : Core × Result :=
  executeAllG (runScriptC cfg.b) (mainLoopC cfg.m (cfg.input.length + 1)) (runScriptC cfg.e)
    (fun c => c.perRun.exitStatus) c

theorem cacheLookup_ok {cache : List (String × String)} (h : CacheOk cache) {k v : String}
    (hl : cacheLookup cache k = some v) : v = compile k := by
  unfold cacheLookup at hl
  cases hf : cache.find? (fun p => p.1 == k) with
  | none => simp [hf] at hl
  | some p =>
    simp [hf] at hl
    have hm := List.mem_of_find?_eq_some hf
    have hp := List.find?_some hf
    have hk : p.1 = k := by simpa using hp
    rw [← hl, h p hm, hk]

theorem stepOp_spec (op : Op) (s : State) (h : CacheOk s.cache) :
    ∃ cache', CacheOk cache' ∧
      stepOp op s = (⟨(coreStep op s.core).1, cache'⟩, (coreStep op s.core).2) := by
  cases op with
  | rx k =>
    cases hl : cacheLookup s.cache k with
    | some v =>
      have hv := cacheLookup_ok h hl
      subst hv
      exact ⟨s.cache, h, by simp [stepOp, hl, coreStep]⟩
    | none =>
      refine ⟨if s.cache.length < 100 then (k, compile k) :: s.cache else s.cache, ?_, by simp [stepOp, hl, coreStep]⟩
      split
      · intro p hp
        cases hp with
        | head => rfl
        | tail _ hp => exact h p hp
      · exact h
  | _ => exact ⟨s.cache, h, by simp [stepOp, coreStep]⟩

theorem runScript_spec (ops : List Op) (s : State) (h : CacheOk s.cache) :
    ∃ cache', CacheOk cache' ∧
      runScript ops s = (⟨(runScriptC ops s.core).1, cache'⟩, (runScriptC ops s.core).2) := by
  induction ops generalizing s with
  | nil => exact ⟨s.cache, h, by cases s; rfl⟩
  | cons op rest ih =>
    obtain ⟨c', hc', he⟩ := stepOp_spec op s h
    rcases hcs : coreStep op s.core with ⟨c1, o1, ctl⟩
    rw [hcs] at he
    cases ctl with
    | cont =>
      obtain ⟨c'', hc'', he'⟩ := ih ⟨c1, c'⟩ hc'
      refine ⟨c'', hc'', ?_⟩
      simp only [runScript, he, runScriptC, hcs, he']
    | exit => exact ⟨c', hc', by simp only [runScript, he, runScriptC, hcs]⟩
    | error k => exact ⟨c', hc', by simp only [runScript, he, runScriptC, hcs]⟩

theorem mainLoop_spec (m : List Op) (fuel : Nat) (s : State) (h : CacheOk s.cache) :
    ∃ cache', CacheOk cache' ∧
      mainLoop m fuel s = (⟨(mainLoopC m fuel s.core).1, cache'⟩, (mainLoopC m fuel s.core).2) := by
  induction fuel generalizing s with
  | zero => exact ⟨s.cache, h, by cases s; rfl⟩
  | succ fuel ih =>
    rcases hr : readRecord s.core with ⟨c, ok⟩
    cases ok with
    | false => exact ⟨s.cache, h, by simp only [mainLoop, mainLoopC, hr]⟩
    | true =>
      obtain ⟨c', hc', he⟩ := runScript_spec m ⟨(rangeRule c).1, s.cache⟩ h
      rcases hcs : runScriptC m (rangeRule c).1 with ⟨c1, o1, ctl⟩
      simp only [hcs] at he
      cases ctl with
      | cont =>
        obtain ⟨c'', hc'', he'⟩ := ih ⟨c1, c'⟩ hc'
        exact ⟨c'', hc'', by simp only [mainLoop, mainLoopC, hr, he, hcs, he']⟩
      | exit => exact ⟨c', hc', by simp only [mainLoop, mainLoopC, hr, he, hcs]⟩
      | error k => exact ⟨c', hc', by simp only [mainLoop, mainLoopC, hr, he, hcs]⟩

/-- a full state represents a cache-free state: same core, sound cache -/
def Rep (s : State) (c : Core) : Prop := s.core = c ∧ CacheOk s.cache

def RelRun (f : State → State × List String × Ctl) (g : Core → Core × List String × Ctl) : Prop :=
  ∀ s c, Rep s c → Rep (f s).1 (g c).1 ∧ (f s).2 = (g c).2

theorem relRun_of_spec {f : State → State × List String × Ctl} {g : Core → Core × List String × Ctl}
    (h : ∀ s, CacheOk s.cache → ∃ cache', CacheOk cache' ∧ f s = (⟨(g s.core).1, cache'⟩, (g s.core).2)) :
    RelRun f g := by
  intro s c ⟨hc, hk⟩
  subst hc
  obtain ⟨c', hc', he⟩ := h s hk
  rw [he]
  exact ⟨⟨rfl, hc'⟩, rfl⟩

theorem finishG_rel {fE : State → State × List String × Ctl} {gE : Core → Core × List String × Ctl}
    (hE : RelRun fE gE) (o : List String) (s : State) (c : Core) (h : Rep s c) :
    Rep (finishG fE (fun s => s.core.perRun.exitStatus) o s).1 (finishG gE (fun c => c.perRun.exitStatus) o c).1 ∧
      (finishG fE (fun s => s.core.perRun.exitStatus) o s).2 = (finishG gE (fun c => c.perRun.exitStatus) o c).2 := by
  obtain ⟨hr, he⟩ := hE s c h
  rcases hf : fE s with ⟨s3, o3, c3⟩
  rcases hg : gE c with ⟨k3, p3, d3⟩
  rw [hf, hg] at hr he
  simp only [Prod.mk.injEq] at he
  obtain ⟨ho, hc⟩ := he
  subst ho; subst hc
  have hst : s3.core.perRun.exitStatus = k3.perRun.exitStatus := by rw [hr.1]
  cases c3 <;> simp only [finishG, hf, hg, hst] <;> exact ⟨hr, trivial⟩

theorem afterBeginG_rel {fL fE : State → State × List String × Ctl} {gL gE : Core → Core × List String × Ctl}
    (hL : RelRun fL gL) (hE : RelRun fE gE) (o1 : List String) (c1 : Ctl) (s : State) (c : Core) (h : Rep s c) :
    Rep (afterBeginG fL fE (fun s => s.core.perRun.exitStatus) o1 c1 s).1
        (afterBeginG gL gE (fun c => c.perRun.exitStatus) o1 c1 c).1 ∧
      (afterBeginG fL fE (fun s => s.core.perRun.exitStatus) o1 c1 s).2 =
        (afterBeginG gL gE (fun c => c.perRun.exitStatus) o1 c1 c).2 := by
  cases c1 with
  | error k => exact ⟨h, rfl⟩
  | exit => exact finishG_rel hE o1 s c h
  | cont =>
    obtain ⟨hr, he⟩ := hL s c h
    rcases hf : fL s with ⟨s2, o2, c2⟩
    rcases hg : gL c with ⟨k2, p2, d2⟩
    rw [hf, hg] at hr he
    simp only [Prod.mk.injEq] at he
    obtain ⟨ho, hc⟩ := he
    subst ho; subst hc
    cases c2 with
    | error k => simp only [afterBeginG, hf, hg]; exact ⟨hr, trivial⟩
    | cont => simp only [afterBeginG, hf, hg]; exact finishG_rel hE _ s2 k2 hr
    | exit => simp only [afterBeginG, hf, hg]; exact finishG_rel hE _ s2 k2 hr

theorem executeAllG_rel {fB fL fE : State → State × List String × Ctl} {gB gL gE : Core → Core × List String × Ctl}
    (hB : RelRun fB gB) (hL : RelRun fL gL) (hE : RelRun fE gE) (s : State) (c : Core) (h : Rep s c) :
    Rep (executeAllG fB fL fE (fun s => s.core.perRun.exitStatus) s).1
        (executeAllG gB gL gE (fun c => c.perRun.exitStatus) c).1 ∧
      (executeAllG fB fL fE (fun s => s.core.perRun.exitStatus) s).2 =
        (executeAllG gB gL gE (fun c => c.perRun.exitStatus) c).2 := by
  obtain ⟨hr1, he1⟩ := hB s c h
  rcases hf1 : fB s with ⟨s1, o1, c1⟩
  rcases hg1 : gB c with ⟨k1, p1, d1⟩
  rw [hf1, hg1] at hr1 he1
  simp only [Prod.mk.injEq] at he1
  obtain ⟨ho1, hc1⟩ := he1
  subst ho1; subst hc1
  simp only [executeAllG, hf1, hg1]
  exact afterBeginG_rel hL hE o1 c1 s1 k1 hr1

/-- a run is determined by the cache-free part of the state -/
theorem executeAll_rel (cfg : Cfg) (s : State) (c : Core) (h : Rep s c) :
    Rep (executeAll cfg s).1 (executeAllC cfg c).1 ∧ (executeAll cfg s).2 = (executeAllC cfg c).2 :=
  executeAllG_rel (relRun_of_spec (runScript_spec cfg.b)) (relRun_of_spec (mainLoop_spec cfg.m _))
    (relRun_of_spec (runScript_spec cfg.e)) s c h

/-! ## Execute on the cache-free state -/

def setCfgC (cfg : Cfg) (c : Core) : Core × Bool :=
  let c1 : Core := { c with cfg := { c.cfg with csv := cfg.csv, header := cfg.header } }
  let c2 : Core := if cfg.varsFs then { c1 with vars := { c1.vars with fs := "," } } else c1
  let c3 : Core := match cfg.varG with
    | some v => { c2 with vars := { c2.vars with g := c2.vars.g.set 1 v } }
    | none => c2
  if cfg.badVar then (c3, false)
  else ({ c3 with cfg := { c3.cfg with input := cfg.input, useCtx := cfg.useCtx } }, true)

def executeC (cfg : Cfg) (c : Core) : Core × Result :=
  match setCfgC cfg { c with perRun := PerRun.init } with
  | (c1, false) => (c1, ⟨[], 0, .config⟩)
  | (c1, true) => executeAllC cfg c1

theorem execute_rel (cfg : Cfg) (s : State) (c : Core) (h : Rep s c) :
    Rep (execute cfg s).1 (executeC cfg c).1 ∧ (execute cfg s).2 = (executeC cfg c).2 := by
  obtain ⟨hc, hk⟩ := h
  subst hc
  by_cases hb : cfg.badVar = true
  · simp only [execute, setExecuteConfig, resetCore, hb, executeC, setCfgC, if_true]
    exact ⟨⟨rfl, hk⟩, trivial⟩
  · simp only [execute, setExecuteConfig, resetCore, hb, executeC, setCfgC]
    exact executeAll_rel cfg _ _ ⟨rfl, hk⟩

/-- `executeC` reads only the variables and the generator of the state it starts from -/
theorem executeC_reads (cfg : Cfg) (c c' : Core) (hv : c.vars = c'.vars) (hr : c.rand = c'.rand) :
    (executeC cfg c).2 = (executeC cfg c').2 := by
  obtain ⟨p, f, v, r⟩ := c
  obtain ⟨p', f', v', r'⟩ := c'
  simp only at hv hr
  subst hv; subst hr
  by_cases hb : cfg.badVar = true
  · simp only [executeC, setCfgC, hb, if_true]
  · have : (setCfgC cfg { perRun := PerRun.init, cfg := f, vars := v, rand := r }) =
        (setCfgC cfg { perRun := PerRun.init, cfg := f', vars := v, rand := r }) := by
      simp only [setCfgC, hb]
      cases cfg.varsFs <;> cases cfg.varG <;> rfl
    simp only [executeC, this]

theorem callState_cacheOk (c : Call) (s : State) (h : CacheOk s.cache) : CacheOk (callState c s).cache := by
  cases c with
  | exec cfg => exact (execute_rel cfg s s.core ⟨rfl, h⟩).1.2
  | resetVars => exact h
  | resetRand => exact h

/-- every reachable state has a sound cache -/
theorem runHistory_cacheOk (h : List Call) (s : State) (hs : CacheOk s.cache) : CacheOk (runHistory h s).cache := by
  induction h generalizing s with
  | nil => exact hs
  | cons c rest ih => exact ih _ (callState_cacheOk c s hs)

theorem fresh_cacheOk : CacheOk fresh.cache := by intro p hp; cases hp

end GoawkModel.C14
