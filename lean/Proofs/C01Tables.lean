import GoawkModel.C01
import GoawkModel.C01Conc
import GoawkModel.Generated.C01Tables
/-!
# C01 Stage A2 tie — the model's opcode tables equal the tables extracted from compiler.go / vm.go on this run

The model compiles `Expr.cmp op` to `Instr.cmp op` / `Instr.jumpCmp op`, whose VM semantics is `Sem.cmp op` on both sides by
construction. What ties this to Go: (1) the opcode NAME the encoder emits for each is the one `condition`/`binaryOp` return
for the token, (2) the Go VM case of that opcode applies the same Go operator as the unfused comparison opcode.
-/
namespace GoawkModel.C01
open Generated.C01Tables

def CmpOp.all : List CmpOp := [.eq, .ne, .lt, .le, .gt, .ge]
def ArithOp.all : List ArithOp := [.add, .sub, .mul, .div, .pow, .mod]
def CmpOp.token : CmpOp → String
  | .eq => "EQUALS" | .ne => "NOT_EQUALS" | .lt => "LESS" | .le => "LTE" | .gt => "GREATER" | .ge => "GTE"
def CmpOp.goOp : CmpOp → String
  | .eq => "==" | .ne => "!=" | .lt => "<" | .le => "<=" | .gt => ">" | .ge => ">="
def ArithOp.token : ArithOp → String
  | .add => "ADD" | .sub => "SUB" | .mul => "MUL" | .div => "DIV" | .pow => "POW" | .mod => "MOD"
def ArithOp.goOp : ArithOp → String
  | .add => "+" | .sub => "-" | .mul => "*" | .div => "/" | .pow => "math.Pow" | .mod => "math.Mod"

def x0 : Expr := .var .global 0

/-- token → (jump opcode returned by `condition(…, false)`, jump opcode returned by `condition(…, true)` or "" when the
inverted condition is not fused), computed from the MODEL's `cJumpF` / `cJumpT` -/
def modelCondFused : List (String × String × String) :=
  CmpOp.all.map fun op =>
    (op.token, (cJumpF (.cmp op x0 x0) 0).opName,
      match cJumpT (.cmp op x0 x0) 0 with
      | .jumpCmp op' _ => op'.jumpName
      | _ => "")

def modelUnfusedWhenInverted : List String :=
  (CmpOp.all.filter fun op => cCondT (.cmp op x0 x0) == cExpr (.cmp op x0 x0)).map (·.token)

def lookup (t : List (String × String)) (k : String) : String := ((t.find? (·.1 == k)).map (·.2)).getD "?"

theorem gen_matches_condFused : condFused = modelCondFused := by decide
theorem gen_matches_condUnfused : condUnfusedWhenInverted = modelUnfusedWhenInverted := by
  simp [modelUnfusedWhenInverted, CmpOp.all, cCondT, cExpr, cE, x0, CmpOp.token, condUnfusedWhenInverted]
/-- `binaryOp`: the value-position opcode of every arithmetic and comparison token is the model's -/
theorem gen_matches_binaryOp :
    (CmpOp.all.map fun op => lookup binaryOp op.token) = CmpOp.all.map (·.opName) ∧
    (ArithOp.all.map fun op => lookup binaryOp op.token) = ArithOp.all.map (·.opName) := by decide
/-- vm.go: every fused jump applies the Go operator of the unfused comparison opcode, and it is the model's operator -/
theorem gen_matches_vmCompare :
    (CmpOp.all.map fun op => (lookup vmCompare op.opName, lookup vmCompare op.jumpName)) = CmpOp.all.map fun op => (op.goOp, op.goOp) := by
  decide
/-- the AugOp the compiler's `stmt` chooses for a token (`default` = the last, unnamed case) -/
def augOf (op : ArithOp) : String :=
  let a := lookup augOpOfToken op.token
  if a == "?" then lookup augOpOfToken "default" else a
def vmAugOf (a : String) : String :=
  let o := lookup vmAugOp a
  if o == "?" then lookup vmAugOp "default" else o

/-- statement-position `op=`: token → AugOp → Go operator is the operator of the expression-position opcode -/
theorem gen_matches_augOp :
    ArithOp.all.map augOf = ArithOp.all.map (·.augName) ∧
    ArithOp.all.map (fun op => vmAugOf (augOf op)) = ArithOp.all.map (·.goOp) := by decide

end GoawkModel.C01
