import GoawkModel.C10
import Proofs.C10Sub
namespace GoawkModel.C10

/-! ### literal separator: no piece contains the separator -/

theorem prefix_take_of_prefix_drop_take (s t : Bytes) (i j : Nat) (h : t <+: (s.take i).drop j) : t <+: s.drop j := by
  obtain ⟨r, hr⟩ := h
  have e : (s.take i).drop j = (s.drop j).take (i - j) := by rw [List.drop_take]
  rw [e] at hr
  exact ⟨r ++ (s.drop j).drop (i - j), by rw [← List.append_assoc, hr, List.take_append_drop]⟩

/-- the text before the first occurrence contains no occurrence -/
theorem indexOf_take_none (s t : Bytes) (i : Nat) (ht : t ≠ []) (h : indexOf s t = some i) : indexOf (s.take i) t = none := by
  obtain ⟨_, _, hmin⟩ := indexOf_some s t i h
  cases h' : indexOf (s.take i) t with
  | none => rfl
  | some j =>
    exfalso
    obtain ⟨hp, hj, _⟩ := indexOf_some (s.take i) t j h'
    have hji : j ≤ i := by simp only [List.length_take] at hj; omega
    by_cases e : j = i
    · subst e
      have : (s.take j).drop j = [] := by simp
      rw [this] at hp
      exact ht (List.prefix_nil.mp hp)
    · exact hmin j (by omega) (prefix_take_of_prefix_drop_take s t i j hp)

theorem splitF_no_sep (sep : Bytes) (hs : sep ≠ []) : ∀ (f : Nat) (s : Bytes), s.length ≤ f →
    ∀ p ∈ splitF sep f s, indexOf p sep = none := by
  intro f
  induction f with
  | zero =>
    intro s h p hp
    have : s = [] := List.length_eq_zero_iff.mp (by omega)
    subst this
    simp only [splitF, List.mem_singleton] at hp
    subst hp
    simp [indexOf, hs]
  | succ f ih =>
    intro s h p hp
    simp only [splitF] at hp
    cases hi : indexOf s sep with
    | none => simp only [hi, List.mem_singleton] at hp; subst hp; exact hi
    | some i =>
      simp only [hi, List.mem_cons] at hp
      rcases hp with hp | hp
      · subst hp; exact indexOf_take_none s sep i hs hi
      · have hl : 0 < sep.length := List.length_pos_iff.mpr hs
        exact ih _ (by simp only [List.length_drop]; omega) p hp

/-! ### regex separator: `regexp.Split` given the match list -/

theorem regexSplitLoop_weave : ∀ (ms : List (Nat × Nat)) (s : Bytes) (beg e : Nat), MatchesWF s beg ms → e ≤ beg →
    weave (regexSplitLoop s ms beg e) (cutTexts s ms) = s.drop beg := by
  intro ms
  induction ms with
  | nil =>
    intro s beg e _ he
    simp only [regexSplitLoop, cutTexts, List.filter_nil, List.map_nil]
    split
    · simp [weave]
    · rename_i h
      have : s.length ≤ beg := by simp at h; omega
      simp [weave, List.drop_eq_nil_of_le this]
  | cons p ms ih =>
    intro s beg e h _
    obtain ⟨a, b⟩ := p
    obtain ⟨h1, h2, _, h4⟩ := h
    simp only [regexSplitLoop]
    by_cases hb : b = 0
    · have ha : a = 0 := by omega
      have hbeg : beg = 0 := by omega
      subst hb ha hbeg
      simp only [ne_eq, not_true_eq_false, if_false]
      have := ih s 0 0 h4 (Nat.le_refl _)
      simpa [cutTexts] using this
    · simp only [ne_eq, hb, not_false_eq_true, if_true]
      have := ih s b a h4 h2
      have hc : cutTexts s ((a, b) :: ms) = (s.drop a).take (b - a) :: cutTexts s ms := by
        simp [cutTexts, hb]
      rw [hc, weave, this, match_reassemble s beg a b h1 h2]

theorem regexSplitLoop_length : ∀ (ms : List (Nat × Nat)) (s : Bytes) (beg e : Nat),
    (regexSplitLoop s ms beg e).length = (cutTexts s ms).length + (if lastStart e ms = s.length then 0 else 1) := by
  intro ms
  induction ms with
  | nil =>
    intro s beg e
    by_cases h : e = s.length <;> simp [regexSplitLoop, cutTexts, lastStart, h]
  | cons p ms ih =>
    intro s beg e
    obtain ⟨a, b⟩ := p
    simp only [regexSplitLoop, lastStart]
    by_cases hb : b = 0
    · simp only [hb, ne_eq, not_true_eq_false, if_false, ih]
      by_cases h : lastStart a ms = s.length <;> simp [cutTexts, h]
    · simp only [ne_eq, hb, not_false_eq_true, if_true, List.length_cons, ih]
      have hc : cutTexts s ((a, b) :: ms) = (s.drop a).take (b - a) :: cutTexts s ms := by
        simp [cutTexts, hb]
      rw [hc, List.length_cons]
      by_cases h : lastStart a ms = s.length <;> simp [h] <;> omega
end GoawkModel.C10
