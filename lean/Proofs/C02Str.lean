import GoawkModel.C02Str
/-! Helper lemmas for the substr() clauses of C02: rune widths stay inside the string, the offsets `range s` visits are offsets
of the string, the counting loop stops on one of them. -/
namespace GoawkModel.C02

theorem runeWidth_le (s : Bytes) : runeWidth s ≤ s.length := by
  unfold runeWidth
  split
  · simp
  · rename_i b0 rest
    dsimp only
    repeat' split
    all_goals simp only [List.length_cons] <;> omega

theorem runeWidth_pos (b : UInt8) (rest : Bytes) : 1 ≤ runeWidth (b :: rest) := by
  unfold runeWidth
  dsimp only
  repeat' split
  all_goals omega

/-- every offset the loop visits lies inside the string -/
theorem runeStartsAux_bounds (fuel off : Nat) (s : Bytes) :
    ∀ i ∈ runeStartsAux fuel off s, off ≤ i ∧ i < off + s.length := by
  induction fuel generalizing off s with
  | zero => intro i hi; simp [runeStartsAux] at hi
  | succ fuel ih =>
    cases s with
    | nil => intro i hi; simp [runeStartsAux] at hi
    | cons b rest =>
      intro i hi
      simp only [runeStartsAux, List.mem_cons] at hi
      have hw := runeWidth_le (b :: rest)
      have hp := runeWidth_pos b rest
      rcases hi with rfl | hi
      · simp
      · have := ih (off + runeWidth (b :: rest)) ((b :: rest).drop (runeWidth (b :: rest))) i hi
        simp only [List.length_drop] at this
        constructor <;> omega

theorem runeStarts_lt (s : Bytes) : ∀ i ∈ runeStarts s, i < s.length := by
  intro i hi
  have := runeStartsAux_bounds s.length 0 s i hi
  omega

/-- the loop leaves `start` where it was or on one of the visited offsets -/
theorem rangeLoop_start (limit : Int) (l : List Nat) (start : Nat) (chars : Int) :
    (rangeLoop limit l start chars).1 = start ∨ (rangeLoop limit l start chars).1 ∈ l := by
  induction l generalizing start chars with
  | nil => left; rfl
  | cons i is ih =>
    simp only [rangeLoop]
    split
    · right; simp
    · rcases ih i (chars + 1) with h | h
      · right; rw [h]; simp
      · right; exact List.mem_cons_of_mem _ h

theorem charStart_le (s : Bytes) (pos : Int) : charStart s pos ≤ s.length := by
  unfold charStart
  dsimp only
  split
  · exact Nat.le_refl _
  · rcases rangeLoop_start pos (runeStarts s) 0 1 with h | h
    · rw [h]; exact Nat.zero_le _
    · exact Nat.le_of_lt (runeStarts_lt s _ h)

theorem slice_ok (s : Bytes) (lo hi : Int) (h0 : 0 ≤ lo) (h1 : lo ≤ hi) (h2 : hi ≤ (s.length : Int)) : slice s lo hi ≠ .stuck := by
  unfold slice
  rw [if_pos ⟨h0, h1, h2⟩]
  intro h; cases h

end GoawkModel.C02
