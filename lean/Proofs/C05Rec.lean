import GoawkModel.C05Rec
import GoawkModel.Generated.C05Cmp
/-! C05 helper lemmas: record histories. -/
namespace GoawkModel.C05
open GoawkModel

def Rec.WF (r : Rec) : Prop := r.flags.length = r.fields.length

theorem Rec.wf_ofLine (split : Bytes → List Bytes) (line : Bytes) (b : Bool) : (Rec.ofLine split line b).WF := by
  simp [Rec.WF, Rec.ofLine]

theorem Rec.wf_step (split : Bytes → List Bytes) (join : List Bytes → Bytes) (r : Rec) (h : r.WF) (op : RecOp) :
    (r.step split join op).WF := by
  unfold Rec.WF at h
  cases op <;> simp [Rec.step, Rec.wf_ofLine, Rec.WF, Rec.setField, Rec.setNF, Rec.ofLine, h]

theorem Rec.wf_run (split : Bytes → List Bytes) (join : List Bytes → Bytes) (ops : List RecOp) :
    ∀ r : Rec, r.WF → (r.run split join ops).WF := by
  induction ops with
  | nil => intro r h; exact h
  | cons op ops ih => intro r h; exact ih _ (Rec.wf_step split join r h op)

theorem Rec.getField_ofLine (split : Bytes → List Bytes) (line : Bytes) (k : Nat) (f : Bytes)
    (h : (split line)[k]? = some f) : (Rec.ofLine split line false).getField (k + 1) = .numstr f := by
  have hk : k < (split line).length := by
    cases hlt : decide (k < (split line).length) with
    | true => exact of_decide_eq_true hlt
    | false =>
      have : (split line).length ≤ k := Nat.le_of_not_lt (of_decide_eq_false hlt)
      rw [List.getElem?_eq_none this] at h; cases h
  have hf : (split line)[k] = f := by
    rw [List.getElem?_eq_getElem hk] at h; exact Option.some.inj h
  simp [Rec.getField, Rec.ofLine, h, List.getElem?_map, hk, hf]

/-- the statements of io.go that maintain the flags are the ones the model was written against -/
theorem gen_matches_record :
    Generated.C05Cmp.src_setLine_flags = ["p.lineIsTrueStr = isTrueStr"] ∧
    Generated.C05Cmp.src_ensureFields_flags =
      ["p.fieldsIsTrueStr = p.fieldsIsTrueStr[:0]", "for range p.fields { p.fieldsIsTrueStr = append(p.fieldsIsTrueStr, false) }"] ∧
    Generated.C05Cmp.src_getField =
      "{ if index == 0 { if p.lineIsTrueStr { return str(p.line) } else { return numStr(p.line) } } p.ensureFields() if index < 1 { index = len(p.fields) + 1 + index if index < 1 { return str(\"\") } } if index > len(p.fields) { return str(\"\") } if p.fieldsIsTrueStr[index-1] { return str(p.fields[index-1]) } else { return numStr(p.fields[index-1]) } }" :=
  ⟨rfl, rfl, rfl⟩

end GoawkModel.C05
