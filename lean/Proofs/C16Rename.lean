import GoawkModel.C16Spec
/-! Consistent renaming of identifiers: the usage constraints of the renamed program have a solution exactly when those of
the original have one. -/
namespace GoawkModel.C16
set_option linter.unusedSimpArgs false

def Event.rename (ρ : Name → Name) : Event → Event
  | .use v t => .use (ρ v) t
  | .call f n => .call (ρ f) n
  | .exprArg f i => .exprArg (ρ f) i
  | .varArg f i v => .varArg (ρ f) i (ρ v)

def Func.rename (ρ : Name → Name) (f : Func) : Func := ⟨ρ f.name, f.params.map ρ, f.body.map (Event.rename ρ)⟩

def Program.rename (ρ : Name → Name) (p : Program) : Program :=
  ⟨p.funcs.map (Func.rename ρ), p.main.map (Event.rename ρ), p.specials.map ρ, p.builtins.map ρ⟩

/-- a consistent renaming: injective, and the top-level scope stays the top-level scope -/
structure Renaming (ρ : Name → Name) : Prop where
  inj : ∀ a b, ρ a = ρ b → a = b
  zero : ρ 0 = 0

section
variable {ρ : Name → Name} (hρ : Renaming ρ)
include hρ

theorem mem_map_rename {v : Name} {l : List Name} : ρ v ∈ l.map ρ ↔ v ∈ l := by
  constructor
  · intro h
    obtain ⟨w, hw, he⟩ := List.mem_map.mp h
    rw [← hρ.inj w v he]; exact hw
  · intro h; exact List.mem_map.mpr ⟨v, h, rfl⟩

theorem findFunc_rename (p : Program) (f : Name) :
    (p.rename ρ).findFunc (ρ f) = (p.findFunc f).map (Func.rename ρ) := by
  unfold Program.findFunc Program.rename
  simp only
  induction p.funcs with
  | nil => rfl
  | cons g gs ih =>
    simp only [List.map_cons, List.find?_cons]
    have hb : ((Func.rename ρ g).name == ρ f) = (g.name == f) := by
      simp only [Func.rename]
      by_cases hg : g.name = f
      · simp [hg]
      · have : ρ g.name ≠ ρ f := fun h => hg (hρ.inj _ _ h)
        rw [beq_eq_false_iff_ne.mpr hg, beq_eq_false_iff_ne.mpr this]
    rw [hb]
    cases (g.name == f) with
    | true => rfl
    | false => exact ih

theorem paramsOf_rename (p : Program) (f : Name) : (p.rename ρ).paramsOf (ρ f) = (p.paramsOf f).map ρ := by
  unfold Program.paramsOf
  rw [findFunc_rename hρ]
  cases p.findFunc f with
  | none => rfl
  | some g => rfl

theorem param_rename (p : Program) (f : Name) (i : Nat) : (p.rename ρ).param (ρ f) i = ρ (p.param f i) := by
  unfold Program.param
  rw [paramsOf_rename hρ, List.getD_eq_getElem?_getD, List.getD_eq_getElem?_getD, List.getElem?_map]
  cases (p.paramsOf f)[i]? with
  | none => simp [hρ.zero]
  | some x => simp

theorem refOf_rename (p : Program) (fn v : Name) : refOf (p.rename ρ) (ρ fn) (ρ v) = refOf p fn v := by
  unfold refOf
  rw [paramsOf_rename hρ]
  have h0 : ρ fn ≠ 0 ↔ fn ≠ 0 := by
    constructor
    · intro h hf; rw [hf, hρ.zero] at h; exact h rfl
    · intro h hf; rw [← hρ.zero] at hf; exact h (hρ.inj _ _ hf)
  have hs : ρ v ∈ (p.rename ρ).specials ↔ v ∈ p.specials := mem_map_rename hρ
  by_cases c1 : fn ≠ 0 ∧ v ∈ p.paramsOf fn
  · have : ρ fn ≠ 0 ∧ ρ v ∈ (p.paramsOf fn).map ρ := ⟨h0.mpr c1.1, (mem_map_rename hρ).mpr c1.2⟩
    rw [if_pos this, if_pos c1]
  · have : ¬ (ρ fn ≠ 0 ∧ ρ v ∈ (p.paramsOf fn).map ρ) := fun h => c1 ⟨h0.mp h.1, (mem_map_rename hρ).mp h.2⟩
    rw [if_neg this, if_neg c1]
    by_cases c2 : v ∈ p.specials
    · rw [if_pos (hs.mpr c2), if_pos c2]
    · have : ¬ ρ v ∈ (p.rename ρ).specials := fun h => c2 (hs.mp h)
      rw [if_neg this, if_neg c2]

theorem tyOf_rename (p : Program) (σ' : Typing) (fn v : Name) :
    tyOf (p.rename ρ) σ' (ρ fn) (ρ v) = tyOf p (fun a b => σ' (ρ a) (ρ b)) fn v := by
  unfold tyOf
  rw [refOf_rename hρ]
  cases refOf p fn v <;> simp only [hρ.zero]

theorem eventSat_rename (p : Program) (σ' : Typing) (fn : Name) (e : Event) :
    EventSat (p.rename ρ) σ' (ρ fn) (e.rename ρ) ↔ EventSat p (fun a b => σ' (ρ a) (ρ b)) fn e := by
  cases e with
  | use v t => simp only [Event.rename, EventSat, tyOf_rename hρ]
  | call f n => simp only [Event.rename, EventSat]
  | exprArg f i => simp only [Event.rename, EventSat, param_rename hρ]
  | varArg f i v => simp only [Event.rename, EventSat, tyOf_rename hρ, param_rename hρ]

/-- pulling a typing of the renamed program back along `ρ` -/
theorem sat_of_rename (p : Program) (σ' : Typing) (h : Sat (p.rename ρ) σ') : Sat p (fun a b => σ' (ρ a) (ρ b)) := by
  refine ⟨fun fn v => h.total _ _, ?_, ?_, ?_⟩
  · intro b hb
    have := h.builtins (ρ b) (List.mem_map.mpr ⟨b, hb, rfl⟩)
    rw [hρ.zero]; exact this
  · intro f hf e he
    have hf' : Func.rename ρ f ∈ (p.rename ρ).funcs := List.mem_map.mpr ⟨f, hf, rfl⟩
    have he' : e.rename ρ ∈ (Func.rename ρ f).body := List.mem_map.mpr ⟨e, he, rfl⟩
    exact (eventSat_rename hρ p σ' f.name e).mp (h.funcs _ hf' _ he')
  · intro e he
    have he' : e.rename ρ ∈ (p.rename ρ).main := List.mem_map.mpr ⟨e, he, rfl⟩
    have := h.main _ he'
    rw [← hρ.zero] at this
    exact (eventSat_rename hρ p σ' 0 e).mp this

open Classical in
/-- a left inverse of an injective renaming -/
noncomputable def invRen (ρ : Name → Name) (y : Name) : Name :=
  if h : ∃ x, ρ x = y then Classical.choose h else 0

theorem invRen_apply (x : Name) : invRen ρ (ρ x) = x := by
  unfold invRen
  have h : ∃ x', ρ x' = ρ x := ⟨x, rfl⟩
  rw [dif_pos h]
  exact hρ.inj _ _ (Classical.choose_spec h)

/-- pushing a typing of the original program forward along `ρ` -/
theorem sat_rename (p : Program) (σ : Typing) (h : Sat p σ) :
    Sat (p.rename ρ) (fun a b => σ (invRen ρ a) (invRen ρ b)) := by
  have hback : (fun a b => (fun a b => σ (invRen ρ a) (invRen ρ b)) (ρ a) (ρ b)) = σ := by
    funext a b; simp only [invRen_apply hρ]
  refine ⟨fun fn v => h.total _ _, ?_, ?_, ?_⟩
  · intro b hb
    obtain ⟨b0, hb0, hbe⟩ := List.mem_map.mp hb
    rw [← hbe, invRen_apply hρ, ← hρ.zero, invRen_apply hρ]
    exact h.builtins b0 hb0
  · intro f' hf' e' he'
    obtain ⟨f, hf, hfe⟩ := List.mem_map.mp hf'
    rw [← hfe] at he' ⊢
    obtain ⟨e, he, hee⟩ := List.mem_map.mp he'
    rw [← hee]
    apply (eventSat_rename hρ p _ f.name e).mpr
    rw [hback]
    exact h.funcs f hf e he
  · intro e' he'
    obtain ⟨e, he, hee⟩ := List.mem_map.mp he'
    rw [← hee, ← hρ.zero]
    apply (eventSat_rename hρ p _ 0 e).mpr
    rw [hback]
    exact h.main e he

/-- the renamed program has a consistent typing iff the original has one -/
theorem consistent_rename (p : Program) : Consistent (p.rename ρ) ↔ Consistent p :=
  ⟨fun ⟨σ', h⟩ => ⟨_, sat_of_rename hρ p σ' h⟩, fun ⟨σ, h⟩ => ⟨_, sat_rename hρ p σ h⟩⟩

end

end GoawkModel.C16
