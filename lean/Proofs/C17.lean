import GoawkModel.C17
set_option linter.unusedSimpArgs false
/-! Helper lemmas for property C17 (native function calls). Core Lean only. -/
namespace GoawkModel.C17

/-- the documented parameter / result types: bool, integer and floating point kinds (no complex), string, []byte — by kind -/
def Documented (t : Ty) : Prop :=
  t.kind ∈ [RKind.bool, .int, .int8, .int16, .int32, .int64, .uint, .uint8, .uint16, .uint32, .uint64, .float32, .float64, .string]
  ∨ (t.kind = .slice ∧ t.elemKind? = some .uint8)

theorem validNativeType_iff (t : Ty) : validNativeType t = true ↔ Documented t := by
  cases t with
  | prim k n => cases k <;> simp [validNativeType, Documented, Ty.kind, Ty.elemKind?]
  | slice e n => simp [validNativeType, Documented, Ty.kind, Ty.elemKind?]
  | error => simp [validNativeType, Documented, Ty.kind, Ty.elemKind?]

theorem checkParams_none (s : Sig) : ∀ (ps : List Ty) (i : Nat),
    checkParams s ps i = none ↔ ∀ j p, ps[j]? = some p → validNativeType (effParam s (i + j) p) = true
  | [], i => by simp [checkParams]
  | p :: rest, i => by
    simp only [checkParams]
    by_cases h : validNativeType (effParam s i p) = true
    · simp only [h, if_true]
      rw [checkParams_none s rest (i + 1)]
      constructor
      · intro hr j q hj
        cases j with
        | zero => simp at hj; subst hj; simpa using h
        | succ j => simp at hj; have := hr j q hj; simpa [Nat.add_assoc, Nat.add_comm 1 j] using this
      · intro hr j q hj
        have := hr (j + 1) q (by simpa using hj)
        simpa [Nat.add_assoc, Nat.add_comm 1 j] using this
    · simp only [h]
      constructor
      · intro hc; simp at hc
      · intro hr; exact absurd (by simpa using hr 0 p (by simp)) h

/-- the shape of the result list the documentation allows -/
def ResultsDocumented (rs : List Ty) : Prop :=
  rs = [] ∨ (∃ r, rs = [r] ∧ Documented r) ∨ (∃ r, rs = [r, Ty.error] ∧ Documented r)

theorem checkResults_none (rs : List Ty) : checkResults rs = none ↔ ResultsDocumented rs := by
  unfold ResultsDocumented
  match rs with
  | [] => simp [checkResults]
  | [r] => simp [checkResults, validNativeType_iff]
  | [r, e] =>
    simp only [checkResults]
    by_cases hv : validNativeType r = true
    · by_cases he : e = Ty.error
      · subst he; simp [hv, ← validNativeType_iff]
      · simp [hv, he]
    · simp [hv, ← validNativeType_iff]
  | _ :: _ :: _ :: _ => simp [checkResults]

/-- the documented shape of a signature -/
def DocumentedShape (s : Sig) : Prop :=
  (∀ i p, s.params[i]? = some p → Documented (effParam s i p)) ∧ ResultsDocumented s.results

theorem check_ok_iff (kw : Bool) (s : Sig) (n : Bool) :
    (checkNativeFunc kw (.func s n)).1 = .ok () ↔ kw = false ∧ n = false ∧ DocumentedShape s := by
  unfold checkNativeFunc DocumentedShape
  cases kw with
  | true => simp
  | false =>
    cases n with
    | true => simp
    | false =>
    simp only [Bool.false_eq_true, if_false, true_and]
    have hp := checkParams_none s s.params 0
    have hr := checkResults_none s.results
    cases h1 : checkParams s s.params 0 with
    | some e =>
      simp only []
      constructor
      · intro h; cases h
      · intro h
        have : checkParams s s.params 0 = none := hp.2 (by
          intro j p hj; simpa [validNativeType_iff] using h.1 j p hj)
        rw [h1] at this; cases this
    | none =>
      simp only []
      have hp' := hp.1 h1
      cases h2 : checkResults s.results with
      | some e =>
        simp only []
        constructor
        · intro h; cases h
        · intro h; have := hr.2 h.2; rw [h2] at this; cases this
      | none =>
        simp only [true_iff]
        exact ⟨fun i p hi => (validNativeType_iff _).1 (by simpa using hp' i p hi), hr.1 h2⟩

/-! ### toNative / convertTo never panic on a valid type -/

theorem toNative_convert_ok (a : AVal) (t : Ty) (hv : validNativeType t = true) :
    ∃ x, toNative a t = .ok x ∧ convertTo x t = .ok (t, x.2) := by
  cases t with
  | prim k n =>
    cases k <;> simp [validNativeType, Ty.kind, Ty.elemKind?] at hv <;>
      (cases n <;> simp [toNative, convertTo, Ty.kind])
  | slice e n =>
    simp [validNativeType, Ty.kind, Ty.elemKind?] at hv
    simp [toNative, convertTo, Ty.kind, Ty.elemKind?, hv]
  | error => simp [validNativeType, Ty.kind, Ty.elemKind?] at hv

theorem convArgs_ok (s : Sig) : ∀ (args : List AVal) (k : Nat),
    (∀ i, i < args.length → ∃ t, argType? s (k + i) = some t ∧ validNativeType t = true) →
    ∃ vs, convArgs s args k = .ok vs ∧ vs.length = args.length ∧
      ∀ i, i < args.length → (vs[i]?).map Prod.fst = argType? s (k + i)
  | [], k, _ => ⟨[], by simp [convArgs]⟩
  | a :: rest, k, h => by
    obtain ⟨t, ht, hv⟩ := h 0 (by simp)
    obtain ⟨x, hx, hc⟩ := toNative_convert_ok a t hv
    obtain ⟨ys, hys, hlen, htypes⟩ := convArgs_ok s rest (k + 1) (by
      intro i hi
      have := h (i + 1) (by simpa using hi)
      simpa [Nat.add_assoc, Nat.add_comm 1 i] using this)
    refine ⟨(t, x.2) :: ys, ?_, by simp [hlen], ?_⟩
    · simp only [Nat.add_zero] at ht
      simp [convArgs, ht, hx, hc, hys]
    · intro i hi
      cases i with
      | zero => simpa using ht.symm
      | succ i =>
        have := htypes i (by simpa using hi)
        simpa [Nat.add_assoc, Nat.add_comm 1 i] using this


def minIn (s : Sig) : Nat := if s.variadic then s.params.length - 1 else s.params.length

theorem argType_valid (s : Sig) (hwf : s.WF = true)
    (hp : ∀ j p, s.params[j]? = some p → validNativeType (effParam s j p) = true)
    (i : Nat) (hi : s.variadic = false → i < s.params.length) :
    ∃ t, argType? s i = some t ∧ validNativeType t = true := by
  unfold argType?
  cases hv : s.variadic with
  | false =>
    have hi' := hi hv
    simp only [Bool.not_false, Bool.true_or, if_true]
    refine ⟨s.params[i], by simp [hi'], ?_⟩
    have := hp i s.params[i] (by simp [hi'])
    simpa [effParam, hv] using this
  | true =>
    simp only [Bool.not_true, Bool.false_or, decide_eq_true_eq]
    by_cases hlt : i < s.params.length - 1
    · have hi' : i < s.params.length := by omega
      simp only [hlt, if_true]
      refine ⟨s.params[i], by simp [hi'], ?_⟩
      have := hp i s.params[i] (by simp [hi'])
      have hne : ¬ (i = s.params.length - 1) := by omega
      simpa [effParam, hv, hne] using this
    · simp only [hlt, if_false]
      simp only [Sig.WF, hv, Bool.not_true, Bool.false_or] at hwf
      cases hl : s.params.getLast? with
      | none => simp [hl] at hwf
      | some last =>
        cases last with
        | slice e n =>
          refine ⟨e, rfl, ?_⟩
          have hget : s.params[s.params.length - 1]? = some (Ty.slice e n) := by
            rw [← List.getLast?_eq_getElem?]; exact hl
          have := hp _ _ hget
          simpa [effParam, hv] using this
        | prim k n => simp [hl] at hwf
        | error => simp [hl] at hwf

theorem argType_fixed (s : Sig) (i : Nat) (hi : i < minIn s) : argType? s i = s.params[i]? := by
  unfold argType?
  unfold minIn at hi
  cases hv : s.variadic with
  | false => simp
  | true => simp [hv] at hi; simp [hi]

theorem zeroFill_get (s : Sig) (n i : Nat) (hi : n + i < minIn s) :
    (zeroFill s n)[i]? = (s.params[n + i]?).map fun t => (t, zeroOf t) := by
  have hm : minIn s ≤ s.params.length := by unfold minIn; split <;> omega
  simp only [zeroFill]
  show (List.map (fun t => (t, zeroOf t)) (List.drop n (List.take (minIn s) s.params)))[i]? = _
  rw [List.getElem?_map, List.getElem?_drop, List.getElem?_take]
  simp [hi]

theorem zeroFill_length (s : Sig) (n : Nat) : (zeroFill s n).length = minIn s - n := by
  have hm : minIn s ≤ s.params.length := by unfold minIn; split <;> omega
  simp only [zeroFill]
  show (List.map (fun t => (t, zeroOf t)) (List.drop n (List.take (minIn s) s.params))).length = _
  simp [Nat.min_eq_left hm]

theorem buildValues_ok (s : Sig) (hwf : s.WF = true)
    (hp : ∀ j p, s.params[j]? = some p → validNativeType (effParam s j p) = true)
    (args : List AVal) (hn : s.variadic = false → args.length ≤ s.params.length) :
    ∃ cs, convArgs s args 0 = .ok cs ∧ cs.length = args.length ∧
      buildValues s args = .ok (cs ++ zeroFill s args.length) ∧
      callAccepts s false (cs ++ zeroFill s args.length) = true := by
  obtain ⟨cs, hcs, hlen, hty⟩ := convArgs_ok s args 0 (by
    intro i hi
    simpa using argType_valid s hwf hp i (fun hv => by have := hn hv; omega))
  refine ⟨cs, hcs, hlen, by simp [buildValues, hcs], ?_⟩
  have hm : minIn s ≤ s.params.length := by unfold minIn; split <;> omega
  have hzl := zeroFill_length s args.length
  simp only [callAccepts, Bool.not_false, Bool.true_and, Bool.and_eq_true, List.all_eq_true, List.mem_range]
  constructor
  · cases hv : s.variadic with
    | false =>
      have := hn hv
      simp [hlen, hzl, minIn, hv]; omega
    | true => simp [hlen, hzl, minIn, hv]; omega
  · intro i hi
    simp only [List.length_append, hlen, hzl] at hi
    by_cases h1 : i < args.length
    · have := hty i h1
      simp only [Nat.zero_add] at this
      rw [List.getElem?_append_left (by omega)]
      cases hc : cs[i]? with
      | none => simp [hc] at this; rw [← this]; have : i < cs.length := by omega
                simp at hc; omega
      | some v => simp [hc] at this; simp [← this]
    · have hlt : i < minIn s := by omega
      rw [List.getElem?_append_right (by omega), hlen]
      have hz := zeroFill_get s args.length (i - args.length) (by omega)
      have he : args.length + (i - args.length) = i := by omega
      rw [he] at hz
      rw [hz, argType_fixed s i hlt]
      have : i < s.params.length := by omega
      simp [this]


/-! ### results -/

theorem fromNative_ok (r : Ty) (v : NVal) (hv : validNativeType r = true) (hf : v.fits r = true) :
    ∃ x, fromNative r v = .ok x := by
  cases r with
  | prim k n =>
    cases k <;> simp [validNativeType, Ty.kind, Ty.elemKind?] at hv <;>
      (cases v <;> simp [NVal.fits, Ty.kind] at hf <;> simp [fromNative, Ty.kind])
  | slice e n =>
    simp [validNativeType, Ty.kind, Ty.elemKind?] at hv
    cases v <;> simp [NVal.fits, Ty.kind] at hf <;> simp [fromNative, Ty.kind, Ty.elemKind?, hv]
  | error => simp [validNativeType, Ty.kind, Ty.elemKind?] at hv

/-! ### numbers -/

theorem wrapSigned8_id (t : Int) (h1 : -128 ≤ t) (h2 : t < 128) : wrapSigned 8 t = t := by
  simp only [wrapSigned]; split <;> omega
theorem wrapSigned16_id (t : Int) (h1 : -32768 ≤ t) (h2 : t < 32768) : wrapSigned 16 t = t := by
  simp only [wrapSigned]; split <;> omega
theorem wrapUnsigned8_id (t : Int) (h1 : 0 ≤ t) (h2 : t < 256) : wrapUnsigned 8 t = t := by
  simp only [wrapUnsigned]; omega
theorem wrapUnsigned16_id (t : Int) (h1 : 0 ≤ t) (h2 : t < 65536) : wrapUnsigned 16 t = t := by
  simp only [wrapUnsigned]; omega
theorem wrapUnsigned32_id (t : Int) (h1 : 0 ≤ t) (h2 : t < 4294967296) : wrapUnsigned 32 t = t := by
  simp only [wrapUnsigned]; omega
theorem wrapUnsigned64_id (t : Int) (h1 : 0 ≤ t) (h2 : t < 18446744073709551616) : wrapUnsigned 64 t = t := by
  simp only [wrapUnsigned]; omega

theorem cvt64_of_trunc (b : Nat) (t : Int) (h : f64Trunc b = some t) (h1 : -9223372036854775808 ≤ t) (h2 : t < 9223372036854775808) :
    cvt64 b = t := by
  simp only [cvt64, h]; split <;> omega
theorem cvt32_of_trunc (b : Nat) (t : Int) (h : f64Trunc b = some t) (h1 : -2147483648 ≤ t) (h2 : t < 2147483648) :
    cvt32 b = t := by
  simp only [cvt32, h]; split <;> omega

end GoawkModel.C17
