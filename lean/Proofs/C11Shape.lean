import Proofs.C11Stream
import Proofs.C11Special
/-!
Program SHAPE and resumed reading.

* A pattern-action rule that does nothing for any record (`{ }`, or a pattern that is never true) is invisible: the main loop of
  a program with such rules is, state for state, the main loop of the program without any rule (`mainLoop_idle`, `run_idle`). So
  what END finds — `$0`, NF, NR, FNR, FILENAME, the input position — does not depend on whether any rule looked at the records.
* In a program without rules the record END finds is the LAST one taken, split with the FS in force at the moment it was taken —
  whatever `var=value` operands the final, unsuccessful look for more input crossed afterwards (`end_only_last_record`).
* Wherever reading stops — `exit` in BEGIN after some getlines, `exit` in a rule in the middle of a file — the next
  un-redirected `getline` takes the head of what was pending there: same file, next FNR (`next_take_is_head_of_pending`,
  `pending_after_exit`, `pending_after_exit_in_begin`).
-/
namespace GoawkModel.C11

/-- a rule that does nothing for any record: `{ }` (always, empty action), or a pattern that is never true and raises nothing
(whatever its action) -/
def Rule.Idle (r : Rule) : Prop :=
  (r.pat = .always ∧ r.body = some []) ∨ (∃ c, r.pat = .pred c ∧ ∀ v, c v = .val false)

theorem runRules_idle : ∀ (rules : List Rule) (i : Nat) (fl : List Bool) (s : St),
    (∀ r ∈ rules, r.Idle) → fl.length = rules.length → runRules i rules fl s = (.normal, fl, s)
  | [], i, fl, s, _, hl => by
    cases fl with
    | nil => simp [runRules]
    | cons f fl => simp at hl
  | r :: rs, i, fl, s, hi, hl => by
    cases fl with
    | nil => simp at hl
    | cons f fl =>
      have hl' : fl.length = rs.length := by simpa using hl
      have ih := runRules_idle rs (i + 1) fl s (fun r' hr' => hi r' (List.mem_cons_of_mem _ hr')) hl'
      rcases hi r (List.mem_cons_self ..) with ⟨hp, hb⟩ | ⟨c, hp, hc⟩
      · unfold runRules
        simp [hp, hb, patSignal, matchPat, St.logVisit, execOps, ih]
      · unfold runRules
        simp [hp, hc, patSignal, matchPat, St.logVisit, PRes.sig?, PRes.toBool, ih]

/-- **idle rules are invisible**: the main loop with rules that do nothing is the main loop without rules -/
theorem mainLoop_idle : ∀ (fuel : Nat) (rules : List Rule) (fl : List Bool) (s : St),
    (∀ r ∈ rules, r.Idle) → fl.length = rules.length → mainLoop fuel rules fl s = mainLoop fuel [] [] s
  | 0, _, _, _, _, _ => by simp [mainLoop]
  | fuel + 1, rules, fl, s, hi, hl => by
    unfold mainLoop
    rcases hn : nextLine s with ⟨t, s1⟩
    cases t with
    | eof => rfl
    | err => rfl
    | got r =>
      simp only [runRules_idle rules 0 fl _ hi hl, runRules]
      exact mainLoop_idle fuel rules fl _ hi hl

/-- … at the level of the whole run, for a program with an END block (without END and without rules the input is not read at
all — `run` says so — while idle rules make the program read it: only the fatal error at a missing file can tell) -/
theorem run_idle (fuel : Nat) (b e : List Op) (rules : List Rule) (s : St) (hi : ∀ r ∈ rules, r.Idle) :
    run fuel ⟨b, rules, some e⟩ s = run fuel ⟨b, [], some e⟩ s := by
  have hm : ∀ sig s1, mainPhase fuel ⟨b, rules, some e⟩ sig s1 = mainPhase fuel ⟨b, [], some e⟩ sig s1 := by
    intro sig s1
    unfold mainPhase
    split
    · rfl
    · simpa using mainLoop_idle fuel rules (rules.map fun _ => false) s1 hi (by simp)
  unfold run
  rcases hb : execOps b s with ⟨sig, s1⟩
  cases sig <;> simp [hm, endPhase]

/-- **END-only programs: the record END finds is the last one taken, split as it was read.** When the main loop of a program
without rules ends normally, either no record was taken at all (`$0` and NF are what BEGIN left), or there is a LAST take: `r`,
taken from some state `s'`, and the look for a further record from there found the end of the input — and END's `$0` is `r`
and its NF is `r` split with the FS in force right after `r` was taken (`s1.fsep`: the assignments crossed on the way TO `r`
are in, those crossed on the way to the end of the input are not). -/
theorem end_only_last_record : ∀ (fuel : Nat) (s s2 : St), mainLoop fuel [] [] s = (.normal, s2) →
    nextLine s = (.eof, s2) ∨
    ∃ s' s1 r, nextLine s' = (.got r, s1) ∧ nextLine (s1.beginRecord r) = (.eof, s2) ∧ s2.line = r ∧ s2.nf = nfWith s1.fsep r
  | 0, s, s2, h => by simp [mainLoop] at h
  | fuel + 1, s, s2, h => by
    unfold mainLoop at h
    rcases hn : nextLine s with ⟨t, s1⟩
    rw [hn] at h
    cases t with
    | eof =>
      simp only at h
      cases h
      exact Or.inl rfl
    | err => simp at h
    | got r =>
      simp only [runRules] at h
      rcases end_only_last_record fuel _ s2 h with h1 | h1
      · refine Or.inr ⟨s, s1, r, hn, h1, ?_, ?_⟩
        · have := (next_line_keeps_record' (s1.beginRecord r))
          rw [h1] at this
          exact this.1
        · have := (next_line_keeps_record' (s1.beginRecord r))
          rw [h1] at this
          exact this.2
      · exact Or.inr h1
where
  next_line_keeps_record' (s : St) : (nextLine s).2.line = s.line ∧ (nextLine s).2.nf = s.nf := by
    obtain ⟨-, h2, h3⟩ := nextLine_frame2 s
    exact ⟨h3, by unfold St.nf; rw [h2, h3]⟩

/-- … and the same for every program whose rules are all idle -/
theorem idle_rules_last_record (fuel : Nat) (rules : List Rule) (s s2 : St) (hi : ∀ r ∈ rules, r.Idle)
    (h : mainLoop fuel rules (rules.map fun _ => false) s = (.normal, s2)) :
    nextLine s = (.eof, s2) ∨
    ∃ s' s1 r, nextLine s' = (.got r, s1) ∧ nextLine (s1.beginRecord r) = (.eof, s2) ∧ s2.line = r ∧ s2.nf = nfWith s1.fsep r := by
  rw [mainLoop_idle fuel rules _ s hi (by simp)] at h
  exact end_only_last_record fuel s s2 h

/-! ## resumed reading -/

/-- **the next take is the head of what is pending** — from ANY state, in particular the one an `exit` left: a successful
un-redirected getline delivers the first pending record under its FILENAME with its FNR; it returns 0 only when nothing is
pending; -1 (a missing file) skips that operand and loses no record. -/
theorem next_take_is_head_of_pending (s : St) :
    match (nextLine s).1 with
    | .got r => pending s = ((nextLine s).2.filename, (nextLine s).2.fnr, r) :: pending (nextLine s).2
    | .eof => pending s = []
    | .err => pending s = pending (nextLine s).2 := by
  obtain ⟨hp, -, -⟩ := nextLine_pending s
  rcases hn : nextLine s with ⟨t, s1⟩
  rw [hn] at hp
  cases t with
  | got r => simpa [delivered] using hp
  | eof =>
    have h1 := nextLine_eof_drained s s1 hn
    simpa [delivered, h1] using hp
  | err => simpa [delivered] using hp

/-- `exit` in a rule: at the moment the main loop is left, the records taken so far followed by what is pending are the whole
stream of the operand list — nothing is dropped, nothing is repeated (while the program has not edited ARGV / ARGC nor executed
nextfile). With `next_take_is_head_of_pending`: END's first getline continues with the record after the last one taken. -/
theorem pending_after_exit (full : List Item) (fuel : Nat) (rules : List Rule) (fl : List Bool) (s s2 : St)
    (h0 : StreamInv full s) (hm : mainLoop fuel rules fl s = (.exit, s2)) (he : s2.edited = false) :
    (s2.takes.map TakeInfo.item).reverse ++ pending s2 = full := by
  have h := mainLoop_preserves (streamInv_stable full) fuel rules fl s h0
  rw [hm] at h
  exact h he

/-- `exit` in BEGIN (after any number of getlines): the same -/
theorem pending_after_exit_in_begin (full : List Item) (ops : List Op) (s s1 : St)
    (h0 : StreamInv full s) (hb : execOps ops s = (.exit, s1)) (he : s1.edited = false) :
    (s1.takes.map TakeInfo.item).reverse ++ pending s1 = full := by
  have h := execOps_preserves (streamInv_stable full).toStableOps ops s h0
  rw [hb] at h
  exact h he

end GoawkModel.C11
