import GoawkModel.C13Csv
/-! Lemmas: the CSV reader `csvRead` undoes the CSV encoder `csvRecord` (raw newline mode, one-byte separator). -/
namespace GoawkModel.C13

theorem csvRead_quoted (c : UInt8) (f : Bytes) : ∀ (fld : Bytes) (rec : List Bytes) (recs : List (List Bytes)) (rest : Bytes),
    csvRead c (csvQuoteBody false f ++ 34 :: rest) .quoted fld rec recs = csvRead c rest .afterQuote (fld ++ f) rec recs := by
  induction f with
  | nil => intro fld rec recs rest; simp [csvQuoteBody, csvRead]
  | cons x f ih =>
    intro fld rec recs rest
    by_cases h : x = 34
    · subst h
      simp [csvQuoteBody, csvRead, ih]
    · by_cases h13 : x = 13
      · subst h13; simp [csvQuoteBody, csvRead, ih]
      · by_cases h10 : x = 10
        · subst h10; simp [csvQuoteBody, csvRead, ih]
        · simp [csvQuoteBody, csvRead, ih, h, h13, h10]

theorem csvRead_plain (c : UInt8) (f : Bytes) (hf : ∀ y ∈ f, y ≠ c ∧ y ≠ 10) :
    ∀ (fld : Bytes) (rec : List Bytes) (recs : List (List Bytes)) (rest : Bytes),
    csvRead c (f ++ rest) .plain fld rec recs = csvRead c rest .plain (fld ++ f) rec recs := by
  induction f with
  | nil => intro fld rec recs rest; simp
  | cons x f ih =>
    intro fld rec recs rest
    have hx := hf x (by simp)
    have ih' := ih (fun y hy => hf y (by simp [hy]))
    simp [csvRead, hx.1, hx.2, ih']

theorem hasSub_single (c : UInt8) (f : Bytes) : hasSub [c] f = f.any (fun y => c == y) := by
  induction f with
  | nil => simp [hasSub]
  | cons x f ih => simp [hasSub, ih, List.isPrefixOf]

/-- an unquoted field has no separator, quote, CR or LF in it -/
theorem unquoted_clean (c : UInt8) (f : Bytes) (h : csvNeedsQuotes [c] f = false) : ∀ y ∈ f, y ≠ c ∧ y ≠ 34 ∧ y ≠ 10 := by
  intro y hy
  have hne : f.isEmpty = false := by cases f with | nil => simp at hy | cons => rfl
  simp only [csvNeedsQuotes, hne, Bool.false_eq_true, if_false, Bool.or_eq_false_iff, hasSub_single] at h
  obtain ⟨⟨⟨_, h1⟩, h2⟩, _⟩ := h
  have h1' := (List.any_eq_false.mp h1) y hy
  have h2' := (List.any_eq_false.mp h2) y hy
  simp at h1' h2'
  exact ⟨fun e => h1' e.symm, h2'.1.1, h2'.2⟩

/-- reading one encoded field and the byte that ends it (the separator or LF) -/
theorem csvRead_field (c : UInt8) (hc : c ≠ 34 ∧ c ≠ 10) (f : Bytes) (rec : List Bytes) (recs : List (List Bytes)) (rest : Bytes) :
    csvRead c (csvField [c] false f ++ c :: rest) .fieldStart [] rec recs = csvRead c rest .fieldStart [] (rec ++ [f]) recs ∧
    csvRead c (csvField [c] false f ++ 10 :: rest) .fieldStart [] rec recs = csvRead c rest .fieldStart [] [] (recs ++ [rec ++ [f]]) := by
  have h10c : (10 : UInt8) ≠ c := fun e => hc.2 e.symm
  by_cases hq : csvNeedsQuotes [c] f = true
  · simp [csvField, hq, csvRead, csvRead_quoted, hc.1, h10c]
  · have hq' : csvNeedsQuotes [c] f = false := by simpa using hq
    have hcl := unquoted_clean c f hq'
    cases f with
    | nil => simp [csvField, hq', csvRead, hc.1, h10c]
    | cons x f =>
      have hx := hcl x (by simp)
      have hrest : ∀ y ∈ f, y ≠ c ∧ y ≠ 10 := fun y hy => let h := hcl y (by simp [hy]); ⟨h.1, h.2.2⟩
      simp [csvField, hq', csvRead, hx.1, hx.2.1, hx.2.2, csvRead_plain c f hrest, h10c]

theorem csvRead_join (c : UInt8) (hc : c ≠ 34 ∧ c ≠ 10) (r : List Bytes) (hr : r ≠ []) :
    ∀ (rec : List Bytes) (recs : List (List Bytes)) (rest : Bytes),
    csvRead c (csvJoin [c] (r.map (csvField [c] false)) ++ 10 :: rest) .fieldStart [] rec recs =
      csvRead c rest .fieldStart [] [] (recs ++ [rec ++ r]) := by
  induction r with
  | nil => exact absurd rfl hr
  | cons a r ih =>
    intro rec recs rest
    cases r with
    | nil => simpa [csvJoin] using (csvRead_field c hc a rec recs rest).2
    | cons b r =>
      have := ih (by simp) (rec ++ [a]) recs rest
      simp only [List.map_cons, csvJoin, List.append_assoc, List.cons_append, List.nil_append] at this ⊢
      rw [(csvRead_field c hc a rec recs _).1, this]

theorem csvRead_record (c : UInt8) (hc : c ≠ 34 ∧ c ≠ 10) (r : List Bytes) (hr : r ≠ []) (recs : List (List Bytes)) (rest : Bytes) :
    csvRead c (csvRecord [c] false r ++ rest) .fieldStart [] [] recs = csvRead c rest .fieldStart [] [] (recs ++ [r]) := by
  by_cases h1 : r = [[]]
  · subst h1
    have h10c : (10 : UInt8) ≠ c := fun e => hc.2 e.symm
    simp [csvRecord, csvEol, csvRead, h10c]
  · have : (r == [[]]) = false := by simpa using h1
    simp only [csvRecord, this, csvEol, Bool.false_eq_true, if_false, List.append_assoc, List.singleton_append]
    simpa using csvRead_join c hc r hr [] recs rest

theorem csvRead_records (c : UInt8) (hc : c ≠ 34 ∧ c ≠ 10) (rs : List (List Bytes)) (hrs : ∀ r ∈ rs, r ≠ []) :
    ∀ recs, csvRead c (rs.map (csvRecord [c] false)).flatten .fieldStart [] [] recs = some (recs ++ rs) := by
  induction rs with
  | nil => intro recs; simp [csvRead]
  | cons r rs ih =>
    intro recs
    simp only [List.map_cons, List.flatten_cons]
    rw [csvRead_record c hc r (hrs r (by simp)), ih (fun r' h => hrs r' (by simp [h]))]
    simp

end GoawkModel.C13
