import Proofs.C11Lift
import Proofs.C11Input
/-!
The main input as a declarative stream: which records the operand list delivers, in which order, with which FILENAME and
FNR (`streamSpec`); and the theorem that whatever takes records from the main input — the main loop, `getline`,
`getline var`, in any interleaving — receives exactly that stream, as long as the program has not edited ARGV / ARGC or
executed nextfile (`StreamInv`, `streamInv_stable`).
-/
namespace GoawkModel.C11

/-- (FILENAME, FNR, record) -/
abbrev Item := Bytes × Nat × Rec

def TakeInfo.item (t : TakeInfo) : Item := (t.filename, t.fnr, t.record)

/-- the records of one input, numbered from `k + 1` -/
def numbered (fn : Bytes) : Nat → List Rec → List Item
  | _, [] => []
  | k, r :: rs => (fn, k + 1, r) :: numbered fn (k + 1) rs

/-- **The specification.** Operands are taken left to right; an assignment or an empty operand delivers nothing; `-` delivers
what is left of stdin; a file delivers its records numbered from 1 under its own name; a missing file delivers nothing (and is a
fatal error for the main loop, -1 for getline); when no operand named an input, stdin is read once at the end. -/
def streamSpec (fs : List (Bytes × List Rec)) : List Bytes → Bool → List Rec → List Item
  | [], had, stdin => if had then [] else numbered [45] 0 stdin
  | o :: os, had, stdin =>
    match classify o with
    | .assign _ _ => streamSpec fs os had stdin
    | .empty => streamSpec fs os had stdin
    | .dash => numbered [45] 0 stdin ++ streamSpec fs os true []
    | .file n =>
      match lookup n fs with
      | none => streamSpec fs os had stdin
      | some rs => numbered n 0 rs ++ streamSpec fs os true stdin

/-- ARGV[i], ARGV[i+1], … (`n` of them; unset elements read as "") -/
def operandsFrom (argv : List Bytes) : Nat → Nat → List Bytes
  | _, 0 => []
  | i, n + 1 => argv.getD i [] :: operandsFrom argv (i + 1) n

/-- the operands not yet fetched -/
def remaining (s : St) : List Bytes := operandsFrom s.argv s.idx (s.argc - s.idx)

/-- everything the main input will still deliver from state `s` -/
def pending (s : St) : List Item :=
  (match s.cur with
   | some rs => numbered s.filename s.fnr rs
   | none => []) ++ streamSpec s.fs (remaining s) s.hadFiles s.stdin

def delivered : Take → St → List Item
  | .got r, s1 => [(s1.filename, s1.fnr, r)]
  | _, _ => []

theorem setVarByName_fields2 (s : St) (n v : Bytes) :
    (s.setVarByName n v).fs = s.fs ∧ (s.setVarByName n v).argv = s.argv ∧ (s.setVarByName n v).argc = s.argc ∧
    (s.setVarByName n v).idx = s.idx ∧ (s.setVarByName n v).hadFiles = s.hadFiles ∧ (s.setVarByName n v).stdin = s.stdin ∧
    (s.setVarByName n v).cur = s.cur ∧ (s.setVarByName n v).takes = s.takes ∧ (s.setVarByName n v).edited = s.edited ∧
    (s.setVarByName n v).walkEdited = s.walkEdited ∧ (s.setVarByName n v).fnr = s.fnr := by
  unfold St.setVarByName
  split
  · simp
  · split
    · simp
    · split <;> simp

/-- one operand walk: what it delivers plus what is pending afterwards is what was pending before; the take log grows by
exactly what was delivered; the `edited` flag is untouched -/
theorem openWalk_pending : ∀ (n : Nat) (s : St), s.cur = none → n = s.argc - s.idx →
    streamSpec s.fs (remaining s) s.hadFiles s.stdin =
      delivered (openWalk n s).1 (openWalk n s).2 ++ pending (openWalk n s).2 ∧
    (openWalk n s).2.takes.map TakeInfo.item = delivered (openWalk n s).1 (openWalk n s).2 ++ s.takes.map TakeInfo.item ∧
    (openWalk n s).2.edited = s.edited
  | 0, s, hc, hn => by
    have hrem : remaining s = [] := by simp [remaining, ← hn, operandsFrom]
    unfold openWalk
    split
    · rename_i hh
      simp [delivered, pending, hc, hrem, streamSpec, hh]
    · rename_i hh
      split
      · rename_i hs
        simp [delivered, pending, streamSpec, hh, hs, numbered, St.setFile, remaining, ← hn, operandsFrom]
      · rename_i r rs hs
        simp [delivered, pending, streamSpec, hh, hs, numbered, St.setFile, St.took, remaining, ← hn, operandsFrom,
          TakeInfo.item]
  | n + 1, s, hc, hn => by
    have hrem : remaining s = s.argv.getD s.idx [] :: operandsFrom s.argv (s.idx + 1) n := by
      simp [remaining, ← hn, operandsFrom]
    have hn' : n = s.argc - (s.idx + 1) := by omega
    have ih := openWalk_pending n
    unfold openWalk
    simp only [St.fetch]
    rw [hrem]
    unfold streamSpec
    split
    · rename_i name val hcl
      have h := ih (St.setVarByName s.fetch.2 name val)
        (by simp [setVarByName_fields2, St.fetch, hc]) (by simp [setVarByName_fields2, St.fetch]; exact hn')
      simp only [hcl]
      simpa [remaining, setVarByName_fields2, St.fetch, ← hn'] using h
    · rename_i hcl
      have h := ih s.fetch.2 (by simpa [St.fetch] using hc) (by simpa [St.fetch] using hn')
      simp only [hcl]
      simpa [remaining, St.fetch, ← hn'] using h
    · rename_i hcl
      simp only [hcl]
      split
      · rename_i hs
        have h := ih { (St.setFile s.fetch.2 [45] true s.stdin)
          with stdin := [], cur := none } rfl (by simpa [St.setFile, St.fetch] using hn')
        simpa [remaining, St.fetch, ← hn', St.setFile, hs, numbered] using h
      · rename_i r rs hs
        simp [delivered, pending, hs, numbered, St.setFile, St.took, remaining, ← hn', TakeInfo.item]
    · rename_i name hcl
      simp only [hcl]
      cases hl : lookup name s.fs with
      | none => simp [delivered, pending, hc, remaining, ← hn']
      | some rs0 =>
        cases rs0 with
        | nil =>
          have h := ih { (St.setFile s.fetch.2 name false [])
            with cur := none } rfl (by simpa [St.setFile, St.fetch] using hn')
          simpa [remaining, St.fetch, ← hn', St.setFile, numbered] using h
        | cons r rs =>
          simp [delivered, pending, numbered, St.setFile, St.took, remaining, ← hn', TakeInfo.item]

/-- `nextLine`: the same statement, from any state -/
theorem nextLine_pending (s : St) :
    pending s = delivered (nextLine s).1 (nextLine s).2 ++ pending (nextLine s).2 ∧
    (nextLine s).2.takes.map TakeInfo.item = delivered (nextLine s).1 (nextLine s).2 ++ s.takes.map TakeInfo.item ∧
    (nextLine s).2.edited = s.edited := by
  unfold nextLine
  split
  · rename_i r rs hc
    simp [pending, hc, delivered, St.took, numbered, remaining, TakeInfo.item]
  · rename_i hc
    have h := openWalk_pending (s.argc - s.idx) { s with cur := none } rfl rfl
    have hp : pending s = streamSpec s.fs (remaining s) s.hadFiles s.stdin := by
      unfold pending
      cases hcur : s.cur with
      | none => simp
      | some rs =>
        cases rs with
        | nil => simp [numbered]
        | cons r rs => exact absurd hcur (hc r rs)
    rw [hp]
    simpa [remaining] using h

/-- while the program has not edited ARGV / ARGC nor executed nextfile: the records taken so far (oldest first), followed by
what is still pending, are the fixed stream `full` -/
def StreamInv (full : List Item) (s : St) : Prop :=
  s.edited = false → (s.takes.map TakeInfo.item).reverse ++ pending s = full

theorem streamInv_of_same {full : List Item} {s s1 : St} (h : StreamInv full s) (he : s1.edited = s.edited)
    (ht : s1.takes = s.takes) (hp : pending s1 = pending s) : StreamInv full s1 := by
  intro h1
  rw [ht, hp]
  exact h (by rw [← he]; exact h1)

theorem delivered_reverse (t : Take) (s : St) : (delivered t s).reverse = delivered t s := by
  cases t <;> simp [delivered]

theorem streamInv_nextLine {full : List Item} {s : St} (h : StreamInv full s) : StreamInv full (nextLine s).2 := by
  intro h1
  obtain ⟨hp, ht, he⟩ := nextLine_pending s
  rw [he] at h1
  rw [ht, List.reverse_append, delivered_reverse, List.append_assoc, ← hp]
  exact h h1

theorem streamInv_edited {full : List Item} {s : St} (he : s.edited = true) : StreamInv full s := by
  intro h1
  rw [he] at h1
  cases h1

theorem streamInv_stable (full : List Item) : Stable (StreamInv full) where
  emit s tag h := streamInv_of_same h rfl rfl rfl
  ev s e _ h := streamInv_of_same h rfl rfl rfl
  exitSome s n h := streamInv_of_same h rfl rfl rfl
  gl s h := by
    have h1 := streamInv_nextLine h
    unfold doGetline
    rcases hn : nextLine s with ⟨t, s1⟩
    rw [hn] at h1
    cases t <;> exact streamInv_of_same h1 rfl rfl rfl
  glv s v h := by
    have h1 := streamInv_nextLine h
    unfold doGetlineVar
    rcases hn : nextLine s with ⟨t, s1⟩
    rw [hn] at h1
    cases t <;> exact streamInv_of_same h1 rfl rfl rfl
  glf s f h := by
    unfold doGetlineFile readStream
    cases lookup f s.streams with
    | some rs => cases rs <;> exact streamInv_of_same h rfl rfl rfl
    | none =>
      cases lookup f s.fs with
      | none => exact streamInv_of_same h rfl rfl rfl
      | some rs => cases rs <;> exact streamInv_of_same h rfl rfl rfl
  glvf s v f h := by
    unfold doGetlineVarFile readStream
    cases lookup f s.streams with
    | some rs => cases rs <;> exact streamInv_of_same h rfl rfl rfl
    | none =>
      cases lookup f s.fs with
      | none => exact streamInv_of_same h rfl rfl rfl
      | some rs => cases rs <;> exact streamInv_of_same h rfl rfl rfl
  argv s i v _ := streamInv_edited rfl
  argc s n _ := streamInv_edited rfl
  close s f h := streamInv_of_same h rfl rfl rfl
  fname s v _ := streamInv_edited rfl
  fsep s v h := streamInv_of_same h rfl rfl rfl
  enter s h := streamInv_of_same h rfl rfl rfl
  leave s h := streamInv_of_same h rfl rfl rfl
  take s r s1 h hn := by
    have h1 := streamInv_nextLine h
    rw [hn] at h1
    exact streamInv_of_same h1 rfl rfl rfl
  eof s s1 h hn := by
    have h1 := streamInv_nextLine h
    rw [hn] at h1
    exact h1
  err s s1 h hn := by
    have h1 := streamInv_nextLine h
    rw [hn] at h1
    exact h1
  nextfile s _ := streamInv_edited rfl
  visit s v h := streamInv_of_same h rfl rfl rfl

/-- when the operand walk reports end of input, nothing is pending any more -/
theorem openWalk_eof : ∀ (n : Nat) (s : St), s.cur = none → n = s.argc - s.idx →
    (openWalk n s).1 = .eof → pending (openWalk n s).2 = []
  | 0, s, hc, hn => by
    have hrem : remaining s = [] := by simp [remaining, ← hn, operandsFrom]
    unfold openWalk
    split
    · rename_i hh
      intro _
      simp [pending, hc, hrem, streamSpec, hh]
    · split
      · intro _
        simp [pending, streamSpec, St.setFile, remaining, ← hn, operandsFrom]
      · intro h; cases h
  | n + 1, s, hc, hn => by
    have hn' : n = s.argc - (s.idx + 1) := by omega
    have ih := openWalk_eof n
    unfold openWalk
    simp only [St.fetch]
    split
    · rename_i name val _
      exact ih _ (by simp [setVarByName_fields2, St.fetch, hc]) (by simp [setVarByName_fields2, St.fetch]; exact hn')
    · exact ih _ (by simpa [St.fetch] using hc) (by simpa [St.fetch] using hn')
    · split
      · exact ih _ rfl (by simpa [St.setFile, St.fetch] using hn')
      · intro h; cases h
    · split
      · intro h; cases h
      · exact ih _ rfl (by simpa [St.setFile, St.fetch] using hn')
      · intro h; cases h

theorem nextLine_eof_drained (s s1 : St) (h : nextLine s = (.eof, s1)) : pending s1 = [] := by
  unfold nextLine at h
  split at h
  · cases h
  · have h1 := openWalk_eof (s.argc - s.idx) { s with cur := none } rfl rfl (by rw [h])
    rw [h] at h1
    exact h1

/-- the main loop ends normally only by reading the main input to its end -/
theorem mainLoop_normal_drained : ∀ (fuel : Nat) (rules : List Rule) (fl : List Bool) (s : St),
    (mainLoop fuel rules fl s).1 = .normal → pending (mainLoop fuel rules fl s).2 = []
  | 0, _, _, s => by simp [mainLoop]
  | fuel + 1, rules, fl, s => by
    unfold mainLoop
    rcases hn : nextLine s with ⟨t, s1⟩
    cases t with
    | eof => intro _; exact nextLine_eof_drained s s1 hn
    | err => intro h; cases h
    | got r =>
      simp only
      rcases hr : runRules 0 rules fl (s1.beginRecord r) with ⟨sig, fl', s3⟩
      cases sig
      · exact mainLoop_normal_drained fuel rules fl' s3
      · exact mainLoop_normal_drained fuel rules fl' s3
      · exact mainLoop_normal_drained fuel rules fl' s3.dropScanner
      · intro h; cases h
      · intro h; cases h

end GoawkModel.C11
