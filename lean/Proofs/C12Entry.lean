import GoawkModel.C12Entry
/-! Helper lemmas for C12's entry-point clause: `runOps` against `trace`, and what `executeAll` reports. -/
namespace GoawkModel.C12

theorem firstErr_none_iff (g : List Effect) : firstErr g = none ↔ g.any Effect.isError = false := by
  induction g with
  | nil => simp [firstErr]
  | cons e es ih =>
    cases e <;> simp [firstErr, Effect.isError, ih]

theorem firstErr_some_any {g : List Effect} {e : Err} (h : firstErr g = some e) : g.any Effect.isError = true := by
  cases hh : g.any Effect.isError
  · rw [(firstErr_none_iff g).mpr hh] at h; cases h
  · rfl

/-- the groups `runOps` yields are `trace`'s -/
theorem runOps_groups (f : Flags) (s : St) (ops : List IoOp) : (runOps f s ops).1 = trace f s ops := by
  induction ops generalizing s with
  | nil => simp [runOps, trace]
  | cons op ops ih =>
    simp only [runOps, trace]
    cases h : firstErr (step f s op).1 with
    | some e => simp [firstErr_some_any h]
    | none => simp [(firstErr_none_iff _).mp h, ih]

/-- a list that stopped early has an error in its last group; one that did not has none anywhere -/
theorem runOps_err_iff (f : Flags) (s : St) (ops : List IoOp) :
    (runOps f s ops).2.2 = none ↔ ∀ g ∈ (runOps f s ops).1, g.any Effect.isError = false := by
  induction ops generalizing s with
  | nil => simp [runOps]
  | cons op ops ih =>
    simp only [runOps]
    cases h : firstErr (step f s op).1 with
    | some e =>
      have := firstErr_some_any h
      simp only [List.mem_singleton, forall_eq, this]
      simp
    | none =>
      have h0 := (firstErr_none_iff _).mp h
      simp only [List.mem_cons, forall_eq_or_imp, h0, true_and]
      exact ih _

/-- `trace` over a concatenation: the second part runs only if the first did not stop, from the state the first left -/
theorem trace_append (f : Flags) (s : St) (a b : List IoOp) :
    trace f s (a ++ b) =
      match (runOps f s a).2.2 with
      | some _ => (runOps f s a).1
      | none => (runOps f s a).1 ++ trace f (runOps f s a).2.1 b := by
  induction a generalizing s with
  | nil => simp [runOps]
  | cons op ops ih =>
    simp only [List.cons_append, trace, runOps]
    cases h : firstErr (step f s op).1 with
    | some e => simp [firstErr_some_any h]
    | none =>
      simp only [(firstErr_none_iff _).mp h, ih]
      cases (runOps f (step f s op).2 ops).2.2 <;> simp

end GoawkModel.C12
