import GoawkModel.C09
import GoawkModel.C09Chars
/-! C09, character mode: `runeSize` (the model of `utf8.DecodeRuneInString`'s width, used by `%c` in character mode) against the
declarative table `wellFormedSeq`. -/
namespace GoawkModel.C09
open GoawkModel

/-- byte-range reasoning: everything to `Nat`, then `omega` -/
macro "u8" : tactic => `(tactic| (simp only [inR, isCont, UInt8.le_iff_toNat_le, UInt8.lt_iff_toNat_lt, ← UInt8.toNat_inj, Bool.and_eq_true, Bool.or_eq_true, Bool.and_eq_false_iff, Bool.or_eq_false_iff, decide_eq_true_eq, decide_eq_false_iff_not, beq_iff_eq] at * <;> simp at * <;> omega))

theorem runeSize_wf1 (b0 : UInt8) (rest : Bytes) (h : wellFormedSeq [b0] = true) : runeSize (b0 :: rest) = 1 := by
  have n0 : b0 < 0x80 := by simp [wellFormedSeq] at h; u8
  simp [runeSize, n0]

theorem runeSize_wf2 (b0 b1 : UInt8) (rest : Bytes) (h : wellFormedSeq [b0, b1] = true) : runeSize (b0 :: b1 :: rest) = 2 := by
  have n0 : ¬ b0 < 0x80 := by simp [wellFormedSeq] at h; u8
  have c0 : (0xC2 : UInt8) ≤ b0 ∧ b0 ≤ 0xDF := by simp [wellFormedSeq] at h; u8
  have c1 : (0x80 : UInt8) ≤ b1 ∧ b1 ≤ 0xBF := by simp [wellFormedSeq] at h; u8
  simp [runeSize, isCont, n0, c0, c1]

theorem runeSize_wf3 (b0 b1 b2 : UInt8) (rest : Bytes) (h : wellFormedSeq [b0, b1, b2] = true) : runeSize (b0 :: b1 :: b2 :: rest) = 3 := by
  have n0 : ¬ b0 < 0x80 := by simp [wellFormedSeq] at h; u8
  have n1 : ¬ ((0xC2 : UInt8) ≤ b0 ∧ b0 ≤ 0xDF) := by simp [wellFormedSeq] at h; u8
  have c0 : (0xE0 : UInt8) ≤ b0 ∧ b0 ≤ 0xEF := by simp [wellFormedSeq] at h; u8
  have c2 : (0x80 : UInt8) ≤ b2 ∧ b2 ≤ 0xBF := by simp [wellFormedSeq] at h; u8
  by_cases e0 : b0 = 0xE0
  · have c1 : (0xA0 : UInt8) ≤ b1 ∧ b1 ≤ 0xBF := by subst e0; simp [wellFormedSeq] at h; u8
    subst e0
    simp [runeSize, isCont, c1, c2]
  · by_cases ed : b0 = 0xED
    · have c1 : (0x80 : UInt8) ≤ b1 ∧ b1 ≤ 0x9F := by subst ed; simp [wellFormedSeq] at h; u8
      subst ed
      simp [runeSize, isCont, c1, c2]
    · have c1 : (0x80 : UInt8) ≤ b1 ∧ b1 ≤ 0xBF := by simp [wellFormedSeq] at h; u8
      simp [runeSize, isCont, n0, n1, c0, c1, c2, e0, ed]

theorem runeSize_wf4 (b0 b1 b2 b3 : UInt8) (rest : Bytes) (h : wellFormedSeq [b0, b1, b2, b3] = true) :
    runeSize (b0 :: b1 :: b2 :: b3 :: rest) = 4 := by
  have n0 : ¬ b0 < 0x80 := by simp [wellFormedSeq] at h; u8
  have n1 : ¬ ((0xC2 : UInt8) ≤ b0 ∧ b0 ≤ 0xDF) := by simp [wellFormedSeq] at h; u8
  have n2 : ¬ ((0xE0 : UInt8) ≤ b0 ∧ b0 ≤ 0xEF) := by simp [wellFormedSeq] at h; u8
  have c0 : (0xF0 : UInt8) ≤ b0 ∧ b0 ≤ 0xF4 := by simp [wellFormedSeq] at h; u8
  have c2 : (0x80 : UInt8) ≤ b2 ∧ b2 ≤ 0xBF := by simp [wellFormedSeq] at h; u8
  have c3 : (0x80 : UInt8) ≤ b3 ∧ b3 ≤ 0xBF := by simp [wellFormedSeq] at h; u8
  by_cases e0 : b0 = 0xF0
  · have c1 : (0x90 : UInt8) ≤ b1 ∧ b1 ≤ 0xBF := by subst e0; simp [wellFormedSeq] at h; u8
    subst e0
    simp [runeSize, isCont, c1, c2, c3]
  · by_cases e4 : b0 = 0xF4
    · have c1 : (0x80 : UInt8) ≤ b1 ∧ b1 ≤ 0x8F := by subst e4; simp [wellFormedSeq] at h; u8
      subst e4
      simp [runeSize, isCont, c1, c2, c3]
    · have c1 : (0x80 : UInt8) ≤ b1 ∧ b1 ≤ 0xBF := by simp [wellFormedSeq] at h; u8
      simp [runeSize, isCont, n0, n1, n2, c0, c1, c2, c3, e0, e4]

/-- a well-formed sequence at the start of a string is exactly what `runeSize` measures -/
theorem runeSize_of_wellFormed (p rest : Bytes) (h : wellFormedSeq p = true) : runeSize (p ++ rest) = p.length := by
  match p, h with
  | [b0], h => exact runeSize_wf1 b0 rest h
  | [b0, b1], h => exact runeSize_wf2 b0 b1 rest h
  | [b0, b1, b2], h => exact runeSize_wf3 b0 b1 b2 rest h
  | [b0, b1, b2, b3], h => exact runeSize_wf4 b0 b1 b2 b3 rest h
  | [], h => simp [wellFormedSeq] at h
  | _ :: _ :: _ :: _ :: _ :: _, h => simp [wellFormedSeq] at h

/-! ### no well-formed prefix: `runeSize` is 1 -/

macro "illfin" : tactic => `(tactic| (intros; repeat' split) <;> first | rfl | (exfalso; u8) | u8)
macro "illtac" b0:ident : tactic => `(tactic|
  (by_cases e0 : $b0 = 0xE0
   · subst e0; simp [runeSize, isCont] <;> illfin
   · by_cases ed : $b0 = 0xED
     · subst ed; simp [runeSize, isCont] <;> illfin
     · by_cases f0 : $b0 = 0xF0
       · subst f0; simp [runeSize, isCont] <;> illfin
       · by_cases f4 : $b0 = 0xF4
         · subst f4; simp [runeSize, isCont] <;> illfin
         · simp [runeSize, isCont, e0, ed, f0, f4] <;> illfin))

theorem runeSize_ill4 (b0 b1 b2 b3 : UInt8) (r : Bytes)
    (h1 : wellFormedSeq [b0] = false) (h2 : wellFormedSeq [b0, b1] = false) (h3 : wellFormedSeq [b0, b1, b2] = false)
    (h4 : wellFormedSeq [b0, b1, b2, b3] = false) : runeSize (b0 :: b1 :: b2 :: b3 :: r) = 1 := by
  simp only [wellFormedSeq] at h1 h2 h3 h4
  illtac b0

theorem runeSize_ill3 (b0 b1 b2 : UInt8)
    (h1 : wellFormedSeq [b0] = false) (h2 : wellFormedSeq [b0, b1] = false) (h3 : wellFormedSeq [b0, b1, b2] = false) :
    runeSize [b0, b1, b2] = 1 := by
  simp only [wellFormedSeq] at h1 h2 h3
  illtac b0

theorem runeSize_ill2 (b0 b1 : UInt8) (h1 : wellFormedSeq [b0] = false) (h2 : wellFormedSeq [b0, b1] = false) : runeSize [b0, b1] = 1 := by
  simp only [wellFormedSeq] at h1 h2
  illtac b0

theorem runeSize_ill1 (b0 : UInt8) (h1 : wellFormedSeq [b0] = false) : runeSize [b0] = 1 := by
  simp only [wellFormedSeq] at h1
  illtac b0

/-- a non-empty string none of whose prefixes is a well-formed sequence: `runeSize` takes its first byte alone -/
theorem runeSize_of_illFormed (b0 : UInt8) (rest : Bytes) (h : ∀ k, wellFormedSeq ((b0 :: rest).take k) = false) :
    runeSize (b0 :: rest) = 1 := by
  have h1 := h 1
  have h2 := h 2
  have h3 := h 3
  have h4 := h 4
  match rest, h1, h2, h3, h4 with
  | [], h1, _, _, _ => exact runeSize_ill1 b0 (by simpa using h1)
  | [b1], h1, h2, _, _ => exact runeSize_ill2 b0 b1 (by simpa using h1) (by simpa using h2)
  | [b1, b2], h1, h2, h3, _ => exact runeSize_ill3 b0 b1 b2 (by simpa using h1) (by simpa using h2) (by simpa using h3)
  | b1 :: b2 :: b3 :: r, h1, h2, h3, h4 =>
    exact runeSize_ill4 b0 b1 b2 b3 r (by simpa using h1) (by simpa using h2) (by simpa using h3) (by simpa using h4)

/-- **`runeSize` is the first character**: the bytes it takes are the well-formed sequence the string starts with, or the
single first byte of a string that starts with none -/
theorem take_runeSize_isFirstChar (b0 : UInt8) (rest : Bytes) :
    IsFirstChar (b0 :: rest) ((b0 :: rest).take (runeSize (b0 :: rest))) := by
  by_cases hex : ∃ k, wellFormedSeq ((b0 :: rest).take k) = true
  · obtain ⟨k, hk⟩ := hex
    left
    have hsplit : (b0 :: rest) = (b0 :: rest).take k ++ (b0 :: rest).drop k := (List.take_append_drop k _).symm
    have hsz : runeSize (b0 :: rest) = ((b0 :: rest).take k).length := by
      have := runeSize_of_wellFormed ((b0 :: rest).take k) ((b0 :: rest).drop k) hk
      rwa [← hsplit] at this
    have htake : (b0 :: rest).take (runeSize (b0 :: rest)) = (b0 :: rest).take k := by
      rw [hsz, List.length_take]
      by_cases hle : k ≤ (b0 :: rest).length
      · rw [Nat.min_eq_left hle]
      · have hge : (b0 :: rest).length ≤ k := by omega
        rw [Nat.min_eq_right hge, List.take_length, List.take_of_length_le hge]
    refine ⟨(b0 :: rest).drop k, ?_, ?_⟩
    · rw [htake]; exact hsplit
    · rw [htake]; exact hk
  · right
    have hno : ∀ k, wellFormedSeq ((b0 :: rest).take k) = false := by
      intro k
      cases hw : wellFormedSeq ((b0 :: rest).take k) with
      | false => rfl
      | true => exact absurd ⟨k, hw⟩ hex
    refine ⟨b0, rest, rfl, ?_, ?_⟩
    · rw [runeSize_of_illFormed b0 rest hno]; rfl
    · intro p q hpq
      have : p = (b0 :: rest).take p.length := by rw [hpq]; simp
      rw [this]; exact hno p.length

theorem runeSize_pos (b0 : UInt8) (rest : Bytes) : 1 ≤ runeSize (b0 :: rest) := by
  have hlen : ((b0 :: rest).take (runeSize (b0 :: rest))).length ≤ runeSize (b0 :: rest) := by
    rw [List.length_take]; exact Nat.min_le_left _ _
  rcases take_runeSize_isFirstChar b0 rest with ⟨r, _, hw⟩ | ⟨b, r, _, hc, _⟩
  · cases hc : (b0 :: rest).take (runeSize (b0 :: rest)) with
    | nil => rw [hc] at hw; simp [wellFormedSeq] at hw
    | cons x xs => rw [hc] at hlen; simp at hlen; omega
  · rw [hc] at hlen; simpa using hlen

/-! ### the characters of a string: `fmt`'s rune counting and truncation stated on `charsOf` -/

theorem charsOfAux_cons (fuel : Nat) (b0 : UInt8) (rest : Bytes) :
    charsOfAux (fuel + 1) (b0 :: rest) =
      (b0 :: rest).take (runeSize (b0 :: rest)) :: charsOfAux fuel ((b0 :: rest).drop (runeSize (b0 :: rest))) := by
  simp [charsOfAux]

theorem drop_runeSize_length (b0 : UInt8) (rest : Bytes) :
    ((b0 :: rest).drop (runeSize (b0 :: rest))).length ≤ rest.length := by
  have := runeSize_pos b0 rest
  simp only [List.length_drop, List.length_cons]; omega

/-- fuel beyond the length changes nothing -/
theorem charsOfAux_fuel : ∀ (fuel : Nat) (b : Bytes), b.length ≤ fuel → charsOfAux fuel b = charsOf b := by
  have key : ∀ (n : Nat) (b : Bytes) (f1 f2 : Nat), b.length ≤ n → n ≤ f1 → n ≤ f2 → charsOfAux f1 b = charsOfAux f2 b := by
    intro n
    induction n with
    | zero =>
      intro b f1 f2 hb _ _
      have : b = [] := List.eq_nil_of_length_eq_zero (by omega)
      subst this
      cases f1 <;> cases f2 <;> simp [charsOfAux]
    | succ n ih =>
      intro b f1 f2 hb h1 h2
      cases b with
      | nil => cases f1 <;> cases f2 <;> simp [charsOfAux]
      | cons b0 rest =>
        obtain ⟨g1, rfl⟩ : ∃ g, f1 = g + 1 := ⟨f1 - 1, by omega⟩
        obtain ⟨g2, rfl⟩ : ∃ g, f2 = g + 1 := ⟨f2 - 1, by omega⟩
        rw [charsOfAux_cons, charsOfAux_cons]
        have hl := drop_runeSize_length b0 rest
        simp only [List.length_cons] at hb
        rw [ih _ g1 g2 (by omega) (by omega) (by omega)]
  intro fuel b h
  exact key b.length b fuel b.length (Nat.le_refl _) h (Nat.le_refl _)

theorem charsOf_nil : charsOf [] = [] := by simp [charsOf, charsOfAux]

theorem charsOf_cons (b0 : UInt8) (rest : Bytes) :
    charsOf (b0 :: rest) = (b0 :: rest).take (runeSize (b0 :: rest)) :: charsOf ((b0 :: rest).drop (runeSize (b0 :: rest))) := by
  have hl := drop_runeSize_length b0 rest
  rw [charsOf, List.length_cons, charsOfAux_cons, charsOfAux_fuel _ _ hl]

theorem runeCountAux_eq : ∀ (fuel : Nat) (b : Bytes), runeCountAux fuel b = (charsOfAux fuel b).length := by
  intro fuel
  induction fuel with
  | zero => intro b; simp [runeCountAux, charsOfAux]
  | succ f ih =>
    intro b
    cases b with
    | nil => simp [runeCountAux, charsOfAux]
    | cons b0 rest => simp only [runeCountAux, charsOfAux_cons, List.length_cons, ih]; omega

/-- Go's rune count is the number of characters -/
theorem runeCount_eq_chars (b : Bytes) : runeCount b = (charsOf b).length := runeCountAux_eq _ _

theorem truncRunesAux_eq : ∀ (fuel n : Nat) (b : Bytes), truncRunesAux fuel n b = ((charsOfAux fuel b).take n).flatten := by
  intro fuel
  induction fuel with
  | zero => intro n b; simp [truncRunesAux, charsOfAux]
  | succ f ih =>
    intro n b
    cases n with
    | zero => simp [truncRunesAux]
    | succ n =>
      cases b with
      | nil => simp [truncRunesAux, charsOfAux]
      | cons b0 rest => simp only [truncRunesAux, charsOfAux_cons, List.take_succ_cons, List.flatten_cons, ih]

/-- `fmt`'s precision keeps the first `n` characters -/
theorem truncRunes_eq_chars (n : Nat) (b : Bytes) : truncRunes n b = ((charsOf b).take n).flatten := truncRunesAux_eq _ _ _

/-- the characters of a string, concatenated, are the string -/
theorem charsOf_flatten : ∀ (n : Nat) (b : Bytes), b.length ≤ n → (charsOf b).flatten = b := by
  intro n
  induction n with
  | zero => intro b hb; have : b = [] := List.eq_nil_of_length_eq_zero (by omega); subst this; simp [charsOf_nil]
  | succ n ih =>
    intro b hb
    cases b with
    | nil => simp [charsOf_nil]
    | cons b0 rest =>
      have hl := drop_runeSize_length b0 rest
      simp only [List.length_cons] at hb
      rw [charsOf_cons, List.flatten_cons, ih _ (by omega), List.take_append_drop]

theorem runeSize_le_length (b0 : UInt8) (rest : Bytes) : runeSize (b0 :: rest) ≤ (b0 :: rest).length := by
  rcases take_runeSize_isFirstChar b0 rest with ⟨r, hs, hw⟩ | ⟨b, r, hs, hc, hno⟩
  · have h := runeSize_of_wellFormed _ r hw
    rw [← hs] at h
    rw [List.length_take] at h
    omega
  · have hno' : ∀ k, wellFormedSeq ((b0 :: rest).take k) = false := fun k => hno _ _ (List.take_append_drop k _).symm
    rw [runeSize_of_illFormed b0 rest hno']; simp

/-- `runeSize` looks only at the character it takes: what follows may be cut anywhere -/
theorem runeSize_local (b0 : UInt8) (rest X Y : Bytes)
    (hXY : (b0 :: rest).drop (runeSize (b0 :: rest)) = X ++ Y) :
    runeSize ((b0 :: rest).take (runeSize (b0 :: rest)) ++ X) = runeSize (b0 :: rest) := by
  rcases take_runeSize_isFirstChar b0 rest with ⟨r, hs, hw⟩ | ⟨b, r, hs, hc, hno⟩
  · have h := runeSize_of_wellFormed _ r hw
    rw [← hs] at h
    rw [runeSize_of_wellFormed _ X hw]; exact h.symm
  · have hno' : ∀ k, wellFormedSeq ((b0 :: rest).take k) = false := fun k => hno _ _ (List.take_append_drop k _).symm
    have h1 : runeSize (b0 :: rest) = 1 := runeSize_of_illFormed b0 rest hno'
    rw [h1] at hXY ⊢
    simp only [List.drop_succ_cons, List.drop_zero] at hXY
    simp only [List.take_succ_cons, List.take_zero, List.cons_append, List.nil_append]
    apply runeSize_of_illFormed
    intro j
    apply hno _ (((b0 :: X).drop j) ++ Y)
    rw [← List.append_assoc, List.take_append_drop, hXY]; rfl

theorem flatten_take_append_drop (n : Nat) (L : List Bytes) : (L.take n).flatten ++ (L.drop n).flatten = L.flatten := by
  rw [← List.flatten_append, List.take_append_drop]

/-- cutting a string after whole characters and splitting it again gives those characters -/
theorem charsOf_flatten_take : ∀ (len : Nat) (b : Bytes) (n : Nat), b.length ≤ len →
    charsOf (((charsOf b).take n).flatten) = (charsOf b).take n := by
  intro len
  induction len with
  | zero =>
    intro b n hb
    have : b = [] := List.eq_nil_of_length_eq_zero (by omega)
    subst this; simp [charsOf_nil]
  | succ len ih =>
    intro b n hb
    cases b with
    | nil => simp [charsOf_nil]
    | cons b0 rest =>
      cases n with
      | zero => simp [charsOf_nil]
      | succ m =>
        have hl := drop_runeSize_length b0 rest
        simp only [List.length_cons] at hb
        have hk1 := runeSize_pos b0 rest
        have hk2 := runeSize_le_length b0 rest
        rw [charsOf_cons, List.take_succ_cons, List.flatten_cons]
        generalize hd : (b0 :: rest).drop (runeSize (b0 :: rest)) = d at hl ⊢
        have hXY : d = ((charsOf d).take m).flatten ++ ((charsOf d).drop m).flatten := by
          rw [flatten_take_append_drop, charsOf_flatten d.length d (Nat.le_refl _)]
        have hloc := runeSize_local b0 rest _ _ (hd.trans hXY)
        have hclen : ((b0 :: rest).take (runeSize (b0 :: rest))).length = runeSize (b0 :: rest) := by
          rw [List.length_take]; omega
        -- the cut string starts with b0
        obtain ⟨c', hc'⟩ : ∃ c', (b0 :: rest).take (runeSize (b0 :: rest)) = b0 :: c' := by
          obtain ⟨k, hk⟩ : ∃ k, runeSize (b0 :: rest) = k + 1 := ⟨runeSize (b0 :: rest) - 1, by omega⟩
          rw [hk]; exact ⟨rest.take k, rfl⟩
        have hcons : (b0 :: rest).take (runeSize (b0 :: rest)) ++ ((charsOf d).take m).flatten = b0 :: (c' ++ ((charsOf d).take m).flatten) := by
          rw [hc']; rfl
        rw [hcons, charsOf_cons, ← hcons, hloc]
        rw [List.take_left' hclen, List.drop_left' hclen]
        rw [ih d m (by omega)]

theorem goPad_spaces (fl : Flags) (wid : Option Nat) (b : Bytes) :
    goPad fl false wid b = cPadSpaces fl wid (runeCount b) b := by
  unfold goPad cPadSpaces
  cases wid with
  | none => cases fl.minus <;> simp [spaces]
  | some w =>
    cases w with
    | zero => cases fl.minus <;> simp [spaces]
    | succ w => cases fl.minus <;> simp

/-- `%s` as `fmt` formats it is `%s` stated on characters: precision keeps whole characters, the width counts characters -/
theorem goFmtS_is_chars (fl : Flags) (wid prec : Option Nat) (s : Bytes) (hz : fl.zero = false) :
    goFmtS fl wid prec s = cFmtStrChars ⟨fl, wid, prec, 115⟩ s := by
  unfold goFmtS cFmtStrChars
  cases prec with
  | none =>
    simp only [hz, goPad_spaces, runeCount_eq_chars, charsOf_flatten s.length s (Nat.le_refl _)]
  | some p =>
    simp only [hz, goPad_spaces, truncRunes_eq_chars, runeCount_eq_chars, charsOf_flatten_take s.length s p (Nat.le_refl _)]

/-- the first character re-read on its own is one character: `fmt` counts it as one column -/
theorem runeCount_first_char (b0 : UInt8) (rest : Bytes) : runeCount ((b0 :: rest).take (runeSize (b0 :: rest))) = 1 := by
  have h := charsOf_flatten_take (b0 :: rest).length (b0 :: rest) 1 (Nat.le_refl _)
  rw [charsOf_cons] at h
  simp only [List.take_succ_cons, List.take_zero, List.flatten_cons, List.flatten_nil, List.append_nil] at h
  rw [runeCount_eq_chars, h]; rfl

/-! ### `%c` of a number in character mode: `encodeRune` -/

/-- whatever the number, what `utf8.EncodeRune` produces is one well-formed sequence (U+FFFD for a code that is no character) -/
theorem encodeRune_wellFormed (r : Int) : wellFormedSeq (encodeRune r) = true := by
  unfold encodeRune
  simp only []
  split
  · decide
  · split
    · simp [wellFormedSeq]; u8
    · split
      · simp [wellFormedSeq, inR]; u8
      · split
        · decide
        · split
          · simp [wellFormedSeq, inR]; u8
          · split
            · simp [wellFormedSeq, inR]; u8
            · decide

theorem codeOf1 (a : UInt8) : codeOf [a] = a.toNat := rfl
theorem codeOf2 (a b : UInt8) : codeOf [a, b] = (a.toNat - 0xC0) * 64 + (b.toNat - 0x80) := rfl
theorem codeOf3 (a b c : UInt8) : codeOf [a, b, c] = ((a.toNat - 0xE0) * 64 + (b.toNat - 0x80)) * 64 + (c.toNat - 0x80) := rfl
theorem codeOf4 (a b c d : UInt8) :
    codeOf [a, b, c, d] = (((a.toNat - 0xF0) * 64 + (b.toNat - 0x80)) * 64 + (c.toNat - 0x80)) * 64 + (d.toNat - 0x80) := rfl

/-- … and for a Unicode scalar value it is the sequence that encodes exactly that value -/
theorem codeOf_encodeRune (n : Nat) (h : IsScalar n) : codeOf (encodeRune (n : Int)) = n := by
  unfold IsScalar at h
  have h5 := h.1
  have h3 := h.2
  have hneg : ¬ ((n : Int) < 0) := by omega
  unfold encodeRune
  by_cases h1 : n < 0x80
  · simp only [hneg, if_false, Int.toNat_natCast, h1, if_true, codeOf1]; simp; omega
  · by_cases h2 : n < 0x800
    · simp only [hneg, if_false, Int.toNat_natCast, h1, h2, if_true, codeOf2]; simp; omega
    · have h3' : (decide (0xD800 ≤ n) && decide (n ≤ 0xDFFF)) = false := by simp; omega
      by_cases h4 : n < 0x10000
      · simp only [hneg, if_false, Int.toNat_natCast, h1, h2, h3', h4, if_true, codeOf3, Bool.false_eq_true]; simp; omega
      · simp only [hneg, if_false, Int.toNat_natCast, h1, h2, h3', h4, h5, if_true, codeOf4, Bool.false_eq_true]; simp; omega

/-- a well-formed sequence is one rune for `fmt`: one column of a field width -/
theorem runeCount_wellFormed (p : Bytes) (h : wellFormedSeq p = true) : runeCount p = 1 := by
  cases hp : p with
  | nil => rw [hp] at h; simp [wellFormedSeq] at h
  | cons b0 p' =>
    have hsz := runeSize_of_wellFormed p [] h
    rw [List.append_nil, hp] at hsz
    have := runeCount_first_char b0 p'
    rwa [hsz, List.take_length] at this

end GoawkModel.C09
