import GoawkModel.C09Cache
/-! Cache transparency for property C09: a hit of the format cache returns what a miss would compute. -/
namespace GoawkModel.C09
open GoawkModel

/-- every stored entry is what parsing its key yields -/
def CacheOK (c : FmtCache) : Prop := ∀ s r, c.lookup s = some r → parseFmtTypes s = .ok r

theorem cacheOK_nil : CacheOK [] := by intro s r h; simp [List.lookup] at h

theorem cacheOK_cons (c : FmtCache) (s : Bytes) (r : Bytes × List UInt8) (hc : CacheOK c) (hs : parseFmtTypes s = .ok r) :
    CacheOK ((s, r) :: c) := by
  intro s' r' h
  simp only [List.lookup_cons] at h
  by_cases heq : s' = s
  · subst heq; simp at h; subst h; exact hs
  · have : (s' == s) = false := by simpa using heq
    simp only [this] at h
    exact hc s' r' h

theorem parse_cache_step (c : FmtCache) (s : Bytes) (hc : CacheOK c) :
    (parseFmtTypesC c s).1 = parseFmtTypes s ∧ CacheOK (parseFmtTypesC c s).2 := by
  unfold parseFmtTypesC
  cases hl : c.lookup s with
  | some r => exact ⟨(hc s r hl).symm, hc⟩
  | none =>
    cases hp : parseFmtTypes s with
    | error e => exact ⟨rfl, hc⟩
    | ok r =>
      refine ⟨rfl, ?_⟩
      simp only
      split
      · exact cacheOK_cons c s r hc hp
      · exact hc

theorem awkSprintf_eq_tail (dg : DigitGen) (chars : Bool) (fmt : Bytes) (args : List Arg) :
    awkSprintf dg chars fmt args = sprintfTail dg chars (parseFmtTypes fmt) args := by
  unfold awkSprintf sprintfTail
  cases parseFmtTypes fmt with
  | error e => rfl
  | ok r => cases r; rfl

theorem sprintf_cache_step (dg : DigitGen) (chars : Bool) (c : FmtCache) (fmt : Bytes) (args : List Arg) (hc : CacheOK c) :
    (awkSprintfC dg chars c fmt args).1 = awkSprintf dg chars fmt args ∧ CacheOK (awkSprintfC dg chars c fmt args).2 := by
  have h := parse_cache_step c fmt hc
  unfold awkSprintfC
  simp only
  rw [h.1, awkSprintf_eq_tail]
  exact ⟨rfl, h.2⟩

theorem runUses_transparent (dg : DigitGen) (chars : Bool) : ∀ (uses : List (Bytes × List Arg)) (c : FmtCache), CacheOK c →
    runUses dg chars c uses = uses.map (fun u => awkSprintf dg chars u.1 u.2) := by
  intro uses
  induction uses with
  | nil => intro c _; rfl
  | cons u rest ih =>
    intro c hc
    obtain ⟨f, args⟩ := u
    have h := sprintf_cache_step dg chars c f args hc
    simp only [runUses, List.map_cons]
    rw [h.1, ih _ h.2]

/-- the cache never holds more than `maxCachedFormats` entries (once below the limit) -/
theorem cache_bounded (c : FmtCache) (s : Bytes) (h : c.length ≤ Generated.C09Verbs.maxCachedFormats) :
    (parseFmtTypesC c s).2.length ≤ Generated.C09Verbs.maxCachedFormats := by
  unfold parseFmtTypesC
  cases c.lookup s with
  | some r => exact h
  | none =>
    cases parseFmtTypes s with
    | error e => exact h
    | ok r =>
      simp only
      split
      · simp only [List.length_cons]; omega
      · exact h

end GoawkModel.C09
