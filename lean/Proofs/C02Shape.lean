import GoawkModel.C02
/-! The hand-written shape table against the facts regenerated from interp/vm.go and the disassembler. -/
namespace GoawkModel.C02
open GoawkModel.Generated

/-- (needed height, net effect) of one stack helper of vm.go; `none` = depends on run-time data -/
def helperStep : Nat × Nat × Nat → Option (Nat × Int)
  | (1, 0, _) => some (0, 1)      -- push
  | (2, 0, _) => some (1, -1)     -- pop
  | (3, 0, _) => some (2, -2)     -- popTwo
  | (4, _, _) => some (1, 0)      -- peekTop   (also when conditional: it only needs, never moves)
  | (5, _, _) => some (2, 0)      -- peekTwo
  | (6, 0, _) => some (2, -1)     -- peekPop
  | (7, 0, _) => some (3, -1)     -- peekPeekPop
  | (8, _, _) => some (1, 0)      -- replaceTop
  | (9, _, _) => some (2, 0)      -- replaceTwo
  | (11, _, n + 1) => some (n + 1, 0)  -- peekSlice(literal)
  | _ => none

/-- fold the helper calls of one `case` into (pops, pushes) in the sense of `Instr.simple` -/
def helperEffectAux : List (Nat × Nat × Nat) → Nat → Int → Option (Nat × Nat)
  | [], need, cur => some (need, ((need : Int) + cur).toNat)
  | h :: rest, need, cur =>
    match helperStep h with
    | none => none
    | some (hn, net) => helperEffectAux rest (max need ((hn : Int) - cur).toNat) (cur + net)

def helperEffect (hs : List (Nat × Nat × Nat)) : Option (Nat × Nat) := helperEffectAux hs 0 0

def opName (i : Nat) : String := Opcodes.opcodes.getD i ""
def builtinName (i : Nat) : String := Opcodes.builtinOps.getD i ""

/-- per opcode: the model's operand count = ip advance in vm.go = operand reads in vm.go = fetches in the disassembler -/
def operandsAgree : Bool :=
  C02Arity.vmCases.all (fun (i, reads, adv, _, loopReads, loopAdv, _) =>
    (operandCount (opName i)).getD 0 == adv && reads == adv
      && (if opName i == "CallUser" then loopReads == 2 && loopAdv == 2 else loopReads == 0 && loopAdv == 0))
  && C02Arity.disasmCases.all (fun (i, fetches, loopFetches) =>
    (operandCount (opName i)).getD 0 == fetches && (if opName i == "CallUser" then loopFetches == 2 else loopFetches == 0))

/-- per opcode whose helper sequence is static: the derived (pops, pushes) is the shape table's -/
def fixedEffectsAgree : Bool :=
  C02Arity.vmCases.all (fun (i, _, _, _, _, _, hs) =>
    match fixedEffect (opName i), helperEffect hs with
    | some a, some b => a == b
    | some _, none => false          -- every fixed-effect opcode must be derivable
    | none, _ => true)

def builtinEffectsAgree : Bool :=
  C02Arity.builtinCases.all (fun (i, hs) =>
    match builtinEffect (builtinName i), helperEffect hs with
    | some a, some b => a == b
    | some _, none => builtinName i == "BuiltinFflushAll"   -- push in both branches of an if: pinned below
    | none, _ => false)

/-- the opcodes whose effect depends on operands or is control flow: their helper sequences as regenerated, pinned literally -/
def dynamicCases : List (String × Nat × List (Nat × Nat × Nat)) :=
  (C02Arity.vmCases.filter (fun (i, _, _, _, _, _, _) => (fixedEffect (opName i)).isNone)).map
    (fun (i, _, _, dyn, _, _, hs) => (opName i, dyn, hs))

def expectedDynamicCases : List (String × Nat × List (Nat × Nat × Nat)) := [
  ("IndexMulti", 0, [(10, 0, 0), (1, 0, 0)]), ("ConcatMulti", 0, [(10, 0, 0), (1, 0, 0)]),
  ("Jump", 1, []), ("JumpFalse", 1, [(2, 0, 0)]), ("JumpTrue", 1, [(2, 0, 0)]),
  ("JumpEquals", 1, [(3, 0, 0)]), ("JumpNotEquals", 1, [(3, 0, 0)]), ("JumpLess", 1, [(3, 0, 0)]), ("JumpGreater", 1, [(3, 0, 0)]),
  ("JumpLessOrEqual", 1, [(3, 0, 0)]), ("JumpGreaterOrEqual", 1, [(3, 0, 0)]),
  ("Next", 0, []), ("Nextfile", 0, []), ("Exit", 0, []), ("ExitStatus", 0, [(2, 0, 0)]),
  ("ForIn", 1, [(15, 1, 0)]), ("BreakForIn", 0, []), ("CallBuiltin", 0, [(14, 0, 0)]),
  ("CallSprintf", 0, [(10, 0, 0), (1, 0, 0)]),
  ("CallUser", 0, [(11, 0, 0), (15, 0, 0), (10, 0, 0), (1, 1, 0), (1, 1, 0)]),
  ("CallNative", 0, [(10, 0, 0), (1, 0, 0)]),
  ("Return", 0, [(2, 0, 0)]), ("ReturnNull", 0, []), ("Nulls", 0, [(12, 0, 0)]),
  ("Print", 0, [(10, 0, 0), (2, 1, 0)]), ("Printf", 0, [(10, 0, 0), (2, 1, 0)]),
  ("Getline", 0, [(13, 0, 0), (1, 0, 0)]), ("GetlineField", 0, [(13, 0, 0), (4, 0, 0), (8, 0, 0)]),
  ("GetlineGlobal", 0, [(13, 0, 0), (1, 0, 0)]), ("GetlineLocal", 0, [(13, 0, 0), (1, 0, 0)]),
  ("GetlineSpecial", 0, [(13, 0, 0), (1, 0, 0)]), ("GetlineArray", 0, [(13, 0, 0), (4, 0, 0), (8, 0, 0)]),
  ("EndOpcode", 0, [])]

/-- which opcodes end the block, with the control signal vm.go returns (1 next, 2 nextfile, 3 exit, 4 break, 5 return) -/
def exitKinds : List (String × Nat) :=
  (C02Arity.exitCases.filter (fun (_, k) => k != 0)).map (fun (i, k) => (opName i, k))

end GoawkModel.C02
