import GoawkModel.C01
/-!
# C01 — G01-1 on the model: without `Laws.concat_stable` the flattened concatenation differs from the syntax tree

`semFmt`: values are numbers, the world is (conversion format, output log); `concat a b w = a + b + format` (the result of a
concatenation depends on the current format, like CONVFMT for non-integer numbers), `ConcatMulti` is the left fold of that
`concat` in the world at the time the opcode runs, assigning special variable 0 sets the format, `print` appends to the log.
-/
namespace GoawkModel.C01

def semFmt : Sem where
  V := Nat
  W := Nat × List Nat
  numV c := c.val
  strV _ := 0
  ofBool b := if b then 1 else 0
  toBool v := v != 0
  arith _ a b := some (a + b)
  augOp _ a b := some (a + b)
  incrBy _ v := v + 1
  cmp op a b _ := match op with
    | .eq => a == b | .ne => !(a == b) | .lt => a < b | .le => a ≤ b | .gt => b < a | .ge => b ≤ a
  concat a b w := a + b + w.1
  concatMulti vs w := match vs with
    | [] => 0
    | v1 :: rest => rest.foldl (fun acc v => acc + v + w.1) v1
  unop _ v := v
  getVar _ _ w := w.1
  setVar _ _ v w := some (v, w.2)
  getField _ _ := 0
  getFieldInt _ _ := 0
  setField _ _ w := some w
  getArr _ _ _ w := (0, w)
  setArr _ _ _ _ w := w
  inArr _ _ _ _ := false
  multiIndex _ _ := 0
  print vs w := some (w.1, w.2 ++ vs)
  setExit _ w := w
  nullV := 0
  call _ _ _ _ := none

/-- `print 1 2 (FORMAT = 5)` : a three-operand concatenation whose last operand changes the format -/
def g011Witness : Stmt :=
  .print [.concat (.concat (.num ⟨true, 1⟩) (.num ⟨true, 2⟩)) (.assign (.var .special 0) (.num ⟨true, 5⟩))]

/-- Every law of `Laws` except `concat_stable` holds for `semFmt` (the ones that matter here are listed), `concat_stable`
fails, and the compiled program prints 18 where direct evaluation of the syntax tree prints 13: `concat_stable` is necessary
for `concatMulti_eq_nested` / `compile_expr_correct`. This is G01-1 of the real code (CONVFMT assigned by a later operand). -/
theorem concatMulti_differs_without_stability :
    (∀ b, semFmt.toBool (semFmt.ofBool b) = b) ∧
    (∀ a b w, semFmt.cmp .ne a b w = !semFmt.cmp .eq a b w) ∧
    (∀ v1 v2 rest w, semFmt.concatMulti (v1 :: v2 :: rest) w = (v2 :: rest).foldl (fun acc v => semFmt.concat acc v w) v1) ∧
    ¬ (∀ a b w w', semFmt.concat a b w = semFmt.concat a b w') ∧
    exec semFmt 3 g011Witness (0, []) = some (.normal (5, [13])) ∧
    run semFmt (cStmt 0 0 g011Witness) 20 ⟨0, [], (0, [])⟩ = .normal (5, [18]) := by
  refine ⟨?_, ?_, ?_, ?_, ?_, ?_⟩
  · intro b; cases b <;> rfl
  · intro a b w; rfl
  · intro v1 v2 rest w; rfl
  · intro h; have := h (0 : Nat) (0 : Nat) ((0 : Nat), ([] : List Nat)) ((1 : Nat), ([] : List Nat)); simp [semFmt] at this
  · rfl
  · rfl

end GoawkModel.C01
