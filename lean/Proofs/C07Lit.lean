import GoawkModel.C07
import Proofs.C07Regex
namespace GoawkModel.C07

theorem isPrefixOf_append_true {lit x : Bytes} (h : lit.isPrefixOf x = true) (ext : Bytes) :
    lit.isPrefixOf (x ++ ext) = true := by
  induction lit generalizing x with
  | nil => simp [List.isPrefixOf]
  | cons a as ih =>
    cases x with
    | nil => simp [List.isPrefixOf] at h
    | cons b bs =>
      simp only [List.isPrefixOf, List.cons_append, Bool.and_eq_true] at h ⊢
      exact ⟨h.1, ih h.2⟩

theorem isPrefixOf_append_false {lit x : Bytes} (h : lit.isPrefixOf x = false) (hl : lit.length ≤ x.length) (ext : Bytes) :
    lit.isPrefixOf (x ++ ext) = false := by
  induction lit generalizing x with
  | nil => simp [List.isPrefixOf] at h
  | cons a as ih =>
    cases x with
    | nil => simp at hl
    | cons b bs =>
      simp only [List.isPrefixOf, List.cons_append, Bool.and_eq_false_iff] at h ⊢
      rcases h with h | h
      · exact Or.inl h
      · exact Or.inr (ih h (by simpa using hl))

theorem isPrefixOf_length {lit x : Bytes} (h : lit.isPrefixOf x = true) : lit.length ≤ x.length := by
  induction lit generalizing x with
  | nil => simp
  | cons a as ih =>
    cases x with
    | nil => simp [List.isPrefixOf] at h
    | cons b bs =>
      simp only [List.isPrefixOf, Bool.and_eq_true] at h
      have := ih h.2
      simp; omega

theorem findLit_range {lit d : Bytes} {k a b : Nat} (h : findLit lit d k = some (a, b)) :
    k ≤ a ∧ b = a + lit.length ∧ b ≤ k + d.length := by
  induction d generalizing k with
  | nil => simp [findLit] at h
  | cons x rest ih =>
    simp only [findLit] at h
    by_cases hp : lit.isPrefixOf (x :: rest) = true
    · simp only [hp, if_true] at h
      injection h with h; injection h with h1 h2
      subst h1 h2
      have := isPrefixOf_length hp
      exact ⟨Nat.le_refl _, rfl, by omega⟩
    · simp only [hp, if_false] at h
      have := ih h
      simp only [List.length_cons]
      omega

theorem findLit_stable {lit d : Bytes} {k a b : Nat} (h : findLit lit d k = some (a, b)) (hb : b < k + d.length)
    (ext : Bytes) : findLit lit (d ++ ext) k = some (a, b) := by
  induction d generalizing k with
  | nil => simp [findLit] at h
  | cons x rest ih =>
    simp only [findLit, List.cons_append] at h ⊢
    by_cases hp : lit.isPrefixOf (x :: rest) = true
    · simp only [hp, if_true] at h
      have := isPrefixOf_append_true hp ext
      simp only [List.cons_append] at this
      simp only [this, if_true]; exact h
    · simp only [hp, if_false] at h
      have hr := findLit_range h
      have hlen : lit.length ≤ (x :: rest).length := by simp only [List.length_cons] at hb ⊢; omega
      have := isPrefixOf_append_false (Bool.eq_false_iff.mpr hp) hlen ext
      simp only [List.cons_append] at this
      simp only [this, Bool.false_eq_true, if_false]
      apply ih h
      simp only [List.length_cons] at hb; omega

theorem lit_inRange (lit : Bytes) : InRange (fun d => findLit lit d 0) := by
  intro d a b h
  have := findLit_range h
  omega

theorem lit_matchStable (lit : Bytes) : MatchStable (fun d => findLit lit d 0) := by
  intro d a b h _ hb ext
  exact findLit_stable h (by omega) ext

end GoawkModel.C07
