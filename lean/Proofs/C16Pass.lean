import Proofs.C16Step
/-! Lifting the one-step lemmas over bodies, passes and the fixed-point loop. -/
namespace GoawkModel.C16

/-- `e` is visited while walking `fn` (0 = top level) -/
def InProg (p : Program) (fn : Name) (e : Event) : Prop :=
  (fn = 0 ∧ e ∈ p.main) ∨ ∃ f ∈ p.funcs, f.name = fn ∧ e ∈ f.body

theorem findFunc_some {p : Program} {n : Name} {f : Func} (h : p.findFunc n = some f) : f ∈ p.funcs ∧ f.name = n := by
  unfold Program.findFunc at h
  refine ⟨List.mem_of_find?_eq_some h, ?_⟩
  have := List.find?_some h
  exact eq_of_beq this

theorem inProg_argOK {p : Program} (wf : WF p) {fn : Name} {e : Event} (h : InProg p fn e) : ArgOK p e := by
  rcases h with ⟨_, h⟩ | ⟨f, hf, _, he⟩
  · exact wf.mainArgs e h
  · exact wf.funcArgs f hf e he

theorem inProg_sat {p : Program} {σ : Typing} (hs : Sat p σ) {fn : Name} {e : Event} (h : InProg p fn e) :
    EventSat p σ fn e := by
  rcases h with ⟨h0, h⟩ | ⟨f, hf, hn, he⟩
  · rw [h0]; exact hs.main e h
  · rw [← hn]; exact hs.funcs f hf e he

/-- `I` is kept by every visit of the program -/
def StepInv (p : Program) (I : State → Prop) : Prop :=
  ∀ fn e s s' c, InProg p fn e → I s → step p fn s e = .ok (s', c) → I s'

/-- no visit of the program fails in a state satisfying `I` -/
def NoErr (p : Program) (I : State → Prop) : Prop :=
  ∀ fn e s er, InProg p fn e → I s → step p fn s e ≠ .error er

section lift
variable {p : Program} {I : State → Prop}

theorem runBody_inv (hI : StepInv p I) (fn : Name) :
    ∀ (es : List Event) (i : Nat) (s : State) (ch : Bool) (s' : State) (c : Bool),
      (∀ e ∈ es, InProg p fn e) → I s → runBody p fn es i s ch = .ok (s', c) → I s' := by
  intro es
  induction es with
  | nil => intro i s ch s' c _ hs h; simp only [runBody] at h; injection h with h; injection h with h _; rw [← h]; exact hs
  | cons e es ih =>
    intro i s ch s' c hin hs h
    simp only [runBody] at h
    split at h
    · cases h
    · rename_i s1 c1 hst
      exact ih (i + 1) s1 (ch || c1) s' c (fun e he => hin e (List.mem_cons_of_mem _ he))
        (hI fn e s s1 c1 (hin e List.mem_cons_self) hs hst) h

theorem runBody_noerr (hI : StepInv p I) (hE : NoErr p I) (fn : Name) :
    ∀ (es : List Event) (i : Nat) (s : State) (ch : Bool) (er : LErr),
      (∀ e ∈ es, InProg p fn e) → I s → runBody p fn es i s ch ≠ .error er := by
  intro es
  induction es with
  | nil => intro i s ch er _ _ h; simp only [runBody] at h; cases h
  | cons e es ih =>
    intro i s ch er hin hs h
    simp only [runBody] at h
    split at h
    · rename_i er' hst
      exact hE fn e s er' (hin e List.mem_cons_self) hs hst
    · rename_i s1 c1 hst
      exact ih (i + 1) s1 (ch || c1) er (fun e he => hin e (List.mem_cons_of_mem _ he))
        (hI fn e s s1 c1 (hin e List.mem_cons_self) hs hst) h

theorem body_inProg {p : Program} {n : Name} {f : Func} (h : p.findFunc n = some f) : ∀ e ∈ f.body, InProg p n e := by
  intro e he
  have := findFunc_some h
  exact Or.inr ⟨f, this.1, this.2, he⟩

theorem runFuncs_inv (hI : StepInv p I) :
    ∀ (ns : List Name) (s : State) (ch : Bool) (s' : State) (c : Bool),
      I s → runFuncs p ns s ch = .ok (s', c) → I s' := by
  intro ns
  induction ns with
  | nil => intro s ch s' c hs h; simp only [runFuncs] at h; injection h with h; injection h with h _; rw [← h]; exact hs
  | cons n ns ih =>
    intro s ch s' c hs h
    simp only [runFuncs] at h
    split at h
    · exact ih s ch s' c hs h
    · split at h
      · exact ih s ch s' c hs h
      · rename_i f hf
        split at h
        · cases h
        · rename_i s1 c1 hb
          exact ih s1 c1 s' c (runBody_inv hI n f.body 0 s ch s1 c1 (body_inProg hf) hs hb) h

theorem runFuncs_noerr (hI : StepInv p I) (hE : NoErr p I) :
    ∀ (ns : List Name) (s : State) (ch : Bool) (er : LErr), I s → runFuncs p ns s ch ≠ .error er := by
  intro ns
  induction ns with
  | nil => intro s ch er _ h; simp only [runFuncs] at h; cases h
  | cons n ns ih =>
    intro s ch er hs h
    simp only [runFuncs] at h
    split at h
    · exact ih s ch er hs h
    · split at h
      · exact ih s ch er hs h
      · rename_i f hf
        split at h
        · rename_i er' hb
          exact runBody_noerr hI hE n f.body 0 s ch er' (body_inProg hf) hs hb
        · rename_i s1 c1 hb
          exact ih s1 c1 er (runBody_inv hI n f.body 0 s ch s1 c1 (body_inProg hf) hs hb) h

theorem main_inProg (p : Program) : ∀ e ∈ p.main, InProg p 0 e := fun _ he => Or.inl ⟨rfl, he⟩

theorem pass_inv (hI : StepInv p I) (order : List Name) (s s' : State) (c : Bool)
    (hs : I s) (h : pass p order s = .ok (s', c)) : I s' := by
  simp only [pass] at h
  split at h
  · cases h
  · rename_i s1 c1 hf
    exact runBody_inv hI 0 p.main 0 s1 c1 s' c (main_inProg p) (runFuncs_inv hI order s false s1 c1 hs hf) h

theorem pass_noerr (hI : StepInv p I) (hE : NoErr p I) (order : List Name) (s : State) (er : LErr)
    (hs : I s) : pass p order s ≠ .error er := by
  intro h
  simp only [pass] at h
  split at h
  · rename_i er' hf
    exact runFuncs_noerr hI hE order s false er' hs hf
  · rename_i s1 c1 hf
    exact runBody_noerr hI hE 0 p.main 0 s1 c1 er (main_inProg p) (runFuncs_inv hI order s false s1 c1 hs hf) h

theorem loop_inv (hI : StepInv p I) (order : List Name) :
    ∀ (n : Nat) (s : State) (ch : Bool) (sf : State), I s → loop p order n s ch = .ok sf → I sf := by
  intro n
  induction n with
  | zero =>
    intro s ch sf hs h
    simp only [loop] at h
    split at h
    · split at h <;> cases h
    · injection h with h; rw [← h]; exact hs
  | succ n ih =>
    intro s ch sf hs h
    simp only [loop] at h
    split at h
    · split at h
      · cases h
      · rename_i s1 c1 hp
        exact ih s1 c1 sf (pass_inv hI order s s1 c1 hs hp) h
    · injection h with h; rw [← h]; exact hs

/-- under an invariant that excludes step errors the only possible failure of the loop is the pass cap -/
theorem loop_err (hI : StepInv p I) (hE : NoErr p I) (order : List Name) :
    ∀ (n : Nat) (s : State) (ch : Bool) (er : LErr), I s → loop p order n s ch = .error er → er = (0, 0, .tooMany) := by
  intro n
  induction n with
  | zero =>
    intro s ch er hs h
    simp only [loop] at h
    split at h
    · split at h
      · rename_i er' hp
        exact absurd hp (pass_noerr hI hE order s er' hs)
      · injection h with h; exact h.symm
    · cases h
  | succ n ih =>
    intro s ch er hs h
    simp only [loop] at h
    split at h
    · split at h
      · rename_i er' hp
        exact absurd hp (pass_noerr hI hE order s er' hs)
      · rename_i s1 c1 hp
        exact ih s1 c1 er (pass_inv hI order s s1 c1 hs hp) h
    · cases h

theorem resolve_inv (hI : StepInv p I) (order : List Name) (sf : State)
    (h0 : I (prelude p)) (h : resolve p order = .ok sf) : I sf := by
  simp only [resolve] at h
  split at h
  · cases h
  · rename_i s1 c1 hp
    exact loop_inv hI order _ s1 c1 sf (pass_inv hI order _ s1 c1 h0 hp) h

theorem resolve_err (hI : StepInv p I) (hE : NoErr p I) (order : List Name) (er : LErr)
    (h0 : I (prelude p)) (h : resolve p order = .error er) : er = (0, 0, .tooMany) := by
  simp only [resolve] at h
  split at h
  · rename_i er' hp
    exact absurd hp (pass_noerr hI hE order _ er' h0)
  · rename_i s1 c1 hp
    exact loop_err hI hE order _ s1 c1 er (pass_inv hI order _ s1 c1 h0 hp) h

end lift

/-! ### instance 1: the state stays below every satisfying typing -/

theorem below_stepInv {p : Program} {σ : Typing} (wf : WF p) (hs : Sat p σ) : StepInv p (fun s => Below s σ) := by
  intro fn e s s' c hin hb hst
  have := step_below hb fn e (inProg_sat hs hin) (inProg_argOK wf hin)
  rw [hst] at this
  exact this

theorem below_noErr {p : Program} {σ : Typing} (wf : WF p) (hs : Sat p σ) : NoErr p (fun s => Below s σ) := by
  intro fn e s er hin hb hst
  have := step_below hb fn e (inProg_sat hs hin) (inProg_argOK wf hin)
  rw [hst] at this
  exact this

theorem prelude_below_aux {σ : Typing} (bs : List Name) (hσ : ∀ b ∈ bs, σ 0 b = .array) :
    ∀ s, Below s σ → Below (bs.foldl (fun s b => (s.setTy 0 b .array).declare b) s) σ := by
  induction bs with
  | nil => intro s hs; exact hs
  | cons b bs ih =>
    intro s hs
    simp only [List.foldl_cons]
    apply ih (fun b' hb' => hσ b' (List.mem_cons_of_mem _ hb'))
    exact declare_below (setTy_below hs 0 b .array (Or.inr (hσ b List.mem_cons_self))) b

theorem prelude_below {p : Program} {σ : Typing} (hs : Sat p σ) : Below (prelude p) σ := by
  unfold prelude
  apply prelude_below_aux p.builtins hs.builtins
  intro fn v h
  exact absurd rfl h

/-! ### instance 2: update-free passes -/

theorem runBody_false {p : Program} (fn : Name) :
    ∀ (es : List Event) (i : Nat) (s : State) (ch : Bool) (s' : State),
      (∀ e ∈ es, ArgOK p e) → runBody p fn es i s ch = .ok (s', false) →
      ch = false ∧ s' = s ∧ ∀ e ∈ es, Settled p s fn e := by
  intro es
  induction es with
  | nil =>
    intro i s ch s' _ h
    simp only [runBody] at h
    injection h with h; injection h with h1 h2
    exact ⟨h2, h1.symm, fun _ he => nomatch he⟩
  | cons e es ih =>
    intro i s ch s' hok h
    simp only [runBody] at h
    split at h
    · cases h
    · rename_i s1 c1 hst
      have := ih (i + 1) s1 (ch || c1) s' (fun e he => hok e (List.mem_cons_of_mem _ he)) h
      have hcc : ch = false ∧ c1 = false := by
        cases ch <;> cases c1 <;> simp at this ⊢
      rw [hcc.2] at hst
      have hs := step_false (hok e List.mem_cons_self) hst
      refine ⟨hcc.1, this.2.1.trans hs.1, ?_⟩
      intro e' he'
      rcases List.mem_cons.mp he' with h1 | h1
      · rw [h1]; exact hs.2
      · have := this.2.2 e' h1
        rw [hs.1] at this
        exact this

theorem runFuncs_false {p : Program} (wf : WF p) :
    ∀ (ns : List Name) (s : State) (ch : Bool) (s' : State),
      runFuncs p ns s ch = .ok (s', false) →
      ch = false ∧ s' = s ∧ ∀ n ∈ ns, n ≠ 0 → ∀ f, p.findFunc n = some f → ∀ e ∈ f.body, Settled p s n e := by
  intro ns
  induction ns with
  | nil =>
    intro s ch s' h
    simp only [runFuncs] at h
    injection h with h; injection h with h1 h2
    exact ⟨h2, h1.symm, fun _ he => nomatch he⟩
  | cons n ns ih =>
    intro s ch s' h
    simp only [runFuncs] at h
    split at h
    · rename_i hn
      have := ih s ch s' h
      refine ⟨this.1, this.2.1, ?_⟩
      intro n' hn' hne
      rcases List.mem_cons.mp hn' with h1 | h1
      · rw [h1] at hne; exact absurd hn hne
      · exact this.2.2 n' h1 hne
    · rename_i hn
      split at h
      · rename_i hnone
        have := ih s ch s' h
        refine ⟨this.1, this.2.1, ?_⟩
        intro n' hn' hne f hf
        rcases List.mem_cons.mp hn' with h1 | h1
        · rw [h1, hnone] at hf; cases hf
        · exact this.2.2 n' h1 hne f hf
      · rename_i f hf
        split at h
        · cases h
        · rename_i s1 c1 hb
          have h2 := ih s1 c1 s' h
          rw [h2.1] at hb
          have hbody : ∀ e ∈ f.body, ArgOK p e := fun e he => wf.funcArgs f (findFunc_some hf).1 e he
          have h1 := runBody_false n f.body 0 s ch s1 hbody hb
          refine ⟨h1.1, h2.2.1.trans h1.2.1, ?_⟩
          intro n' hn' hne f' hf'
          rcases List.mem_cons.mp hn' with h3 | h3
          · rw [h3, hf] at hf'
            injection hf' with hf'
            rw [← hf', h3]
            exact h1.2.2
          · have := h2.2.2 n' h3 hne f' hf'
            rw [h1.2.1] at this
            exact this

/-- all the constraints are settled in `s` -/
structure AllSettled (p : Program) (order : List Name) (s : State) : Prop where
  funcs : ∀ n ∈ order, n ≠ 0 → ∀ f, p.findFunc n = some f → ∀ e ∈ f.body, Settled p s n e
  main : ∀ e ∈ p.main, Settled p s 0 e

theorem pass_false {p : Program} (wf : WF p) (order : List Name) (s s' : State)
    (h : pass p order s = .ok (s', false)) : s' = s ∧ AllSettled p order s := by
  simp only [pass] at h
  split at h
  · cases h
  · rename_i s1 c1 hf
    have h2 := runBody_false 0 p.main 0 s1 c1 s' wf.mainArgs h
    rw [h2.1] at hf
    have h1 := runFuncs_false wf order s false s1 hf
    refine ⟨h2.2.1.trans h1.2.1, h1.2.2, ?_⟩
    have := h2.2.2
    rw [h1.2.1] at this
    exact this

/-- the state came out of a pass that made no update -/
def Fix (p : Program) (order : List Name) (s : State) : Prop := ∃ s0, pass p order s0 = .ok (s, false)

theorem loop_fix {p : Program} (order : List Name) :
    ∀ (n : Nat) (s : State) (ch : Bool) (sf : State),
      (ch = false → Fix p order s) → loop p order n s ch = .ok sf → Fix p order sf := by
  intro n
  induction n with
  | zero =>
    intro s ch sf hfix h
    simp only [loop] at h
    split at h
    · split at h <;> cases h
    · rename_i hc
      injection h with h; rw [← h]
      exact hfix (by cases ch <;> simp_all)
  | succ n ih =>
    intro s ch sf hfix h
    simp only [loop] at h
    split at h
    · split at h
      · cases h
      · rename_i s1 c1 hp
        apply ih s1 c1 sf _ h
        intro hc
        rw [hc] at hp
        exact ⟨s, hp⟩
    · rename_i hc
      injection h with h; rw [← h]
      exact hfix (by cases ch <;> simp_all)

theorem resolve_fix {p : Program} (order : List Name) (sf : State) (h : resolve p order = .ok sf) : Fix p order sf := by
  simp only [resolve] at h
  split at h
  · cases h
  · rename_i s1 c1 hp
    apply loop_fix order _ s1 c1 sf _ h
    intro hc
    rw [hc] at hp
    exact ⟨_, hp⟩

theorem resolve_settled {p : Program} (wf : WF p) (order : List Name) (sf : State) (h : resolve p order = .ok sf) :
    AllSettled p order sf := by
  obtain ⟨s0, h0⟩ := resolve_fix order sf h
  have := pass_false wf order s0 sf h0
  rw [this.1]
  exact this.2

/-! ### instance 3: ARGV, ENVIRON, FIELDS stay arrays -/

def KeepsArr (b : Name) (s : State) : Prop := s.decl b = true ∧ s.ty 0 b = .array

theorem recordCore_keeps {b : Name} {s s' : State} {fn v : Name} {t : Ty} {c : Bool} (hk : KeepsArr b s)
    (h : recordCore s fn v (s.ty fn v) t = .ok (s', c)) : KeepsArr b s' := by
  unfold recordCore at h
  split at h
  · cases h
  · split at h
    · rename_i h2
      injection h with h; injection h with h _
      rw [← h]
      refine ⟨hk.1, ?_⟩
      simp only [State.setTy]
      by_cases hkey : 0 = fn ∧ b = v
      · rw [← hkey.1, ← hkey.2, hk.2] at h2
        exact absurd h2.1 (fun x => Ty.noConfusion x)
      · simp only [hkey, if_false]; exact hk.2
    · injection h with h; injection h with h _
      rw [← h]; exact hk

theorem recordVar_keeps {p : Program} {b : Name} {s s' : State} {fn v : Name} {t : Ty} {c : Bool} (hk : KeepsArr b s)
    (h : recordVar p s fn v t = .ok (s', c)) : KeepsArr b s' := by
  unfold recordVar at h
  cases hr : refOf p fn v with
  | loc => simp only [hr] at h; exact recordCore_keeps hk h
  | special =>
    simp only [hr] at h
    split at h
    · cases h
    · injection h with h; injection h with h _
      rw [← h]; exact hk
  | glob =>
    simp only [hr] at h
    split at h
    · exact recordCore_keeps hk h
    · rename_i hd
      injection h with h; injection h with h _
      rw [← h]
      have hne : b ≠ v := by
        intro hbv; rw [hbv] at hk; exact hd hk.1
      simp only [KeepsArr, State.declare, State.setTy, hne, if_false, and_false]
      exact hk

theorem keeps_stepInv (p : Program) (b : Name) : StepInv p (KeepsArr b) := by
  intro fn e s s' c _ hk hst
  cases e with
  | call f n => simp only [step] at hst; injection hst with h; injection h with h _; rw [← h]; exact hk
  | use v t => exact recordVar_keeps hk hst
  | exprArg f i =>
    simp only [step] at hst
    split at hst
    · cases hst
    · injection hst with h; injection h with h _; rw [← h]; exact hk
  | varArg f i v =>
    simp only [step] at hst
    split at hst
    · exact recordVar_keeps hk hst
    · split at hst
      · exact recordVar_keeps hk hst
      · split at hst
        · cases hst
        · exact recordVar_keeps hk hst

theorem prelude_keeps_aux (b : Name) :
    ∀ (bs : List Name) (s : State), (b ∈ bs ∨ KeepsArr b s) →
      KeepsArr b (bs.foldl (fun s b => (s.setTy 0 b .array).declare b) s) := by
  intro bs
  induction bs with
  | nil =>
    intro s h
    rcases h with h | h
    · exact nomatch h
    · exact h
  | cons x xs ih =>
    intro s h
    simp only [List.foldl_cons]
    apply ih
    by_cases hx : b = x
    · right
      rw [hx]
      simp [KeepsArr, State.declare, State.setTy]
    · rcases h with h | h
      · rcases List.mem_cons.mp h with h1 | h1
        · exact absurd h1 hx
        · exact Or.inl h1
      · right
        simp only [KeepsArr, State.declare, State.setTy, hx, if_false, and_false]
        exact h

theorem prelude_keeps {p : Program} {b : Name} (hb : b ∈ p.builtins) : KeepsArr b (prelude p) :=
  prelude_keeps_aux b p.builtins State.init (Or.inl hb)

end GoawkModel.C16
