import GoawkModel.C09
import GoawkModel.C09Spec
import Proofs.C09
/-! Per-family theorems: one conversion as `fmt` formats it equals the C rule (outside the recorded classes). -/
namespace GoawkModel.C09
open GoawkModel

/-- the recorded classes on which Go's integer formatting is not C's (F15, G09-1) -/
def IntExcluded (cs : CSpec) (neg : Bool) (u : Nat) : Prop :=
  (u = 0 ∧ cs.prec = some 0 ∧ (neg = true ∨ cs.fl.plus = true ∨ cs.fl.space = true)) ∨
  (u = 0 ∧ cs.fl.sharp = true ∧ (cs.verb = 120 ∨ cs.verb = 88) ∧ cs.prec ≠ some 0) ∨
  (u = 0 ∧ cs.fl.sharp = true ∧ cs.verb = 111 ∧ cs.prec = some 0) ∨
  (cs.fl.sharp = true ∧ (cs.verb = 120 ∨ cs.verb = 88) ∧ cs.fl.zero = true ∧ cs.fl.minus = false ∧ cs.prec = none ∧
    ∃ w, cs.width = some w ∧ w > (natDigits 16 (cs.verb = 88) u).length)

/-- `sprintf_is_c` for `d i`: in the C domain and outside F15, what `fmt.Sprintf("%…d", int64)` produces is C's `%…d`/`%…i` of
the same integer, for every flag set, width, precision and value -/
theorem conv_signed (dg : DigitGen) (cs : CSpec) (v : Int)
    (hverb : cs.verb = 100 ∨ cs.verb = 105) (hdom : InCDomain cs)
    (hx : ¬ IntExcluded cs (decide (v < 0)) v.natAbs) :
    goFormat dg ⟨cs.fl, cs.width, cs.prec, 100⟩ (.i64 v) = cFormat dg cs (.int v) := by
  obtain ⟨fl, wid, prec, verb⟩ := cs
  simp only at hverb
  have hsharp : fl.sharp = false := by
    rcases hverb with h | h <;> subst h <;> cases hs : fl.sharp <;> simp_all [InCDomain, inCDomain]
  have hcore := cFmtInteger_core fl wid prec (decide (v < 0)) v.natAbs
  have hgo := goInt_eq_cIntCore fl wid prec true false false false 10 (by omega) (decide (v < 0)) v.natAbs
    (by simp) (by simp) (by simp [hsharp]) (by simp) (by simp)
    (fun h => hx (Or.inl h)) (by simp) (by simp) (by simp)
  rcases hverb with h | h <;> subst h
  · simp [goFormat, cFormat, hgo, hcore.1]
  · simp [goFormat, cFormat, hgo, hcore.2.1]

/-- `sprintf_is_c` for `o u x X` (the argument is `uint64(int64(x))`): outside F15 and G09-1 -/
theorem conv_unsigned (dg : DigitGen) (cs : CSpec) (u : Nat) (g : UInt8)
    (hverb : (cs.verb = 117 ∧ g = 100) ∨ (cs.verb = 111 ∧ g = 111) ∨ (cs.verb = 120 ∧ g = 120) ∨ (cs.verb = 88 ∧ g = 88))
    (hdom : InCDomain cs) (hx : ¬ IntExcluded cs false u) :
    goFormat dg ⟨cs.fl, cs.width, cs.prec, g⟩ (.u64 u) = cFormat dg cs (.uint u) := by
  obtain ⟨fl, wid, prec, verb⟩ := cs
  simp only at hverb
  have hcore := cFmtInteger_core fl wid prec false u
  have hps : fl.plus = false ∧ fl.space = false := by
    rcases hverb with ⟨h, _⟩ | ⟨h, _⟩ | ⟨h, _⟩ | ⟨h, _⟩ <;> subst h <;>
      cases hp : fl.plus <;> cases hs : fl.space <;> simp_all [InCDomain, inCDomain]
  rcases hverb with ⟨h, hg⟩ | ⟨h, hg⟩ | ⟨h, hg⟩ | ⟨h, hg⟩ <;> subst h <;> subst hg
  · -- u
    have hsharp : fl.sharp = false := by cases hs : fl.sharp <;> simp_all [InCDomain, inCDomain]
    have hgo := goInt_eq_cIntCore fl wid prec false false false false 10 (by omega) false u
      (by simp) (by simp) (by simp [hsharp]) (by simp [hps.1, hps.2]) (by simp)
      (fun h => hx (Or.inl h)) (by simp) (by simp) (by simp)
    simp [goFormat, cFormat, hgo, hcore.2.2.1]
  · -- o
    have hgo := goInt_eq_cIntCore fl wid prec false true false false 8 (by omega) false u
      (by simp) (by simp) (by simp) (by simp [hps.1, hps.2]) (by simp)
      (fun h => hx (Or.inl h)) (by simp) (fun h => hx (Or.inr (Or.inr (Or.inl ⟨h.1, h.2.1, rfl, h.2.2.2⟩)))) (by simp)
    simp [goFormat, cFormat, hgo, hcore.2.2.2.1]
  · -- x
    have hgo := goInt_eq_cIntCore fl wid prec false false true false 16 (by omega) false u
      (by simp) (by simp) (by simp) (by simp [hps.1, hps.2]) (by simp)
      (fun h => hx (Or.inl h)) (fun h => hx (Or.inr (Or.inl ⟨h.1, h.2.1, Or.inl rfl, h.2.2.2⟩))) (by simp)
      (fun h => hx (Or.inr (Or.inr (Or.inr ⟨h.1, Or.inl rfl, h.2.2.1, h.2.2.2.1, h.2.2.2.2.1, by simpa using h.2.2.2.2.2⟩))))
    simp [goFormat, cFormat, hgo, hcore.2.2.2.2.1]
  · -- X
    have hgo := goInt_eq_cIntCore fl wid prec false false true true 16 (by omega) false u
      (by simp) (by simp) (by simp) (by simp [hps.1, hps.2]) (by simp)
      (fun h => hx (Or.inl h)) (fun h => hx (Or.inr (Or.inl ⟨h.1, h.2.1, Or.inr rfl, h.2.2.2⟩))) (by simp)
      (fun h => hx (Or.inr (Or.inr (Or.inr ⟨h.1, Or.inr rfl, h.2.2.1, h.2.2.2.1, h.2.2.2.2.1, by simpa using h.2.2.2.2.2⟩))))
    simp [goFormat, cFormat, hgo, hcore.2.2.2.2.2]

/-- `%s` (and its width/precision/`-`) is C's for ASCII text (C counts bytes, Go counts runes) -/
theorem conv_str (dg : DigitGen) (cs : CSpec) (s : Bytes)
    (hverb : cs.verb = 115) (hdom : InCDomain cs) (hascii : AllAscii s) :
    goFormat dg ⟨cs.fl, cs.width, cs.prec, 115⟩ (.str s) = cFormat dg cs (.str s) := by
  obtain ⟨fl, wid, prec, verb⟩ := cs
  simp only at hverb; subst hverb
  have hz : fl.zero = false := by cases hz : fl.zero <;> simp_all [InCDomain, inCDomain]
  simp [goFormat, cFormat, goFmtS_is_c fl wid prec s hascii hz]

/-- `%c` (rewritten to `%s` of the character's bytes): the character padded to the width; a multi-byte character only
without width, or when Go counts it as one rune -/
theorem conv_chr (dg : DigitGen) (cs : CSpec) (c : Bytes)
    (hverb : cs.verb = 99) (hdom : InCDomain cs) (hone : runeCount c = 1 ∨ cs.width = none) :
    goFormat dg ⟨cs.fl, cs.width, cs.prec, 115⟩ (.bytes c) = cFormat dg cs (.chr c) := by
  obtain ⟨fl, wid, prec, verb⟩ := cs
  simp only at hverb hone; subst hverb
  have hz : fl.zero = false := by cases hz : fl.zero <;> simp_all [InCDomain, inCDomain]
  have hp : prec = none := by cases prec <;> simp_all [InCDomain, inCDomain]
  subst hp
  simp [goFormat, cFormat, goFmtS_chr_is_c fl wid c hz hone]

/-- Go's `#` post-processing of `strconv`'s text yields the `#` form C prescribes (an assumption on the digit generator, checked
by correspondence for the exact generator; not proved) -/
def SharpCoherent (dg : DigitGen) : Prop :=
  ∀ verb prec m e, goSharpFloat verb prec (dg.gen verb false prec m e) = dg.gen verb true prec m e

def AsciiDigits (dg : DigitGen) : Prop := ∀ verb sharp prec m e, AllAscii (dg.gen verb sharp prec m e)

/-- sign, `+`/space, `0` and `-` padding and width of the floating conversions are C's for every finite value; the precision is
the explicit one, else 6 (GoAWK inserts `.6` for `g G`, `fmt` defaults `e E f` to 6) -/
theorem conv_float (dg : DigitGen) (cs : CSpec) (neg : Bool) (m : Nat) (e : Int)
    (hverb : cs.verb = 101 ∨ cs.verb = 69 ∨ cs.verb = 102 ∨ cs.verb = 103 ∨ cs.verb = 71)
    (hascii : AsciiDigits dg) (hsharp : cs.fl.sharp = true → SharpCoherent dg) :
    goFormat dg ⟨cs.fl, cs.width, some (cs.prec.getD 6), cs.verb⟩ (.f64 (.fin neg m e)) = cFormat dg cs (.dbl (.fin neg m e)) := by
  obtain ⟨fl, wid, prec, verb⟩ := cs
  simp only at hverb hsharp
  have key := goFmtFloat_is_c dg fl wid (prec.getD 6) verb neg m e (hascii _ _ _ _ _) (fun h => hsharp h _ _ _ _)
  have hc : cFmtFloat dg ⟨fl, wid, some (prec.getD 6), verb⟩ (.fin neg m e) = cFmtFloat dg ⟨fl, wid, prec, verb⟩ (.fin neg m e) := by
    simp [cFmtFloat]
  rcases hverb with h | h | h | h | h <;> subst h <;> simp [goFormat, cFormat, key, hc]


end GoawkModel.C09
