import GoawkModel.C08
/-! Helper lemmas for the CSV write → read round trip (C08). Core Lean only. -/
namespace GoawkModel.C08
open GoawkModel

/-! ### separators -/

theorem isPrefixOf_append_self (sep rest : Bytes) : sep.isPrefixOf (sep ++ rest) = true := by
  induction sep with
  | nil => simp [List.isPrefixOf]
  | cons a s ih => simp [List.isPrefixOf, ih]

/-- if `sep` is a prefix of `s ++ tail` it is a prefix of `s`, or `tail` begins with one of the bytes of `sep` after
position `s.length` -/
theorem prefix_split : ∀ (sep s tail : Bytes), sep.isPrefixOf (s ++ tail) = true →
    sep.isPrefixOf s = true ∨ ∃ h t, tail = h :: t ∧ h ∈ sep.drop s.length := by
  intro sep s
  induction s generalizing sep with
  | nil =>
    intro tail h
    cases sep with
    | nil => left; simp [List.isPrefixOf]
    | cons c sep' =>
      cases tail with
      | nil => simp [List.isPrefixOf] at h
      | cons x t =>
        simp [List.isPrefixOf] at h
        right; exact ⟨x, t, rfl, by simp [h.1]⟩
  | cons b s' ih =>
    intro tail h
    cases sep with
    | nil => left; simp [List.isPrefixOf]
    | cons c sep' =>
      simp [List.isPrefixOf] at h
      rcases ih sep' tail (by simpa using h.2) with h1 | ⟨x, t, ht, hx⟩
      · left; simp [List.isPrefixOf, h.1, h1]
      · right; exact ⟨x, t, ht, by simpa using hx⟩

theorem validSep_cons {sep : Bytes} (hs : validSep sep = true) :
    ∃ h t, sep = h :: t ∧ isCont h = false ∧ h ≠ 34 ∧ h ≠ 13 ∧ h ≠ 10 ∧ ∀ b ∈ t, isCont b = true := by
  cases sep with
  | nil => simp [validSep] at hs
  | cons h t =>
    simp [validSep] at hs
    exact ⟨h, t, rfl, by simpa using hs.1.1.1.1, hs.1.1.1.2, hs.1.1.2, hs.1.2, hs.2⟩

theorem isCont_ne {b : UInt8} (h : isCont b = true) : b ≠ 10 ∧ b ≠ 13 ∧ b ≠ 34 := by
  refine ⟨?_, ?_, ?_⟩ <;> (intro hb; subst hb; revert h; decide)

/-- `tail` does not start with a continuation byte -/
def HeadNotCont (tail : Bytes) : Prop := ∀ h t, tail = h :: t → isCont h = false

/-- no occurrence of `sep` starts inside `f` when `f` is followed by `tail` -/
def noSepIn (sep tail : Bytes) : Bytes → Bool
  | [] => true
  | b :: f => !sep.isPrefixOf (b :: f ++ tail) && noSepIn sep tail f

theorem noSepIn_of {sep : Bytes} (hs : validSep sep = true) {tail : Bytes} (ht : HeadNotCont tail) :
    ∀ f, containsSub sep f = false → noSepIn sep tail f = true := by
  obtain ⟨h, t, rfl, -, -, -, -, hcont⟩ := validSep_cons hs
  intro f
  induction f with
  | nil => intro _; rfl
  | cons b f ih =>
    intro hc
    simp [containsSub] at hc
    simp only [noSepIn, Bool.and_eq_true, Bool.not_eq_true', ih hc.2, and_true]
    cases hp : (h :: t).isPrefixOf (b :: f ++ tail) with
    | false => rfl
    | true =>
      exfalso
      rcases prefix_split (h :: t) (b :: f) tail hp with h1 | ⟨x, r, hr, hx⟩
      · simp [hc.1] at h1
      · have hx' : x ∈ t := by
          simp only [List.length_cons, List.drop_succ_cons] at hx
          exact List.mem_of_mem_drop hx
        have := ht x r hr
        rw [hcont x hx'] at this
        exact absurd this (by simp)

/-! ### unquoted fields -/

theorem unq_pass (sep tail : Bytes) : ∀ f : Bytes, noSepIn sep tail f = true → (10 ∉ f) → (13 ∉ f) →
    unq sep (f ++ tail) = ((f ++ (unq sep tail).1), (unq sep tail).2.1, (unq sep tail).2.2) := by
  intro f
  induction f with
  | nil => intro _ _ _; simp
  | cons b f ih =>
    intro hn h10 h13
    simp [noSepIn] at hn
    simp at h10 h13
    have hb10 : b ≠ 10 := fun h => h10.1 h.symm
    have hb13 : b ≠ 13 := fun h => h13.1 h.symm
    have := ih hn.2 h10.2 h13.2
    simp only [List.cons_append, unq]
    have hp : sep.isPrefixOf (b :: (f ++ tail)) = false := by simpa using hn.1
    simp [hp, hb10, hb13, this]

theorem unq_sep {sep : Bytes} (hs : validSep sep = true) (rest : Bytes) :
    unq sep (sep ++ rest) = ([], rest, .sep) := by
  obtain ⟨h, t, rfl, -, -, -, -, -⟩ := validSep_cons hs
  have := isPrefixOf_append_self (h :: t) rest
  simp only [List.cons_append] at this
  simp only [List.cons_append, unq, this, if_true]
  simp

theorem not_prefix_of_head {sep : Bytes} (hs : validSep sep = true) (b : UInt8) (rest : Bytes)
    (hb : isCont b = true ∨ b = 10 ∨ b = 13 ∨ b = 34) : sep.isPrefixOf (b :: rest) = false := by
  obtain ⟨h, t, rfl, hc, h34, h13, h10, -⟩ := validSep_cons hs
  have : h ≠ b := by
    rcases hb with hb | hb | hb | hb
    · intro e; subst e; rw [hb] at hc; exact absurd hc (by simp)
    · subst hb; exact h10
    · subst hb; exact h13
    · subst hb; exact h34
  simp [List.isPrefixOf, this]

theorem unq_eol {sep : Bytes} (hs : validSep sep = true) (rest : Bytes) :
    unq sep (10 :: rest) = ([], rest, .eol) := by
  simp [unq, not_prefix_of_head hs 10 rest (by simp)]

/-! ### quoted fields -/

theorem quo_pass (sep q : Bytes) : ∀ f : Bytes, (13 ∉ f) →
    quo sep (escape f ++ q) = (f ++ (quo sep q).1, (quo sep q).2.1, (quo sep q).2.2.1, (quo sep q).2.2.2) := by
  intro f
  induction f with
  | nil => intro _; simp [escape]
  | cons b f ih =>
    intro h13
    simp at h13
    have hb13 : b ≠ 13 := fun h => h13.1 h.symm
    have := ih h13.2
    by_cases hb : b = 34
    · subst hb
      simp only [escape, if_true, List.cons_append]
      rw [quo]
      simp [this]
    · simp only [escape, hb, if_false, List.cons_append]
      rw [quo.eq_def]
      simp [hb, hb13, this]

theorem quo_close_sep {sep : Bytes} (hs : validSep sep = true) (rest : Bytes) :
    quo sep (34 :: (sep ++ rest)) = ([], rest, .sep, false) := by
  obtain ⟨h, t, rfl, hc, h34, h13, h10, hcont⟩ := validSep_cons hs
  have := isPrefixOf_append_self (h :: t) rest
  simp only [List.cons_append] at this
  show quo (h :: t) (34 :: h :: (t ++ rest)) = _
  rw [quo.eq_def]
  simp [h34, this]

theorem quo_close_eol {sep : Bytes} (hs : validSep sep = true) (rest : Bytes) :
    quo sep (34 :: 10 :: rest) = ([], rest, .eol, false) := by
  rw [quo.eq_def]
  simp [not_prefix_of_head hs 10 rest (by simp)]

theorem quo_close_eof (sep : Bytes) : quo sep [34] = ([], [], .eof, false) := by
  rw [quo.eq_def]; simp


/-! ### one field, followed by a separator, a line feed or the end of the input -/

/-- what follows an encoded field, with the rest and the end kind the reader must report -/
inductive Tail (sep : Bytes) : Bytes → Bytes → End → Prop
  | sep (rest : Bytes) : Tail sep (sep ++ rest) rest .sep
  | eol (rest : Bytes) : Tail sep (10 :: rest) rest .eol
  | eof : Tail sep [] [] .eof

theorem Tail.headNotCont {sep tail rest : Bytes} {e : End} (hs : validSep sep = true) (ht : Tail sep tail rest e) :
    HeadNotCont tail := by
  obtain ⟨h, t, rfl, hc, -, -, -, -⟩ := validSep_cons hs
  intro x r hx
  cases ht with
  | sep rest => simp at hx; rw [← hx.1]; exact hc
  | eol rest => simp at hx; rw [← hx.1]; decide
  | eof => simp at hx

theorem Tail.head_ne {sep tail rest : Bytes} {e : End} (hs : validSep sep = true) (ht : Tail sep tail rest e) :
    ∀ x r, tail = x :: r → x ≠ 34 := by
  obtain ⟨h, t, rfl, -, h34, -, -, -⟩ := validSep_cons hs
  intro x r hx
  cases ht with
  | sep rest => simp at hx; rw [← hx.1]; exact h34
  | eol rest => simp at hx; rw [← hx.1]; decide
  | eof => simp at hx

theorem unq_tail {sep tail rest : Bytes} {e : End} (hs : validSep sep = true) (ht : Tail sep tail rest e) :
    unq sep tail = ([], rest, e) := by
  cases ht with
  | sep rest => exact unq_sep hs rest
  | eol rest => exact unq_eol hs rest
  | eof => simp [unq]

theorem quo_tail {sep tail rest : Bytes} {e : End} (hs : validSep sep = true) (ht : Tail sep tail rest e) :
    quo sep (34 :: tail) = ([], rest, e, false) := by
  cases ht with
  | sep rest => exact quo_close_sep hs rest
  | eol rest => exact quo_close_eol hs rest
  | eof => exact quo_close_eof sep

theorem contains_false_iff {f : Bytes} {b : UInt8} : f.contains b = false ↔ b ∉ f := by
  simp

/-- an unquoted field is free of quotes, line breaks and separators -/
theorem needsQuotes_false {sep f : Bytes} (h : needsQuotes sep f = false) :
    f = [] ∨ (10 ∉ f ∧ 13 ∉ f ∧ 34 ∉ f ∧ containsSub sep f = false) := by
  unfold needsQuotes at h
  by_cases hf : f = []
  · left; exact hf
  · right
    simp only [hf, if_false] at h
    by_cases h2 : f = [92, 46]
    · simp [h2] at h
    · simp only [h2, if_false] at h
      have h' : (f.contains 10 || f.contains 13 || f.contains 34 || containsSub sep f) = false := by
        cases hx : (f.contains 10 || f.contains 13 || f.contains 34 || containsSub sep f) with
        | false => rfl
        | true => rw [hx] at h; simp at h
      simp only [Bool.or_eq_false_iff] at h'
      obtain ⟨⟨⟨a, b⟩, c⟩, d⟩ := h'
      exact ⟨by simpa using a, by simpa using b, by simpa using c, d⟩

theorem field_tail {sep tail rest : Bytes} {e : End} (hs : validSep sep = true) (ht : Tail sep tail rest e) :
    field sep tail = ([], rest, e, false) := by
  cases ht with
  | sep rest =>
    have h1 := unq_sep hs rest
    obtain ⟨h, t, rfl, -, h34, -, -, -⟩ := validSep_cons hs
    simp only [List.cons_append] at h1 ⊢
    simp [field, h34, h1]
  | eol rest => simp [field, unq_eol hs rest]
  | eof => simp [field]

theorem field_encode {sep tail rest : Bytes} {e : End} (hs : validSep sep = true) (ht : Tail sep tail rest e)
    (f : Bytes) (h13 : 13 ∉ f) : field sep (encodeField sep f ++ tail) = (f, rest, e, false) := by
  unfold encodeField
  by_cases hq : needsQuotes sep f = true
  · simp only [hq, if_true, List.cons_append, List.append_assoc, field]
    have h1 := quo_pass sep (34 :: tail) f h13
    rw [quo_tail hs ht] at h1
    simpa using h1
  · simp only [Bool.not_eq_true] at hq
    simp only [hq, Bool.false_eq_true, if_false]
    rcases needsQuotes_false hq with hf | ⟨h10, -, h34, hsub⟩
    · subst hf
      simpa using field_tail hs ht
    · cases f with
      | nil => simpa using field_tail hs ht
      | cons b f' =>
        have hb : b ≠ 34 := by intro hb; subst hb; simp at h34
        have hp := unq_pass sep tail (b :: f') (noSepIn_of hs (ht.headNotCont hs) _ hsub) h10 h13
        rw [unq_tail hs ht] at hp
        simp only [List.cons_append, field, hb, if_false]
        simp only [List.cons_append] at hp
        rw [hp]; simp

/-! ### one record -/

theorem joinRaw_cons2 (sep f g : Bytes) (fs : List Bytes) :
    joinRaw sep (f :: g :: fs) = encodeField sep f ++ sep ++ joinRaw sep (g :: fs) := by
  simp [joinRaw]

theorem fields_joinRaw {sep tail rest : Bytes} {e : End} (hs : validSep sep = true) (ht : Tail sep tail rest e)
    (he : e ≠ .sep) : ∀ (fs : List Bytes) (n : Nat), fs ≠ [] → (∀ f ∈ fs, 13 ∉ f) → fs.length ≤ n →
    fieldsFuel sep n (joinRaw sep fs ++ tail) = (fs, rest, e == .eof, false) := by
  intro fs
  induction fs with
  | nil => intro n h; exact absurd rfl h
  | cons f fs ih =>
    intro n _ h13 hn
    cases n with
    | zero => simp at hn
    | succ m =>
      cases fs with
      | nil =>
        simp only [joinRaw, fieldsFuel]
        rw [field_encode hs ht f (h13 f (by simp))]
        cases e <;> simp at he ⊢
      | cons g fs' =>
        rw [joinRaw_cons2]
        simp only [List.append_assoc, fieldsFuel]
        rw [field_encode hs (Tail.sep (sep := sep) (joinRaw sep (g :: fs') ++ tail)) f (h13 f (by simp))]
        have := ih m (by simp) (fun x hx => h13 x (by simp [hx])) (by simp at hn ⊢; omega)
        simp [this]

theorem joinRaw_length {sep : Bytes} (hs : validSep sep = true) :
    ∀ fs : List Bytes, fs.length ≤ (joinRaw sep fs).length + 1 := by
  obtain ⟨h, t, rfl, -⟩ := validSep_cons hs
  intro fs
  induction fs with
  | nil => simp
  | cons f fs ih =>
    cases fs with
    | nil => simp [joinRaw]
    | cons g fs' =>
      rw [joinRaw_cons2]
      simp only [List.length_cons, List.length_append] at ih ⊢
      omega

/-- a written record never starts with a line break, unless it is the single empty field -/
theorem joinRaw_head {sep : Bytes} (hs : validSep sep = true) (fs : List Bytes) (h1 : fs ≠ []) (h2 : fs ≠ [[]]) :
    ∃ b t, joinRaw sep fs = b :: t ∧ b ≠ 10 ∧ b ≠ 13 := by
  obtain ⟨h, t, rfl, -, -, hh13, hh10, -⟩ := validSep_cons hs
  cases fs with
  | nil => exact absurd rfl h1
  | cons f fs' =>
    have key : (∃ b t', encodeField (h :: t) f = b :: t' ∧ b ≠ 10 ∧ b ≠ 13) ∨ (f = [] ∧ encodeField (h :: t) f = []) := by
      unfold encodeField
      by_cases hq : needsQuotes (h :: t) f = true
      · left; simp [hq]
      · simp only [Bool.not_eq_true] at hq
        simp only [hq, Bool.false_eq_true, if_false]
        rcases needsQuotes_false hq with hf | ⟨h10, h13, -, -⟩
        · right; exact ⟨hf, hf⟩
        · cases f with
          | nil => right; exact ⟨rfl, rfl⟩
          | cons b f' =>
            left; refine ⟨b, f', rfl, ?_, ?_⟩
            · intro hb; subst hb; simp at h10
            · intro hb; subst hb; simp at h13
    cases fs' with
    | nil =>
      rcases key with ⟨b, t', he, hb⟩ | ⟨hf, _⟩
      · exact ⟨b, t', by simp [joinRaw, he], hb⟩
      · subst hf; exact absurd rfl h2
    | cons g fs'' =>
      rw [joinRaw_cons2]
      rcases key with ⟨b, t', he, hb⟩ | ⟨_, he⟩
      · exact ⟨b, t' ++ ((h :: t) ++ joinRaw (h :: t) (g :: fs'')), by rw [he]; simp, hb⟩
      · exact ⟨h, t ++ joinRaw (h :: t) (g :: fs''), by rw [he]; simp, hh10, hh13⟩

/-! ### `joinFields` = `joinRaw` except for the single empty field, which is written as `""` -/

theorem joinFields_single_empty (sep : Bytes) : joinFields sep [[]] = [34, 34] := by simp [joinFields]

theorem joinFields_of_ne {sep : Bytes} {fs : List Bytes} (h : fs ≠ [[]]) : joinFields sep fs = joinRaw sep fs := by
  simp [joinFields, h]

theorem fields_join {sep tail rest : Bytes} {e : End} (hs : validSep sep = true) (ht : Tail sep tail rest e)
    (he : e ≠ .sep) (fs : List Bytes) (n : Nat) (h1 : fs ≠ []) (h13 : ∀ f ∈ fs, 13 ∉ f) (hn : fs.length ≤ n) :
    fieldsFuel sep n (joinFields sep fs ++ tail) = (fs, rest, e == .eof, false) := by
  by_cases h2 : fs = [[]]
  · subst h2
    cases n with
    | zero => simp at hn
    | succ m =>
      rw [joinFields_single_empty]
      simp only [List.cons_append, List.nil_append, fieldsFuel, field, if_true]
      rw [quo_tail hs ht]
      cases e <;> simp at he ⊢
  · rw [joinFields_of_ne h2]
    exact fields_joinRaw hs ht he fs n h1 h13 hn

theorem joinFields_length {sep : Bytes} (hs : validSep sep = true) (fs : List Bytes) :
    fs.length ≤ (joinFields sep fs).length + 1 := by
  by_cases h2 : fs = [[]]
  · subst h2; simp [joinFields]
  · rw [joinFields_of_ne h2]; exact joinRaw_length hs fs

/-- a written record never starts with a line break -/
theorem joinFields_head {sep : Bytes} (hs : validSep sep = true) (fs : List Bytes) (h1 : fs ≠ []) :
    ∃ b t, joinFields sep fs = b :: t ∧ b ≠ 10 ∧ b ≠ 13 := by
  by_cases h2 : fs = [[]]
  · subst h2; exact ⟨34, [34], by simp [joinFields], by decide, by decide⟩
  · rw [joinFields_of_ne h2]; exact joinRaw_head hs fs h1 h2

/-- one written record at the front of the input (ended by a line feed or by the end of the input) is read as exactly
its fields, and reading continues after it -/
theorem records_step_tail {cfg : Cfg} (hs : validSep cfg.sep = true) (cr : Bool) (fs : List Bytes) (h1 : fs ≠ [])
    (h13 : ∀ f ∈ fs, 13 ∉ f) {tail rest : Bytes} {e : End} (ht : Tail cfg.sep tail rest e) (he : e ≠ .sep)
    (hc : cfg.comment = [] ∨ cfg.comment.isPrefixOf (joinFields cfg.sep fs ++ tail) = false) (n : Nat) :
    (recordsFuel cfg cr (n + 1) (joinFields cfg.sep fs ++ tail)).map Prod.fst =
      fs :: (recordsFuel cfg cr n rest).map Prod.fst := by
  obtain ⟨b, t, hbt, hb10, hb13⟩ := joinFields_head hs fs h1
  have hf := fields_join hs ht he fs
    ((joinFields cfg.sep fs ++ tail).length + 1) h1 h13
    (by have := joinFields_length hs fs; simp only [List.length_append]; omega)
  generalize hR : joinFields cfg.sep fs ++ tail = r at hf hc ⊢
  have hne : r ≠ [] := by rw [← hR, hbt]; simp
  have hh : r.head? = some b := by rw [← hR, hbt]; simp
  have hcm : ¬ (cfg.comment ≠ [] ∧ cfg.comment.isPrefixOf r = true) := by
    rcases hc with hc | hc
    · simp [hc]
    · simp [hc]
  rw [recordsFuel]
  simp only [hne, if_false, hcm, hh, Option.some.injEq, hb10, hb13, false_and, hf]
  simp

theorem records_step {cfg : Cfg} (hs : validSep cfg.sep = true) (cr : Bool) (fs : List Bytes) (h1 : fs ≠ [])
    (h13 : ∀ f ∈ fs, 13 ∉ f) (rest : Bytes)
    (hc : cfg.comment = [] ∨ cfg.comment.isPrefixOf (csvWrite cfg.sep fs ++ rest) = false) (n : Nat) :
    (recordsFuel cfg cr (n + 1) (csvWrite cfg.sep fs ++ rest)).map Prod.fst =
      fs :: (recordsFuel cfg cr n rest).map Prod.fst := by
  have hr : csvWrite cfg.sep fs ++ rest = joinFields cfg.sep fs ++ 10 :: rest := by simp [csvWrite]
  rw [hr] at hc ⊢
  exact records_step_tail hs cr fs h1 h13 (Tail.eol rest) (by simp) hc n

/-! ### whole outputs -/

/-- everything a sequence of `print` statements writes in CSV/TSV output mode -/
def writeAll (sep : Bytes) (fss : List (List Bytes)) : Bytes := (fss.map (csvWrite sep)).flatten

theorem writeAll_cons (sep : Bytes) (fs : List Bytes) (fss : List (List Bytes)) :
    writeAll sep (fs :: fss) = csvWrite sep fs ++ writeAll sep fss := by
  simp [writeAll]

/-- the comment character (if any) does not start any written record -/
def NoCommentStart (cfg : Cfg) (fss : List (List Bytes)) : Prop :=
  cfg.comment = [] ∨ ∀ fs ∈ fss, ∀ rest, cfg.comment.isPrefixOf (csvWrite cfg.sep fs ++ rest) = false

theorem records_all {cfg : Cfg} (hs : validSep cfg.sep = true) (cr : Bool) :
    ∀ (fss : List (List Bytes)), (∀ fs ∈ fss, fs ≠ []) → (∀ fs ∈ fss, ∀ f ∈ fs, 13 ∉ f) →
      NoCommentStart cfg fss → ∀ n, fss.length ≤ n →
      (recordsFuel cfg cr n (writeAll cfg.sep fss)).map Prod.fst = fss := by
  intro fss
  induction fss with
  | nil =>
    intro _ _ _ n _
    cases n <;> simp [writeAll, recordsFuel]
  | cons fs fss ih =>
    intro hne h13 hc n hn
    cases n with
    | zero => simp at hn
    | succ m =>
      rw [writeAll_cons]
      have hc1 : cfg.comment = [] ∨ cfg.comment.isPrefixOf (csvWrite cfg.sep fs ++ writeAll cfg.sep fss) = false := by
        rcases hc with hc | hc
        · left; exact hc
        · right; exact hc fs (by simp) _
      have hc2 : NoCommentStart cfg fss := by
        rcases hc with hc | hc
        · left; exact hc
        · right; intro x hx; exact hc x (by simp [hx])
      rw [records_step hs cr fs (hne fs (by simp)) (h13 fs (by simp)) _ hc1 m]
      rw [ih (fun x hx => hne x (by simp [hx])) (fun x hx => h13 x (by simp [hx])) hc2 m (by simp at hn; omega)]

theorem writeAll_length (sep : Bytes) : ∀ fss : List (List Bytes), fss.length ≤ (writeAll sep fss).length := by
  intro fss
  induction fss with
  | nil => simp
  | cons fs fss ih =>
    rw [writeAll_cons]
    simp only [csvWrite, List.length_cons, List.length_append, List.length_nil]
    omega

theorem writeAll_getLast (sep : Bytes) : ∀ fss : List (List Bytes), (writeAll sep fss).getLast? ≠ some 13 := by
  intro fss
  induction fss with
  | nil => simp [writeAll]
  | cons fs fss ih =>
    rw [writeAll_cons, List.getLast?_append]
    cases hx : (writeAll sep fss).getLast? with
    | none => simp [csvWrite]
    | some x => rw [hx] at ih; simpa using ih

theorem csvRows_writeAll {cfg : Cfg} (hs : validSep cfg.sep = true) (fss : List (List Bytes))
    (hne : ∀ fs ∈ fss, fs ≠ []) (h13 : ∀ fs ∈ fss, ∀ f ∈ fs, 13 ∉ f) (hc : NoCommentStart cfg fss)
    (hb : bom.isPrefixOf (writeAll cfg.sep fss) = false) :
    (csvRows cfg (writeAll cfg.sep fss)).map Prod.fst = fss := by
  unfold csvRows dropBOM dropFinalCR
  simp only [hb, Bool.false_eq_true, if_false, writeAll_getLast cfg.sep fss]
  exact records_all hs false fss hne h13 hc _ (by have := writeAll_length cfg.sep fss; omega)

/-! ### the rebuilt `$0` -/

theorem escape_no13 : ∀ f : Bytes, 13 ∉ f → 13 ∉ escape f := by
  intro f
  induction f with
  | nil => simp [escape]
  | cons b f ih =>
    intro h
    simp at h
    by_cases hb : b = 34
    · subst hb; simp [escape, ih h.2]
    · simp only [escape, hb, if_false, List.mem_cons, not_or]
      exact ⟨h.1, ih h.2⟩

theorem sep_no13 {sep : Bytes} (hs : validSep sep = true) : 13 ∉ sep := by
  obtain ⟨h, t, rfl, -, -, h13, -, hcont⟩ := validSep_cons hs
  simp only [List.mem_cons, not_or]
  refine ⟨fun e => h13 e.symm, fun hm => ?_⟩
  exact (isCont_ne (hcont 13 hm)).2.1 rfl

theorem encodeField_no13 (sep f : Bytes) (h : 13 ∉ f) : 13 ∉ encodeField sep f := by
  unfold encodeField
  by_cases hq : needsQuotes sep f = true
  · have := escape_no13 f h
    simp [hq, this]
  · simp only [Bool.not_eq_true] at hq
    simp [hq, h]

theorem joinRaw_no13 {sep : Bytes} (hs : validSep sep = true) :
    ∀ fs : List Bytes, (∀ f ∈ fs, 13 ∉ f) → 13 ∉ joinRaw sep fs := by
  intro fs
  induction fs with
  | nil => simp [joinRaw]
  | cons f fs ih =>
    intro h
    cases fs with
    | nil => simpa [joinRaw] using encodeField_no13 sep f (h f (by simp))
    | cons g fs' =>
      rw [joinRaw_cons2]
      have a := encodeField_no13 sep f (h f (by simp))
      have b := sep_no13 hs
      have c := ih (fun x hx => h x (by simp [hx]))
      simp only [List.mem_append, not_or]
      exact ⟨⟨a, b⟩, c⟩

theorem joinFields_no13 {sep : Bytes} (hs : validSep sep = true) (fs : List Bytes) (h : ∀ f ∈ fs, 13 ∉ f) :
    13 ∉ joinFields sep fs := by
  by_cases h2 : fs = [[]]
  · subst h2; simp [joinFields]
  · rw [joinFields_of_ne h2]; exact joinRaw_no13 hs fs h

theorem getLast_ne_of_not_mem {l : Bytes} {b : UInt8} (h : b ∉ l) : l.getLast? ≠ some b := by
  intro hl
  exact h (List.mem_of_getLast? hl)

theorem reparse_joinFields {cfg : Cfg} (hs : validSep cfg.sep = true) (fs : List Bytes) (h1 : fs ≠ [])
    (h13 : ∀ f ∈ fs, 13 ∉ f)
    (hc : cfg.comment = [] ∨ cfg.comment.isPrefixOf (joinFields cfg.sep fs) = false)
    (hb : bom.isPrefixOf (joinFields cfg.sep fs) = false) :
    reparse cfg (joinFields cfg.sep fs) = fs := by
  unfold reparse csvRows dropBOM dropFinalCR
  have hl := getLast_ne_of_not_mem (joinFields_no13 hs fs h13)
  simp only [hb, Bool.false_eq_true, if_false, hl]
  have hs' : validSep ({ cfg with header := false } : Cfg).sep = true := hs
  have := records_step_tail (cfg := { cfg with header := false }) hs' false fs h1 h13 Tail.eof (by simp)
    (by simpa using hc) (joinFields cfg.sep fs).length
  simp only [List.append_nil] at this
  generalize recordsFuel { cfg with header := false } false ((joinFields cfg.sep fs).length + 1) (joinFields cfg.sep fs) = l at this
  cases l with
  | nil => simp at this
  | cons p l' =>
    obtain ⟨a, b⟩ := p
    simp at this
    simp [this.1]

end GoawkModel.C08
