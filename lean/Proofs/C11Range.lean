import GoawkModel.C11
/-! Range patterns: the flag automaton of `execActions` against a positional, non-recursive definition of the selected
records. -/
namespace GoawkModel.C11

/-- the automaton run over the (begin-pattern value, end-pattern value) of each record that reaches the rule -/
def rangeRun : Bool → List (Bool × Bool) → List Bool
  | _, [] => []
  | f, (b, e) :: rest => (rangeStep f b e).1 :: rangeRun (rangeStep f b e).2 rest

/-- Declarative definition: record `i` is selected iff some record `j ≤ i` satisfies the first pattern and no record in
`j .. i-1` satisfies the second (so the segment that starts at `j` is still open at `i`; `j = i` is the one-record segment). -/
def Selected (xs : List (Bool × Bool)) (i : Nat) : Prop :=
  ∃ j, j ≤ i ∧ (xs.getD j (false, false)).1 = true ∧ ∀ k, j ≤ k → k < i → (xs.getD k (false, false)).2 = false

/-- `open0 xs i`: a range that was already open before `xs` is still open at `i` -/
def StillOpen (xs : List (Bool × Bool)) (i : Nat) : Prop :=
  ∀ k, k < i → (xs.getD k (false, false)).2 = false

theorem selected_cons_succ (x : Bool × Bool) (xs : List (Bool × Bool)) (i : Nat) :
    Selected (x :: xs) (i + 1) ↔ (Selected xs i ∨ (x.1 = true ∧ x.2 = false ∧ StillOpen xs i)) := by
  constructor
  · rintro ⟨j, hj, hb, he⟩
    cases j with
    | zero =>
      right
      refine ⟨by simpa using hb, by simpa using he 0 (Nat.le_refl 0) (Nat.succ_pos i), ?_⟩
      intro k hk
      simpa using he (k + 1) (Nat.zero_le _) (Nat.succ_lt_succ hk)
    | succ j =>
      left
      refine ⟨j, Nat.le_of_succ_le_succ hj, by simpa using hb, ?_⟩
      intro k hjk hki
      simpa using he (k + 1) (Nat.succ_le_succ hjk) (Nat.succ_lt_succ hki)
  · rintro (⟨j, hj, hb, he⟩ | ⟨hb, he, ho⟩)
    · refine ⟨j + 1, Nat.succ_le_succ hj, by simpa using hb, ?_⟩
      intro k hjk hki
      cases k with
      | zero => omega
      | succ k => simpa using he k (Nat.le_of_succ_le_succ hjk) (Nat.lt_of_succ_lt_succ hki)
    · refine ⟨0, Nat.zero_le _, by simpa using hb, ?_⟩
      intro k _ hki
      cases k with
      | zero => simpa using he
      | succ k => simpa using ho k (Nat.lt_of_succ_lt_succ hki)

theorem stillOpen_cons_succ (x : Bool × Bool) (xs : List (Bool × Bool)) (i : Nat) :
    StillOpen (x :: xs) (i + 1) ↔ (x.2 = false ∧ StillOpen xs i) := by
  constructor
  · intro h
    refine ⟨by simpa using h 0 (Nat.succ_pos i), ?_⟩
    intro k hk
    simpa using h (k + 1) (Nat.succ_lt_succ hk)
  · rintro ⟨he, ho⟩ k hk
    cases k with
    | zero => simpa using he
    | succ k => simpa using ho k (Nat.lt_of_succ_lt_succ hk)

/-- the automaton started with flag `f` selects record `i` iff a segment starting inside `xs` covers `i`, or `f` was set
and the range it stands for has not been closed before `i` -/
theorem rangeRun_spec : ∀ (xs : List (Bool × Bool)) (f : Bool) (i : Nat), i < xs.length →
    ((rangeRun f xs).getD i false = true ↔ (Selected xs i ∨ (f = true ∧ StillOpen xs i)))
  | [], _, i, h => by simp at h
  | (b, e) :: rest, f, 0, _ => by
    have hsel : Selected ((b, e) :: rest) 0 ↔ b = true := by
      constructor
      · rintro ⟨j, hj, hb, _⟩
        have : j = 0 := by omega
        subst this
        simpa using hb
      · intro hb
        exact ⟨0, Nat.le_refl 0, by simpa using hb, by intro k _ hk; omega⟩
    have hopen : StillOpen ((b, e) :: rest) 0 := by intro k hk; omega
    simp only [rangeRun, rangeStep, List.getD_cons_zero, hsel]
    cases f <;> cases b <;> simp [hopen]
  | (b, e) :: rest, f, i + 1, h => by
    have hlen : i < rest.length := by simpa using h
    have ih := rangeRun_spec rest (rangeStep f b e).2 i hlen
    simp only [rangeRun, List.getD_cons_succ]
    rw [ih, selected_cons_succ, stillOpen_cons_succ]
    simp only [rangeStep]
    cases f <;> cases b <;> cases e <;> simp

/-- the closed form for a rule that starts closed (as every range rule does: `inRange` is allocated all-false) -/
theorem rangeRun_selected (xs : List (Bool × Bool)) (i : Nat) (h : i < xs.length) :
    (rangeRun false xs).getD i false = true ↔ Selected xs i := by
  simpa using rangeRun_spec xs false i h

theorem rangeRun_length : ∀ (xs : List (Bool × Bool)) (f : Bool), (rangeRun f xs).length = xs.length
  | [], _ => rfl
  | (b, e) :: rest, f => by simp [rangeRun, rangeRun_length rest]

end GoawkModel.C11
