import Proofs.C03Regex
/-! C03 — termination / fuel adequacy: offsets never decrease, each `Scan()` that is not EOF / ILLEGAL consumes a byte, every loop of the
model stops by its own exit condition when given the fuel `lex` gives it, and the token stream ends in EOF or ILLEGAL. -/
namespace GoawkModel.C03
open GoawkModel
open GoawkModel.Generated.C03Lex

/-- the lexer's offset is at least `a` -/
def OffLe (a : Nat) (s : St) : Prop := a ≤ s.offset

theorem offLe_next {src : Bytes} {a : Nat} {s : St} (h : OffLe a s) : OffLe a (next src s) := by
  unfold OffLe at *
  unfold next
  dsimp only
  split
  · split
    · show a ≤ s.offset + 1; omega
    · exact h
  · show a ≤ s.offset + 1; omega

syntax "off_step" : tactic
macro_rules
  | `(tactic| off_step) => `(tactic| first | assumption | with_reducible apply offLe_next | split | dsimp only)

theorem offLe_whileCh {src : Bytes} {a : Nat} (p : UInt8 → Bool) : ∀ (n : Nat) (s : St), OffLe a s → OffLe a (whileCh src p n s)
  | 0, _, h => h
  | n + 1, s, h => by
    unfold whileCh
    split
    · exact offLe_whileCh p n _ (offLe_next h)
    · exact h

theorem offLe_skipWs {src : Bytes} {a : Nat} : ∀ (n : Nat) (s : St), OffLe a s → OffLe a (skipWs src n s).1
  | 0, _, h => h
  | n + 1, s, h => by
    have h1 : OffLe a { s with hadSpace := true } := h
    unfold skipWs
    repeat (first | with_reducible apply offLe_skipWs n | off_step)

theorem offLe_skipComment {src : Bytes} {a : Nat} (n : Nat) {s : St} (h : OffLe a s) : OffLe a (skipComment src n s) := by
  unfold skipComment
  repeat (first | with_reducible apply offLe_whileCh | off_step)

theorem offLe_uniDigits {src : Bytes} {a : Nat} : ∀ (k : Nat) (s : St) (r : Nat), OffLe a s → OffLe a (uniDigits src k s r).1
  | 0, _, _, h => h
  | k + 1, s, r, h => by
    unfold uniDigits
    repeat (first | with_reducible apply offLe_uniDigits k | off_step)

theorem offLe_octDigits {src : Bytes} {a : Nat} : ∀ (k : Nat) (s : St) (c : UInt8), OffLe a s → OffLe a (octDigits src k s c).1
  | 0, _, _, h => h
  | k + 1, s, c, h => by
    unfold octDigits
    repeat (first | with_reducible apply offLe_octDigits k | off_step)

theorem offLe_escHex {src : Bytes} {a : Nat} {s : St} (h : OffLe a s) : OffLe a (escHex src s).1 := by
  unfold escHex
  repeat off_step

theorem offLe_escUni {src : Bytes} {a : Nat} {s : St} (h : OffLe a s) : OffLe a (escUni src s).1 := by
  unfold escUni
  repeat (first | with_reducible apply offLe_uniDigits | off_step)

theorem offLe_escape {src : Bytes} {a : Nat} {s : St} (h : OffLe a s) : OffLe a (escape src s).1 := by
  unfold escape
  repeat (first | with_reducible apply offLe_escHex | with_reducible apply offLe_escUni | with_reducible apply offLe_octDigits | off_step)

theorem offLe_parseString {src : Bytes} {a : Nat} (q : UInt8) : ∀ (n : Nat) (s : St) (acc : Bytes), OffLe a s → OffLe a (parseString src q n s acc).1
  | 0, _, _, h => h
  | n + 1, s, acc, h => by
    have he := offLe_escape (src := src) h
    unfold parseString
    repeat (first | with_reducible apply offLe_parseString q n | off_step)

theorem offLe_regexLoop {src : Bytes} {a : Nat} : ∀ (n : Nat) (s : St) (acc : Bytes), OffLe a s → OffLe a (regexLoop src n s acc).1
  | 0, _, _, h => h
  | n + 1, s, acc, h => by
    unfold regexLoop
    repeat (first | with_reducible apply offLe_regexLoop n | off_step)

theorem offLe_scanOp {src : Bytes} {a : Nat} {s : St} (d : Nat) (alts : List (Nat × Nat × List (Nat × Nat))) (h : OffLe a s) :
    OffLe a (scanOp src s d alts).1 := by
  unfold scanOp
  repeat off_step

theorem offLe_scanMantissa {src : Bytes} {a : Nat} (fuel : Nat) (c : UInt8) {s : St} (h : OffLe a s) : OffLe a (scanMantissa src fuel c s).1 := by
  unfold scanMantissa
  repeat (first | with_reducible apply offLe_whileCh | off_step)

theorem offLe_scanExponent {src : Bytes} {a : Nat} (fuel : Nat) {s : St} (hi : Inv src s) (h : OffLe a s) : OffLe a (scanExponent src fuel s) := by
  by_cases he : s.ch = 101 ∨ s.ch = 69
  · by_cases hd : isDigit (if (next src s).ch = 43 ∨ (next src s).ch = 45 then next src (next src s) else next src s).ch = false
    · rw [scanExponent_dangling fuel hi he hd]; exact h
    · have hcond : (s.ch = 101 || s.ch = 69) = true := by rcases he with he | he <;> simp [he]
      have hd' : isDigit (if (next src s).ch = 43 ∨ (next src s).ch = 45 then next src (next src s) else next src s).ch = true := by
        simpa using hd
      unfold scanExponent
      simp only [hcond, if_true]
      by_cases hs : (next src s).ch = 43 ∨ (next src s).ch = 45
      · have hsb : ((next src s).ch = 43 || (next src s).ch = 45) = true := by rcases hs with hs | hs <;> simp [hs]
        simp only [hs, if_true] at hd'
        simp only [hsb, if_true, hd', Bool.not_true, Bool.false_eq_true, if_false]
        exact offLe_whileCh _ _ _ (offLe_next (offLe_next h))
      · have hsb : ((next src s).ch = 43 || (next src s).ch = 45) = false := by
          simp only [not_or] at hs; simp [hs.1, hs.2]
        simp only [hs, if_false] at hd'
        simp only [hsb, Bool.false_eq_true, if_false, hd', Bool.not_true]
        exact offLe_whileCh _ _ _ (offLe_next h)
  · have hcond : (s.ch = 101 || s.ch = 69) = false := by
      simp only [not_or] at he; simp [he.1, he.2]
    unfold scanExponent
    simp only [hcond, Bool.false_eq_true, if_false]
    exact h

theorem offLe_scanBody {src : Bytes} {a : Nat} (fuel : Nat) (pos : Pos) (off : Nat) (ch : UInt8) {s : St} (hi : Inv src s) (h : OffLe a s) :
    OffLe a (scanBody src fuel pos off ch s).1 := by
  unfold scanBody
  split
  · unfold scanName; dsimp only
    split <;> exact offLe_whileCh _ _ _ h
  · split
    · unfold scanNum; dsimp only
      split
      · exact h
      · rename_i s' hs'
        unfold scanNumber at hs'
        dsimp only at hs'
        split at hs'
        · cases hs'
        · cases hs'
          exact offLe_scanExponent fuel (scanMantissa_inv fuel ch hi) (offLe_scanMantissa fuel ch h)
    · split
      · have hp := offLe_parseString (src := src) ch fuel s [] h
        unfold scanStr; dsimp only
        split
        · exact hp
        · split
          · exact hp
          · exact offLe_next hp
      · unfold scanPunct
        split
        · split
          · exact offLe_next h
          · exact h
        · split
          · exact offLe_scanOp _ _ h
          · exact h
theorem inv_offset_le {src : Bytes} {s : St} (h : Inv src s) : s.offset ≤ src.length + 1 := by
  rcases h with h | h
  · exact h.hi
  · have := h.off; omega

/-- a `Scan()` call either reports EOF / ILLEGAL or consumes at least one byte (the exponent un-read never goes back past the number) -/
theorem scan_progress {src : Bytes} (fuel : Nat) {s : St} (h : Inv src s) :
    (scan src fuel s).2.tok = T.EOF ∨ (scan src fuel s).2.tok = T.ILLEGAL ∨ s.offset < (scan src fuel s).1.offset := by
  have hw := skipWs_inv fuel _ (inv_hadSpace (src := src) false h)
  have hc := skipComment_inv fuel hw
  have ow : OffLe s.offset (skipWs src fuel { s with hadSpace := false }).1 := offLe_skipWs fuel _ (Nat.le_refl _)
  have oc := offLe_skipComment (src := src) fuel ow
  unfold scan
  dsimp only
  split
  · exact Or.inr (Or.inl rfl)
  · split
    · exact Or.inl rfl
    · rename_i h0
      right; right
      have hG := inv_G_of_ne hc h0
      have hn := next_G hG h0
      have : OffLe (s.offset + 1) (next src (skipComment src fuel (skipWs src fuel { s with hadSpace := false }).1)) := by
        unfold OffLe at *; rw [hn.2]; omega
      exact offLe_scanBody fuel _ _ _ (next_inv hc) this

theorem offLe_scanRegex {src : Bytes} {a : Nat} (fuel : Nat) {s : St} (h : OffLe a s) : OffLe a (scanRegex src fuel s).1 := by
  have hr := offLe_regexLoop (src := src) fuel s (if s.lastTok = T.DIV then [] else [61]) h
  unfold scanRegex
  dsimp only
  split
  · exact h
  · split
    · exact hr
    · exact offLe_next hr

theorem getLast?_cons_of_some {α : Type} {l : List α} {t : α} (a : α) (h : l.getLast? = some t) : (a :: l).getLast? = some t := by
  cases l with
  | nil => simp at h
  | cons b r => simpa [List.getLast?_cons_cons] using h

def Final (t : Token) : Prop := t.tok = T.EOF ∨ t.tok = T.ILLEGAL

/-- the client loop always ends with an EOF or ILLEGAL token: the outer fuel is never what stops it -/
theorem lexLoop_total {src : Bytes} (fuel : Nat) : ∀ (n : Nat) (s : St) (bits : List Bool), Inv src s → src.length + 2 ≤ n + s.offset →
    ∃ t, (lexLoop src fuel n s bits).getLast? = some t ∧ Final t
  | 0, s, _, h, hn => by have := inv_offset_le h; omega
  | n + 1, s, bits, h, hn => by
    have hs := scanTok_ok fuel h
    have hr := scanRegex_inv fuel hs.1
    have hp := scan_progress fuel h
    have hor := offLe_scanRegex (src := src) (a := (scanTok src fuel s).1.offset) fuel (Nat.le_refl _)
    unfold OffLe at hor
    have hoff : (scanTok src fuel s).1.offset = (scan src fuel s).1.offset := rfl
    have htok : (scanTok src fuel s).2 = (scan src fuel s).2 := rfl
    unfold lexLoop
    dsimp only
    split
    · rename_i hf
      refine ⟨_, rfl, ?_⟩
      simpa [Final] using hf
    · rename_i hf
      have hf' : ¬ ((scan src fuel s).2.tok = T.EOF) ∧ ¬ ((scan src fuel s).2.tok = T.ILLEGAL) := by
        rw [htok] at hf; simpa using hf
      have hlt : s.offset < (scanTok src fuel s).1.offset := by
        rcases hp with hp | hp | hp
        · exact absurd hp hf'.1
        · exact absurd hp hf'.2
        · rw [hoff]; exact hp
      split
      · split
        · split
          · rename_i hill
            exact ⟨_, rfl, Or.inr hill⟩
          · obtain ⟨t, ht, hfin⟩ := lexLoop_total fuel n _ _ hr (by omega)
            exact ⟨t, getLast?_cons_of_some _ (getLast?_cons_of_some _ ht), hfin⟩
        · obtain ⟨t, ht, hfin⟩ := lexLoop_total fuel n _ _ hs.1 (by omega)
          exact ⟨t, getLast?_cons_of_some _ ht, hfin⟩
        · obtain ⟨t, ht, hfin⟩ := lexLoop_total fuel n _ [] hs.1 (by omega)
          exact ⟨t, getLast?_cons_of_some _ ht, hfin⟩
      · obtain ⟨t, ht, hfin⟩ := lexLoop_total fuel n _ _ hs.1 (by omega)
        exact ⟨t, getLast?_cons_of_some _ ht, hfin⟩
theorem next_offset_of_ne {src : Bytes} {s : St} (h : Inv src s) (hc : s.ch ≠ 0) : (next src s).offset = s.offset + 1 :=
  (next_G (inv_G_of_ne h hc) hc).2

/-- `for p(l.ch) { l.next() }` stops because `p` fails, not because the model's fuel ran out -/
theorem whileCh_exits {src : Bytes} (p : UInt8 → Bool) (hp : p 0 = false) : ∀ (n : Nat) (s : St), Inv src s → src.length + 2 ≤ n + s.offset →
    p (whileCh src p n s).ch = false
  | 0, s, h, hn => by have := inv_offset_le h; omega
  | n + 1, s, h, hn => by
    unfold whileCh
    split
    · rename_i hps
      have hc : s.ch ≠ 0 := by intro h0; rw [h0, hp] at hps; exact absurd hps (by decide)
      exact whileCh_exits p hp n _ (next_inv h) (by rw [next_offset_of_ne h hc]; omega)
    · rename_i hps; simpa using hps

/-- the blank / continuation loop stops at a non-blank character or with the ILLEGAL return -/
theorem skipWs_exits {src : Bytes} : ∀ (n : Nat) (s : St), Inv src s → src.length + 2 ≤ n + s.offset →
    (skipWs src n s).2 = true ∨ isWs (skipWs src n s).1.ch = false
  | 0, s, h, hn => by have := inv_offset_le h; omega
  | n + 1, s, h, hn => by
    by_cases hw : isWs s.ch = true
    · have hc : s.ch ≠ 0 := by intro h0; rw [h0] at hw; exact absurd hw (by decide)
      have h1 : Inv src { s with hadSpace := true } := inv_hadSpace true h
      have ho : (next src { s with hadSpace := true }).offset = s.offset + 1 := next_offset_of_ne h1 hc
      have hn1 := next_inv h1
      have key : ∀ s2 : St, Inv src s2 → s.offset + 1 ≤ s2.offset →
          ((if s2.ch ≠ 10 then (s2, true) else skipWs src n (next src s2)).2 = true ∨
           isWs (if s2.ch ≠ 10 then (s2, true) else skipWs src n (next src s2)).1.ch = false) := by
        intro s2 hi2 ho2
        split
        · exact Or.inl rfl
        · have : OffLe (s.offset + 1) (next src s2) := offLe_next ho2
          unfold OffLe at this
          exact skipWs_exits n _ (next_inv hi2) (by omega)
      unfold skipWs
      simp only [hw, if_true]
      split
      · split
        · have o2 : OffLe (s.offset + 1) (next src (next src { s with hadSpace := true })) := by
            apply offLe_next; unfold OffLe; omega
          exact key _ (next_inv hn1) o2
        · exact key _ hn1 (by omega)
      · exact skipWs_exits n _ hn1 (by omega)
    · unfold skipWs
      simp only [hw]
      right; simpa using hw

theorem escape_progress {src : Bytes} {s : St} (h : Inv src s) (hc : s.ch ≠ 0) : OffLe (s.offset + 1) (escape src s).1 := by
  have ho : OffLe (s.offset + 1) (next src s) := by unfold OffLe; rw [next_offset_of_ne h hc]; omega
  unfold escape
  dsimp only
  generalize next src s = s' at ho ⊢
  repeat (first | with_reducible apply offLe_escHex | with_reducible apply offLe_escUni | with_reducible apply offLe_octDigits | off_step)

/-- `parseString` stops at the quote, at NUL / end of input, or with an error — not because the fuel ran out -/
theorem parseString_exits {src : Bytes} (q : UInt8) : ∀ (n : Nat) (s : St) (acc : Bytes), Inv src s → src.length + 2 ≤ n + s.offset →
    (∃ m, (parseString src q n s acc).2 = .error m) ∨ (parseString src q n s acc).1.ch = q ∨ (parseString src q n s acc).1.ch = 0
  | 0, s, _, h, hn => by have := inv_offset_le h; omega
  | n + 1, s, acc, h, hn => by
    unfold parseString
    dsimp only
    split
    · rename_i hq; right; simpa using hq
    · rename_i hq
      have hc : s.ch ≠ 0 := by intro h0; simp [h0] at hq
      split
      · exact Or.inl ⟨_, rfl⟩
      · split
        · exact parseString_exits q n _ _ (next_inv h) (by rw [next_offset_of_ne h hc]; omega)
        · split
          · exact Or.inl ⟨_, rfl⟩
          · have := escape_progress h hc
            unfold OffLe at this
            exact parseString_exits q n _ _ (escape_inv h) (by omega)

/-- the regex loop stops at the closing slash or with an error -/
theorem regexLoop_exits {src : Bytes} : ∀ (n : Nat) (s : St) (acc : Bytes), Inv src s → src.length + 2 ≤ n + s.offset →
    (∃ m, (regexLoop src n s acc).2 = .error m) ∨ (regexLoop src n s acc).1.ch = 47
  | 0, s, _, h, hn => by have := inv_offset_le h; omega
  | n + 1, s, acc, h, hn => by
    unfold regexLoop
    split
    · rename_i h47; exact Or.inr h47
    · dsimp only
      split
      · exact Or.inl ⟨_, rfl⟩
      · rename_i hc
        have ho := next_offset_of_ne h hc
        split
        · exact Or.inl ⟨_, rfl⟩
        · split
          · apply regexLoop_exits n _ _ (next_inv (next_inv h))
            have : OffLe (s.offset + 1) (next src (next src s)) := by
              apply offLe_next; unfold OffLe; omega
            unfold OffLe at this; omega
          · exact regexLoop_exits n _ _ (next_inv h) (by omega)
end GoawkModel.C03
