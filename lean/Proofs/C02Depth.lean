import GoawkModel.C02
/-! Call depth is bounded by `maxCallDepth` in every reachable state of the abstract machine; number facts of Part 2. -/
namespace GoawkModel.C02
open GoawkModel.Generated

theorem callDepth_cons (fr : Frame) (rest : State) :
    callDepth (fr :: rest) = (if isFunc fr = true then 1 else 0) + callDepth rest := by
  unfold callDepth
  by_cases h : isFunc fr = true
  · simp [h]; omega
  · simp [h]

theorem callDepth_tail_le (fr : Frame) (rest : State) : callDepth rest ≤ callDepth (fr :: rest) := by
  rw [callDepth_cons]; omega

theorem popFunc_depth {n : Nat} {rest s' : State} (h : popFunc n rest = .next s') : callDepth s' = callDepth rest := by
  cases rest with
  | nil => simp [popFunc] at h
  | cons p r =>
    simp only [popFunc] at h
    split at h
    · cases h
    · cases h
      rw [callDepth_cons, callDepth_cons]
      rfl

theorem unwind_depth : ∀ {s s' : State}, unwind s = .next s' → callDepth s' ≤ callDepth s
  | [], s', h => by simp [unwind] at h
  | fr :: rest, s', h => by
    simp only [unwind] at h
    split at h
    · cases h
    · split at h
      · cases h
      · exact Nat.le_trans (unwind_depth h) (callDepth_tail_le fr rest)
      · rw [popFunc_depth h]; exact callDepth_tail_le fr rest

theorem isFunc_loop (code : Code) (cx : Ctx) : isFunc { code := code, cx := cx, pc := 0, h := 0, kind := .loop, endH := 0 } = false := rfl

theorem exec_depth {t : Tables} {fr : Frame} {rest s' : State} {c : Choice} {i : Instr}
    (hb : callDepth (fr :: rest) ≤ Consts.maxCallDepth) (h : exec t fr rest c i = .next s') :
    callDepth s' ≤ Consts.maxCallDepth := by
  have hsame : ∀ (pc' h' : Nat), callDepth ({ fr with pc := pc', h := h' } :: rest) = callDepth (fr :: rest) := by
    intro pc' h'; rw [callDepth_cons, callDepth_cons]; rfl
  cases i with
  | simple len pops pushes =>
    simp only [exec] at h
    split at h
    · cases h
    · split at h
      · cases h
      · cases h; rw [hsame]; exact hb
  | jump len pops cond target =>
    simp only [exec] at h
    split at h
    · cases h
    · split at h <;> (cases h; rw [hsame]; exact hb)
  | halt pops =>
    simp only [exec] at h
    split at h <;> cases h
  | ret pops =>
    simp only [exec] at h
    split at h
    · cases h
    · have := unwind_depth h
      have h2 : callDepth ({ fr with h := fr.h - pops } :: rest) = callDepth (fr :: rest) := hsame fr.pc (fr.h - pops)
      omega
  | brk =>
    simp only [exec] at h
    split at h
    · cases h
    · split at h
      · split at h
        · cases h
        · cases h; exact Nat.le_trans (callDepth_tail_le fr _) hb
      · cases h
  | forIn len bodyLen =>
    simp only [exec] at h
    split at h
    · cases h
    · split at h
      · cases h
      · split at h
        · cases h
          have := hsame (fr.pc + len + bodyLen) fr.h
          omega
        · cases h
          rw [callDepth_cons, isFunc_loop]
          have := hsame (fr.pc + len + bodyLen) fr.h
          simp only [Bool.false_eq_true, if_false]
          omega
  | call len f =>
    simp only [exec] at h
    split at h
    · cases h
    · split at h
      · cases h
      · split at h
        · cases h
        · cases h
          rename_i hd
          rw [callDepth_cons]
          have h2 : callDepth ({ fr with pc := fr.pc + len } :: rest) = callDepth (fr :: rest) := hsame (fr.pc + len) fr.h
          have h3 : ∀ (fi : FuncInfo), isFunc { code := fi.body, cx := funcCtx fi, pc := 0, h := 0, kind := .func fi.numScalars, endH := 0 } = true := fun _ => rfl
          simp only [h3, if_true]
          omega

theorem blockEnd_depth {fr : Frame} {rest s' : State} {c : Choice}
    (hb : callDepth (fr :: rest) ≤ Consts.maxCallDepth) (h : blockEnd fr rest c = .next s') :
    callDepth s' ≤ Consts.maxCallDepth := by
  simp only [blockEnd] at h
  split at h
  · cases h
  · split at h
    · cases h
    · split at h
      · cases h
        have : callDepth ({ fr with pc := 0 } :: rest) = callDepth (fr :: rest) := by rw [callDepth_cons, callDepth_cons]; rfl
        omega
      · split at h
        · cases h
        · cases h; exact Nat.le_trans (callDepth_tail_le fr _) hb
    · rw [popFunc_depth h]; exact Nat.le_trans (callDepth_tail_le fr _) hb

theorem step_depth {t : Tables} {s s' : State} {c : Choice}
    (hb : callDepth s ≤ Consts.maxCallDepth) (h : step t s c = .next s') : callDepth s' ≤ Consts.maxCallDepth := by
  cases s with
  | nil => simp [step] at h
  | cons fr rest =>
    simp only [step] at h
    split at h
    · exact blockEnd_depth hb h
    · split at h
      · cases h
      · exact exec_depth hb h

theorem run_depth {t : Tables} : ∀ (cs : List Choice) {s s' : State}, callDepth s ≤ Consts.maxCallDepth → run t s cs = .next s' →
    callDepth s' ≤ Consts.maxCallDepth
  | [], s, s', hb, h => by simp only [run] at h; cases h; exact hb
  | c :: cs, s, s', hb, h => by
    simp only [run] at h
    split at h
    · rename_i s1 hs1
      exact run_depth cs (step_depth hb hs1) h
    · rename_i r hr
      cases r <;> simp_all

end GoawkModel.C02
