import GoawkModel.C10
import Proofs.C10Index
namespace GoawkModel.C10

/-! ### replacement expansion -/

theorem expand_other (m : Bytes) (c : UInt8) (r : Bytes) (h1 : c ≠ 38) (h2 : c ≠ 92) :
    expand m (c :: r) = c :: expand m r := by
  rw [expand]
  · exact h1
  · intro h; exact absurd h (by simpa using h2)
  · intro r' h; exact absurd h h2
  · intro r' h; exact absurd h h2
  · intro c' r' h; exact absurd h h2

theorem expand_bsOther (m : Bytes) (c : UInt8) (r : Bytes) (h1 : c ≠ 38) (h2 : c ≠ 92) :
    expand m (92 :: c :: r) = 92 :: c :: expand m r := by
  rw [expand]
  · intro h; exact absurd h h1
  · intro h; exact absurd h h2

theorem expand_tokens (m : Bytes) : ∀ (toks : List RTok), (∀ t ∈ toks, t.ok) →
    expand m (toks.flatMap RTok.render) = toks.flatMap (RTok.meaning m) := by
  intro toks
  induction toks with
  | nil => intro _; simp [expand]
  | cons t ts ih =>
    intro h
    have iht := ih (fun t ht => h t (by simp [ht]))
    cases t with
    | amp => simp [RTok.render, RTok.meaning, expand, iht]
    | escAmp => simp [RTok.render, RTok.meaning, expand, iht]
    | escBs => simp [RTok.render, RTok.meaning, expand, iht]
    | text b =>
      have hb : b ≠ 38 ∧ b ≠ 92 := h (.text b) (by simp)
      simp only [List.flatMap_cons, RTok.render, RTok.meaning, List.cons_append, List.nil_append]
      rw [expand_other m b _ hb.1 hb.2, iht]
    | bsOther c =>
      have hc : c ≠ 38 ∧ c ≠ 92 := h (.bsOther c) (by simp)
      simp only [List.flatMap_cons, RTok.render, RTok.meaning, List.cons_append, List.nil_append]
      rw [expand_bsOther m c _ hc.1 hc.2, iht]
    | bsEnd => exact absurd (h .bsEnd (by simp)) (by simp [RTok.ok])

/-! ### total characterisation of `expand` -/

theorem expand_tokenize (m : Bytes) (r : Bytes) : expand m r = (tokenize r).flatMap (RTok.meaning m) := by
  fun_induction tokenize r <;> simp_all [expand, RTok.meaning]

theorem tokenize_render (r : Bytes) : (tokenize r).flatMap RTok.render = r := by
  fun_induction tokenize r <;> simp_all [RTok.render]

theorem ne92_of {c : UInt8} {r : Bytes} (h1 : c = 92 → ¬ r = []) (h2 : ∀ (c' : UInt8) (r' : Bytes), c = 92 → ¬ r = c' :: r') :
    c ≠ 92 := by
  intro h
  cases r with
  | nil => exact h1 h rfl
  | cons a b => exact h2 a b h rfl

theorem tokenize_tokens (r : Bytes) : ∀ t ∈ tokenize r, t = .bsEnd ∨ t.ok := by
  fun_induction tokenize r
  case case7 =>
    rename_i c r _ _ _ _ _ _
    have : c ≠ 92 := by
      intro h; subst h
      cases r <;> simp_all
    simp_all [RTok.ok]
  all_goals simp_all [RTok.ok]

theorem mem_dropLast_cons {α} (x : α) (xs : List α) (t : α) (h : t ∈ (x :: xs).dropLast) : xs ≠ [] ∧ (t = x ∨ t ∈ xs.dropLast) := by
  cases xs with
  | nil => simp at h
  | cons y ys => simp only [List.dropLast_cons_cons, List.mem_cons] at h; exact ⟨by simp, h⟩

theorem tokenize_init_ok (r : Bytes) : ∀ t ∈ (tokenize r).dropLast, t.ok := by
  fun_induction tokenize r
  all_goals (intro t ht)
  · simp at ht
  · obtain ⟨_, h | h⟩ := mem_dropLast_cons _ _ _ ht
    · subst h; simp [RTok.ok]
    · simp_all
  · simp at ht
  · obtain ⟨_, h | h⟩ := mem_dropLast_cons _ _ _ ht
    · subst h; simp [RTok.ok]
    · simp_all
  · obtain ⟨_, h | h⟩ := mem_dropLast_cons _ _ _ ht
    · subst h; simp [RTok.ok]
    · simp_all
  · obtain ⟨_, h | h⟩ := mem_dropLast_cons _ _ _ ht
    · subst h; simp_all [RTok.ok]
    · simp_all
  · rename_i c r _ _ _ _ _ _
    have : c ≠ 92 := by
      intro h; subst h
      cases r <;> simp_all
    obtain ⟨_, h | h⟩ := mem_dropLast_cons _ _ _ ht
    · subst h; simp_all [RTok.ok]
    · simp_all

/-! ### sub / gsub -/

theorem drop_split_at (s : Bytes) (j a : Nat) (h : j ≤ a) : (s.drop j).take (a - j) ++ s.drop a = s.drop j := by
  have : s.drop a = (s.drop j).drop (a - j) := by rw [List.drop_drop]; congr 1; omega
  rw [this, List.take_append_drop]

theorem match_reassemble (s : Bytes) (last a b : Nat) (h1 : last ≤ a) (h2 : a ≤ b) :
    (s.drop last).take (a - last) ++ (s.drop a).take (b - a) ++ s.drop b = s.drop last := by
  rw [List.append_assoc, drop_split_at s a b h2, drop_split_at s last a h1]

theorem subLoop_amp : ∀ (ms : List (Nat × Nat)) (s : Bytes) (last count : Nat), MatchesWF s last ms →
    subLoop s [38] true ms last count = (s.drop last, count + ms.length) := by
  intro ms
  induction ms with
  | nil => intro s last count _; simp [subLoop]
  | cons p ms ih =>
    intro s last count h
    obtain ⟨a, b⟩ := p
    obtain ⟨h1, h2, _, h4⟩ := h
    simp only [subLoop, Bool.not_true, Bool.false_and, Bool.false_eq_true, if_false, ih s b (count + 1) h4]
    simp only [expand, List.append_nil, List.length_cons]
    rw [match_reassemble s last a b h1 h2]
    congr 1; omega

theorem subLoop_count : ∀ (ms : List (Nat × Nat)) (s repl : Bytes) (last count : Nat),
    (subLoop s repl true ms last count).2 = count + ms.length := by
  intro ms
  induction ms with
  | nil => intro s repl last count; simp [subLoop]
  | cons p ms ih =>
    intro s repl last count
    obtain ⟨a, b⟩ := p
    simp only [subLoop, Bool.not_true, Bool.false_and, Bool.false_eq_true, if_false, ih, List.length_cons]
    omega

/-- once `sub` has made its replacement the callback returns each later match unchanged -/
theorem subLoop_copy : ∀ (ms : List (Nat × Nat)) (s repl : Bytes) (last count : Nat), MatchesWF s last ms →
    subLoop s repl false ms last (count + 1) = (s.drop last, count + 1) := by
  intro ms
  induction ms with
  | nil => intro s repl last count _; simp [subLoop]
  | cons p ms ih =>
    intro s repl last count h
    obtain ⟨a, b⟩ := p
    obtain ⟨h1, h2, _, h4⟩ := h
    have hc : count + 1 > 0 := by omega
    simp only [subLoop, Bool.not_false, Bool.true_and, decide_eq_true_eq, hc, if_true, ih s repl b count h4]
    rw [match_reassemble s last a b h1 h2]

theorem awkSub_first (s repl : Bytes) (ms : List (Nat × Nat)) (h : MatchesWF s 0 ms) :
    awkSub s repl false ms = awkSub s repl true (ms.take 1) := by
  cases ms with
  | nil => simp [awkSub, subLoop]
  | cons p ms =>
    obtain ⟨a, b⟩ := p
    obtain ⟨_, _, _, h4⟩ := h
    have := subLoop_copy ms s repl b 0 h4
    simp only [Nat.zero_add] at this
    simp [awkSub, subLoop, this]

/-! ### split -/

theorem joinWith_cons (sep x : Bytes) (xs : List Bytes) (h : xs ≠ []) :
    joinWith sep (x :: xs) = x ++ sep ++ joinWith sep xs := by
  cases xs with
  | nil => exact absurd rfl h
  | cons y ys => rfl

theorem splitF_ne_nil (sep : Bytes) : ∀ (f : Nat) (s : Bytes), splitF sep f s ≠ [] := by
  intro f
  cases f with
  | zero => intro s; simp [splitF]
  | succ f => intro s; simp only [splitF]; split <;> simp

theorem joinWith_splitF (sep : Bytes) : ∀ (f : Nat) (s : Bytes), joinWith sep (splitF sep f s) = s := by
  intro f
  induction f with
  | zero => intro s; simp [splitF, joinWith]
  | succ f ih =>
    intro s
    simp only [splitF]
    cases h : indexOf s sep with
    | none => simp [joinWith]
    | some i =>
      simp only []
      rw [joinWith_cons _ _ _ (splitF_ne_nil sep f _), ih]
      exact (indexOf_split s sep i h).symm

theorem joinWith_nil_sep : ∀ (xs : List Bytes), joinWith [] xs = xs.flatten := by
  intro xs
  induction xs with
  | nil => rfl
  | cons x xs ih =>
    cases xs with
    | nil => simp [joinWith]
    | cons y ys => rw [joinWith_cons _ _ _ (by simp), ih]; simp

theorem joinWith_awkSplitLit (s sep : Bytes) : joinWith sep (awkSplitLit s sep) = s := by
  simp only [awkSplitLit]
  split
  · rename_i h; subst h; rfl
  · simp only [stringsSplit]
    split
    · rename_i h; subst h; rw [joinWith_nil_sep, runes_flatten]
    · exact joinWith_splitF sep _ s
end GoawkModel.C10
