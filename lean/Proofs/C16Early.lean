import GoawkModel.C16Early
import GoawkModel.C16Spec
/-! The witness of `GoawkModel.C16Early` is a program the property speaks about. -/
namespace GoawkModel.C16

theorem zigAgainst_wf : WF zigAgainst := by
  refine ⟨?_, ?_, ?_, ?_⟩
  · intro e he
    simp [zigAgainst, zigSitesRev, zigUses] at he
    rcases he with rfl | rfl | rfl | rfl | rfl | rfl | rfl | rfl | rfl | rfl | rfl | rfl | rfl | rfl | rfl | rfl | rfl | rfl | rfl
        | rfl | rfl | rfl | rfl <;>
      simp [ArgOK, Program.paramsOf, Program.findFunc, zigAgainst, zigFuncs]
  · intro f hf e he
    simp [zigAgainst, zigFuncs] at hf
    rcases hf with rfl | rfl | rfl | rfl | rfl <;> simp at he
  · intro b hb; simp [zigAgainst]
  · intro f hf
    simp [zigAgainst, zigFuncs] at hf
    rcases hf with rfl | rfl | rfl | rfl | rfl <;> simp [Program.findFunc, zigAgainst, zigFuncs]

theorem zig_covers : Covers zigOrder zigAgainst := by
  intro f hf
  simp [zigAgainst, zigFuncs] at hf
  rcases hf with rfl | rfl | rfl | rfl | rfl <;> simp [zigOrder]

end GoawkModel.C16
