import GoawkModel.C10
import Proofs.C10Substr
namespace GoawkModel.C10

theorem runeLen_bounds (b : UInt8) (bs : Bytes) : 1 ≤ runeLen (b :: bs) ∧ runeLen (b :: bs) ≤ (b :: bs).length := by
  rcases bs with _ | ⟨b1, _ | ⟨b2, _ | ⟨b3, t⟩⟩⟩ <;> simp only [runeLen, List.length_cons, List.length_nil] <;>
    (repeat' split) <;> omega

theorem runesF_fuel : ∀ (f g : Nat) (s : Bytes), s.length ≤ f → s.length ≤ g → runesF f s = runesF g s := by
  intro f
  induction f with
  | zero =>
    intro g s h1 _
    have : s = [] := List.length_eq_zero_iff.mp (by omega)
    subst this
    cases g <;> simp [runesF]
  | succ f ih =>
    intro g s h1 h2
    cases s with
    | nil => cases g <;> simp [runesF]
    | cons b bs =>
      cases g with
      | zero => simp at h2
      | succ g =>
        simp only [runesF]
        have hb := runeLen_bounds b bs
        congr 1
        apply ih
        · simp only [List.length_drop, List.length_cons] at *; omega
        · simp only [List.length_drop, List.length_cons] at *; omega

theorem runes_nil : runes [] = [] := by simp [runes, runesF]

theorem runes_cons (b : UInt8) (bs : Bytes) :
    runes (b :: bs) = (b :: bs).take (runeLen (b :: bs)) :: runes ((b :: bs).drop (runeLen (b :: bs))) := by
  have hb := runeLen_bounds b bs
  simp only [runes, List.length_cons, runesF]
  congr 1
  apply runesF_fuel
  · simp only [List.length_drop, List.length_cons] at *; omega
  · simp

theorem runes_flatten_aux : ∀ (n : Nat) (s : Bytes), s.length ≤ n → (runes s).flatten = s := by
  intro n
  induction n with
  | zero =>
    intro s h
    have : s = [] := List.length_eq_zero_iff.mp (by omega)
    subst this; simp [runes_nil]
  | succ n ih =>
    intro s h
    cases s with
    | nil => simp [runes_nil]
    | cons b bs =>
      have hb := runeLen_bounds b bs
      rw [runes_cons, List.flatten_cons, ih]
      · exact List.take_append_drop _ _
      · simp only [List.length_drop, List.length_cons] at *; omega

/-- the rune decomposition loses nothing -/
theorem runes_flatten (s : Bytes) : (runes s).flatten = s := runes_flatten_aux s.length s (Nat.le_refl _)

/-- decoding restarts cleanly at every rune boundary -/
theorem runes_drop : ∀ (k : Nat) (s : Bytes), runes ((runes s).drop k).flatten = (runes s).drop k := by
  intro k
  induction k with
  | zero => intro s; simp [runes_flatten]
  | succ k ih =>
    intro s
    cases s with
    | nil => simp [runes_nil]
    | cons b bs =>
      rw [runes_cons, List.drop_succ_cons]
      exact ih _

theorem flatten_drop_take_length {α} (xs : List (List α)) (j : Nat) :
    xs.flatten.drop (xs.take j).flatten.length = (xs.drop j).flatten := by
  conv => lhs; rw [← List.take_append_drop j xs, List.flatten_append]
  simp

theorem flatten_take_take_length {α} (xs : List (List α)) (l : Nat) :
    xs.flatten.take (xs.take l).flatten.length = (xs.take l).flatten := by
  conv => lhs; rw [← List.take_append_drop l xs, List.flatten_append]
  simp

theorem take_flatten_length_le {α} (xs : List (List α)) (l : Nat) :
    (xs.take l).flatten.length ≤ xs.flatten.length := by
  conv => rhs; rw [← List.take_append_drop l xs, List.flatten_append]
  simp

/-- what the counting loop computes: the byte offset after `lim - chars` more runes (all of them if there are fewer) -/
theorem countLoop_spec : ∀ (rs : List Bytes) (off : Nat) (c : Int) (idx : Nat) (lim : Int) (total : Nat),
    total = off + rs.flatten.length → (rs = [] → idx = off ∨ lim ≥ c) →
    (if lim ≥ (countLoop rs off c idx lim).1 then total else (countLoop rs off c idx lim).2)
      = off + (rs.take (lim - c).toNat).flatten.length := by
  intro rs
  induction rs with
  | nil =>
    intro off c idx lim total ht hi
    simp only [List.flatten_nil, List.length_nil, Nat.add_zero] at ht
    simp only [countLoop, List.take_nil, List.flatten_nil, List.length_nil, Nat.add_zero]
    by_cases h : lim ≥ c
    · simp [h, ht]
    · simp only [h, if_false]
      rcases hi rfl with h' | h'
      · exact h'
      · exact absurd h' h
  | cons r rest ih =>
    intro off c idx lim total ht _
    simp only [countLoop]
    by_cases h : c + 1 > lim
    · simp only [h, if_true]
      have h' : ¬ (lim ≥ c + 1) := by omega
      have hz : (lim - c).toNat = 0 := by omega
      simp [h', hz]
    · simp only [h, if_false]
      have := ih (off + r.length) (c + 1) off lim total
        (by simp only [List.flatten_cons, List.length_append] at ht; omega) (fun _ => Or.inr (by omega))
      rw [this]
      obtain ⟨k, hk⟩ : ∃ k : Nat, (lim - (c + 1)).toNat = k := ⟨_, rfl⟩
      have hk' : (lim - c).toNat = k + 1 := by omega
      rw [hk, hk']
      simp only [List.take_succ_cons, List.flatten_cons, List.length_append]
      omega

theorem drop_runes (s : Bytes) (j : Nat) : s.drop ((runes s).take j).flatten.length = ((runes s).drop j).flatten := by
  have := flatten_drop_take_length (runes s) j
  rwa [runes_flatten] at this

theorem charStart_eq (s : Bytes) (pos : Int) :
    charStart s pos = ((runes s).take (pos - 1).toNat).flatten.length := by
  have := countLoop_spec (runes s) 0 1 0 pos s.length (by simp [runes_flatten]) (fun _ => Or.inl rfl)
  simp only [charStart]
  rw [this]; simp

theorem substrChars_eq (s : Bytes) (pos : Int) :
    substrChars s pos = some ((runes s).drop (pos - 1).toNat).flatten := by
  obtain ⟨j, hj⟩ : ∃ j : Nat, (pos - 1).toNat = j := ⟨_, rfl⟩
  simp only [substrChars, charStart_eq, hj]
  have hle := take_flatten_length_le (runes s) j
  rw [runes_flatten] at hle
  rw [slice_some s _ _ ((runes s).take j).flatten.length (s.length - ((runes s).take j).flatten.length) rfl (by omega) (by omega)]
  rw [List.take_of_length_le (by simp only [List.length_drop]; omega), drop_runes]

theorem substrLenChars_eq (s : Bytes) (pos len : Int) :
    substrLenChars s pos len = some (((runes s).drop (pos - 1).toNat).take len.toNat).flatten := by
  obtain ⟨j, hj⟩ : ∃ j : Nat, (pos - 1).toNat = j := ⟨_, rfl⟩
  obtain ⟨l, hl⟩ : ∃ l : Nat, len.toNat = l := ⟨_, rfl⟩
  simp only [substrLenChars, charStart_eq, hj, hl]
  have hle := take_flatten_length_le (runes s) j
  rw [runes_flatten] at hle
  have hdrop := drop_runes s j
  have hlen := congrArg List.length hdrop
  simp only [List.length_drop] at hlen
  have hend : charEnd s ((runes s).take j).flatten.length len
      = ((runes s).take j).flatten.length + (((runes s).drop j).take l).flatten.length := by
    simp only [charEnd, hdrop, runes_drop]
    have := countLoop_spec ((runes s).drop j) 0 0 0 len (((runes s).drop j).flatten.length) (by omega) (fun _ => Or.inl rfl)
    simp only [Int.sub_zero, hl, Nat.zero_add] at this
    by_cases h : len ≥ (countLoop ((runes s).drop j) 0 0 0 len).1
    · simp only [h, if_true] at this ⊢
      omega
    · simp only [h, if_false] at this ⊢
      omega
  have hle2 := take_flatten_length_le ((runes s).drop j) l
  rw [hend, slice_some s _ _ _ (((runes s).drop j).take l).flatten.length rfl (by omega) (by omega)]
  rw [hdrop, flatten_take_take_length]

theorem runes_length_le_aux : ∀ (n : Nat) (s : Bytes), s.length ≤ n → (runes s).length ≤ s.length := by
  intro n
  induction n with
  | zero =>
    intro s h
    have : s = [] := List.length_eq_zero_iff.mp (by omega)
    subst this; simp [runes_nil]
  | succ n ih =>
    intro s h
    cases s with
    | nil => simp [runes_nil]
    | cons b bs =>
      have hb := runeLen_bounds b bs
      rw [runes_cons, List.length_cons]
      have := ih ((b :: bs).drop (runeLen (b :: bs))) (by simp only [List.length_drop, List.length_cons] at *; omega)
      simp only [List.length_drop, List.length_cons] at *
      omega

theorem runes_length_le (s : Bytes) : (runes s).length ≤ s.length := runes_length_le_aux _ s (Nat.le_refl _)

theorem units_length_le (chars : Bool) (s : Bytes) : (units chars s).length ≤ s.length := by
  cases chars
  · simp [units]
  · simp only [units, if_true]; exact runes_length_le s

theorem flatten_map_singleton {α} (l : List α) : (l.map fun b => [b]).flatten = l := by
  induction l with
  | nil => rfl
  | cons a l ih => simp [ih]

theorem substrLenBytes_units (s : Bytes) (pos len : Int) :
    substrLenBytes s pos len = some (((units false s).drop (pos - 1).toNat).take len.toNat).flatten := by
  rw [substrLenBytes_eq]
  simp only [units, Bool.false_eq_true, if_false, ← List.map_drop, ← List.map_take, flatten_map_singleton]

theorem substrBytes_units (s : Bytes) (pos : Int) :
    substrBytes s pos = some ((units false s).drop (pos - 1).toNat).flatten := by
  rw [substrBytes_eq]
  simp only [units, Bool.false_eq_true, if_false, ← List.map_drop, flatten_map_singleton]

/-- both modes, integer level: skip `pos-1` units (none if `pos < 1`), take `len` units (none if negative) -/
theorem substrLen_units (chars : Bool) (s : Bytes) (pos len : Int) :
    (if chars then substrLenChars s pos len else substrLenBytes s pos len)
      = some (((units chars s).drop (pos - 1).toNat).take len.toNat).flatten := by
  cases chars
  · simp only [Bool.false_eq_true, if_false]; exact substrLenBytes_units s pos len
  · simp only [if_true, units]; exact substrLenChars_eq s pos len

theorem substr_units (chars : Bool) (s : Bytes) (pos : Int) :
    (if chars then substrChars s pos else substrBytes s pos) = some ((units chars s).drop (pos - 1).toNat).flatten := by
  cases chars
  · simp only [Bool.false_eq_true, if_false]; exact substrBytes_units s pos
  · simp only [if_true, units]; exact substrChars_eq s pos

theorem awkSubstrLen_spec (chars : Bool) (s : Bytes) (m n : Num) (hL : (s.length : Int) < maxInt) (hm : m ≠ .nan) (hn : n ≠ .nan) :
    awkSubstrLen chars s m n =
      some (((units chars s).drop (skipCount (units chars s).length m)).take (takeCount (units chars s).length n)).flatten := by
  have hu := units_length_le chars s
  have h := substrLen_units chars s (floatToInt m) (floatToInt n)
  have e : awkSubstrLen chars s m n = (if chars then substrLenChars s (floatToInt m) (floatToInt n) else substrLenBytes s (floatToInt m) (floatToInt n)) := rfl
  rw [e, h, drop_floatToInt _ (units chars s).length (Nat.le_refl _) (by omega) m hm,
    take_floatToInt _ (units chars s).length (by simp) (by omega) n hn]

theorem awkSubstr_spec (chars : Bool) (s : Bytes) (m : Num) (hL : (s.length : Int) < maxInt) (hm : m ≠ .nan) :
    awkSubstr chars s m = some ((units chars s).drop (skipCount (units chars s).length m)).flatten := by
  have hu := units_length_le chars s
  have h := substr_units chars s (floatToInt m)
  have e : awkSubstr chars s m = (if chars then substrChars s (floatToInt m) else substrBytes s (floatToInt m)) := rfl
  rw [e, h, drop_floatToInt _ (units chars s).length (Nat.le_refl _) (by omega) m hm]

theorem runes_ascii : ∀ (s : Bytes), (∀ b ∈ s, b < 128) → runes s = s.map fun b => [b] := by
  intro s
  induction s with
  | nil => intro _; simp [runes_nil]
  | cons b bs ih =>
    intro h
    have hb : b < 194 := UInt8.lt_trans (h b (by simp)) (by decide)
    have h1 : runeLen (b :: bs) = 1 := by simp [runeLen, hb]
    rw [runes_cons, h1]
    simp only [List.take_succ_cons, List.take_zero, List.drop_succ_cons, List.drop_zero, List.map_cons]
    rw [ih (fun x hx => h x (by simp [hx]))]

theorem units_ascii (s : Bytes) (h : ∀ b ∈ s, b < 128) : units true s = units false s := by
  simp [units, runes_ascii s h]
end GoawkModel.C10
