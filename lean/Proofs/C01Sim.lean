import GoawkModel.C01
/-!
# C01 — simulation framework: code fragments, straight-line runs, forward jumps

`Frag S c s w s' w'` : wherever the fragment `c` sits inside a program, the VM started at its first opcode word with
stack `s` and world `w` reaches the opcode word just after it with stack `s'` and world `w'`.
-/
namespace GoawkModel.C01
variable {S : Sem}

theorem Instr.size_pos (i : Instr) : 0 < i.size := by cases i <;> simp [Instr.size] <;> omega

@[simp] theorem csize_nil : csize [] = 0 := rfl
@[simp] theorem csize_cons (i : Instr) (c : Code) : csize (i :: c) = i.size + csize c := rfl
@[simp] theorem csize_append (a b : Code) : csize (a ++ b) = csize a + csize b := by
  induction a with
  | nil => simp
  | cons i a ih => simp [ih, Nat.add_assoc]

/-- the fragment `c` occupies the opcode words `pc … pc + csize c` of the program `C` -/
def CodeAt (C : Code) (pc : Nat) (c : Code) : Prop := ∃ pre post, C = pre ++ c ++ post ∧ csize pre = pc

theorem CodeAt.left {C pc a b} (h : CodeAt C pc (a ++ b)) : CodeAt C pc a := by
  obtain ⟨pre, post, rfl, hp⟩ := h
  exact ⟨pre, b ++ post, by simp, hp⟩

theorem CodeAt.right {C pc a b} (h : CodeAt C pc (a ++ b)) : CodeAt C (pc + csize a) b := by
  obtain ⟨pre, post, rfl, hp⟩ := h
  exact ⟨pre ++ a, post, by simp, by simp [hp]⟩

theorem CodeAt.whole (C : Code) : CodeAt C 0 C := ⟨[], [], by simp, rfl⟩

theorem fetch_append (pre : Code) (i : Instr) (post : Code) : fetch (pre ++ i :: post) (csize pre) = some i := by
  induction pre with
  | nil => simp [fetch]
  | cons j pre ih =>
    have hj := j.size_pos
    have h1 : ¬ (j.size + csize pre = 0) := by omega
    have h2 : ¬ (j.size + csize pre < j.size) := by omega
    show fetch (j :: (pre ++ i :: post)) (j.size + csize pre) = some i
    rw [fetch, if_neg h1, if_neg h2, Nat.add_sub_cancel_left]
    exact ih

theorem CodeAt.fetch {C pc i c} (h : CodeAt C pc (i :: c)) : fetch C pc = some i := by
  obtain ⟨pre, post, rfl, rfl⟩ := h
  simpa using fetch_append pre i (c ++ post)

/-- reflexive-transitive closure of the running VM step -/
inductive Reach (S : Sem) (C : Code) : St S → St S → Prop
  | refl (st) : Reach S C st st
  | step {a b c} : stepTo S C a = some b → Reach S C b c → Reach S C a c

theorem Reach.trans {C : Code} {a b c : St S} (h1 : Reach S C a b) (h2 : Reach S C b c) : Reach S C a c := by
  induction h1 with
  | refl => exact h2
  | step hs _ ih => exact .step hs (ih h2)

theorem Reach.one {C : Code} {a b : St S} (h : stepTo S C a = some b) : Reach S C a b := .step h (.refl _)

/-- fragment specification (see the file header) -/
def Frag (S : Sem) (c : Code) (s : List S.V) (w : S.W) (s' : List S.V) (w' : S.W) : Prop :=
  ∀ C pc, CodeAt C pc c → Reach S C ⟨pc, s, w⟩ ⟨pc + csize c, s', w'⟩

theorem Frag.nil (s : List S.V) (w : S.W) : Frag S [] s w s w := by
  intro C pc _; simpa using Reach.refl _

theorem Frag.append {a b : Code} {s s1 s2 : List S.V} {w w1 w2 : S.W}
    (h1 : Frag S a s w s1 w1) (h2 : Frag S b s1 w1 s2 w2) : Frag S (a ++ b) s w s2 w2 := by
  intro C pc h
  have r1 := h1 C pc h.left
  have r2 := h2 C (pc + csize a) h.right
  have : pc + csize (a ++ b) = pc + csize a + csize b := by simp [Nat.add_assoc]
  rw [this]
  exact r1.trans r2


/-! per-instruction equations of `execInstr` (so that `simp` need not unfold the whole dispatch) -/
section ExecEqs
variable (s : List S.V) (w : S.W) (v v0 v1 v2 l r i : S.V)
@[simp] theorem ex_num (c) : execInstr S (.num c) s w = some (.next (S.numV c :: s) w) := rfl
@[simp] theorem ex_str (b) : execInstr S (.str b) s w = some (.next (S.strV b :: s) w) := rfl
@[simp] theorem ex_dupe : execInstr S .dupe (v :: s) w = some (.next (v :: v :: s) w) := rfl
@[simp] theorem ex_drop : execInstr S .drop (v :: s) w = some (.next s w) := rfl
@[simp] theorem ex_swap : execInstr S .swap (r :: l :: s) w = some (.next (l :: r :: s) w) := rfl
@[simp] theorem ex_rote : execInstr S .rote (v2 :: v1 :: v0 :: s) w = some (.next (v0 :: v2 :: v1 :: s) w) := rfl
@[simp] theorem ex_field : execInstr S .field (i :: s) w = some (.next (S.getField i w :: s) w) := rfl
@[simp] theorem ex_fieldInt (n) : execInstr S (.fieldInt n) s w = some (.next (S.getFieldInt n w :: s) w) := rfl
@[simp] theorem ex_getVar (sc k) : execInstr S (.getVar sc k) s w = some (.next (S.getVar sc k w :: s) w) := rfl
@[simp] theorem ex_arrGet (sc a) :
    execInstr S (.arrGet sc a) (i :: s) w = some (.next ((S.getArr sc a i w).1 :: s) (S.getArr sc a i w).2) := rfl
@[simp] theorem ex_arrIn (sc a) : execInstr S (.arrIn sc a) (i :: s) w = some (.next (S.ofBool (S.inArr sc a i w) :: s) w) := rfl
@[simp] theorem ex_assignField : execInstr S .assignField (i :: v :: s) w = (S.setField i v w).map fun w' => .next s w' := rfl
@[simp] theorem ex_assignVar (sc k) : execInstr S (.assignVar sc k) (v :: s) w = (S.setVar sc k v w).map fun w' => .next s w' := rfl
@[simp] theorem ex_arrAssign (sc a) : execInstr S (.arrAssign sc a) (i :: v :: s) w = some (.next s (S.setArr sc a i v w)) := rfl
@[simp] theorem ex_incrField (dec) :
    execInstr S (.incrField dec) (i :: s) w = (S.setField i (S.incrBy dec (S.getField i w)) w).map fun w' => .next s w' := rfl
@[simp] theorem ex_incrVar (sc dec k) :
    execInstr S (.incrVar sc dec k) s w = (S.setVar sc k (S.incrBy dec (S.getVar sc k w)) w).map fun w' => .next s w' := rfl
@[simp] theorem ex_arrIncr (sc dec a) :
    execInstr S (.arrIncr sc dec a) (i :: s) w = some (.next s (S.setArr sc a i (S.incrBy dec (S.getArr sc a i w).1) w)) := rfl
@[simp] theorem ex_augField (op) : execInstr S (.augField op) (i :: r :: s) w =
    (S.augOp op (S.getField i w) r).bind fun v => (S.setField i v w).bind fun w' => some (.next s w') := rfl
@[simp] theorem ex_augVar (sc op k) : execInstr S (.augVar sc op k) (r :: s) w =
    (S.augOp op (S.getVar sc k w) r).bind fun v => (S.setVar sc k v w).bind fun w' => some (.next s w') := rfl
@[simp] theorem ex_arrAug (sc op a) : execInstr S (.arrAug sc op a) (i :: r :: s) w =
    (S.augOp op (S.getArr sc a i w).1 r).bind fun v => some (.next s (S.setArr sc a i v w)) := rfl
@[simp] theorem ex_indexMulti (n) : execInstr S (.indexMulti n) s w =
    if n ≤ s.length then some (.next (S.multiIndex (s.take n).reverse w :: s.drop n) w) else none := rfl
@[simp] theorem ex_concatMulti (n) : execInstr S (.concatMulti n) s w =
    if n ≤ s.length then some (.next (S.concatMulti (s.take n).reverse w :: s.drop n) w) else none := rfl
@[simp] theorem ex_arith (op) : execInstr S (.arith op) (r :: l :: s) w = (S.arith op l r).map fun v => .next (v :: s) w := rfl
@[simp] theorem ex_cmp (op) : execInstr S (.cmp op) (r :: l :: s) w = some (.next (S.ofBool (S.cmp op l r w) :: s) w) := rfl
@[simp] theorem ex_concat : execInstr S .concat (r :: l :: s) w = some (.next (S.concat l r w :: s) w) := rfl
@[simp] theorem ex_not : execInstr S .not (v :: s) w = some (.next (S.ofBool (!S.toBool v) :: s) w) := rfl
@[simp] theorem ex_neg : execInstr S .neg (v :: s) w = some (.next (S.unop .neg v :: s) w) := rfl
@[simp] theorem ex_plus : execInstr S .plus (v :: s) w = some (.next (S.unop .plus v :: s) w) := rfl
@[simp] theorem ex_boolean : execInstr S .boolean (v :: s) w = some (.next (S.ofBool (S.toBool v) :: s) w) := rfl
@[simp] theorem ex_jump (off) : execInstr S (.jump off) s w = some (.jump off s w) := rfl
@[simp] theorem ex_jumpFalse (off) : execInstr S (.jumpFalse off) (v :: s) w = some (condJump S (!S.toBool v) off s w) := rfl
@[simp] theorem ex_jumpTrue (off) : execInstr S (.jumpTrue off) (v :: s) w = some (condJump S (S.toBool v) off s w) := rfl
@[simp] theorem ex_jumpCmp (op off) :
    execInstr S (.jumpCmp op off) (r :: l :: s) w = some (condJump S (S.cmp op l r w) off s w) := rfl
@[simp] theorem ex_next : execInstr S .next s w = some (.stopNext w) := rfl
@[simp] theorem ex_exit : execInstr S .exit s w = some (.stopExit w) := rfl
@[simp] theorem ex_exitStatus : execInstr S .exitStatus (v :: s) w = some (.stopExit (S.setExit v w)) := rfl
@[simp] theorem ex_print (n) : execInstr S (.print n) s w =
    if n ≤ s.length then (S.print (s.take n).reverse w).map fun w' => .next (s.drop n) w' else none := rfl
@[simp] theorem ex_nulls (k) : execInstr S (.nulls k) s w = some (.next (List.replicate k S.nullV ++ s) w) := rfl
@[simp] theorem ex_callUser (f nsc arrs) : execInstr S (.callUser f nsc arrs) s w =
    if nsc ≤ s.length then (S.call f (s.take nsc).reverse arrs w).map fun r => .next (r.1 :: s.drop nsc) r.2 else none := rfl
@[simp] theorem ex_ret : execInstr S .ret (v :: s) w = some (.stopRet v w) := rfl
@[simp] theorem ex_retNull : execInstr S .retNull s w = some (.stopRet S.nullV w) := rfl
@[simp] theorem condJump_true (off) : condJump S true off s w = .jump off s w := rfl
@[simp] theorem condJump_false (off) : condJump S false off s w = .next s w := rfl
end ExecEqs

/-- one instruction that falls through -/
theorem Frag.instr {i : Instr} {s s' : List S.V} {w w' : S.W} (h : execInstr S i s w = some (.next s' w')) :
    Frag S [i] s w s' w' := by
  intro C pc hc
  apply Reach.one
  simp [stepTo, hc.fetch, h]

/-- straight-line execution of a fragment: every instruction falls through -/
def execSL (S : Sem) : Code → List S.V → S.W → Option (List S.V × S.W)
  | [], s, w => some (s, w)
  | i :: c, s, w =>
    match execInstr S i s w with
    | some (.next s' w') => execSL S c s' w'
    | _ => none

theorem Frag.sl {c : Code} {s s' : List S.V} {w w' : S.W} (h : execSL S c s w = some (s', w')) : Frag S c s w s' w' := by
  induction c generalizing s w with
  | nil => simp [execSL] at h; obtain ⟨rfl, rfl⟩ := h; exact Frag.nil _ _
  | cons i c ih =>
    simp only [execSL] at h
    split at h
    · rename_i s1 w1 hi
      exact Frag.append (a := [i]) (Frag.instr hi) (ih h)
    · simp at h

/-- a taken forward jump over the fragment `mid` -/
theorem Frag.jumpOver {j : Instr} {mid : Code} {s s' : List S.V} {w w' : S.W}
    (h : execInstr S j s w = some (.jump (csize mid) s' w')) : Frag S (j :: mid) s w s' w' := by
  intro C pc hc
  apply Reach.one
  simp only [stepTo, hc.fetch, h]
  congr 2
  simp only [csize_cons]
  omega

theorem Frag.cons {i : Instr} {c : Code} {s s1 s2 : List S.V} {w w1 w2 : S.W}
    (h1 : execInstr S i s w = some (.next s1 w1)) (h2 : Frag S c s1 w1 s2 w2) : Frag S (i :: c) s w s2 w2 :=
  Frag.append (a := [i]) (Frag.instr h1) h2

end GoawkModel.C01
