import GoawkModel.C01
import Proofs.C01Expr
import Proofs.C01Loop
/-!
C02 ∘ C01: the code produced by C01's model of the compiler (`cExpr`, `cStmt`) is well-typed in the sense of the C02 bytecode
verifier — a height assignment exists (the left-to-right scan `env`) under which every instruction has the operands it pops,
every jump lands on an instruction boundary of the block whose scanned height is the height the jump leaves, expressions leave
+1 and statements leave 0. This file is the instruction-level half (on `C01.Code`); `Proofs/C02Compile.lean` carries it to the
word-level checker `checkBlock` and to `verify_sound`'s invariant.
-/
namespace GoawkModel.C02.Ty
open GoawkModel GoawkModel.C01

/-- abstract shape of a C01 instruction (what the C02 decoder makes of its encoding) -/
inductive Sh
  | simple (pops pushes : Nat)
  | jmp (pops : Nat) (cond : Bool) (off : Int)
  | halt (pops : Nat)

def sh : Instr → Sh
  | .num _ | .str _ | .fieldInt _ | .getVar _ _ => .simple 0 1
  | .dupe => .simple 1 2
  | .drop => .simple 1 0
  | .swap => .simple 2 2
  | .rote => .simple 3 3
  | .field | .arrGet _ _ | .arrIn _ _ | .not | .neg | .plus | .boolean => .simple 1 1
  | .assignField | .arrAssign _ _ | .augField _ | .arrAug _ _ _ => .simple 2 0
  | .assignVar _ _ | .incrField _ | .arrIncr _ _ _ | .augVar _ _ _ => .simple 1 0
  | .incrVar _ _ _ => .simple 0 0
  | .indexMulti n | .concatMulti n => .simple n 1
  | .arith _ | .cmp _ | .concat => .simple 2 1
  | .jump off => .jmp 0 false off
  | .jumpFalse off | .jumpTrue off => .jmp 1 true off
  | .jumpCmp _ off => .jmp 2 true off
  | .next | .exit => .halt 0
  | .exitStatus => .halt 1
  | .print n => .simple n 0
  | .nulls k => .simple 0 k
  | .callUser _ nsc _ => .simple nsc 1   -- height effect only; the word-level link (Fits) excludes calls for now
  | .ret => .halt 1
  | .retNull => .halt 0

def needs (i : Instr) : Nat := match sh i with | .simple p _ => p | .jmp p _ _ => p | .halt p => p

/-- height after the instruction in the left-to-right scan. After an unconditional jump the scan continues one lower: in
expression code the only unconditional jump ends the `then` branch of `?:` (the `else` branch starts one lower); in statement
code jumps sit at height 0 and the next statement starts at 0. -/
def after (i : Instr) (h : Nat) : Nat :=
  match sh i with
  | .simple p q => h - p + q
  | .jmp p true _ => h - p
  | .jmp p false _ => h - p - 1
  | .halt p => h - p

def exitH : Code → Nat → Nat
  | [], h => h
  | i :: c, h => exitH c (after i h)

/-- the scanned height at word offset `x` of `c` entered at height `h`: `some` exactly at instruction boundaries (end included) -/
def env : Code → Nat → Int → Option Nat
  | [], h, x => if x = 0 then some h else none
  | i :: c, h, x => if x = 0 then some h else if x < i.size then none else env c (after i h) (x - i.size)

/-- local typing of a fragment placed at word offset `o` of a block whose height assignment is `E` -/
def Loc (E : Int → Option Nat) : Code → Nat → Int → Prop
  | [], _, _ => True
  | i :: c, h, o =>
    needs i ≤ h ∧ (match sh i with | .jmp p _ off => E (o + i.size + off) = some (h - p) | _ => True) ∧ Loc E c (after i h) (o + i.size)

/-- `E` is the scan of the fragment on the fragment's own range -/
def Agree (E : Int → Option Nat) (o : Int) (c : Code) (h : Nat) : Prop :=
  ∀ x : Int, 0 ≤ x → x ≤ csize c → E (o + x) = env c h x

@[simp] theorem exitH_nil (h : Nat) : exitH [] h = h := rfl
@[simp] theorem exitH_cons (i : Instr) (c : Code) (h : Nat) : exitH (i :: c) h = exitH c (after i h) := rfl
@[simp] theorem exitH_append (a b : Code) (h : Nat) : exitH (a ++ b) h = exitH b (exitH a h) := by
  induction a generalizing h with
  | nil => rfl
  | cons i a ih => simp [ih]

@[simp] theorem env_zero (c : Code) (h : Nat) : env c h 0 = some h := by cases c <;> simp [env]

theorem size_pos (i : Instr) : (0 : Int) < i.size := by have := Instr.size_pos i; omega

theorem env_append_ge (a b : Code) (h : Nat) (x : Int) (hx : 0 ≤ x) : env (a ++ b) h (csize a + x) = env b (exitH a h) x := by
  induction a generalizing h with
  | nil => simp
  | cons i a ih =>
    have hp := size_pos i
    have hc : (0 : Int) ≤ csize a := by omega
    simp only [List.cons_append, env, csize_cons, exitH_cons]
    rw [if_neg (by push_cast; omega), if_neg (by push_cast; omega)]
    rw [show ((i.size + csize a : Nat) : Int) + x - i.size = csize a + x by push_cast; omega]
    exact ih _

theorem env_prefix (a b : Code) (h : Nat) : env (a ++ b) h (csize a) = some (exitH a h) := by
  have := env_append_ge a b h 0 (by omega)
  simpa using this

theorem env_neg (c : Code) (h : Nat) (x : Int) (hx : x < 0) : env c h x = none := by
  cases c with
  | nil => simp only [env]; rw [if_neg (by omega)]
  | cons i c => have := size_pos i; simp only [env]; rw [if_neg (by omega), if_pos (by omega)]

theorem env_append_lt (a b : Code) (h : Nat) (x : Int) (hx : x < csize a) : env (a ++ b) h x = env a h x := by
  induction a generalizing h x with
  | nil => simp only [csize_nil] at hx; rw [env_neg _ _ _ (by simpa using hx), env_neg _ _ _ (by simpa using hx)]
  | cons i a ih =>
    simp only [List.cons_append, env]
    by_cases h0 : x = 0
    · simp [h0]
    · simp only [h0, if_false]
      by_cases h1 : x < i.size
      · simp [h1]
      · simp only [h1, if_false]
        exact ih _ _ (by simp only [csize_cons] at hx; push_cast at hx; omega)

theorem env_end (c : Code) (h : Nat) : env c h (csize c) = some (exitH c h) := by
  have := env_prefix c [] h
  simpa using this

theorem env_some_range (c : Code) (h : Nat) (x : Int) (v : Nat) (hv : env c h x = some v) : 0 ≤ x ∧ x ≤ csize c := by
  induction c generalizing h x with
  | nil =>
    simp only [env] at hv
    split at hv
    · simp_all
    · cases hv
  | cons i c ih =>
    have hp := size_pos i
    simp only [env] at hv
    split at hv
    · rename_i hx0
      have : (0 : Int) ≤ csize (i :: c) := by omega
      exact ⟨by omega, by omega⟩
    · split at hv
      · cases hv
      · have := ih _ _ hv
        simp only [csize_cons]
        push_cast
        omega

theorem Agree.left {E : Int → Option Nat} {o : Int} {a b : Code} {h : Nat} (hA : Agree E o (a ++ b) h) : Agree E o a h := by
  intro x hx0 hx1
  rw [hA x hx0 (by simp only [csize_append]; push_cast; omega)]
  by_cases he : x = csize a
  · rw [he, env_prefix, env_end]
  · exact env_append_lt a b h x (by omega)

theorem Agree.right {E : Int → Option Nat} {o : Int} {a b : Code} {h : Nat} (hA : Agree E o (a ++ b) h) :
    Agree E (o + csize a) b (exitH a h) := by
  intro x hx0 hx1
  rw [show o + ↑(csize a) + x = o + (↑(csize a) + x) by omega, hA _ (by omega) (by simp only [csize_append]; push_cast; omega),
    env_append_ge a b h x hx0]

/-- the height `E` assigns to the boundary after the prefix `p` of the fragment -/
theorem Agree.at {E : Int → Option Nat} {o : Int} {c : Code} {h : Nat} (hA : Agree E o c h) (p q : Code) (hc : c = p ++ q) :
    E (o + csize p) = some (exitH p h) := by
  subst hc
  rw [hA _ (by omega) (by simp only [csize_append]; push_cast; omega), env_prefix]

@[simp] theorem Loc_nil (E : Int → Option Nat) (h : Nat) (o : Int) : Loc E [] h o = True := rfl

theorem Loc_append (E : Int → Option Nat) (a b : Code) (h : Nat) (o : Int) :
    Loc E (a ++ b) h o ↔ Loc E a h o ∧ Loc E b (exitH a h) (o + csize a) := by
  induction a generalizing h o with
  | nil => simp
  | cons i a ih =>
    simp only [List.cons_append, Loc, ih, exitH_cons, csize_cons]
    rw [show o + ↑i.size + ↑(csize a) = o + ↑(i.size + csize a) by push_cast; omega]
    constructor
    · rintro ⟨h1, h2, h3, h4⟩; exact ⟨⟨h1, h2, h3⟩, h4⟩
    · rintro ⟨⟨h1, h2, h3⟩, h4⟩; exact ⟨h1, h2, h3, h4⟩

/-- one jump-free instruction -/
theorem Loc_simple (E : Int → Option Nat) (i : Instr) (h : Nat) (o : Int) (p q : Nat) (hs : sh i = .simple p q) (hn : p ≤ h) :
    Loc E [i] h o := by
  simp only [Loc, needs, hs]
  exact ⟨hn, trivial, trivial⟩

/-! ### a small syntax-directed system -/

/-- a closed fragment: entered at `h` it is locally typed under every height assignment that agrees with its own scan, and the
scan leaves it at `h'` -/
def Typed (c : Code) (h h' : Nat) : Prop :=
  ∀ (E : Int → Option Nat) (o : Int), Agree E o c h → Loc E c h o ∧ exitH c h = h'

theorem Typed.nil (h : Nat) : Typed [] h h := fun _ _ _ => ⟨trivial, rfl⟩

theorem Typed.cast {c : Code} {h h1 h2 : Nat} (t : Typed c h h1) (e : h1 = h2) : Typed c h h2 := e ▸ t

theorem Typed.append {a b : Code} {h h1 h2 : Nat} (ta : Typed a h h1) (tb : Typed b h1 h2) : Typed (a ++ b) h h2 := by
  intro E o hA
  obtain ⟨la, ea⟩ := ta E o hA.left
  have hB := hA.right
  rw [ea] at hB
  obtain ⟨lb, eb⟩ := tb E _ hB
  exact ⟨(Loc_append E a b h o).2 ⟨la, by rw [ea]; exact lb⟩, by rw [exitH_append, ea, eb]⟩

theorem Typed.simple (i : Instr) (p q : Nat) {h : Nat} (hs : sh i = .simple p q) (hn : p ≤ h) : Typed [i] h (h - p + q) := by
  intro E o _
  exact ⟨Loc_simple E i h o p q hs hn, by simp [after, hs]⟩

/-- jump-free instruction lists -/
def jumpFree : Code → Nat → Bool
  | [], _ => true
  | i :: c, h => (match sh i with | .simple p _ => decide (p ≤ h) | _ => false) && jumpFree c (after i h)

theorem Typed.straight : ∀ (c : Code) (h : Nat), jumpFree c h = true → Typed c h (exitH c h)
  | [], h, _ => Typed.nil h
  | i :: c, h, hs => by
    simp only [jumpFree, Bool.and_eq_true] at hs
    have ih := Typed.straight c (after i h) hs.2
    cases hsh : sh i with
    | simple p q =>
      rw [hsh] at hs
      have t1 := Typed.simple i p q hsh (by simpa using hs.1)
      have : after i h = h - p + q := by simp [after, hsh]
      rw [← this] at t1
      exact (t1.append ih : Typed ([i] ++ c) h _)
    | jmp p cnd off => rw [hsh] at hs; simp at hs
    | halt p => rw [hsh] at hs; simp at hs

theorem Typed.halt (i : Instr) (p : Nat) {h : Nat} (hs : sh i = .halt p) (hn : p ≤ h) : Typed [i] h (h - p) := by
  intro E o _
  refine ⟨?_, by simp [after, hs]⟩
  simp only [Loc, needs, hs]
  exact ⟨hn, trivial, trivial⟩

theorem after_cond {i : Instr} {p : Nat} {off : Int} (hs : sh i = .jmp p true off) (h : Nat) : after i h = h - p := by
  simp [after, hs]
@[simp] theorem after_jump (off : Int) (h : Nat) : after (.jump off) h = h - 1 := by simp [after, sh]
theorem exitH_one (i : Instr) (h : Nat) : exitH [i] h = after i h := rfl

/-- a conditional jump at `o` whose target is the boundary after the prefix `pre` of the enclosing fragment -/
theorem Loc_cjump {E : Int → Option Nat} {j : Instr} {p : Nat} {off : Int} {h : Nat} {o : Int} {v : Nat} {x : Int}
    (hs : sh j = .jmp p true off) (hp : p ≤ h) (ht : E x = some v) (hx : o + j.size + off = x) (hv : v = h - p) : Loc E [j] h o := by
  simp only [Loc, needs, hs]
  exact ⟨hp, by rw [hx, ht, hv], trivial⟩

theorem Loc_jump {E : Int → Option Nat} {off : Int} {h : Nat} {o : Int} {v : Nat} {x : Int}
    (ht : E x = some v) (hx : o + 2 + off = x) (hv : v = h) : Loc E [.jump off] h o := by
  simp only [Loc, needs, sh]
  refine ⟨Nat.zero_le _, ?_, trivial⟩
  show E (o + ((Instr.jump off).size : Nat) + off) = some (h - 0)
  rw [show ((Instr.jump off).size : Nat) = 2 from rfl]
  rw [show (o + ((2 : Nat) : Int) + off) = x by omega, ht, hv]; rfl

/-- `cc ; j→else ; ct ; jump→end ; cf` — the shape of `?:` (and of if/else at height 0) -/
theorem Typed.cond {cc ct cf : Code} {j : Int → Instr} {p h hc h' : Nat}
    (hj : ∀ off, sh (j off) = .jmp p true off) (hsz : ∀ off, (j off).size = 2)
    (tc : Typed cc h hc) (hp : p ≤ hc) (tt : Typed ct (hc - p) h') (tf : Typed cf (h' - 1) h') (hh : h' - 1 = hc - p) :
    Typed (cc ++ [j (csize ct + 2)] ++ ct ++ [.jump (csize cf)] ++ cf) h h' := by
  intro E o hA
  obtain ⟨l1, e1⟩ := tc E o hA.left.left.left.left
  have hAt := hA.left.left.right
  have hAf := hA.right
  have x1 : exitH (cc ++ [j (↑(csize ct) + 2)]) h = hc - p := by
    rw [exitH_append, e1, exitH_one, after_cond (hj _)]
  rw [x1] at hAt
  obtain ⟨l2, e2⟩ := tt E _ hAt
  have x4 : exitH (cc ++ [j (↑(csize ct) + 2)] ++ ct) h = h' := by rw [exitH_append, x1, e2]
  have x2 : exitH (cc ++ [j (↑(csize ct) + 2)] ++ ct ++ [.jump ↑(csize cf)]) h = h' - 1 := by
    rw [exitH_append, x4, exitH_one, after_jump]
  rw [x2] at hAf
  obtain ⟨l3, e3⟩ := tf E _ hAf
  have tgt1 := hA.at (cc ++ [j (↑(csize ct) + 2)] ++ ct ++ [.jump ↑(csize cf)]) cf rfl
  have tgt2 := hA.at (cc ++ [j (↑(csize ct) + 2)] ++ ct ++ [.jump ↑(csize cf)] ++ cf) [] (by simp)
  rw [x2] at tgt1
  have x3 : exitH (cc ++ [j (↑(csize ct) + 2)] ++ ct ++ [.jump ↑(csize cf)] ++ cf) h = h' := by
    rw [exitH_append, x2, e3]
  rw [x3] at tgt2
  refine ⟨?_, x3⟩
  rw [Loc_append, Loc_append, Loc_append, Loc_append]
  refine ⟨⟨⟨⟨l1, ?_⟩, ?_⟩, ?_⟩, ?_⟩
  · rw [e1]
    refine Loc_cjump (hj _) hp tgt1 ?_ hh
    simp only [csize_append, csize_cons, csize_nil, hsz, Instr.size]
    push_cast; omega
  · rw [x1]; exact l2
  · rw [x4]
    refine Loc_jump tgt2 ?_ rfl
    simp only [csize_append, csize_cons, csize_nil, hsz, Instr.size]
    push_cast; omega
  · rw [x2]; exact l3

/-- `l ; dupe ; j→boolean ; drop ; r ; boolean` — the shape of `&&` and `||` -/
theorem Typed.andor {cl cr : Code} {j : Int → Instr} {h : Nat}
    (hj : ∀ off, sh (j off) = .jmp 1 true off) (hsz : ∀ off, (j off).size = 2)
    (tl : Typed cl h (h + 1)) (tr : Typed cr h (h + 1)) :
    Typed (cl ++ [.dupe, j (1 + csize cr)] ++ [.drop] ++ cr ++ [.boolean]) h (h + 1) := by
  intro E o hA
  obtain ⟨l1, e1⟩ := tl E o hA.left.left.left.left
  have x1 : exitH (cl ++ [.dupe, j (1 + ↑(csize cr))] ++ [.drop]) h = h := by
    rw [exitH_append, exitH_append, e1]
    simp only [exitH_cons, exitH_nil, after_cond (hj _)]
    simp [after, sh]
  have hAr := hA.left.right
  rw [x1] at hAr
  obtain ⟨l2, e2⟩ := tr E _ hAr
  have x2 : exitH (cl ++ [.dupe, j (1 + ↑(csize cr))] ++ [.drop] ++ cr) h = h + 1 := by rw [exitH_append, x1, e2]
  have tgt := hA.at (cl ++ [.dupe, j (1 + ↑(csize cr))] ++ [.drop] ++ cr) [.boolean] rfl
  rw [x2] at tgt
  refine ⟨?_, by rw [exitH_append, x2]; simp [after, sh]⟩
  rw [Loc_append, Loc_append, Loc_append, Loc_append]
  refine ⟨⟨⟨⟨l1, ?_⟩, ?_⟩, ?_⟩, ?_⟩
  · rw [e1]
    have : Loc E ([.dupe] ++ [j (1 + ↑(csize cr))]) (h + 1) (o + ↑(csize cl)) := by
      rw [Loc_append]
      refine ⟨Loc_simple E _ _ _ 1 2 rfl (by omega), ?_⟩
      refine Loc_cjump (v := h + 1) (hj _) (by simp [after, sh]) tgt ?_ (by simp [after, sh])
      simp only [csize_append, csize_cons, csize_nil, hsz, Instr.size]
      push_cast; omega
    exact this
  · have : exitH (cl ++ [.dupe, j (1 + ↑(csize cr))]) h = h + 1 := by
      rw [exitH_append, e1]; simp only [exitH_cons, exitH_nil, after_cond (hj _)]; simp [after, sh]
    rw [this]
    exact Loc_simple E _ _ _ 1 0 rfl (by omega)
  · rw [x1]; exact l2
  · rw [x2]; exact Loc_simple E _ _ _ 1 1 rfl (by omega)

end GoawkModel.C02.Ty
