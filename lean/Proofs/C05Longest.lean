import GoawkModel.C05Grammar
import Proofs.C05Scan
/-! C05 helper lemmas: `parseFloatPrefix` consumes the longest numeric text at the start of the string.
`prefixSpan` re-describes the scanner with the consumed text made explicit; `prefixCore_eq_resOf` links it to the model. -/
namespace GoawkModel.C05
open GoawkModel

/-- the exponent part consumed from what follows the mantissa -/
def expSpan (isX : UInt8 → Bool) : Bytes → Bytes
  | c :: r4 =>
    if isX c then
      if ((optSign r4).2.takeWhile isDigit).isEmpty then [] else c :: ((optSign r4).1 ++ (optSign r4).2.takeWhile isDigit)
    else []
  | [] => []

/-- mantissa and exponent consumed by a digit scanner over the class `dig`; `none` = no digit -/
def numSpan (dig isX : UInt8 → Bool) (s : Bytes) : Option (Bytes × Bytes) :=
  let d1 := s.takeWhile dig
  let r1 := s.dropWhile dig
  let dot := (optDot r1).1
  let r2 := (optDot r1).2
  let d2 := r2.takeWhile dig
  let r3 := r2.dropWhile dig
  if d1.isEmpty && d2.isEmpty then none else some (d1 ++ dot ++ d2, expSpan isX r3)

theorem decPrefix_eq (sign s : Bytes) :
    decPrefix sign s = match numSpan isDigit isE s with
      | none => .zero
      | some (m, e) => .conv (sign ++ m ++ e) := by
  unfold decPrefix numSpan
  simp only []
  by_cases h : ((s.takeWhile isDigit).isEmpty && ((optDot (s.dropWhile isDigit)).2.takeWhile isDigit).isEmpty) = true
  · simp [h]
  · simp only [h]
    cases h3 : (optDot (s.dropWhile isDigit)).2.dropWhile isDigit with
    | nil => simp [expSpan]
    | cons c r4 =>
      by_cases hc : isE c = true
      · by_cases hd : ((optSign r4).2.takeWhile isDigit).isEmpty = true <;> simp [expSpan, hc, hd]
      · simp [expSpan, hc]

theorem hexPrefix_eq (pre s : Bytes) :
    hexPrefix pre s = match numSpan isHexDigit isP s with
      | none => .zero
      | some (m, e) => .conv (pre ++ m ++ (if e.isEmpty then p0 else e)) := by
  unfold hexPrefix numSpan
  simp only []
  by_cases h : ((s.takeWhile isHexDigit).isEmpty && ((optDot (s.dropWhile isHexDigit)).2.takeWhile isHexDigit).isEmpty) = true
  · simp [h]
  · simp only [h]
    cases h3 : (optDot (s.dropWhile isHexDigit)).2.dropWhile isHexDigit with
    | nil => simp [expSpan]
    | cons c r4 =>
      by_cases hc : isP c = true
      · by_cases hd : ((optSign r4).2.takeWhile isDigit).isEmpty = true <;> simp [expSpan, hc, hd]
      · simp [expSpan, hc]

/-- the scanner with the consumed text (sign included, appended `p0` not included) made explicit -/
def prefixSpan (u : Bytes) : Option (Shape × Bytes) :=
  let sign := (optSign u).1
  let r := (optSign u).2
  if hasNaNPrefix r then some (.nan, sign ++ r.take 3)
  else if hasInfPrefix r then some (.inf, sign ++ r.take 3)
  else match r with
    | a :: b :: c :: rest =>
      if hasHexPrefix (a :: b :: c :: rest) then
        (numSpan isHexDigit isP (c :: rest)).map fun (m, e) => (if e.isEmpty then Shape.hex0 else Shape.hexE, sign ++ [a, b] ++ m ++ e)
      else (numSpan isDigit isE r).map fun (m, e) => (Shape.dec, sign ++ m ++ e)
    | _ => (numSpan isDigit isE r).map fun (m, e) => (Shape.dec, sign ++ m ++ e)

def resOf : Option (Shape × Bytes) → Res
  | none => .zero
  | some (.nan, _) => .nan
  | some (.inf, p) => .inf (p.head? == some 45)
  | some (sh, p) => .conv (strconvText sh p)

theorem inf_head {r : Bytes} (h : hasInfPrefix r = true) : ∃ x xs, r = x :: xs ∧ x ≠ 45 := by
  match r, h with
  | x :: y :: z :: rest, h =>
    refine ⟨x, _, rfl, ?_⟩
    intro hx; subst hx; simp [hasInfPrefix] at h

theorem prefixCore_eq_resOf (u : Bytes) : prefixCore u = resOf (prefixSpan u) := by
  unfold prefixCore prefixSpan
  simp only []
  by_cases hn : hasNaNPrefix (optSign u).2 = true
  · simp [hn, resOf]
  · simp only [hn]
    by_cases hi : hasInfPrefix (optSign u).2 = true
    · simp only [hi, if_true, resOf]
      obtain ⟨x, xs, hx, hne⟩ := inf_head hi
      have e0 := optSign_parts u
      cases u with
      | nil => simp [optSign] at hx
      | cons c rest =>
        by_cases hs : isSign c = true
        · simp [optSign, hs]
        · simp [optSign, hs] at hx ⊢
          simp [hx.1, hne]
    · simp only [hi]
      have hdec : decPrefix (optSign u).1 (optSign u).2 =
          resOf ((numSpan isDigit isE (optSign u).2).map fun (m, e) => (Shape.dec, (optSign u).1 ++ m ++ e)) := by
        rw [decPrefix_eq]
        cases numSpan isDigit isE (optSign u).2 with
        | none => rfl
        | some me => obtain ⟨m, e⟩ := me; simp [resOf, strconvText]
      match hr : (optSign u).2 with
      | a :: b :: c :: rest =>
        rw [hr] at hdec
        by_cases hx : hasHexPrefix (a :: b :: c :: rest) = true
        · simp only [hx, if_true, hexPrefix_eq]
          cases numSpan isHexDigit isP (c :: rest) with
          | none => rfl
          | some me =>
            obtain ⟨m, e⟩ := me
            by_cases he : e.isEmpty = true
            · have : e = [] := by simpa using he
              subst this
              simp [resOf, strconvText]
            · have hne : e ≠ [] := by simpa using he
              simp [resOf, strconvText, hne]
        · simp only [hx]
          exact hdec
      | [] => rw [hr] at hdec; exact hdec
      | [a] => rw [hr] at hdec; exact hdec
      | [a, b] => rw [hr] at hdec; exact hdec

end GoawkModel.C05

namespace GoawkModel.C05
open GoawkModel

theorem optSign_isOpt (r : Bytes) : IsOptSign (optSign r).1 := by
  cases r with
  | nil => exact Or.inl rfl
  | cons x xs =>
    by_cases hx : isSign x = true
    · exact Or.inr ⟨x, by simp [optSign, hx], hx⟩
    · exact Or.inl (by simp [optSign, hx])

theorem optDot_fst (r : Bytes) : ((optDot r).1 = [] ∧ (optDot r).2 = r) ∨ (optDot r).1 = [46] := by
  cases r with
  | nil => exact Or.inl ⟨rfl, rfl⟩
  | cons x xs =>
    by_cases hx : isDot x = true
    · have : x = 46 := by simpa [isDot] using hx
      subst this
      exact Or.inr (by simp [optDot, hx])
    · exact Or.inl (by simp [optDot, hx])

theorem all_takeWhile (p : UInt8 → Bool) (l : Bytes) : (l.takeWhile p).all p = true := by
  rw [List.all_eq_true]; exact fun c hc => mem_takeWhile_imp l c hc

theorem takeWhile_dropWhile_nil (p : UInt8 → Bool) : ∀ l : Bytes, (l.dropWhile p).takeWhile p = []
  | [] => rfl
  | x :: xs => by
    by_cases hx : p x = true
    · simp [List.dropWhile, hx, takeWhile_dropWhile_nil p xs]
    · simp [List.dropWhile, List.takeWhile, hx]

theorem expSpan_shape (isX : UInt8 → Bool) (r3 : Bytes) :
    ExpShape isX (expSpan isX r3) ∧ ∃ tail, r3 = expSpan isX r3 ++ tail := by
  cases r3 with
  | nil => exact ⟨Or.inl rfl, [], rfl⟩
  | cons c r4 =>
    by_cases hc : isX c = true
    · by_cases hd : ((optSign r4).2.takeWhile isDigit).isEmpty = true
      · simp [expSpan, hc, hd, ExpShape]
      · have hne : (optSign r4).2.takeWhile isDigit ≠ [] := by simpa using hd
        refine ⟨Or.inr ⟨c, (optSign r4).1, (optSign r4).2.takeWhile isDigit, by simp [expSpan, hc, hd], hc,
          optSign_isOpt r4, all_takeWhile _ _, hne⟩, (optSign r4).2.dropWhile isDigit, ?_⟩
        simp only [expSpan, hc, hd, if_true]
        have e1 := optSign_parts r4
        have e2 := tw_dw isDigit (optSign r4).2
        simp [List.append_assoc, e2, e1]
    · simp [expSpan, hc, ExpShape]

theorem numSpan_shape (dig isX : UInt8 → Bool) (s m e : Bytes) (h : numSpan dig isX s = some (m, e)) :
    (∃ d1 dot d2, m = d1 ++ dot ++ d2 ∧ MantShape dig d1 dot d2) ∧ ExpShape isX e ∧ ∃ tail, s = m ++ e ++ tail := by
  unfold numSpan at h
  simp only [] at h
  by_cases hnd : ((s.takeWhile dig).isEmpty && ((optDot (s.dropWhile dig)).2.takeWhile dig).isEmpty) = true
  · simp [hnd] at h
  · simp only [hnd] at h
    simp at h
    obtain ⟨hm, he⟩ := h
    have e1 := tw_dw dig s
    have e2 := optDot_parts (s.dropWhile dig)
    have e3 := tw_dw dig (optDot (s.dropWhile dig)).2
    obtain ⟨hes, tail, htail⟩ := expSpan_shape isX ((optDot (s.dropWhile dig)).2.dropWhile dig)
    refine ⟨⟨s.takeWhile dig, (optDot (s.dropWhile dig)).1, (optDot (s.dropWhile dig)).2.takeWhile dig, by simp [← hm],
      all_takeWhile _ _, all_takeWhile _ _, ?_, ?_⟩, by rw [← he]; exact hes, tail, ?_⟩
    · rcases optDot_fst (s.dropWhile dig) with ⟨h1, h2⟩ | h1
      · exact Or.inl ⟨h1, by rw [h2]; exact takeWhile_dropWhile_nil dig s⟩
      · exact Or.inr h1
    · simp at hnd
      by_cases h1 : s.takeWhile dig = []
      · exact Or.inr (hnd h1)
      · exact Or.inl h1
    · rw [← hm, ← he]
      conv => lhs; rw [← e1, ← e2, ← e3, htail]
      simp [List.append_assoc]

theorem hasNaN_take {r : Bytes} (h : hasNaNPrefix r = true) : (r.take 3).length = 3 ∧ hasNaNPrefix (r.take 3) = true := by
  match r, h with
  | x :: y :: z :: rest, h => exact ⟨by simp, by simpa [hasNaNPrefix] using h⟩

theorem hasInf_take {r : Bytes} (h : hasInfPrefix r = true) : (r.take 3).length = 3 ∧ hasInfPrefix (r.take 3) = true := by
  match r, h with
  | x :: y :: z :: rest, h => exact ⟨by simp, by simpa [hasInfPrefix] using h⟩

/-- existence: what the scanner consumes is a numeric text of the reported shape and a prefix of the string -/
theorem prefixSpan_sound (u : Bytes) (sh : Shape) (p : Bytes) (h : prefixSpan u = some (sh, p)) :
    NumTextS sh p ∧ p <+: u := by
  have e0 := optSign_parts u
  have hsg := optSign_isOpt u
  unfold prefixSpan at h
  simp only [] at h
  generalize (optSign u).1 = sign at *
  generalize (optSign u).2 = r at *
  subst e0
  by_cases hn : hasNaNPrefix r = true
  · simp [hn] at h
    obtain ⟨h1, h2⟩ := h; subst h1; subst h2
    exact ⟨⟨sign, r.take 3, rfl, hsg, hasNaN_take hn⟩, ⟨r.drop 3, by simp⟩⟩
  · simp only [hn] at h
    by_cases hi : hasInfPrefix r = true
    · simp [hi] at h
      obtain ⟨h1, h2⟩ := h; subst h1; subst h2
      exact ⟨⟨sign, r.take 3, rfl, hsg, hasInf_take hi⟩, ⟨r.drop 3, by simp⟩⟩
    · simp only [hi] at h
      have hdec : ∀ r', (numSpan isDigit isE r').map (fun (m, e) => (Shape.dec, sign ++ m ++ e)) = some (sh, p) →
          NumTextS sh p ∧ p <+: sign ++ r' := by
        intro r' h
        cases hs : numSpan isDigit isE r' with
        | none => simp [hs] at h
        | some me =>
          obtain ⟨m, e⟩ := me
          simp [hs] at h
          obtain ⟨h1, h2⟩ := h; subst h1; subst h2
          obtain ⟨⟨d1, dot, d2, hm, hms⟩, hes, tail, ht⟩ := numSpan_shape _ _ _ _ _ hs
          refine ⟨⟨sign, m ++ e, by simp, hsg, d1, dot, d2, e, by rw [hm], hms, hes⟩, ⟨tail, ?_⟩⟩
          rw [ht]; simp
      match r, h with
      | a :: b :: c :: rest, h =>
        by_cases hx : hasHexPrefix (a :: b :: c :: rest) = true
        · simp only [hx, if_true] at h
          obtain ⟨ha, hb⟩ := hasHexPrefix_head hx
          cases hs : numSpan isHexDigit isP (c :: rest) with
          | none => simp [hs] at h
          | some me =>
            obtain ⟨m, e⟩ := me
            simp [hs] at h
            obtain ⟨h1, h2⟩ := h; subst h2
            obtain ⟨⟨d1, dot, d2, hm, hms⟩, hes, tail, ht⟩ := numSpan_shape _ _ _ _ _ hs
            refine ⟨⟨sign, a :: b :: (m ++ e), by simp, hsg, ?_⟩, ⟨tail, by rw [ht]; simp⟩⟩
            subst ha
            by_cases he : e = []
            · subst he
              simp at h1; subst h1
              exact ⟨b, d1, dot, d2, by simp [hm], hb, hms⟩
            · simp [he] at h1; subst h1
              exact ⟨b, d1, dot, d2, e, by simp [hm], hb, hms, hes, he⟩
        · simp only [hx] at h
          exact hdec _ h
      | [], h => exact hdec _ h
      | [a], h => exact hdec _ h
      | [a, b], h => exact hdec _ h

end GoawkModel.C05

namespace GoawkModel.C05
open GoawkModel

theorem twA {p : UInt8 → Bool} : ∀ (l r : Bytes), l.all p = true → (l ++ r).takeWhile p = l ++ r.takeWhile p
  | [], _, _ => rfl
  | x :: xs, r, h => by
    simp at h
    simp [List.takeWhile, h.1, twA xs r (by simpa using h.2)]

theorem dwA {p : UInt8 → Bool} : ∀ (l r : Bytes), l.all p = true → (l ++ r).dropWhile p = r.dropWhile p
  | [], _, _ => rfl
  | x :: xs, r, h => by
    simp at h
    simp [List.dropWhile, h.1, dwA xs r (by simpa using h.2)]

theorem digit_not_sign {x : UInt8} (h : isDigit x = true) : isSign x = false := by
  cases hs : isSign x with
  | false => rfl
  | true =>
    simp [isSign] at hs
    rcases hs with hs | hs <;> subst hs <;> revert h <;> decide

theorem expSpan_forward (isX : UInt8 → Bool) (e : UInt8) (es d3 rest : Bytes) (hx : isX e = true) (hes : IsOptSign es)
    (hd : d3.all isDigit = true) (hne : d3 ≠ []) :
    expSpan isX (e :: (es ++ d3) ++ rest) = e :: (es ++ (d3 ++ rest.takeWhile isDigit)) := by
  have hos : optSign (es ++ d3 ++ rest) = (es, d3 ++ rest) := by
    rcases hes with rfl | ⟨c, rfl, hc⟩
    · cases d3 with
      | nil => exact absurd rfl hne
      | cons x xs =>
        simp at hd
        simp [optSign, digit_not_sign hd.1]
    · simp [optSign, hc]
  have htw : (d3 ++ rest).takeWhile isDigit = d3 ++ rest.takeWhile isDigit := twA d3 rest hd
  have hne' : ((d3 ++ rest.takeWhile isDigit).isEmpty) = false := by
    cases d3 with
    | nil => exact absurd rfl hne
    | cons x xs => rfl
  simp only [List.cons_append, List.append_assoc, expSpan, hx, if_true]
  rw [← List.append_assoc, hos]
  simp only [htw, hne']
  simp

/-- forward computation: a text of the mantissa/exponent shape, followed by anything, is consumed at least entirely -/
theorem numSpan_forward (dig isX : UInt8 → Bool) (hdot : dig 46 = false)
    (hX : ∀ e, isX e = true → dig e = false ∧ isDot e = false)
    (d1 dot d2 ex rest : Bytes) (hm : MantShape dig d1 dot d2) (he : ExpShape isX ex) :
    match numSpan dig isX (d1 ++ dot ++ d2 ++ ex ++ rest) with
    | none => False
    | some (m, e) => (d1 ++ dot ++ d2 ++ ex).length ≤ (m ++ e).length := by
  obtain ⟨h1, h2, hdc, hne⟩ := hm
  have hdot46 : isDot 46 = true := by decide
  rcases hdc with ⟨rfl, rfl⟩ | rfl
  · -- no dot: the text is d1 (d1 ≠ []) and maybe an exponent
    have hd1 : d1 ≠ [] := by rcases hne with h | h; exact h; exact absurd rfl h
    have hd1e : ∀ t : Bytes, (d1 ++ t).isEmpty = false := by
      intro t; cases d1 with
      | nil => exact absurd rfl hd1
      | cons x xs => rfl
    rcases he with rfl | ⟨e, es, d3, rfl, hxe, hes, hd3, hd3ne⟩
    · simp only [List.append_nil, numSpan, twA d1 rest h1, hd1e, Bool.false_and]
      simp only [List.length_append]
      split <;> rename_i heq
      · simp at heq
      · simp at heq
        obtain ⟨hm, _⟩ := heq
        rw [← hm]; simp only [List.length_append]; omega
    · obtain ⟨hde, hdte⟩ := hX e hxe
      have ht : (d1 ++ ([] : Bytes) ++ [] ++ e :: (es ++ d3) ++ rest) = d1 ++ (e :: (es ++ d3) ++ rest) := by simp
      have htw : (d1 ++ (e :: (es ++ d3) ++ rest)).takeWhile dig = d1 := by
        rw [twA _ _ h1]; simp [List.takeWhile, hde]
      have hdw : (d1 ++ (e :: (es ++ d3) ++ rest)).dropWhile dig = e :: (es ++ d3) ++ rest := by
        rw [dwA _ _ h1]; simp [List.dropWhile, hde]
      have hod : optDot (e :: (es ++ d3) ++ rest) = ([], e :: (es ++ d3) ++ rest) := by simp [optDot, hdte]
      have htw2 : (e :: (es ++ d3) ++ rest).takeWhile dig = [] := by simp [List.takeWhile, hde]
      have hdw2 : (e :: (es ++ d3) ++ rest).dropWhile dig = e :: (es ++ d3) ++ rest := by simp [List.dropWhile, hde]
      have hd1e' : d1.isEmpty = false := by simpa using hd1e []
      rw [ht]
      simp only [numSpan, htw, hdw, hod, htw2, hdw2, hd1e', Bool.false_and, expSpan_forward isX e es d3 rest hxe hes hd3 hd3ne]
      simp only [Bool.false_eq_true, if_false, List.length_append, List.length_cons, List.length_nil]
      omega
  · -- with a dot
    have htw : ∀ t : Bytes, (d1 ++ 46 :: t).takeWhile dig = d1 := by
      intro t; rw [twA _ _ h1]; simp [List.takeWhile, hdot]
    have hdw : ∀ t : Bytes, (d1 ++ 46 :: t).dropWhile dig = 46 :: t := by
      intro t; rw [dwA _ _ h1]; simp [List.dropWhile, hdot]
    have hod : ∀ t : Bytes, optDot (46 :: t) = ([46], t) := by intro t; simp [optDot, hdot46]
    have hemp : ∀ t : Bytes, (d1.isEmpty && (d2 ++ t).isEmpty) = false := by
      intro t
      rcases hne with h | h
      · cases d1 with
        | nil => exact absurd rfl h
        | cons x xs => rfl
      · cases d2 with
        | nil => exact absurd rfl h
        | cons x xs => simp
    rcases he with rfl | ⟨e, es, d3, rfl, hxe, hes, hd3, hd3ne⟩
    · have ht : (d1 ++ [46] ++ d2 ++ [] ++ rest) = d1 ++ 46 :: (d2 ++ rest) := by simp
      rw [ht]
      simp only [numSpan, htw, hdw, hod, twA d2 rest h2, hemp]
      simp only [Bool.false_eq_true, if_false, List.length_append, List.length_cons, List.length_nil]
      omega
    · obtain ⟨hde, hdte⟩ := hX e hxe
      have ht : (d1 ++ [46] ++ d2 ++ e :: (es ++ d3) ++ rest) = d1 ++ 46 :: (d2 ++ (e :: (es ++ d3) ++ rest)) := by simp
      have htw2 : (d2 ++ (e :: (es ++ d3) ++ rest)).takeWhile dig = d2 := by
        rw [twA _ _ h2]; simp [List.takeWhile, hde]
      have hdw2 : (d2 ++ (e :: (es ++ d3) ++ rest)).dropWhile dig = e :: (es ++ d3) ++ rest := by
        rw [dwA _ _ h2]; simp [List.dropWhile, hde]
      have hemp' : (d1.isEmpty && d2.isEmpty) = false := by simpa using hemp []
      rw [ht]
      simp only [numSpan, htw, hdw, hod, htw2, hdw2, hemp', expSpan_forward isX e es d3 rest hxe hes hd3 hd3ne]
      simp only [Bool.false_eq_true, if_false, List.length_append, List.length_cons, List.length_nil]
      omega

end GoawkModel.C05

namespace GoawkModel.C05
open GoawkModel

theorem isE_facts {e : UInt8} (h : isE e = true) : isDigit e = false ∧ isDot e = false := by
  simp [isE] at h; rcases h with h | h <;> subst h <;> decide
theorem isP_facts {e : UInt8} (h : isP e = true) : isHexDigit e = false ∧ isDot e = false := by
  simp [isP] at h; rcases h with h | h <;> subst h <;> decide
theorem isX_facts {b : UInt8} (h : isX b = true) : isDigit b = false ∧ isDot b = false ∧ isE b = false ∧ b ≠ 46 := by
  simp [isX] at h; rcases h with h | h <;> subst h <;> decide

/-- the first byte of a numeric text's body is never a sign -/
theorem shape_head {sh : Shape} {body : Bytes} (h : HasShape sh body) : ∃ x xs, body = x :: xs ∧ isSign x = false := by
  cases sh with
  | dec =>
    obtain ⟨d1, dot, d2, ex, rfl, ⟨h1, h2, hdc, hne⟩, _⟩ := h
    cases d1 with
    | cons x xs => simp at h1; exact ⟨x, xs ++ dot ++ d2 ++ ex, by simp, digit_not_sign h1.1⟩
    | nil =>
      rcases hdc with ⟨rfl, rfl⟩ | rfl
      · rcases hne with h | h <;> exact absurd rfl h
      · exact ⟨46, d2 ++ ex, by simp, by decide⟩
  | hexE => obtain ⟨b, d1, dot, d2, ex, rfl, _⟩ := h; exact ⟨48, _, rfl, by decide⟩
  | hex0 => obtain ⟨b, d1, dot, d2, rfl, _⟩ := h; exact ⟨48, _, rfl, by decide⟩
  | nan =>
    obtain ⟨hl, hp⟩ := h
    match body, hl, hp with
    | [x, y, z], _, hp =>
      refine ⟨x, _, rfl, ?_⟩
      simp [hasNaNPrefix] at hp
      rcases hp.1.1 with h | h <;> subst h <;> decide
  | inf =>
    obtain ⟨hl, hp⟩ := h
    match body, hl, hp with
    | [x, y, z], _, hp =>
      refine ⟨x, _, rfl, ?_⟩
      simp [hasInfPrefix] at hp
      rcases hp.1.1 with h | h <;> subst h <;> decide

theorem optSign_of_text {sign body rest : Bytes} {sh : Shape} (hs : IsOptSign sign) (hb : HasShape sh body) :
    optSign (sign ++ body ++ rest) = (sign, body ++ rest) := by
  obtain ⟨x, xs, rfl, hx⟩ := shape_head hb
  rcases hs with rfl | ⟨c, rfl, hc⟩
  · simp [optSign, hx]
  · simp [optSign, hc]

/-- a decimal text whose continuation looks like a hex prefix is just `0` -/
theorem dec_hex_clash {body rest t : Bytes} {b : UInt8} (h : HasShape .dec body) (hu : body ++ rest = 48 :: b :: t)
    (hb : isX b = true) : body = [48] := by
  obtain ⟨hbd, hbt, hbe, hb46⟩ := isX_facts hb
  obtain ⟨d1, dot, d2, ex, rfl, ⟨h1, h2, hdc, hne⟩, he⟩ := h
  cases d1 with
  | nil =>
    rcases hdc with ⟨rfl, rfl⟩ | rfl
    · rcases hne with h | h <;> exact absurd rfl h
    · simp at hu
  | cons x d1' =>
    cases d1' with
    | cons y ys =>
      simp at hu h1
      obtain ⟨_, hy, _⟩ := hu
      subst hy
      rw [h1.2.1] at hbd; cases hbd
    | nil =>
      rcases hdc with ⟨rfl, rfl⟩ | rfl
      · rcases he with rfl | ⟨e, es, d3, rfl, hxe, _⟩
        · simp at hu ⊢
          all_goals (try exact hu.1)
        · simp at hu
          obtain ⟨_, hy, _⟩ := hu
          subst hy
          rw [hxe] at hbe; cases hbe
      · simp at hu
        exact absurd hu.2.1.symm hb46

theorem numSpan_nil (dig isX : UInt8 → Bool) : numSpan dig isX [] = none := by
  simp [numSpan, optDot]

theorem length_le_of_some {o : Option (Bytes × Bytes)} {n : Nat}
    (h : match o with | none => False | some (m, e) => n ≤ (m ++ e).length) :
    ∃ m e, o = some (m, e) ∧ n ≤ (m ++ e).length := by
  cases o with
  | none => exact absurd h id
  | some me => obtain ⟨m, e⟩ := me; exact ⟨m, e, rfl, h⟩

/-- maximality: a numeric text `q` at the start of the string is consumed at least entirely — unless the scanner
committed to the hex branch and found no hex digit (`HexNoDigits`) -/
theorem prefixSpan_maximal (q rest : Bytes) (sh : Shape) (hq : NumTextS sh q) (hnq : ¬ HexNoDigits (q ++ rest)) :
    ∃ sh' p, prefixSpan (q ++ rest) = some (sh', p) ∧ q.length ≤ p.length := by
  obtain ⟨sign, body, rfl, hs, hb⟩ := hq
  have hos := optSign_of_text (rest := rest) hs hb
  unfold prefixSpan
  simp only [hos]
  cases sh with
  | nan =>
    obtain ⟨hl, hp⟩ := hb
    match body, hl, hp with
    | [x, y, z], _, hp =>
      have : hasNaNPrefix (x :: y :: z :: rest) = true := by simpa [hasNaNPrefix] using hp
      exact ⟨.nan, sign ++ [x, y, z], by simp [this], by simp⟩
  | inf =>
    obtain ⟨hl, hp⟩ := hb
    match body, hl, hp with
    | [x, y, z], _, hp =>
      have h1 : hasInfPrefix (x :: y :: z :: rest) = true := by simpa [hasInfPrefix] using hp
      have h2 : hasNaNPrefix (x :: y :: z :: rest) = false := by
        simp [hasInfPrefix] at hp
        have : (x == 110 || x == 78) = false := by rcases hp.1.1 with h | h <;> subst h <;> decide
        simp [hasNaNPrefix, this]
      exact ⟨.inf, sign ++ [x, y, z], by simp [h1, h2], by simp⟩
  | dec =>
    obtain ⟨x, xs, hxs, _⟩ := shape_head hb
    have hb' := hb
    obtain ⟨d1, dot, d2, ex, hbody, hms, hes⟩ := hb
    have hhead : isDigit x = true ∨ isDot x = true := by
      obtain ⟨h1, h2, hdc, hne⟩ := hms
      rw [hbody] at hxs
      cases d1 with
      | cons y ys => simp at hxs h1; rw [← hxs.1]; exact Or.inl h1.1
      | nil =>
        rcases hdc with ⟨rfl, rfl⟩ | rfl
        · rcases hne with h | h <;> exact absurd rfl h
        · simp at hxs; rw [← hxs.1]; exact Or.inr (by decide)
    have hw : hasNaNPrefix (body ++ rest) = false ∧ hasInfPrefix (body ++ rest) = false := by
      rw [hxs]; exact words_false_of_head (xs ++ rest) hhead
    simp only [hw.1, hw.2]
    have hfw := length_le_of_some (numSpan_forward isDigit isE (by decide) (fun e he => isE_facts he) d1 dot d2 ex rest hms hes)
    rw [← hbody] at hfw
    obtain ⟨m, e, hme, hlen⟩ := hfw
    have hdecres : ∃ sh' p, Option.map (fun (me : Bytes × Bytes) => (Shape.dec, sign ++ me.1 ++ me.2)) (numSpan isDigit isE (body ++ rest)) = some (sh', p) ∧
        (sign ++ body).length ≤ p.length := by
      refine ⟨.dec, sign ++ m ++ e, by simp [hme], ?_⟩
      simp only [List.length_append] at hlen ⊢; omega
    match hr : body ++ rest with
    | a :: b :: c :: t =>
      rw [hr] at hdecres
      by_cases hx : hasHexPrefix (a :: b :: c :: t) = true
      · obtain ⟨ha, hbx⟩ := hasHexPrefix_head hx
        subst ha
        have hb1 : body = [48] := dec_hex_clash hb' hr hbx
        simp only [hx, if_true]
        cases hsn : numSpan isHexDigit isP (c :: t) with
        | none =>
          exfalso; apply hnq
          refine ⟨sign, b, c, t, by rw [List.append_assoc, hr], hs, hbx, ?_⟩
          unfold numSpan at hsn
          simp only [] at hsn
          by_cases hcond : (((c :: t).takeWhile isHexDigit).isEmpty && ((optDot ((c :: t).dropWhile isHexDigit)).2.takeWhile isHexDigit).isEmpty) = true
          · simp at hcond
            refine ⟨hcond.1, ?_⟩
            have : (c :: t).dropWhile isHexDigit = c :: t := by
              have h0 := tw_dw isHexDigit (c :: t)
              rw [hcond.1] at h0; simpa using h0
            rw [this] at hcond; exact hcond.2
          · simp [hcond] at hsn
        | some me =>
          obtain ⟨m', e'⟩ := me
          refine ⟨_, _, rfl, ?_⟩
          subst hb1
          simp only [List.length_append, List.length_cons, List.length_nil]; omega
      · simp only [hx]
        obtain ⟨sh', p, h1, h2⟩ := hdecres
        exact ⟨sh', p, by simpa using h1, h2⟩
    | [] => rw [hr] at hdecres; obtain ⟨sh', p, h1, h2⟩ := hdecres; exact ⟨sh', p, by simpa using h1, h2⟩
    | [a] => rw [hr] at hdecres; obtain ⟨sh', p, h1, h2⟩ := hdecres; exact ⟨sh', p, by simpa using h1, h2⟩
    | [a, b] => rw [hr] at hdecres; obtain ⟨sh', p, h1, h2⟩ := hdecres; exact ⟨sh', p, by simpa using h1, h2⟩
  | hexE =>
    obtain ⟨b, d1, dot, d2, ex, rfl, hbx, hms, hes, _⟩ := hb
    have hfw := length_le_of_some (numSpan_forward isHexDigit isP (by decide) (fun e he => isP_facts he) d1 dot d2 ex rest hms hes)
    obtain ⟨m, e, hme, hlen⟩ := hfw
    cases hct : d1 ++ dot ++ d2 ++ ex ++ rest with
    | nil => rw [hct, numSpan_nil] at hme; cases hme
    | cons c t =>
      rw [hct] at hme
      have hu : (48 :: b :: (d1 ++ dot ++ d2 ++ ex)) ++ rest = 48 :: b :: c :: t := by rw [← hct]; simp
      have hx : hasHexPrefix (48 :: b :: c :: t) = true := by simp [hasHexPrefix, hbx]
      have hw := words_false_of_head (x := 48) (b :: c :: t) (Or.inl (by decide))
      rw [hu]
      simp only [hw.1, hw.2, hx, if_true, hme]
      refine ⟨_, _, rfl, ?_⟩
      simp only [List.length_append, List.length_cons, List.length_nil] at hlen ⊢; omega
  | hex0 =>
    obtain ⟨b, d1, dot, d2, rfl, hbx, hms⟩ := hb
    have hfw := length_le_of_some (numSpan_forward isHexDigit isP (by decide) (fun e he => isP_facts he) d1 dot d2 [] rest hms (Or.inl rfl))
    obtain ⟨m, e, hme, hlen⟩ := hfw
    cases hct : d1 ++ dot ++ d2 ++ [] ++ rest with
    | nil => rw [hct, numSpan_nil] at hme; cases hme
    | cons c t =>
      rw [hct] at hme
      have hu : (48 :: b :: (d1 ++ dot ++ d2)) ++ rest = 48 :: b :: c :: t := by rw [← hct]; simp
      have hx : hasHexPrefix (48 :: b :: c :: t) = true := by simp [hasHexPrefix, hbx]
      have hw := words_false_of_head (x := 48) (b :: c :: t) (Or.inl (by decide))
      rw [hu]
      simp only [hw.1, hw.2, hx, if_true, hme]
      refine ⟨_, _, rfl, ?_⟩
      simp only [List.length_append, List.length_cons, List.length_nil] at hlen ⊢; omega

end GoawkModel.C05

namespace GoawkModel.C05
open GoawkModel

theorem resOf_some (sh : Shape) (p : Bytes) : resOf (some (sh, p)) = textRes sh p := by cases sh <;> rfl

theorem numText_zero (sign : Bytes) (hs : IsOptSign sign) : NumTextS .dec (sign ++ [48]) :=
  ⟨sign, [48], rfl, hs, [48], [], [], [], rfl, ⟨rfl, rfl, Or.inl ⟨rfl, rfl⟩, Or.inl (by simp)⟩, Or.inl rfl⟩

/-- the hex branch without digits: the scanner returns 0, the longest numeric text is the sign and `0` -/
theorem hexNoDigits_case (u : Bytes) (h : HexNoDigits u) :
    prefixSpan u = none ∧ ∃ sign, IsOptSign sign ∧ IsLongestNumPrefix u (sign ++ [48]) := by
  obtain ⟨sign, b, c, rest, rfl, hs, hbx, hd1, hd2⟩ := h
  have hos : optSign (sign ++ 48 :: b :: c :: rest) = (sign, 48 :: b :: c :: rest) := by
    rcases hs with rfl | ⟨s, rfl, hsc⟩
    · simp [optSign, isSign]
    · simp [optSign, hsc]
  have hw := words_false_of_head (x := 48) (b :: c :: rest) (Or.inl (by decide))
  have hx : hasHexPrefix (48 :: b :: c :: rest) = true := by simp [hasHexPrefix, hbx]
  have hdw : (c :: rest).dropWhile isHexDigit = c :: rest := by
    have h0 := tw_dw isHexDigit (c :: rest)
    rw [hd1] at h0; simpa using h0
  have hnone : numSpan isHexDigit isP (c :: rest) = none := by
    unfold numSpan; simp only [hd1, hdw, hd2]; simp
  refine ⟨by unfold prefixSpan; simp only [hos, hw.1, hw.2, hx, if_true, hnone]; rfl, sign, hs,
    ⟨b :: c :: rest, by simp⟩, ⟨.dec, numText_zero sign hs⟩, ?_⟩
  rintro q ⟨rest', hq⟩ ⟨sh, sign', body', rfl, hs', hb'⟩
  have hos' := optSign_of_text (rest := rest') hs' hb'
  rw [hq, hos] at hos'
  obtain ⟨hsg, hbody⟩ := Prod.mk.inj hos'
  subst hsg
  cases sh with
  | dec =>
    have := dec_hex_clash hb' hbody.symm hbx
    subst this; simp
  | hexE =>
    exfalso
    obtain ⟨b', d1, dot, d2, ex, rfl, _, hms, hes, _⟩ := hb'
    have hfw := length_le_of_some (numSpan_forward isHexDigit isP (by decide) (fun e he => isP_facts he) d1 dot d2 ex rest' hms hes)
    obtain ⟨m, e, hme, _⟩ := hfw
    have : d1 ++ dot ++ d2 ++ ex ++ rest' = c :: rest := by
      have h9 := hbody.symm; simp at h9; simpa using h9.2
    rw [this, hnone] at hme; cases hme
  | hex0 =>
    exfalso
    obtain ⟨b', d1, dot, d2, rfl, _, hms⟩ := hb'
    have hfw := length_le_of_some (numSpan_forward isHexDigit isP (by decide) (fun e he => isP_facts he) d1 dot d2 [] rest' hms (Or.inl rfl))
    obtain ⟨m, e, hme, _⟩ := hfw
    have : d1 ++ dot ++ d2 ++ [] ++ rest' = c :: rest := by
      have h9 := hbody.symm; simp at h9; simpa using h9.2
    rw [this, hnone] at hme; cases hme
  | nan =>
    exfalso
    obtain ⟨hl, hp⟩ := hb'
    match body', hl, hp with
    | [x, y, z], _, hp =>
      simp at hbody
      simp [hasNaNPrefix, ← hbody.1] at hp
  | inf =>
    exfalso
    obtain ⟨hl, hp⟩ := hb'
    match body', hl, hp with
    | [x, y, z], _, hp =>
      simp at hbody
      simp [hasInfPrefix, ← hbody.1] at hp

/-- **prefix_longest** on the core scanner (`u` = the string after its leading ASCII blanks) -/
theorem prefixCore_longest (u : Bytes) :
    (∃ sh p, IsLongestNumPrefix u p ∧ NumTextS sh p ∧ prefixCore u = textRes sh p) ∨
    (prefixCore u = .zero ∧ ∀ q, q <+: u → ¬ NumText q) ∨
    (prefixCore u = .zero ∧ HexNoDigits u ∧ ∃ sign, IsOptSign sign ∧ IsLongestNumPrefix u (sign ++ [48])) := by
  rw [prefixCore_eq_resOf]
  by_cases hq : HexNoDigits u
  · obtain ⟨hn, hl⟩ := hexNoDigits_case u hq
    exact Or.inr (Or.inr ⟨by rw [hn]; rfl, hq, hl⟩)
  · cases hsp : prefixSpan u with
    | none =>
      refine Or.inr (Or.inl ⟨rfl, ?_⟩)
      rintro q ⟨rest, rfl⟩ ⟨sh, hqs⟩
      obtain ⟨sh', p, h1, _⟩ := prefixSpan_maximal q rest sh hqs hq
      rw [hsp] at h1; cases h1
    | some shp =>
      obtain ⟨sh, p⟩ := shp
      obtain ⟨hnt, hpre⟩ := prefixSpan_sound u sh p hsp
      refine Or.inl ⟨sh, p, ⟨hpre, ⟨sh, hnt⟩, ?_⟩, hnt, resOf_some sh p⟩
      rintro q ⟨rest, rfl⟩ ⟨sh2, hqs⟩
      obtain ⟨sh', p', h1, h2⟩ := prefixSpan_maximal q rest sh2 hqs hq
      rw [hsp] at h1
      obtain ⟨_, hp⟩ := Prod.mk.inj (Option.some.inj h1)
      rw [hp]; exact h2

end GoawkModel.C05
