import GoawkModel.C05Cmp
import Proofs.C05Value
/-! C05 helper lemmas about the GENERATED comparison tables (`Generated.C05Cmp`, rewritten from compiler.go / vm.go). -/
namespace GoawkModel.C05
open GoawkModel GoawkModel.Generated.C05Cmp

/-- `boolean(b)` popped by `JumpTrue` / `JumpFalse` -/
theorem jumpsOnValue_true (sc : Strconv Num) (b : Bool) : jumpsOnValue sc "JumpTrue" (.num (boolNum b)) = some b := by
  simp [jumpsOnValue, toBool, boolNum_nonzero]

theorem jumpsOnValue_false (sc : Strconv Num) (b : Bool) : jumpsOnValue sc "JumpFalse" (.num (boolNum b)) = some (!b) := by
  have h : ("JumpFalse" == "JumpTrue") = false := by decide
  simp [jumpsOnValue, toBool, boolNum_nonzero, h]

/-- `!=` is the negation of `==` in both modes (also on NaN) -/
theorem compareWith_ne (sc : Strconv Num) (fmt : Num → Bytes) (l r : Val) :
    compareWith sc fmt .ne .ne l r = !compareWith sc fmt .eq .eq l r := by
  unfold compareWith
  cases isTrueStr sc l <;> cases isTrueStr sc r <;> simp [ofOrdering_ne, ofNum_ne]

/-- the value of the expression `l tok r` (opcode chosen by `binaryOp`, executed by vm.go) is the comparison the token
stands for, with the same operator in string and in numeric mode -/
theorem exprValue_spec (sc : Strconv Num) (fmt : Num → Bytes) (tok : String) (op : CmpOp) (h : tokOp tok = some op)
    (l r : Val) : exprValue sc fmt tok l r = some (compareWith sc fmt op op l r) := by
  unfold tokOp at h
  split at h <;> simp at h <;> subst h
  · have h1 : lookup2 "EQUALS" binaryOps = some "Equals" := by decide
    have h2 : opcodeOps "push" "Equals" = some (.eq, .eq) := by decide
    simp [exprValue, pushes, h1, h2]
  · have h1 : lookup2 "NOT_EQUALS" binaryOps = some "NotEquals" := by decide
    have h2 : opcodeOps "push" "NotEquals" = some (.ne, .ne) := by decide
    simp [exprValue, pushes, h1, h2]
  · have h1 : lookup2 "LESS" binaryOps = some "Less" := by decide
    have h2 : opcodeOps "push" "Less" = some (.lt, .lt) := by decide
    simp [exprValue, pushes, h1, h2]
  · have h1 : lookup2 "GREATER" binaryOps = some "Greater" := by decide
    have h2 : opcodeOps "push" "Greater" = some (.gt, .gt) := by decide
    simp [exprValue, pushes, h1, h2]
  · have h1 : lookup2 "LTE" binaryOps = some "LessOrEqual" := by decide
    have h2 : opcodeOps "push" "LessOrEqual" = some (.le, .le) := by decide
    simp [exprValue, pushes, h1, h2]
  · have h1 : lookup2 "GTE" binaryOps = some "GreaterOrEqual" := by decide
    have h2 : opcodeOps "push" "GreaterOrEqual" = some (.ge, .ge) := by decide
    simp [exprValue, pushes, h1, h2]

theorem unfusedJumps_eq (sc : Strconv Num) (fmt : Num → Bytes) (tok j : String) (l r : Val) :
    unfusedJumps sc fmt tok j l r = (exprValue sc fmt tok l r).bind fun b => jumpsOnValue sc j (.num (boolNum b)) := by
  unfold unfusedJumps exprValue
  cases lookup2 tok binaryOps <;> rfl

/-- the conditional jump `condition()` emits for `l tok r` is taken exactly when the expression `l tok r` is true
(not inverted) / false (inverted) -/
theorem condJumps_spec (sc : Strconv Num) (fmt : Num → Bytes) (tok : String) (op : CmpOp) (h : tokOp tok = some op)
    (invert : Bool) (l r : Val) :
    condJumps sc fmt tok invert l r = some (invert != compareWith sc fmt op op l r) := by
  have hu := fun j => unfusedJumps_eq sc fmt tok j l r
  have he := exprValue_spec sc fmt tok op h l r
  unfold tokOp at h
  split at h <;> simp at h <;> subst h
  · have h1 : lookup5 "EQUALS" condFused = some ("JumpEquals", "fused", "JumpNotEquals", "Left,Right") := by decide
    have h2 : opcodeOps "jump" "JumpEquals" = some (.eq, .eq) := by decide
    have h3 : opcodeOps "jump" "JumpNotEquals" = some (.ne, .ne) := by decide
    cases invert <;> simp [condJumps, jumps, h1, h2, h3, compareWith_ne]
  · have h1 : lookup5 "NOT_EQUALS" condFused = some ("JumpNotEquals", "fused", "JumpEquals", "Left,Right") := by decide
    have h2 : opcodeOps "jump" "JumpEquals" = some (.eq, .eq) := by decide
    have h3 : opcodeOps "jump" "JumpNotEquals" = some (.ne, .ne) := by decide
    cases invert <;> simp [condJumps, jumps, h1, h2, h3, compareWith_ne]
  · have h1 : lookup5 "LESS" condFused = some ("JumpLess", "unfused", "JumpFalse", "Left,Right") := by decide
    have h2 : opcodeOps "jump" "JumpLess" = some (.lt, .lt) := by decide
    have h4 : ("unfused" == "fused") = false := by decide
    cases invert <;> simp [condJumps, jumps, h1, h2, h4, hu, he, jumpsOnValue_false]
  · have h1 : lookup5 "GREATER" condFused = some ("JumpGreater", "unfused", "JumpFalse", "Left,Right") := by decide
    have h2 : opcodeOps "jump" "JumpGreater" = some (.gt, .gt) := by decide
    have h4 : ("unfused" == "fused") = false := by decide
    cases invert <;> simp [condJumps, jumps, h1, h2, h4, hu, he, jumpsOnValue_false]
  · have h1 : lookup5 "LTE" condFused = some ("JumpLessOrEqual", "unfused", "JumpFalse", "Left,Right") := by decide
    have h2 : opcodeOps "jump" "JumpLessOrEqual" = some (.le, .le) := by decide
    have h4 : ("unfused" == "fused") = false := by decide
    cases invert <;> simp [condJumps, jumps, h1, h2, h4, hu, he, jumpsOnValue_false]
  · have h1 : lookup5 "GTE" condFused = some ("JumpGreaterOrEqual", "unfused", "JumpFalse", "Left,Right") := by decide
    have h2 : opcodeOps "jump" "JumpGreaterOrEqual" = some (.ge, .ge) := by decide
    have h4 : ("unfused" == "fused") = false := by decide
    cases invert <;> simp [condJumps, jumps, h1, h2, h4, hu, he, jumpsOnValue_false]

/-- tripwires: the twelve case bodies of vm.go (operators masked), `JumpTrue`/`JumpFalse`, `jumpOp`, and the small byte
predicates of value.go are what the model was written against -/
def expectedPushBody : String :=
  "l, r := p.peekPop() ; ln, lIsStr := l.isTrueStr() ; rn, rIsStr := r.isTrueStr() ; if lIsStr || rIsStr { p.replaceTop(boolean(p.toString(l) ^ p.toString(r))) } else { p.replaceTop(boolean(ln ^ rn)) }"
def expectedJumpBody : String :=
  "offset := code[ip] ; ip++ ; l, r := p.popTwo() ; ln, lIsStr := l.isTrueStr() ; rn, rIsStr := r.isTrueStr() ; var b bool ; if lIsStr || rIsStr { b = p.toString(l) ^ p.toString(r) } else { b = ln ^ rn } ; if b { ip += int(offset) }"

def expectedBodies : List (String × String) :=
  (["Equals", "NotEquals", "Less", "Greater", "LessOrEqual", "GreaterOrEqual"].map fun n => (n, expectedPushBody)) ++
  (["JumpEquals", "JumpNotEquals", "JumpLess", "JumpGreater", "JumpLessOrEqual", "JumpGreaterOrEqual"].map fun n => (n, expectedJumpBody))

theorem gen_matches_bodies : vmBodies = expectedBodies := by rfl

theorem gen_matches_jumps :
    vmBodyJumpTrue = "offset := code[ip] ; ip++ ; v := p.pop() ; if v.boolean() { ip += int(offset) }" ∧
    vmBodyJumpFalse = "offset := code[ip] ; ip++ ; v := p.pop() ; if !v.boolean() { ip += int(offset) }" ∧
    vmBodyNot = "p.replaceTop(boolean(!p.peekTop().boolean()))" ∧
    vmBodyBoolean = "p.replaceTop(boolean(p.peekTop().boolean()))" ∧
    condJumpOpSrc = "func(normal, inverted Opcode) Opcode { if invert { return inverted } return normal }" ∧
    condFallback = ("JumpTrue", "JumpFalse", "expr") ∧ condInvertOnly = [] ∧ condOtherTypeCases = 0 := by decide

theorem gen_matches_value :
    src_hasHexPrefix = "{ return s[0] == '0' && (s[1] == 'x' || s[1] == 'X') }" ∧
    src_hasNaNPrefix = "{ return (s[0] == 'n' || s[0] == 'N') && (s[1] == 'a' || s[1] == 'A') && (s[2] == 'n' || s[2] == 'N') }" ∧
    src_hasInfPrefix = "{ return (s[0] == 'i' || s[0] == 'I') && (s[1] == 'n' || s[1] == 'N') && (s[2] == 'f' || s[2] == 'F') }" ∧
    src_isDigit = "{ return c >= '0' && c <= '9' }" ∧
    src_isHexDigit = "{ return c >= '0' && c <= '9' || c >= 'a' && c <= 'f' || c >= 'A' && c <= 'F' }" := by decide

set_option maxRecDepth 100000 in
theorem gen_matches_space_aux : ∀ n : Fin 256, isAsciiSpace (UInt8.ofNat n.val) = asciiSpaceBytes.contains n.val := by decide

/-- the model's blank test is the generated `asciiSpace` table -/
theorem gen_matches_space (c : UInt8) : isAsciiSpace c = asciiSpaceBytes.contains c.toNat := by
  have := gen_matches_space_aux ⟨c.toNat, UInt8.toNat_lt c⟩
  simpa using this

end GoawkModel.C05
