import GoawkModel.C06
/-! C06: specifications of the split functions (`strings.Split` with one byte, `strings.Fields` on ASCII text,
`splitOnFieldSepRegex` over an arbitrary match list) and of the choice `ensureFields` makes between them. -/
namespace GoawkModel.C06

/-! ### `splitOnP` -/
theorem splitOnP_ne_nil {α : Type} (p : α → Bool) (l : List α) : splitOnP p l ≠ [] := by
  cases l with
  | nil => simp [splitOnP]
  | cons a as =>
    simp only [splitOnP]
    split
    · simp
    · split <;> simp

theorem intercalate_cons_head (sep : Bytes) (a : UInt8) (g : Bytes) (gs : List Bytes) :
    intercalate sep ((a :: g) :: gs) = a :: intercalate sep (g :: gs) := by
  cases gs <;> simp [intercalate]

/-- a single-character separator is literal: joining the pieces with it gives the text back -/
theorem intercalate_splitOnP (c : UInt8) (s : Bytes) : intercalate [c] (splitOnP (fun b => b == c) s) = s := by
  induction s with
  | nil => simp [splitOnP, intercalate]
  | cons a as ih =>
    simp only [splitOnP]
    by_cases h : (a == c) = true
    · simp only [h, if_true]
      have hne := splitOnP_ne_nil (fun b => b == c) as
      cases hs : splitOnP (fun b => b == c) as with
      | nil => exact absurd hs hne
      | cons g gs =>
        rw [hs] at ih
        simp only [intercalate, List.nil_append, List.singleton_append]
        rw [ih]
        simp at h; rw [h]
    · simp only [h]
      cases hs : splitOnP (fun b => b == c) as with
      | nil => exact absurd hs (splitOnP_ne_nil _ as)
      | cons g gs =>
        rw [hs] at ih
        simp only [Bool.false_eq_true, if_false]
        rw [intercalate_cons_head, ih]

/-- no piece contains a separator -/
theorem splitOnP_no_sep {α : Type} (p : α → Bool) (l : List α) : ∀ g ∈ splitOnP p l, ∀ x ∈ g, p x = false := by
  induction l with
  | nil => simp [splitOnP]
  | cons a as ih =>
    simp only [splitOnP]
    by_cases h : p a = true
    · simp only [h, if_true]
      intro g hg
      simp at hg
      rcases hg with rfl | hg
      · simp
      · exact ih g hg
    · simp only [h]
      cases hs : splitOnP p as with
      | nil => exact absurd hs (splitOnP_ne_nil _ as)
      | cons g gs =>
        rw [hs] at ih
        intro g' hg'
        simp at hg'
        rcases hg' with rfl | hg'
        · intro x hx
          simp at hx
          rcases hx with rfl | hx
          · simpa using h
          · exact ih g (by simp) x hx
        · exact ih g' (by simp [hg'])

/-- the number of pieces is the number of separators plus one -/
theorem splitOnP_length {α : Type} (p : α → Bool) (l : List α) : (splitOnP p l).length = (l.filter p).length + 1 := by
  induction l with
  | nil => simp [splitOnP]
  | cons a as ih =>
    simp only [splitOnP]
    by_cases h : p a = true
    · simp [h, ih]
    · simp only [h]
      cases hs : splitOnP p as with
      | nil => exact absurd hs (splitOnP_ne_nil _ as)
      | cons g gs =>
        rw [hs] at ih
        simp at ih ⊢
        simp [h, ih]

/-! ### `strings.Split` with a one-byte separator is `splitOnP` -/
theorem splitSep_single (c : UInt8) (s : Bytes) : splitSep [c] s = splitOnP (fun b => b == c) s := by
  unfold splitSep
  induction s with
  | nil => simp [splitSepAux, splitOnP]
  | cons a as ih =>
    simp only [splitSepAux, splitOnP, List.isPrefixOf, List.length_singleton, Nat.sub_self]
    by_cases h : a = c
    · subst h; simp [ih]
    · have h' : (c == a) = false := by simp; exact fun e => h e.symm
      have h'' : (a == c) = false := by simp [h]
      simp only [h', h'', Bool.false_and, Bool.false_eq_true, if_false]
      rw [ih]
      cases splitOnP (fun b => b == c) as <;> rfl

theorem splitChar_join (c : UInt8) (s : Bytes) : intercalate [c] (splitSep [c] s) = s := by
  rw [splitSep_single]; exact intercalate_splitOnP c s

/-! ### regex separator: pieces interleaved with the non-empty matches give the text back -/

/-- matches are in range, ordered and non-overlapping from `prev` on -/
def MatchesWF (len : Nat) : Nat → List (Nat × Nat) → Prop
  | prev, [] => prev ≤ len
  | prev, (s, e) :: ms => prev ≤ s ∧ s ≤ e ∧ e ≤ len ∧ MatchesWF len e ms

theorem MatchesWF_mono (len p q : Nat) (ms : List (Nat × Nat)) (hpq : p ≤ q) (h : MatchesWF len q ms) : MatchesWF len p ms := by
  cases ms with
  | nil => simp only [MatchesWF] at *; omega
  | cons m ms' =>
    obtain ⟨s', e'⟩ := m
    simp only [MatchesWF] at *
    exact ⟨by omega, h.2⟩

/-- the texts of the non-empty matches -/
def matchTexts (line : Bytes) (ms : List (Nat × Nat)) : List Bytes :=
  (ms.filter (fun m => m.1 != m.2)).map (fun m => (line.drop m.1).take (m.2 - m.1))

/-- `p0 m0 p1 m1 … pn` -/
def weave : List Bytes → List Bytes → Bytes
  | [], _ => []
  | p :: ps, [] => p ++ (ps.flatten)
  | p :: ps, m :: ms => p ++ m ++ weave ps ms

theorem drop_split (l : Bytes) (p s : Nat) (h : p ≤ s) : (l.drop p).take (s - p) ++ l.drop s = l.drop p := by
  have : l.drop s = (l.drop p).drop (s - p) := by
    rw [List.drop_drop]; congr 1; omega
  rw [this, List.take_append_drop]

theorem splitRegexAux_weave (line : Bytes) (ms : List (Nat × Nat)) (prev : Nat) (h : MatchesWF line.length prev ms) :
    weave (splitRegexAux line ms prev) (matchTexts line ms) = line.drop prev := by
  induction ms generalizing prev with
  | nil => simp [splitRegexAux, matchTexts, weave]
  | cons m ms ih =>
    obtain ⟨s, e⟩ := m
    obtain ⟨h1, h2, h3, h4⟩ := h
    simp only [splitRegexAux]
    by_cases hse : s = e
    · subst hse
      simp only [if_true]
      have : matchTexts line ((s, s) :: ms) = matchTexts line ms := by simp [matchTexts]
      rw [this]
      exact ih prev (MatchesWF_mono _ _ _ _ h1 h4)
    · simp only [hse, if_false]
      have : matchTexts line ((s, e) :: ms) = (line.drop s).take (e - s) :: matchTexts line ms := by
        simp [matchTexts, hse]
      rw [this]
      simp only [weave]
      rw [ih e h4, List.append_assoc, drop_split line s e h2, drop_split line prev s h1]

/-- number of fields = number of non-empty matches + 1, and none of the fields is produced by an empty match -/
theorem splitRegexAux_length (line : Bytes) (ms : List (Nat × Nat)) (prev : Nat) :
    (splitRegexAux line ms prev).length = (matchTexts line ms).length + 1 := by
  induction ms generalizing prev with
  | nil => simp [splitRegexAux, matchTexts]
  | cons m ms ih =>
    obtain ⟨s, e⟩ := m
    simp only [splitRegexAux]
    by_cases hse : s = e
    · subst hse; simp [matchTexts] at ih ⊢; exact ih prev
    · simp [hse, matchTexts] at ih ⊢; exact ih e

theorem decodeRune_ascii (b : UInt8) (rest : Bytes) (h : b < 0x80) : decodeRune (b :: rest) = (b.toNat, 1) := by
  simp [decodeRune, h]

theorem runesAux_ascii (s : Bytes) (fuel : Nat) (hf : s.length ≤ fuel) (h : ∀ b ∈ s, b < 0x80) :
    runesAux fuel s = s.map (fun b => [b]) := by
  induction s generalizing fuel with
  | nil => cases fuel <;> simp [runesAux]
  | cons b rest ih =>
    cases fuel with
    | zero => simp at hf
    | succ f =>
      have hb : b < 0x80 := h b (by simp)
      simp only [runesAux, decodeRune_ascii b rest hb]
      simp
      exact ih f (by simp at hf; omega) (fun x hx => h x (by simp [hx]))

theorem runes_ascii (s : Bytes) (h : ∀ b ∈ s, b < 0x80) : runes s = s.map (fun b => [b]) :=
  runesAux_ascii s s.length (Nat.le_refl _) h

theorem splitOnP_map {α β : Type} (p : β → Bool) (f : α → β) (l : List α) :
    splitOnP p (l.map f) = (splitOnP (fun a => p (f a)) l).map (List.map f) := by
  induction l with
  | nil => simp [splitOnP]
  | cons a as ih =>
    simp only [List.map_cons, splitOnP]
    by_cases h : p (f a) = true
    · simp [h, ih]
    · simp only [h, ih]
      cases splitOnP (fun a => p (f a)) as <;> simp

theorem splitOnP_congr {α : Type} (p q : α → Bool) (l : List α) (h : ∀ a ∈ l, p a = q a) : splitOnP p l = splitOnP q l := by
  induction l with
  | nil => rfl
  | cons a as ih =>
    simp only [splitOnP]
    rw [h a (by simp), ih (fun x hx => h x (by simp [hx]))]

theorem isSpaceCp_ascii : ∀ n, n < 128 → isSpaceCp n = ((9 ≤ n && n ≤ 13) || n == 32) := by decide

/-- `FS = " "` on ASCII text: the fields are the maximal runs of bytes that are not blanks (tab, LF, VT, FF, CR, space); none
is empty; leading and trailing blanks produce nothing -/
theorem fieldsSpace_ascii (s : Bytes) (h : ∀ b ∈ s, b < 0x80) :
    fieldsSpace s = (splitOnP (fun b => isSpaceCp b.toNat) s).filter (fun g => !g.isEmpty) := by
  unfold fieldsSpace
  rw [runes_ascii s h, splitOnP_map]
  have hp : ∀ a ∈ s, isSpaceRune [a] = isSpaceCp a.toNat := by
    intro a ha
    simp [isSpaceRune, decodeRune_ascii a [] (h a ha)]
  rw [splitOnP_congr _ _ s hp, List.filter_map, List.map_map]
  have hf : ((fun g : List Bytes => !g.isEmpty) ∘ List.map fun b : UInt8 => [b]) = (fun g : Bytes => !g.isEmpty) := by
    funext g; cases g <;> rfl
  rw [hf]
  have hm : (List.flatten ∘ List.map fun b : UInt8 => [b]) = id := by
    funext g; simp
    induction g with
    | nil => rfl
    | cons x xs ih => simp [ih]
  rw [hm, List.map_id]

/-! ### which splitter `ensureFields` picks (default input mode, RS ≠ "") -/
section
variable {ρ : Type} (M : ρ → Bytes → List (Nat × Nat))

theorem runeCount_single (c : UInt8) (h : c < 0x80) : runeCount [c] = 1 := by
  simp [runeCount, runes, runesAux, decodeRune_ascii c [] h]

theorem split_space (re : Option ρ) (line : Bytes) : split M false [32] re line = fieldsSpace line := by
  simp [split]

theorem split_char (c : UInt8) (hc : c < 0x80) (h32 : c ≠ 32) (re : Option ρ) (line : Bytes) (hl : line ≠ []) :
    split M false [c] re line = splitSep [c] line := by
  simp [split, h32, hl, runeCount_single c hc]

theorem split_regex (fs : Bytes) (r : ρ) (line : Bytes) (hfs : runeCount fs > 1) (hl : line ≠ []) :
    split M false fs (some r) line = splitRegex (M r line) line := by
  have h1 : fs ≠ [32] := by
    intro e; subst e; simp [runeCount_single 32 (by decide)] at hfs
  have h2 : ¬ runeCount fs ≤ 1 := by omega
  simp [split, h1, hl, h2]

theorem split_empty_line (fs : Bytes) (re : Option ρ) (rs : Bool) : (split M rs fs re []) = [] := by
  by_cases h : fs = [32]
  · subst h; simp [split, fieldsSpace, runes, runesAux, splitOnP]
  · simp [split, h]
end
end GoawkModel.C06
