import GoawkModel.C01Ret
/-! # C01 — a bare `return` and falling off the end give the uninitialised value, whatever the activation did before -/
namespace GoawkModel.C01

theorem loopPost_ret_null (S : Sem) (ex : Stmt → S.W → Option (Out S.V S.W))
    (hex : ∀ s w v w', s.NoValRet → ex s w = some (.ret v w') → v = S.nullV)
    (c : Option Expr) (b post : Stmt) (hb : b.NoValRet) (hp : post.NoValRet) (w1 : S.W) (v : S.V) (w' : S.W)
    (h : (match ex post w1 with
      | none => none
      | some (.normal w2) => ex (.for .skip c post b) w2
      | some o => some o) = some (.ret v w')) : v = S.nullV := by
  cases hpo : ex post w1 with
  | none => simp [hpo] at h
  | some o =>
    cases o with
    | normal w2 => simp [hpo] at h; exact hex _ _ _ _ (by simp [Stmt.NoValRet, hb, hp]) h
    | ret v2 w2 => simp [hpo] at h; obtain ⟨rfl, rfl⟩ := h; exact hex _ _ _ _ hp hpo
    | brk w2 => simp [hpo] at h
    | cont w2 => simp [hpo] at h
    | next w2 => simp [hpo] at h
    | exit w2 => simp [hpo] at h

theorem loopBody_ret_null (S : Sem) (ex : Stmt → S.W → Option (Out S.V S.W))
    (hex : ∀ s w v w', s.NoValRet → ex s w = some (.ret v w') → v = S.nullV)
    (c : Option Expr) (b post : Stmt) (hb : b.NoValRet) (hp : post.NoValRet) (w : S.W) (v : S.V) (w' : S.W)
    (h : loopBody S ex c b post w = some (.ret v w')) : v = S.nullV := by
  unfold loopBody at h
  cases hbo : ex b w with
  | none => simp [hbo] at h
  | some o =>
    cases o with
    | normal w1 => simp only [hbo] at h; exact loopPost_ret_null S ex hex c b post hb hp w1 v w' h
    | cont w1 => simp only [hbo] at h; exact loopPost_ret_null S ex hex c b post hb hp w1 v w' h
    | ret v2 w2 => simp [hbo] at h; obtain ⟨rfl, rfl⟩ := h; exact hex _ _ _ _ hb hbo
    | brk w2 => simp [hbo] at h
    | next w2 => simp [hbo] at h
    | exit w2 => simp [hbo] at h

/-- a statement without `return expr` can only leave the activation with the null value — whatever its expressions (and
the calls in them) evaluated to -/
theorem exec_ret_null (S : Sem) : ∀ (n : Nat) (s : Stmt) (w : S.W) (v : S.V) (w' : S.W),
    s.NoValRet → exec S n s w = some (.ret v w') → v = S.nullV := by
  intro n
  induction n with
  | zero => intro s w v w' _ h; simp [exec] at h
  | succ n ih =>
    intro s w v w' hs h
    cases s with
    | skip => simp [exec] at h
    | seq s t =>
      simp only [exec] at h
      cases hso : exec S n s w with
      | none => simp [hso] at h
      | some o =>
        cases o with
        | normal w1 => simp only [hso] at h; exact ih _ _ _ _ hs.2 h
        | ret v2 w2 => simp [hso] at h; obtain ⟨rfl, rfl⟩ := h; exact ih _ _ _ _ hs.1 hso
        | brk w2 => simp [hso] at h
        | cont w2 => simp [hso] at h
        | next w2 => simp [hso] at h
        | exit w2 => simp [hso] at h
    | expr e =>
      simp only [exec] at h
      split at h <;> simp at h
    | print args =>
      simp only [exec] at h
      split at h
      · simp at h
      · split at h <;> simp at h
    | ifThen c b =>
      simp only [exec] at h
      split at h
      · simp at h
      · split at h
        · exact ih b _ _ _ hs h
        · simp at h
    | ifElse c b e =>
      simp only [exec] at h
      split at h
      · simp at h
      · split at h
        · exact ih _ _ _ _ hs.1 h
        · exact ih _ _ _ _ hs.2 h
    | «while» c b =>
      simp only [exec] at h
      exact ih _ _ _ _ (by simp [Stmt.NoValRet]; exact hs) h
    | doWhile b c =>
      simp only [exec] at h
      cases hbo : exec S n b w with
      | none => simp [hbo] at h
      | some o =>
        have tail : ∀ w1, (match eval S c w1 with
            | none => none
            | some (cv, w2) => if S.toBool cv then exec S n (.doWhile b c) w2 else some (.normal w2)) = some (.ret v w') →
            v = S.nullV := by
          intro w1 h1
          split at h1
          · simp at h1
          · split at h1
            · exact ih _ _ _ _ hs h1
            · simp at h1
        cases o with
        | normal w1 => simp only [hbo] at h; exact tail w1 h
        | cont w1 => simp only [hbo] at h; exact tail w1 h
        | ret v2 w2 => simp [hbo] at h; obtain ⟨rfl, rfl⟩ := h; exact ih b _ _ _ hs hbo
        | brk w2 => simp [hbo] at h
        | next w2 => simp [hbo] at h
        | exit w2 => simp [hbo] at h
    | «for» pre c post b =>
      simp only [exec] at h
      obtain ⟨hpre, hpost, hb⟩ := hs
      cases hpo : exec S n pre w with
      | none => simp [hpo] at h
      | some o =>
        cases o with
        | normal w0 =>
          simp only [hpo] at h
          cases c with
          | none => simp only at h; exact loopBody_ret_null S (exec S n) ih none b post hb hpost w0 v w' h
          | some ce =>
            simp only at h
            split at h
            · simp at h
            · split at h
              · exact loopBody_ret_null S (exec S n) ih (some ce) b post hb hpost _ v w' h
              · simp at h
        | ret v2 w2 => simp [hpo] at h; obtain ⟨rfl, rfl⟩ := h; exact ih _ _ _ _ hpre hpo
        | brk w2 => simp [hpo] at h
        | cont w2 => simp [hpo] at h
        | next w2 => simp [hpo] at h
        | exit w2 => simp [hpo] at h
    | brk => simp [exec] at h
    | cont => simp [exec] at h
    | next => simp [exec] at h
    | exit e =>
      cases e with
      | none => simp [exec] at h
      | some e =>
        simp only [exec] at h
        split at h <;> simp at h
    | block b => simp only [exec] at h; exact ih b _ _ _ hs h
    | ret e =>
      cases e with
      | none => simp [exec] at h; exact h.1.symm
      | some e => exact absurd hs (by simp [Stmt.NoValRet])

/-- the value of a call whose body has no `return expr` is null: `callf` — what the calls made by the body do and give
back — is arbitrary -/
theorem callBody_null {B : Base} (FT : FunTable) (callf : Nat → List B.S.V → List (AScope × Nat) → FW B → Option (B.S.V × FW B))
    (k f : Nat) (vals : List B.S.V) (refs : List (AScope × Nat)) (fw : FW B) (fn : Fn) (r : B.S.V × FW B)
    (hf : FT[f]? = some fn) (hb : fn.body.NoValRet) (h : callBody B FT callf k f vals refs fw = some r) : r.1 = B.S.nullV := by
  unfold callBody at h
  simp only [hf] at h
  split at h
  · simp at h
  · split at h
    · rename_i v fw2 hex
      have := exec_ret_null (mkSem B callf) k fn.body _ v fw2 hb hex
      simp at h
      rw [← h]
      exact this
    · simp at h
      rw [← h]
    · simp at h

/-- falling off the end: whatever the body is and did, normal completion of the body makes the call evaluate to null -/
theorem callBody_fall_off {B : Base} (FT : FunTable) (callf : Nat → List B.S.V → List (AScope × Nat) → FW B → Option (B.S.V × FW B))
    (k f : Nat) (vals : List B.S.V) (refs : List (AScope × Nat)) (fw : FW B) (fn : Fn) (fw2 : FW B)
    (hf : FT[f]? = some fn) (hd : ¬(maxDepth ≤ fw.1.depth ∨ vals.length ≠ fn.numScalars ∨ fn.numArrays < refs.length))
    (hex : exec (mkSem B callf) k fn.body
      (⟨vals, refs.map (fun r => arrIdOf fw.1.larrs r.1 r.2) ++ (allocArrays B (fn.numArrays - refs.length) fw.2).1, fw.1.depth + 1⟩,
        (allocArrays B (fn.numArrays - refs.length) fw.2).2) = some (.normal fw2)) :
    (callBody B FT callf k f vals refs fw).map (·.1) = some B.S.nullV := by
  unfold callBody
  simp only [hf, hd, if_false]
  simp only [hex]
  rfl

theorem fetch_mem : ∀ (C : Code) (pc : Nat) (i : Instr), fetch C pc = some i → i ∈ C := by
  intro C
  induction C with
  | nil => intro pc i h; simp [fetch] at h
  | cons j c ih =>
    intro pc i h
    simp only [fetch] at h
    split at h
    · simp at h; simp [h]
    · split at h
      · simp at h
      · exact List.mem_cons_of_mem _ (ih _ _ h)

/-- the VM with frames: an activation whose code holds no `Return` instruction (only `ReturnNull`) is left with null —
whatever the nested activations of its `CallUser` instructions returned -/
theorem rbig_ret_null {B : Base} (FT : FunTable) {C : Code} {st : RSt B} {out : ROut B} (h : RBig B FT C st out)
    (hC : ∀ i ∈ C, i ≠ Instr.ret) : ∀ v s w, out = .ret v s w → v = B.S.nullV := by
  induction h with
  | done _ => intro v s w e; cases e
  | step _ _ _ ih => exact ih hC
  | jump _ _ _ ih => exact ih hC
  | stopNext _ _ => intro v s w e; cases e
  | stopExit _ _ => intro v s w e; cases e
  | ret hf _ => exact absurd rfl (hC _ (fetch_mem _ _ _ hf))
  | retNull _ => intro v s w e; cases e; rfl
  | callRet _ _ _ _ _ _ _ _ ih => exact ih hC
  | callNormal _ _ _ _ _ _ _ _ ih => exact ih hC
  | callNext _ _ _ _ _ _ _ => intro v s w e; cases e
  | callExit _ _ _ _ _ _ _ => intro v s w e; cases e

namespace Ret

theorem slot_agrees {V : Type} (null : V) : ∀ (t : List (Ev V)) (dirty : Bool) (s : V),
    (dirty = false → s = null) → NoBareAfterValue dirty t → slotRun null s t = spec null t := by
  intro t
  induction t with
  | nil => intro _ _ _ _; rfl
  | cons e t ih =>
    intro dirty s hs h
    cases e with
    | enter => simp only [slotRun, spec]; exact ih false null (fun _ => rfl) h
    | retVal v => simp only [slotRun, spec]; rw [ih true v (by simp) h]
    | retBare =>
      simp only [slotRun, spec]
      obtain ⟨hd, h⟩ := h
      rw [hs hd] at *
      rw [ih dirty null (fun _ => rfl) h]
    | fallOff => simp only [slotRun, spec]; rw [ih dirty s hs h]

end Ret
end GoawkModel.C01
