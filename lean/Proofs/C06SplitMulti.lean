import Proofs.C06Split
/-! C06: a separator of one character that takes several bytes (or any non-empty byte string handed to `strings.Split`) is
literal. -/
namespace GoawkModel.C06

theorem splitSepAux_skip (sep : Bytes) (s : Bytes) (k : Nat) : splitSepAux sep s k = splitSepAux sep (s.drop k) 0 := by
  induction s generalizing k with
  | nil => cases k <;> simp [splitSepAux]
  | cons b rest ih =>
    cases k with
    | zero => rfl
    | succ k' => simp only [splitSepAux, List.drop_succ_cons]; exact ih k'

theorem splitSepAux_ne_nil (sep s : Bytes) (k : Nat) : splitSepAux sep s k ≠ [] := by
  induction s generalizing k with
  | nil => simp [splitSepAux]
  | cons b rest ih =>
    cases k with
    | succ k' => simp only [splitSepAux]; exact ih k'
    | zero =>
      simp only [splitSepAux]
      split
      · simp
      · split <;> simp

theorem intercalate_nil_cons (sep : Bytes) (x : Bytes) (xs : List Bytes) :
    intercalate sep ([] :: x :: xs) = sep ++ intercalate sep (x :: xs) := by
  simp [intercalate]

/-- a separator of any length ≥ 1 (e.g. one multi-byte character) is literal: joining the pieces gives the text back -/
theorem splitSep_join (sep : Bytes) (hsep : sep ≠ []) (s : Bytes) : intercalate sep (splitSep sep s) = s := by
  unfold splitSep
  generalize hn : s.length = n
  induction n using Nat.strongRecOn generalizing s with
  | _ n ih =>
    cases s with
    | nil => simp [splitSepAux, intercalate]
    | cons b rest =>
      simp only [splitSepAux]
      by_cases hp : sep.isPrefixOf (b :: rest) = true
      · simp only [hp, if_true]
        rw [splitSepAux_skip]
        have hpre : sep <+: (b :: rest) := List.isPrefixOf_iff_prefix.mp hp
        obtain ⟨t, ht⟩ := hpre
        have hlen : sep.length ≥ 1 := by cases sep with | nil => exact absurd rfl hsep | cons _ _ => simp
        have hdrop : rest.drop (sep.length - 1) = t := by
          have : (b :: rest).drop sep.length = t := by rw [← ht]; simp
          rw [← this]
          cases hs : sep.length with
          | zero => omega
          | succ m => simp
        rw [hdrop]
        have hne := splitSepAux_ne_nil sep t 0
        cases hx : splitSepAux sep t 0 with
        | nil => exact absurd hx hne
        | cons x xs =>
          rw [intercalate_nil_cons, ← hx]
          have htl : t.length < n := by
            have : (b :: rest).length = sep.length + t.length := by rw [← ht]; simp
            rw [hn] at this; omega
          rw [ih t.length htl t rfl, ht]
      · simp only [hp]
        have hne := splitSepAux_ne_nil sep rest 0
        cases hx : splitSepAux sep rest 0 with
        | nil => exact absurd hx hne
        | cons x xs =>
          simp only [Bool.false_eq_true, if_false]
          rw [intercalate_cons_head, ← hx]
          have : rest.length < n := by simp at hn; omega
          rw [ih rest.length this rest rfl]

theorem split_onechar {ρ : Type} (M : ρ → Bytes → List (Nat × Nat)) (fs : Bytes) (h1 : runeCount fs = 1) (h32 : fs ≠ [32])
    (re : Option ρ) (line : Bytes) (hl : line ≠ []) : split M false fs re line = splitSep fs line := by
  have hne : fs ≠ [] := by intro e; subst e; simp [runeCount, runes, runesAux] at h1
  simp [split, h32, hl, h1, hne]

end GoawkModel.C06
