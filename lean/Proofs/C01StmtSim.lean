import Proofs.C01Loop
/-!
# C01 Stage B — the compiler is correct on statements (outcome-indexed simulation)

Induction on the fuel of the reference evaluator `exec` (every recursive call of `exec`, including the next loop
iteration, uses less fuel). For every outcome the VM, started at the first word of the statement's code with any stack,
gets — stack unchanged, world as the evaluator says — to: the end of the code (normal), the enclosing loop's break target,
its continue target, or halts with `next` / `exit`.
-/
namespace GoawkModel.C01
variable {S : Sem}

/-- what the parser allows as `pre` / `post` of a `for` statement (a simple statement) -/
def Stmt.Simple : Stmt → Prop
  | .skip => True | .expr _ => True | .print _ => True | _ => False

/-- the `pre` / `post` parts of every `for` are simple statements (guaranteed by the grammar) -/
def Stmt.WF : Stmt → Prop
  | .seq s t => s.WF ∧ t.WF
  | .ifThen _ b => b.WF
  | .ifElse _ b e => b.WF ∧ e.WF
  | .while _ b => b.WF
  | .doWhile b _ => b.WF
  | .for pre _ post b => pre.Simple ∧ post.Simple ∧ b.WF
  | .block b => b.WF
  | _ => True

theorem Stmt.Simple.wf {s : Stmt} (h : s.Simple) : s.WF := by cases s <;> simp_all [Stmt.Simple, Stmt.WF]

theorem simple_normal {n : Nat} {s : Stmt} {w : S.W} {o : Out S.V S.W} (hs : s.Simple) (h : exec S n s w = some o) :
    ∃ w', o = .normal w' := by
  cases n with
  | zero => simp [exec] at h
  | succ n =>
    cases s <;> simp only [Stmt.Simple] at hs <;> simp only [exec] at h
    · exact ⟨w, by simpa using h.symm⟩
    · split at h <;> simp at h; exact ⟨_, h.symm⟩
    · split at h
      · simp at h
      · split at h <;> simp at h; exact ⟨_, h.symm⟩

def StmtSpec (S : Sem) (n : Nat) (s : Stmt) : Prop :=
  ∀ bk ct stk w o, s.WF → exec S n s w = some o →
    OutAt S (cStmt bk ct s) 0 (stmtSize s) (stmtSize s + bk) (stmtSize s + ct) stk w o

/-- the loop `for (; c; post) b`, entered at its bottom test (where the VM is after `post`) -/
def IterSpec (S : Sem) (n : Nat) : Prop :=
  ∀ c post b bk ct stk w o, post.Simple → b.WF → exec S n (.for .skip (some c) post b) w = some o →
    OutAt S (cStmt bk ct (.for .skip (some c) post b)) (csize (cCondT c) + 2 + stmtSize b + stmtSize post)
      (stmtSize (.for .skip (some c) post b)) (stmtSize (.for .skip (some c) post b) + bk)
      (stmtSize (.for .skip (some c) post b) + ct) stk w o

theorem OutAt.embedEq {c mid : Code} {i tn tb tc : Nat} {stk : List S.V} {w : S.W} {o : Out S.V S.W} (pre post : Code)
    (hc : c = pre ++ mid ++ post) (h : OutAt S mid i tn tb tc stk w o) :
    OutAt S c (csize pre + i) (csize pre + tn) (csize pre + tb) (csize pre + tc) stk w o := by
  subst hc; exact h.embed pre post

theorem Moves.embedEq {c mid : Code} {i j : Nat} {s s' : List S.V} {w w' : S.W} (pre post : Code)
    (hc : c = pre ++ mid ++ post) (h : Moves S mid i s w j s' w') : Moves S c (csize pre + i) s w (csize pre + j) s' w' := by
  subst hc; exact h.embed pre post

/-- the inverted condition (`if`, loop entry) placed inside `c`: both branches -/
theorem condT_branch (L : Laws S) {cnd : Expr} {c pre post : Code} {off : Int} {stk : List S.V} {w : S.W} {cv : S.V} {w1 : S.W}
    (hc : c = pre ++ cCondT cnd ++ (cJumpT cnd off :: post)) (h : eval S cnd w = some (cv, w1)) :
    (S.toBool cv = true → Moves S c (csize pre) stk w (csize pre + csize (cCondT cnd) + 2) stk w1) ∧
    (S.toBool cv = false → ∀ j : Nat, ((csize pre + csize (cCondT cnd) + 2 : Nat) : Int) + off = j →
      Moves S c (csize pre) stk w j stk w1) := by
  subst hc
  obtain ⟨s1, fc, hj⟩ := condT_spec L (expr_all L cnd).1 (expr_all L cnd).2.2 stk w cv w1 h
  have m1 : Moves S (pre ++ cCondT cnd ++ (cJumpT cnd off :: post)) (csize pre) stk w (csize pre + csize (cCondT cnd)) s1 w1 := by
    simpa using (Moves.ofFrag fc).embed pre (cJumpT cnd off :: post)
  constructor
  · intro hb
    have m2 := Moves.stepNext (pre := pre ++ cCondT cnd) (post := post) (i := cJumpT cnd off) (s := s1) (w := w1)
      (s' := stk) (w' := w1) (by simp [hj, hb])
    exact m1.trans (by simpa using m2)
  · intro hb j hjj
    have m2 := Moves.stepJump (pre := pre ++ cCondT cnd) (post := post) (i := cJumpT cnd off) (off := off) (j := j) (s := s1)
      (w := w1) (s' := stk) (w' := w1) (by simp [hj, hb]) (by simp; omega)
    exact m1.trans (by simpa using m2)

/-- the condition in normal sense (bottom of a loop) placed inside `c`: both branches -/
theorem condF_branch (L : Laws S) {cnd : Expr} {c pre post : Code} {off : Int} {stk : List S.V} {w : S.W} {cv : S.V} {w1 : S.W}
    (hc : c = pre ++ cCondF cnd ++ (cJumpF cnd off :: post)) (h : eval S cnd w = some (cv, w1)) :
    (S.toBool cv = false → Moves S c (csize pre) stk w (csize pre + csize (cCondF cnd) + 2) stk w1) ∧
    (S.toBool cv = true → ∀ j : Nat, ((csize pre + csize (cCondF cnd) + 2 : Nat) : Int) + off = j →
      Moves S c (csize pre) stk w j stk w1) := by
  subst hc
  obtain ⟨s1, fc, hj⟩ := condF_spec L (expr_all L cnd).1 (expr_all L cnd).2.2 stk w cv w1 h
  have m1 : Moves S (pre ++ cCondF cnd ++ (cJumpF cnd off :: post)) (csize pre) stk w (csize pre + csize (cCondF cnd)) s1 w1 := by
    simpa using (Moves.ofFrag fc).embed pre (cJumpF cnd off :: post)
  constructor
  · intro hb
    have m2 := Moves.stepNext (pre := pre ++ cCondF cnd) (post := post) (i := cJumpF cnd off) (s := s1) (w := w1)
      (s' := stk) (w' := w1) (by simp [hj, hb])
    exact m1.trans (by simpa using m2)
  · intro hb j hjj
    have m2 := Moves.stepJump (pre := pre ++ cCondF cnd) (post := post) (i := cJumpF cnd off) (off := off) (j := j) (s := s1)
      (w := w1) (s' := stk) (w' := w1) (by simp [hj, hb]) (by simp; omega)
    exact m1.trans (by simpa using m2)

theorem evalList_frag (L : Laws S) (args : List Expr) (stk : List S.V) (w : S.W) (vs : List S.V) (w' : S.W)
    (h : evalList S args w = some (vs, w')) : Frag S (cExprs args) stk w (vs.reverse ++ stk) w' := by
  simpa [cExprs] using exprs_all L args stk w vs w' h

macro "arith" : tactic =>
  `(tactic| ((try simp only [csize_append, csize_cons, csize_nil, csize_cStmt, cJumpT_size, cJumpF_size, size_jump, size_next,
      size_exit, size_exitStatus, size_print, stmtSize, Nat.add_zero, Nat.zero_add]); first | done | omega))

theorem stmt_sim (L : Laws S) (M : StmtLaws S) : ∀ n, (∀ s, StmtSpec S n s) ∧ IterSpec S n := by
  intro n
  induction n with
  | zero =>
    exact ⟨fun s bk ct stk w o _ h => by simp [exec] at h, fun c post b bk ct stk w o _ _ h => by simp [exec] at h⟩
  | succ n ih =>
    obtain ⟨ihS, ihI⟩ := ih
    -- one pass of `for (; c; post) b`, from the first word of the body
    have LB : ∀ c post b bk ct stk w o, post.Simple → b.WF →
        loopBody S (exec S n) (some c) b post w = some o →
        OutAt S (cStmt bk ct (.for .skip (some c) post b)) (csize (cCondT c) + 2)
          (stmtSize (.for .skip (some c) post b)) (stmtSize (.for .skip (some c) post b) + bk)
          (stmtSize (.for .skip (some c) post b) + ct) stk w o := by
      intro c post b bk ct stk w o hpo hb h
      have hcB : cStmt bk ct (.for .skip (some c) post b) =
          (cCondT c ++ [cJumpT c (stmtSize b + stmtSize post + (csize (cCondF c) + 2))]) ++
            cStmt (stmtSize post + (csize (cCondF c) + 2)) 0 b ++
            (cStmt 0 0 post ++ cCondF c ++ [cJumpF c (-(stmtSize b + stmtSize post + (csize (cCondF c) + 2) : Nat))]) := by
        simp [cStmt]
      have hcP : cStmt bk ct (.for .skip (some c) post b) =
          (cCondT c ++ [cJumpT c (stmtSize b + stmtSize post + (csize (cCondF c) + 2))] ++
            cStmt (stmtSize post + (csize (cCondF c) + 2)) 0 b) ++ cStmt 0 0 post ++
            (cCondF c ++ [cJumpF c (-(stmtSize b + stmtSize post + (csize (cCondF c) + 2) : Nat))]) := by
        simp [cStmt]
      -- after the body: `post`, then the bottom test
      have AP : ∀ w2 w3, exec S n post w2 = some (.normal w3) → exec S n (.for .skip (some c) post b) w3 = some o →
          OutAt S (cStmt bk ct (.for .skip (some c) post b)) (csize (cCondT c) + 2 + stmtSize b)
            (stmtSize (.for .skip (some c) post b)) (stmtSize (.for .skip (some c) post b) + bk)
            (stmtSize (.for .skip (some c) post b) + ct) stk w2 o := by
        intro w2 w3 hp hf
        have aP := (ihS post 0 0 stk w2 _ hpo.wf hp).embedEq _ _ hcP
        have mP : Moves S (cStmt bk ct (.for .skip (some c) post b)) (csize (cCondT c) + 2 + stmtSize b) stk w2
            (csize (cCondT c) + 2 + stmtSize b + stmtSize post) stk w3 := by
          have := aP; simp only [OutAt] at this
          refine fun C pc hc => ?_
          have r := this C pc hc
          have e1 : csize (cCondT c ++ [cJumpT c (stmtSize b + stmtSize post + (csize (cCondF c) + 2))] ++
              cStmt (stmtSize post + (csize (cCondF c) + 2)) 0 b) + 0 = csize (cCondT c) + 2 + stmtSize b := by arith
          have e2 : csize (cCondT c ++ [cJumpT c (stmtSize b + stmtSize post + (csize (cCondF c) + 2))] ++
              cStmt (stmtSize post + (csize (cCondF c) + 2)) 0 b) + stmtSize post
              = csize (cCondT c) + 2 + stmtSize b + stmtSize post := by arith
          rw [e1, e2] at r; exact r
        exact OutAt.prepend mP (ihI c post b bk ct stk w3 o hpo hb hf)
      unfold loopBody at h
      cases hb1 : exec S n b w with
      | none => simp [hb1] at h
      | some ob =>
        rw [hb1] at h
        have aB := ((ihS b (stmtSize post + (csize (cCondF c) + 2)) 0 stk w ob hb hb1).embedEq _ _ hcB).cast
          (i' := csize (cCondT c) + 2) (tn' := csize (cCondT c) + 2 + stmtSize b)
          (tb' := stmtSize (.for .skip (some c) post b)) (tc' := csize (cCondT c) + 2 + stmtSize b)
          (by arith) (by arith) (by arith) (by arith)
        cases ob with
        | normal w2 =>
          simp only at h
          cases hp : exec S n post w2 with
          | none => simp [hp] at h
          | some op =>
            obtain ⟨w3, rfl⟩ := simple_normal hpo hp
            rw [hp] at h; simp only at h
            exact OutAt.prepend aB (AP w2 w3 hp h)
        | cont w2 =>
          simp only at h
          cases hp : exec S n post w2 with
          | none => simp [hp] at h
          | some op =>
            obtain ⟨w3, rfl⟩ := simple_normal hpo hp
            rw [hp] at h; simp only at h
            exact OutAt.prepend aB (AP w2 w3 hp h)
        | brk w2 =>
          simp only [Option.some.injEq] at h; subst h
          exact aB
        | next w2 =>
          simp only [Option.some.injEq] at h; subst h
          exact aB
        | exit w2 =>
          simp only [Option.some.injEq] at h; subst h
          exact aB
        | ret v w2 =>
          simp only [Option.some.injEq] at h; subst h
          exact aB
    refine ⟨?_, ?_⟩
    · -- every statement at fuel n+1
      intro s bk ct stk w o hwf h
      cases s with
      | skip =>
        simp only [exec, Option.some.injEq] at h; subst h
        simpa [OutAt, cStmt, stmtSize] using Moves.refl (S := S) [] 0 stk w
      | seq s t =>
        obtain ⟨hs, ht⟩ := hwf
        simp only [exec] at h
        have hc1 : cStmt bk ct (.seq s t) = [] ++ cStmt (bk + stmtSize t) (ct + stmtSize t) s ++ cStmt bk ct t := by simp [cStmt]
        have hc2 : cStmt bk ct (.seq s t) = cStmt (bk + stmtSize t) (ct + stmtSize t) s ++ cStmt bk ct t ++ [] := by simp [cStmt]
        cases h1 : exec S n s w with
        | none => simp [h1] at h
        | some o1 =>
          rw [h1] at h
          have a1 := ((ihS s _ _ stk w o1 hs h1).embedEq _ _ hc1).cast (i' := 0) (tn' := stmtSize s)
            (tb' := stmtSize (.seq s t) + bk) (tc' := stmtSize (.seq s t) + ct) (by arith) (by arith) (by arith) (by arith)
          cases o1 with
          | normal w1 =>
            simp only at h
            have a2 := ((ihS t bk ct stk w1 o ht h).embedEq _ _ hc2).cast (i' := stmtSize s) (tn' := stmtSize (.seq s t))
              (tb' := stmtSize (.seq s t) + bk) (tc' := stmtSize (.seq s t) + ct) (by arith) (by arith) (by arith) (by arith)
            exact OutAt.prepend a1 a2
          | brk w1 => simp only [Option.some.injEq] at h; subst h; exact a1
          | cont w1 => simp only [Option.some.injEq] at h; subst h; exact a1
          | next w1 => simp only [Option.some.injEq] at h; subst h; exact a1
          | exit w1 => simp only [Option.some.injEq] at h; subst h; exact a1
          | ret v w1 => simp only [Option.some.injEq] at h; subst h; exact a1
      | expr e =>
        simp only [exec] at h
        split at h
        · simp at h
        · rename_i v w1 he
          simp only [Option.some.injEq] at h; subst h
          have f := exprStmt_correct L M e stk w v w1 he
          simpa [OutAt, cStmt, stmtSize] using Moves.ofFrag f
      | print args =>
        simp only [exec] at h
        split at h
        · simp at h
        · rename_i vs w1 he
          split at h
          · simp at h
          · rename_i w2 hp
            simp only [Option.some.injEq] at h; subst h
            have f1 := evalList_frag L args stk w vs w1 he
            have hl := evalList_length args w vs w1 he
            have f2 : Frag S [.print args.length] (vs.reverse ++ stk) w1 stk w2 := by
              apply Frag.sl
              simp [execSL, ← hl, hp]
            have := Moves.ofFrag (f1.append f2)
            simpa [OutAt, cStmt, stmtSize] using this
      | ifThen c b =>
        simp only [exec] at h
        split at h
        · simp at h
        · rename_i cv w1 hcv
          have hc : cStmt bk ct (.ifThen c b) = [] ++ cCondT c ++ (cJumpT c (stmtSize b) :: cStmt bk ct b) := by simp [cStmt]
          have hcB : cStmt bk ct (.ifThen c b) = (cCondT c ++ [cJumpT c (stmtSize b)]) ++ cStmt bk ct b ++ [] := by simp [cStmt]
          obtain ⟨bt, bf⟩ := condT_branch L (stk := stk) hc hcv
          cases hb : S.toBool cv with
          | true =>
            simp only [hb, if_true] at h
            have m := bt hb
            have aB := ((ihS b bk ct stk w1 o hwf h).embedEq _ _ hcB).cast (i' := csize ([] : Code) + csize (cCondT c) + 2)
              (tn' := stmtSize (.ifThen c b)) (tb' := stmtSize (.ifThen c b) + bk) (tc' := stmtSize (.ifThen c b) + ct)
              (by arith) (by arith) (by arith) (by arith)
            exact OutAt.prepend m aB
          | false =>
            simp only [hb, Bool.false_eq_true, if_false, Option.some.injEq] at h; subst h
            exact bf hb (stmtSize (.ifThen c b)) (by simp [stmtSize] <;> omega)
      | ifElse c b e =>
        obtain ⟨hwb, hwe⟩ := hwf
        simp only [exec] at h
        split at h
        · simp at h
        · rename_i cv w1 hcv
          have hc : cStmt bk ct (.ifElse c b e) = [] ++ cCondT c ++ (cJumpT c (stmtSize b + 2) ::
              (cStmt (bk + 2 + stmtSize e) (ct + 2 + stmtSize e) b ++ [.jump (stmtSize e)] ++ cStmt bk ct e)) := by simp [cStmt]
          have hcB : cStmt bk ct (.ifElse c b e) = (cCondT c ++ [cJumpT c (stmtSize b + 2)]) ++
              cStmt (bk + 2 + stmtSize e) (ct + 2 + stmtSize e) b ++ ([.jump (stmtSize e)] ++ cStmt bk ct e) := by simp [cStmt]
          have hcJ : cStmt bk ct (.ifElse c b e) = (cCondT c ++ [cJumpT c (stmtSize b + 2)] ++
              cStmt (bk + 2 + stmtSize e) (ct + 2 + stmtSize e) b) ++ (.jump (stmtSize e) :: cStmt bk ct e) := by simp [cStmt]
          have hcE : cStmt bk ct (.ifElse c b e) = (cCondT c ++ [cJumpT c (stmtSize b + 2)] ++
              cStmt (bk + 2 + stmtSize e) (ct + 2 + stmtSize e) b ++ [.jump (stmtSize e)]) ++ cStmt bk ct e ++ [] := by simp [cStmt]
          obtain ⟨bt, bf⟩ := condT_branch L (stk := stk) hc hcv
          cases hb : S.toBool cv with
          | true =>
            simp only [hb, if_true] at h
            have aB := ((ihS b _ _ stk w1 o hwb h).embedEq _ _ hcB).cast (i' := csize ([] : Code) + csize (cCondT c) + 2)
              (tn' := csize (cCondT c) + 2 + stmtSize b) (tb' := stmtSize (.ifElse c b e) + bk) (tc' := stmtSize (.ifElse c b e) + ct)
              (by arith) (by arith) (by arith) (by arith)
            have a := OutAt.prepend (bt hb) aB
            cases o with
            | normal w2 =>
              have mj : Moves S (cStmt bk ct (.ifElse c b e)) (csize (cCondT c) + 2 + stmtSize b) stk w2
                  (stmtSize (.ifElse c b e)) stk w2 := by
                rw [hcJ]
                have := Moves.stepJump (S := S) (pre := cCondT c ++ [cJumpT c (stmtSize b + 2)] ++
                  cStmt (bk + 2 + stmtSize e) (ct + 2 + stmtSize e) b) (post := cStmt bk ct e) (i := .jump (stmtSize e))
                  (off := stmtSize e) (j := stmtSize (.ifElse c b e)) (s := stk) (w := w2) (s' := stk) (w' := w2) (by simp)
                  (by simp [stmtSize]; omega)
                have e1 : csize (cCondT c ++ [cJumpT c (stmtSize b + 2)] ++
                  cStmt (bk + 2 + stmtSize e) (ct + 2 + stmtSize e) b) = csize (cCondT c) + 2 + stmtSize b := by arith
                rw [e1] at this; exact this
              exact Moves.trans a mj
            | brk w2 => exact a
            | cont w2 => exact a
            | next w2 => exact a
            | exit w2 => exact a
            | ret v w2 => exact a
          | false =>
            simp only [hb, Bool.false_eq_true, if_false] at h
            have m := bf hb (csize (cCondT c) + 2 + stmtSize b + 2) (by simp; omega)
            have aE := ((ihS e bk ct stk w1 o hwe h).embedEq _ _ hcE).cast (i' := csize (cCondT c) + 2 + stmtSize b + 2)
              (tn' := stmtSize (.ifElse c b e)) (tb' := stmtSize (.ifElse c b e) + bk) (tc' := stmtSize (.ifElse c b e) + ct)
              (by arith) (by arith) (by arith) (by arith)
            exact OutAt.prepend m aE
      | «while» c b =>
        simp only [exec] at h
        have hwf' : (Stmt.for .skip (some c) .skip b).WF := ⟨trivial, trivial, hwf⟩
        have := ihS (.for .skip (some c) .skip b) bk ct stk w o hwf' h
        have hc : cStmt bk ct (.for .skip (some c) .skip b) = cStmt bk ct (.while c b) := by simp [cStmt, stmtSize]
        have hs : stmtSize (.for .skip (some c) .skip b) = stmtSize (.while c b) := by simp [stmtSize]
        rw [hc, hs] at this; exact this
      | doWhile b c =>
        simp only [exec] at h
        have hcB : cStmt bk ct (.doWhile b c) = [] ++ cStmt (csize (cCondF c) + 2) 0 b ++
            (cCondF c ++ [cJumpF c (-(stmtSize b + (csize (cCondF c) + 2) : Nat))]) := by simp [cStmt]
        have hcC : cStmt bk ct (.doWhile b c) = cStmt (csize (cCondF c) + 2) 0 b ++ cCondF c ++
            (cJumpF c (-(stmtSize b + (csize (cCondF c) + 2) : Nat)) :: []) := by simp [cStmt]
        cases hb1 : exec S n b w with
        | none => simp [hb1] at h
        | some ob =>
          rw [hb1] at h
          have aB := ((ihS b (csize (cCondF c) + 2) 0 stk w ob hwf hb1).embedEq _ _ hcB).cast (i' := 0) (tn' := stmtSize b)
            (tb' := stmtSize (.doWhile b c)) (tc' := stmtSize b) (by arith) (by arith) (by arith) (by arith)
          -- the bottom test, from the end of the body
          have BT : ∀ w1, (match eval S c w1 with
              | none => none
              | some (cv, w2) => if S.toBool cv = true then exec S n (.doWhile b c) w2 else some (.normal w2)) = some o →
              OutAt S (cStmt bk ct (.doWhile b c)) (stmtSize b) (stmtSize (.doWhile b c)) (stmtSize (.doWhile b c) + bk)
                (stmtSize (.doWhile b c) + ct) stk w1 o := by
            intro w1 h
            split at h
            · simp at h
            · rename_i cv w2 hcv
              obtain ⟨bff, btt⟩ := condF_branch L (stk := stk) hcC hcv
              cases hbv : S.toBool cv with
              | true =>
                simp only [hbv, if_true] at h
                have m := btt hbv 0 (by simp; omega)
                have m' : Moves S (cStmt bk ct (.doWhile b c)) (stmtSize b) stk w1 0 stk w2 := by
                  have e1 : csize (cStmt (csize (cCondF c) + 2) 0 b) = stmtSize b := by arith
                  rw [e1] at m; exact m
                exact OutAt.prepend m' (ihS (.doWhile b c) bk ct stk w2 o hwf h)
              | false =>
                simp only [hbv, Bool.false_eq_true, if_false, Option.some.injEq] at h; subst h
                have m := bff hbv
                have e1 : csize (cStmt (csize (cCondF c) + 2) 0 b) = stmtSize b := by arith
                have e2 : stmtSize b + csize (cCondF c) + 2 = stmtSize (.doWhile b c) := by arith
                rw [e1, e2] at m; exact m
          cases ob with
          | normal w1 => simp only at h; exact OutAt.prepend aB (BT w1 h)
          | cont w1 => simp only at h; exact OutAt.prepend aB (BT w1 h)
          | brk w1 =>
            simp only [Option.some.injEq] at h; subst h
            exact aB
          | next w1 => simp only [Option.some.injEq] at h; subst h; exact aB
          | exit w1 => simp only [Option.some.injEq] at h; subst h; exact aB
          | ret v w1 => simp only [Option.some.injEq] at h; subst h; exact aB
      | «for» pre c post b =>
        obtain ⟨hpre, hpo, hb⟩ := hwf
        simp only [exec] at h
        cases hp : exec S n pre w with
        | none => simp [hp] at h
        | some op =>
          obtain ⟨w0, rfl⟩ := simple_normal hpre hp
          rw [hp] at h; simp only at h
          cases c with
          | none =>
            simp only at h
            have hcode : cStmt bk ct (.for pre none post b) = cStmt 0 0 pre ++ cStmt bk ct (.for .skip none post b) ++ [] := by
              simp [cStmt]
            have hcode0 : cStmt bk ct (.for pre none post b) = [] ++ cStmt 0 0 pre ++ cStmt bk ct (.for .skip none post b) := by
              simp [cStmt]
            have aP := (ihS pre 0 0 stk w _ hpre.wf hp).embedEq _ _ hcode0
            have mP : Moves S (cStmt bk ct (.for pre none post b)) 0 stk w (stmtSize pre) stk w0 := by
              simp only [OutAt] at aP
              refine fun C pc hc => ?_
              have r := aP C pc hc
              simpa using r
            have hwf0 : (Stmt.for .skip none post b).WF := ⟨trivial, hpo, hb⟩
            have rest : OutAt S (cStmt bk ct (.for .skip none post b)) 0 (stmtSize (.for .skip none post b))
                (stmtSize (.for .skip none post b) + bk) (stmtSize (.for .skip none post b) + ct) stk w0 o := by
              have hcB : cStmt bk ct (.for .skip none post b) = [] ++ cStmt (stmtSize post + 2) 0 b ++
                  (cStmt 0 0 post ++ [.jump (-(stmtSize b + stmtSize post + 2 : Nat))]) := by simp [cStmt]
              have hcP : cStmt bk ct (.for .skip none post b) = cStmt (stmtSize post + 2) 0 b ++ cStmt 0 0 post ++
                  [.jump (-(stmtSize b + stmtSize post + 2 : Nat))] := by simp [cStmt]
              have hcJ : cStmt bk ct (.for .skip none post b) = (cStmt (stmtSize post + 2) 0 b ++ cStmt 0 0 post) ++
                  (.jump (-(stmtSize b + stmtSize post + 2 : Nat)) :: []) := by simp [cStmt]
              have AP : ∀ w2 w3, exec S n post w2 = some (.normal w3) → exec S n (.for .skip none post b) w3 = some o →
                  OutAt S (cStmt bk ct (.for .skip none post b)) (stmtSize b) (stmtSize (.for .skip none post b))
                    (stmtSize (.for .skip none post b) + bk) (stmtSize (.for .skip none post b) + ct) stk w2 o := by
                intro w2 w3 hp2 hf
                have aPo := (ihS post 0 0 stk w2 _ hpo.wf hp2).embedEq _ _ hcP
                have mPo : Moves S (cStmt bk ct (.for .skip none post b)) (stmtSize b) stk w2 (stmtSize b + stmtSize post) stk w3 := by
                  simp only [OutAt] at aPo
                  refine fun C pc hc => ?_
                  have r := aPo C pc hc
                  simpa using r
                have mJ : Moves S (cStmt bk ct (.for .skip none post b)) (stmtSize b + stmtSize post) stk w3 0 stk w3 := by
                  rw [hcJ]
                  have := Moves.stepJump (S := S) (pre := cStmt (stmtSize post + 2) 0 b ++ cStmt 0 0 post) (post := [])
                    (i := .jump (-(stmtSize b + stmtSize post + 2 : Nat))) (off := (-(stmtSize b + stmtSize post + 2 : Nat)))
                    (j := 0) (s := stk) (w := w3) (s' := stk) (w' := w3) (by simp) (by simp; omega)
                  simpa using this
                exact OutAt.prepend (mPo.trans mJ) (ihS (.for .skip none post b) bk ct stk w3 o hwf0 hf)
              unfold loopBody at h
              cases hb1 : exec S n b w0 with
              | none => simp [hb1] at h
              | some ob =>
                rw [hb1] at h
                have aB := ((ihS b (stmtSize post + 2) 0 stk w0 ob hb hb1).embedEq _ _ hcB).cast
                  (i' := 0) (tn' := stmtSize b) (tb' := stmtSize (.for .skip none post b)) (tc' := stmtSize b)
                  (by arith) (by arith) (by arith) (by arith)
                cases ob with
                | normal w2 =>
                  simp only at h
                  cases hp2 : exec S n post w2 with
                  | none => simp [hp2] at h
                  | some op =>
                    obtain ⟨w3, rfl⟩ := simple_normal hpo hp2
                    rw [hp2] at h; simp only at h
                    exact OutAt.prepend aB (AP w2 w3 hp2 h)
                | cont w2 =>
                  simp only at h
                  cases hp2 : exec S n post w2 with
                  | none => simp [hp2] at h
                  | some op =>
                    obtain ⟨w3, rfl⟩ := simple_normal hpo hp2
                    rw [hp2] at h; simp only at h
                    exact OutAt.prepend aB (AP w2 w3 hp2 h)
                | brk w2 => simp only [Option.some.injEq] at h; subst h; exact aB
                | next w2 => simp only [Option.some.injEq] at h; subst h; exact aB
                | exit w2 => simp only [Option.some.injEq] at h; subst h; exact aB
                | ret v w2 => simp only [Option.some.injEq] at h; subst h; exact aB
            have aR := (rest.embedEq _ _ hcode).cast (i' := stmtSize pre) (tn' := stmtSize (.for pre none post b))
              (tb' := stmtSize (.for pre none post b) + bk) (tc' := stmtSize (.for pre none post b) + ct)
              (by arith) (by arith) (by arith) (by arith)
            exact OutAt.prepend mP aR
          | some ce =>
            simp only at h
            have hcode : cStmt bk ct (.for pre (some ce) post b) = cStmt 0 0 pre ++ cStmt bk ct (.for .skip (some ce) post b) ++ [] := by
              simp [cStmt]
            have hcode0 : cStmt bk ct (.for pre (some ce) post b) = [] ++ cStmt 0 0 pre ++ cStmt bk ct (.for .skip (some ce) post b) := by
              simp [cStmt]
            have aP := (ihS pre 0 0 stk w _ hpre.wf hp).embedEq _ _ hcode0
            have mP : Moves S (cStmt bk ct (.for pre (some ce) post b)) 0 stk w (stmtSize pre) stk w0 := by
              simp only [OutAt] at aP
              refine fun C pc hc => ?_
              have r := aP C pc hc
              simpa using r
            -- the rest is the loop `for (; ce; post) b` placed after `pre`
            have rest : OutAt S (cStmt bk ct (.for .skip (some ce) post b)) 0 (stmtSize (.for .skip (some ce) post b))
                (stmtSize (.for .skip (some ce) post b) + bk) (stmtSize (.for .skip (some ce) post b) + ct) stk w0 o := by
              have hc : cStmt bk ct (.for .skip (some ce) post b) = [] ++ cCondT ce ++
                  (cJumpT ce (stmtSize b + stmtSize post + (csize (cCondF ce) + 2)) ::
                    (cStmt (stmtSize post + (csize (cCondF ce) + 2)) 0 b ++ cStmt 0 0 post ++ cCondF ce ++
                      [cJumpF ce (-(stmtSize b + stmtSize post + (csize (cCondF ce) + 2) : Nat))])) := by simp [cStmt]
              split at h
              · simp at h
              · rename_i cv w1 hcv
                obtain ⟨bt, bf⟩ := condT_branch L (stk := stk) hc hcv
                cases hbv : S.toBool cv with
                | true =>
                  simp only [hbv, if_true] at h
                  have m := bt hbv
                  exact OutAt.prepend (by simpa using m) (LB ce post b bk ct stk w1 o hpo hb h)
                | false =>
                  simp only [hbv, Bool.false_eq_true, if_false, Option.some.injEq] at h; subst h
                  exact bf hbv _ (by simp [stmtSize]; omega)
            have aR := (rest.embedEq _ _ hcode).cast (i' := stmtSize pre) (tn' := stmtSize (.for pre (some ce) post b))
              (tb' := stmtSize (.for pre (some ce) post b) + bk) (tc' := stmtSize (.for pre (some ce) post b) + ct)
              (by arith) (by arith) (by arith) (by arith)
            exact OutAt.prepend mP aR
      | brk =>
        simp only [exec, Option.some.injEq] at h; subst h
        have := Moves.stepJump (S := S) (pre := []) (post := []) (i := .jump bk) (off := bk) (j := stmtSize .brk + bk)
          (s := stk) (w := w) (s' := stk) (w' := w) (by simp) (by simp [stmtSize] <;> omega)
        simpa [OutAt, cStmt] using this
      | cont =>
        simp only [exec, Option.some.injEq] at h; subst h
        have := Moves.stepJump (S := S) (pre := []) (post := []) (i := .jump ct) (off := ct) (j := stmtSize .cont + ct)
          (s := stk) (w := w) (s' := stk) (w' := w) (by simp) (by simp [stmtSize] <;> omega)
        simpa [OutAt, cStmt] using this
      | next =>
        simp only [exec, Option.some.injEq] at h; subst h
        have := MovesHalt.step (S := S) (pre := []) (post := []) (i := .next) (s := stk) (w := w) (e := .stopNext w)
          (o := .next w) (by simp) rfl
        simpa [OutAt, cStmt] using this
      | exit e =>
        cases e with
        | none =>
          simp only [exec, Option.some.injEq] at h; subst h
          have := MovesHalt.step (S := S) (pre := []) (post := []) (i := .exit) (s := stk) (w := w) (e := .stopExit w)
            (o := .exit w) (by simp) rfl
          simpa [OutAt, cStmt] using this
        | some e =>
          simp only [exec] at h
          split at h
          · simp at h
          · rename_i v w1 he
            simp only [Option.some.injEq] at h; subst h
            have f1 : Frag S (cExpr e) stk w (v :: stk) w1 := (expr_all L e).1 _ _ _ _ he
            have m1 := (Moves.ofFrag f1).embed [] [.exitStatus]
            have m2 := MovesHalt.step (S := S) (pre := cExpr e) (post := []) (i := .exitStatus) (s := v :: stk) (w := w1)
              (e := .stopExit (S.setExit v w1)) (o := .exit (S.setExit v w1)) (by simp) rfl
            have : MovesHalt S (cExpr e ++ [.exitStatus]) 0 stk w (.exit (S.setExit v w1)) :=
              Moves.thenHalt (by simpa using m1) m2
            simpa [OutAt, cStmt] using this
      | ret e =>
        cases e with
        | none =>
          simp only [exec, Option.some.injEq] at h; subst h
          have : MovesRet S [Instr.retNull] 0 stk w S.nullV w := by
            intro C pc hc
            exact ⟨⟨pc + 0, stk, w⟩, .refl _, rfl, .inr ⟨by simpa using hc.fetch, rfl, rfl⟩⟩
          simpa [OutAt, cStmt] using this
        | some e =>
          simp only [exec] at h
          split at h
          · simp at h
          · rename_i v w1 he
            simp only [Option.some.injEq] at h; subst h
            have f1 : Frag S (cExpr e) stk w (v :: stk) w1 := (expr_all L e).1 _ _ _ _ he
            have : MovesRet S (cExpr e ++ [.ret]) 0 stk w v w1 := by
              intro C pc hc
              refine ⟨⟨pc + csize (cExpr e), v :: stk, w1⟩, ?_, rfl, .inl ⟨hc.right.fetch, rfl⟩⟩
              simpa using f1 C pc hc.left
            simpa [OutAt, cStmt] using this
      | block b =>
        simp only [exec] at h
        have := ihS b bk ct stk w o hwf h
        simpa [cStmt, stmtSize] using this
    · -- the bottom test of `for (; c; post) b`
      intro c post b bk ct stk w o hpo hb h
      simp only [exec] at h
      cases hsk : exec S n .skip w with
      | none => simp [hsk] at h
      | some osk =>
        have : osk = .normal w := by
          cases n with
          | zero => simp [exec] at hsk
          | succ m => simpa [exec] using hsk.symm
        subst this
        rw [hsk] at h; simp only at h
        have hc : cStmt bk ct (.for .skip (some c) post b) =
            (cCondT c ++ [cJumpT c (stmtSize b + stmtSize post + (csize (cCondF c) + 2))] ++
              cStmt (stmtSize post + (csize (cCondF c) + 2)) 0 b ++ cStmt 0 0 post) ++ cCondF c ++
              (cJumpF c (-(stmtSize b + stmtSize post + (csize (cCondF c) + 2) : Nat)) :: []) := by simp [cStmt]
        have e1 : csize (cCondT c ++ [cJumpT c (stmtSize b + stmtSize post + (csize (cCondF c) + 2))] ++
              cStmt (stmtSize post + (csize (cCondF c) + 2)) 0 b ++ cStmt 0 0 post)
              = csize (cCondT c) + 2 + stmtSize b + stmtSize post := by arith
        split at h
        · simp at h
        · rename_i cv w1 hcv
          obtain ⟨bff, btt⟩ := condF_branch L (stk := stk) hc hcv
          cases hbv : S.toBool cv with
          | true =>
            simp only [hbv, if_true] at h
            have m := btt hbv (csize (cCondT c) + 2) (by simp; omega)
            rw [e1] at m
            exact OutAt.prepend m (LB c post b bk ct stk w1 o hpo hb h)
          | false =>
            simp only [hbv, Bool.false_eq_true, if_false, Option.some.injEq] at h; subst h
            have m := bff hbv
            rw [e1] at m
            have e2 : csize (cCondT c) + 2 + stmtSize b + stmtSize post + csize (cCondF c) + 2
                = stmtSize (.for .skip (some c) post b) := by arith
            rw [e2] at m; exact m

end GoawkModel.C01
