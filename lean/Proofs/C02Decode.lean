import GoawkModel.C02
import GoawkModel.C01Conc
import Proofs.C02Typing
/-! The C02 decoder reads the encoding (`C01.encode`) of every C01 instruction as the shape `Ty.sh` says — the link between the
instruction-level typing of compiled code and the word-level checker. -/
namespace GoawkModel.C02
open GoawkModel.Generated GoawkModel.C01

def varFits (t : Tables) (cx : Ctx) : VScope → Nat → Prop
  | .global, i => i < t.nScalars
  | .loc, i => cx.inFunc = true ∧ i < cx.nLocals
  | .special, i => 1 ≤ i ∧ i ≤ C02Arity.numSpecials

def arrFits (t : Tables) (cx : Ctx) : AScope → Nat → Prop
  | .global, a => a < t.nArrays
  | .loc, a => cx.inFunc = true ∧ a < cx.nLocalArrays

/-- the constants, variables and arrays an instruction names exist in the program's tables -/
def Fits (t : Tables) (tb : C01.Tables) (cx : Ctx) : C01.Instr → Prop
  | .num c => ∃ k, tb.nums.idxOf? c = some k ∧ k < t.nNums
  | .str s => ∃ k, tb.strs.idxOf? s = some k ∧ k < t.nStrs
  | .getVar sc i | .assignVar sc i | .incrVar sc _ i | .augVar sc _ i => varFits t cx sc i
  | .arrGet sc a | .arrIn sc a | .arrAssign sc a | .arrIncr sc _ a | .arrAug sc _ a => arrFits t cx sc a
  | .callUser _ _ _ | .ret | .retNull => False   -- calls and returns: not in the fragment proved here
  | _ => True

/-- what the C02 decoder must make of the instruction at word offset `pc` -/
def toI (i : C01.Instr) (pc : Nat) : C02.Instr :=
  match Ty.sh i with
  | .simple p q => .simple i.size p q
  | .jmp p c off => .jump i.size p c (((pc + i.size : Nat) : Int) + off).toNat
  | .halt p => .halt p

/-- jumps stay inside the block -/
def JumpIn (i : C01.Instr) (pc L : Nat) : Prop :=
  match Ty.sh i with
  | .jmp _ _ off => 0 ≤ ((pc + i.size : Nat) : Int) + off ∧ ((pc + i.size : Nat) : Int) + off ≤ L
  | _ => True

theorem opNum_aug (op : ArithOp) : opNum Opcodes.augOps op.augName = (match op with | .add => 0 | .sub => 1 | .mul => 2 | .div => 3 | .pow => 4 | .mod => 5 : Int) := by
  cases op <;> decide

set_option maxHeartbeats 1000000 in
theorem decodeNamed_enc (t : Tables) (tb : C01.Tables) (cx : Ctx) (L pc : Nat) (rest : List Int) (i : C01.Instr)
    (hA : tb.augOps = Opcodes.augOps) (hF : Fits t tb cx i) (hJ : JumpIn i pc L) :
    decodeNamed t cx L pc rest i.opName (i.operands tb).length (i.operands tb) = some (toI i pc) := by
  cases i with
  | num c => obtain ⟨k, h1, h2⟩ := hF; simp [Instr.opName, Instr.operands, toI, Ty.sh, Instr.size, decodeNamed, fixedEffect, indexOK, inRange, h1, h2]
  | str s => obtain ⟨k, h1, h2⟩ := hF; simp [Instr.opName, Instr.operands, toI, Ty.sh, Instr.size, decodeNamed, fixedEffect, indexOK, inRange, h1, h2]
  | getVar sc k | assignVar sc k =>
    cases sc <;> simp only [Fits, varFits] at hF <;>
      simp [Instr.opName, Instr.operands, VScope.suffix, toI, Ty.sh, Instr.size, decodeNamed, fixedEffect, indexOK, inRange, specialOK, hF] <;> omega
  | incrVar sc dec k =>
    cases sc <;> simp only [Fits, varFits] at hF <;>
      simp [Instr.opName, Instr.operands, VScope.suffix, toI, Ty.sh, Instr.size, decodeNamed, fixedEffect, indexOK, inRange, specialOK, hF] <;> omega
  | augVar sc op k =>
    cases sc <;> simp only [Fits, varFits] at hF <;> cases op <;>
      simp [Instr.opName, Instr.operands, VScope.suffix, toI, Ty.sh, Instr.size, decodeNamed, fixedEffect, indexOK, inRange, specialOK, hF, hA,
        opNum_aug, C02Arity.numAugOps] <;> omega
  | arrGet sc a | arrIn sc a | arrAssign sc a =>
    cases sc <;> simp only [Fits, arrFits] at hF <;>
      simp [Instr.opName, Instr.operands, AScope.suffix, toI, Ty.sh, Instr.size, decodeNamed, fixedEffect, indexOK, inRange, hF]
  | arrIncr sc dec a =>
    cases sc <;> simp only [Fits, arrFits] at hF <;>
      simp [Instr.opName, Instr.operands, AScope.suffix, toI, Ty.sh, Instr.size, decodeNamed, fixedEffect, indexOK, inRange, hF]
  | arrAug sc op a =>
    cases sc <;> simp only [Fits, arrFits] at hF <;> cases op <;>
      simp [Instr.opName, Instr.operands, AScope.suffix, toI, Ty.sh, Instr.size, decodeNamed, fixedEffect, indexOK, inRange, hF, hA, opNum_aug,
        C02Arity.numAugOps]
  | augField op =>
    cases op <;> simp [Instr.opName, Instr.operands, toI, Ty.sh, Instr.size, decodeNamed, fixedEffect, indexOK, inRange, hA, opNum_aug, C02Arity.numAugOps]
  | arith op => cases op <;> simp [Instr.opName, ArithOp.opName, Instr.operands, toI, Ty.sh, Instr.size, decodeNamed, fixedEffect, indexOK]
  | cmp op => cases op <;> simp [Instr.opName, CmpOp.opName, Instr.operands, toI, Ty.sh, Instr.size, decodeNamed, fixedEffect, indexOK]
  | jumpCmp op off =>
    simp only [JumpIn, Ty.sh] at hJ
    cases op <;> simp [Instr.opName, CmpOp.jumpName, CmpOp.opName, Instr.operands, toI, Ty.sh, Instr.size, decodeNamed, fixedEffect] <;>
      (simp only [Instr.size] at hJ; omega)
  | jump off | jumpFalse off | jumpTrue off =>
    simp only [JumpIn, Ty.sh] at hJ
    simp [Instr.opName, Instr.operands, toI, Ty.sh, Instr.size, decodeNamed, fixedEffect]
    simp only [Instr.size] at hJ; omega
  | callUser f n a => exact hF.elim
  | ret => exact hF.elim
  | retNull => exact hF.elim
  | indexMulti n | concatMulti n | nulls n => simp [Instr.opName, Instr.operands, toI, Ty.sh, Instr.size, decodeNamed, fixedEffect]
  | print n =>
    simp [Instr.opName, Instr.operands, toI, Ty.sh, Instr.size, decodeNamed, fixedEffect, outRedirect, C02Arity.tokILLEGAL]
  | _ => simp [Instr.opName, Instr.operands, toI, Ty.sh, Instr.size, decodeNamed, fixedEffect, indexOK]

end GoawkModel.C02
