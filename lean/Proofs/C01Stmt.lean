import Proofs.C01Expr
/-!
# C01 — statement-position shortcuts, running whole fragments

`exprStmt_correct`: the statement-position code of an expression statement (`AssignX`, `IncrX`, `AugAssignX` without a value
left on the stack) has the same effect on the world as the expression-position code followed by `Drop`, and leaves the
stack unchanged.
-/
namespace GoawkModel.C01
variable {S : Sem}

/-- Laws relating the opcodes used only in statement position to the generic arithmetic. -/
structure StmtLaws (S : Sem) : Prop where
  aug_eq : ∀ op a b, S.augOp op a b = S.arith op a b
  incr_eq : ∀ dec v, S.arith (incrArith dec) v (S.numV .one) = some (S.incrBy dec v)
  incr_plus : ∀ dec v, S.incrBy dec (S.unop .plus v) = S.incrBy dec v
  set_get : ∀ sc a i x w, S.setArr sc a i x (S.getArr sc a i w).2 = S.setArr sc a i x w

theorem cExprStmt_other (e : Expr) (h1 : ∀ lv r, e ≠ .assign lv r) (h2 : ∀ lv op r, e ≠ .augAssign lv op r)
    (h3 : ∀ lv d p, e ≠ .incr lv d p) : cExprStmt e = cExpr e ++ [.drop] := by
  cases e with
  | assign lv r => exact absurd rfl (h1 lv r)
  | augAssign lv op r => exact absurd rfl (h2 lv op r)
  | incr lv d p => exact absurd rfl (h3 lv d p)
  | _ => simp [cExprStmt]

/-- expression-position code followed by `Drop` -/
theorem exprDrop_correct (L : Laws S) (e : Expr) (s : List S.V) (w : S.W) (v : S.V) (w' : S.W)
    (h : eval S e w = some (v, w')) : Frag S (cExpr e ++ [.drop]) s w s w' :=
  ((expr_all L e).1 s w v w' h).append (Frag.sl (by simp [execSL]))

/-- statement-position code: same final world, stack unchanged -/
theorem exprStmt_correct (L : Laws S) (M : StmtLaws S) (e : Expr) (s : List S.V) (w : S.W) (v : S.V) (w' : S.W)
    (h : eval S e w = some (v, w')) : Frag S (cExprStmt e) s w s w' := by
  have other : cExprStmt e = cExpr e ++ [.drop] → Frag S (cExprStmt e) s w s w' := by
    intro hc; rw [hc]; exact exprDrop_correct L e s w v w' h
  cases e with
  | assign lv r =>
    have ihr := (expr_all L r).1
    have hsub := (expr_all L lv).2.2
    cases lv with
    | var sc i =>
      eval_inv h
      obtain ⟨v, w1, hr, w', hs, rfl, rfl⟩ := h
      have f1 : Frag S (cExpr r) s w (v :: s) w1 := ihr _ _ _ _ hr
      have f2 : Frag S [.assignVar sc i] (v :: s) w1 s w' := by sl [hs]
      simpa [cExprStmt] using f1.append f2
    | field ie =>
      eval_inv h
      obtain ⟨v, w1, hr, iv, w2, hi, w', hs, rfl, rfl⟩ := h
      have f1 : Frag S (cExpr r) s w (v :: s) w1 := ihr _ _ _ _ hr
      have f3 : Frag S (cExpr ie) (v :: s) w1 (iv :: v :: s) w2 := hsub _ _ _ _ hi
      have f4 : Frag S [.assignField] (iv :: v :: s) w2 s w' := by sl [hs]
      simpa [cExprStmt] using (f1.append f3).append f4
    | index sc a ie =>
      eval_inv h
      obtain ⟨v, w1, hr, iv, w2, hi, rfl, rfl⟩ := h
      have f1 : Frag S (cExpr r) s w (v :: s) w1 := ihr _ _ _ _ hr
      obtain ⟨iv', hk, f3⟩ := cIdx_spec hsub (v :: s) w1 iv w2 hi
      have f4 : Frag S [.arrAssign sc a] (iv' :: v :: s) w2 s (S.setArr sc a iv v w2) := by sl [hk.setArr L]
      simpa [cExprStmt] using (f1.append f3).append f4
    | _ => simp [eval] at h
  | augAssign lv op r =>
    have ihr := (expr_all L r).1
    have hsub := (expr_all L lv).2.2
    cases lv with
    | var sc i =>
      eval_inv h
      obtain ⟨rv, w1, hr, v, hx, w', hs, rfl, rfl⟩ := h
      have f1 : Frag S (cExpr r) s w (rv :: s) w1 := ihr _ _ _ _ hr
      have f2 : Frag S [.augVar sc op i] (rv :: s) w1 s w' := by sl [M.aug_eq, hx, hs]
      simpa [cExprStmt] using f1.append f2
    | field ie =>
      eval_inv h
      obtain ⟨rv, w1, hr, iv, w2, hi, v, hx, w', hs, rfl, rfl⟩ := h
      have f1 : Frag S (cExpr r) s w (rv :: s) w1 := ihr _ _ _ _ hr
      have f2 : Frag S (cExpr ie) (rv :: s) w1 (iv :: rv :: s) w2 := hsub _ _ _ _ hi
      have f3 : Frag S [.augField op] (iv :: rv :: s) w2 s w' := by sl [M.aug_eq, hx, hs]
      simpa [cExprStmt] using (f1.append f2).append f3
    | index sc a ie =>
      eval_inv h
      obtain ⟨rv, w1, hr, iv, w2, hi, v, hx, rfl, rfl⟩ := h
      have f1 : Frag S (cExpr r) s w (rv :: s) w1 := ihr _ _ _ _ hr
      obtain ⟨iv', hk, f2⟩ := cIdx_spec hsub (rv :: s) w1 iv w2 hi
      have f3 : Frag S [.arrAug sc op a] (iv' :: rv :: s) w2 s (S.setArr sc a iv v (S.getArr sc a iv w2).2) := by
        sl [M.aug_eq, hk.getArr L, hk.setArr L, hx, M.set_get]
      simpa [cExprStmt] using (f1.append f2).append f3
    | _ => simp [eval] at h
  | incr lv dec pre =>
    have hsub := (expr_all L lv).2.2
    cases lv with
    | var sc i =>
      have key : ∃ w1, S.setVar sc i (S.incrBy dec (S.getVar sc i w)) w = some w1 ∧ w1 = w' := by
        cases pre with
        | true =>
          eval_inv h; simp only [if_true, M.incr_eq] at h
          obtain ⟨x, hx, w1, hs, -, rfl⟩ := h
          simp only [Option.some.injEq] at hx; subst hx
          exact ⟨_, hs, rfl⟩
        | false =>
          eval_inv h; simp only [Bool.false_eq_true, if_false, M.incr_eq, M.incr_plus] at h
          obtain ⟨x, hx, w1, hs, -, rfl⟩ := h
          simp only [Option.some.injEq] at hx; subst hx
          exact ⟨_, hs, rfl⟩
      obtain ⟨w1, hs, rfl⟩ := key
      have : cExprStmt (.incr (.var sc i) dec pre) = [.incrVar sc dec i] := by simp [cExprStmt]
      rw [this]; sl [hs]
    | field ie =>
      have key : ∃ iv w1 w2, eval S ie w = some (iv, w1) ∧ S.setField iv (S.incrBy dec (S.getField iv w1)) w1 = some w2 ∧ w2 = w' := by
        cases pre with
        | true =>
          eval_inv h; simp only [if_true, M.incr_eq] at h
          obtain ⟨iv, w1, hi, x, hx, w2, hs, -, rfl⟩ := h
          simp only [Option.some.injEq] at hx; subst hx
          exact ⟨_, _, _, hi, hs, rfl⟩
        | false =>
          eval_inv h; simp only [Bool.false_eq_true, if_false, M.incr_eq, M.incr_plus] at h
          obtain ⟨iv, w1, hi, x, hx, w2, hs, -, rfl⟩ := h
          simp only [Option.some.injEq] at hx; subst hx
          exact ⟨_, _, _, hi, hs, rfl⟩
      obtain ⟨iv, w1, w2, hi, hs, rfl⟩ := key
      have f1 : Frag S (cExpr ie) s w (iv :: s) w1 := hsub _ _ _ _ hi
      have f2 : Frag S [.incrField dec] (iv :: s) w1 s w2 := by sl [hs]
      simpa [cExprStmt] using f1.append f2
    | index sc a ie =>
      have key : ∃ iv w1, eval S ie w = some (iv, w1) ∧
          S.setArr sc a iv (S.incrBy dec (S.getArr sc a iv w1).1) (S.getArr sc a iv w1).2 = w' := by
        cases pre with
        | true =>
          eval_inv h; simp only [if_true, M.incr_eq] at h
          obtain ⟨iv, w1, hi, x, hx, -, rfl⟩ := h
          simp only [Option.some.injEq] at hx; subst hx
          exact ⟨_, _, hi, rfl⟩
        | false =>
          eval_inv h; simp only [Bool.false_eq_true, if_false, M.incr_eq, M.incr_plus] at h
          obtain ⟨iv, w1, hi, x, hx, -, rfl⟩ := h
          simp only [Option.some.injEq] at hx; subst hx
          exact ⟨_, _, hi, rfl⟩
      obtain ⟨iv, w1, hi, rfl⟩ := key
      obtain ⟨iv', hk, f1⟩ := cIdx_spec hsub s w iv w1 hi
      have f2 : Frag S [.arrIncr sc dec a] (iv' :: s) w1 s
          (S.setArr sc a iv (S.incrBy dec (S.getArr sc a iv w1).1) (S.getArr sc a iv w1).2) := by
        sl [hk.getArr L, hk.setArr L, M.set_get]
      simpa [cExprStmt, cIdx] using f1.append f2
    | _ => simp [eval] at h
  | _ => exact other (by simp [cExprStmt])

/-! ### from `Reach` to `run` -/

theorem fetch_end (C : Code) : fetch C (csize C) = none := by
  induction C with
  | nil => simp [fetch]
  | cons i c ih =>
    have hi := i.size_pos
    have h1 : ¬ (i.size + csize c = 0) := by omega
    have h2 : ¬ (i.size + csize c < i.size) := by omega
    show fetch (i :: c) (i.size + csize c) = none
    rw [fetch, if_neg h1, if_neg h2, Nat.add_sub_cancel_left]; exact ih

theorem run_of_reach {C : Code} {a b : St S} (h : Reach S C a b) (hb : b.pc = csize C) :
    ∃ n, run S C n a = .normal b.w := by
  induction h with
  | refl st => exact ⟨1, by simp [run, hb]⟩
  | @step a b c hs _ ih =>
    obtain ⟨n, hn⟩ := ih hb
    refine ⟨n + 1, ?_⟩
    have hne : a.pc ≠ csize C := by
      intro he
      simp [stepTo, he, fetch_end] at hs
    simp only [stepTo] at hs
    rw [run, if_neg hne]
    split at hs
    · simp at hs
    · rename_i i hf
      split at hs
      · rename_i s' w' he
        simp only [Option.some.injEq] at hs; subst hs
        simpa [he] using hn
      · rename_i off s' w' he
        simp only [Option.some.injEq] at hs; subst hs
        simpa [he] using hn
      · simp at hs

end GoawkModel.C01
