import GoawkModel.C14Fields
/-!
# C14, field level — proofs

Finite facts about the *regenerated* effect lists are decided (`by decide`); the theorems about arbitrary histories are
derived from them. Nothing here mentions a concrete field name except `checkCtx`.
-/
namespace GoawkModel.C14F
open GoawkModel.Generated.C14Fields

/-! ## Finite facts over the generated lists -/

def inMust (f : String) : Bool := setExecuteConfigMust.contains f
def untouched (effs : List Eff) (f : String) : Bool := (resetTok effs f).isNone
def restores (effs : List Eff) (f : String) : Bool := decide (resetTok effs f = some (freshState f))

/-- what the reset functions must do with a field of each class -/
def classFact (e : String × Class × String) : Bool :=
  let f := e.1
  match e.2.1 with
  | .perRun => !inMust f && restores (entryEffects .plain) f && restores (entryEffects .withCtx) f
  | .fromConfig => inMust f
  | .vars => !inMust f && untouched (entryEffects .plain) f && untouched (entryEffects .withCtx) f &&
      untouched resetRandEffects f && restores resetVarsEffects f
  | .rand => !inMust f && untouched (entryEffects .plain) f && untouched (entryEffects .withCtx) f &&
      restores resetRandEffects f
  | .immutable => !inMust f && untouched (entryEffects .plain) f && untouched (entryEffects .withCtx) f &&
      untouched resetRandEffects f && untouched resetVarsEffects f
  | .ctx => !inMust f && restores (entryEffects .plain) f && (resetTok (entryEffects .withCtx) f).isSome
  | .ctxAux => !inMust f && (resetTok (entryEffects .withCtx) f).isSome
  | .cache => true
  | .scratch => true

/-- the fields whose class obligation FAILS on the regenerated lists (empty when the source is sound) -/
def leaks : List String := (classTable.filter (fun e => !classFact e)).map (·.1)

set_option maxRecDepth 100000 in
/-- every field of the Go struct has a class -/
theorem all_classified : interpFields.all (fun f => (classOf f).isSome) = true := by decide

set_option maxRecDepth 100000 in
/-- the table mentions only fields the struct has, each once -/
theorem table_current : classTable.all (fun e => interpFields.contains e.1) = true ∧
    (classTable.map (·.1)).length = interpFields.length := by decide

/-- the reset functions have no conditional effects and call no helpers; setExecuteConfig's direct writes are to
config-class fields only and the helpers it calls are the three known ones -/
theorem resets_unconditional :
    (newInterpEffects ++ resetCoreEffects ++ resetVarsEffects ++ resetRandEffects ++ executeEffects ++
      executeContextEffects).all (fun e => e.2.2.2) = true ∧
    resetCoreCalls = [] ∧ resetVarsCalls = [] ∧ resetRandCalls = [] ∧ newInterpCalls = [] := by decide

set_option maxRecDepth 100000 in
theorem config_writes_config_only :
    setExecuteConfigEffects.all (fun e => decide (classOf e.1 = some .fromConfig)) = true ∧
    setExecuteConfigCalls.all (fun m => ["setArrayValue", "setVarByName", "initNativeFuncs"].contains m) = true ∧
    setExecuteConfigReadsBeforeWrite.all (fun f => decide (classOf f = some .immutable)) = true := by decide

/-- the public entry points are the sequences the model composes -/
theorem entry_sequences :
    executeCalls = ["resetCore", "setExecuteConfig", "executeAll"] ∧
    executeContextCalls = ["resetCore", "setExecuteConfig", "executeAll"] ∧
    execProgramCalls = ["newInterp", "setExecuteConfig", "executeAll"] ∧
    newCalls = ["newInterp"] ∧ resetVarsPublicCalls = ["resetVars"] ∧
    execProgramEffects = [] ∧ newEffects = [] := by decide

theorem checkCtx_facts :
    inMust "checkCtx" = false ∧ classOf "checkCtx" = some .ctx ∧
    resetTok (entryEffects .plain) "checkCtx" = some ("zero", "") ∧ freshState "checkCtx" = ("zero", "") := by decide

/-! ## From the table to arbitrary field names -/

theorem classOf_mem {f : String} {c : Class} (h : classOf f = some c) : ∃ j, (f, c, j) ∈ classTable := by
  unfold classOf at h
  cases hf : classTable.find? (fun e => e.1 == f) with
  | none => simp [hf] at h
  | some e =>
    simp [hf] at h
    have hm := List.mem_of_find?_eq_some hf
    have hp := List.find?_some hf
    have : e.1 = f := by simpa using hp
    obtain ⟨a, b, j⟩ := e
    simp at this h
    subst this; subst h
    exact ⟨j, hm⟩

theorem fact_of_class {f : String} {c : Class} (h : classOf f = some c) (hx : f ∉ leaks) :
    ∃ j, classFact (f, c, j) = true := by
  obtain ⟨j, hm⟩ := classOf_mem h
  refine ⟨j, ?_⟩
  cases hcf : classFact (f, c, j) with
  | true => rfl
  | false =>
    exact absurd (List.mem_map.mpr ⟨(f, c, j), List.mem_filter.mpr ⟨hm, by simp [hcf]⟩, rfl⟩) hx

theorem apply_of_tok {effs : List Eff} {f : String} {t : Tok} (h : resetTok effs f = some t) (s : FState) :
    applyEffects effs s f = t := by simp [applyEffects, h]

theorem apply_untouched {effs : List Eff} {f : String} (h : untouched effs f = true) (s : FState) :
    applyEffects effs s f = s f := by
  simp [untouched, Option.isNone_iff_eq_none] at h
  simp [applyEffects, h]

theorem apply_restores {effs : List Eff} {f : String} (h : restores effs f = true) (s : FState) :
    applyEffects effs s f = freshState f := by
  simp [restores] at h
  simp [applyEffects, h]

theorem apply_some {effs : List Eff} {f : String} (h : (resetTok effs f).isSome = true) (s₁ s₂ : FState) :
    applyEffects effs s₁ f = applyEffects effs s₂ f := by
  obtain ⟨t, ht⟩ := Option.isSome_iff_exists.mp h
  simp [applyEffects, ht]

variable {Cfg Result : Type}

theorem untouched_entry {f : String} (e : Entry)
    (h1 : untouched (entryEffects .plain) f = true) (h2 : untouched (entryEffects .withCtx) f = true) :
    untouched (entryEffects e) f = true := by cases e <;> assumption

/-- pre-run value of a field that setExecuteConfig does not definitely assign -/
theorem preRun_notMust (S : Sem Cfg Result) (e : Entry) (cfg : Cfg) (s : FState) {f : String}
    (hm : inMust f = false) :
    preRun S e cfg s f =
      if classOf f = some .vars then S.cfgVars cfg f (applyEffects (entryEffects e) s f)
      else applyEffects (entryEffects e) s f := by
  simp only [inMust] at hm
  simp only [preRun, setCfg, hm, Bool.false_eq_true, if_false]

theorem preRun_must (S : Sem Cfg Result) (e : Entry) (cfg : Cfg) (s : FState) {f : String}
    (hm : inMust f = true) : preRun S e cfg s f = S.cfgVal cfg f := by
  simp only [inMust] at hm
  simp only [preRun, setCfg, hm, if_true]

theorem setCfg_notMust (S : Sem Cfg Result) (cfg : Cfg) (s : FState) {f : String} (hm : inMust f = false) :
    setCfg S cfg s f = if classOf f = some .vars then S.cfgVars cfg f (s f) else s f := by
  simp only [inMust] at hm
  simp only [setCfg, hm, Bool.false_eq_true, if_false]

theorem setCfg_must (S : Sem Cfg Result) (cfg : Cfg) (s : FState) {f : String} (hm : inMust f = true) :
    setCfg S cfg s f = S.cfgVal cfg f := by
  simp only [inMust] at hm
  simp only [setCfg, hm, if_true]

theorem preRun_plain_checkCtx (S : Sem Cfg Result) (cfg : Cfg) (s : FState) :
    preRun S .plain cfg s "checkCtx" = ("zero", "") := by
  obtain ⟨h1, h2, h3, _⟩ := checkCtx_facts
  rw [preRun_notMust S .plain cfg s h1]
  simp [h2, apply_of_tok h3]

/-- Immutable fields keep the value `newInterp` gave them. -/
def Inv (s : FState) : Prop := ∀ f, classOf f = some .immutable → f ∉ leaks → s f = freshState f

theorem inv_fresh : Inv freshState := fun _ _ _ => rfl

theorem inv_step (S : Sem Cfg Result) (ok : S.Ok leaks) (st : Step Cfg) (s : FState) (h : Inv s) : Inv (stepState S st s) := by
  intro f hc hx
  obtain ⟨j, hf⟩ := fact_of_class hc hx
  simp [classFact] at hf
  obtain ⟨⟨⟨⟨hm, hp⟩, hw⟩, hr⟩, hv⟩ := hf
  cases st with
  | exec e cfg =>
    simp only [stepState, exec]
    rw [ok.run_immutable _ _ _ hc, preRun_notMust S e cfg s hm]
    simp [hc, apply_untouched (untouched_entry e hp hw), h f hc hx]
  | resetVars => simp [stepState, apply_untouched hv, h f hc hx]
  | resetRand => simp [stepState, apply_untouched hr, h f hc hx]

theorem inv_history (S : Sem Cfg Result) (ok : S.Ok leaks) (h : List (Step Cfg)) (s : FState) (hs : Inv s) :
    Inv (runHistory S h s) := by
  induction h generalizing s with
  | nil => exact hs
  | cons st rest ih => exact ih _ (inv_step S ok st s hs)

/-- The heart: two states that agree on variables, generator and immutable fields give pre-run states that agree on
everything observable — whatever else they contain. -/
theorem preRun_obsEq (S : Sem Cfg Result) (e : Entry) (cfg : Cfg) (s₁ s₂ : FState)
    (hv : ∀ f, classOf f = some .vars → f ∉ leaks → s₁ f = s₂ f)
    (hr : ∀ f, classOf f = some .rand → f ∉ leaks → s₁ f = s₂ f)
    (hi : ∀ f, classOf f = some .immutable → f ∉ leaks → s₁ f = s₂ f) :
    ObsEq leaks (preRun S e cfg s₁) (preRun S e cfg s₂) := by
  intro f c hc hx hobs
  obtain ⟨j, hf⟩ := fact_of_class hc hx
  cases c with
  | perRun =>
    simp [classFact] at hf
    obtain ⟨⟨hm, hp⟩, hw⟩ := hf
    rw [preRun_notMust S e cfg s₁ hm, preRun_notMust S e cfg s₂ hm]
    simp [hc]
    cases e
    · rw [apply_restores hp, apply_restores hp]
    · rw [apply_restores hw, apply_restores hw]
  | fromConfig =>
    simp [classFact] at hf
    rw [preRun_must S e cfg s₁ hf, preRun_must S e cfg s₂ hf]
  | vars =>
    simp [classFact] at hf
    obtain ⟨⟨⟨⟨hm, hp⟩, hw⟩, _⟩, _⟩ := hf
    rw [preRun_notMust S e cfg s₁ hm, preRun_notMust S e cfg s₂ hm]
    simp [hc, apply_untouched (untouched_entry e hp hw), hv f hc hx]
  | rand =>
    simp [classFact] at hf
    obtain ⟨⟨⟨hm, hp⟩, hw⟩, _⟩ := hf
    rw [preRun_notMust S e cfg s₁ hm, preRun_notMust S e cfg s₂ hm]
    simp [hc, apply_untouched (untouched_entry e hp hw), hr f hc hx]
  | immutable =>
    simp [classFact] at hf
    obtain ⟨⟨⟨⟨hm, hp⟩, hw⟩, _⟩, _⟩ := hf
    rw [preRun_notMust S e cfg s₁ hm, preRun_notMust S e cfg s₂ hm]
    simp [hc, apply_untouched (untouched_entry e hp hw), hi f hc hx]
  | cache => simp [observable] at hobs
  | scratch => simp [observable] at hobs
  | ctx =>
    simp [classFact] at hf
    obtain ⟨⟨hm, hp⟩, hw⟩ := hf
    rw [preRun_notMust S e cfg s₁ hm, preRun_notMust S e cfg s₂ hm]
    simp [hc]
    cases e
    · rw [apply_restores hp, apply_restores hp]
    · exact apply_some hw _ _
  | ctxAux =>
    simp [classFact] at hf
    obtain ⟨hm, hw⟩ := hf
    cases e with
    | withCtx =>
      rw [preRun_notMust S _ cfg s₁ hm, preRun_notMust S _ cfg s₂ hm]
      simp [hc]
      exact apply_some hw _ _
    | plain =>
      simp [observable] at hobs
      exact absurd (preRun_plain_checkCtx S cfg s₁) hobs

/-- after ResetVars and ResetRand the variables and the generator are those of a fresh interpreter -/
theorem reset_vars_rand (s : FState) :
    (∀ f, classOf f = some .vars → f ∉ leaks →
      applyEffects resetRandEffects (applyEffects resetVarsEffects s) f = freshState f) ∧
    (∀ f, classOf f = some .rand → f ∉ leaks →
      applyEffects resetRandEffects (applyEffects resetVarsEffects s) f = freshState f) := by
  constructor
  · intro f hc hx
    obtain ⟨j, hf⟩ := fact_of_class hc hx
    simp [classFact] at hf
    obtain ⟨⟨⟨⟨_, _⟩, _⟩, hr⟩, hv⟩ := hf
    rw [apply_untouched hr, apply_restores hv]
  · intro f hc hx
    obtain ⟨j, hf⟩ := fact_of_class hc hx
    simp [classFact] at hf
    obtain ⟨⟨⟨_, _⟩, _⟩, hr⟩ := hf
    rw [apply_restores hr]

theorem reset_immutable (s : FState) (hs : Inv s) :
    ∀ f, classOf f = some .immutable → f ∉ leaks →
      applyEffects resetRandEffects (applyEffects resetVarsEffects s) f = freshState f := by
  intro f hc hx
  obtain ⟨j, hf⟩ := fact_of_class hc hx
  simp [classFact] at hf
  obtain ⟨⟨⟨⟨_, _⟩, _⟩, hr⟩, hv⟩ := hf
  rw [apply_untouched hr, apply_untouched hv, hs f hc hx]

/-- `ExecProgram` = `New` followed by `Execute` (the entry effects are the identity on a fresh state) -/
theorem execProgram_eq_new_execute (S : Sem Cfg Result) (ok : S.Ok leaks) (cfg : Cfg) :
    (execProgram S cfg).2 = (exec S .plain cfg freshState).2 := by
  apply ok.run_obs
  intro f c hc hx hobs
  obtain ⟨j, hf⟩ := fact_of_class hc hx
  have key : ∀ (hm : inMust f = false), applyEffects (entryEffects .plain) freshState f = freshState f →
      setCfg S cfg freshState f = preRun S .plain cfg freshState f := by
    intro hm h
    rw [preRun_notMust S _ cfg _ hm, h, setCfg_notMust S cfg _ hm]
  cases c with
  | perRun =>
    simp [classFact] at hf
    exact key hf.1.1 (apply_restores hf.1.2 _)
  | fromConfig =>
    simp [classFact] at hf
    rw [preRun_must S _ cfg _ hf, setCfg_must S cfg _ hf]
  | vars =>
    simp [classFact] at hf
    exact key hf.1.1.1.1 (apply_untouched hf.1.1.1.2 _)
  | rand =>
    simp [classFact] at hf
    exact key hf.1.1.1 (apply_untouched hf.1.1.2 _)
  | immutable =>
    simp [classFact] at hf
    exact key hf.1.1.1.1 (apply_untouched hf.1.1.1.2 _)
  | cache => simp [observable] at hobs
  | scratch => simp [observable] at hobs
  | ctx =>
    simp [classFact] at hf
    exact key hf.1.1 (apply_restores hf.1.2 _)
  | ctxAux =>
    simp [observable] at hobs
    obtain ⟨h1, h2, _, h4⟩ := checkCtx_facts
    exact absurd (by rw [setCfg_notMust S cfg _ h1]; simp [h2, h4]) hobs

end GoawkModel.C14F
