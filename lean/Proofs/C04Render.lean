import Proofs.C04Main
/-! C04 — the two renderers produce canonical trees that strip back to the original (numbers, strings, variables, all unary and binary operators, `in`, `?:`, assignment), and
`parseExpr` with its concrete fuel reads canonical trees back. -/
namespace GoawkModel.C04

/-- trees of the stage-A language: numbers, strings, variables, unary `- + !`, `^ * / % + -`, relational, `&& ||`, `?:`,
    assignment to a variable; no `group` nodes (the renderers add those) -/
def wfA : Expr → Bool
  | .num _ => true
  | .var _ => true
  | .str _ => true
  | .unary _ e => wfA e
  | .binary op l r => op.stageA false && wfA l && wfA r
  | .cond c t f => wfA c && wfA t && wfA f
  | .assign _ l r => l.isLValue && wfA l && wfA r
  | .inArr e _ => wfA e
  | .incr _ _ e => e.isLValue && wfA e
  | .field e => wfA e
  | .namedField e => wfA e
  | .index _ i => wfA i
  | .getline c t f =>
    (c == .none || wfA c) && (t == .none || (t.isLValue && wfA t)) && (f == .none || wfA f) && (c == .none || f == .none)
  | _ => false

/-- trees of the whole expression language of the model (the property's quantifier): additionally pre/post `++ --`,
    `$`, `a[i]`, the getline forms; lvalues where the grammar wants lvalues; no `group` nodes -/
def wfFull : Expr → Bool
  | .num _ => true
  | .var _ => true
  | .str _ => true
  | .unary _ e => wfFull e
  | .binary _ l r => wfFull l && wfFull r
  | .cond c t f => wfFull c && wfFull t && wfFull f
  | .assign _ l r => l.isLValue && wfFull l && wfFull r
  | .inArr e _ => wfFull e
  | .incr _ _ e => e.isLValue && wfFull e
  | .field e => wfFull e
  | .namedField e => wfFull e
  | .index _ i => wfFull i
  | .getline c t f =>
    (c == .none || wfFull c) && (t == .none || (t.isLValue && wfFull t)) && (f == .none || wfFull f) &&
    (c == .none || f == .none)
  | _ => false

theorem canon_mono (pc : Bool) (e : Expr) (k j : Nat) (h : canon pc k e = true) (hj : j ≤ k) : canon pc j e = true := by
  cases e with
  | num i => simp only [canon, decide_eq_true_eq] at h ⊢; omega
  | var i => simp only [canon, decide_eq_true_eq] at h ⊢; omega
  | str i => simp only [canon, decide_eq_true_eq] at h ⊢; omega
  | group e => simp only [canon, Bool.and_eq_true, decide_eq_true_eq] at h ⊢; exact ⟨by omega, h.2⟩
  | unary op e => simp only [canon, Bool.and_eq_true, decide_eq_true_eq] at h ⊢; exact ⟨by omega, h.2⟩
  | binary op l r =>
    simp only [canon, Bool.and_eq_true, decide_eq_true_eq] at h ⊢
    exact ⟨⟨⟨⟨h.1.1.1.1, by omega⟩, h.1.1.2⟩, h.1.2⟩, h.2⟩
  | cond c t f =>
    simp only [canon, Bool.and_eq_true, decide_eq_true_eq] at h ⊢
    exact ⟨⟨⟨by omega, h.1.1.2⟩, h.1.2⟩, h.2⟩
  | assign op l r =>
    simp only [canon, Bool.and_eq_true, decide_eq_true_eq] at h ⊢
    exact ⟨⟨⟨by omega, h.1.1.2⟩, h.1.2⟩, h.2⟩
  | none => simp [canon] at h
  | namedField e => simp only [canon, Bool.and_eq_true, decide_eq_true_eq] at h ⊢; exact ⟨by omega, h.2⟩
  | inArr e a => simp only [canon, Bool.and_eq_true, decide_eq_true_eq] at h ⊢; exact ⟨by omega, h.2⟩
  | incr p d e =>
    cases p
    · cases e <;> simp only [canon, Bool.and_eq_true, decide_eq_true_eq, Bool.false_eq_true] at h ⊢ <;>
        first | omega | exact ⟨by omega, h.2⟩ | exact ⟨⟨by omega, h.1.2⟩, h.2⟩
    · simp only [canon, Bool.and_eq_true, decide_eq_true_eq] at h ⊢
      exact ⟨⟨by omega, h.1.2⟩, h.2⟩
  | field e => simp only [canon, Bool.and_eq_true, decide_eq_true_eq] at h ⊢; exact ⟨by omega, h.2⟩
  | index a i => simp only [canon, Bool.and_eq_true, decide_eq_true_eq] at h ⊢; exact ⟨by omega, h.2⟩
  | getline c t f =>
    by_cases hcn : c = .none
    · subst hcn
      simp only [canon, beq_self_eq_true, if_true, Bool.and_eq_true, decide_eq_true_eq] at h ⊢
      exact ⟨h.1, by omega, h.2.2⟩
    · simp only [canon, beq_iff_eq, hcn, if_false, Bool.and_eq_true, decide_eq_true_eq] at h ⊢
      exact ⟨h.1, ⟨⟨h.2.1.1.1, by omega⟩, h.2.1.2⟩, h.2.2⟩

theorem one_le_prec (e : Expr) : 1 ≤ e.prec := by
  cases e <;> simp [Expr.prec]
  case binary op l r => cases op <;> simp [BOp.prec]

theorem prec_le (e : Expr) : e.prec ≤ 15 := by
  cases e <;> simp [Expr.prec]
  case binary op l r => cases op <;> simp [BOp.prec]

theorem sides_le (op : BOp) : op.lhs ≤ 15 ∧ op.rhs ≤ 15 := by
  cases op <;> simp [BOp.lhs, BOp.rhs, BOp.assoc, BOp.prec]

/-- level at which `addMin pc e` may stand -/
def topLevel (pc : Bool) (e : Expr) : Nat := if pc && printSpecial e then 15 else e.prec

def MinOk (e : Expr) : Prop :=
  ∀ pc, (∀ k, k ≤ topLevel pc e → canon pc k (addMin pc e) = true) ∧ strip (addMin pc e) = e

theorem fit_ok (e : Expr) (ih : MinOk e) (pc : Bool) (q : Nat) (hq : q ≤ 15) :
    canon pc q (fitMin pc q e) = true ∧ strip (fitMin pc q e) = e := by
  rw [fitMin]
  split
  · refine ⟨(ih pc).1 q ?_, (ih pc).2⟩
    unfold topLevel
    split <;> omega
  · refine ⟨?_, ?_⟩
    · simp only [canon, Bool.and_eq_true, decide_eq_true_eq]
      refine ⟨hq, (ih false).1 1 ?_⟩
      simp only [topLevel, Bool.false_and, Bool.false_eq_true, if_false]
      exact one_le_prec e
    · simp only [strip]; exact (ih false).2

/-- at concatenation-operand level and above a canonical tree does not start with `getline` -/
theorem hd_ne_getline (e : Expr) : ∀ (pc : Bool) (k : Nat), canon pc k e = true → 8 ≤ k → hd (render e) ≠ .getline := by
  induction e with
  | num i => intros; simp [render, hd]
  | var i => intros; simp [render, hd]
  | str i => intros; simp [render, hd]
  | group e _ => intros; simp [render, hd]
  | unary op e _ => intro pc k _ _; cases op <;> simp [render, hd, uopTok]
  | binary op l r ihl _ =>
    intro pc k hc hk
    simp only [canon, Bool.and_eq_true, decide_eq_true_eq] at hc
    have hl : 8 ≤ op.lhs := by
      have := hc.1.1.1.2
      cases op <;> simp [BOp.lhs, BOp.assoc, BOp.prec] at this ⊢ <;> omega
    have h1 := ihl pc _ hc.1.1.2 hl
    obtain ⟨t, ts, hr, _⟩ := render_hd l pc _ hc.1.1.2
    simp only [render, hr, List.cons_append, hd] at h1 ⊢
    exact h1
  | cond c t f _ _ _ => intro pc k hc hk; simp only [canon, Bool.and_eq_true, decide_eq_true_eq] at hc; omega
  | assign op l r _ _ => intro pc k hc hk; simp only [canon, Bool.and_eq_true, decide_eq_true_eq] at hc; omega
  | inArr e a _ => intro pc k hc hk; simp only [canon, Bool.and_eq_true, decide_eq_true_eq] at hc; omega
  | incr p d e _ =>
    intro pc k hc hk
    cases p
    · cases e <;> simp [canon] at hc <;> simp [render, hd]
    · cases d <;> simp [render, hd]
  | field e _ => intros; simp [render, hd]
  | index a i _ => intros; simp [render, hd]
  | none => intro pc k hc; simp [canon] at hc
  | namedField e _ => intros; simp [render, hd]
  | getline c t f _ _ _ =>
    intro pc k hc hk
    simp only [canon, Bool.and_eq_true] at hc
    have h2 := hc.2
    split at h2 <;> simp only [Bool.and_eq_true, decide_eq_true_eq] at h2 <;> omega

theorem closed_min (e : Expr) (hw : wfA e = true) (hnf : isField e = false) (hp : 14 ≤ e.prec) :
    closed (addMin false e) = true := by
  cases e with
  | num i => simp [addMin, closed]
  | var i => simp [addMin, closed]
  | str i => simp [addMin, closed]
  | index a i => rw [addMin]; rfl
  | field e => simp [isField] at hnf
  | binary op l r => exfalso; cases op <;> simp [Expr.prec, BOp.prec] at hp
  | unary op e => simp [Expr.prec] at hp
  | cond c t f => simp [Expr.prec] at hp
  | assign op l r => simp [Expr.prec] at hp
  | inArr e a => simp [Expr.prec] at hp
  | incr p d e => simp [Expr.prec] at hp
  | none => simp [wfA] at hw
  | namedField e => simp [isField] at hnf
  | group e => simp [wfA] at hw
  | getline c t f => simp [Expr.prec] at hp

/-- the minimal rendering of an lvalue is an lvalue that `primary()` reads -/
theorem lv_min (l : Expr) (hlv : l.isLValue = true) (ih : MinOk l) :
    (addMin false l).isLValue = true ∧ canon false 14 (addMin false l) = true ∧ strip (addMin false l) = l := by
  have h := ih false
  refine ⟨?_, h.1 14 ?_, h.2⟩
  · cases l <;> simp [Expr.isLValue] at hlv <;> simp [addMin, Expr.isLValue]
  · cases l <;> simp [Expr.isLValue] at hlv <;> simp [topLevel, printSpecial, Expr.prec]

theorem min_ok (e : Expr) (hwf : wfA e = true) : MinOk e := by
  induction e with
  | num i => intro pc; simp [addMin, canon, strip, topLevel, printSpecial, Expr.prec]
  | var i => intro pc; simp [addMin, canon, strip, topLevel, printSpecial, Expr.prec]
  | str i => intro pc; simp [addMin, canon, strip, topLevel, printSpecial, Expr.prec]
  | unary op e ih =>
    intro pc
    simp only [wfA] at hwf
    have hf := fit_ok e (ih hwf) pc 11 (by omega)
    rw [addMin]
    refine ⟨?_, ?_⟩
    · intro k hk
      simp only [topLevel, printSpecial, Bool.and_false, Bool.false_eq_true, if_false, Expr.prec] at hk
      simp only [canon, Bool.and_eq_true, decide_eq_true_eq]
      exact ⟨by omega, hf.1⟩
    · simp only [strip, hf.2]
  | binary op l r ihl ihr =>
    intro pc
    simp only [wfA, Bool.and_eq_true] at hwf
    obtain ⟨⟨hs, hwl⟩, hwr⟩ := hwf
    have hsd := sides_le op
    have h1p : 1 ≤ op.prec := by have := one_le_prec (.binary op l r); simpa [Expr.prec] using this
    rw [addMin]
    by_cases hsp : (pc && printSpecial (.binary op l r)) = true
    · -- `>` in a print argument: parenthesised as a whole
      have hl := fit_ok l (ihl hwl) false op.lhs hsd.1
      have hr := fit_ok r (ihr hwr) false op.rhs hsd.2
      have hcat : catOk op (fitMin false op.rhs r) = true := by
        cases op <;> simp_all [printSpecial, catOk]
      simp only [hsp, if_true]
      refine ⟨?_, ?_⟩
      · intro k hk
        simp only [topLevel, hsp, if_true] at hk
        simp only [canon, Bool.and_eq_true, decide_eq_true_eq]
        exact ⟨hk, ⟨⟨⟨hs, h1p⟩, hl.1⟩, hr.1⟩, hcat⟩
      · simp only [strip, hl.2, hr.2]
    · have hl := fit_ok l (ihl hwl) pc op.lhs hsd.1
      have hr := fit_ok r (ihr hwr) pc op.rhs hsd.2
      have hs' : op.stageA pc = true := by
        cases op <;> simp_all [BOp.stageA]
        case cmp c => cases c <;> simp_all [printSpecial]
      simp only [hsp, Bool.false_eq_true, if_false]
      by_cases hcs : (op == BOp.concat && signStart (hd (render (fitMin pc op.rhs r)))) = true
      · -- `a -b`, `a ++b`: the right operand of a concatenation is parenthesised
        simp only [hcs, if_true]
        have hr0 := ihr hwr false
        refine ⟨?_, ?_⟩
        · intro k hk
          simp only [topLevel, hsp, Bool.false_eq_true, if_false, Expr.prec] at hk
          simp only [canon, Bool.and_eq_true, decide_eq_true_eq]
          refine ⟨⟨⟨⟨hs', hk⟩, hl.1⟩, hsd.2, hr0.1 1 ?_⟩, ?_⟩
          · simp only [topLevel, Bool.false_and, Bool.false_eq_true, if_false]; exact one_le_prec r
          · simp [catOk, render, hd, startOk, concatStart, signStart]
        · simp only [strip, hl.2, hr0.2]
      · simp only [hcs, Bool.false_eq_true, if_false]
        have hcat : catOk op (fitMin pc op.rhs r) = true := by
          unfold catOk
          by_cases hc : (op == BOp.concat) = true
          · have hss : signStart (hd (render (fitMin pc op.rhs r))) = false := by
              simp only [hc, Bool.true_and] at hcs; simpa using hcs
            have hh := (hd_render_append _ pc op.rhs [] hr.1).2
            have hop : op = BOp.concat := by simpa using hc
            have hg := hd_ne_getline _ pc op.rhs hr.1 (by rw [hop]; simp [BOp.rhs, BOp.assoc, BOp.prec])
            have : startOk (hd (render (fitMin pc op.rhs r))) = true := by
              revert hh hss hg
              cases hd (render (fitMin pc op.rhs r)) <;> simp [isHead, signStart, startOk, concatStart]
            simp [this]
          · simp only [Bool.not_eq_true] at hc; simp [bne, hc]
        refine ⟨?_, ?_⟩
        · intro k hk
          simp only [topLevel, hsp, Bool.false_eq_true, if_false, Expr.prec] at hk
          simp only [canon, Bool.and_eq_true, decide_eq_true_eq]
          exact ⟨⟨⟨⟨hs', hk⟩, hl.1⟩, hr.1⟩, hcat⟩
        · simp only [strip, hl.2, hr.2]
  | cond c t f ihc iht ihf =>
    intro pc
    simp only [wfA, Bool.and_eq_true] at hwf
    obtain ⟨⟨hwc, hwt⟩, hwf'⟩ := hwf
    have hc := fit_ok c (ihc hwc) pc 3 (by omega)
    have hf := fit_ok f (ihf hwf') pc 2 (by omega)
    have ht := iht hwt false
    rw [addMin]
    refine ⟨?_, ?_⟩
    · intro k hk
      simp only [topLevel, printSpecial, Bool.and_false, Bool.false_eq_true, if_false, Expr.prec] at hk
      simp only [canon, Bool.and_eq_true, decide_eq_true_eq]
      refine ⟨⟨⟨hk, hc.1⟩, ht.1 1 ?_⟩, canon_mono pc _ 2 1 hf.1 (by omega)⟩
      simp only [topLevel, Bool.false_and, Bool.false_eq_true, if_false]
      exact one_le_prec t
    · simp only [strip, hc.2, ht.2, hf.2]
  | assign op l r ihl ihr =>
    intro pc
    simp only [wfA, Bool.and_eq_true] at hwf
    obtain ⟨⟨hlv, hwl⟩, hwr⟩ := hwf
    have hr := ihr hwr pc
    have hl := lv_min l hlv (ihl hwl)
    rw [addMin]
    refine ⟨?_, ?_⟩
    · intro k hk
      simp only [topLevel, printSpecial, Bool.and_false, Bool.false_eq_true, if_false, Expr.prec] at hk
      simp only [canon, Bool.and_eq_true, decide_eq_true_eq]
      refine ⟨⟨⟨hk, hl.1⟩, hl.2.1⟩, hr.1 1 ?_⟩
      unfold topLevel
      split
      · omega
      · exact one_le_prec r
    · simp only [strip, hr.2, hl.2.2]
  | none => simp [wfA] at hwf
  | namedField e ih =>
    intro pc
    simp only [wfA] at hwf
    have hf := fit_ok e (ih hwf) false 14 (by omega)
    rw [addMin]
    refine ⟨?_, by simp only [strip, hf.2]⟩
    intro k hk
    simp only [topLevel, printSpecial, Bool.and_false, Bool.false_eq_true, if_false, Expr.prec] at hk
    simp only [canon, Bool.and_eq_true, decide_eq_true_eq]
    exact ⟨hk, hf.1⟩
  | group e _ => simp [wfA] at hwf
  | inArr e a ih =>
    intro pc
    simp only [wfA] at hwf
    have hf := fit_ok e (ih hwf) pc 5 (by omega)
    rw [addMin]
    refine ⟨?_, ?_⟩
    · intro k hk
      simp only [topLevel, printSpecial, Bool.and_false, Bool.false_eq_true, if_false, Expr.prec] at hk
      simp only [canon, Bool.and_eq_true, decide_eq_true_eq]
      exact ⟨hk, hf.1⟩
    · simp only [strip, hf.2]
  | incr p d e ih =>
    intro pc
    simp only [wfA, Bool.and_eq_true] at hwf
    have hl := lv_min e hwf.1 (ih hwf.2)
    cases p
    · -- post-increment
      cases e with
      | var a =>
        have hv : addMin pc (.incr false d (.var a)) = .incr false d (.var a) := by simp [addMin]
        rw [hv]
        refine ⟨?_, rfl⟩
        intro k hk
        simp only [topLevel, printSpecial, Bool.and_false, Bool.false_eq_true, if_false, Expr.prec] at hk
        simpa [canon] using hk
      | index a i =>
        have hv : addMin pc (.incr false d (.index a i)) = .incr false d (addMin false (.index a i)) := by simp [addMin]
        rw [hv]
        have h14 := hl.2.1
        have hs := hl.2.2
        rw [addMin] at h14 hs ⊢
        simp only [canon, Bool.and_eq_true, decide_eq_true_eq] at h14
        refine ⟨?_, by simpa only [strip] using congrArg (Expr.incr false d) hs⟩
        intro k hk
        simp only [topLevel, printSpecial, Bool.and_false, Bool.false_eq_true, if_false, Expr.prec] at hk
        simp only [canon, Bool.and_eq_true, decide_eq_true_eq]
        exact ⟨hk, h14.2⟩
      | field e' =>
        rw [addMin]
        have h14 := hl.2.1
        have hs := hl.2.2
        rw [addMin] at h14 hs
        simp only [canon, Bool.and_eq_true, decide_eq_true_eq, strip, Expr.field.injEq] at h14 hs
        simp only [wfA] at hwf
        by_cases hfld : isField e' = true
        · -- `$$x ++` must be written `$($x) ++`
          have hfit : fitMin false 14 e' = addMin false e' := by
            rw [fitMin]; cases e' <;> simp_all [isField, Expr.prec]
          rw [hfit] at h14 hs
          simp only [hfld, if_true]
          refine ⟨?_, by simp only [strip, hs]⟩
          intro k hk
          simp only [topLevel, printSpecial, Bool.and_false, Bool.false_eq_true, if_false, Expr.prec] at hk
          have hc1 := canon_mono false _ 14 1 h14.2 (by omega)
          simp [canon, closed, hk, hc1]
        · simp only [hfld, Bool.false_eq_true, if_false]
          refine ⟨?_, by simp only [strip, hs]⟩
          intro k hk
          simp only [topLevel, printSpecial, Bool.and_false, Bool.false_eq_true, if_false, Expr.prec] at hk
          simp only [canon, Bool.and_eq_true, decide_eq_true_eq]
          refine ⟨⟨hk, ?_⟩, h14.2⟩
          rw [fitMin]
          split
          · rename_i hp
            exact closed_min e' hwf.2 (by simpa using hfld) hp
          · rfl
      | _ => simp [Expr.isLValue] at hwf
    · -- pre-increment
      rw [addMin]
      refine ⟨?_, by simp only [strip, hl.2.2]⟩
      intro k hk
      simp only [topLevel, printSpecial, Bool.and_false, Bool.false_eq_true, if_false, Expr.prec] at hk
      simp only [canon, Bool.and_eq_true, decide_eq_true_eq]
      exact ⟨⟨hk, hl.1⟩, hl.2.1⟩
  | field e ih =>
    intro pc
    simp only [wfA] at hwf
    have hf := fit_ok e (ih hwf) false 14 (by omega)
    rw [addMin]
    refine ⟨?_, by simp only [strip, hf.2]⟩
    intro k hk
    simp only [topLevel, printSpecial, Bool.and_false, Bool.false_eq_true, if_false, Expr.prec] at hk
    simp only [canon, Bool.and_eq_true, decide_eq_true_eq]
    exact ⟨hk, hf.1⟩
  | index a i ih =>
    intro pc
    simp only [wfA] at hwf
    have hi := ih hwf false
    rw [addMin]
    refine ⟨?_, by simp only [strip, hi.2]⟩
    intro k hk
    simp only [topLevel, printSpecial, Bool.and_false, Bool.false_eq_true, if_false, Expr.prec] at hk
    simp only [canon, Bool.and_eq_true, decide_eq_true_eq]
    refine ⟨hk, hi.1 1 ?_⟩
    simp only [topLevel, Bool.false_and, Bool.false_eq_true, if_false]; exact one_le_prec i
  | getline c t f ihc iht ihf =>
    intro pc
    simp only [wfA, Bool.and_eq_true, Bool.or_eq_true, beq_iff_eq] at hwf
    obtain ⟨⟨⟨hwc, hwt⟩, hwf'⟩, hcf⟩ := hwf
    -- the three parts
    have hT : (addMin false t == Expr.none || ((addMin false t).isLValue && canon false 14 (addMin false t))) = true ∧
        strip (addMin false t) = t := by
      rcases hwt with rfl | hwt
      · simp [addMin, strip]
      · have := lv_min t hwt.1 (iht hwt.2)
        simp [this.1, this.2.1, this.2.2]
    have hF : (fitMin false 14 f == Expr.none || canon false 14 (fitMin false 14 f)) = true ∧ strip (fitMin false 14 f) = f ∧
        (f = .none → fitMin false 14 f = .none) := by
      rcases hwf' with rfl | hwf'
      · simp [fitMin, addMin, strip, Expr.prec]
      · have := fit_ok f (ihf hwf') false 14 (by omega)
        refine ⟨by simp [this.1], this.2, ?_⟩
        intro h; subst h; simp [wfA] at hwf'
    have hC : strip (fitMin false 8 c) = c ∧ (c = .none → fitMin false 8 c = .none) ∧
        (c ≠ .none → fitMin false 8 c ≠ .none ∧ canon false 3 (fitMin false 8 c) = true) := by
      rcases hwc with rfl | hwc
      · simp [fitMin, addMin, strip, Expr.prec]
      · have := fit_ok c (ihc hwc) false 8 (by omega)
        refine ⟨this.2, ?_, ?_⟩
        · intro h; subst h; simp [wfA] at hwc
        · intro hne
          refine ⟨?_, canon_mono false _ 8 3 this.1 (by omega)⟩
          intro h; rw [h] at this; exact hne (by simpa [strip] using this.2.symm)
    have hstrip : strip (Expr.getline (fitMin false 8 c) (addMin false t) (fitMin false 14 f)) = .getline c t f := by
      simp only [strip, hC.1, hT.2, hF.2.1]
    have hG : ∀ k, k ≤ 1 → canon false k (Expr.getline (fitMin false 8 c) (addMin false t) (fitMin false 14 f)) = true := by
      intro k hk
      by_cases hcn : c = .none
      · simp only [canon, hC.2.1 hcn, beq_self_eq_true, if_true, Bool.and_eq_true, decide_eq_true_eq]
        exact ⟨hT.1, by omega, hF.1⟩
      · have hfn : f = .none := by
          rcases hcf with h | h
          · exact absurd h hcn
          · exact h
        have := hC.2.2 hcn
        simp only [canon, beq_iff_eq, this.1, if_false, Bool.and_eq_true, decide_eq_true_eq, hF.2.2 hfn, Bool.not_false]
        exact ⟨hT.1, ⟨⟨trivial, hk⟩, trivial⟩, this.2⟩
    rw [addMin]
    by_cases hsp : (pc && (c != Expr.none)) = true
    · simp only [hsp, if_true]
      refine ⟨?_, hstrip⟩
      intro k hk
      have : (pc && printSpecial (.getline c t f)) = true := by simpa [printSpecial] using hsp
      simp only [topLevel, this, if_true] at hk
      have hg1 := hG 1 (Nat.le_refl _)
      simp only [canon, Bool.and_eq_true, decide_eq_true_eq] at hg1 ⊢
      exact ⟨hk, hg1⟩
    · simp only [hsp, Bool.false_eq_true, if_false]
      refine ⟨?_, hstrip⟩
      intro k hk
      have hns : (pc && printSpecial (.getline c t f)) = false := by simpa [printSpecial] using hsp
      simp only [topLevel, hns, Bool.false_eq_true, if_false, Expr.prec] at hk
      -- without a command the form does not depend on the context
      by_cases hcn : c = .none
      · simp only [canon, hC.2.1 hcn, beq_self_eq_true, if_true, Bool.and_eq_true, decide_eq_true_eq]
        exact ⟨hT.1, by omega, hF.1⟩
      · have hpc : pc = false := by
          cases pc
          · rfl
          · simp [hcn] at hsp
        subst hpc
        exact hG k hk

theorem grp_start (r : Expr) (hw : wfA r = true) : startOk (hd (render (grp r))) = true := by
  rw [grp]
  cases r <;> simp_all [isAtom, render, hd, startOk, concatStart, signStart, wfA]

def FullOk (e : Expr) : Prop :=
  (canon false 1 (addFull e) = true ∧ strip (addFull e) = e) ∧
  (∀ pc k, k ≤ 15 → canon pc k (grp e) = true) ∧ strip (grp e) = e

theorem grp_ok (e : Expr) (h1 : canon false 1 (addFull e) = true) (h2 : strip (addFull e) = e)
    (hat : isAtom e = true → ∀ pc k, k ≤ 15 → canon pc k e = true) (hs : isAtom e = true → strip e = e) :
    (∀ pc k, k ≤ 15 → canon pc k (grp e) = true) ∧ strip (grp e) = e := by
  rw [grp]
  by_cases ha : isAtom e = true
  · simp only [ha, if_true]
    exact ⟨hat ha, hs ha⟩
  · simp only [ha, Bool.false_eq_true, if_false]
    refine ⟨?_, by simp only [strip, h2]⟩
    intro pc k hk
    simp only [canon, Bool.and_eq_true, decide_eq_true_eq]
    exact ⟨hk, h1⟩

theorem closed_grp (e : Expr) (hw : wfA e = true) : closed (grp e) = true := by
  rw [grp]
  cases e <;> simp_all [isAtom, closed, wfA]

/-- the fully parenthesised rendering of an lvalue is an lvalue that `primary()` reads -/
theorem lv_full (l : Expr) (hlv : l.isLValue = true) (h1 : canon false 1 (addFull l) = true) :
    (addFull l).isLValue = true ∧ canon false 14 (addFull l) = true := by
  cases l <;> simp [Expr.isLValue] at hlv
  · simp [addFull, Expr.isLValue, canon]
  · rw [addFull] at h1 ⊢
    simp only [canon, Bool.and_eq_true, decide_eq_true_eq] at h1 ⊢
    exact ⟨rfl, by omega, h1.2⟩
  · rw [addFull] at h1 ⊢
    simp only [canon, Bool.and_eq_true, decide_eq_true_eq] at h1 ⊢
    exact ⟨rfl, by omega, h1.2⟩

theorem full_ok (e : Expr) (hwf : wfA e = true) : FullOk e := by
  induction e with
  | num i =>
    refine ⟨⟨by simp [addFull, canon], by simp [addFull, strip]⟩, ?_⟩
    exact grp_ok _ (by simp [addFull, canon]) (by simp [addFull, strip]) (by intro _ pc k hk; simpa [canon] using hk) (by intro _; rfl)
  | var i =>
    refine ⟨⟨by simp [addFull, canon], by simp [addFull, strip]⟩, ?_⟩
    exact grp_ok _ (by simp [addFull, canon]) (by simp [addFull, strip]) (by intro _ pc k hk; simpa [canon] using hk) (by intro _; rfl)
  | str i =>
    refine ⟨⟨by simp [addFull, canon], by simp [addFull, strip]⟩, ?_⟩
    exact grp_ok _ (by simp [addFull, canon]) (by simp [addFull, strip]) (by intro _ pc k hk; simpa [canon] using hk) (by intro _; rfl)
  | unary op e ih =>
    simp only [wfA] at hwf
    have he := (ih hwf).2
    have h1 : canon false 1 (addFull (.unary op e)) = true := by
      rw [addFull]; simp only [canon, Bool.and_eq_true, decide_eq_true_eq]; exact ⟨by omega, he.1 false 11 (by omega)⟩
    have h2 : strip (addFull (.unary op e)) = .unary op e := by rw [addFull]; simp only [strip, he.2]
    exact ⟨⟨h1, h2⟩, grp_ok _ h1 h2 (by intro h; simp [isAtom] at h) (by intro h; simp [isAtom] at h)⟩
  | binary op l r ihl ihr =>
    simp only [wfA, Bool.and_eq_true] at hwf
    obtain ⟨⟨hs, hwl⟩, hwr⟩ := hwf
    have hl := (ihl hwl).2
    have hr := (ihr hwr).2
    have hsd := sides_le op
    have h1 : canon false 1 (addFull (.binary op l r)) = true := by
      rw [addFull]; simp only [canon, Bool.and_eq_true, decide_eq_true_eq]
      refine ⟨⟨⟨⟨hs, by have := one_le_prec (.binary op l r); simpa [Expr.prec] using this⟩, hl.1 false _ hsd.1⟩, hr.1 false _ hsd.2⟩, ?_⟩
      simp [catOk, grp_start r hwr]
    have h2 : strip (addFull (.binary op l r)) = .binary op l r := by rw [addFull]; simp only [strip, hl.2, hr.2]
    exact ⟨⟨h1, h2⟩, grp_ok _ h1 h2 (by intro h; simp [isAtom] at h) (by intro h; simp [isAtom] at h)⟩
  | cond c t f ihc iht ihf =>
    simp only [wfA, Bool.and_eq_true] at hwf
    obtain ⟨⟨hwc, hwt⟩, hwf'⟩ := hwf
    have hc := (ihc hwc).2
    have ht := (iht hwt).2
    have hf := (ihf hwf').2
    have h1 : canon false 1 (addFull (.cond c t f)) = true := by
      rw [addFull]; simp only [canon, Bool.and_eq_true, decide_eq_true_eq]
      exact ⟨⟨⟨by omega, hc.1 false 3 (by omega)⟩, ht.1 false 1 (by omega)⟩, hf.1 false 1 (by omega)⟩
    have h2 : strip (addFull (.cond c t f)) = .cond c t f := by rw [addFull]; simp only [strip, hc.2, ht.2, hf.2]
    exact ⟨⟨h1, h2⟩, grp_ok _ h1 h2 (by intro h; simp [isAtom] at h) (by intro h; simp [isAtom] at h)⟩
  | assign op l r ihl ihr =>
    simp only [wfA, Bool.and_eq_true] at hwf
    obtain ⟨⟨hlv, hwl⟩, hwr⟩ := hwf
    have hr := (ihr hwr).2
    have hl := lv_full l hlv (ihl hwl).1.1
    have h1 : canon false 1 (addFull (.assign op l r)) = true := by
      rw [addFull]; simp only [canon, Bool.and_eq_true, decide_eq_true_eq]
      exact ⟨⟨⟨by omega, hl.1⟩, hl.2⟩, hr.1 false 1 (by omega)⟩
    have h2 : strip (addFull (.assign op l r)) = .assign op l r := by
      rw [addFull]; simp only [strip, hr.2, (ihl hwl).1.2]
    exact ⟨⟨h1, h2⟩, grp_ok _ h1 h2 (by intro h; simp [isAtom] at h) (by intro h; simp [isAtom] at h)⟩
  | none => simp [wfA] at hwf
  | namedField e ih =>
    simp only [wfA] at hwf
    have he := (ih hwf).2
    have h1 : canon false 1 (addFull (.namedField e)) = true := by
      rw [addFull]; simp only [canon, Bool.and_eq_true, decide_eq_true_eq]; exact ⟨by omega, he.1 false 14 (by omega)⟩
    have h2 : strip (addFull (.namedField e)) = .namedField e := by rw [addFull]; simp only [strip, he.2]
    exact ⟨⟨h1, h2⟩, grp_ok _ h1 h2 (by intro h; simp [isAtom] at h) (by intro h; simp [isAtom] at h)⟩
  | group e _ => simp [wfA] at hwf
  | inArr e a ih =>
    simp only [wfA] at hwf
    have he := (ih hwf).2
    have h1 : canon false 1 (addFull (.inArr e a)) = true := by
      rw [addFull]; simp only [canon, Bool.and_eq_true, decide_eq_true_eq]; exact ⟨by omega, he.1 false 5 (by omega)⟩
    have h2 : strip (addFull (.inArr e a)) = .inArr e a := by rw [addFull]; simp only [strip, he.2]
    exact ⟨⟨h1, h2⟩, grp_ok _ h1 h2 (by intro h; simp [isAtom] at h) (by intro h; simp [isAtom] at h)⟩
  | incr p d e ih =>
    simp only [wfA, Bool.and_eq_true] at hwf
    have hl := lv_full e hwf.1 (ih hwf.2).1.1
    have hs := (ih hwf.2).1.2
    have h1 : canon false 1 (addFull (.incr p d e)) = true := by
      rw [addFull]
      cases p
      · cases e with
        | var a => simp [addFull, canon]
        | index a i =>
          have h14 := hl.2
          rw [addFull] at h14 ⊢
          simpa [canon] using h14
        | field e' =>
          have h14 := hl.2
          rw [addFull] at h14 ⊢
          simp only [wfA] at hwf
          simp only [canon, Bool.and_eq_true, decide_eq_true_eq] at h14 ⊢
          exact ⟨⟨by omega, closed_grp e' hwf.2⟩, h14.2⟩
        | _ => simp [Expr.isLValue] at hwf
      · simp only [canon, Bool.and_eq_true, decide_eq_true_eq]
        exact ⟨⟨by omega, hl.1⟩, hl.2⟩
    have h2 : strip (addFull (.incr p d e)) = .incr p d e := by rw [addFull]; simp only [strip, hs]
    exact ⟨⟨h1, h2⟩, grp_ok _ h1 h2 (by intro h; simp [isAtom] at h) (by intro h; simp [isAtom] at h)⟩
  | field e ih =>
    simp only [wfA] at hwf
    have he := (ih hwf).2
    have h1 : canon false 1 (addFull (.field e)) = true := by
      rw [addFull]; simp only [canon, Bool.and_eq_true, decide_eq_true_eq]; exact ⟨by omega, he.1 false 14 (by omega)⟩
    have h2 : strip (addFull (.field e)) = .field e := by rw [addFull]; simp only [strip, he.2]
    exact ⟨⟨h1, h2⟩, grp_ok _ h1 h2 (by intro h; simp [isAtom] at h) (by intro h; simp [isAtom] at h)⟩
  | index a i ih =>
    simp only [wfA] at hwf
    have he := (ih hwf).2
    have h1 : canon false 1 (addFull (.index a i)) = true := by
      rw [addFull]; simp only [canon, Bool.and_eq_true, decide_eq_true_eq]; exact ⟨by omega, he.1 false 1 (by omega)⟩
    have h2 : strip (addFull (.index a i)) = .index a i := by rw [addFull]; simp only [strip, he.2]
    exact ⟨⟨h1, h2⟩, grp_ok _ h1 h2 (by intro h; simp [isAtom] at h) (by intro h; simp [isAtom] at h)⟩
  | getline c t f ihc iht ihf =>
    simp only [wfA, Bool.and_eq_true, Bool.or_eq_true, beq_iff_eq] at hwf
    obtain ⟨⟨⟨hwc, hwt⟩, hwf'⟩, hcf⟩ := hwf
    have hT : (addFull t == Expr.none || ((addFull t).isLValue && canon false 14 (addFull t))) = true ∧ strip (addFull t) = t := by
      rcases hwt with rfl | hwt
      · simp [addFull, strip]
      · have h1 := (iht hwt.2).1
        have := lv_full t hwt.1 h1.1
        simp [this.1, this.2, h1.2]
    have hF : (grp f == Expr.none || canon false 14 (grp f)) = true ∧ strip (grp f) = f ∧ (f = .none → grp f = .none) := by
      rcases hwf' with rfl | hwf'
      · simp [grp, isAtom, strip]
      · have := (ihf hwf').2
        refine ⟨by simp [this.1 false 14 (by omega)], this.2, ?_⟩
        intro h; subst h; simp [wfA] at hwf'
    have hC : strip (grp c) = c ∧ (c = .none → grp c = .none) ∧ (c ≠ .none → grp c ≠ .none ∧ canon false 3 (grp c) = true) := by
      rcases hwc with rfl | hwc
      · simp [grp, isAtom, strip]
      · have := (ihc hwc).2
        refine ⟨this.2, ?_, ?_⟩
        · intro h; subst h; simp [wfA] at hwc
        · intro hne
          refine ⟨?_, this.1 false 3 (by omega)⟩
          intro h; rw [h] at this; exact hne (by simpa [strip] using this.2.symm)
    have h1 : canon false 1 (addFull (.getline c t f)) = true := by
      rw [addFull]
      by_cases hcn : c = .none
      · simp only [canon, hC.2.1 hcn, beq_self_eq_true, if_true, Bool.and_eq_true, decide_eq_true_eq]
        exact ⟨hT.1, by omega, hF.1⟩
      · have hfn : f = .none := by
          rcases hcf with h | h
          · exact absurd h hcn
          · exact h
        have := hC.2.2 hcn
        simp only [canon, beq_iff_eq, this.1, if_false, Bool.and_eq_true, decide_eq_true_eq, hF.2.2 hfn, Bool.not_false]
        exact ⟨hT.1, ⟨⟨trivial, Nat.le_refl _⟩, trivial⟩, this.2⟩
    have h2 : strip (addFull (.getline c t f)) = .getline c t f := by
      rw [addFull]; simp only [strip, hC.1, hT.2, hF.2.1]
    exact ⟨⟨h1, h2⟩, grp_ok _ h1 h2 (by intro h; simp [isAtom] at h) (by intro h; simp [isAtom] at h)⟩

/-! ### the concrete fuel of `parseExpr` suffices -/

theorem depth_lt_render (e : Expr) : ∀ pc k, canon pc k e = true → depth e < (render e).length := by
  induction e with
  | num i => intros; simp [depth, render]
  | var i => intros; simp [depth, render]
  | str i => intros; simp [depth, render]
  | group e ih =>
    intro pc k h
    simp only [canon, Bool.and_eq_true] at h
    have := ih _ _ h.2
    simp only [depth, render, List.length_cons, List.length_append, List.length_nil]; omega
  | unary op e ih =>
    intro pc k h
    simp only [canon, Bool.and_eq_true] at h
    have := ih _ _ h.2
    simp only [depth, render, List.length_cons]; omega
  | binary op l r ihl ihr =>
    intro pc k h
    simp only [canon, Bool.and_eq_true] at h
    have h1 := ihl _ _ h.1.1.2
    have h2 := ihr _ _ h.1.2
    simp only [depth, render, List.length_append]
    rcases Nat.le_total (depth l) (depth r) with hle | hle
    · rw [Nat.max_eq_right hle]; omega
    · rw [Nat.max_eq_left hle]; omega
  | cond c t f ihc iht ihf =>
    intro pc k h
    simp only [canon, Bool.and_eq_true] at h
    have h1 := ihc _ _ h.1.1.2
    have h2 := iht _ _ h.1.2
    have h3 := ihf _ _ h.2
    simp only [depth, render, List.length_append, List.length_cons]
    have : max (depth t) (depth f) ≤ depth t + depth f := Nat.max_le.mpr ⟨Nat.le_add_right _ _, Nat.le_add_left _ _⟩
    have : max (depth c) (max (depth t) (depth f)) ≤ depth c + max (depth t) (depth f) :=
      Nat.max_le.mpr ⟨Nat.le_add_right _ _, Nat.le_add_left _ _⟩
    omega
  | assign op l r ihl ihr =>
    intro pc k h
    simp only [canon, Bool.and_eq_true] at h
    have h1 := ihl _ _ h.1.2
    have h2 := ihr _ _ h.2
    simp only [depth, render, List.length_append, List.length_cons]
    rcases Nat.le_total (depth l) (depth r) with hle | hle
    · rw [Nat.max_eq_right hle]; omega
    · rw [Nat.max_eq_left hle]; omega
  | none => intro pc k h; simp [canon] at h
  | namedField e ih =>
    intro pc k h
    simp only [canon, Bool.and_eq_true] at h
    have := ih _ _ h.2
    simp only [depth, render, List.length_cons]; omega
  | inArr e a ih =>
    intro pc k h
    simp only [canon, Bool.and_eq_true] at h
    have := ih _ _ h.2
    simp only [depth, render, List.length_append, List.length_cons, List.length_nil]; omega
  | incr p d e ih =>
    intro pc k h
    have he : ∃ pc' k', canon pc' k' e = true := by
      cases p
      · cases e <;> simp [canon] at h
        · exact ⟨false, 1, by simp [canon]⟩
        · exact ⟨false, 1, by simp [canon, h.2]⟩
        · exact ⟨false, 1, by simp [canon, h.2]⟩
      · simp only [canon, Bool.and_eq_true] at h; exact ⟨false, 14, h.2⟩
    obtain ⟨pc', k', hc'⟩ := he
    have := ih _ _ hc'
    cases p <;> simp only [depth, render, if_true, Bool.false_eq_true, if_false, List.length_append, List.length_cons, List.length_nil] <;> omega
  | field e ih =>
    intro pc k h
    simp only [canon, Bool.and_eq_true] at h
    have := ih _ _ h.2
    simp only [depth, render, List.length_cons]; omega
  | index a i ih =>
    intro pc k h
    simp only [canon, Bool.and_eq_true] at h
    have := ih _ _ h.2
    simp only [depth, render, List.length_append, List.length_cons, List.length_nil]; omega
  | getline c t f ihc iht ihf =>
    intro pc k h
    simp only [canon, Bool.and_eq_true, Bool.or_eq_true, beq_iff_eq] at h
    have hL : (render (.getline c t f)).length =
        (if c = .none then 0 else (render c).length + 1) + 1 + (render t).length + (if f = .none then 0 else (render f).length + 1) := by
      simp only [render]
      split <;> split <;> simp [List.length_append] <;> omega
    have hdt : depth t ≤ (render t).length := by
      rcases h.1 with rfl | ht
      · simp [depth, render]
      · exact Nat.le_of_lt (iht _ _ ht.2)
    have hdc : depth c ≤ (if c = .none then 0 else (render c).length + 1) := by
      by_cases hcn : c = .none
      · subst hcn; simp [depth]
      · have h2 := h.2
        simp only [hcn, if_false, Bool.and_eq_true] at h2 ⊢
        have := ihc _ _ h2.2; omega
    have hdf : (if f = Expr.none then 0 else depth f + 1) ≤ (if f = .none then 0 else (render f).length + 1) := by
      by_cases hfn : f = .none
      · simp [hfn]
      · simp only [hfn, if_false]
        have h2 := h.2
        by_cases hcn : c = .none
        · simp only [hcn, if_true, Bool.and_eq_true, Bool.or_eq_true, beq_iff_eq, hfn, false_or] at h2
          have := ihf _ _ h2.2; omega
        · simp only [hcn, if_false, Bool.and_eq_true, beq_iff_eq] at h2
          exact absurd h2.1.1.1 hfn
    rw [hL]
    simp only [depth]
    have h3 : max (depth c) (max (depth t) (if f = Expr.none then 0 else depth f + 1)) ≤
        (if c = .none then 0 else (render c).length + 1) + (render t).length + (if f = .none then 0 else (render f).length + 1) := by
      apply Nat.max_le.mpr; refine ⟨by omega, Nat.max_le.mpr ⟨by omega, by omega⟩⟩
    omega

/-- `parseExpr` (fuel = number of tokens) reads a canonical tree back, whatever follows it (follow-set condition) -/
theorem parseExpr_canon (pc : Bool) (c : Expr) (rest : List Tok) (hc : canon pc 1 c = true) (hf : cl pc (hd rest) < 1) :
    parseExpr pc (render c ++ rest) = .ok (c, rest) := by
  have hd' := depth_lt_render c pc 1 hc
  unfold parseExpr parseExprN
  obtain ⟨n, hn⟩ : ∃ n, (render c ++ rest).length = n + 1 := ⟨(render c ++ rest).length - 1, by simp; omega⟩
  rw [hn]
  exact (parse_all c).1 n pc 1 rest (by simp at hn; omega) hc hf

theorem parseExprN_canon (m : Nat) (pc : Bool) (c : Expr) (rest : List Tok) (hm : depth c < m) (hc : canon pc 1 c = true)
    (hf : cl pc (hd rest) < 1) : parseExprN m pc (render c ++ rest) = .ok (c, rest) := by
  obtain ⟨n, rfl⟩ : ∃ n, m = n + 1 := ⟨m - 1, by omega⟩
  exact (parse_all c).1 n pc 1 rest (by omega) hc hf

/-- follow-set condition of a complete expression: the next token cannot continue it -/
def Follow (pc : Bool) (rest : List Tok) : Prop := cl pc (hd rest) = 0

theorem render_head_notStop (e : Expr) (pc : Bool) (k : Nat) (Y : List Tok) (hc : canon pc k e = true) :
    printStop (hd (render e ++ Y)) = false := by
  obtain ⟨h1, h2⟩ := hd_render_append e pc k Y hc
  rw [h1]
  revert h2
  cases hd (render e) <;> simp [isHead, printStop]

/-- `print A > D`, `print A >> D`, `print A | D`: the token after a complete print argument is the redirection -/
theorem parsePrint_redirect (a d : Expr) (t : Tok) (rest : List Tok) (ha : canon true 1 a = true) (hd' : canon false 1 d = true)
    (ht : isRedirect t = true) (hf : cl false (hd rest) < 1) :
    parsePrint (render a ++ t :: (render d ++ rest)) = .ok (a, some (t, d), rest) := by
  have h1 := depth_lt_render a true 1 ha
  have h2 := depth_lt_render d false 1 hd'
  have hct : cl true t = 0 := by cases t <;> simp_all [isRedirect, cl]; rename_i c; cases c <;> simp_all
  have hst : printStop t = true := by cases t <;> simp_all [isRedirect, printStop]; rename_i c; cases c <;> simp_all
  have e1 := parseExprN_canon (render a ++ t :: (render d ++ rest)).length true a (t :: (render d ++ rest))
    (by simp; omega) ha (by simp only [hd, hct]; omega)
  have e2 := parseExprN_canon (render a ++ t :: (render d ++ rest)).length false d rest (by simp; omega) hd' hf
  unfold parsePrint
  simp only [render_head_notStop a true 1 _ ha, Bool.false_eq_true, if_false, e1, hd_cons, hst, Bool.not_true, ht, if_true, e2]

end GoawkModel.C04

namespace GoawkModel.C04

theorem stageA_false (op : BOp) : op.stageA false = true := by cases op <;> rfl

/-- `wfA` now is the whole expression language of the model -/
theorem wfFull_wfA (e : Expr) (h : wfFull e = true) : wfA e = true := by
  induction e with
  | binary op l r ihl ihr =>
    simp only [wfFull, Bool.and_eq_true] at h
    simp [wfA, stageA_false, ihl h.1, ihr h.2]
  | getline c t f ihc iht ihf =>
    simp only [wfFull, wfA, Bool.and_eq_true, Bool.or_eq_true, beq_iff_eq] at h ⊢
    refine ⟨⟨⟨?_, ?_⟩, ?_⟩, h.2⟩
    · exact h.1.1.1.imp id ihc
    · exact h.1.1.2.imp id (fun x => ⟨x.1, iht x.2⟩)
    · exact h.1.2.imp id ihf
  | _ => simp_all [wfFull, wfA]

theorem optLValue_none (b : Back) (rest : List Tok) (h : cl false (hd rest) = 0) : optLValue b rest = .ok Option.none := by
  cases rest with
  | nil => rfl
  | cons t r => cases t <;> first | rfl | (simp [hd, cl] at h)

/-- `C | getline`: the whole (concatenation-level or tighter, up to `||`) expression `C` is the command -/
theorem parse_pipe_getline (c : Expr) (rest : List Tok) (hc : canon false 3 c = true) (hf : cl false (hd rest) = 0) :
    parseExpr false (render c ++ .pipe :: .getline :: rest) = .ok (.getline c .none .none, rest) := by
  have hd' := depth_lt_render c false 3 hc
  unfold parseExpr parseExprN
  obtain ⟨n, hn⟩ : ∃ n, (render c ++ .pipe :: .getline :: rest).length = n + 1 :=
    ⟨(render c ++ .pipe :: .getline :: rest).length - 1, by simp; omega⟩
  rw [hn]
  have h3 := (parse_all c).1 n false 3 (.pipe :: .getline :: rest) (by simp at hn; omega) hc (by simp [hd, cl])
  have hf' : ∀ k, 0 < k → cl false (hd rest) < k := by intro k hk; omega
  have hcp : ∀ (b : Back) (e : Expr) (X : List Tok), condT b false e (.pipe :: X) = .ok (e, .pipe :: X) := fun _ _ _ => rfl
  simp only [lv] at h3 ⊢
  simp only [assignP, Bool.false_eq_true, if_false, getlineP, condP, h3, bindR_ok, hcp, pendingPrimary,
    optLValue_none _ rest hf, postT_pass _ rest false (hf' _ (by omega)), powT_pass _ _ rest false (hf' _ (by omega)),
    mulT_pass _ _ rest false (hf' _ (by omega)), addT_pass _ _ rest false (hf' _ (by omega)),
    concatT_pass _ _ rest false (hf' _ (by omega)), compareT_pass _ false _ rest (hf' _ (by omega)),
    matchT_pass _ false _ rest (hf' _ (by omega)), inT_pass false _ rest (hf' _ (by omega)),
    andT_pass _ false _ rest (hf' _ (by omega)), orT_pass _ false _ rest (hf' _ (by omega)),
    condT_pass _ false _ rest (hf' _ (by omega)), assignT_pass _ false _ rest (hf' _ (by omega))]

end GoawkModel.C04
