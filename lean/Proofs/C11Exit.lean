import Proofs.C11Lift
import Proofs.C11Input
/-! exit status = the value of the last `exit n` executed (an `exit` without value keeps it) — as an invariant; and the
unwinding lemmas for control signals. -/
namespace GoawkModel.C11

/-- value of the newest `exit n` marker in the trace (newest first); 0 when there is none -/
def lastExit : List Event → Nat
  | [] => 0
  | .ctl 3 (some n) :: _ => n
  | _ :: rest => lastExit rest

def StatusInv (s : St) : Prop := s.status = lastExit s.out

theorem lastExit_cons (e : Event) (rest : List Event) (he : ∀ n, e ≠ .ctl 3 (some n)) :
    lastExit (e :: rest) = lastExit rest := by
  conv => lhs; unfold lastExit
  split
  · rename_i heq
    cases heq
  · rename_i heq
    cases heq
    exact absurd rfl (he _)
  · rename_i heq
    cases heq
    rfl

theorem statusInv_ev {s : St} (h : StatusInv s) (e : Event) (he : ∀ n, e ≠ .ctl 3 (some n)) : StatusInv (s.emitEv e) := by
  unfold StatusInv St.emitEv at *
  simp only
  rw [lastExit_cons e s.out he]
  exact h

theorem statusInv_of_fields {s s1 : St} (h : StatusInv s) (h1 : s1.status = s.status) (h2 : s1.out = s.out) : StatusInv s1 := by
  unfold StatusInv; rw [h1, h2]; exact h

theorem statusInv_stable : Stable StatusInv where
  emit s tag h := statusInv_ev (s := s) h _ (by intro n; simp)
  ev s e he h := statusInv_ev h e (by intro n hn; subst hn; simp [Event.isPlain] at he)
  exitSome s n h := by simp [StatusInv, St.emitEv, St.setStatus, lastExit]
  gl s h := by
    have hf := nextLine_frame s
    unfold doGetline
    rcases hn : nextLine s with ⟨t, s1⟩
    rw [hn] at hf
    obtain ⟨-, -, -, h4, -, h6, -⟩ := hf
    simp only at h4 h6
    cases t <;> exact statusInv_ev (statusInv_of_fields h (by first | exact h6 | (show s1.status = s.status; exact h6))
      (by first | exact h4 | (show s1.out = s.out; exact h4))) _ (by intro n; simp)
  glv s v h := by
    have hf := nextLine_frame s
    unfold doGetlineVar
    rcases hn : nextLine s with ⟨t, s1⟩
    rw [hn] at hf
    obtain ⟨-, -, -, h4, -, h6, -⟩ := hf
    simp only at h4 h6
    cases t <;> exact statusInv_ev (statusInv_of_fields h (by first | exact h6 | (show s1.status = s.status; exact h6))
      (by first | exact h4 | (show s1.out = s.out; exact h4))) _ (by intro n; simp)
  glf s f h := by
    have hf := readStream_fields s f
    unfold doGetlineFile
    rcases hr : readStream s f with ⟨ret, o, s1⟩
    rw [hr] at hf
    obtain ⟨-, -, -, -, -, -, h7, -, -, -, -, h12, -⟩ := hf
    simp only at h7 h12
    cases o <;> exact statusInv_ev (statusInv_of_fields h (by show s1.status = s.status; exact h12) (by show s1.out = s.out; exact h7)) _
      (by intro n; simp)
  glvf s v f h := by
    have hf := readStream_fields s f
    unfold doGetlineVarFile
    rcases hr : readStream s f with ⟨ret, o, s1⟩
    rw [hr] at hf
    obtain ⟨-, -, -, -, -, -, h7, -, -, -, -, h12, -⟩ := hf
    simp only at h7 h12
    cases o <;> exact statusInv_ev (statusInv_of_fields h (by show s1.status = s.status; exact h12) (by show s1.out = s.out; exact h7)) _
      (by intro n; simp)
  argv s i v h := statusInv_of_fields h rfl rfl
  argc s n h := statusInv_of_fields h rfl rfl
  close s f h := statusInv_of_fields h rfl rfl
  fname s v h := statusInv_of_fields h rfl rfl
  fsep s v h := statusInv_of_fields h rfl rfl
  enter s h := statusInv_of_fields h rfl rfl
  leave s h := statusInv_of_fields h rfl rfl
  take s r s1 h hn := by
    have hf := nextLine_frame s
    rw [hn] at hf
    obtain ⟨-, -, -, h4, -, h6, -⟩ := hf
    exact statusInv_of_fields h (by show s1.status = s.status; exact h6) (by show s1.out = s.out; exact h4)
  eof s s1 h hn := by
    have hf := nextLine_frame s
    rw [hn] at hf
    obtain ⟨-, -, -, h4, -, h6, -⟩ := hf
    exact statusInv_of_fields h h6 h4
  err s s1 h hn := by
    have hf := nextLine_frame s
    rw [hn] at hf
    obtain ⟨-, -, -, h4, -, h6, -⟩ := hf
    exact statusInv_of_fields h h6 h4
  nextfile s h := statusInv_of_fields h rfl rfl
  visit s v h := statusInv_of_fields h rfl rfl

/-! ## unwinding -/

/-- once an op list has raised a signal, nothing that follows it runs -/
theorem execOps_abort : ∀ (os more : List Op) (s : St) (sig : Sig) (s1 : St),
    execOps os s = (sig, s1) → sig ≠ .normal → execOps (os ++ more) s = (sig, s1)
  | [], _, s, sig, s1, h, hs => by simp [execOps] at h; exact absurd h.1.symm hs
  | o :: os, more, s, sig, s1, h, hs => by
    rw [List.cons_append]
    unfold execOps at h ⊢
    rcases ho : execOp o s with ⟨sg, s2⟩
    rw [ho] at h
    cases sg
    · exact execOps_abort os more s2 sig s1 h hs
    all_goals exact h

/-- a loop stops at the first iteration that raises a signal -/
theorem loop_abort (n : Nat) (body : List Op) (s : St) (sig : Sig) (s1 : St)
    (h : execOps body s = (sig, s1)) (hs : sig ≠ .normal) : execOp (.loop (n + 1) body) s = (sig, s1) := by
  simp only [execOp, iter, h]
  cases sig <;> first | rfl | exact absurd rfl hs

end GoawkModel.C11
