import GoawkModel.C18Idiom
/-! Lemmas for the for-in idiom model (C18): erasure simulation, counter log, the loop variable, the delete-all idiom. Core Lean only. -/
namespace GoawkModel.C18.Idiom
set_option linter.unusedSimpArgs false
set_option linter.unusedVariables false

theorem vis_eq_iff (σ τ : St) : vis σ = vis τ ↔
    σ.k = τ.k ∧ σ.x = τ.x ∧ σ.a = τ.a ∧ σ.b = τ.b ∧ σ.n = τ.n ∧ σ.m = τ.m ∧ σ.s = τ.s := by
  cases σ; cases τ; simp [vis]

theorem vis_setk (σ τ : St) (h : vis σ = vis τ) (key : Key) : vis { σ with k := some key } = vis { τ with k := some key } := by
  rw [vis_eq_iff] at *; simp; exact ⟨h.2.1, h.2.2.1, h.2.2.2.1, h.2.2.2.2.1, h.2.2.2.2.2.1, h.2.2.2.2.2.2⟩

theorem step_cover (c : Nat) (σ : St) : (step (.cover c) σ).2 = .normal ∧ vis (step (.cover c) σ).1 = vis σ := by
  simp [step, vis]

theorem step_sim (s : BSt) (hs : isCover s = false) (σ τ : St) (h : vis σ = vis τ) :
    (step s σ).2 = (step s τ).2 ∧ vis (step s σ).1 = vis (step s τ).1 := by
  rw [vis_eq_iff] at h
  obtain ⟨h1, h2, h3, h4, h5, h6, h7⟩ := h
  cases s <;> simp [step, vis_eq_iff, isCover, h1, h2, h3, h4, h5, h6, h7] at *

/-- the run of a body and the run of the body without its counters: same signal, same visible state -/
theorem runBody_erase : ∀ (body : List BSt) (σ τ : St), vis σ = vis τ →
    (runBody body σ).2 = (runBody (eraseB body) τ).2 ∧ vis (runBody body σ).1 = vis (runBody (eraseB body) τ).1
  | [], σ, τ, h => by simp [runBody, eraseB, h]
  | s :: rest, σ, τ, h => by
    cases hs : isCover s with
    | true =>
      cases s <;> simp [isCover] at hs
      rename_i c
      have hc := step_cover c σ
      have : eraseB (BSt.cover c :: rest) = eraseB rest := by simp [eraseB, isCover]
      rw [this]
      have hr : runBody (BSt.cover c :: rest) σ = runBody rest (step (.cover c) σ).1 := by
        simp [runBody, step]
      rw [hr]
      exact runBody_erase rest _ τ (hc.2.trans h)
    | false =>
      have he : eraseB (s :: rest) = s :: eraseB rest := by simp [eraseB, hs]
      rw [he]
      obtain ⟨g1, g2⟩ := step_sim s hs σ τ h
      unfold runBody
      cases h1 : step s σ with
      | mk σ1 sg1 =>
        cases h2 : step s τ with
        | mk τ1 sg2 =>
          rw [h1, h2] at g1 g2
          simp only at g1 g2
          subst g1
          cases sg1 with
          | normal => simpa using runBody_erase rest σ1 τ1 g2
          | brk => simpa using g2
          | cont => simpa using g2

theorem forIn_erase (body : List BSt) : ∀ (ks : List Key) (σ τ : St), vis σ = vis τ →
    vis (forIn body ks σ) = vis (forIn (eraseB body) ks τ)
  | [], σ, τ, h => by simpa [forIn] using h
  | key :: rest, σ, τ, h => by
    have ha : σ.a = τ.a := ((vis_eq_iff σ τ).1 h).2.2.1
    unfold forIn
    by_cases hk : key ∈ σ.a
    · have hk' : key ∈ τ.a := ha ▸ hk
      simp only [hk, hk', if_true]
      obtain ⟨g1, g2⟩ := runBody_erase body _ _ (vis_setk σ τ h key)
      cases h1 : runBody body { σ with k := some key } with
      | mk σ1 sg1 =>
        cases h2 : runBody (eraseB body) { τ with k := some key } with
        | mk τ1 sg2 =>
          rw [h1, h2] at g1 g2
          simp only at g1 g2
          subst g1
          cases sg1 with
          | brk => simpa using g2
          | normal => simpa using forIn_erase body rest σ1 τ1 g2
          | cont => simpa using forIn_erase body rest σ1 τ1 g2
    · have hk' : key ∉ τ.a := ha ▸ hk
      simp only [hk, hk', if_false]
      exact forIn_erase body rest σ τ h

theorem iterations_erase (body : List BSt) : ∀ (ks : List Key) (σ τ : St), vis σ = vis τ →
    iterations body ks σ = iterations (eraseB body) ks τ
  | [], σ, τ, h => by simp [iterations]
  | key :: rest, σ, τ, h => by
    have ha : σ.a = τ.a := ((vis_eq_iff σ τ).1 h).2.2.1
    unfold iterations
    by_cases hk : key ∈ σ.a
    · have hk' : key ∈ τ.a := ha ▸ hk
      simp only [hk, hk', if_true]
      obtain ⟨g1, g2⟩ := runBody_erase body _ _ (vis_setk σ τ h key)
      cases h1 : runBody body { σ with k := some key } with
      | mk σ1 sg1 =>
        cases h2 : runBody (eraseB body) { τ with k := some key } with
        | mk τ1 sg2 =>
          rw [h1, h2] at g1 g2
          simp only at g1 g2
          subst g1
          cases sg1 with
          | brk => rfl
          | normal => simpa using iterations_erase body rest σ1 τ1 g2
          | cont => simpa using iterations_erase body rest σ1 τ1 g2
    · have hk' : key ∉ τ.a := ha ▸ hk
      simp only [hk, hk', if_false]
      exact iterations_erase body rest σ τ h

/-! ### the counter log -/

def noCover (body : List BSt) : Bool := body.all (fun s => !isCover s)

theorem eraseB_noCover (body : List BSt) (h : noCover body = true) : eraseB body = body := by
  unfold eraseB
  apply List.filter_eq_self.2
  intro s hs
  simp [noCover] at h
  simpa using h s hs

theorem step_cover_log (s : BSt) (hs : isCover s = false) (σ : St) : (step s σ).1.cover = σ.cover := by
  cases s <;> simp [step, isCover] at *

theorem runBody_cover_log : ∀ (body : List BSt) (σ : St), noCover body = true → (runBody body σ).1.cover = σ.cover
  | [], σ, _ => by simp [runBody]
  | s :: rest, σ, h => by
    simp [noCover] at h
    have hs : isCover s = false := by simpa using h.1
    have hr : noCover rest = true := by simpa [noCover] using h.2
    have h0 := step_cover_log s hs σ
    unfold runBody
    cases h1 : step s σ with
    | mk σ1 sg1 =>
      rw [h1] at h0
      cases sg1 with
      | normal => exact (runBody_cover_log rest σ1 hr).trans h0
      | brk => simpa using h0
      | cont => simpa using h0

theorem runBody_cover_cons (c : Nat) (body : List BSt) (σ : St) :
    runBody (.cover c :: body) σ = runBody body { σ with cover := σ.cover ++ [c] } := by
  simp [runBody, step]

/-- with the counter `c` at the head of a counter-free body, the log grows by one `c` per iteration -/
theorem forIn_cover_log (c : Nat) (body : List BSt) (hb : noCover body = true) : ∀ (ks : List Key) (σ : St),
    (forIn (.cover c :: body) ks σ).cover = σ.cover ++ List.replicate (iterations (.cover c :: body) ks σ) c
  | [], σ => by simp [forIn, iterations]
  | key :: rest, σ => by
    unfold forIn iterations
    by_cases hk : key ∈ σ.a
    · simp only [hk, if_true]
      rw [runBody_cover_cons]
      have hl := runBody_cover_log body { σ with k := some key, cover := σ.cover ++ [c] } hb
      cases h1 : runBody body { σ with k := some key, cover := σ.cover ++ [c] } with
      | mk σ1 sg1 =>
        rw [h1] at hl
        simp only at hl
        cases sg1 with
        | brk => simp [hl]
        | normal =>
          simp only
          rw [forIn_cover_log c body hb rest σ1, hl, Nat.add_comm, List.replicate_succ]
          simp
        | cont =>
          simp only
          rw [forIn_cover_log c body hb rest σ1, hl, Nat.add_comm, List.replicate_succ]
          simp
    · simp only [hk, if_false]
      exact forIn_cover_log c body hb rest σ

/-! ### the loop variable -/

theorem step_k (s : BSt) (σ : St) : (step s σ).1.k = σ.k := by
  cases s <;> simp [step]

theorem runBody_k : ∀ (body : List BSt) (σ : St), (runBody body σ).1.k = σ.k
  | [], σ => by simp [runBody]
  | s :: rest, σ => by
    have h0 := step_k s σ
    unfold runBody
    cases h1 : step s σ with
    | mk σ1 sg1 =>
      rw [h1] at h0
      cases sg1 with
      | normal => exact (runBody_k rest σ1).trans h0
      | brk => simpa using h0
      | cont => simpa using h0

theorem forIn_k_weak (body : List BSt) : ∀ (ks : List Key) (σ : St),
    (forIn body ks σ).k = σ.k ∨ ∃ key ∈ ks, (forIn body ks σ).k = some key
  | [], σ => by simp [forIn]
  | key :: rest, σ => by
    unfold forIn
    by_cases hk : key ∈ σ.a
    · simp only [hk, if_true]
      have hr := runBody_k body { σ with k := some key }
      cases h1 : runBody body { σ with k := some key } with
      | mk σ1 sg1 =>
        rw [h1] at hr
        simp only at hr
        have fin : (σ1.k = some key) := hr
        cases sg1 with
        | brk => exact Or.inr ⟨key, by simp, fin⟩
        | normal =>
          simp only
          rcases forIn_k_weak body rest σ1 with h | ⟨k2, hk2, h⟩
          · exact Or.inr ⟨key, by simp, h.trans fin⟩
          · exact Or.inr ⟨k2, by simp [hk2], h⟩
        | cont =>
          simp only
          rcases forIn_k_weak body rest σ1 with h | ⟨k2, hk2, h⟩
          · exact Or.inr ⟨key, by simp, h.trans fin⟩
          · exact Or.inr ⟨k2, by simp [hk2], h⟩
    · simp only [hk, if_false]
      rcases forIn_k_weak body rest σ with h | ⟨k2, hk2, h⟩
      · exact Or.inl h
      · exact Or.inr ⟨k2, by simp [hk2], h⟩

theorem forIn_k_of_nonempty (body : List BSt) : ∀ (ks : List Key) (σ : St), (∃ key ∈ ks, key ∈ σ.a) →
    ∃ key ∈ ks, (forIn body ks σ).k = some key
  | [], σ, h => by simp at h
  | key :: rest, σ, h => by
    unfold forIn
    by_cases hk : key ∈ σ.a
    · simp only [hk, if_true]
      have hr := runBody_k body { σ with k := some key }
      cases h1 : runBody body { σ with k := some key } with
      | mk σ1 sg1 =>
        rw [h1] at hr
        simp only at hr
        have fin : (σ1.k = some key) := hr
        cases sg1 with
        | brk => exact ⟨key, by simp, fin⟩
        | normal =>
          simp only
          rcases forIn_k_weak body rest σ1 with h | ⟨k2, hk2, h⟩
          · exact ⟨key, by simp, h.trans fin⟩
          · exact ⟨k2, by simp [hk2], h⟩
        | cont =>
          simp only
          rcases forIn_k_weak body rest σ1 with h | ⟨k2, hk2, h⟩
          · exact ⟨key, by simp, h.trans fin⟩
          · exact ⟨k2, by simp [hk2], h⟩
    · simp only [hk, if_false]
      obtain ⟨k0, hk0, hin⟩ := h
      have : k0 ∈ rest := by
        rcases List.mem_cons.1 hk0 with rfl | h
        · exact absurd hin hk
        · exact h
      obtain ⟨k2, hk2, h⟩ := forIn_k_of_nonempty body rest σ ⟨k0, this, hin⟩
      exact ⟨k2, by simp [hk2], h⟩

theorem forIn_untouched (body : List BSt) : ∀ (ks : List Key) (σ : St), (∀ key ∈ ks, key ∉ σ.a) → forIn body ks σ = σ
  | [], σ, _ => by simp [forIn]
  | key :: rest, σ, h => by
    unfold forIn
    have hk : key ∉ σ.a := h key (by simp)
    simp only [hk, if_false]
    exact forIn_untouched body rest σ (fun k hk => h k (by simp [hk]))

/-! ### `for (k in A) delete A[k]` -/

theorem runBody_delOwn (σ : St) : runBody [.delOwn] σ = ({ σ with a := del σ.k σ.a }, .normal) := by
  simp [runBody, step]

theorem forIn_delOwn_empties : ∀ (ks : List Key) (σ : St), (∀ key ∈ σ.a, key ∈ ks) → (forIn [.delOwn] ks σ).a = []
  | [], σ, h => by
    simp only [forIn]
    cases ha : σ.a with
    | nil => rfl
    | cons y ys => have := h y (by simp [ha]); simp at this
  | key :: rest, σ, h => by
    unfold forIn
    by_cases hk : key ∈ σ.a
    · simp only [hk, if_true, runBody_delOwn]
      apply forIn_delOwn_empties rest
      intro y hy
      simp [del] at hy
      rcases List.mem_cons.1 (h y hy.1) with rfl | h2
      · exact absurd rfl hy.2
      · exact h2
    · simp only [hk, if_false]
      apply forIn_delOwn_empties rest
      intro y hy
      rcases List.mem_cons.1 (h y hy) with rfl | h2
      · exact absurd hy hk
      · exact h2

/-- all fields but the walked array -/
def restEq (σ τ : St) : Prop :=
  σ.k = τ.k ∧ σ.x = τ.x ∧ σ.b = τ.b ∧ σ.n = τ.n ∧ σ.m = τ.m ∧ σ.s = τ.s ∧ σ.cover = τ.cover

theorem emptyLoop_vs_delOwn : ∀ (ks : List Key) (σ τ : St), ks.Nodup → restEq σ τ → (∀ key ∈ ks, key ∈ σ.a ↔ key ∈ τ.a) →
    restEq (forIn [] ks σ) (forIn [.delOwn] ks τ)
  | [], σ, τ, _, h, _ => by simpa [forIn] using h
  | key :: rest, σ, τ, hnd, h, hm => by
    obtain ⟨hnot, hnd'⟩ := List.nodup_cons.1 hnd
    unfold forIn
    by_cases hk : key ∈ σ.a
    · have hk' : key ∈ τ.a := (hm key (by simp)).1 hk
      simp only [hk, hk', if_true, runBody_delOwn, runBody]
      apply emptyLoop_vs_delOwn rest _ _ hnd'
      · obtain ⟨h1, h2, h3, h4, h5, h6, h7⟩ := h
        exact ⟨rfl, h2, h3, h4, h5, h6, h7⟩
      · intro y hy
        have hne : y ≠ key := fun e => hnot (e ▸ hy)
        simp [del, hne]
        exact hm y (by simp [hy])
    · have hk' : key ∉ τ.a := fun c => hk ((hm key (by simp)).2 c)
      simp only [hk, hk', if_false]
      exact emptyLoop_vs_delOwn rest σ τ hnd' h (fun y hy => hm y (by simp [hy]))

end GoawkModel.C18.Idiom
