import GoawkModel.C16Spec
/-! The call-graph order of the resolver does not depend on Go's map iteration order: every map is iterated through
`sortedKeys`, and sorting forgets the order of its input. -/
namespace GoawkModel.C16
set_option linter.unusedSimpArgs false

theorem insertSorted_comm (a b : Nat) : ∀ l : List Nat, insertSorted a (insertSorted b l) = insertSorted b (insertSorted a l) := by
  intro l
  induction l with
  | nil =>
    simp only [insertSorted]
    by_cases h1 : a ≤ b <;> by_cases h2 : b ≤ a <;> simp [h1, h2, insertSorted]
    · omega
    · omega
  | cons x xs ih =>
    simp only [insertSorted]
    by_cases hbx : b ≤ x <;> by_cases hax : a ≤ x <;> simp only [hbx, hax, if_true, if_false, insertSorted]
    · by_cases h1 : a ≤ b <;> by_cases h2 : b ≤ a <;> simp [h1, h2, hbx, hax]
      · omega
      · omega
    · have : ¬ a ≤ b := by omega
      simp [this, hbx, hax]
    · have : ¬ b ≤ a := by omega
      simp [this, hbx, hax]
    · simp [hbx, hax, ih]

theorem sortNames_cons (a : Nat) (l : List Nat) : sortNames (a :: l) = insertSorted a (sortNames l) := rfl

/-- sorting forgets the order of the input -/
theorem sortNames_perm {l₁ l₂ : List Nat} (h : l₁.Perm l₂) : sortNames l₁ = sortNames l₂ := by
  induction h with
  | nil => rfl
  | cons x _ ih => simp only [sortNames_cons, ih]
  | swap x y l => simp only [sortNames_cons]; exact insertSorted_comm y x _
  | trans _ _ ih1 ih2 => exact ih1.trans ih2

/-- an iteration order of map keys: any function that returns a permutation of the key list -/
def IsIter (iter : List Name → List Name) : Prop := ∀ l, (iter l).Perm l

theorem sort_iter {i₁ i₂ : List Name → List Name} (h₁ : IsIter i₁) (h₂ : IsIter i₂) (l : List Name) :
    sortNames (i₁ l) = sortNames (i₂ l) :=
  sortNames_perm ((h₁ l).trans (h₂ l).symm)

theorem visit_iter {i₁ i₂ : List Name → List Name} (h₁ : IsIter i₁) (h₂ : IsIter i₂) (g : List (Name × List Name)) :
    ∀ fuel : Nat, (∀ n st, visit i₁ g fuel n st = visit i₂ g fuel n st) ∧
      (∀ ns st, visitAll i₁ g fuel ns st = visitAll i₂ g fuel ns st) := by
  intro fuel
  induction fuel with
  | zero => exact ⟨fun n st => by simp [visit], fun ns st => by simp [visitAll]⟩
  | succ fuel ih =>
    constructor
    · intro n st
      simp only [visit]
      rw [sort_iter h₁ h₂, ih.2]
    · intro ns st
      cases ns with
      | nil => simp [visitAll]
      | cons m ms => simp only [visitAll]; rw [ih.1, ih.2]

theorem topoSort_iter {i₁ i₂ : List Name → List Name} (h₁ : IsIter i₁) (h₂ : IsIter i₂) (g : List (Name × List Name)) :
    topoSort i₁ g = topoSort i₂ g := by
  simp only [topoSort]
  rw [sort_iter h₁ h₂, (visit_iter h₁ h₂ g _).2]

theorem goOrder_iter {i₁ i₂ : List Name → List Name} (h₁ : IsIter i₁) (h₂ : IsIter i₂) (p : Program) :
    goOrder i₁ p = goOrder i₂ p := by
  simp only [goOrder]
  rw [topoSort_iter h₁ h₂]

/-- every function is walked: the topological order is completed with the functions it does not contain -/
theorem goOrder_covers (iter : List Name → List Name) (p : Program) : Covers (goOrder iter p) p := by
  intro f hf
  simp only [goOrder]
  by_cases h : (topoSort iter (callGraph p)).contains f.name = true
  · exact List.mem_append_left _ (List.contains_iff_mem.mp h)
  · apply List.mem_append_right
    apply List.mem_filter.mpr
    refine ⟨List.mem_map.mpr ⟨f, hf, rfl⟩, ?_⟩
    cases hc : (topoSort iter (callGraph p)).contains f.name with
    | true => exact absurd hc h
    | false => rfl

end GoawkModel.C16
