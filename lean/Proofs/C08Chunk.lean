import Proofs.C08Prefix
import GoawkModel.C08Scan
/-! C08: chunk independence of the CSV scanner model. Core Lean only. -/
namespace GoawkModel.C08
open GoawkModel

/-! ### lines -/

theorem dropLine_length_le : ∀ d : Bytes, (dropLine d).length ≤ d.length := by
  intro d
  induction d with
  | nil => simp [dropLine]
  | cons b d ih => simp only [dropLine]; split <;> simp <;> omega

theorem dropLine_length_lt {d : Bytes} (h : d ≠ []) : (dropLine d).length < d.length := by
  cases d with
  | nil => exact absurd rfl h
  | cons b d =>
    simp only [dropLine]
    have := dropLine_length_le d
    split <;> simp <;> omega

theorem dropLine_append {a : Bytes} (b : Bytes) (h : 10 ∈ a) : dropLine (a ++ b) = dropLine a ++ b := by
  induction a with
  | nil => simp at h
  | cons x a ih =>
    simp only [List.cons_append, dropLine]
    by_cases hx : x = 10
    · simp [hx]
    · have : 10 ∈ a := by
        rcases List.mem_cons.mp h with h | h
        · exact absurd h.symm hx
        · exact h
      simp [hx, ih this]

theorem dropLine_append_no {a : Bytes} (b : Bytes) (h : 10 ∉ a) : dropLine (a ++ b) = dropLine b := by
  induction a with
  | nil => simp
  | cons x a ih =>
    simp at h
    have hx : x ≠ 10 := fun e => h.1 e.symm
    simp [dropLine, hx, ih h.2]

theorem skipLines_length (cfg : Cfg) : ∀ (n : Nat) (d : Bytes), (skipLines cfg n d).length ≤ d.length := by
  intro n
  induction n with
  | zero => intro d; simp [skipLines]
  | succ n ih =>
    intro d
    simp only [skipLines]
    split
    · exact Nat.le_refl _
    · split
      · exact Nat.le_trans (ih _) (dropLine_length_le d)
      · split
        · exact Nat.le_trans (ih _) (by simp)
        · split
          · exact Nat.le_trans (ih _) (by simp; omega)
          · exact Nat.le_refl _

/-- whether `c` (free of line feeds) starts `a ++ b` is decided inside `a` when `a` contains a line feed -/
theorem prefix_with_newline : ∀ (a c b : Bytes), 10 ∉ c → 10 ∈ a → c.isPrefixOf (a ++ b) = c.isPrefixOf a := by
  intro a
  induction a with
  | nil => intro c b _ h; simp at h
  | cons x a ih =>
    intro c b hc ha
    cases c with
    | nil => simp [List.isPrefixOf]
    | cons y c' =>
      simp at hc
      simp only [List.cons_append, List.isPrefixOf]
      by_cases hx : x = 10
      · have : (y == x) = false := by
          subst hx
          simp only [beq_eq_false_iff_ne, ne_eq]
          exact fun e => hc.1 e.symm
        simp [this]
      · have : 10 ∈ a := by
          rcases List.mem_cons.mp ha with h | h
          · exact absurd h.symm hx
          · exact h
        rw [ih c' b hc.2 this]

theorem skipLines_ne_longer (cfg : Cfg) (n : Nat) {z w : Bytes} (h : z.length < w.length) : skipLines cfg n z ≠ w := by
  intro he
  have := skipLines_length cfg n z
  rw [he] at this
  omega

theorem mem_of_getLast? {l : Bytes} {b : UInt8} (h : l.getLast? = some b) : b ∈ l := List.mem_of_getLast? h

/-- The skipping of comment and empty lines in front of a record whose bytes `p` end in `\n` does not depend on what
follows the record. -/
theorem skipLines_stable (cfg : Cfg) (hc : 10 ∉ cfg.comment) (p r' : Bytes) (hp : p.getLast? = some 10) :
    ∀ (n : Nat) (s : Bytes), s.length < n → skipLines cfg n (s ++ (p ++ r')) = p ++ r' →
      ∀ (y : Bytes) (m : Nat), s.length < m → skipLines cfg m (s ++ (p ++ y)) = p ++ y := by
  have h10p : 10 ∈ p := mem_of_getLast? hp
  have hpn : p ≠ [] := by intro h; simp [h] at hp
  intro n
  induction n with
  | zero => intro s hs; omega
  | succ n ih =>
    intro s hs h y m hm
    cases m with
    | zero => omega
    | succ m' =>
    cases s with
    | nil =>
      simp only [List.nil_append] at h ⊢
      have hP : p ++ r' ≠ [] := by simp [hpn]
      have hY : p ++ y ≠ [] := by simp [hpn]
      simp only [skipLines, hP, if_false] at h
      simp only [skipLines, hY, if_false]
      have hpre : cfg.comment.isPrefixOf (p ++ y) = cfg.comment.isPrefixOf (p ++ r') := by
        rw [prefix_with_newline p _ y hc h10p, prefix_with_newline p _ r' hc h10p]
      have hlt : ∀ z : Bytes, z.length < (p ++ r').length → skipLines cfg n z ≠ p ++ r' := by
        intro z hz he
        have := skipLines_length cfg n z
        rw [he] at this
        omega
      by_cases c1 : cfg.comment ≠ [] ∧ cfg.comment.isPrefixOf (p ++ r') = true
      · rw [if_pos c1] at h
        exact absurd h (hlt _ (dropLine_length_lt hP))
      · have c1' : ¬ (cfg.comment ≠ [] ∧ cfg.comment.isPrefixOf (p ++ y) = true) := by rw [hpre]; exact c1
        rw [if_neg c1] at h
        rw [if_neg c1']
        cases p with
        | nil => exact absurd rfl hpn
        | cons b p1 =>
          simp only [List.cons_append, List.head?_cons, List.tail_cons, Option.some.injEq] at h ⊢
          by_cases c2 : b = 10
          · simp only [c2, if_true] at h
            exact absurd h (skipLines_ne_longer cfg n (by simp))
          · simp only [c2, if_false] at h ⊢
            cases p1 with
            | nil =>
              simp at hp
              exact absurd hp c2
            | cons b2 p2 =>
              simp only [List.cons_append, List.head?_cons, Option.some.injEq] at h ⊢
              by_cases c3 : b = 13 ∧ b2 = 10
              · rw [if_pos c3] at h
                simp only [List.tail_cons] at h
                exact absurd h (skipLines_ne_longer cfg n (by simp; omega))
              · rw [if_neg c3]
    | cons b s1 =>
      have hD : (b :: s1) ++ (p ++ r') ≠ [] := by simp
      have hDy : (b :: s1) ++ (p ++ y) ≠ [] := by simp
      simp only [skipLines, hD, if_false] at h
      simp only [skipLines, hDy, if_false]
      have hlt : ∀ z : Bytes, z.length < (p ++ r').length → skipLines cfg n z ≠ p ++ r' := by
        intro z hz he
        have := skipLines_length cfg n z
        rw [he] at this
        omega
      simp only [List.length_cons] at hs hm
      by_cases c1 : cfg.comment ≠ [] ∧ cfg.comment.isPrefixOf ((b :: s1) ++ (p ++ r')) = true
      · rw [if_pos c1] at h
        have h10s : 10 ∈ (b :: s1) := by
          apply Classical.byContradiction
          intro hno
          rw [dropLine_append_no _ hno] at h
          exact hlt _ (dropLine_length_lt (by simp [hpn])) h
        rw [dropLine_append _ h10s] at h
        have hdl := dropLine_length_lt (d := b :: s1) (by simp)
        simp only [List.length_cons] at hdl
        have c1' : cfg.comment ≠ [] ∧ cfg.comment.isPrefixOf ((b :: s1) ++ (p ++ y)) = true := by
          refine ⟨c1.1, ?_⟩
          rw [prefix_with_newline _ _ _ hc h10s]
          rw [prefix_with_newline _ _ _ hc h10s] at c1
          exact c1.2
        rw [if_pos c1']
        rw [dropLine_append _ h10s]
        exact ih _ (by omega) h y m' (by omega)
      · rw [if_neg c1] at h
        simp only [List.cons_append, List.head?_cons, List.tail_cons, Option.some.injEq] at h
        by_cases c2 : b = 10
        · simp only [c2, if_true] at h
          have h10s : 10 ∈ (b :: s1) := by simp [c2]
          have c1' : ¬ (cfg.comment ≠ [] ∧ cfg.comment.isPrefixOf ((b :: s1) ++ (p ++ y)) = true) := by
            intro hx
            apply c1
            refine ⟨hx.1, ?_⟩
            rw [prefix_with_newline _ _ _ hc h10s]
            rw [prefix_with_newline _ _ _ hc h10s] at hx
            exact hx.2
          rw [if_neg c1']
          simp only [List.cons_append, List.head?_cons, List.tail_cons, Option.some.injEq, c2, if_true]
          exact ih s1 (by omega) h y m' (by omega)
        · simp only [c2, if_false] at h
          by_cases c3 : b = 13 ∧ (s1 ++ (p ++ r')).head? = some 10
          · rw [if_pos c3] at h
            cases s1 with
            | nil =>
              simp only [List.nil_append] at h
              exact absurd h (hlt _ (by cases p with | nil => exact absurd rfl hpn | cons _ _ => simp))
            | cons b2 s2 =>
              have hb2 : b2 = 10 := by simpa using c3.2
              simp only [List.cons_append, List.tail_cons] at h
              have h10s : 10 ∈ (b :: b2 :: s2) := by simp [hb2]
              have c1' : ¬ (cfg.comment ≠ [] ∧ cfg.comment.isPrefixOf ((b :: b2 :: s2) ++ (p ++ y)) = true) := by
                intro hx
                apply c1
                refine ⟨hx.1, ?_⟩
                rw [prefix_with_newline _ _ _ hc h10s]
                rw [prefix_with_newline _ _ _ hc h10s] at hx
                exact hx.2
              rw [if_neg c1']
              simp only [List.cons_append, List.head?_cons, List.tail_cons, Option.some.injEq, c2, if_false, c3.1, hb2,
                and_self, if_true]
              simp only [List.length_cons] at hs hm
              exact ih s2 (by omega) h y m' (by omega)
          · rw [if_neg c3] at h
            have := congrArg List.length h
            simp at this
            omega


/-! ### one row -/

theorem dropLine_suffix : ∀ d : Bytes, ∃ l, d = l ++ dropLine d := by
  intro d
  induction d with
  | nil => exact ⟨[], rfl⟩
  | cons b d ih =>
    simp only [dropLine]
    by_cases hb : b = 10
    · exact ⟨[b], by simp [hb]⟩
    · obtain ⟨l, hl⟩ := ih
      refine ⟨b :: l, ?_⟩
      simp only [hb, if_false, List.cons_append]
      rw [← hl]

theorem skipLines_suffix (cfg : Cfg) : ∀ (n : Nat) (d : Bytes), ∃ s, d = s ++ skipLines cfg n d := by
  intro n
  induction n with
  | zero => intro d; exact ⟨[], rfl⟩
  | succ n ih =>
    intro d
    simp only [skipLines]
    split
    · exact ⟨[], rfl⟩
    · split
      · obtain ⟨l, hl⟩ := dropLine_suffix d
        obtain ⟨s, hs⟩ := ih (dropLine d)
        exact ⟨l ++ s, by rw [List.append_assoc, ← hs, ← hl]⟩
      · split
        · cases d with
          | nil => rename_i h0 _ _; exact absurd rfl h0
          | cons b t =>
            obtain ⟨s, hs⟩ := ih t
            exact ⟨b :: s, by simp only [List.tail_cons, List.cons_append]; rw [← hs]⟩
        · split
          · cases d with
            | nil => rename_i h0 _ _ _; exact absurd rfl h0
            | cons b t =>
              cases t with
              | nil => rename_i _ _ _ h3; simp at h3
              | cons b2 t2 =>
                obtain ⟨s, hs⟩ := ih t2
                exact ⟨b :: b2 :: s, by simp only [List.tail_cons, List.cons_append]; rw [← hs]⟩
          · exact ⟨[], rfl⟩

theorem recordText_noeof (raw : Bytes) (c hasCR : Bool) : recordText raw false c hasCR = recordText raw false false hasCR := by
  simp [recordText]

/-- **Token stability, one row.** If a row is decided before EOF is known, the data is `s ++ p ++ r'` with `s` the
skipped lines and `p` the record's own bytes (ending in `\n`), and the same row — same advance, fields and `$0` — is
decided for `s ++ p` followed by anything, at EOF or not, with or without a dropped final `\r`. -/
theorem rowCore_stable (cfg : Cfg) (hs : validSep cfg.sep = true) (hc : 10 ∉ cfg.comment) (d : Bytes)
    (a : Nat) (fs : List Bytes) (t : Bytes) (h : rowCore cfg d false false = some (a, fs, t)) :
    ∃ s p r', d = s ++ (p ++ r') ∧ p.getLast? = some 10 ∧ a = s.length + p.length ∧
      ∀ (y : Bytes) (c eof' : Bool), rowCore cfg (s ++ (p ++ y)) c eof' = some (a, fs, t) := by
  unfold rowCore at h
  simp only at h
  generalize hr : skipLines cfg (d.length + 1) d = r at h
  by_cases hre : r.isEmpty = true
  · simp [hre] at h
  · simp only [hre, Bool.false_eq_true, if_false] at h
    cases hff : fieldsFuel cfg.sep (r.length + 1) r with
    | mk fs0 q =>
      obtain ⟨r', ee, hcr⟩ := q
      rw [hff] at h
      cases ee with
      | true => simp at h
      | false =>
        simp only [Bool.false_and, Bool.false_eq_true, if_false, Option.some.injEq, Prod.mk.injEq] at h
        obtain ⟨ha, hfs, ht⟩ := h
        obtain ⟨s, hds⟩ := skipLines_suffix cfg (d.length + 1) d
        rw [hr] at hds
        obtain ⟨p, hrp, hpl, hpp, hlen⟩ := fieldsFuel_prefix hs _ r fs0 r' hcr hff
        have hpn : p ≠ [] := by intro h0; simp [h0] at hpl
        refine ⟨s, p, r', by rw [hds, hrp], hpl, ?_, ?_⟩
        · rw [← ha, hds, hrp]; simp
        · intro y c eof'
          have hsk : skipLines cfg ((s ++ (p ++ y)).length + 1) (s ++ (p ++ y)) = p ++ y := by
            apply skipLines_stable cfg hc p r' hpl (d.length + 1) s (by rw [hds]; simp; omega) _ y _ (by simp; omega)
            rw [← hrp, ← hds]; exact hr
          have hfy : fieldsFuel cfg.sep ((p ++ y).length + 1) (p ++ y) = (fs0, y, false, hcr) := by
            have h1 := fieldsFuel_fuel cfg.sep _ p fs0 [] hcr hpp ((p ++ y).length + 1) (by simp; omega)
            have h2 := fieldsFuel_ext hs y _ p fs0 [] hcr h1
            simpa using h2
          unfold rowCore
          simp only [hsk]
          have hne : (p ++ y).isEmpty = false := by cases p with | nil => exact absurd rfl hpn | cons _ _ => rfl
          simp only [hne, Bool.false_eq_true, if_false, hfy, Bool.false_and]
          have e1 : (p ++ y).length - y.length = p.length := by simp
          have e2 : (s ++ (p ++ y)).length - (p ++ y).length = s.length := by simp
          have e3 : r.length - r'.length = p.length := by rw [hrp]; simp
          rw [e1, e2]
          rw [e3] at ht
          have e4 : (p ++ y).take p.length = p := by simp
          have e5 : r.take p.length = p := by rw [hrp]; simp
          rw [e4, recordText_noeof]
          rw [e5] at ht
          simp only [Nat.add_zero, Option.some.injEq, Prod.mk.injEq]
          refine ⟨?_, hfs, ht⟩
          rw [← ha, hds, hrp]; simp


theorem dropFinalCR_keep (s p y : Bytes) (hp : p.getLast? = some 10) :
    ∃ y' c, dropFinalCR (s ++ (p ++ y)) = (s ++ (p ++ y'), c) := by
  unfold dropFinalCR
  by_cases hl : (s ++ (p ++ y)).getLast? = some 13
  · have hy : y ≠ [] := by
      intro h0
      subst h0
      have hpn : p ≠ [] := by intro h; simp [h] at hp
      rw [List.append_nil, List.getLast?_append, hp] at hl
      simp at hl
    refine ⟨y.dropLast, true, ?_⟩
    simp only [hl, if_true]
    have hpy : p ++ y ≠ [] := by simp [hy]
    rw [List.dropLast_append_of_ne_nil hpy, List.dropLast_append_of_ne_nil hy]
  · exact ⟨y, false, by rw [if_neg hl]⟩

theorem dropFinalCR_length (d : Bytes) : (dropFinalCR d).1.length + (if (dropFinalCR d).2 then 1 else 0) = d.length := by
  unfold dropFinalCR
  by_cases hl : d.getLast? = some 13
  · have : d ≠ [] := by intro h; simp [h] at hl
    have hpos := List.length_pos_iff.mpr this
    simp [hl]; omega
  · simp [hl]

theorem rowAt_stable (cfg : Cfg) (hs : validSep cfg.sep = true) (hc : 10 ∉ cfg.comment) (d : Bytes)
    (a : Nat) (fs : List Bytes) (t : Bytes) (h : rowAt cfg d false = some (a, fs, t)) :
    0 < a ∧ a ≤ d.length ∧ 10 ∈ d ∧ ∀ (x : Bytes) (eof' : Bool), rowAt cfg (d ++ x) eof' = some (a, fs, t) := by
  have h' : rowCore cfg d false false = some (a, fs, t) := by simpa [rowAt] using h
  obtain ⟨s, p, r', hd, hpl, ha, hall⟩ := rowCore_stable cfg hs hc d a fs t h'
  have hpn : p ≠ [] := by intro h0; simp [h0] at hpl
  have hppos := List.length_pos_iff.mpr hpn
  refine ⟨by omega, by rw [hd, ha]; simp, ?_, ?_⟩
  · rw [hd]; simp [mem_of_getLast? hpl]
  · intro x eof'
    have hdx : d ++ x = s ++ (p ++ (r' ++ x)) := by rw [hd]; simp
    rw [hdx]
    cases eof' with
    | false => simpa [rowAt] using hall (r' ++ x) false false
    | true =>
      obtain ⟨y', c, hy⟩ := dropFinalCR_keep s p (r' ++ x) hpl
      have hne : (s ++ (p ++ (r' ++ x))).isEmpty = false := by
        cases p with
        | nil => exact absurd rfl hpn
        | cons _ _ => cases s <;> rfl
      simp only [rowAt, if_true, hne, Bool.false_eq_true, if_false, hy]
      exact hall y' c true

theorem bom_no10 : 10 ∉ bom := by decide

theorem scanRow_stable (cfg : Cfg) (hs : validSep cfg.sep = true) (hc : 10 ∉ cfg.comment) (nb : Bool) (d : Bytes)
    (a : Nat) (fs : List Bytes) (t : Bytes) (h : scanRow cfg nb d false = some (a, fs, t)) :
    0 < a ∧ a ≤ d.length ∧ ∀ (x : Bytes) (eof' : Bool), scanRow cfg nb (d ++ x) eof' = some (a, fs, t) := by
  unfold scanRow at h
  simp only at h
  by_cases hB : (!nb && bom.isPrefixOf d) = true
  · simp only [hB, if_true] at h
    have hbp : bom.isPrefixOf d = true := by
      cases hx : bom.isPrefixOf d with
      | true => rfl
      | false => simp [hx] at hB
    have hlen : 3 ≤ d.length := (List.isPrefixOf_iff_prefix.mp hbp).length_le
    cases hr : rowAt cfg (d.drop 3) false with
    | none => rw [hr] at h; simp at h
    | some v =>
      obtain ⟨a', fs', t'⟩ := v
      rw [hr] at h
      simp only [Option.some.injEq, Prod.mk.injEq] at h
      obtain ⟨rfl, rfl, rfl⟩ := h
      obtain ⟨h0, hle, -, hall⟩ := rowAt_stable cfg hs hc _ a' fs' t' hr
      simp only [List.length_drop] at hle
      refine ⟨by omega, by omega, ?_⟩
      intro x eof'
      have hB' : (!nb && bom.isPrefixOf (d ++ x)) = true := by
        simp at hB ⊢
        exact ⟨hB.1, by simpa using isPrefixOf_append_mono x hbp⟩
      unfold scanRow
      simp only [hB', if_true]
      rw [List.drop_append_of_le_length hlen, hall x eof']
  · simp only [Bool.not_eq_true] at hB
    simp only [hB, Bool.false_eq_true, if_false, List.drop_zero] at h
    cases hr : rowAt cfg d false with
    | none => rw [hr] at h; simp at h
    | some v =>
      obtain ⟨a', fs', t'⟩ := v
      rw [hr] at h
      simp only [Option.some.injEq, Prod.mk.injEq, Nat.zero_add] at h
      obtain ⟨rfl, rfl, rfl⟩ := h
      obtain ⟨h0, hle, h10, hall⟩ := rowAt_stable cfg hs hc _ a' fs' t' hr
      refine ⟨h0, hle, ?_⟩
      intro x eof'
      have hB' : (!nb && bom.isPrefixOf (d ++ x)) = false := by
        cases nb with
        | true => simp
        | false =>
          simp only [Bool.not_false, Bool.true_and] at hB ⊢
          cases hx : bom.isPrefixOf (d ++ x) with
          | false => rfl
          | true =>
            exfalso
            obtain ⟨-, hm⟩ := proper_prefix hB hx
            exact bom_no10 (hm _ h10)
      unfold scanRow
      simp only [hB', Bool.false_eq_true, if_false, List.drop_zero, hall x eof', Nat.zero_add]

/-- every decided row advances, and stays inside the data -/
theorem rowCore_bounds (cfg : Cfg) (hs : validSep cfg.sep = true) (d : Bytes) (c e : Bool) (a : Nat) (fs : List Bytes) (t : Bytes)
    (h : rowCore cfg d c e = some (a, fs, t)) : 0 < a ∧ a ≤ d.length + (if c then 1 else 0) := by
  unfold rowCore at h
  simp only at h
  have hsl := skipLines_length cfg (d.length + 1) d
  generalize skipLines cfg (d.length + 1) d = r at h hsl
  by_cases hre : r.isEmpty = true
  · simp [hre] at h
  · simp only [hre, Bool.false_eq_true, if_false] at h
    have hrn : r ≠ [] := by intro h0; simp [h0] at hre
    have hrpos := List.length_pos_iff.mpr hrn
    cases hff : fieldsFuel cfg.sep (r.length + 1) r with
    | mk fs0 q =>
      obtain ⟨r', ee, hcr⟩ := q
      rw [hff] at h
      cases ee with
      | true =>
        by_cases he : (true && !e) = true
        · simp [he] at h
        · simp only [he, Bool.false_eq_true, if_false, if_true, Option.some.injEq, Prod.mk.injEq, Bool.true_and] at h
          obtain ⟨rfl, -, -⟩ := h
          constructor
          · omega
          · cases c <;> simp <;> omega
      | false =>
        simp only [Bool.false_and, Bool.false_eq_true, if_false, Option.some.injEq, Prod.mk.injEq] at h
        obtain ⟨rfl, -, -⟩ := h
        obtain ⟨p, hrp, hpl, -, -⟩ := fieldsFuel_prefix hs _ r fs0 r' hcr hff
        have hpn : p ≠ [] := by intro h0; simp [h0] at hpl
        have hppos := List.length_pos_iff.mpr hpn
        have : r.length - r'.length = p.length := by rw [hrp]; simp
        rw [this]
        have hrl : r.length = p.length + r'.length := by rw [hrp]; simp
        constructor
        · omega
        · cases c <;> simp <;> omega

theorem scanRow_bounds (cfg : Cfg) (hs : validSep cfg.sep = true) (nb : Bool) (x : Bytes) (e : Bool) (a : Nat) (fs : List Bytes)
    (t : Bytes) (h : scanRow cfg nb x e = some (a, fs, t)) : 0 < a ∧ a ≤ x.length := by
  unfold scanRow at h
  simp only at h
  have key : ∀ (d0 : Bytes) (a' : Nat), rowAt cfg d0 e = some (a', fs, t) → 0 < a' ∧ a' ≤ d0.length := by
    intro d0 a' hr
    unfold rowAt at hr
    cases e with
    | false =>
      simp only [Bool.false_eq_true, if_false] at hr
      simpa using rowCore_bounds cfg hs d0 false false a' fs t hr
    | true =>
      simp only [if_true] at hr
      by_cases hem : d0.isEmpty = true
      · simp [hem] at hr
      · simp only [hem, Bool.false_eq_true, if_false] at hr
        have := rowCore_bounds cfg hs _ _ true a' fs t hr
        have hl := dropFinalCR_length d0
        omega
  by_cases hB : (!nb && bom.isPrefixOf x) = true
  · simp only [hB, if_true] at h
    have hbp : bom.isPrefixOf x = true := by
      cases hx : bom.isPrefixOf x with
      | true => rfl
      | false => simp [hx] at hB
    have hlen : 3 ≤ x.length := (List.isPrefixOf_iff_prefix.mp hbp).length_le
    cases hr : rowAt cfg (x.drop 3) e with
    | none => rw [hr] at h; simp at h
    | some v =>
      obtain ⟨a', fs', t'⟩ := v
      rw [hr] at h
      simp only [Option.some.injEq, Prod.mk.injEq] at h
      obtain ⟨rfl, rfl, rfl⟩ := h
      have := key _ _ hr
      simp only [List.length_drop] at this
      omega
  · simp only [Bool.not_eq_true] at hB
    simp only [hB, Bool.false_eq_true, if_false, List.drop_zero] at h
    cases hr : rowAt cfg x e with
    | none => rw [hr] at h; simp at h
    | some v =>
      obtain ⟨a', fs', t'⟩ := v
      rw [hr] at h
      simp only [Option.some.injEq, Prod.mk.injEq, Nat.zero_add] at h
      obtain ⟨rfl, rfl, rfl⟩ := h
      exact key _ _ hr


/-! ### one call of the split function -/

theorem csvScan_record_stable (cfg : Cfg) (hs : validSep cfg.sep = true) (hc : 10 ∉ cfg.comment) (st : St) (buf : Bytes)
    (n : Nat) (names : Option (List Bytes)) (fs : List Bytes) (t : Bytes)
    (h : csvScan cfg st buf false = .record n names fs t) :
    0 < n ∧ n ≤ buf.length ∧ ∀ (x : Bytes) (e : Bool), csvScan cfg st (buf ++ x) e = .record n names fs t := by
  unfold csvScan at h
  cases h1 : scanRow cfg st.noBOM buf false with
  | none => rw [h1] at h; simp at h
  | some v =>
    obtain ⟨adv, f1, t1⟩ := v
    rw [h1] at h
    obtain ⟨a0, ale, astab⟩ := scanRow_stable cfg hs hc _ buf adv f1 t1 h1
    simp only at h
    by_cases hh : (st.row0 && cfg.header) = true
    · simp only [hh, if_true] at h
      cases h2 : scanRow cfg true (buf.drop adv) false with
      | none => rw [h2] at h; simp at h
      | some w =>
        obtain ⟨m, f2, t2⟩ := w
        rw [h2] at h
        simp only [Dec.record.injEq] at h
        obtain ⟨rfl, rfl, rfl, rfl⟩ := h
        obtain ⟨m0, mle, mstab⟩ := scanRow_stable cfg hs hc _ _ m f2 t2 h2
        simp only [List.length_drop] at mle
        refine ⟨by omega, by omega, ?_⟩
        intro x e
        unfold csvScan
        simp only [astab x e, hh, if_true]
        rw [List.drop_append_of_le_length ale, mstab x e]
    · simp only [hh, Bool.false_eq_true, if_false, Dec.record.injEq] at h
      obtain ⟨rfl, rfl, rfl, rfl⟩ := h
      refine ⟨a0, ale, ?_⟩
      intro x e
      unfold csvScan
      simp only [astab x e, hh, Bool.false_eq_true, if_false]

theorem csvScan_skip_stable (cfg : Cfg) (hs : validSep cfg.sep = true) (hc : 10 ∉ cfg.comment) (st : St) (buf : Bytes)
    (n : Nat) (names : List Bytes) (h : csvScan cfg st buf false = .skip n names) :
    (st.row0 && cfg.header) = true ∧ 0 < n ∧ n ≤ buf.length ∧
      ∃ t, ∀ (x : Bytes) (e : Bool), scanRow cfg st.noBOM (buf ++ x) e = some (n, names, t) := by
  unfold csvScan at h
  cases h1 : scanRow cfg st.noBOM buf false with
  | none => rw [h1] at h; simp at h
  | some v =>
    obtain ⟨adv, f1, t1⟩ := v
    rw [h1] at h
    obtain ⟨a0, ale, astab⟩ := scanRow_stable cfg hs hc _ buf adv f1 t1 h1
    simp only at h
    by_cases hh : (st.row0 && cfg.header) = true
    · simp only [hh, if_true] at h
      cases h2 : scanRow cfg true (buf.drop adv) false with
      | none =>
        rw [h2] at h
        simp only [Dec.skip.injEq] at h
        obtain ⟨rfl, rfl⟩ := h
        exact ⟨hh, a0, ale, t1, astab⟩
      | some w => rw [h2] at h; simp at h
    · simp only [hh, Bool.false_eq_true, if_false] at h
      exact absurd h (by simp)

/-! ### the scanner loop -/

def measure (buf : Bytes) (chunks : List Bytes) (eof : Bool) : Nat :=
  buf.length + totalLen chunks + chunks.length + (if eof then 0 else 1)

theorem readNext_spec (ew : Bool) (buf : Bytes) (chunks : List Bytes) :
    (readNext ew buf chunks).1 ++ (readNext ew buf chunks).2.1.flatten = buf ++ chunks.flatten ∧
    ((readNext ew buf chunks).2.2 = true → (readNext ew buf chunks).2.1 = []) ∧
    measure (readNext ew buf chunks).1 (readNext ew buf chunks).2.1 (readNext ew buf chunks).2.2 < measure buf chunks false := by
  cases chunks with
  | nil => simp [readNext, measure, totalLen]
  | cons c cs =>
    cases cs with
    | nil =>
      simp only [readNext, measure, totalLen]
      refine ⟨by simp, by simp, ?_⟩
      cases ew <;> simp <;> omega
    | cons c2 cs2 =>
      simp only [readNext, measure, totalLen]
      refine ⟨by simp, by simp, ?_⟩
      simp; omega

/-- at EOF the result does not depend on the fuel, once it covers the remaining bytes -/
theorem run_eof_fuel (cfg : Cfg) (ew : Bool) : ∀ (f1 f2 : Nat) (st : St) (x : Bytes) (out : Out),
    x.length < f1 → x.length < f2 → run cfg ew f1 st x [] true out = run cfg ew f2 st x [] true out := by
  intro f1
  induction f1 with
  | zero => intro f2 st x out h; omega
  | succ f1 ih =>
    intro f2 st x out h1 h2
    cases f2 with
    | zero => omega
    | succ f2 =>
      rw [run, run]
      simp only [Bool.or_true, if_true]
      cases csvScan cfg st x true with
      | more => rfl
      | skip n fs => rfl
      | record n names fs t =>
        simp only
        by_cases hg : 0 < n ∧ n ≤ x.length
        · simp only [hg, and_self, if_true]
          apply ih
          · simp only [List.length_drop]; omega
          · simp only [List.length_drop]; omega
        · simp only [hg, if_false]


theorem measure_drop {buf : Bytes} {n : Nat} (chunks : List Bytes) (eof : Bool) (h0 : 0 < n) (hle : n ≤ buf.length) :
    measure (buf.drop n) chunks eof < measure buf chunks eof := by
  simp only [measure, List.length_drop]; omega

theorem measure_drop_le (buf : Bytes) (n : Nat) (chunks : List Bytes) (eof : Bool) :
    measure (buf.drop n) chunks eof ≤ measure buf chunks eof := by
  simp only [measure, List.length_drop]; omega

/-- **The scanner loop refines to the one-piece scan.** From any state of the loop, what is still produced equals what
the loop produces when the whole remaining input is in the buffer and EOF is known. -/
theorem run_eq_final (cfg : Cfg) (ew : Bool) (hs : validSep cfg.sep = true) (hc : 10 ∉ cfg.comment) :
    ∀ (fuel : Nat) (st : St) (buf : Bytes) (chunks : List Bytes) (eof : Bool) (out : Out) (f' : Nat),
      measure buf chunks eof < fuel → (eof = true → chunks = []) → (buf ++ chunks.flatten).length < f' →
      run cfg ew fuel st buf chunks eof out = run cfg ew f' st (buf ++ chunks.flatten) [] true out := by
  intro fuel
  induction fuel with
  | zero => intro st buf chunks eof out f' h; omega
  | succ fuel ih =>
    intro st buf chunks eof out f' hm he hf
    cases eof with
    | true =>
      have := he rfl
      subst this
      simp only [List.flatten_nil, List.append_nil] at hf ⊢
      apply run_eof_fuel
      · simp [measure, totalLen] at hm; omega
      · exact hf
    | false =>
      obtain ⟨hx, hxe, hxm⟩ := readNext_spec ew buf chunks
      -- reading one more chunk and going on, by induction
      have hread : ∀ (st : St) (out : Out),
          run cfg ew fuel st (readNext ew buf chunks).1 (readNext ew buf chunks).2.1 (readNext ew buf chunks).2.2 out =
            run cfg ew f' st (buf ++ chunks.flatten) [] true out := by
        intro st out
        rw [← hx]
        exact ih st _ _ _ out f' (by omega) hxe (by rw [hx]; exact hf)
      rw [run]
      by_cases hb : buf.isEmpty = true
      · simp only [hb, Bool.not_true, Bool.or_false, Bool.false_eq_true, if_false]
        exact hread st out
      · simp only [Bool.not_eq_true] at hb
        simp only [hb, Bool.not_false, Bool.true_or, if_true]
        cases hD : csvScan cfg st buf false with
        | more =>
          simp only [Bool.false_eq_true, if_false]
          exact hread st out
        | record n names fs t =>
          obtain ⟨n0, nle, nstab⟩ := csvScan_record_stable cfg hs hc st buf n names fs t hD
          simp only [n0, nle, and_self, if_true]
          cases f' with
          | zero => omega
          | succ f'' =>
            rw [ih _ (buf.drop n) chunks false _ f'' (by have := measure_drop chunks false n0 nle; omega) (by simp)
              (by simp only [List.length_append, List.length_drop] at hf ⊢; omega)]
            rw [run]
            have hle' : n ≤ (buf ++ chunks.flatten).length := by simp; omega
            simp only [Bool.or_true, if_true, nstab chunks.flatten true, n0, hle', and_self]
            rw [List.drop_append_of_le_length nle]
        | skip n names =>
          obtain ⟨hh, n0, nle, t1, nstab⟩ := csvScan_skip_stable cfg hs hc st buf n names hD
          simp only [nle, if_true, Bool.false_eq_true, if_false]
          obtain ⟨hx2, hxe2, hxm2⟩ := readNext_spec ew (buf.drop n) chunks
          cases f' with
          | zero => omega
          | succ f'' =>
            have hlenX : ((buf.drop n) ++ chunks.flatten).length < f'' := by
              simp only [List.length_append, List.length_drop] at hf ⊢; omega
            have hm2 := measure_drop_le buf n chunks false
            have hlenX' := hlenX
            rw [← hx2] at hlenX'
            rw [ih _ _ _ _ _ f'' (by omega) hxe2 hlenX', hx2]
            -- the one-piece side: the header row, then whatever the rest gives
            have hle' : n ≤ (buf ++ chunks.flatten).length := by simp; omega
            have hdrop : (buf ++ chunks.flatten).drop n = buf.drop n ++ chunks.flatten :=
              List.drop_append_of_le_length nle
            conv => rhs; rw [run]
            simp only [Bool.or_true, if_true]
            unfold csvScan
            simp only [nstab chunks.flatten true, hh, if_true, hdrop]
            cases f'' with
            | zero => omega
            | succ f3 =>
              rw [run]
              simp only [Bool.or_true, if_true]
              unfold csvScan
              cases h2 : scanRow cfg true (buf.drop n ++ chunks.flatten) true with
              | none =>
                simp only [hle', if_true, Bool.false_and, Bool.false_eq_true, if_false]
              | some w =>
                obtain ⟨m, f2, t2⟩ := w
                obtain ⟨m0, mle⟩ := scanRow_bounds cfg hs true _ true m f2 t2 h2
                have hg1 : 0 < n + m ∧ n + m ≤ (buf ++ chunks.flatten).length := by
                  simp only [List.length_append, List.length_drop] at mle ⊢; omega
                simp only [Bool.false_and, Bool.false_eq_true, if_false, m0, mle, and_self, if_true, hg1, Option.isSome_some,
                  Option.isSome_none]
                rw [← hdrop, List.drop_drop]
                apply run_eof_fuel
                · simp only [List.length_drop, List.length_append] at hlenX ⊢; omega
                · simp only [List.length_drop, List.length_append] at hlenX ⊢; omega


/-- at EOF with no chunk left the reader is never consulted -/
theorem run_eof_ew (cfg : Cfg) (ew ew' : Bool) : ∀ (f : Nat) (st : St) (x : Bytes) (out : Out),
    run cfg ew f st x [] true out = run cfg ew' f st x [] true out := by
  intro f
  induction f with
  | zero => intro st x out; rfl
  | succ f ih =>
    intro st x out
    rw [run, run]
    simp only [Bool.or_true, if_true]
    cases csvScan cfg st x true with
    | more => rfl
    | skip n fs => rfl
    | record n names fs t =>
      simp only
      by_cases hg : 0 < n ∧ n ≤ x.length
      · simp only [hg, and_self, if_true]; exact ih _ _ _
      · simp only [hg, if_false]

/-- the scanner applied to the whole input in one piece, with EOF known from the start -/
def scanWhole (cfg : Cfg) (x : Bytes) : Out := run cfg false (x.length + 1) {} x [] true {}

theorem csvScanAll_eq_scanWhole (cfg : Cfg) (hs : validSep cfg.sep = true) (hc : 10 ∉ cfg.comment) (ew : Bool)
    (chunks : List Bytes) : csvScanAll cfg ew chunks = scanWhole cfg chunks.flatten := by
  unfold csvScanAll scanWhole
  rw [run_eq_final cfg ew hs hc _ {} [] chunks false {} (chunks.flatten.length + 1) (by simp [measure]) (by simp)
    (by simp)]
  simp only [List.nil_append]
  exact run_eof_ew cfg ew false _ _ _ _

end GoawkModel.C08
